import SSV.Model.ClientGroups
/-
Helper lemmas for C19, probe part 2: the strict-improvement scan returns the FIRST index with the
best score (for a strict comparison), and always an index of the list (for any comparison).
-/
namespace SSV.ClientGroups
open SSV.Gen.C19

/-- what the theorems need of an improvement test: a strict total order on scores -/
structure StrictOrd (b : Nat → Nat → Bool) : Prop where
  irrefl : ∀ a, b a a = false
  trans : ∀ x y z, b x y = true → b y z = true → b x z = true
  total : ∀ x y, b x y = false → b y x = false → x = y

theorem strictOrd_lt : StrictOrd (cmpTest .lt) where
  irrefl a := by simp [cmpTest]
  trans x y z h1 h2 := by simp [cmpTest] at *; omega
  total x y h1 h2 := by simp [cmpTest] at *; omega

theorem strictOrd_gt : StrictOrd (cmpTest .gt) where
  irrefl a := by simp [cmpTest]
  trans x y z h1 h2 := by simp [cmpTest] at *; omega
  total x y h1 h2 := by simp [cmpTest] at *; omega

/-- `i` is the first position of `l` whose entry no other entry beats -/
def FirstBestL (b : Nat → Nat → Bool) (l : List Nat) (i : Nat) : Prop :=
  ∃ h : i < l.length, (∀ j (hj : j < l.length), b l[j] l[i] = false) ∧ (∀ j (hj : j < i), b l[i] (l[j]'(by omega)) = true)

/-- invariant of the scan after the prefix `pre` -/
structure ScanInv (b : Nat → Nat → Bool) (init : Nat) (pre : List Nat) (acc : Nat × Nat) : Prop where
  noBetter : ∀ (j x : Nat), pre[j]? = some x → b x acc.2 = false
  first : (pre[acc.1]? = some acc.2 ∧ ∀ (j x : Nat), j < acc.1 → pre[j]? = some x → b acc.2 x = true) ∨
          (acc.1 = 0 ∧ acc.2 = init ∧ ∀ (j x : Nat), pre[j]? = some x → b x init = false)

theorem scanInv_nil (b : Nat → Nat → Bool) (init : Nat) : ScanInv b init [] (0, init) :=
  ⟨by simp, Or.inr ⟨rfl, rfl, by simp⟩⟩

theorem getElem?_snoc_cases {pre : List Nat} {s : Nat} {j x : Nat} (h : (pre ++ [s])[j]? = some x) :
    pre[j]? = some x ∨ (j = pre.length ∧ x = s) := by
  by_cases hj : j < pre.length
  · left
    rw [List.getElem?_append_left hj] at h
    exact h
  · right
    have hj' : pre.length ≤ j := by omega
    rw [List.getElem?_append_right hj'] at h
    by_cases h0 : j - pre.length = 0
    · rw [h0] at h
      simp at h
      exact ⟨by omega, h.symm⟩
    · have : ∃ k, j - pre.length = k + 1 := ⟨j - pre.length - 1, by omega⟩
      obtain ⟨k, hk⟩ := this
      rw [hk] at h
      simp at h

theorem scanInv_step (b : Nat → Nat → Bool) (hb : StrictOrd b) (init : Nat) (pre : List Nat) (s : Nat) (acc : Nat × Nat)
    (h : ScanInv b init pre acc) :
    ScanInv b init (pre ++ [s]) (if b s acc.2 then (pre.length, s) else acc) := by
  obtain ⟨bi, bs⟩ := acc
  by_cases hbt : b s bs = true
  · simp only [hbt, if_true]
    have key : ∀ (j x : Nat), pre[j]? = some x → b x s = false := by
      intro j x hx
      cases hxs : b x s with
      | false => rfl
      | true =>
        have := hb.trans x s bs hxs hbt
        rw [h.noBetter j x hx] at this
        exact absurd this (by simp)
    refine ⟨?_, Or.inl ⟨?_, ?_⟩⟩
    · intro j x hx
      rcases getElem?_snoc_cases hx with h1 | ⟨_, h2⟩
      · exact key j x h1
      · subst h2; exact hb.irrefl _
    · simp
    · intro j x hj hx
      have hx' : pre[j]? = some x := by
        rw [List.getElem?_append_left (by simpa using hj)] at hx
        exact hx
      cases hsx : b s x with
      | true => rfl
      | false =>
        have hxeq := hb.total s x hsx (key j x hx')
        subst hxeq
        have := h.noBetter j s hx'
        simp only at this
        rw [hbt] at this
        exact absurd this (by simp)
  · have hbf : b s bs = false := by
      cases hh : b s bs with
      | true => exact absurd hh hbt
      | false => rfl
    simp only [hbf, Bool.false_eq_true, if_false]
    have hn : ∀ (j x : Nat), pre[j]? = some x → b x bs = false := h.noBetter
    have hf : (pre[bi]? = some bs ∧ ∀ (j x : Nat), j < bi → pre[j]? = some x → b bs x = true) ∨
          (bi = 0 ∧ bs = init ∧ ∀ (j x : Nat), pre[j]? = some x → b x init = false) := h.first
    refine ⟨?_, ?_⟩
    · intro j x hx
      rcases getElem?_snoc_cases hx with h1 | ⟨_, h2⟩
      · exact hn j x h1
      · subst h2; exact hbf
    · rcases hf with ⟨h1, h2⟩ | ⟨h1, h2, h3⟩
      · left
        have hlt : bi < pre.length := (List.getElem?_eq_some_iff.mp h1).1
        refine ⟨?_, ?_⟩
        · show (pre ++ [s])[bi]? = some bs
          rw [List.getElem?_append_left hlt]
          exact h1
        · intro j x hj hx
          have hj' : j < bi := hj
          rw [List.getElem?_append_left (by omega)] at hx
          exact h2 j x hj' hx
      · right
        refine ⟨h1, h2, ?_⟩
        intro j x hx
        rcases getElem?_snoc_cases hx with h4 | ⟨_, h5⟩
        · exact h3 j x h4
        · subst h5
          rw [← h2]
          exact hbf

theorem scanFrom_inv (c : CmpOp) (hb : StrictOrd (cmpTest c)) (init : Nat) :
    ∀ (rest pre : List Nat) (acc : Nat × Nat), ScanInv (cmpTest c) init pre acc →
      ScanInv (cmpTest c) init (pre ++ rest) (scanFrom c rest pre.length acc)
  | [], pre, acc, h => by simpa [scanFrom] using h
  | s :: rest, pre, (bi, bs), h => by
    have h1 := scanInv_step (cmpTest c) hb init pre s (bi, bs) h
    have h2 := scanFrom_inv c hb init rest (pre ++ [s]) _ h1
    simp only [scanFrom]
    have e : (pre ++ [s]).length = pre.length + 1 := by simp
    rw [e] at h2
    simpa using h2

/-- the scan picks the first best entry, provided no entry is beaten by the initial best
    (`0` successes; the timeout for latencies bounded by the timeout) -/
theorem scan_firstBest (c : CmpOp) (hb : StrictOrd (cmpTest c)) (init : Nat) (l : List Nat) (hl : l ≠ [])
    (hinit : ∀ x ∈ l, cmpTest c init x = false) :
    FirstBestL (cmpTest c) l (scanFrom c l 0 (0, init)).1 := by
  have h := scanFrom_inv c hb init l [] (0, init) (scanInv_nil _ init)
  simp only [List.nil_append, List.length_nil] at h
  generalize scanFrom c l 0 (0, init) = r at h
  obtain ⟨bi, bs⟩ := r
  rcases h.first with ⟨h1, h2⟩ | ⟨h1, h2, h3⟩
  · simp only at h1 h2
    obtain ⟨hlt, hval⟩ := List.getElem?_eq_some_iff.mp h1
    refine ⟨hlt, ?_, ?_⟩
    · intro j hj
      have := h.noBetter j l[j] (List.getElem?_eq_getElem hj)
      simp only at this
      rw [hval]
      exact this
    · intro j hj
      rw [hval]
      exact h2 j _ hj (List.getElem?_eq_getElem (by omega))
  · simp only at h1 h2 h3
    subst h1 h2
    have hpos : 0 < l.length := List.length_pos_iff.mpr hl
    have hall : ∀ j (hj : j < l.length), l[j] = bs := by
      intro j hj
      exact (hb.total _ _ (hinit _ (List.getElem_mem hj)) (h3 j _ (List.getElem?_eq_getElem hj))).symm
    refine ⟨hpos, ?_, ?_⟩
    · intro j hj
      rw [hall j hj, hall 0 hpos]
      exact hb.irrefl _
    · intro j hj
      omega

/-- for ANY improvement test the scan returns the initial index or an index of the list -/
theorem scanFrom_index (c : CmpOp) : ∀ (rest : List Nat) (i : Nat) (acc : Nat × Nat),
    (scanFrom c rest i acc).1 = acc.1 ∨ (i ≤ (scanFrom c rest i acc).1 ∧ (scanFrom c rest i acc).1 < i + rest.length)
  | [], _, _ => Or.inl rfl
  | s :: rest, i, (bi, bs) => by
    simp only [scanFrom]
    rcases scanFrom_index c rest (i + 1) (if cmpTest c s bs then (i, s) else (bi, bs)) with h | ⟨h1, h2⟩
    · by_cases hc : cmpTest c s bs = true
      · simp only [hc, if_true] at h ⊢
        right
        rw [h]
        simp
      · simp only [hc] at h ⊢
        left
        simpa using h
    · right
      simp only [List.length_cons]
      omega

theorem bestIndex_lt (p : Policy) (timeout : Nat) (scores : List Nat) (h : 0 < scores.length) :
    bestIndex p timeout scores < scores.length := by
  unfold bestIndex
  rcases scanFrom_index (cmpOf p) scores 0 (0, valOf (initBestOf p) timeout) with h1 | ⟨_, h2⟩
  · rw [h1]; exact h
  · omega

end SSV.ClientGroups
