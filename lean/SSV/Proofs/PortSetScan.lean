import SSV.Proofs.PortSetBits
/-
`scanWord` (the inner loop of `RangeSet`) equals the abstract bit scan of the word; hence `scanBlocks`
equals the bit scan of all 65536 bits. Same for the counting loop of `RangeCount`, in lock step.
-/
namespace SSV.PortSet

def onesStep (i fuel : Nat) (st1 : Scan) (block1 rem1 : Nat) : Scan :=
  let ones := trailingZeros 64 (not64 block1)
  let st2 : Scan :=
    if st1.inRange then st1
    else { st1 with inRange := true, start := u16 (usub ((i + 1) * blockBits) rem1) }
  if ones = rem1 then st2 else scanWord i fuel st2 (block1 >>> ones) (rem1 - ones)

theorem scanWord_succ (i fuel : Nat) (st : Scan) (block rem : Nat) :
    scanWord i (fuel + 1) st block rem =
      if trailingZeros 64 block ≠ 0 ∧ trailingZeros 64 block ≥ rem then
        (if trailingZeros 64 block ≠ 0 ∧ st.inRange then
          { inRange := false, start := st.start,
            acc := ⟨st.start, u16 (usub (usub ((i + 1) * blockBits) rem) 1)⟩ :: st.acc }
         else st)
      else onesStep i fuel
        (if trailingZeros 64 block ≠ 0 ∧ st.inRange then
          { inRange := false, start := st.start,
            acc := ⟨st.start, u16 (usub (usub ((i + 1) * blockBits) rem) 1)⟩ :: st.acc }
         else st)
        (if trailingZeros 64 block ≠ 0 then block >>> trailingZeros 64 block else block)
        (if trailingZeros 64 block ≠ 0 then rem - trailingZeros 64 block else rem) := rfl

theorem pos_arith {i rem : Nat} (hi : i < 1024) (h1 : 1 ≤ rem) (h64 : rem ≤ 64) :
    u16 (usub ((i + 1) * blockBits) rem) = (i + 1) * 64 - rem := by
  simp only [u16, usub, W, blockBits, SSV.Gen.C10.portsetBlockBits, Nat.reducePow]
  omega

theorem pos_arith_close {i rem : Nat} (hi : i < 1024) (h1 : 1 ≤ rem) (h64 : rem ≤ 64) (hp : rem < (i + 1) * 64) :
    u16 (usub (usub ((i + 1) * blockBits) rem) 1) = (i + 1) * 64 - rem - 1 := by
  simp only [u16, usub, W, blockBits, SSV.Gen.C10.portsetBlockBits, Nat.reducePow]
  omega

theorem not64_eq {x : Nat} (hx : x < 2 ^ 64) : not64 x = 2 ^ 64 - 1 - x := by
  simp only [not64, allOnes, W]
  rw [Nat.mod_eq_of_lt hx]

theorem lt_two_pow_64 {x rem : Nat} (hb : x < 2 ^ rem) (h64 : rem ≤ 64) : x < 2 ^ 64 :=
  Nat.lt_of_lt_of_le hb (Nat.pow_le_pow_right (by decide) h64)

/-- the statement proved by induction on the fuel -/
def ScanWordSpec (i fuel : Nat) : Prop :=
  ∀ (st : Scan) (block rem : Nat), 1 ≤ rem → rem ≤ 64 → block < 2 ^ rem → rem ≤ fuel →
    (st.inRange = true → rem < (i + 1) * 64) →
    scanWord i fuel st block rem = scanBits st ((i + 1) * 64 - rem) (bitsOf block rem)

theorem onesStep_eq {i : Nat} (hi : i < 1024) {fuel : Nat} (IH : ScanWordSpec i fuel)
    (st1 : Scan) (block1 rem1 : Nat) (h1 : 1 ≤ rem1) (h64 : rem1 ≤ 64) (hb : block1 < 2 ^ rem1)
    (hodd : block1 % 2 = 1) (hf : rem1 ≤ fuel + 1) :
    onesStep i fuel st1 block1 rem1 = scanBits st1 ((i + 1) * 64 - rem1) (bitsOf block1 rem1) := by
  have hb64 := lt_two_pow_64 hb h64
  have hones : trailingZeros 64 (not64 block1) = trailingOnes 64 block1 := by
    rw [not64_eq hb64]; exact tz_not 64 block1 hb64
  have hle : trailingOnes 64 block1 ≤ rem1 := ones_le_of_lt 64 block1 rem1 hb
  have hpos : 1 ≤ trailingOnes 64 block1 := ones_pos 63 block1 hodd
  have hst2 : (if st1.inRange then st1
      else { st1 with inRange := true, start := u16 (usub ((i + 1) * blockBits) rem1) })
      = openAt st1 ((i + 1) * 64 - rem1) := by
    rw [pos_arith hi h1 h64]; rfl
  unfold onesStep
  simp only [hones, hst2]
  rw [bitsOf_ones 64 block1 rem1 hle, scanBits_true _ _ _ _ hpos]
  by_cases he : trailingOnes 64 block1 = rem1
  · simp [he, bitsOf, scanBits]
  · simp only [he, ↓reduceIte]
    have hlt : trailingOnes 64 block1 < rem1 := by omega
    rw [IH _ _ _ (by omega) (by omega) (shiftRight_lt hb hle) (by omega) (by intro _; omega)]
    congr 1
    omega

theorem scanWord_eq {i : Nat} (hi : i < 1024) : ∀ fuel, ScanWordSpec i fuel
  | 0 => by intro st block rem h1 _ _ hf _; omega
  | fuel + 1 => by
    intro st block rem h1 h64 hb hf hin
    have IH := scanWord_eq hi fuel
    rw [scanWord_succ]
    by_cases htz : trailingZeros 64 block = 0
    · -- the word starts with a one
      have hodd : block % 2 = 1 := (tz_eq_zero_iff 63 block).mp htz
      simp only [htz, ne_eq, not_true_eq_false, false_and, ↓reduceIte]
      exact onesStep_eq hi IH st block rem h1 h64 hb hodd (by omega)
    · have hclose : (if trailingZeros 64 block ≠ 0 ∧ st.inRange = true then
            ({ inRange := false, start := st.start,
               acc := ⟨st.start, u16 (usub (usub ((i + 1) * blockBits) rem) 1)⟩ :: st.acc } : Scan)
          else st) = closeAt st ((i + 1) * 64 - rem) := by
        unfold closeAt
        by_cases hr : st.inRange = true
        · simp only [ne_eq, htz, not_false_eq_true, hr, and_self, ↓reduceIte]
          rw [pos_arith_close hi h1 h64 (hin hr)]
        · simp [hr]
      rw [hclose]
      by_cases hge : trailingZeros 64 block ≥ rem
      · simp only [ne_eq, htz, not_false_eq_true, hge, and_self, ↓reduceIte]
        rw [bitsOf_all_zero 64 block rem hge]
        have := scanBits_false rem st ((i + 1) * 64 - rem) [] h1
        simp only [List.append_nil] at this
        rw [this]; rfl
      · have hlt : trailingZeros 64 block < rem := by omega
        simp only [ne_eq, htz, not_false_eq_true, hge, and_false, ↓reduceIte]
        have hodd : (block >>> trailingZeros 64 block) % 2 = 1 := tz_bit 64 block (by omega)
        rw [onesStep_eq hi IH _ _ _ (by omega) (by omega) (shiftRight_lt hb (by omega)) hodd (by omega)]
        rw [bitsOf_tz 64 block rem (by omega), scanBits_false _ _ _ _ (by omega)]
        congr 1
        omega

/-- all bits of a list of words, 64 per word, least significant first -/
def allBits (ws : Words) : List Bool := ws.flatMap (fun w => bitsOf w 64)

theorem length_bitsOf : ∀ x n, (bitsOf x n).length = n
  | _, 0 => rfl
  | x, n + 1 => by simp [bitsOf, length_bitsOf]

/-- after a full scan of blocks `0 … i-1`, an open range started inside them -/
def ScanOK (st : Scan) (p : Nat) : Prop := st.inRange = true → st.start < p

theorem stepBit_ok {st : Scan} {p : Nat} (b : Bool) (h : ScanOK st p) : ScanOK (stepBit st p b) (p + 1) := by
  unfold ScanOK at *
  unfold stepBit openAt closeAt
  cases b <;> by_cases hr : st.inRange = true <;> simp_all <;> omega

theorem scanBits_ok : ∀ (bs : List Bool) (st : Scan) (p : Nat), ScanOK st p → ScanOK (scanBits st p bs) (p + bs.length)
  | [], st, p, h => by simpa [scanBits] using h
  | b :: bs, st, p, h => by
    rw [scanBits]
    have := scanBits_ok bs _ _ (stepBit_ok b h)
    simp only [List.length_cons]
    have e : p + 1 + bs.length = p + (bs.length + 1) := by omega
    rwa [e] at this

theorem scanBits_append : ∀ (a b : List Bool) (st : Scan) (p : Nat),
    scanBits st p (a ++ b) = scanBits (scanBits st p a) (p + a.length) b
  | [], b, st, p => by simp [scanBits]
  | x :: a, b, st, p => by
    simp only [List.cons_append, scanBits, List.length_cons]
    rw [scanBits_append a b]
    congr 1; omega

/-- `scanBlocks` over blocks `i, i+1, …` is the bit scan from position `64 i` -/
theorem scanBlocks_eq : ∀ (ws : Words) (i : Nat) (st : Scan), i + ws.length ≤ 1024 → (∀ w ∈ ws, w < 2 ^ 64) →
    ScanOK st (i * 64) → scanBlocks i st ws = scanBits st (i * 64) (allBits ws)
  | [], i, st, _, _, _ => by simp [scanBlocks, allBits, scanBits]
  | w :: rest, i, st, hlen, hw, hok => by
    have hi : i < 1024 := by simp at hlen; omega
    have hww : w < 2 ^ 64 := hw w (by simp)
    have hword := scanWord_eq hi (blockBits + 1) st w blockBits (by decide) (by decide) hww (by decide)
      (by
        intro hr
        have := hok hr
        show 64 < (i + 1) * 64
        cases i with
        | zero => omega
        | succ j => omega)
    have hpos : (i + 1) * 64 - blockBits = i * 64 := by
      show (i + 1) * 64 - 64 = i * 64
      omega
    rw [hpos] at hword
    have hbb : bitsOf w blockBits = bitsOf w 64 := rfl
    rw [hbb] at hword
    rw [scanBlocks, hword]
    have hok' : ScanOK (scanBits st (i * 64) (bitsOf w 64)) ((i + 1) * 64) := by
      have := scanBits_ok (bitsOf w 64) st (i * 64) hok
      rw [length_bitsOf] at this
      have e : i * 64 + 64 = (i + 1) * 64 := by omega
      rwa [e] at this
    rw [scanBlocks_eq rest (i + 1) _ (by simp at hlen; omega) (fun x hx => hw x (by simp [hx])) hok']
    show _ = scanBits st (i * 64) (bitsOf w 64 ++ allBits rest)
    rw [scanBits_append, length_bitsOf]
    congr 1
    omega

/-! ### the counting loop runs in lock step -/

def countOnesStep (fuel : Nat) (st1 : Bool × Nat) (block1 rem1 : Nat) : Bool × Nat :=
  let ones := trailingZeros 64 (not64 block1)
  let st2 : Bool × Nat := if st1.1 then st1 else (true, st1.2 + 1)
  if ones = rem1 then st2 else countWord fuel st2 (block1 >>> ones) (rem1 - ones)

/-- the counter of `RangeCount` is the number of closed ranges plus one for an open range -/
def Lock (c : Bool × Nat) (st : Scan) : Prop :=
  c.1 = st.inRange ∧ c.2 = st.acc.length + (if st.inRange then 1 else 0)

theorem countWord_lock (i : Nat) : ∀ fuel c st block rem, Lock c st →
    Lock (countWord fuel c block rem) (scanWord i fuel st block rem)
  | 0, c, st, _, _, h => by simpa [countWord, scanWord] using h
  | fuel + 1, c, st, block, rem, h => by
    obtain ⟨h1, h2⟩ := h
    unfold countWord scanWord
    by_cases htz : trailingZeros 64 block = 0
    · simp only [htz, ne_eq, not_true_eq_false, false_and, ↓reduceIte]
      split
      · by_cases hr : st.inRange = true <;> simp_all [Lock]
      · apply countWord_lock
        by_cases hr : st.inRange = true <;> simp_all [Lock]
    · by_cases hge : trailingZeros 64 block ≥ rem
      · simp only [ne_eq, htz, not_false_eq_true, true_and, hge, and_self, ↓reduceIte]
        by_cases hr : st.inRange = true <;> simp_all [Lock]
      · simp only [ne_eq, htz, not_false_eq_true, true_and, hge, and_false, ↓reduceIte]
        split
        · by_cases hr : st.inRange = true <;> simp_all [Lock]
        · apply countWord_lock
          by_cases hr : st.inRange = true <;> simp_all [Lock]

theorem countBlocks_lock : ∀ (ws : Words) (i : Nat) c st, Lock c st →
    Lock (countBlocks c ws) (scanBlocks i st ws)
  | [], _, _, _, h => by simpa [countBlocks, scanBlocks] using h
  | w :: rest, i, c, st, h => by
    rw [countBlocks, scanBlocks]
    exact countBlocks_lock rest (i + 1) _ _ (countWord_lock i _ _ _ _ _ h)

/-- `RangeCount() = len(RangeSet())` for every list of words (no well-formedness needed) -/
theorem rangeCount_eq_length (ws : Words) : rangeCount ws = (rangeSet ws).length := by
  have h := countBlocks_lock ws 0 (false, 0) ⟨false, 0, []⟩ (by simp [Lock])
  obtain ⟨h1, h2⟩ := h
  unfold rangeCount rangeSet
  rw [h2]
  by_cases hr : (scanBlocks 0 ⟨false, 0, []⟩ ws).inRange = true <;> simp [hr]

end SSV.PortSet
