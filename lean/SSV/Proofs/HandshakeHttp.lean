import SSV.Proofs.Handshake
import SSV.Model.HandshakeHttp
/-
Helper lemmas for C07 (HTTP CONNECT): the bufio line reader and the request loop lose nothing.
-/
namespace SSV.HS
open SSV SSV.Gen

theorem splitNl_spec (b l r : Bytes) (h : splitNl b = some (l, r)) : b = l ++ LF :: r ∧ LF ∉ l := by
  induction b generalizing l r with
  | nil => simp [splitNl] at h
  | cons x xs ih =>
    unfold splitNl at h
    by_cases hx : x = LF
    · simp [hx] at h; obtain ⟨h1, h2⟩ := h; subst h1 h2; simp [hx]
    · simp only [hx, if_false] at h
      cases hs : splitNl xs with
      | none => simp [hs] at h
      | some p =>
        obtain ⟨l', r'⟩ := p
        simp [hs] at h
        obtain ⟨h1, h2⟩ := h
        subst h1 h2
        obtain ⟨e, hn⟩ := ih l' r' hs
        refine ⟨by rw [e]; simp, ?_⟩
        simp; exact ⟨fun e => hx e.symm, hn⟩

/-- the bufio line reader loses nothing: line ++ "\n" ++ (still buffered ++ still on the transport) is what was there -/
theorem readLineC_spec (buf : Bytes) (cs : Chunks) (l buf' : Bytes) (cs' : Chunks)
    (h : readLineC buf cs = .ok (l, buf', cs')) :
    buf ++ cs.flatten = l ++ LF :: (buf' ++ cs'.flatten) ∧ LF ∉ l := by
  induction cs generalizing buf with
  | nil =>
    unfold readLineC at h
    cases hs : splitNl buf with
    | none => simp [hs] at h
    | some p =>
      obtain ⟨l', r'⟩ := p
      simp [hs] at h
      obtain ⟨h1, h2, h3⟩ := h
      subst h1 h2 h3
      obtain ⟨e, hn⟩ := splitNl_spec _ _ _ hs
      exact ⟨by simp [e], hn⟩
  | cons c cs ih =>
    unfold readLineC at h
    cases hs : splitNl buf with
    | some p =>
      obtain ⟨l', r'⟩ := p
      simp [hs] at h
      obtain ⟨h1, h2, h3⟩ := h
      subst h1 h2 h3
      obtain ⟨e, hn⟩ := splitNl_spec _ _ _ hs
      exact ⟨by simp [e], hn⟩
    | none =>
      simp only [hs] at h
      by_cases hfull : bufSize ≤ buf.length
      · simp [hfull] at h
      · simp only [hfull, if_false] at h
        by_cases hfit : c.length ≤ bufSize - buf.length
        · simp only [hfit, if_true] at h
          obtain ⟨e, hn⟩ := ih _ h
          exact ⟨by simpa using e, hn⟩
        · simp only [hfit, if_false] at h
          cases hs2 : splitNl (buf ++ c.take (bufSize - buf.length)) with
          | none => simp [hs2] at h
          | some p =>
            obtain ⟨l', r'⟩ := p
            simp [hs2] at h
            obtain ⟨h1, h2, h3⟩ := h
            subst h1 h2 h3
            obtain ⟨e, hn⟩ := splitNl_spec _ _ _ hs2
            refine ⟨?_, hn⟩
            have : buf ++ (c :: cs).flatten
                = (buf ++ c.take (bufSize - buf.length)) ++ (c.drop (bufSize - buf.length) ++ cs.flatten) := by
              rw [List.append_assoc, ← List.append_assoc (c.take _), List.take_append_drop]; simp
            rw [this, e]; simp

/-- reading a head loses nothing and stops right behind a line end -/
theorem readLinesC_spec (fuel : Nat) (buf : Bytes) (cs : Chunks) (ls : List Bytes) (buf' : Bytes) (cs' : Chunks)
    (h : readLinesC fuel buf cs = .ok (ls, buf', cs')) :
    ∃ consumed, buf ++ cs.flatten = consumed ++ (buf' ++ cs'.flatten) ∧ consumed.getLast? = some LF := by
  induction fuel generalizing buf cs ls with
  | zero => simp [readLinesC] at h
  | succ fuel ih =>
    unfold readLinesC at h
    cases hr : readLineC buf cs with
    | error e => simp [hr] at h
    | ok p =>
      obtain ⟨l, b1, c1⟩ := p
      simp only [hr] at h
      obtain ⟨e1, _⟩ := readLineC_spec _ _ _ _ _ hr
      by_cases hb : (stripCR l).isEmpty = true
      · simp [hb] at h
        obtain ⟨_, h2, h3⟩ := h
        subst h2 h3
        exact ⟨l ++ [LF], by rw [e1]; simp, by simp⟩
      · simp only [hb] at h
        cases hr2 : readLinesC fuel b1 c1 with
        | error e => simp [hr2] at h
        | ok q =>
          obtain ⟨ls2, b2, c2⟩ := q
          simp [hr2] at h
          obtain ⟨_, h2, h3⟩ := h
          subst h2 h3
          obtain ⟨cons2, e2, hl2⟩ := ih _ _ _ hr2
          refine ⟨l ++ LF :: cons2, by rw [e1, e2]; simp, ?_⟩
          have : (LF :: cons2).getLast? = some LF := by
            cases cons2 with
            | nil => rfl
            | cons y ys => rw [List.getLast?_cons_cons]; exact hl2
          simp [List.getLast?_append, this]

theorem readHeadM_spec (s s' : St) (ls : List Bytes) (h : readHeadM s = (.ok ls, s')) :
    s'.out = s.out ∧ ∃ consumed, s.stream = consumed ++ s'.stream ∧ consumed.getLast? = some LF := by
  unfold readHeadM at h
  cases hr : readLinesC (s.buf.length + s.inp.flatten.length + 1) s.buf s.inp with
  | error e => rw [hr] at h; simp at h
  | ok p =>
    obtain ⟨ls2, b, c⟩ := p
    rw [hr] at h
    simp only [Prod.mk.injEq, Except.ok.injEq] at h
    obtain ⟨_, h2⟩ := h
    subst h2
    exact ⟨rfl, readLinesC_spec _ _ _ _ _ _ hr⟩

theorem serverLoopH_spec (tk : Option (List (Bytes × Bytes))) (fuel : Nat) (s s' : St) (r : Bytes × Head)
    (h : serverLoopH tk fuel s = (.ok r, s')) :
    ∃ consumed, s.stream = consumed ++ s'.stream ∧ consumed.getLast? = some LF := by
  induction fuel generalizing s with
  | zero => simp [serverLoopH] at h
  | succ fuel ih =>
    unfold serverLoopH at h
    simp only [bind_def] at h
    cases hr : readHeadM s with
    | mk res s1 =>
      cases res with
      | error e => simp [hr] at h
      | ok ls =>
        obtain ⟨_, c1, e1, l1⟩ := readHeadM_spec _ _ _ hr
        simp only [hr, liftE_def] at h
        cases hp : parseRequestHead ls with
        | error e => simp [hp] at h
        | ok hd =>
          simp only [hp] at h
          cases tk with
          | none =>
            simp at h
            obtain ⟨_, h2⟩ := h
            subst h2
            exact ⟨c1, e1, l1⟩
          | some tk' =>
            simp only [] at h
            cases ha : basicAuth hd.headers tk' with
            | some u =>
              simp [ha] at h
              obtain ⟨_, h2⟩ := h
              subst h2
              exact ⟨c1, e1, l1⟩
            | none =>
              simp only [ha, bind_def, write_def] at h
              by_cases hc : hd.close = true
              · simp [hc] at h
              · simp only [hc] at h
                obtain ⟨c2, e2, l2⟩ := ih _ h
                refine ⟨c1 ++ c2, ?_, ?_⟩
                · rw [e1]
                  have : (St.stream { inp := s1.inp, out := s1.out ++ C07.status407, buf := s1.buf }) = s1.stream := rfl
                  rw [← this, e2]; simp
                · cases c2 with
                  | nil => simp at l2
                  | cons y ys => simp [List.getLast?_append, l2]

/-- user-pass = user ":" pass splits uniquely when user names contain no colon (RFC 7617) -/
theorem colon_split (u u' p p' : Bytes) (h : u ++ COLON :: p = u' ++ COLON :: p') (hu : COLON ∉ u) (hu' : COLON ∉ u') :
    u = u' ∧ p = p' := by
  induction u generalizing u' with
  | nil =>
    cases u' with
    | nil => simpa using h
    | cons y ys =>
      simp at h hu'
      exact absurd h.1 hu'.1
  | cons x xs ih =>
    cases u' with
    | nil =>
      simp at h hu
      exact absurd h.1.symm hu.1
    | cons y ys =>
      simp at h hu hu'
      obtain ⟨e1, e2⟩ := h
      obtain ⟨r1, r2⟩ := ih ys e2 hu.2 hu'.2
      exact ⟨by rw [e1, r1], r2⟩

theorem lookupToken_spec (enc : Bytes → Bytes) (henc : ∀ a b, enc a = enc b → a = b)
    (users : List (Bytes × Bytes)) (hu : ∀ x ∈ users, COLON ∉ x.1) (u p : Bytes) (hcu : COLON ∉ u) :
    lookupToken (tokenMap enc users) (enc (u ++ [COLON] ++ p)) = if (u, p) ∈ users then some u else none := by
  unfold lookupToken
  by_cases hm : (u, p) ∈ users
  · simp only [hm, if_true]
    have hex : ∃ e ∈ (tokenMap enc users).reverse, (e.1 == enc (u ++ [COLON] ++ p)) = true := by
      refine ⟨(enc (u ++ [COLON] ++ p), u), ?_, by simp⟩
      simp only [List.mem_reverse, tokenMap, List.mem_map]
      exact ⟨(u, p), hm, rfl⟩
    cases hf : (tokenMap enc users).reverse.find? (fun e => e.1 == enc (u ++ [COLON] ++ p)) with
    | none =>
      rw [List.find?_eq_none] at hf
      obtain ⟨e, he, hp⟩ := hex
      exact absurd hp (hf e he)
    | some e =>
      have h1 := List.find?_some hf
      have h2 := List.mem_of_find?_eq_some hf
      simp only [List.mem_reverse, tokenMap, List.mem_map] at h2
      obtain ⟨⟨u2, p2⟩, hm2, he⟩ := h2
      subst he
      simp only [beq_iff_eq] at h1
      have := henc _ _ h1
      simp only [List.append_assoc, List.singleton_append] at this
      obtain ⟨r1, _⟩ := colon_split u2 u p2 p this (hu _ hm2) hcu
      simp [r1]
  · simp only [hm, if_false]
    have : (tokenMap enc users).reverse.find? (fun e => e.1 == enc (u ++ [COLON] ++ p)) = none := by
      rw [List.find?_eq_none]
      intro e he hp
      simp only [List.mem_reverse, tokenMap, List.mem_map] at he
      obtain ⟨⟨u2, p2⟩, hm2, he⟩ := he
      subst he
      simp only [beq_iff_eq] at hp
      have := henc _ _ hp
      simp only [List.append_assoc, List.singleton_append] at this
      obtain ⟨r1, r2⟩ := colon_split u2 u p2 p this (hu _ hm2) hcu
      subst r1 r2
      exact hm hm2
    rw [this]; rfl

/-- the bytes of a head given its raw lines (each without the `\n`) -/
def headBytes (raw : List Bytes) : Bytes := (raw.map (· ++ [LF])).flatten

/-- raw lines of exactly one head: no line contains `\n`, every line but the last is non-blank, the last is blank
(so the head is the shortest prefix of the stream that ends with a blank line) -/
def IsHead (raw : List Bytes) : Prop :=
  ∃ body last, raw = body ++ [last] ∧ (∀ l ∈ raw, LF ∉ l) ∧
    (∀ l ∈ body, (stripCR l).isEmpty = false) ∧ (stripCR last).isEmpty = true

theorem readLinesC_head (fuel : Nat) (buf : Bytes) (cs : Chunks) (ls : List Bytes) (buf' : Bytes) (cs' : Chunks)
    (h : readLinesC fuel buf cs = .ok (ls, buf', cs')) :
    ∃ raw, IsHead raw ∧ buf ++ cs.flatten = headBytes raw ++ (buf' ++ cs'.flatten) ∧
      ls = raw.dropLast.map stripCR := by
  induction fuel generalizing buf cs ls with
  | zero => simp [readLinesC] at h
  | succ fuel ih =>
    unfold readLinesC at h
    cases hr : readLineC buf cs with
    | error e => simp [hr] at h
    | ok p =>
      obtain ⟨l, b1, c1⟩ := p
      simp only [hr] at h
      obtain ⟨e1, hnl⟩ := readLineC_spec _ _ _ _ _ hr
      by_cases hb : (stripCR l).isEmpty = true
      · simp [hb] at h
        obtain ⟨h1, h2, h3⟩ := h
        subst h1 h2 h3
        refine ⟨[l], ⟨[], l, rfl, ?_, by simp, hb⟩, by rw [e1]; simp [headBytes], by simp⟩
        intro x hx; simp at hx; subst hx; exact hnl
      · simp only [hb] at h
        cases hr2 : readLinesC fuel b1 c1 with
        | error e => simp [hr2] at h
        | ok q =>
          obtain ⟨ls2, b2, c2⟩ := q
          simp [hr2] at h
          obtain ⟨h1, h2, h3⟩ := h
          subst h1 h2 h3
          obtain ⟨raw2, ⟨body2, last2, er, hn2, hb2, hl2⟩, e2, els⟩ := ih _ _ _ hr2
          refine ⟨l :: raw2, ⟨l :: body2, last2, by rw [er]; simp, ?_, ?_, hl2⟩, ?_, ?_⟩
          · intro x hx
            simp at hx
            rcases hx with hx | hx
            · subst hx; exact hnl
            · exact hn2 x hx
          · intro x hx
            simp at hx
            rcases hx with hx | hx
            · subst hx; simpa using hb
            · exact hb2 x hx
          · rw [e1, e2]; simp [headBytes]
          · rw [els, er]; simp
            have : stripCR l :: (List.map stripCR body2 ++ [stripCR last2])
                = (stripCR l :: List.map stripCR body2) ++ [stripCR last2] := by simp
            rw [this, List.dropLast_concat]

theorem readHeadM_head (s s' : St) (ls : List Bytes) (h : readHeadM s = (.ok ls, s')) :
    s'.out = s.out ∧ ∃ raw, IsHead raw ∧ s.stream = headBytes raw ++ s'.stream := by
  unfold readHeadM at h
  cases hr : readLinesC (s.buf.length + s.inp.flatten.length + 1) s.buf s.inp with
  | error e => rw [hr] at h; simp at h
  | ok p =>
    obtain ⟨ls2, b, c⟩ := p
    rw [hr] at h
    simp only [Prod.mk.injEq, Except.ok.injEq] at h
    obtain ⟨_, h2⟩ := h
    subst h2
    obtain ⟨raw, hh, e, _⟩ := readLinesC_head _ _ _ _ _ _ hr
    exact ⟨rfl, raw, hh, e⟩

/-- the request loop consumes exactly one head per request and answers every request but the last with 407 -/
theorem serverLoopH_heads (tk : Option (List (Bytes × Bytes))) (fuel : Nat) (s s' : St) (r : Bytes × Head)
    (h : serverLoopH tk fuel s = (.ok r, s')) :
    ∃ heads : List (List Bytes), heads ≠ [] ∧ (∀ hd ∈ heads, IsHead hd) ∧
      s.stream = (heads.map headBytes).flatten ++ s'.stream ∧
      s'.out = s.out ++ (List.replicate (heads.length - 1) C07.status407).flatten := by
  induction fuel generalizing s with
  | zero => simp [serverLoopH] at h
  | succ fuel ih =>
    unfold serverLoopH at h
    simp only [bind_def] at h
    cases hr : readHeadM s with
    | mk res s1 =>
      cases res with
      | error e => simp [hr] at h
      | ok ls =>
        obtain ⟨ho, raw, hraw, e1⟩ := readHeadM_head _ _ _ hr
        simp only [hr, liftE_def] at h
        cases hp : parseRequestHead ls with
        | error e => simp [hp] at h
        | ok hd =>
          simp only [hp] at h
          have one : ∀ s2, s2 = s1 → ∃ heads : List (List Bytes), heads ≠ [] ∧ (∀ hd ∈ heads, IsHead hd) ∧
              s.stream = (heads.map headBytes).flatten ++ s2.stream ∧
              s2.out = s.out ++ (List.replicate (heads.length - 1) C07.status407).flatten := by
            intro s2 e; subst e
            exact ⟨[raw], by simp, by simpa using hraw, by simpa using e1, by simp [ho]⟩
          cases tk with
          | none =>
            simp at h
            exact one _ h.2.symm
          | some tk' =>
            simp only [] at h
            cases ha : basicAuth hd.headers tk' with
            | some u =>
              simp [ha] at h
              exact one _ h.2.symm
            | none =>
              simp only [ha, bind_def, write_def] at h
              by_cases hc : hd.close = true
              · simp [hc] at h
              · simp only [hc] at h
                obtain ⟨heads2, hne, hall, e2, o2⟩ := ih _ h
                refine ⟨raw :: heads2, by simp, ?_, ?_, ?_⟩
                · intro x hx
                  simp at hx
                  rcases hx with hx | hx
                  · subst hx; exact hraw
                  · exact hall x hx
                · rw [e1]
                  have : (St.stream { inp := s1.inp, out := s1.out ++ C07.status407, buf := s1.buf }) = s1.stream := rfl
                  rw [← this, e2]; simp
                · rw [o2]
                  cases heads2 with
                  | nil => exact absurd rfl hne
                  | cons y ys => simp [ho, List.replicate_succ]

end SSV.HS
