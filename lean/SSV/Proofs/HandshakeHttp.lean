import SSV.Proofs.Handshake
import SSV.Model.HandshakeHttp
/-
Helper lemmas for C07 (HTTP CONNECT): the bufio line reader and the request loop lose nothing.
-/
namespace SSV.HS
open SSV SSV.Gen

theorem splitNl_spec (b l r : Bytes) (h : splitNl b = some (l, r)) : b = l ++ LF :: r ∧ LF ∉ l := by
  induction b generalizing l r with
  | nil => simp [splitNl] at h
  | cons x xs ih =>
    unfold splitNl at h
    by_cases hx : x = LF
    · simp [hx] at h; obtain ⟨h1, h2⟩ := h; subst h1 h2; simp [hx]
    · simp only [hx, if_false] at h
      cases hs : splitNl xs with
      | none => simp [hs] at h
      | some p =>
        obtain ⟨l', r'⟩ := p
        simp [hs] at h
        obtain ⟨h1, h2⟩ := h
        subst h1 h2
        obtain ⟨e, hn⟩ := ih l' r' hs
        refine ⟨by rw [e]; simp, ?_⟩
        simp; exact ⟨fun e => hx e.symm, hn⟩

/-- the bufio line reader loses nothing: line ++ "\n" ++ (still buffered ++ still on the transport) is what was there -/
theorem readLineC_spec (buf : Bytes) (cs : Chunks) (l buf' : Bytes) (cs' : Chunks)
    (h : readLineC buf cs = .ok (l, buf', cs')) :
    buf ++ cs.flatten = l ++ LF :: (buf' ++ cs'.flatten) ∧ LF ∉ l := by
  induction cs generalizing buf with
  | nil =>
    unfold readLineC at h
    cases hs : splitNl buf with
    | none => simp [hs] at h
    | some p =>
      obtain ⟨l', r'⟩ := p
      simp [hs] at h
      obtain ⟨h1, h2, h3⟩ := h
      subst h1 h2 h3
      obtain ⟨e, hn⟩ := splitNl_spec _ _ _ hs
      exact ⟨by simp [e], hn⟩
  | cons c cs ih =>
    unfold readLineC at h
    cases hs : splitNl buf with
    | some p =>
      obtain ⟨l', r'⟩ := p
      simp [hs] at h
      obtain ⟨h1, h2, h3⟩ := h
      subst h1 h2 h3
      obtain ⟨e, hn⟩ := splitNl_spec _ _ _ hs
      exact ⟨by simp [e], hn⟩
    | none =>
      simp only [hs] at h
      by_cases hfull : bufSize ≤ buf.length
      · simp [hfull] at h
      · simp only [hfull, if_false] at h
        by_cases hfit : c.length ≤ bufSize - buf.length
        · simp only [hfit, if_true] at h
          obtain ⟨e, hn⟩ := ih _ h
          exact ⟨by simpa using e, hn⟩
        · simp only [hfit, if_false] at h
          cases hs2 : splitNl (buf ++ c.take (bufSize - buf.length)) with
          | none => simp [hs2] at h
          | some p =>
            obtain ⟨l', r'⟩ := p
            simp [hs2] at h
            obtain ⟨h1, h2, h3⟩ := h
            subst h1 h2 h3
            obtain ⟨e, hn⟩ := splitNl_spec _ _ _ hs2
            refine ⟨?_, hn⟩
            have : buf ++ (c :: cs).flatten
                = (buf ++ c.take (bufSize - buf.length)) ++ (c.drop (bufSize - buf.length) ++ cs.flatten) := by
              rw [List.append_assoc, ← List.append_assoc (c.take _), List.take_append_drop]; simp
            rw [this, e]; simp

/-- reading a head loses nothing and stops right behind a line end -/
theorem readLinesC_spec (fuel : Nat) (buf : Bytes) (cs : Chunks) (ls : List Bytes) (buf' : Bytes) (cs' : Chunks)
    (h : readLinesC fuel buf cs = .ok (ls, buf', cs')) :
    ∃ consumed, buf ++ cs.flatten = consumed ++ (buf' ++ cs'.flatten) ∧ consumed.getLast? = some LF := by
  induction fuel generalizing buf cs ls with
  | zero => simp [readLinesC] at h
  | succ fuel ih =>
    unfold readLinesC at h
    cases hr : readLineC buf cs with
    | error e => simp [hr] at h
    | ok p =>
      obtain ⟨l, b1, c1⟩ := p
      simp only [hr] at h
      obtain ⟨e1, _⟩ := readLineC_spec _ _ _ _ _ hr
      by_cases hb : (stripCR l).isEmpty = true
      · simp [hb] at h
        obtain ⟨_, h2, h3⟩ := h
        subst h2 h3
        exact ⟨l ++ [LF], by rw [e1]; simp, by simp⟩
      · simp only [hb] at h
        cases hr2 : readLinesC fuel b1 c1 with
        | error e => simp [hr2] at h
        | ok q =>
          obtain ⟨ls2, b2, c2⟩ := q
          simp [hr2] at h
          obtain ⟨_, h2, h3⟩ := h
          subst h2 h3
          obtain ⟨cons2, e2, hl2⟩ := ih _ _ _ hr2
          refine ⟨l ++ LF :: cons2, by rw [e1, e2]; simp, ?_⟩
          have : (LF :: cons2).getLast? = some LF := by
            cases cons2 with
            | nil => rfl
            | cons y ys => rw [List.getLast?_cons_cons]; exact hl2
          simp [List.getLast?_append, this]

theorem readHeadM_spec (s s' : St) (ls : List Bytes) (h : readHeadM s = (.ok ls, s')) :
    s'.out = s.out ∧ ∃ consumed, s.stream = consumed ++ s'.stream ∧ consumed.getLast? = some LF := by
  unfold readHeadM at h
  cases hr : readLinesC (s.buf.length + s.inp.flatten.length + 1) s.buf s.inp with
  | error e => rw [hr] at h; simp at h
  | ok p =>
    obtain ⟨ls2, b, c⟩ := p
    rw [hr] at h
    simp only [Prod.mk.injEq, Except.ok.injEq] at h
    obtain ⟨_, h2⟩ := h
    subst h2
    exact ⟨rfl, readLinesC_spec _ _ _ _ _ _ hr⟩

theorem serverLoopH_spec (tk : Option (List (Bytes × Bytes))) (fuel : Nat) (s s' : St) (r : Bytes × Head)
    (h : serverLoopH tk fuel s = (.ok r, s')) :
    ∃ consumed, s.stream = consumed ++ s'.stream ∧ consumed.getLast? = some LF := by
  induction fuel generalizing s with
  | zero => simp [serverLoopH] at h
  | succ fuel ih =>
    unfold serverLoopH at h
    simp only [bind_def] at h
    cases hr : readHeadM s with
    | mk res s1 =>
      cases res with
      | error e => simp [hr] at h
      | ok ls =>
        obtain ⟨_, c1, e1, l1⟩ := readHeadM_spec _ _ _ hr
        simp only [hr, liftE_def] at h
        cases hp : parseRequestHead ls with
        | error e => simp [hp] at h
        | ok hd =>
          simp only [hp] at h
          cases tk with
          | none =>
            simp at h
            obtain ⟨_, h2⟩ := h
            subst h2
            exact ⟨c1, e1, l1⟩
          | some tk' =>
            simp only [] at h
            cases ha : basicAuth hd.headers tk' with
            | some u =>
              simp [ha] at h
              obtain ⟨_, h2⟩ := h
              subst h2
              exact ⟨c1, e1, l1⟩
            | none =>
              simp only [ha, bind_def, write_def] at h
              by_cases hc : hd.close = true
              · simp [hc] at h
              · simp only [hc] at h
                obtain ⟨c2, e2, l2⟩ := ih _ h
                refine ⟨c1 ++ c2, ?_, ?_⟩
                · rw [e1]
                  have : (St.stream { inp := s1.inp, out := s1.out ++ C07.status407, buf := s1.buf }) = s1.stream := rfl
                  rw [← this, e2]; simp
                · cases c2 with
                  | nil => simp at l2
                  | cons y ys => simp [List.getLast?_append, l2]

end SSV.HS
