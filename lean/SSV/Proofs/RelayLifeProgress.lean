import SSV.Proofs.RelayLifeThms
import SSV.Proofs.RelayLifeInv6
import SSV.Proofs.RelayLifeMeasure
/-
C12: global deadlock freedom of the relay once Stop has been called, with the NAT timer and the environment switched off:
in every reachable state in which Stop has been called and has not returned, some goroutine of the relay can make a step
(`Ev.internal`: no client datagram, no datagram from the target, no timer).  Needs the uplink's re-check (F9) and the
initial read deadline (`cfg.recheck`, `cfg.initArms`).
-/
namespace SSV.RelayLife
variable (cfg : Cfg)

theorem inv6_reachable' {s : State} (h : Reachable cfg s) : Inv6 s := inv6_reachable cfg h

theorem cleanup_enabled_in_crit {s : State} {i : Nat} (hi : i < s.n) (hc : (s.ent i).ipc.inCrit = true) :
    (step cfg s (.cleanup i)).isSome = true := by
  cases hp : (s.ent i).ipc <;> simp [hp, IPc.inCrit] at hc <;> simp [step, hi, hp]
  split <;> simp

/-- a goroutine that wants the mutex while neither the receive loop nor Stop holds it: the mutex is free, or its holder
(a clean-up inside its critical section) can move -/
theorem mutex_free_or_holder_moves {s : State} (h : Reachable cfg s) (hr : s.rpc.holds = false) (hs : s.spc.holds = false) :
    s.mu = .free ∨ ∃ j, (step cfg s (.cleanup j)).isSome = true := by
  have I := inv1_reachable cfg h
  cases hm : s.mu with
  | free => exact Or.inl rfl
  | recv => have := I.muR.mp hm; rw [hr] at this; cases this
  | stop => have := I.muS.mp hm; rw [hs] at this; cases this
  | cleanup j =>
    obtain ⟨hj, hc⟩ := (I.muC j).mp hm
    exact Or.inr ⟨j, cleanup_enabled_in_crit cfg hj hc⟩

theorem exists_of_not_allB {n : Nat} {p : Nat → Bool} (h : ¬ allB n p = true) : ∃ i, i < n ∧ p i = false := by
  rw [allB_iff] at h
  obtain ⟨i, hi⟩ := Classical.not_forall.mp h
  obtain ⟨hin, hp⟩ := Classical.not_imp.mp hi
  exact ⟨i, hin, by simpa using hp⟩

/-- a session that has not finished has a goroutine that can move, once Stop is in `wg.Wait` -/
theorem session_can_move (hr : cfg.recheck = true) (ha : cfg.initArms = true) {s : State} (h : Reachable cfg s)
    (hs : s.spc = .waitWg) {i : Nat} (hin : i < s.n) (hnf : (s.ent i).finished = false) :
    ∃ e, e.internal = true ∧ (step cfg s e).isSome = true := by
  have hdone : s.rpc = .done := (inv3a_reachable cfg h).g5 (by simp [hs, SPc.afterMwg])
  have hlock := mutex_free_or_holder_moves cfg h (by simp [hdone, RPc.holds]) (by simp [hs, SPc.holds])
  cases hp : (s.ent i).ipc with
  | getClient => exact ⟨.init i true, rfl, by simp [step, hin, hp]⟩
  | newSession => exact ⟨.init i true, rfl, by simp [step, hin, hp]⟩
  | listen => exact ⟨.init i true, rfl, by simp [step, hin, hp]⟩
  | setDl => exact ⟨.init i true, rfl, by simp [step, hin, hp, ha]⟩
  | newPacker => exact ⟨.init i true, rfl, by simp [step, hin, hp]⟩
  | swap => exact ⟨.init i true, rfl, by simp [step, hin, hp]⟩
  | spawn => exact ⟨.init i true, rfl, by simp [step, hin, hp]⟩
  | dProc => exact ⟨.dSend i, rfl, by simp [step, hin, hp]⟩
  | dRead =>
    cases hd : (s.ent i).dl with
    | past => exact ⟨.dTimeout i, rfl, by simp [step, hin, hp, hd]⟩
    | unset => exact absurd hd (downlink_has_deadline cfg ha h hin hp)
    | future =>
      rcases stop_no_timer cfg hr h (by simp [hs, SPc.afterIter]) hin hp hd with hu | hu
      · exact ⟨.uStep i, rfl, by simp [step, hin, hu]⟩
      · exact ⟨.uStep i, rfl, by simp [step, hin, hu]⟩
  | cLock =>
    rcases hlock with hf | ⟨j, hj⟩
    · exact ⟨.cleanup i, rfl, by simp [step, hin, hp, hf]⟩
    · exact ⟨.cleanup j, rfl, hj⟩
  | cClose => exact ⟨.cleanup i, rfl, cleanup_enabled_in_crit cfg hin (by rw [hp]; rfl)⟩
  | cDelete => exact ⟨.cleanup i, rfl, cleanup_enabled_in_crit cfg hin (by rw [hp]; rfl)⟩
  | cUnlock => exact ⟨.cleanup i, rfl, cleanup_enabled_in_crit cfg hin (by rw [hp]; rfl)⟩
  | cDrain => exact ⟨.cleanup i, rfl, by simp [step, hin, hp]⟩
  | done =>
    have hcl : (s.ent i).chClosed = true := (closed_iff_past_close cfg h hin).mpr (by rw [hp]; rfl)
    cases hu : (s.ent i).upc with
    | none => simp [Entry.finished, hp, hu] at hnf
    | done => simp [Entry.finished, hp, hu] at hnf
    | recv =>
      by_cases hq : (s.ent i).q = 0
      · exact ⟨.uStep i, rfl, by simp [step, hin, hu, hq, hcl]⟩
      · exact ⟨.uRecv i 1, rfl, by simp [step, hin, hu]; omega⟩
    | send => exact ⟨.uStep i, rfl, by simp [step, hin, hu]⟩
    | arm => exact ⟨.uStep i, rfl, by simp [step, hin, hu]⟩
    | check => exact ⟨.uStep i, rfl, by simp [step, hin, hu]⟩
    | force => exact ⟨.uStep i, rfl, by simp [step, hin, hu]⟩
    | closeSock => exact ⟨.uStep i, rfl, by simp [step, hin, hu]⟩

/-- Global deadlock freedom after Stop was called: unless Stop has returned, some goroutine of the relay can move —
without the NAT timer and without any help from the environment. -/
theorem stop_progress (hr : cfg.recheck = true) (ha : cfg.initArms = true) {s : State} (h : Reachable cfg s)
    (h1 : s.spc ≠ .idle) (h2 : s.spc ≠ .done) : ∃ e, e.internal = true ∧ (step cfg s e).isSome = true := by
  cases hs : s.spc with
  | idle => exact absurd hs h1
  | done => exact absurd hs h2
  | dlServer => exact ⟨.stop, rfl, by simp [step, hs]⟩
  | pend i => exact ⟨.stop, rfl, by simp [step, hs]⟩
  | unlock => exact ⟨.stop, rfl, by simp [step, hs]⟩
  | closeSrv => exact ⟨.stop, rfl, by simp [step, hs]⟩
  | iter =>
    by_cases hall : allB s.n (fun i => !s.inTab i || (s.ent i).visited) = true
    · exact ⟨.stop, rfl, by simp [step, hs, hall]⟩
    · obtain ⟨i, hin, hp⟩ := exists_of_not_allB hall
      simp only [Bool.or_eq_false_iff, Bool.not_eq_false'] at hp
      refine ⟨.stopVisit i, rfl, ?_⟩
      simp only [step, hs, hin, hp.1, hp.2, and_self, if_true]
      split <;> simp
  | waitMwg =>
    cases hrp : s.rpc with
    | done => exact ⟨.stop, rfl, by simp [step, hs, hrp]⟩
    | read =>
      have hsp : s.srvPast = true := (inv6_reachable cfg h).p1 (by simp [hs, SPc.afterDl])
      exact ⟨.rExit, rfl, by simp [step, hrp, hsp]⟩
    | hold c => exact ⟨.rProc false, rfl, by simp [step, hrp]⟩
    | unlock => exact ⟨.rUnlock, rfl, by simp [step, hrp]⟩
    | wantLock c =>
      rcases mutex_free_or_holder_moves cfg h (by simp [hrp, RPc.holds]) (by simp [hs, SPc.holds]) with hf | ⟨j, hj⟩
      · exact ⟨.rLock, rfl, by simp [step, hrp, hf]⟩
      · exact ⟨.cleanup j, rfl, hj⟩
  | lock =>
    have hdone : s.rpc = .done := (inv3a_reachable cfg h).g5 (by simp [hs, SPc.afterMwg])
    rcases mutex_free_or_holder_moves cfg h (by simp [hdone, RPc.holds]) (by simp [hs, SPc.holds]) with hf | ⟨j, hj⟩
    · exact ⟨.stop, rfl, by simp [step, hs, hf]⟩
    · exact ⟨.cleanup j, rfl, hj⟩
  | waitWg =>
    by_cases hall : allB s.n (fun i => (s.ent i).finished) = true
    · exact ⟨.stop, rfl, by simp [step, hs, hall]⟩
    · obtain ⟨i, hin, hp⟩ := exists_of_not_allB hall
      exact session_can_move cfg hr ha h hs hin hp


/-- Stop, once called, stays called -/
theorem not_idle_step {s s' : State} {e : Ev} (hs : step cfg s e = some s') (h : s.spc ≠ .idle) : s'.spc ≠ .idle := by
  cases e <;> simp only [step] at hs <;> (repeat' split at hs) <;>
    first
    | (simp at hs; done)
    | (injection hs with hs; subst hs; simp_all [State.setE])

/-- After Stop was called, a run of the relay's own steps (no timer, no environment) of length at most `measure s`
ends with Stop returned: Stop returns after boundedly many steps of in-flight work, whatever the NAT timeout is. -/
theorem stop_completes (hr : cfg.recheck = true) (ha : cfg.initArms = true) :
    ∀ (m : Nat) {s : State}, Reachable cfg s → s.spc ≠ .idle → measure s ≤ m →
      ∃ es s', (∀ e ∈ es, e.internal = true) ∧ es.length ≤ measure s ∧ run cfg s es = some s' ∧ s'.spc = .done := by
  intro m
  induction m with
  | zero =>
    intro s h h1 hm
    by_cases h2 : s.spc = .done
    · exact ⟨[], s, by simp, by simp, rfl, h2⟩
    · obtain ⟨e, he, hen⟩ := stop_progress cfg hr ha h h1 h2
      obtain ⟨s1, hs1⟩ := Option.isSome_iff_exists.mp hen
      have := measure_decreases cfg h e he hs1
      omega
  | succ m ih =>
    intro s h h1 hm
    by_cases h2 : s.spc = .done
    · exact ⟨[], s, by simp, by simp, rfl, h2⟩
    · obtain ⟨e, he, hen⟩ := stop_progress cfg hr ha h h1 h2
      obtain ⟨s1, hs1⟩ := Option.isSome_iff_exists.mp hen
      have hd := measure_decreases cfg h e he hs1
      obtain ⟨es, s', hint, hlen, hrun, hdone⟩ := ih (Reachable.step e h hs1) (not_idle_step cfg hs1 h1) (by omega)
      refine ⟨e :: es, s', ?_, ?_, ?_, hdone⟩
      · intro e' he'
        rcases List.mem_cons.mp he' with rfl | h'
        · exact he
        · exact hint e' h'
      · simp only [List.length_cons]; omega
      · simp [run, hs1, hrun]


theorem not_idle_run {s s' : State} (es : List Ev) (hr : run cfg s es = some s') (h : s.spc ≠ .idle) : s'.spc ≠ .idle := by
  induction es generalizing s with
  | nil => simp [run] at hr; subst hr; exact h
  | cons e es ih =>
    simp only [run] at hr
    split at hr
    · next s1 h1 => exact ih hr (not_idle_step cfg h1 h)
    · simp at hr

/-- EVERY run of the relay's own steps after Stop was called that cannot be continued has Stop returned, and is no longer
than the measure of the state it started from -/
theorem maximal_run_returns (hr : cfg.recheck = true) (ha : cfg.initArms = true) {s s' : State} (h : Reachable cfg s)
    (h1 : s.spc ≠ .idle) (es : List Ev) (hint : ∀ e ∈ es, e.internal = true) (hrun : run cfg s es = some s')
    (hmax : ∀ e, e.internal = true → step cfg s' e = none) : s'.spc = .done ∧ es.length ≤ measure s := by
  have hb := internal_run_bounded cfg h es hint hrun
  refine ⟨?_, by omega⟩
  cases hd : decide (s'.spc = .done) with
  | true => exact of_decide_eq_true hd
  | false =>
    have h2 : s'.spc ≠ .done := of_decide_eq_false hd
    obtain ⟨e, he, hen⟩ := stop_progress cfg hr ha (reachable_run es h hrun) (not_idle_run cfg es hrun h1) h2
    rw [hmax e he] at hen
    cases hen

end SSV.RelayLife
