import SSV.Proofs.RelayLifeDefs3
namespace SSV.RelayLife
variable (cfg : Cfg)

set_option maxHeartbeats 1600000 in
theorem inv3a_init (s s' : State) (i : Nat) (ok : Bool) (hI : Inv3a s) (h : step cfg s (.init i ok) = some s') : Inv3a s' := by
  obtain ⟨k1,u2,u3,g5,gp⟩ := hI
  simp only [step] at h
  (repeat' split at h) <;> close_case3


end SSV.RelayLife
