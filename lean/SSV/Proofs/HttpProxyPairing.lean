import SSV.Proofs.HttpProxyTS
/-
FIFO pairing over the traces of the forwarding transition system (all interleavings): the index invariant.
-/
namespace SSV.HttpProxy
open SSV.Gen.C16

abbrev Entry := Resp × Req × Nat

/-- number of final responses among deliveries -/
def countFinals (l : List Entry) : Nat := (l.filter (fun e => isFinal e.1.status)).length

theorem countFinals_snoc (l : List Entry) (e : Entry) :
    countFinals (l ++ [e]) = countFinals l + (if isFinal e.1.status then 1 else 0) := by
  unfold countFinals
  rw [List.filter_append, List.length_append]
  by_cases h : isFinal e.1.status = true <;> simp [List.filter_cons, h]

/-- every delivery carries the number of final deliveries before it as its index, and the request at that position
    of `reqs` as its request -/
def Paired (reqs : List Req) (l : List Entry) : Prop :=
  ∀ (i : Nat) (h : i < l.length), (l[i]).2.2 = countFinals (l.take i) ∧ reqs[(l[i]).2.2]? = some (l[i]).2.1

theorem getElem?_snoc_of_some {α : Type} {l : List α} {i : Nat} {a b : α} (h : l[i]? = some a) :
    (l ++ [b])[i]? = some a := by
  have hi : i < l.length := by
    rcases Nat.lt_or_ge i l.length with hlt | hge
    · exact hlt
    · rw [List.getElem?_eq_none hge] at h; cases h
  rw [List.getElem?_append_left hi]; exact h

theorem paired_mono {reqs : List Req} {l : List Entry} (r : Req) (hp : Paired reqs l) : Paired (reqs ++ [r]) l := by
  intro i h
  exact ⟨(hp i h).1, getElem?_snoc_of_some (hp i h).2⟩

theorem paired_snoc {reqs : List Req} {l : List Entry} {e : Entry} (hp : Paired reqs l)
    (h1 : e.2.2 = countFinals l) (h2 : reqs[e.2.2]? = some e.2.1) : Paired reqs (l ++ [e]) := by
  intro i h
  rw [List.length_append, List.length_singleton] at h
  rcases Nat.lt_or_ge i l.length with hlt | hge
  · have hg : (l ++ [e])[i] = l[i] := List.getElem_append_left hlt
    have ht : (l ++ [e]).take i = l.take i := List.take_append_of_le_length (Nat.le_of_lt hlt)
    rw [hg, ht]
    exact hp i hlt
  · have hi : i = l.length := by omega
    subst hi
    have hg : (l ++ [e])[l.length] = e := by simp
    have ht : (l ++ [e]).take l.length = l := by simp
    rw [hg, ht]
    exact ⟨h1, h2⟩

/-- the pairing invariant -/
structure PInv (s : St) : Prop where
  doneIff : s.rphase = .done ↔ s.respDone = true
  split : s.announced = s.taken ++ s.queue
  tlen : s.taken.length = countFinals s.clientOut + (if s.rcur.isSome then 1 else 0)
  rlast : ∀ q, s.rcur = some q → ∃ pre, s.taken = pre ++ [q]
  rnone : (s.rphase = .peek ∨ s.rphase = .take) → s.rcur = none
  paired : Paired s.sent s.clientOut
  annSent : s.respDone = false →
    (s.fphase = .announce → ∃ r, s.sent = s.announced ++ [r]) ∧ (s.fphase ≠ .announce → s.announced = s.sent)
  origSent : s.originIn <+: s.sent ∧
    ((s.fphase = .announce ∨ s.fphase = .write) → ∃ r, s.sent = s.originIn ++ [r]) ∧
    (s.fphase = .read → s.originIn = s.sent)

theorem pinv_init (first : Req) (rest : List ClientMsg) : PInv (St.init first rest) := by
  refine ⟨?_, ?_, ?_, ?_, ?_, ?_, ?_, ?_⟩
  · simp [St.init]
  · simp [St.init]
  · simp [St.init, countFinals]
  · simp [St.init]
  · simp [St.init]
  · intro i h; simp [St.init] at h
  · intro _; simp [St.init]
  · simp [St.init]

theorem pinv_step {s t : St} (hi : PInv s) (hs : Step s t) : PInv t := by
  obtain ⟨hD, hS, hT, hL, hN, hP, hA, hO⟩ := hi
  cases hs with
  | fAnnounce pre r hp hsent hq =>
    refine ⟨hD, ?_, hT, hL, hN, hP, ?_, ?_⟩
    · simp only [hS, List.append_assoc]
    · intro hd
      have := (hA hd).1 hp
      obtain ⟨r', hr'⟩ := this
      have heq : pre ++ [r] = s.announced ++ [r'] := by rw [← hsent, hr']
      have := List.append_inj' heq rfl
      refine ⟨fun h => by simp at h, fun _ => ?_⟩
      show s.announced ++ [r] = s.sent
      rw [hsent, this.1]
    · refine ⟨hO.1, fun _ => hO.2.1 (Or.inl hp), fun h => by simp at h⟩
  | fSkip hp hd =>
    refine ⟨hD, hS, hT, hL, hN, hP, ?_, ?_⟩
    · intro hd'; simp only at hd'; rw [hd] at hd'; cases hd'
    · refine ⟨hO.1, fun _ => hO.2.1 (Or.inl hp), fun h => by simp at h⟩
  | fWrite pre r hp hsent =>
    refine ⟨hD, hS, hT, hL, hN, hP, ?_, ?_⟩
    · intro hd
      have h2 := (hA hd).2 (by rw [hp]; simp)
      exact ⟨fun h => by simp at h, fun _ => h2⟩
    · obtain ⟨r', hr'⟩ := hO.2.1 (Or.inr hp)
      have heq : pre ++ [r] = s.originIn ++ [r'] := by rw [← hsent, hr']
      have := List.append_inj' heq rfl
      have hfin : s.originIn ++ [r] = s.sent := by rw [hsent, this.1]
      refine ⟨?_, fun h => by simp at h, fun _ => hfin⟩
      show s.originIn ++ [r] <+: s.sent
      rw [hfin]
      exact List.prefix_refl _
  | fWriteErr hp =>
    refine ⟨hD, hS, hT, hL, hN, hP, ?_, ?_⟩
    · intro hd
      have h2 := (hA hd).2 (by rw [hp]; simp)
      exact ⟨fun h => by simp at h, fun _ => h2⟩
    · exact ⟨hO.1, fun h => by simp at h, fun h => by simp at h⟩
  | fReadOk m rest r hp hc ha =>
    refine ⟨hD, hS, hT, hL, hN, paired_mono r hP, ?_, ?_⟩
    · intro hd
      have h2 := (hA hd).2 (by rw [hp]; simp)
      refine ⟨fun _ => ⟨r, ?_⟩, fun h => by simp at h⟩
      show s.sent ++ [r] = s.announced ++ [r]
      rw [h2]
    · have h3 := hO.2.2 hp
      refine ⟨?_, fun _ => ⟨r, ?_⟩, fun h => by simp at h⟩
      · show s.originIn <+: s.sent ++ [r]
        exact List.IsPrefix.trans hO.1 (List.prefix_append _ _)
      · show s.sent ++ [r] = s.originIn ++ [r]
        rw [h3]
  | fReadEnd hp hc =>
    refine ⟨hD, hS, hT, hL, hN, hP, ?_, ?_⟩
    · intro hd
      have h2 := (hA hd).2 (by rw [hp]; simp)
      exact ⟨fun h => by simp at h, fun _ => h2⟩
    · exact ⟨hO.1, fun h => by simp at h, fun h => by simp at h⟩
  | origin p => exact ⟨hD, hS, hT, hL, hN, hP, hA, hO⟩
  | rPeek hp hne =>
    refine ⟨?_, hS, hT, hL, fun _ => hN (Or.inl hp), hP, hA, hO⟩
    have : s.respDone ≠ true := fun h => by have := hD.mpr h; rw [hp] at this; cases this
    simp [this]
  | rPeekEnd hp => exact ⟨by simp, hS, hT, hL, fun h => by simp at h, hP, fun h => by simp at h, hO⟩
  | rTake r rest hp hq =>
    have hnone := hN (Or.inr hp)
    refine ⟨?_, ?_, ?_, ?_, fun h => by simp at h, hP, hA, hO⟩
    · have : s.respDone ≠ true := fun h => by have := hD.mpr h; rw [hp] at this; cases this
      simp [this]
    · show s.announced = (s.taken ++ [r]) ++ rest
      rw [hS, hq]; simp
    · show (s.taken ++ [r]).length = countFinals s.clientOut + (if (some r).isSome then 1 else 0)
      rw [hnone] at hT
      simp at hT ⊢
      omega
    · intro q hq'
      simp only [Option.some.injEq] at hq'
      exact ⟨s.taken, by rw [hq']⟩
  | rTakeClosed hp hq hc => exact ⟨by simp, hS, hT, hL, fun h => by simp at h, hP, fun h => by simp at h, hO⟩
  | rRead p rest q hp hc ho =>
    have hnd : s.respDone = false := by
      cases hrd : s.respDone with
      | false => rfl
      | true => have := hD.mpr hrd; rw [hp] at this; cases this
    obtain ⟨pre, hpre⟩ := hL q hc
    have hlen : s.taken.length = countFinals s.clientOut + 1 := by rw [hT, hc]; simp
    have hidx : s.taken.length - 1 = countFinals s.clientOut := by omega
    have hpl : pre.length = countFinals s.clientOut := by rw [hpre] at hlen; simp at hlen; exact hlen
    -- the request at that position of `sent`
    have hann : s.announced[countFinals s.clientOut]? = some q := by
      rw [hS, hpre, ← hpl]; simp
    have hsent : s.sent[countFinals s.clientOut]? = some q := by
      by_cases hf : s.fphase = .announce
      · obtain ⟨r', hr'⟩ := (hA hnd).1 hf
        rw [hr']; exact getElem?_snoc_of_some hann
      · rw [← (hA hnd).2 hf]; exact hann
    have hst : (filterResp p q).1.status = p.status := filterResp_status p q
    refine ⟨?_, hS, ?_, ?_, ?_, ?_, ?_, hO⟩
    · -- done ↔ respDone
      show (if (filterResp p q).2 = true then RPhase.done else if isFinal p.status = true then RPhase.peek else RPhase.read) = RPhase.done
        ↔ (filterResp p q).2 = true
      by_cases hcl : (filterResp p q).2 = true
      · simp [hcl]
      · by_cases hf : isFinal p.status = true <;> simp [hcl, hf]
    · show s.taken.length = countFinals (s.clientOut ++ [((filterResp p q).1, q, s.taken.length - 1)]) +
        (if (if isFinal p.status = true then none else some q).isSome then 1 else 0)
      rw [countFinals_snoc, hst, hlen]
      by_cases hf : isFinal p.status = true <;> simp [hf]
    · intro q' hq'
      show ∃ pre, s.taken = pre ++ [q']
      by_cases hf : isFinal p.status = true
      · simp [hf] at hq'
      · simp [hf] at hq'; subst hq'; exact ⟨pre, hpre⟩
    · intro hph
      show (if isFinal p.status = true then none else some q) = none
      by_cases hcl : (filterResp p q).2 = true
      · simp [hcl] at hph
      · by_cases hf : isFinal p.status = true
        · simp [hf]
        · simp [hcl, hf] at hph
    · show Paired s.sent (s.clientOut ++ [((filterResp p q).1, q, s.taken.length - 1)])
      exact paired_snoc hP hidx (by rw [hidx]; exact hsent)
    · intro hd
      have hd' : (filterResp p q).2 = false := hd
      exact hA hnd
  | rErr hp => exact ⟨by simp, hS, hT, hL, fun h => by simp at h, hP, fun h => by simp at h, hO⟩

theorem pinv_reachable {first : Req} {rest : List ClientMsg} {s : St} (hr : Reachable first rest s) : PInv s := by
  induction hr with
  | init => exact pinv_init first rest
  | step _ hs ih => exact pinv_step ih hs


/-! ### the accepted requests are a prefix of the client's forwardable sequence -/

theorem prefix_getElem? {α : Type} {l₁ l₂ : List α} {i : Nat} {a : α} (hp : l₁ <+: l₂) (h : l₁[i]? = some a) :
    l₂[i]? = some a := by
  obtain ⟨t, rfl⟩ := hp
  have hi : i < l₁.length := by
    rcases Nat.lt_or_ge i l₁.length with hlt | hge
    · exact hlt
    · rw [List.getElem?_eq_none hge] at h; cases h
  rw [List.getElem?_append_left hi]; exact h

structure FInv (first : Req) (rest : List ClientMsg) (s : St) : Prop where
  host : s.fixedHost = first.host
  pre : s.sent <+: filterReq first :: forwardList first.host rest
  live : s.fphase ≠ .done → s.sent ++ forwardList first.host s.clientIn = filterReq first :: forwardList first.host rest

theorem finv_reachable {first : Req} {rest : List ClientMsg} {s : St} (hr : Reachable first rest s) : FInv first rest s := by
  induction hr with
  | init => exact ⟨rfl, by simp [St.init], fun _ => by simp [St.init]⟩
  | @step s0 _ _ hs ih =>
    obtain ⟨h1, h2, h3⟩ := ih
    cases hs with
    | fAnnounce pre r hp hsent hq => exact ⟨h1, h2, fun _ => h3 (by rw [hp]; simp)⟩
    | fSkip hp hd => exact ⟨h1, h2, fun _ => h3 (by rw [hp]; simp)⟩
    | fWrite pre r hp hsent => exact ⟨h1, h2, fun _ => h3 (by rw [hp]; simp)⟩
    | fWriteErr hp => exact ⟨h1, h2, fun h => by simp at h⟩
    | fReadOk m rest' r hp hc ha =>
      have hl := h3 (by rw [hp]; simp)
      rw [hc] at hl
      have hfl : forwardList first.host (m :: rest') = r :: forwardList first.host rest' := by
        rw [← h1]; simp [forwardList, ha]
      rw [hfl] at hl
      have hl' : (s0.sent ++ [r]) ++ forwardList first.host rest' = filterReq first :: forwardList first.host rest := by
        rw [← hl]; simp
      exact ⟨h1, ⟨_, hl'⟩, fun _ => hl'⟩
    | fReadEnd hp hc => exact ⟨h1, h2, fun h => by simp at h⟩
    | origin p => exact ⟨h1, h2, h3⟩
    | rPeek hp hne => exact ⟨h1, h2, h3⟩
    | rPeekEnd hp => exact ⟨h1, h2, h3⟩
    | rTake r rest' hp hq => exact ⟨h1, h2, h3⟩
    | rTakeClosed hp hq hc => exact ⟨h1, h2, h3⟩
    | rRead p rest' q hp hc ho => exact ⟨h1, h2, h3⟩
    | rErr hp => exact ⟨h1, h2, h3⟩

end SSV.HttpProxy
