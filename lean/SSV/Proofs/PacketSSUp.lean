import SSV.Proofs.PacketSS
/- C05 helper lemmas: Shadowsocks 2022 client → server round trip. -/
namespace SSV.Packet
open SSV SSV.Gen.C05

theorem sub_whole (x : Bytes) (m : Nat) (h : x.length = m) : sub x 0 m = x := by subst h; simp [sub]

/-- the server side on any buffer whose packet window holds
`enc(block, sep) ++ identity headers ++ ciphertext`, when the ciphertext opens and the header parses -/
theorem ssServerUnpack_window (c : Crypto) (L : c.Laws) (block key : Bytes) (k : Nat) (now : Int) (bb : Bytes) (q n : Nat)
    (sep ids ct pt : Bytes) (a : Addr) (ps' pl' : Nat)
    (hwin : sub bb q n = c.enc block sep ++ ids ++ ct)
    (hsep : sep.length = 16) (hids : ids.length = 16 * k) (hn : n = 16 + 16 * k + ct.length) (hct : 16 ≤ ct.length)
    (hlen : q + n ≤ bb.length)
    (hopen : c.aopen key (sep.drop 4) ct = some pt) (hparse : parseClientHeader pt now = .ok (a, ps', pl')) :
    ssServerUnpack c block key k false [] now bb q n
      = .ok ⟨splice bb q (sep ++ ids ++ pt), a, ((q + (16 + 16 * k) + ps' : Nat) : Int), pl'⟩ := by
  have henc : (c.enc block sep).length = 16 := by rw [L.enc_len, hsep]
  have e1 : sub bb q 16 = c.enc block sep := by
    have := sub_of_sub bb q n 0 16 (by omega)
    rw [Nat.add_zero] at this
    rw [this, hwin, List.append_assoc, sub_left _ _ _ henc]
  have e2 : sub bb (q + 16) (16 + 16 * k - 16) = ids := by
    rw [sub_of_sub bb q n 16 (16 + 16 * k - 16) (by omega), hwin, List.append_assoc,
      sub_right (c.enc block sep) _ 16 _ 0 (by omega), sub_left ids ct _ (by omega)]
  have e3 : sub bb (q + (16 + 16 * k)) (n - (16 + 16 * k)) = ct := by
    rw [sub_of_sub bb q n (16 + 16 * k) (n - (16 + 16 * k)) (by omega), hwin,
      sub_right (c.enc block sep ++ ids) ct (16 + 16 * k) _ 0 (by simp [henc, hids]), sub_whole ct _ (by omega)]
  have hna : UDPSeparateHeaderLength + IdentityHeaderLength * k = 16 + 16 * k := rfl
  have hu : UDPSeparateHeaderLength = 16 := rfl
  unfold ssServerUnpack
  rw [hna, hu]
  simp only [Bool.false_eq_true, if_false]
  rw [if_neg (by simp only [Decidable.not_not, sliceOk]; omega), if_neg (by omega), if_neg (by omega)]
  simp only [e1, L.dec_enc]
  have e5 : sUnpackTooSmall (n : Int) ((16 + 16 * k : Nat) : Int) 16 = false := by
    simp only [sUnpackTooSmall, decide_eq_false_iff_not]; omega
  have e4 : (sUnpackMessageHeaderStart (q : Int) ((16 + 16 * k : Nat) : Int)).toNat = q + (16 + 16 * k) := by
    simp only [sUnpackMessageHeaderStart]; omega
  simp only [e5, Bool.false_eq_true, if_false, e4, e3, hopen, hparse, e2]
  have e6 : sUnpackMessageHeaderStart (q : Int) ((16 + 16 * k : Nat) : Int) + (ps' : Int) = ((q + (16 + 16 * k) + ps' : Nat) : Int) := by
    simp only [sUnpackMessageHeaderStart]; omega
  rw [e6]

theorem xorBytes_length (x y : Bytes) : (xorBytes x y).length = min x.length y.length := by
  simp [xorBytes]

theorem ids_length (c : Crypto) (L : c.Laws) (eih : List (Bytes × Bytes)) (sep : Bytes) (hsep : sep.length = 16)
    (hh : ∀ kh ∈ eih, kh.2.length = 16) :
    ((eih.map (fun kh => c.enc kh.1 (xorBytes kh.2 sep))).flatten).length = 16 * eih.length := by
  induction eih with
  | nil => simp
  | cons kh t ih =>
    have h1 := hh kh (by simp)
    have h2 := ih (fun x hx => hh x (by simp [hx]))
    simp only [List.map_cons, List.flatten_cons, List.length_append, List.length_cons, L.enc_len, xorBytes_length, h1, hsep, h2]
    omega

theorem ssClientHdr_length (b : Bytes) (a : Addr) (ps pad : Nat) (ts : Bytes) (ha : a.wf) (hts : ts.length = 8)
    (hb : ps - (addrLen a).toNat - pad + pad ≤ b.length) :
    (ssClientHdr b a ps pad ts).length = 11 + pad + (addrLen a).toNat := by
  have := encodeAddr_length a ha
  simp only [ssClientHdr, List.length_cons, List.length_append, hts, be16_length, sub_length _ _ _ hb]
  omega

/-- client → server round trip of Shadowsocks 2022 for any number of identity headers: the server side
(separate header decrypted with the packer's block key, `nonAEADHeaderLen = 16 + 16·k`, same session key)
returns the normalised address and the payload, in place. -/
theorem ss_roundtrip_up (c : Crypto) (L : c.Laws) (userBlock aeadKey : Bytes) (eih : List (Bytes × Bytes)) (mps : Int)
    (pol : Policy) (b : Bytes) (a : Addr) (ps pl rand : Nat) (ts sid pid : Bytes) (now : Int) (r : Packed)
    (ha : a.wf) (hts : ts.length = 8) (hsid : sid.length = 8) (hpid : pid.length = 8)
    (hh : ∀ kh ∈ eih, kh.2.length = 16) (hnow : tsOk ts now = true)
    (h : ssClientPack c userBlock aeadKey eih mps pol b a ps pl rand ts sid pid = .ok r) :
    ∃ u, ssServerUnpack c (ssBlock userBlock eih) aeadKey eih.length false [] now r.buf r.packetStart.toNat r.packetLen.toNat = .ok u ∧
      u.addr = a.norm ∧ u.payloadStart = ps ∧ u.payloadLen = pl ∧ sub u.buf ps pl = sub b ps pl ∧
      u.buf.length = b.length ∧ u.buf.take r.packetStart.toNat = r.buf.take r.packetStart.toNat ∧
      u.buf.drop (r.packetStart + r.packetLen).toNat = r.buf.drop (r.packetStart + r.packetLen).toNat := by
  obtain ⟨hal1, hal2⟩ := addrLen_bounds a ha
  obtain ⟨pad, hpad, hF, hroom, _, hps, hpl, hbuf⟩ := ssClientPack_ok ha h
  have hsep : (sid ++ pid).length = 16 := by simp [hsid, hpid]
  have hids := ids_length c L eih (sid ++ pid) hsep hh
  have hFdef : ssFront eih.length a pad = 16 + 16 * eih.length + 11 + (addrLen a).toNat + pad := rfl
  have hhdr := ssClientHdr_length b a ps pad ts ha hts (by omega)
  have hsubpl : (sub b ps pl).length = pl := sub_length _ _ _ (by omega)
  have hPlen : (ssClientPacket c userBlock aeadKey eih b a ps pl pad ts sid pid).length = ssFront eih.length a pad + pl + 16 := by
    simp only [ssClientPacket, List.length_append, L.enc_len, L.seal_len, hsep, hids, hhdr, hsubpl]
    omega
  have e1 : r.packetStart.toNat = ps - ssFront eih.length a pad := by omega
  have e2 : r.packetLen.toNat = ssFront eih.length a pad + pl + 16 := by omega
  have e3 : (r.packetStart + r.packetLen).toNat = ps + pl + 16 := by omega
  rw [e1, e2, e3, hbuf]
  have hL := splice_length b (ps - ssFront eih.length a pad) _ (by rw [hPlen]; omega)
  have hwin := sub_splice b (ps - ssFront eih.length a pad) (ssClientPacket c userBlock aeadKey eih b a ps pl pad ts sid pid) (by rw [hPlen]; omega)
  rw [hPlen] at hwin
  have hpt : ssClientHdr b a ps pad ts ++ sub b ps pl =
      UInt8.ofNat HeaderTypeClientPacket :: (ts ++ (be16 pad ++ (sub b (ps - (addrLen a).toNat - pad) pad ++ (encodeAddr a ++ sub b ps pl)))) := by
    simp [ssClientHdr]
  have hparse := parseClientHeader_put ts (sub b (ps - (addrLen a).toNat - pad) pad) pad a (sub b ps pl) now hts
    (sub_length _ _ _ (by omega)) (by omega) ha hnow
  rw [← hpt, hsubpl] at hparse
  have hu := ssServerUnpack_window c L (ssBlock userBlock eih) aeadKey eih.length now _ (ps - ssFront eih.length a pad)
    (ssFront eih.length a pad + pl + 16) (sid ++ pid) _ _ _ _ _ _ hwin hsep hids
    (by simp only [L.seal_len, List.length_append, hhdr, hsubpl]; omega)
    (by simp only [L.seal_len]; omega) (by omega) (L.open_seal _ _ _) hparse
  have hDlen : (sid ++ pid ++ (eih.map (fun kh => c.enc kh.1 (xorBytes kh.2 (sid ++ pid)))).flatten ++
      (ssClientHdr b a ps pad ts ++ sub b ps pl)).length = ssFront eih.length a pad + pl := by
    simp only [List.length_append, hsid, hpid, hids, hhdr, hsubpl]; omega
  have hq : ps - ssFront eih.length a pad + ssFront eih.length a pad = ps := by omega
  refine ⟨_, hu, rfl, ?_, rfl, ?_, ?_, ?_, ?_⟩
  · simp only; omega
  · simp only
    have := sub_splice_inner (splice b (ps - ssFront eih.length a pad) (ssClientPacket c userBlock aeadKey eih b a ps pl pad ts sid pid))
      (ps - ssFront eih.length a pad) _ (ssFront eih.length a pad) pl (by rw [hDlen, hL]; omega) (by rw [hDlen]; omega)
    rw [hq] at this
    rw [this, ← List.append_assoc,
      sub_right _ (sub b ps pl) (ssFront eih.length a pad) pl 0
        (by simp only [List.length_append, hsid, hpid, hids, hhdr]; omega),
      sub_whole _ _ hsubpl]
  · simp only
    rw [splice_length _ _ _ (by rw [hDlen, hL]; omega), hL]
  · simp only
    rw [splice_take _ _ _ (by rw [hDlen, hL]; omega)]
  · simp only
    rw [splice_drop_ge _ _ _ _ (by rw [hDlen, hL]; omega) (by rw [hDlen]; omega)]

end SSV.Packet
