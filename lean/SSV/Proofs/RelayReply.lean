import SSV.Proofs.Relay
/-
The invariant behind `replies_to_owner` and `ss2022_follows_address`.
-/
namespace SSV.Relay

variable {cfg : Config}

theorem lastAddr_append_single (l : List (Nat × Addr × Pkt)) (sid : Nat) (a : Addr) (q : Pkt) (sid' : Nat) :
    lastAddr (l ++ [(sid, a, q)]) sid' = if sid = sid' then some a else lastAddr l sid' := by
  simp [lastAddr, List.foldl_append]

def ReplyOK (cfg : Config) (st : State) (r : Reply) : Prop :=
  r.stamp ≤ st.recvd.length ∧
  lastAddr (st.recvd.take r.stamp) r.sid = some r.to ∧
  r.src = (if cfg.carriesSource then some r.fromSrc else none) ∧
  ∃ s, st.sess r.sid = some s ∧ (cfg.byAddr = true → r.to = s.key)

structure RInv (cfg : Config) (st : State) : Prop where
  fresh : ∀ sid s, st.sess sid = some s → sid < st.next
  addr : ∀ sid s, st.sess sid = some s → lastAddr st.recvd sid = some s.clientAddr
  key : ∀ sid s, st.sess sid = some s → cfg.byAddr = true → s.clientAddr = s.key
  tab : ∀ k sid, st.table k = some sid → ∃ s, st.sess sid = some s ∧ s.key = k
  rep : ∀ r ∈ st.replies, ReplyOK cfg st r

theorem rinv_init (cfg : Config) : RInv cfg State.init := by
  refine ⟨?_, ?_, ?_, ?_, ?_⟩ <;> simp [State.init]

theorem frameR {st st' : State} (sid : Nat) (s' : Sess) (hI : RInv cfg st)
    (hnext : st.next ≤ st'.next) (hsid : sid < st'.next)
    (hsess : st'.sess = updF st.sess sid (some s'))
    (hkeep : ∀ s, st.sess sid = some s → s'.key = s.key)
    (hpre : ∃ l, st'.recvd = st.recvd ++ l)
    (haddr : lastAddr st'.recvd sid = some s'.clientAddr)
    (hrec : ∀ sid'', sid'' ≠ sid → lastAddr st'.recvd sid'' = lastAddr st.recvd sid'')
    (hkey : cfg.byAddr = true → s'.clientAddr = s'.key)
    (htab : ∀ k sid'', st'.table k = some sid'' → st.table k = some sid'' ∨ (sid'' = sid ∧ s'.key = k))
    (hrep : ∀ r ∈ st'.replies, r ∈ st.replies ∨ ReplyOK cfg st' r) : RInv cfg st' := by
  have hother : ∀ sid'', sid'' ≠ sid → st'.sess sid'' = st.sess sid'' := by
    intro sid'' hne; rw [hsess]; exact updF_other _ _ _ _ hne
  have hsame : st'.sess sid = some s' := by rw [hsess]; simp
  obtain ⟨l, hl⟩ := hpre
  refine ⟨?_, ?_, ?_, ?_, ?_⟩
  · intro sid'' s hs
    by_cases he : sid'' = sid
    · subst he; exact hsid
    · rw [hother _ he] at hs; exact Nat.lt_of_lt_of_le (hI.fresh _ _ hs) hnext
  · intro sid'' s hs
    by_cases he : sid'' = sid
    · subst he; rw [hsame] at hs; cases hs; exact haddr
    · rw [hother _ he] at hs; rw [hrec _ he]; exact hI.addr _ _ hs
  · intro sid'' s hs hb
    by_cases he : sid'' = sid
    · subst he; rw [hsame] at hs; cases hs; exact hkey hb
    · rw [hother _ he] at hs; exact hI.key _ _ hs hb
  · intro k sid'' ht
    rcases htab k sid'' ht with h | ⟨h1, h2⟩
    · obtain ⟨s, hs, hk⟩ := hI.tab k sid'' h
      by_cases he : sid'' = sid
      · subst he; exact ⟨s', hsame, by rw [hkeep s hs]; exact hk⟩
      · exact ⟨s, by rw [hother _ he]; exact hs, hk⟩
    · subst h1; exact ⟨s', hsame, h2⟩
  · intro r hr
    rcases hrep r hr with h | h
    · obtain ⟨h1, h2, h3, s, hs, h4⟩ := hI.rep r h
      refine ⟨by rw [hl, List.length_append]; exact Nat.le_trans h1 (Nat.le_add_right _ _), ?_, h3, ?_⟩
      · rw [hl, List.take_append_of_le_length h1]; exact h2
      · by_cases he : r.sid = sid
        · refine ⟨s', by rw [he]; exact hsame, fun hb => ?_⟩
          rw [he] at hs
          rw [hkeep s hs]; exact h4 hb
        · exact ⟨s, by rw [hother _ he]; exact hs, h4⟩
    · exact h

/-- steps that rewrite one existing session keeping its key and client address, and leave table, next,
`recvd` and `replies` alone -/
theorem rinv_setSess {st st' : State} (hI : RInv cfg st) (sid : Nat) (s s' : Sess) (hs : st.sess sid = some s)
    (hsess : st'.sess = updF st.sess sid (some s'))
    (hnext : st'.next = st.next) (hrecvd : st'.recvd = st.recvd) (hrep : st'.replies = st.replies)
    (htab : ∀ k sid'', st'.table k = some sid'' → st.table k = some sid'')
    (hk : s'.key = s.key) (ha : s'.clientAddr = s.clientAddr) : RInv cfg st' := by
  refine frameR sid s' hI (by rw [hnext]; exact Nat.le_refl _) (by rw [hnext]; exact hI.fresh _ _ hs) hsess
    (fun s0 hs0 => by rw [hs] at hs0; cases hs0; exact hk) ⟨[], by rw [hrecvd]; simp⟩
    (by rw [hrecvd, ha]; exact hI.addr _ _ hs) (fun _ _ => by rw [hrecvd])
    (fun hb => by rw [ha, hk]; exact hI.key _ _ hs hb) (fun k sid'' h => Or.inl (htab k sid'' h))
    (fun r hr => Or.inl (by rw [hrep] at hr; exact hr))

theorem rinv_recv (hif : cfg.insertFirst = false) {st : State} (hI : RInv cfg st)
    (k : Key) (src : Addr) (res : Option Pkt) : RInv cfg (recv cfg st k src res) := by
  unfold recv
  split
  · exact hI
  next hg =>
    have hks : cfg.byAddr = true → src = k := by
      intro hb
      simp only [hb, Bool.true_and, bne_iff_ne, ne_eq, Decidable.not_not] at hg
      exact hg.symm
    cases ht : st.table k with
    | some sid =>
      simp only
      cases hs : st.sess sid with
      | none => simp only; exact hI
      | some s =>
        cases res with
        | none => simp only; exact hI
        | some q =>
          simp only
          obtain ⟨s0, hs0, hk0⟩ := hI.tab k sid ht
          rw [hs] at hs0; cases hs0
          refine frameR sid (enqueue cfg { s with clientAddr := src } q) hI (Nat.le_refl _) (hI.fresh _ _ hs) rfl
            (fun s1 hs1 => by rw [hs] at hs1; cases hs1; simp) ⟨[(sid, src, q)], rfl⟩ ?_ ?_ ?_
            (fun k' sid'' h => Or.inl h) (fun r hr => Or.inl hr)
          · simp [setSess, lastAddr_append_single]
          · intro sid'' hne
            simp [setSess, lastAddr_append_single, Ne.symm hne]
          · intro hb; simp [hks hb, hk0]
    | none =>
      simp only
      have hnone : st.sess st.next = none := by
        cases h : st.sess st.next with
        | none => rfl
        | some s => exact absurd (hI.fresh _ _ h) (Nat.lt_irrefl _)
      cases res with
      | some q =>
        simp only
        refine frameR st.next (enqueue cfg (newSess k src) q) hI (Nat.le_succ _) (Nat.lt_succ_self _) rfl
          (fun s1 hs1 => by rw [hnone] at hs1; cases hs1) ⟨[(st.next, src, q)], rfl⟩ ?_ ?_ ?_ ?_ (fun r hr => Or.inl hr)
        · simp [lastAddr_append_single, newSess]
        · intro sid'' hne
          simp [lastAddr_append_single, Ne.symm hne]
        · intro hb; simp [newSess, hks hb]
        · intro k' sid'' h
          simp only [updF] at h
          split at h
          next hk' => cases h; exact Or.inr ⟨rfl, by simp [newSess, hk']⟩
          next => exact Or.inl h
      | none => simp [hif]; exact hI

theorem rinv_initOk {st : State} (hI : RInv cfg st) (sid : Nat) : RInv cfg (initOk st sid) := by
  unfold initOk
  cases hs : st.sess sid with
  | none => exact hI
  | some s =>
    simp only
    split
    · exact rinv_setSess hI sid s _ hs rfl rfl rfl rfl (fun _ _ h => h) rfl rfl
    · exact hI

theorem rinv_closeSess {st : State} (hI : RInv cfg st) (sid : Nat) (s s0 : Sess) (hs : st.sess sid = some s0)
    (hk : s.key = s0.key) (ha : s.clientAddr = s0.clientAddr) : RInv cfg (closeSess st sid s) := by
  refine rinv_setSess hI sid s0 { s with closed := true } hs rfl rfl rfl rfl ?_ hk ha
  intro k sid'' h
  simp only [closeSess] at h
  split at h
  · cases h
  · exact h

theorem rinv_initFail {st : State} (hI : RInv cfg st) (sid : Nat) : RInv cfg (initFail st sid) := by
  unfold initFail
  cases hs : st.sess sid with
  | none => exact hI
  | some s =>
    simp only
    split
    · refine rinv_setSess hI sid s { s with queue := [], closed := true } hs rfl rfl rfl rfl ?_ rfl rfl
      intro k sid'' h
      simp only [closeSess] at h
      split at h
      · cases h
      · exact h
    · exact hI

theorem rinv_evict {st : State} (hI : RInv cfg st) (sid : Nat) : RInv cfg (evict st sid) := by
  unfold evict
  cases hs : st.sess sid with
  | none => exact hI
  | some s =>
    simp only
    split
    · exact rinv_closeSess hI sid s s hs rfl rfl
    · exact hI

theorem rinv_take {st : State} (hI : RInv cfg st) (sid : Nat) : RInv cfg (take cfg st sid) := by
  unfold take
  cases hs : st.sess sid with
  | none => exact hI
  | some s =>
    simp only
    split
    · cases hqe : s.queue with
      | nil => exact hI
      | cons q rest =>
        simp only
        cases hup : cfg.upstream with
        | some ap => exact rinv_setSess hI sid s _ hs rfl rfl rfl rfl (fun _ _ h => h) rfl rfl
        | none =>
        simp only
        cases htg : q.target with
        | ip a p =>
          exact rinv_setSess hI sid s _ hs rfl rfl rfl rfl (fun _ _ h => h) rfl rfl
        | dom d port =>
          simp only
          split
          · exact rinv_setSess hI sid s _ hs rfl rfl rfl rfl (fun _ _ h => h) rfl rfl
          · exact rinv_setSess hI sid s _ hs rfl rfl rfl rfl (fun _ _ h => h) rfl rfl
    · exact hI

theorem rinv_packErr {st : State} (hI : RInv cfg st) (sid : Nat) : RInv cfg (packErr st sid) := by
  unfold packErr
  cases hs : st.sess sid with
  | none => exact hI
  | some s =>
    simp only
    split
    · cases hqe : s.queue with
      | nil => exact hI
      | cons q rest => exact rinv_setSess hI sid s _ hs rfl rfl rfl rfl (fun _ _ h => h) rfl rfl
    · exact hI

theorem rinv_resolved {st : State} (hI : RInv cfg st) (sid : Nat) (ans : Option IP) :
    RInv cfg (resolved cfg st sid ans) := by
  unfold resolved
  cases hs : st.sess sid with
  | none => exact hI
  | some s =>
    simp only
    cases hpc : s.pc with
    | resolving q d =>
      cases ans with
      | some ip => exact rinv_setSess hI sid s _ hs rfl rfl rfl rfl (fun _ _ h => h) rfl rfl
      | none => exact rinv_setSess hI sid s _ hs rfl rfl rfl rfl (fun _ _ h => h) rfl rfl
    | idle => cases ans <;> exact hI
    | storedDomain _ _ => cases ans <;> exact hI
    | storedIP _ => cases ans <;> exact hI

theorem rinv_storeIP {st : State} (hI : RInv cfg st) (sid : Nat) : RInv cfg (storeIP cfg st sid) := by
  unfold storeIP
  cases hs : st.sess sid with
  | none => exact hI
  | some s =>
    simp only
    cases hpc : s.pc with
    | storedDomain q ip => exact rinv_setSess hI sid s _ hs rfl rfl rfl rfl (fun _ _ h => h) rfl rfl
    | idle => exact hI
    | resolving _ _ => exact hI
    | storedIP _ => exact hI

theorem rinv_readSend {st : State} (hI : RInv cfg st) (sid : Nat) : RInv cfg (readSend cfg st sid) := by
  unfold readSend
  cases hs : st.sess sid with
  | none => exact hI
  | some s =>
    simp only
    cases hpc : s.pc with
    | storedIP q => exact rinv_setSess hI sid s _ hs rfl rfl rfl rfl (fun _ _ h => h) rfl rfl
    | idle => exact hI
    | resolving _ _ => exact hI
    | storedDomain _ _ => exact hI

theorem rinv_down {st : State} (hI : RInv cfg st) (sid : Nat) (res : Option ((IP × Nat) × Payload)) :
    RInv cfg (down cfg st sid res) := by
  unfold down
  cases hs : st.sess sid with
  | none => exact hI
  | some s =>
    cases res with
    | none => exact hI
    | some r =>
      obtain ⟨src, pl⟩ := r
      simp only
      split
      · refine ⟨hI.fresh, hI.addr, hI.key, hI.tab, ?_⟩
        intro r hr
        rcases List.mem_append.mp hr with h | h
        · exact hI.rep r h
        · simp at h; subst h
          exact ⟨Nat.le_refl _, by simpa using hI.addr _ _ hs, rfl, s, hs, fun hb => hI.key _ _ hs hb⟩
      · exact hI

theorem rinv_step (hif : cfg.insertFirst = false) {st : State} (hI : RInv cfg st) (a : Act) :
    RInv cfg (step cfg st a) := by
  cases a with
  | recv k src r => exact rinv_recv hif hI k src r
  | initOk sid => exact rinv_initOk hI sid
  | initFail sid => exact rinv_initFail hI sid
  | take sid => exact rinv_take hI sid
  | packErr sid => exact rinv_packErr hI sid
  | resolved sid ans => exact rinv_resolved hI sid ans
  | storeIP sid => exact rinv_storeIP hI sid
  | readSend sid => exact rinv_readSend hI sid
  | down sid r => exact rinv_down hI sid r
  | evict sid => exact rinv_evict hI sid

theorem rinv_run (hif : cfg.insertFirst = false) (acts : List Act) {st : State} (hI : RInv cfg st) :
    RInv cfg (run cfg st acts) := by
  induction acts generalizing st with
  | nil => exact hI
  | cons a rest ih => exact ih (rinv_step hif hI a)

theorem replies_ok (cfg : Config) (hif : cfg.insertFirst = false) (acts : List Act) :
    ∀ r ∈ (run cfg State.init acts).replies,
      lastAddr ((run cfg State.init acts).recvd.take r.stamp) r.sid = some r.to ∧
      r.src = (if cfg.carriesSource then some r.fromSrc else none) ∧
      (cfg.byAddr = true → ∃ s, (run cfg State.init acts).sess r.sid = some s ∧ r.to = s.key) := by
  intro r hr
  obtain ⟨_, h2, h3, s, hs, h4⟩ := (rinv_run hif acts (rinv_init cfg)).rep r hr
  exact ⟨h2, h3, fun hb => ⟨s, hs, h4 hb⟩⟩

theorem follows_address (cfg : Config) (hif : cfg.insertFirst = false) (hb : cfg.byAddr = false) (acts : List Act)
    (key : Key) (sid : Nat) (src : Addr) (q : Pkt)
    (ht : (run cfg State.init acts).table key = some sid) :
    (step cfg (run cfg State.init acts) (.recv key src (some q))).table = (run cfg State.init acts).table ∧
    (step cfg (run cfg State.init acts) (.recv key src (some q))).next = (run cfg State.init acts).next ∧
    ∃ s, (step cfg (run cfg State.init acts) (.recv key src (some q))).sess sid = some s ∧ s.clientAddr = src ∧ s.key = key := by
  obtain ⟨s, hs, hk⟩ := (rinv_run hif acts (rinv_init cfg)).tab key sid ht
  simp only [step, recv, hb, Bool.false_and, ht, hs]
  refine ⟨rfl, rfl, ?_⟩
  simp [setSess, hk]

end SSV.Relay
