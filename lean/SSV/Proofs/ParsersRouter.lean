import SSV.Proofs.Parsers
/-
C06 helper lemmas, part 3: router criteria on the wire-derived address never panic once the two
`*PortSetCriterion.Meet` methods answer port 0 themselves (finding F3), and `Router.match` always
reaches the default route.
-/
namespace SSV.Parsers.Proofs
open SSV SSV.Go SSV.Outcome SSV.Parsers

/-! #### router -/

theorem np_portSetMeet_guarded (mem : Nat → Bool) (port : Nat) : NoPanic (portSetMeet true mem port) := by
  unfold portSetMeet portSetContains
  by_cases h : port = 0 <;> simp [h]

theorem np_domain_of_notIP {t : Addr} (hv : t.isValid = true) (hip : t.isIP = false) : ∃ d, (t.domain : R Bytes) = .ok d := by
  cases t <;> simp [Addr.isValid, Addr.isIP, Addr.domain] at *

theorem np_ip_of_isIP {t : Addr} (hip : t.isIP = true) : ∃ x, (t.ip : R (Bool × Bytes)) = .ok x := by
  cases t <;> simp [Addr.isIP, Addr.ip] at *

mutual
theorem np_meet (g : Guards) (hs : g.src = true) (hd : g.dst = true) (q : Req) (hv : q.target.isValid = true) :
    (c : Crit) → NoPanic (c.meet g q)
  | .networkTCP => by simp [Crit.meet]
  | .networkUDP => by simp [Crit.meet]
  | .srcPort _ => by simp [Crit.meet]
  | .srcPortRanges _ => by simp [Crit.meet]
  | .srcPortSet mem => by simp only [Crit.meet, hs]; exact np_portSetMeet_guarded _ _
  | .dstPort _ => by simp [Crit.meet]
  | .dstPortRanges _ => by simp [Crit.meet]
  | .dstPortSet mem => by simp only [Crit.meet, hd]; exact np_portSetMeet_guarded _ _
  | .dstDomain m => by
      simp only [Crit.meet]
      split
      · simp
      · rename_i h
        obtain ⟨d, hd'⟩ := np_domain_of_notIP hv (by simpa using h)
        simp [hd']
  | .dstIP ps => by
      simp only [Crit.meet]
      split
      · simp
      · rename_i h
        obtain ⟨x, hx⟩ := np_ip_of_isIP (by simpa using h)
        simp [hx]
  | .dstResolvedIP ps resolve => by
      simp only [Crit.meet]
      split
      · rename_i h
        obtain ⟨x, hx⟩ := np_ip_of_isIP h
        simp [hx]
      · rename_i h
        obtain ⟨d, hd'⟩ := np_domain_of_notIP hv (by simpa using h)
        simp only [hd', ok_bind]
        split <;> simp
  | .dstDomainExpectedIP m inner => by
      simp only [Crit.meet]
      refine noPanic_bind ?_ ?_
      · split
        · simp
        · rename_i h
          obtain ⟨d, hd'⟩ := np_domain_of_notIP hv (by simpa using h)
          simp [hd']
      · intro met _
        split
        · simp
        · exact np_meet g hs hd q hv inner
  | .inverted c => by
      simp only [Crit.meet]
      exact noPanic_bind (np_meet g hs hd q hv c) (fun _ _ => by simp)
  | .groupOr cs => by
      simp only [Crit.meet]
      exact np_meetAny g hs hd q hv cs
theorem np_meetAny (g : Guards) (hs : g.src = true) (hd : g.dst = true) (q : Req) (hv : q.target.isValid = true) :
    (cs : List Crit) → NoPanic (Crit.meet.meetAny g q cs)
  | [] => by simp [Crit.meet.meetAny]
  | c :: cs => by
      simp only [Crit.meet.meetAny]
      refine noPanic_bind (np_meet g hs hd q hv c) ?_
      intro met _
      split
      · simp
      · exact np_meetAny g hs hd q hv cs
end

theorem np_routeMatch (g : Guards) (hs : g.src = true) (hd : g.dst = true) (q : Req) (hv : q.target.isValid = true) :
    (cs : List Crit) → NoPanic (routeMatch g q cs)
  | [] => by simp [routeMatch]
  | c :: cs => by
      simp only [routeMatch]
      refine noPanic_bind (np_meet g hs hd q hv c) ?_
      intro met _
      split
      · simp
      · exact np_routeMatch g hs hd q hv cs

/-- the search always ends at the default route (no criteria), so `panic("did not match default route")` is unreachable -/
theorem np_routerMatchFrom (g : Guards) (hs : g.src = true) (hd : g.dst = true) (q : Req) (hv : q.target.isValid = true) :
    (i : Nat) → (rs : List (List Crit)) → NoPanic (routerMatchFrom g q i (rs ++ [[]]))
  | i, [] => by simp [routerMatchFrom, routeMatch]
  | i, r :: rs => by
      simp only [List.cons_append, routerMatchFrom]
      refine noPanic_bind (np_routeMatch g hs hd q hv r) ?_
      intro m _
      split
      · simp
      · exact np_routerMatchFrom g hs hd q hv (i + 1) rs

theorem np_routerMatch (g : Guards) (hs : g.src = true) (hd : g.dst = true) (q : Req) (hv : q.target.isValid = true)
    (routes : List (List Crit)) : NoPanic (routerMatch g q routes) :=
  np_routerMatchFrom g hs hd q hv 0 routes

end SSV.Parsers.Proofs
