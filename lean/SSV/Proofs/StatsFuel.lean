import SSV.Proofs.StatsSeq
/-
C14 — the fuel the driver gives a lone Snapshot / SnapshotAndReset thread (`snapFuel`) always suffices:
the sequential run ends in phase `finished`.
-/
namespace SSV.Stats
open SSV.Gen.C14

/-- number of atomic operations of one user visit -/
def userLen (reset : Bool) : Nat := ((snapProg (shapeOf reset).userKind).map (bindStep [])).length

/-- steps a lone snapshot thread still needs after the current visit, `n` = number of user collectors -/
def phaseCost (n P : Nat) : Phase → Nat
  | .anon => 1 + 1 + n * (P + 2) + 1
  | .lockWait => 1 + n * (P + 2) + 1
  | .users todo => todo.length * (P + 2) + 1
  | .visiting _ todo => 1 + todo.length * (P + 2) + 1
  | .finished => 0

def mu (sh : Shared) (th : SnapTh) : Nat :=
  th.v.pc.length + phaseCost sh.names.length (userLen th.reset) th.phase

theorem exec_pc (ctr : Store) (v : Visit) (s : BStep) (rest : List BStep) : (exec ctr v s rest).2.pc = rest := by
  cases s <;> rfl

theorem exec_other (ctr : Store) (v : Visit) (s : BStep) (rest : List BStep) : (exec ctr v s rest).2.t = v.t := by
  cases s <;> rfl

/-- every step of a lone snapshot thread (iteration order = `names`) uses up exactly one unit -/
theorem snap_step_mu (sh sh' : Shared) (th th' : SnapTh) (h : th.step sh.names sh = some (sh', th')) :
    sh'.names = sh.names ∧ th'.reset = th.reset ∧ mu sh' th' + 1 = mu sh th := by
  unfold SnapTh.step at h
  cases hpc : th.v.pc with
  | cons x rest =>
    simp only [hpc, Option.some.injEq, Prod.mk.injEq] at h
    obtain ⟨rfl, rfl⟩ := h
    refine ⟨rfl, rfl, ?_⟩
    simp only [mu, exec_pc, hpc, List.length_cons]
    omega
  | nil =>
    simp only [hpc] at h
    cases hph : th.phase with
    | anon =>
      simp only [hph, Option.some.injEq, Prod.mk.injEq] at h
      obtain ⟨rfl, rfl⟩ := h
      refine ⟨rfl, rfl, ?_⟩
      simp only [mu, hpc, hph, phaseCost, Visit.idle, List.length_nil]
      omega
    | lockWait =>
      simp only [hph, Option.some.injEq, Prod.mk.injEq] at h
      obtain ⟨rfl, rfl⟩ := h
      refine ⟨rfl, rfl, ?_⟩
      simp only [mu, hpc, hph, phaseCost, List.length_nil]
      omega
    | users todo =>
      cases todo with
      | nil =>
        simp only [hph, Option.some.injEq, Prod.mk.injEq] at h
        obtain ⟨rfl, rfl⟩ := h
        refine ⟨rfl, rfl, ?_⟩
        simp [mu, hpc, hph, phaseCost]
      | cons u todo =>
        simp only [hph, Option.some.injEq, Prod.mk.injEq] at h
        obtain ⟨rfl, rfl⟩ := h
        refine ⟨rfl, rfl, ?_⟩
        simp only [mu, hpc, hph, phaseCost, List.length_nil, List.length_cons, userLen, Nat.succ_mul, Nat.add_mul]
        generalize todo.length * _ = X
        generalize todo.length * 2 = Y
        omega
    | visiting u todo =>
      simp only [hph, Option.some.injEq, Prod.mk.injEq] at h
      obtain ⟨rfl, rfl⟩ := h
      refine ⟨rfl, rfl, ?_⟩
      simp only [mu, hpc, hph, phaseCost, Visit.idle, List.length_nil]
      omega
    | finished => simp [hph] at h

theorem snap_step_none (order : List String) (sh : Shared) (th : SnapTh) (h : th.step order sh = none) :
    th.phase = .finished := by
  unfold SnapTh.step at h
  cases hpc : th.v.pc with
  | cons x rest => simp [hpc] at h
  | nil =>
    simp only [hpc] at h
    cases hph : th.phase with
    | finished => rfl
    | anon => simp [hph] at h
    | lockWait => simp [hph] at h
    | visiting u todo => simp [hph] at h
    | users todo => cases todo <;> simp [hph] at h

theorem mu_zero_finished (sh : Shared) (th : SnapTh) (h : mu sh th = 0) : th.phase = .finished := by
  unfold mu at h
  cases hph : th.phase <;> simp [hph, phaseCost] at h ⊢ <;> omega

theorem runSnap_finishes (n : Nat) (sh : Shared) (th : SnapTh) (hn : mu sh th ≤ n) :
    (runSnap n sh th).2.phase = .finished := by
  induction n generalizing sh th with
  | zero => simp only [runSnap]; exact mu_zero_finished sh th (by omega)
  | succ n ih =>
    cases h : th.step sh.names sh with
    | none => simp only [runSnap, h]; exact snap_step_none _ sh th h
    | some r =>
      obtain ⟨sh', th'⟩ := r
      simp only [runSnap, h]
      have hm := snap_step_mu sh sh' th th' h
      exact ih sh' th' (by omega)

theorem userLen_val (reset : Bool) : userLen reset = 6 := by cases reset <;> decide

theorem anonLen_val (reset : Bool) : (mkSnap reset).v.pc.length = 6 := by cases reset <;> decide

theorem fuel_suffices (sh : Shared) (reset : Bool) : mu sh (mkSnap reset) ≤ snapFuel sh := by
  have h1 := anonLen_val reset
  have h2 : (mkSnap reset).reset = reset := rfl
  have h3 : (mkSnap reset).phase = .anon := rfl
  have h4 : Field.all.length = 6 := by decide
  simp only [mu, h1, h2, h3, phaseCost, userLen_val, snapFuel, h4]
  omega

end SSV.Stats
