import SSV.Model.UdpMulti
import SSV.Proofs.UdpSession
/-
Multi-user server (C04, identity headers): every per-session fact of Proofs/UdpSession.lean holds per
(user, client session id) behind the session table; other sessions are not touched.
-/
namespace SSV.UdpMulti
open SSV.SWF SSV.UdpSession

/-- packet ids delivered in client session `c` -/
def proj (c : Nat) (d : List (Nat × Nat)) : List Nat := (d.filter (fun x => x.1 == c)).map (·.2)

theorem proj_cons_same (c p : Nat) (d : List (Nat × Nat)) : proj c ((c, p) :: d) = p :: proj c d := by
  simp [proj]

theorem proj_cons_other {c c' : Nat} (p : Nat) (d : List (Nat × Nat)) (h : c' ≠ c) : proj c ((c', p) :: d) = proj c d := by
  simp [proj, h]

theorem mem_proj {c p : Nat} {d : List (Nat × Nat)} (h : (c, p) ∈ d) : p ∈ proj c d := by
  simp only [proj, List.mem_map, List.mem_filter]
  exact ⟨(c, p), ⟨h, by simp⟩, rfl⟩

def EInv (n : Nat) (o : Option Entry) (l : List Nat) : Prop :=
  match o with
  | none => l = []
  | some ent => SInv ent.st l ∧ ent.st.filterSize = n

/-- every table entry's filter describes exactly the packet ids delivered in its session -/
def MInv (n : Nat) (t : Table) (d : List (Nat × Nat)) : Prop := ∀ c, EInv n (t c) (proj c d)

/-- the user whose key a datagram must be sealed under to be delivered: the session's user, or (first packet of a
session) the user named by the identity header -/
def sessionUser (t : Table) (e : EPacket) : Option Nat :=
  match t e.pkt.sid with
  | some ent => some ent.user
  | none => if e.eih then e.eihUser else none

theorem parse_forUser (now : Nat) (e : EPacket) (u : Nat) :
    parseClientHeader now (forUser e u) = parseClientHeader now e.pkt := rfl

theorem set_same (t : Table) (c : Nat) (ent : Entry) (h : t c = some ent) : t.set c ent = t := by
  funext x
  simp only [Table.set]
  split
  · next hx => rw [hx, h]
  · rfl

theorem multiStep_noop (n : Nat) (t : Table) (now : Nat) (e : EPacket)
    (h : (multiStep n t now e).2 ≠ .res .ok) : (multiStep n t now e).1 = t := by
  unfold multiStep at h ⊢
  cases hs : e.sep
  · simp [hs]
  · simp only [hs, Bool.not_true, Bool.false_eq_true, if_false] at h ⊢
    cases ht : t e.pkt.sid with
    | some ent =>
      simp only [ht] at h ⊢
      have hno : (serverStep ent.st now (forUser e ent.user)).2 ≠ .ok := fun hk => h (by rw [hk])
      rw [serverStep_noop _ _ _ hno]
      exact set_same t _ ent ht
    | none =>
      simp only [ht] at h ⊢
      cases he : e.eih
      · rfl
      · cases hu : e.eihUser with
        | none => rfl
        | some u =>
          simp only [Bool.not_true, Bool.false_eq_true, if_false, hu, he] at h ⊢
          split
          · next hk => simp [hk] at h
          · rfl

theorem multiStep_spec {n : Nat} (h1 : 1 ≤ n) (h2 : n + 63 < 2 ^ 63) {t : Table} {d : List (Nat × Nat)}
    (hinv : MInv n t d) (now : Nat) (e : EPacket) :
    ((multiStep n t now e).2 = .res .ok ↔
      (e.sep = true ∧ (∃ u, sessionUser t e = some u ∧ e.keyUser = some u) ∧ e.pkt.long = true ∧
        parseClientHeader now e.pkt = none ∧ Fresh n (proj e.pkt.sid d) e.pkt.pid)) ∧
    MInv n (multiStep n t now e).1
      (if (multiStep n t now e).2 = .res .ok then (e.pkt.sid, e.pkt.pid) :: d else d) := by
  have hE := hinv e.pkt.sid
  unfold multiStep sessionUser
  cases hs : e.sep
  · refine ⟨by simp, ?_⟩
    simpa using hinv
  · simp only [Bool.not_true, Bool.false_eq_true, if_false, true_and]
    -- the per-session step, for a session state `st` with delivered ids `proj sid d`, of user `u`
    have core : ∀ (st : ServerState) (u : Nat), SInv st (proj e.pkt.sid d) → st.filterSize = n →
        ((serverStep st now (forUser e u)).2 = .ok ↔
          (e.keyUser = some u ∧ e.pkt.long = true ∧ parseClientHeader now e.pkt = none ∧
            Fresh n (proj e.pkt.sid d) e.pkt.pid)) ∧
        SInv (serverStep st now (forUser e u)).1
          (if (serverStep st now (forUser e u)).2 = .ok then e.pkt.pid :: proj e.pkt.sid d else proj e.pkt.sid d) ∧
        (serverStep st now (forUser e u)).1.filterSize = n := by
      intro st u hS hsz
      obtain ⟨a, b, c⟩ := serverStep_spec (by rw [hsz]; exact h1) (by rw [hsz]; exact h2) hS now (forUser e u)
      rw [hsz] at a c
      refine ⟨?_, b, c⟩
      rw [a, parse_forUser]
      show (e.pkt.long = true ∧ (e.keyUser == some u) = true ∧ _ ∧ _) ↔ _
      simp only [beq_iff_eq]
      constructor
      · rintro ⟨x, y, z, w⟩; exact ⟨y, x, z, w⟩
      · rintro ⟨y, x, z, w⟩; exact ⟨x, y, z, w⟩
    -- the table after a step that stores `st'` for this session
    have frame : ∀ (ent' : Entry) (ok : Bool),
        EInv n (some ent') (if ok then e.pkt.pid :: proj e.pkt.sid d else proj e.pkt.sid d) →
        MInv n (t.set e.pkt.sid ent') (if ok then (e.pkt.sid, e.pkt.pid) :: d else d) := by
      intro ent' ok hE' c
      simp only [Table.set]
      by_cases hc : c = e.pkt.sid
      · subst hc
        simp only [if_true]
        cases ok
        · simpa using hE'
        · simp only [if_true, proj_cons_same] at hE' ⊢; exact hE'
      · simp only [hc, if_false]
        cases ok
        · simpa using hinv c
        · simp only [if_true]
          rw [proj_cons_other _ _ (fun h => hc h.symm)]
          exact hinv c
    cases ht : t e.pkt.sid with
    | some ent =>
      rw [ht] at hE
      obtain ⟨hS, hsz⟩ := hE
      obtain ⟨a, b, c⟩ := core ent.st ent.user hS hsz
      simp only []
      refine ⟨?_, ?_⟩
      · constructor
        · intro hk
          have hk' : (serverStep ent.st now (forUser e ent.user)).2 = .ok := by
            simpa using hk
          obtain ⟨x, y, z, w⟩ := a.mp hk'
          exact ⟨⟨ent.user, rfl, x⟩, y, z, w⟩
        · rintro ⟨⟨u, hu, x⟩, y, z, w⟩
          simp only [Option.some.injEq] at hu
          subst hu
          rw [a.mpr ⟨x, y, z, w⟩]
      · have := frame { ent with st := (serverStep ent.st now (forUser e ent.user)).1 }
          (decide ((serverStep ent.st now (forUser e ent.user)).2 = .ok))
        by_cases hk : (serverStep ent.st now (forUser e ent.user)).2 = .ok
        · simp only [hk, decide_true, if_true] at this b ⊢
          exact this ⟨b, c⟩
        · have hk2 : ¬ MRes.res (serverStep ent.st now (forUser e ent.user)).2 = MRes.res Res.ok := by
            intro h; exact hk (by injection h)
          simp only [hk, decide_false, Bool.false_eq_true, if_false, hk2] at this b ⊢
          exact this ⟨b, c⟩
    | none =>
      rw [ht] at hE
      have hnil : proj e.pkt.sid d = [] := hE
      simp only []
      cases he : e.eih
      · refine ⟨by simp, ?_⟩
        simpa using hinv
      · cases hu : e.eihUser with
        | none =>
          refine ⟨by simp, ?_⟩
          simpa using hinv
        | some u =>
          have hS0 : SInv (serverInit n) (proj e.pkt.sid d) := by rw [hnil]; rfl
          obtain ⟨a, b, c⟩ := core (serverInit n) u hS0 rfl
          simp only [Bool.not_true, Bool.false_eq_true, if_false, if_true]
          by_cases hk : (serverStep (serverInit n) now (forUser e u)).2 = .ok
          · simp only [hk, if_true]
            refine ⟨?_, ?_⟩
            · obtain ⟨x, y, z, w⟩ := a.mp hk
              exact ⟨fun _ => ⟨⟨u, rfl, x⟩, y, z, w⟩, fun _ => trivial⟩
            · have := frame { user := u, st := (serverStep (serverInit n) now (forUser e u)).1 } true
              simp only [if_true] at this
              apply this
              simp only [hk, if_true] at b
              exact ⟨b, c⟩
          · simp only [hk, if_false]
            refine ⟨?_, ?_⟩
            · constructor
              · intro h; injection h with h'; exact absurd h' hk
              · rintro ⟨⟨u', hu', x⟩, y, z, w⟩
                simp only [Option.some.injEq] at hu'
                subst hu'
                exact absurd (a.mpr ⟨x, y, z, w⟩) hk
            · have hk2 : ¬ MRes.res (serverStep (serverInit n) now (forUser e u)).2 = MRes.res Res.ok := by
                intro h; exact hk (by injection h)
              simpa [hk2] using hinv

theorem emptyTable_inv (n : Nat) : MInv n emptyTable [] := fun _ => rfl

theorem multiRun_inv {n : Nat} (h1 : 1 ≤ n) (h2 : n + 63 < 2 ^ 63) {t : Table} {d : List (Nat × Nat)}
    (hinv : MInv n t d) (hd : d.Nodup) (evs : List MEvent) :
    MInv n (multiAfter n t evs) (multiDelivered n t d evs) ∧ (multiDelivered n t d evs).Nodup := by
  induction evs generalizing t d with
  | nil => exact ⟨hinv, hd⟩
  | cons ev r ih =>
    obtain ⟨now, e⟩ := ev
    obtain ⟨hiff, hI⟩ := multiStep_spec h1 h2 hinv now e
    simp only [multiAfter, multiDelivered]
    apply ih hI
    by_cases hk : (multiStep n t now e).2 = .res .ok
    · simp only [hk, if_true]
      refine List.nodup_cons.mpr ⟨fun hm => ?_, hd⟩
      exact (hiff.mp hk).2.2.2.2.1 (mem_proj hm)
    · simp only [hk, if_false]; exact hd

end SSV.UdpMulti
