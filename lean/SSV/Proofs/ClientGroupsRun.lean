import SSV.Proofs.ClientGroupsRing
import SSV.Proofs.ClientGroupsScan
/-
Helper lemmas for C19, probe part 3: the model's state after a whole history, per client; the
declarative scores of the statement; jobs of one round in any order.
-/
namespace SSV.ClientGroups
open SSV.Gen.C19

/-! ## facts regenerated from the source that the theorems rest on -/

theorem avail_cmp : availCmp = CmpOp.gt := by decide
theorem lat_cmp : latCmp = CmpOp.lt := by decide
theorem minmax_cmp : minmaxCmp = CmpOp.lt := by decide
theorem avail_init : availInitBest = Val.zero := by decide
theorem lat_init : latInitBest = Val.timeout := by decide
theorem minmax_init : minmaxInitBest = Val.timeout := by decide
theorem lat_fail : latFailureRecord = Val.timeout := by decide
theorem initial_sel : initialSelection = 0 := by decide
theorem ringSize_pos (p : Policy) : 0 < ringSize p := by cases p <;> decide
theorem ringSize_dvd (p : Policy) : ringSize p ∣ 2 ^ 64 := by
  cases p
  · exact ⟨2 ^ 64 / availRingBits, by decide⟩
  · exact ⟨2 ^ 64 / latencyProbeResultSize, by decide⟩
  · exact ⟨2 ^ 64 / latencyProbeResultSize, by decide⟩

/-! ## the declarative side: what the statement ranks clients by -/

/-- a history: per round, the outcome of every client's probe -/
abbrev History (n : Nat) := List (Fin n → Outcome)

/-- the outcomes of client `i`, oldest first -/
def column {n : Nat} (hist : History n) (i : Fin n) : List Outcome := hist.map (fun f => f i)

/-- "counting a failed probe as the timeout" -/
def latencyOf (timeout : Nat) : Outcome → Nat
  | some d => d
  | none => timeout

/-- how many rounds the policy's history retains -/
def retention : Policy → Nat
  | .avail => availRingBits
  | _ => latencyProbeResultSize

/-- the figure the statement ranks clients by, computed from the client's whole history:
    successes in the retained rounds / mean latency (integer ns, over the fixed window of `retention`
    rounds; rounds that did not happen yet count zero for every client) / worst latency in the retained rounds -/
def specScore (p : Policy) (timeout : Nat) (col : List Outcome) : Nat :=
  match p with
  | .avail => (lastN (retention .avail) col).countP (fun o => o.isSome)
  | .lat => ((lastN (retention .lat) col).map (latencyOf timeout)).sum / retention .lat
  | .minmax => maxOf ((lastN (retention .minmax) col).map (latencyOf timeout))

/-! ## list plumbing -/

theorem zipWith_ofFn {α β γ : Type} {n : Nat} (g : α → β → γ) (R : Fin n → α) (f : Fin n → β) :
    List.zipWith g (List.ofFn R) (List.ofFn f) = List.ofFn (fun i => g (R i) (f i)) := by
  apply List.ext_getElem
  · simp
  · intro i h1 h2
    simp [List.getElem_zipWith, List.getElem_ofFn]

theorem replicate_eq_ofFn {α : Type} (n : Nat) (a : α) : List.replicate n a = List.ofFn (fun _ : Fin n => a) := by
  apply List.ext_getElem
  · simp
  · intro i h1 h2
    simp [List.getElem_ofFn]

theorem modify_ofFn {α : Type} {n : Nat} (R : Fin n → α) (i : Fin n) (g : α → α) :
    (List.ofFn R).modify i.val g = List.ofFn (fun j => if j = i then g (R j) else R j) := by
  apply List.ext_getElem
  · simp
  · intro j h1 h2
    simp only [List.getElem_modify, List.getElem_ofFn]
    by_cases hji : i.val = j
    · have : (⟨j, by simpa using h2⟩ : Fin n) = i := Fin.ext hji.symm
      simp [hji, this]
    · have : (⟨j, by simpa using h2⟩ : Fin n) ≠ i := fun h => hji (by rw [← h])
      simp [hji, this]

theorem lastN_map {α β : Type} (K : Nat) (g : α → β) (l : List α) : lastN K (l.map g) = (lastN K l).map g := by
  unfold lastN
  rw [List.length_map, List.map_drop]

/-! ## the model after a history -/

theorem round_ofFn (p : Policy) (t : Nat) {n : Nat} (st : State) (R : Fin n → List Nat) (h : st.rings = List.ofFn R)
    (f : Fin n → Outcome) :
    (round p t st (List.ofFn f)).rings = List.ofFn (fun i => (R i).set (st.count % ringSize p) (record p t (f i))) ∧
    (round p t st (List.ofFn f)).count = countSucc st.count := by
  simp only [round, finish, h, zipWith_ofFn, put, and_self]

theorem run_ofFn (p : Policy) (t : Nat) {n : Nat} : ∀ (hist : History n) (st : State) (R : Fin n → List Nat),
    st.rings = List.ofFn R →
    (run p t st (hist.map List.ofFn)).rings =
        List.ofFn (fun i => ringRun (ringSize p) (R i) st.count ((column hist i).map (record p t))) ∧
    (run p t st (hist.map List.ofFn)).count = countIter hist.length st.count
  | [], st, R, h => by simp [run, column, ringRun, countIter, h]
  | f :: hist, st, R, h => by
    obtain ⟨h1, h2⟩ := round_ofFn p t st R h f
    have ih := run_ofFn p t hist (round p t st (List.ofFn f)) _ h1
    simp only [run, List.map_cons, List.foldl_cons] at ih ⊢
    rw [ih.1, ih.2, h2]
    simp [column, ringRun, countIter]

theorem run_sel (p : Policy) (t : Nat) : ∀ (hist : List (List Outcome)) (st : State), hist ≠ [] →
    (run p t st hist).sel = bestIndex p t ((run p t st hist).rings.map (score p))
  | [], _, h => absurd rfl h
  | [os], st, _ => by simp [run, round, finish]
  | os :: os' :: rest, st, _ => by
    have ih := run_sel p t (os' :: rest) (round p t st os) (by simp)
    simpa [run] using ih

theorem init_rings (p : Policy) (n : Nat) :
    (init p n).rings = List.ofFn (fun _ : Fin n => List.replicate (ringSize p) 0) := by
  simp [init, replicate_eq_ofFn n]

/-- every client's ring after a history, from the all-zero start -/
theorem run_init_rings (p : Policy) (t : Nat) {n : Nat} (hist : History n) :
    (run p t (init p n) (hist.map List.ofFn)).rings =
      List.ofFn (fun i => ringRun (ringSize p) (List.replicate (ringSize p) 0) 0 ((column hist i).map (record p t))) := by
  have h := (run_ofFn p t hist (init p n) _ (init_rings p n)).1
  simpa [init] using h

/-- the scan's figure for a client equals the statement's figure for its history -/
theorem score_ring (p : Policy) (t : Nat) (col : List Outcome) :
    score p (ringRun (ringSize p) (List.replicate (ringSize p) 0) 0 (col.map (record p t))) = specScore p t col := by
  have hK := ringSize_pos p
  have hd := ringSize_dvd p
  cases p with
  | avail =>
    simp only [score, specScore]
    rw [ringRun_init_sum _ hK hd, lastN_map]
    simp only [ringSize, retention]
    generalize lastN availRingBits col = l
    induction l with
    | nil => rfl
    | cons o r ih =>
      rw [List.map_cons, List.sum_cons, List.countP_cons, ih]
      cases o <;> simp [record] <;> omega
  | lat =>
    simp only [score, specScore]
    rw [ringRun_init_sum _ hK hd, ringRun_init_length _ hK hd, lastN_map]
    simp only [ringSize, retention]
    congr 2
    apply List.map_congr_left
    intro o _
    cases o <;> simp [record, latencyOf, lat_fail, valOf]
  | minmax =>
    simp only [score, specScore]
    rw [ringRun_init_maxOf _ hK hd, lastN_map]
    simp only [ringSize, retention]
    congr 1
    apply List.map_congr_left
    intro o _
    cases o <;> simp [record, latencyOf, lat_fail, valOf]

/-- the list the scan runs over, after a history -/
theorem run_init_scores (p : Policy) (t : Nat) {n : Nat} (hist : History n) :
    (run p t (init p n) (hist.map List.ofFn)).rings.map (score p) =
      List.ofFn (fun i => specScore p t (column hist i)) := by
  rw [run_init_rings, List.map_ofFn]
  congr 1
  funext i
  exact score_ring p t (column hist i)

/-! ## bounds on the latency figures (needed for the initial best `pc.timeout`) -/

theorem latencyOf_le (t : Nat) (col : List Outcome) (h : ∀ o ∈ col, ∀ d, o = some d → d ≤ t) :
    ∀ x ∈ col.map (latencyOf t), x ≤ t := by
  intro x hx
  obtain ⟨o, ho, rfl⟩ := List.mem_map.mp hx
  cases o with
  | none => simp [latencyOf]
  | some d => exact h _ ho d rfl

theorem specScore_lat_le (t : Nat) (col : List Outcome) (h : ∀ o ∈ col, ∀ d, o = some d → d ≤ t) :
    specScore .lat t col ≤ t := by
  simp only [specScore]
  have hb := sum_le ((lastN (retention .lat) col).map (latencyOf t)) t
    (latencyOf_le t _ (fun o ho => h o (mem_lastN _ _ _ ho)))
  have hl : ((lastN (retention .lat) col).map (latencyOf t)).length ≤ retention .lat := by
    rw [List.length_map]; exact lastN_length_le _ _
  have hpos : 0 < retention Policy.lat := by decide
  apply Nat.div_le_of_le_mul
  calc _ ≤ _ := hb
    _ ≤ retention Policy.lat * t := Nat.mul_le_mul_right t hl

theorem specScore_minmax_le (t : Nat) (col : List Outcome) (h : ∀ o ∈ col, ∀ d, o = some d → d ≤ t) :
    specScore .minmax t col ≤ t := by
  simp only [specScore]
  exact maxOf_le _ t (latencyOf_le t _ (fun o ho => h o (mem_lastN _ _ _ ho)))

/-! ## jobs of one round, in any order -/

def runJobs (p : Policy) (t : Nat) (st : State) (jobs : List (Nat × Outcome)) : State :=
  jobs.foldl (fun s j => jobDone p t s j.1 j.2) st

theorem runJobs_keeps (p : Policy) (t : Nat) : ∀ (jobs : List (Nat × Outcome)) (st : State),
    (runJobs p t st jobs).sel = st.sel ∧ (runJobs p t st jobs).count = st.count
  | [], _ => ⟨rfl, rfl⟩
  | j :: rest, st => by
    have ih := runJobs_keeps p t rest (jobDone p t st j.1 j.2)
    simpa [runJobs, jobDone] using ih

theorem runJobs_rings (p : Policy) (t : Nat) {n : Nat} (f : Fin n → Outcome) (c : Nat) :
    ∀ (ord : List (Fin n)) (st : State) (R : Fin n → List Nat), st.rings = List.ofFn R → st.count = c →
      (runJobs p t st (ord.map (fun i => (i.val, f i)))).rings =
        List.ofFn (fun i => if i ∈ ord ∨ R i = put p c (R i) (record p t (f i))
          then put p c (R i) (record p t (f i)) else R i)
  | [], st, R, h, _ => by
    simp only [runJobs, List.map_nil, List.foldl_nil, List.not_mem_nil, false_or]
    rw [h]
    congr 1
    funext i
    split
    · rename_i h'; exact h'
    · rfl
  | i :: ord, st, R, h, hc => by
    have hstep : (jobDone p t st i.val (f i)).rings =
        List.ofFn (fun j => if j = i then put p c (R j) (record p t (f j)) else R j) := by
      simp only [jobDone, h, hc]
      rw [modify_ofFn]
      congr 1
      funext j
      by_cases hj : j = i
      · subst hj; simp
      · simp [hj]
    have ih := runJobs_rings p t f c ord (jobDone p t st i.val (f i)) _ hstep (by simpa [jobDone] using hc)
    simp only [runJobs, List.map_cons, List.foldl_cons] at ih ⊢
    rw [ih]
    congr 1
    funext j
    by_cases hj : j = i
    · subst hj
      simp [put, List.set_set]
    · simp [hj]

/-- all jobs of a round, in any order, then `finish` = the big-step round -/
theorem jobs_then_finish (p : Policy) (t : Nat) {n : Nat} (f : Fin n → Outcome) (ord : List (Fin n))
    (hall : ∀ i : Fin n, i ∈ ord) (st : State) (hlen : st.rings.length = n) :
    finish p t (runJobs p t st (ord.map (fun i => (i.val, f i)))) = round p t st (List.ofFn f) := by
  have hR : st.rings = List.ofFn (fun i : Fin n => st.rings[i.val]'(by rw [hlen]; exact i.isLt)) := by
    subst hlen
    exact List.ofFn_getElem.symm
  have h1 := runJobs_rings p t f st.count ord st _ hR rfl
  have h2 := runJobs_keeps p t (ord.map (fun i => (i.val, f i))) st
  have h3 := (round_ofFn p t st _ hR f).1
  have hrings : (runJobs p t st (ord.map (fun i => (i.val, f i)))).rings =
      List.zipWith (fun r o => put p st.count r (record p t o)) st.rings (List.ofFn f) := by
    rw [h1]
    conv => rhs; rw [hR, zipWith_ofFn]
    congr 1
    funext i
    simp [hall i]
  simp only [finish, round, hrings, h2.2]

end SSV.ClientGroups
