import SSV.Model.Stream
/-
Lemmas about the chunk codec of SSV.Model.Stream (layer 1).
-/
namespace SSV.Stream
open SSV.Gen.C01

/-- the AEAD laws C01 needs: correctness and the length law -/
structure AeadOK (C : Crypto) : Prop where
  dec_enc : ∀ k n p, C.dec k n (C.enc k n p) = some p
  enc_len : ∀ k n p, (C.enc k n p).length = p.length + tagSize

theorem be16_length (n : Nat) : (be16 n).length = 2 := rfl

theorem unbe16_be16 (n : Nat) (h : n < 65536) (rest : Bytes) : unbe16 (be16 n ++ rest) = n := by
  simp only [be16, unbe16, List.cons_append, List.nil_append]
  have h1 : n / 256 < 256 := by omega
  have h2 : n % 256 < 256 := by omega
  simp only [UInt8.toNat_ofNat']
  have : (2:Nat)^8 = 256 := rfl
  rw [this, Nat.mod_eq_of_lt h1, Nat.mod_eq_of_lt h2]
  omega

theorem readFull_ok (a b : Bytes) (n : Nat) (h : a.length = n) (hn : n ≠ 0) :
    readFull n (a ++ b) = .ok (a, b) := by
  subst h
  simp [readFull, hn]

theorem readFull_nil (n : Nat) (hn : n ≠ 0) : readFull n [] = .error .eof := by
  simp [readFull, hn]

/-- `read` on a well-formed chunk returns its payload, advances the nonce by two and leaves the rest. -/
theorem readChunk_sealChunk {C : Crypto} (hC : AeadOK C) (k : Bytes) (n : Nat) (p rest : Bytes)
    (h0 : p.length ≠ 0) (hmax : p.length ≤ streamMaxPayloadSize) :
    readChunk C k n (sealChunk C k n p ++ rest) = ⟨.ok p, n + 2, rest⟩ := by
  have hl1 : (C.enc k n (be16 p.length)).length = 2 + tagSize := by
    rw [hC.enc_len, be16_length]
  have hl2 : (C.enc k (n + 1) p).length = p.length + tagSize := hC.enc_len _ _ _
  have hlt : p.length < 65536 := by
    have : streamMaxPayloadSize = 65535 := rfl
    omega
  unfold readChunk sealChunk
  rw [List.append_assoc, readFull_ok _ _ _ hl1 (by simp [tagSize])]
  simp only [hC.dec_enc]
  have hu : unbe16 (be16 p.length) = p.length := by
    simpa using unbe16_be16 p.length hlt []
  rw [hu]
  simp only [h0, ↓reduceIte]
  rw [readFull_ok _ _ _ hl2 (by omega)]
  simp only [hC.dec_enc]

theorem readChunk_nil (C : Crypto) (k : Bytes) (n : Nat) : readChunk C k n [] = ⟨.error .eof, n, []⟩ := by
  unfold readChunk
  rw [readFull_nil _ (by simp [tagSize])]

/-! ### the writer's split -/

def ValidChunks (cs : List Bytes) : Prop := ∀ p ∈ cs, p.length ≠ 0 ∧ p.length ≤ streamMaxPayloadSize

theorem ValidChunks.nil : ValidChunks [] := by intro p hp; cases hp

theorem ValidChunks.cons {p : Bytes} {cs : List Bytes} (h0 : p.length ≠ 0) (h1 : p.length ≤ streamMaxPayloadSize)
    (h : ValidChunks cs) : ValidChunks (p :: cs) := by
  intro q hq
  cases hq with
  | head => exact ⟨h0, h1⟩
  | tail _ hq => exact h q hq

theorem ValidChunks.append {a b : List Bytes} (ha : ValidChunks a) (hb : ValidChunks b) : ValidChunks (a ++ b) := by
  intro q hq
  rcases List.mem_append.mp hq with h | h
  · exact ha q h
  · exact hb q h

theorem ValidChunks.tail {p : Bytes} {cs : List Bytes} (h : ValidChunks (p :: cs)) : ValidChunks cs :=
  fun q hq => h q (List.mem_cons_of_mem _ hq)

theorem splitChunks_flatten (maxp : Nat) (hm : maxp ≠ 0) :
    ∀ (fuel : Nat) (d : Bytes), d.length ≤ fuel → (splitChunks maxp fuel d).flatten = d := by
  intro fuel
  induction fuel with
  | zero => intro d hd; simp at hd; subst hd; simp [splitChunks]
  | succ f ih =>
    intro d hd
    unfold splitChunks
    by_cases h0 : d.length = 0
    · simp [h0, List.length_eq_zero_iff.mp h0]
    · simp only [h0, ↓reduceIte, List.flatten_cons]
      rw [ih (d.drop maxp) (by simp; omega)]
      exact List.take_append_drop maxp d

theorem splitChunks_valid (maxp : Nat) (hm : maxp ≠ 0) :
    ∀ (fuel : Nat) (d : Bytes), ∀ p ∈ splitChunks maxp fuel d, p.length ≠ 0 ∧ p.length ≤ maxp := by
  intro fuel
  induction fuel with
  | zero => intro d p hp; simp [splitChunks] at hp
  | succ f ih =>
    intro d p hp
    unfold splitChunks at hp
    by_cases h0 : d.length = 0
    · simp [h0] at hp
    · simp only [h0, ↓reduceIte, List.mem_cons] at hp
      rcases hp with rfl | hp
      · simp only [List.length_take]; omega
      · exact ih _ p hp

theorem writeChunks_flatten (b : Bytes) : (writeChunks b).flatten = b :=
  splitChunks_flatten _ (by decide) _ _ (Nat.le_refl _)

theorem writeChunks_valid (b : Bytes) : ValidChunks (writeChunks b) :=
  splitChunks_valid _ (by decide) _ _

theorem readFromChunks_flatten (cap0 : Nat) (pieces : List Bytes) :
    (readFromChunks cap0 pieces).flatten = pieces.flatten := by
  induction pieces generalizing cap0 with
  | nil => simp [readFromChunks]
  | cons p ps ih =>
    unfold readFromChunks
    by_cases h0 : p.length = 0
    · simp [h0, ih, List.length_eq_zero_iff.mp h0]
    · simp only [h0, ↓reduceIte, List.flatten_cons, List.flatten_append, ih]
      rw [splitChunks_flatten _ (by decide) _ _ (by simp)]
      rw [← List.append_assoc, List.take_append_drop]

theorem readFromChunks_valid (cap0 : Nat) (h0 : cap0 ≠ 0) (hc : cap0 ≤ streamMaxPayloadSize) (pieces : List Bytes) :
    ValidChunks (readFromChunks cap0 pieces) := by
  induction pieces generalizing cap0 with
  | nil => simp [readFromChunks]; exact ValidChunks.nil
  | cons p ps ih =>
    unfold readFromChunks
    by_cases hp : p.length = 0
    · simp only [hp, ↓reduceIte]; exact ih cap0 h0 hc
    · simp only [hp, ↓reduceIte]
      refine ValidChunks.cons ?_ ?_ (ValidChunks.append (splitChunks_valid _ (by decide) _ _) (ih _ (by decide) (Nat.le_refl _)))
      · simp only [List.length_take]; omega
      · simp only [List.length_take]; omega

/-! ### the writer emits exactly the chunk encoding, one segment per chunk -/

theorem emit_flatten (C : Crypto) (w : Writer) (cs : List Bytes) :
    (w.emit C cs).1.flatten = encodeChunks C w.key w.nonce cs ∧
    (w.emit C cs).2 = ⟨w.key, w.nonce + 2 * cs.length⟩ ∧ (w.emit C cs).1.length = cs.length := by
  induction cs generalizing w with
  | nil => simp [Writer.emit, encodeChunks]
  | cons p ps ih =>
    have := ih { w with nonce := w.nonce + 2 }
    simp only [Writer.emit, encodeChunks, List.flatten_cons, List.length_cons]
    refine ⟨by rw [this.1], ?_, by rw [this.2.2]⟩
    rw [this.2.1]
    simp only [Writer.mk.injEq, true_and]
    omega

theorem encodeChunks_append (C : Crypto) (k : Bytes) (n : Nat) (a b : List Bytes) :
    encodeChunks C k n (a ++ b) = encodeChunks C k n a ++ encodeChunks C k (n + 2 * a.length) b := by
  induction a generalizing n with
  | nil => simp [encodeChunks]
  | cons p ps ih =>
    simp only [List.cons_append, encodeChunks, ih, List.append_assoc, List.length_cons]
    congr 3
    omega

/-! ### the 12-byte nonce: `increment` is successor below 256^len -/

theorem leVal_lt (b : Bytes) : leVal b < 256 ^ b.length := by
  induction b with
  | nil => simp [leVal]
  | cons x xs ih =>
    simp only [leVal, List.length_cons, Nat.pow_succ]
    have := x.toNat_lt
    omega

theorem incrementLE_length (b : Bytes) : (incrementLE b).length = b.length := by
  induction b with
  | nil => rfl
  | cons x xs ih => unfold incrementLE; split <;> simp [ih]

theorem leVal_incrementLE (b : Bytes) : leVal (incrementLE b) = (leVal b + 1) % 256 ^ b.length := by
  induction b with
  | nil => simp [incrementLE, leVal]
  | cons x xs ih =>
    unfold incrementLE
    have hx := x.toNat_lt
    have hxs := leVal_lt xs
    have hadd : (x + 1).toNat = (x.toNat + 1) % 256 := by
      rw [UInt8.toNat_add]; rfl
    by_cases h : x + 1 ≠ 0
    · rw [if_pos h]
      simp only [leVal, List.length_cons, Nat.pow_succ]
      have h255 : x.toNat ≠ 255 := by
        intro h2
        apply h
        apply UInt8.toNat_inj.mp
        rw [hadd, h2]; rfl
      rw [hadd, Nat.mod_eq_of_lt (by omega), Nat.mod_eq_of_lt (by omega)]
      omega
    · rw [if_neg h]
      have h' : x + 1 = 0 := by simpa using h
      simp only [leVal, List.length_cons, Nat.pow_succ, ih]
      have h255 : x.toNat = 255 := by
        have h0 : (x + 1).toNat = 0 := by rw [h']; rfl
        rw [hadd] at h0; omega
      rw [hadd, h255]
      by_cases hw : leVal xs + 1 = 256 ^ xs.length
      · rw [hw, Nat.mod_self]
        have : 255 + 256 * leVal xs + 1 = 256 ^ xs.length * 256 := by omega
        rw [this]
        simp [Nat.mod_self]
      · have e1 : (leVal xs + 1) % 256 ^ xs.length = leVal xs + 1 := Nat.mod_eq_of_lt (by omega)
        have e2 : (255 + 256 * leVal xs + 1) % (256 ^ xs.length * 256) = 255 + 256 * leVal xs + 1 :=
          Nat.mod_eq_of_lt (by omega)
        rw [e1, e2]
        omega

end SSV.Stream
