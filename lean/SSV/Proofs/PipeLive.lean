import SSV.Proofs.Pipe
/-
C15 — enabledness facts: which pcs can always move, what a closed `done` / an expired deadline enables,
what the committed hand-shake and the mutex wait on.
-/
namespace SSV.Pipe

/-- thread `i` can take a step now, alone or as one side of a channel operation -/
def CanMove (s : State) (i : Nat) : Prop :=
  (∃ s', s' ∈ localSteps s i) ∨
  (∃ j s', data s i j = some s' ∨ data s j i = some s') ∨
  (∃ j s', count s i j = some s' ∨ count s j i = some s')

theorem mem_selSteps_done {alts : List Alt} {d t : Option State} {x : State} (ha : Alt.done ∈ alts)
    (hd : d = some x) : x ∈ selSteps alts d t := by
  unfold selSteps; simp only [List.mem_filterMap]; exact ⟨.done, ha, by simp [hd]⟩

theorem mem_selSteps_deadline {alts : List Alt} {d t : Option State} {x : State} (ha : Alt.deadline ∈ alts)
    (ht : t = some x) : x ∈ selSteps alts d t := by
  unfold selSteps; simp only [List.mem_filterMap]; exact ⟨.deadline, ha, by simp [ht]⟩

theorem sel_has (k : RKind) : Alt.data ∈ k.sel ∧ Alt.done ∈ k.sel ∧ Alt.deadline ∈ k.sel := by
  cases k <;> simp [RKind.sel, readSelect, writeToSelect]

theorem wsel_has : Alt.data ∈ writeSelect ∧ Alt.done ∈ writeSelect ∧ Alt.deadline ∈ writeSelect := by
  simp [writeSelect]

/-- a reader in its select returns the close error as soon as `done` is closed -/
theorem rSel_done_step {s : State} {i : Nat} {k : RKind} {acc g : Nat} {e : Err}
    (hp : s.thr i = .rSel k acc g) (hd : s.done = true) (he : s.err = some e) :
    s.setT i (.rRet acc (k.closeErr e)) ∈ localSteps s i := by
  unfold localSteps; simp only [hp]
  exact mem_selSteps_done (sel_has k).2.1 (by simp [hd, withErr, he])

/-- a reader in its select returns a timeout as soon as the cancel channel it waits on is closed -/
theorem rSel_deadline_step {s : State} {i : Nat} {k : RKind} {acc g : Nat}
    (hp : s.thr i = .rSel k acc g) (hc : s.rdl.chanClosed g = true) :
    s.setT i (.rRet acc .timeout) ∈ localSteps s i := by
  unfold localSteps; simp only [hp]
  exact mem_selSteps_deadline (sel_has k).2.2 (by simp [hc])

theorem wSel_done_step {s : State} {i : Nat} {b : Bytes} {n ci g : Nat} {e : Err}
    (hp : s.thr i = .wSel b n ci g) (hd : s.done = true) (he : s.err = some e) :
    { s with mu := none }.setT i (.wRet n (writeCloseErr e) (some ci)) ∈ localSteps s i := by
  unfold localSteps; simp only [hp]
  exact mem_selSteps_done wsel_has.2.1 (by simp [hd, withErr, he])

theorem wSel_deadline_step {s : State} {i : Nat} {b : Bytes} {n ci g : Nat}
    (hp : s.thr i = .wSel b n ci g) (hc : s.wdl.chanClosed g = true) :
    { s with mu := none }.setT i (.wRet n .timeout (some ci)) ∈ localSteps s i := by
  unfold localSteps; simp only [hp]
  exact mem_selSteps_deadline wsel_has.2.2 (by simp [hc])

/-- the channel named by a captured generation is closed once the CURRENT cancel channel is closed -/
theorem chanClosed_of_closed {d : DL} {g : Nat} (hg : g ≤ d.gen) (hc : d.closed = true) : d.chanClosed g = true := by
  unfold DL.chanClosed
  by_cases h : g < d.gen
  · simp [h]
  · have : g = d.gen := by omega
    simp [this, hc]

/-- a reader and a writer that both sit in their selects can rendezvous on the data channel -/
theorem data_enabled {s : State} {i j : Nat} {k : RKind} {acc g : Nat} {b : Bytes} {n ci gw : Nat}
    (hi : s.thr i = .rSel k acc g) (hj : s.thr j = .wSel b n ci gw) : ∃ s', data s i j = some s' := by
  unfold data; simp only [hi, hj]
  have := sel_has k
  simp [this.1, wsel_has.1]

/-- the two sides of the committed hand-shake can always complete it -/
theorem count_enabled {s : State} {i j : Nat} {k : RKind} {acc nr : Nat} {fail : Bool} {chunk b : Bytes} {n ci : Nat}
    (hi : s.thr i = .rAck k acc nr fail chunk) (hj : s.thr j = .wAwait b n ci) : ∃ s', count s i j = some s' := by
  unfold count; simp only [hi, hj]
  split <;> exact ⟨_, rfl⟩

/-- pcs that never block -/
theorem local_enabled {s : State} (h : Inv s) (i : Nat) :
    match s.thr i with
    | .rChk1 .. | .rChk2 .. | .rEnter .. | .wChk1 .. | .wChk2 .. | .wEnter .. | .cStore .. | .cClose
    | .dChk .. | .dSet .. => ∃ s', s' ∈ localSteps s i
    | _ => True := by
  split <;> rename_i hp <;> (try trivial) <;> (unfold localSteps; simp only [hp]) <;>
    first
      | exact ⟨_, List.mem_singleton_self _⟩
      | (split <;> exact ⟨_, List.mem_singleton_self _⟩)

theorem wLock_enabled {s : State} {i : Nat} {b : Bytes} (hp : s.thr i = .wLock b) (hm : s.mu = none) :
    ∃ s', s' ∈ localSteps s i := by
  unfold localSteps; simp only [hp, hm, if_true]
  exact ⟨_, List.mem_singleton_self _⟩

end SSV.Pipe
