import SSV.Proofs.SWF
/-
Lifting the one-step simulation (Proofs/SWF.lean) to operation sequences.
-/
namespace SSV.SWF

theorem reset_inv {f : Filter} {d : List Nat} (h : Inv f d) : Inv (reset f) [] := by
  obtain ⟨k, hk, hm⟩ := h.wf.pow
  have hlen : (reset f).ring.length = f.ring.length := by simp [reset]
  have hw : ∀ i, word (reset f) i = if 0 = i then 0 else word f i := by
    intro i; simp only [reset, word]; exact getD_set_zero _ _ _
  refine ⟨⟨⟨k, by rw [hlen]; exact hk, hm⟩, h.wf.size_pos, by rw [hlen]; exact h.wf.cap⟩, ?_, Or.inr rfl, ?_, ?_⟩
  · intro c hc; cases hc
  · intro c hc _
    have hl : (reset f).last = 0 := rfl
    rw [hl] at hc
    have hc0 : c / 64 = 0 := by omega
    rw [hc0, Nat.zero_mod, hw]
    simp
  · intro i
    rw [hw]; split
    · exact Nat.two_pow_pos 64
    · exact h.words i

theorem reset_size (f : Filter) : (reset f).size = f.size := rfl

/-- one operation: same verdict, same delivered list, invariant kept -/
theorem step_sim {f : Filter} {d : List Nat} (h : Inv f d) (op : Op) :
    (stepOp f op).2 = (specStep f.size d op).2 ∧
    stepDelivered f d op = (specStep f.size d op).1 ∧
    Inv (stepOp f op).1 (stepDelivered f d op) ∧
    (stepOp f op).1.size = f.size := by
  cases op with
  | add c =>
    have hs := add_spec h c
    simp only [stepOp, specStep, stepDelivered]
    by_cases hf : Fresh f.size d c
    · have hv : (add f c).2 = true := hs.1.mpr hf
      have hinv := hs.2
      rw [hv] at hinv
      simp only [hf, hv, if_true]
      refine ⟨?_, ?_, ?_, ?_⟩ <;> first | trivial | exact hinv | exact add_size f c
    · have hv : (add f c).2 = false := by
        cases hb : (add f c).2
        · rfl
        · exact absurd (hs.1.mp hb) hf
      have hinv := hs.2
      rw [hv] at hinv
      simp only [hf, hv, if_false]
      refine ⟨?_, ?_, ?_, ?_⟩ <;> first | trivial | exact hinv | exact add_size f c
  | check c =>
    simp only [stepOp, specStep, stepDelivered]
    by_cases hok : isOk f c = true
    · have hf : Fresh f.size d c := (isOk_iff h c).mp hok
      simp only [hok, hf, if_true]
      refine ⟨?_, ?_, ?_, ?_⟩ <;> first | trivial | exact mustAdd_inv h hok | exact mustAdd_size f c
    · have hf : ¬ Fresh f.size d c := fun hf => hok ((isOk_iff h c).mpr hf)
      simp only [hok, hf, if_false]
      refine ⟨?_, ?_, ?_, ?_⟩ <;> first | trivial | exact h
  | probe c =>
    simp only [stepOp, specStep, stepDelivered]
    refine ⟨?_, by trivial, h, by trivial⟩
    by_cases hok : isOk f c = true
    · have hf : Fresh f.size d c := (isOk_iff h c).mp hok
      simp [hok, hf]
    · have hf : ¬ Fresh f.size d c := fun hf => hok ((isOk_iff h c).mpr hf)
      simp [hok, hf]
  | reset =>
    simp only [stepOp, specStep, stepDelivered]
    refine ⟨?_, ?_, ?_, ?_⟩ <;> first | trivial | exact reset_inv h

theorem run_sim {f : Filter} {d : List Nat} (h : Inv f d) (ops : List Op) :
    verdicts f ops = specVerdicts f.size d ops ∧
    deliveredFrom f d ops = specDelivered f.size d ops ∧
    Inv (after f ops) (deliveredFrom f d ops) ∧
    (after f ops).size = f.size := by
  induction ops generalizing f d with
  | nil => refine ⟨?_, ?_, ?_, ?_⟩ <;> first | trivial | exact h
  | cons op r ih =>
    obtain ⟨hv, hd, hinv, hsz⟩ := step_sim h op
    obtain ⟨iv, idl, iinv, isz⟩ := ih hinv
    simp only [verdicts, specVerdicts, deliveredFrom, specDelivered, after]
    rw [hsz] at iv idl isz
    rw [hd] at iv idl
    refine ⟨?_, ?_, iinv, isz⟩
    · rw [hv, iv]
    · rw [hd]; exact idl

/-- the specification never delivers an id twice -/
theorem specStep_nodup {size : Nat} {d : List Nat} (hd : d.Nodup) (op : Op) :
    (specStep size d op).1.Nodup := by
  cases op with
  | add c =>
    simp only [specStep]; split
    · next hf => exact List.nodup_cons.mpr ⟨hf.1, hd⟩
    · exact hd
  | check c =>
    simp only [specStep]; split
    · next hf => exact List.nodup_cons.mpr ⟨hf.1, hd⟩
    · exact hd
  | probe c => exact hd
  | reset => exact List.nodup_nil

theorem specDelivered_nodup {size : Nat} {d : List Nat} (hd : d.Nodup) (ops : List Op) :
    (specDelivered size d ops).Nodup := by
  induction ops generalizing d with
  | nil => exact hd
  | cons op r ih => exact ih (specStep_nodup hd op)

/-- the simulation invariant holds along every run from `NewSlidingWindowFilter(size)` -/
theorem run_new (size : Nat) (h1 : 1 ≤ size) (h2 : size + 63 < 2 ^ 63) (ops : List Op) :
    verdicts (new size) ops = specVerdicts size [] ops ∧
    deliveredFrom (new size) [] ops = specDelivered size [] ops ∧
    Inv (after (new size) ops) (deliveredFrom (new size) [] ops) ∧
    (after (new size) ops).size = size := by
  have hinv := new_inv size h1 h2
  have hsz : (new size).size = size := rfl
  have := run_sim hinv ops
  rw [hsz] at this
  exact this

end SSV.SWF
