import SSV.Proofs.RelayLifeDefs3
namespace SSV.RelayLife
variable (cfg : Cfg)

theorem inv3a_arrive (s s' : State) (c : Nat) (hI : Inv3a s) (h : step cfg s (.arrive c) = some s') : Inv3a s' := by
  obtain ⟨k1,u2,u3,g5,gp⟩ := hI
  simp only [step] at h
  (repeat' split at h) <;> close_case3

theorem inv3a_rLock (s s' : State)  (hI : Inv3a s) (h : step cfg s (.rLock ) = some s') : Inv3a s' := by
  obtain ⟨k1,u2,u3,g5,gp⟩ := hI
  simp only [step] at h
  (repeat' split at h) <;> close_case3

theorem inv3a_rMore (s s' : State) (c : Nat) (hI : Inv3a s) (h : step cfg s (.rMore c) = some s') : Inv3a s' := by
  obtain ⟨k1,u2,u3,g5,gp⟩ := hI
  simp only [step] at h
  (repeat' split at h) <;> close_case3

theorem inv3a_rUnlock (s s' : State)  (hI : Inv3a s) (h : step cfg s (.rUnlock ) = some s') : Inv3a s' := by
  obtain ⟨k1,u2,u3,g5,gp⟩ := hI
  simp only [step] at h
  (repeat' split at h) <;> close_case3


end SSV.RelayLife
