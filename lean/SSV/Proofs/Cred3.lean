import SSV.Proofs.Cred2
/-
C08 helper lemmas, part 3: what a client observes (handshake vs. listed set), the exact effect of
acknowledged calls, the document `saveToFile` writes represents the cache, and the sequential
"last synchronised content represents the cache unless a save is pending" invariant.
-/
namespace SSV.Cred
open SSV.Gen.C08
variable (H : Key → Hash)

/-! ### handshake vs. listed set -/

theorem live_eq {st : St} (hi : Inv H st) {m : ULM} (hm : st.tcp = some m ∨ st.udp = some m) (h : Hash) :
    find m h = find st.lookup h := by
  rcases hm with hm | hm
  · exact hi.tcp_eq m hm h
  · exact hi.udp_eq m hm h

theorem handshake_iff {st : St} (hi : Inv H st) {m : ULM} (hm : st.tcp = some m ∨ st.udp = some m)
    (k : Key) (n : Name) : handshake H m k = some n ↔ find st.cache n = some k := by
  unfold handshake
  rw [live_eq H hi hm]
  constructor
  · intro h
    cases hf : find st.lookup (H k) with
    | none => simp [hf] at h
    | some e =>
      obtain ⟨n', k'⟩ := e
      simp only [hf] at h
      by_cases hk : k' = k
      · simp only [hk, if_true, Option.some.injEq] at h
        subst h; subst hk
        exact (hi.sound _ _ _ hf).1
      · simp [hk] at h
  · intro h
    simp [hi.complete n k h]

theorem owner_unique {st : St} (hi : Inv H st) (n n' : Name) (k : Key)
    (h : find st.cache n = some k) (h' : find st.cache n' = some k) : n = n' := by
  have a := hi.complete n k h
  have b := hi.complete n' k h'
  rw [a] at b
  simpa using b

/-! ### exact effect of acknowledged calls -/

theorem call_delete (st : St) (n : Name) (k : Key) (h : find st.cache n = some k) :
    call H st (.delete n) =
      ({ st with cache := erase st.cache n, lookup := erase st.lookup (H k),
                 tcp := st.tcp.map (fun m => erase m (H k)), udp := st.udp.map (fun m => erase m (H k)),
                 pending := true }, .ok) := by
  simp [call, Op.thread, deleteProg, runThread, seg, runLocked, exec, touch, h, liveUpd]

theorem call_update (st : St) (n : Name) (k k0 : Key) (h : find st.cache n = some k0) (hk : k0 ≠ k)
    (hl : k.len = st.pskLen) (hfree : find st.lookup (H k) = none) :
    call H st (.update n k) =
      ({ st with cache := insert st.cache n k, lookup := insert (erase st.lookup (H k0)) (H k) (n, k),
                 tcp := st.tcp.map (fun m => insert (erase m (H k0)) (H k) (n, k)),
                 udp := st.udp.map (fun m => insert (erase m (H k0)) (H k) (n, k)),
                 pending := true }, .ok) := by
  simp [call, Op.thread, updateProg, runThread, seg, runLocked, exec, touch, h, hk, hl, hfree, liveUpd]

theorem call_add (st : St) (n : Name) (k : Key) (hn : n ≠ "") (hl : k.len = st.pskLen) (hld : st.loaded = true)
    (h : find st.cache n = none) (hfree : find st.lookup (H k) = none) :
    call H st (.add n k) =
      ({ st with cache := insert st.cache n k, lookup := insert st.lookup (H k) (n, k),
                 tcp := st.tcp.map (fun m => insert m (H k) (n, k)),
                 udp := st.udp.map (fun m => insert m (H k) (n, k)),
                 pending := true }, .ok) := by
  simp [call, Op.thread, addProg, runThread, seg, runLocked, exec, touch, h, hn, hl, hfree, hld, liveUpd]

/-! ### the saved document represents the cache -/

theorem mem_names_insSorted (p : Entry) (l : List Entry) (x : Name) :
    x ∈ (insSorted p l).map Prod.fst ↔ x = p.1 ∨ x ∈ l.map Prod.fst := by
  induction l with
  | nil => simp [insSorted]
  | cons q r ih =>
    unfold insSorted
    split
    · simp
    · simp only [List.map_cons, List.mem_cons, ih]
      constructor
      · rintro (h | h | h) <;> simp [h]
      · rintro (h | h | h) <;> simp [h]

theorem nodup_insSorted (p : Entry) (l : List Entry) (hl : (l.map Prod.fst).Nodup)
    (hp : p.1 ∉ l.map Prod.fst) : ((insSorted p l).map Prod.fst).Nodup := by
  induction l with
  | nil => simp [insSorted]
  | cons q r ih =>
    simp only [List.map_cons, List.nodup_cons, List.mem_cons, not_or] at hl hp
    unfold insSorted
    split
    · simp only [List.map_cons, List.nodup_cons, List.mem_cons, not_or]
      exact ⟨⟨hp.1, hp.2⟩, hl.1, hl.2⟩
    · simp only [List.map_cons, List.nodup_cons]
      refine ⟨?_, ih hl.2 hp.2⟩
      rw [mem_names_insSorted]
      rintro (h | h)
      · exact hp.1 h.symm
      · exact hl.1 h

theorem find_insSorted (p : Entry) (l : List Entry) (hp : p.1 ∉ l.map Prod.fst) (n : Name) :
    find (insSorted p l) n = if p.1 = n then some p.2 else find l n := by
  induction l with
  | nil => obtain ⟨a, b⟩ := p; simp [insSorted, find]
  | cons q r ih =>
    obtain ⟨a, b⟩ := p
    obtain ⟨a', b'⟩ := q
    simp only [List.map_cons, List.mem_cons, not_or] at hp
    unfold insSorted
    split
    · simp [find]
    · simp only [find, ih hp.2]
      by_cases h1 : a' = n
      · have : ¬ a = n := fun e => hp.1 (e.trans h1.symm)
        simp [h1, this]
      · simp [h1]

theorem mem_names_canon (l : List Entry) (x : Name) : x ∈ (canon l).map Prod.fst ↔ x ∈ l.map Prod.fst := by
  induction l with
  | nil => simp [canon]
  | cons p r ih =>
    have : canon (p :: r) = insSorted p (canon r) := rfl
    rw [this, mem_names_insSorted, ih]
    simp only [List.map_cons, List.mem_cons]

theorem canon_ok (l : List Entry) (hl : (l.map Prod.fst).Nodup) :
    ((canon l).map Prod.fst).Nodup ∧ ∀ n, find (canon l) n = find l n := by
  induction l with
  | nil => simp [canon, find]
  | cons p r ih =>
    simp only [List.map_cons, List.nodup_cons] at hl
    have hc : canon (p :: r) = insSorted p (canon r) := rfl
    have hp : p.1 ∉ (canon r).map Prod.fst := fun h => hl.1 ((mem_names_canon r p.1).1 h)
    obtain ⟨i1, i2⟩ := ih hl.2
    refine ⟨by rw [hc]; exact nodup_insSorted p _ i1 hp, ?_⟩
    intro n
    rw [hc, find_insSorted p _ hp n, i2 n]
    obtain ⟨a, b⟩ := p
    simp [find]

theorem find_none_of_not_mem {α β : Type} [DecidableEq α] (m : List (α × β)) (a : α)
    (h : a ∉ m.map Prod.fst) : find m a = none := by
  cases hf : find m a with
  | none => rfl
  | some b => exact absurd (find_some_mem m a b hf) h

theorem find_foldl_insert (l : List Entry) (hl : (l.map Prod.fst).Nodup) (acc : List Entry) (n : Name) :
    find (l.foldl (fun m p => insert m p.1 p.2) acc) n =
      match find l n with
      | some k => some k
      | none => find acc n := by
  induction l generalizing acc with
  | nil => simp [find]
  | cons p r ih =>
    obtain ⟨a, b⟩ := p
    simp only [List.map_cons, List.nodup_cons] at hl
    simp only [List.foldl_cons, ih hl.2, find, find_insert]
    by_cases h : a = n
    · subst h
      simp [find_none_of_not_mem r a hl.1]
    · simp [h]

/-- the document decodes to a map equal to the cache -/
def Represents (d : Doc) (cache : List Entry) : Prop :=
  ∃ l, decodeDoc d = some l ∧ ∀ n, find l n = find cache n

theorem render_represents (c : List Entry) (hc : (c.map Prod.fst).Nodup) : Represents (render c) c := by
  obtain ⟨h1, h2⟩ := canon_ok c hc
  refine ⟨_, rfl, ?_⟩
  intro n
  rw [find_foldl_insert (canon c) h1 [] n, h2 n]
  cases find c n <;> simp [find]

/-! ### sequential histories: the last synchronised content represents the cache unless a save is pending -/

structure Synced (st : St) : Prop where
  idle : st.saverBusy = false
  rep : st.pending = false → Represents st.cachedContent st.cache

theorem synced_of_eq {st st' : St} (hs : Synced st) (h1 : st'.saverBusy = st.saverBusy)
    (h2 : st'.pending = true ∨ (st'.cachedContent = st.cachedContent ∧ st'.cache = st.cache ∧ st'.pending = st.pending)) :
    Synced st' := by
  refine ⟨h1.trans hs.idle, ?_⟩
  intro hp
  rcases h2 with h2 | ⟨a, b, c⟩
  · rw [h2] at hp; cases hp
  · rw [a, b]; exact hs.rep (c ▸ hp)

theorem call_add_synced (st : St) (n : Name) (k : Key) (hld : st.loaded = true) (hs : Synced st) :
    Synced (call H st (.add n k)).1 := by
  by_cases h1 : n = ""
  · have : (call H st (.add n k)).1 = st := by
      simp [call, Op.thread, addProg, runThread, seg, runLocked, exec, touch, h1]
    rw [this]; exact hs
  by_cases h2 : k.len ≠ st.pskLen
  · have : (call H st (.add n k)).1 = st := by
      simp [call, Op.thread, addProg, runThread, seg, runLocked, exec, touch, h1, h2]
    rw [this]; exact hs
  by_cases h3 : (find st.cache n).isSome = true
  · have : (call H st (.add n k)).1 = st := by
      simp [call, Op.thread, addProg, runThread, seg, runLocked, exec, touch, h1, h2, h3]
    rw [this]; exact hs
  by_cases h4 : (find st.lookup (H k)).isSome = true
  · have : (call H st (.add n k)).1 = st := by
      simp [call, Op.thread, addProg, runThread, seg, runLocked, exec, touch, h1, h2, h3, h4]
    rw [this]; exact hs
  refine synced_of_eq hs ?_ (Or.inl ?_) <;>
    simp [call, Op.thread, addProg, runThread, seg, runLocked, exec, touch, h1, h2, h3, h4, hld, liveUpd]

theorem call_update_synced (st : St) (n : Name) (k : Key) (hs : Synced st) :
    Synced (call H st (.update n k)).1 := by
  by_cases h2 : k.len ≠ st.pskLen
  · have : (call H st (.update n k)).1 = st := by
      simp [call, Op.thread, updateProg, runThread, seg, runLocked, exec, touch, h2]
    rw [this]; exact hs
  cases h0 : find st.cache n with
  | none =>
    have : (call H st (.update n k)).1 = st := by
      simp [call, Op.thread, updateProg, runThread, seg, runLocked, exec, touch, h2, h0]
    rw [this]; exact hs
  | some k0 =>
    by_cases h1 : k0 = k
    · have : (call H st (.update n k)).1 = st := by
        simp [call, Op.thread, updateProg, runThread, seg, runLocked, exec, touch, h2, h0, h1]
      rw [this]; exact hs
    by_cases h4 : (find st.lookup (H k)).isSome = true
    · have : (call H st (.update n k)).1 = st := by
        simp [call, Op.thread, updateProg, runThread, seg, runLocked, exec, touch, h2, h0, h1, h4]
      rw [this]; exact hs
    refine synced_of_eq hs ?_ (Or.inl ?_) <;>
      simp [call, Op.thread, updateProg, runThread, seg, runLocked, exec, touch, h2, h0, h1, h4, liveUpd]

theorem call_delete_synced (st : St) (n : Name) (hs : Synced st) :
    Synced (call H st (.delete n)).1 := by
  cases h0 : find st.cache n with
  | none =>
    have : (call H st (.delete n)).1 = st := by
      simp [call, Op.thread, deleteProg, runThread, seg, runLocked, exec, touch, h0]
    rw [this]; exact hs
  | some k0 =>
    refine synced_of_eq hs ?_ (Or.inl ?_) <;>
      simp [call, Op.thread, deleteProg, runThread, seg, runLocked, exec, touch, h0, liveUpd]

theorem call_reload_synced (st : St) (hs : Synced st) : Synced (call H st .reload).1 := by
  by_cases hskip : st.loaded = true ∧ st.file = st.cachedContent
  · have : (call H st .reload).1 = st := by
      simp [call, Op.thread, loadProg, runThread, seg, runLocked, exec, touch, hskip.1, hskip.2]
    rw [this]; exact hs
  cases hd : decodeDoc st.file with
  | none =>
    have : (call H st .reload).1 = st := by
      simp [call, Op.thread, loadProg, runThread, seg, runLocked, exec, touch, hskip, hd]
    rw [this]; exact hs
  | some l =>
    cases hb : build H st.pskLen l with
    | none =>
      have : (call H st .reload).1 = st := by
        simp [call, Op.thread, loadProg, runThread, seg, runLocked, exec, touch, hskip, hd, hb]
      rw [this]; exact hs
    | some pr =>
      obtain ⟨lk, c⟩ := pr
      have hst : (call H st .reload).1 =
          { st with cachedContent := st.file, lookup := lk, cache := c, loaded := true,
                    tcp := st.tcp.map (fun _ => lk), udp := st.udp.map (fun _ => lk) } := by
        simp [call, Op.thread, loadProg, runThread, seg, runLocked, exec, touch, hskip, hd, hb]
      rw [hst]
      refine ⟨hs.idle, fun _ => ⟨l, hd, fun n => (build_cache H _ _ _ _ hb n).symm⟩⟩

theorem tick_pending (st : St) (hp : st.pending = true) :
    tick st = { st with pending := false, saverBusy := false, file := render st.cache, cachedContent := render st.cache } := by
  simp [tick, dequeue, save, hp]

theorem tick_idle (st : St) (hp : st.pending = false) (hb : st.saverBusy = false) : tick st = st := by
  simp [tick, dequeue, save, hp, hb]

theorem tick_synced (st : St) (hn : (st.cache.map Prod.fst).Nodup) (hs : Synced st) :
    Synced (tick st) ∧ (tick st).pending = false ∧
      (st.pending = true → (tick st).file = render st.cache ∧ (tick st).cachedContent = render st.cache) := by
  by_cases hp : st.pending = true
  · rw [tick_pending st hp]
    exact ⟨⟨rfl, fun _ => render_represents st.cache hn⟩, rfl, fun _ => ⟨rfl, rfl⟩⟩
  · have hp' : st.pending = false := by simpa using hp
    rw [tick_idle st hp' hs.idle]
    exact ⟨hs, hp', fun h => by rw [hp'] at h; cases h⟩

theorem applyEv_synced (st : St) (e : Ev) (hi : Inv H st) (hs : Synced st) : Synced (applyEv H st e) := by
  cases e with
  | api op =>
    cases op with
    | add n k => exact call_add_synced H st n k hi.loaded hs
    | update n k => exact call_update_synced H st n k hs
    | delete n => exact call_delete_synced H st n hs
    | reload => exact call_reload_synced H st hs
  | edit d => exact ⟨hs.idle, hs.rep⟩
  | tick => exact (tick_synced st hi.nodup hs).1

theorem runHist_synced (evs : List Ev) (st : St) (hi : Inv H st) (hs : Synced st) :
    Synced (runHist H st evs) := by
  induction evs generalizing st with
  | nil => exact hs
  | cons e evs ih => exact ih _ (applyEv_inv H st e hi) (applyEv_synced H st e hi hs)

/-! ### registration -/

theorem first_load (s0 : St) (hl : s0.loaded = false) (hf : s0.fault = false) (hb0 : s0.saverBusy = false)
    (st : St) (h : call H s0 .reload = (st, .ok)) : Inv H st ∧ Synced st := by
  cases hd : decodeDoc s0.file with
  | none =>
    have : (call H s0 .reload).2 = .errParse := by
      simp [call, Op.thread, loadProg, runThread, seg, runLocked, exec, touch, hl, hd]
    rw [h] at this; cases this
  | some l =>
    cases hb : build H s0.pskLen l with
    | none =>
      have : (call H s0 .reload).2 = .errInvalid := by
        simp [call, Op.thread, loadProg, runThread, seg, runLocked, exec, touch, hl, hd, hb]
      rw [h] at this; cases this
    | some pr =>
      obtain ⟨lk, c⟩ := pr
      have hst : (call H s0 .reload).1 =
          { s0 with cachedContent := s0.file, lookup := lk, cache := c, loaded := true,
                    tcp := s0.tcp.map (fun _ => lk), udp := s0.udp.map (fun _ => lk) } := by
        simp [call, Op.thread, loadProg, runThread, seg, runLocked, exec, touch, hl, hd, hb]
      rw [h] at hst
      simp only at hst
      subst hst
      have hk := build_ok H s0.pskLen l lk c hb (decodeDoc_nodup _ _ hd)
      exact ⟨inv_load H hf s0.file lk c (build_nodup H _ _ _ _ hb) ⟨hk.1, hk.2.1⟩,
             ⟨hb0, fun _ => ⟨l, hd, fun n => (build_cache H _ _ _ _ hb n).symm⟩⟩⟩

theorem fresh_reload (p : Nat) (t u : Bool) (f : Doc) (st : St)
    (h : call H (fresh p t u f) .reload = (st, .ok)) : Inv H st ∧ Synced st :=
  first_load H (fresh p t u f) rfl rfl rfl st h

end SSV.Cred
