import SSV.Proofs.DomainRoundTrip
/-
`DomainBinarySearchMatcher`: `Insert` keeps the slice strictly ascending (bytewise order) and `slices.BinarySearch`
finds exactly the members; so a binary-search builder filled by `Insert` is `Regular`.
-/
namespace SSV.DomainSet

theorem strLt_irrefl : ∀ (a : Str), strLt a a = false
  | [] => rfl
  | x :: xs => by simp [strLt, strLt_irrefl xs]

theorem strLt_trans : ∀ (a b c : Str), strLt a b = true → strLt b c = true → strLt a c = true
  | _, [], _, h, _ => by simp [strLt] at h
  | _, _ :: _, [], _, h => by simp [strLt] at h
  | [], _ :: _, _ :: _, _, _ => by simp [strLt]
  | x :: xs, y :: ys, z :: zs, h1, h2 => by
    unfold strLt at h1 h2 ⊢
    by_cases hxy : x.toNat < y.toNat
    · by_cases hyz : y.toNat < z.toNat
      · have : x.toNat < z.toNat := by omega
        simp [this]
      · simp only [hyz, ↓reduceIte] at h2
        by_cases hzy : z.toNat < y.toNat
        · simp [hzy] at h2
        · have : x.toNat < z.toNat := by omega
          simp [this]
    · simp only [hxy, ↓reduceIte] at h1
      by_cases hyx : y.toNat < x.toNat
      · simp [hyx] at h1
      · simp only [hyx, ↓reduceIte] at h1
        by_cases hyz : y.toNat < z.toNat
        · have : x.toNat < z.toNat := by omega
          simp [this]
        · simp only [hyz, ↓reduceIte] at h2
          by_cases hzy : z.toNat < y.toNat
          · simp [hzy] at h2
          · simp only [hzy, ↓reduceIte] at h2
            have h3 : ¬ x.toNat < z.toNat := by omega
            have h4 : ¬ z.toNat < x.toNat := by omega
            simp only [h3, h4, ↓reduceIte]
            exact strLt_trans xs ys zs h1 h2

theorem strLt_total : ∀ (a b : Str), strLt a b = false → strLt b a = false → a = b
  | [], [], _, _ => rfl
  | [], _ :: _, h, _ => by simp [strLt] at h
  | _ :: _, [], _, h => by simp [strLt] at h
  | x :: xs, y :: ys, h1, h2 => by
    unfold strLt at h1 h2
    by_cases hxy : x.toNat < y.toNat
    · simp [hxy] at h1
    · by_cases hyx : y.toNat < x.toNat
      · simp [hyx] at h2
      · simp only [hxy, hyx, ↓reduceIte] at h1 h2
        have : x = y := UInt8.toNat_inj.mp (by omega)
        rw [this, strLt_total xs ys h1 h2]

/-- strictly ascending in the bytewise order: what `Insert` maintains -/
def Ascending (x : List Str) : Prop := x.Pairwise (fun a b => strLt a b = true)

theorem lowerBound_spec (x : List Str) (t : Str) (hs : Ascending x) :
    ∀ fuel i j, i ≤ j → j ≤ x.length → j - i < fuel →
      (∀ k (hk : k < x.length), k < i → strLt x[k] t = true) →
      (∀ k (hk : k < x.length), j ≤ k → strLt x[k] t = false) →
      let r := lowerBound x t fuel i j
      r ≤ x.length ∧ (∀ k (hk : k < x.length), k < r → strLt x[k] t = true)
        ∧ (∀ k (hk : k < x.length), r ≤ k → strLt x[k] t = false)
  | 0, _, _, _, _, hf, _, _ => by omega
  | fuel + 1, i, j, hij, hj, hf, hlo, hhi => by
    have hpw := List.pairwise_iff_getElem.mp hs
    unfold lowerBound
    by_cases hlt : i < j
    · simp only [hlt, ↓reduceIte]
      have hh : (i + j) / 2 < x.length := by omega
      rw [List.getElem?_eq_getElem hh]
      simp only
      by_cases hc : strLt x[(i + j) / 2] t = true
      · simp only [hc, ↓reduceIte]
        apply lowerBound_spec x t hs fuel _ _ (by omega) hj (by omega) _ hhi
        intro k hk hkl
        by_cases hkh : k = (i + j) / 2
        · subst hkh; exact hc
        · exact strLt_trans _ _ _ (hpw k ((i + j) / 2) hk hh (by omega)) hc
      · have hc' : strLt x[(i + j) / 2] t = false := by simpa using hc
        simp only [hc', Bool.false_eq_true, ↓reduceIte]
        apply lowerBound_spec x t hs fuel _ _ (by omega) (by omega) (by omega) hlo
        intro k hk hkl
        by_cases hkh : k = (i + j) / 2
        · subst hkh; exact hc'
        · have hlt' := hpw ((i + j) / 2) k hh hk (by omega)
          cases hkt : strLt x[k] t with
          | false => rfl
          | true => rw [strLt_trans _ _ _ hlt' hkt] at hc'; cases hc'
    · simp only [hlt, ↓reduceIte]
      refine ⟨by omega, hlo, ?_⟩
      intro k hk hik
      exact hhi k hk (by omega)

/-- `slices.BinarySearch` on an ascending slice finds exactly the members -/
theorem binarySearch_found (x : List Str) (t : Str) (hs : Ascending x) :
    (binarySearch x t).2 = x.contains t := by
  obtain ⟨hr, hlo, hhi⟩ := lowerBound_spec x t hs (x.length + 1) 0 x.length (by omega) (by omega) (by omega)
    (by intro k _ hk; omega) (by intro k hk hk'; omega)
  have hpw := List.pairwise_iff_getElem.mp hs
  unfold binarySearch
  simp only
  generalize lowerBound x t (x.length + 1) 0 x.length = r at hr hlo hhi
  rw [Bool.eq_iff_iff, List.contains_iff_mem]
  simp only [beq_iff_eq]
  constructor
  · intro h; exact List.mem_of_getElem? h
  · intro hm
    obtain ⟨k, hk, rfl⟩ := List.getElem_of_mem hm
    have hkr : r ≤ k := by
      by_cases h : k < r
      · have := hlo k hk h
        rw [strLt_irrefl] at this; cases this
      · omega
    by_cases hrk : r = k
    · subst hrk; exact List.getElem?_eq_getElem hk
    · have hrlen : r < x.length := by omega
      have h1 := hpw r k hrlen hk (by omega)
      have h2 := hhi r hrlen (by omega)
      rw [h1] at h2; cases h2

theorem ascending_insert (x : List Str) (t : Str) (hs : Ascending x) : Ascending (bsearchInsert x t) := by
  obtain ⟨hr, hlo, hhi⟩ := lowerBound_spec x t hs (x.length + 1) 0 x.length (by omega) (by omega) (by omega)
    (by intro k _ hk; omega) (by intro k hk hk'; omega)
  have hpw := List.pairwise_iff_getElem.mp hs
  unfold bsearchInsert binarySearch
  simp only
  generalize lowerBound x t (x.length + 1) 0 x.length = r at hr hlo hhi
  by_cases hf : (x[r]? == some t) = true
  · simp only [hf, ↓reduceIte]; exact hs
  · simp only [hf, Bool.false_eq_true, ↓reduceIte]
    have hne : x[r]? ≠ some t := by simpa using hf
    unfold Ascending
    rw [List.pairwise_append]
    refine ⟨(List.Pairwise.sublist (List.take_sublist r x) hs), ?_, ?_⟩
    · rw [List.pairwise_cons]
      refine ⟨?_, List.Pairwise.sublist (List.drop_sublist r x) hs⟩
      intro b hb
      obtain ⟨m, hm, rfl⟩ := List.getElem_of_mem hb
      rw [List.getElem_drop]
      have hlen : r + m < x.length := by simp at hm; omega
      have hnlt := hhi (r + m) hlen (by omega)
      cases hcmp : strLt t x[r + m] with
      | true => rfl
      | false =>
        exfalso
        have heq := strLt_total _ _ hnlt hcmp
        by_cases hm0 : m = 0
        · subst hm0
          apply hne
          rw [List.getElem?_eq_getElem (by omega : r < x.length)]
          simpa using heq
        · have hrlen : r < x.length := by omega
          have h1 := hpw r (r + m) hrlen hlen (by omega)
          rw [heq] at h1
          have h2 := hhi r hrlen (by omega)
          rw [h1] at h2; cases h2
    · intro a ha b hb
      obtain ⟨m, hm, rfl⟩ := List.getElem_of_mem ha
      rw [List.getElem_take]
      have hm' : m < r := by simp at hm; omega
      have hmlen : m < x.length := by omega
      have hat := hlo m hmlen hm'
      simp only [List.mem_cons] at hb
      rcases hb with rfl | hb
      · exact hat
      · obtain ⟨n, hn, rfl⟩ := List.getElem_of_mem hb
        rw [List.getElem_drop]
        have hlen : r + n < x.length := by simp at hn; omega
        exact hpw m (r + n) hmlen hlen (by omega)

theorem ascending_foldl (rs : List Str) : ∀ (x : List Str), Ascending x → Ascending (rs.foldl bsearchInsert x) := by
  induction rs with
  | nil => intro x h; exact h
  | cons r rs ih => intro x h; exact ih _ (ascending_insert x r h)

/-- a binary-search builder filled by `Insert` (from empty) agrees with membership of its rules -/
theorem bsearch_regular (rs : List Str) (d : Str) :
    let x := rs.foldl bsearchInsert []
    x.contains d = (binarySearch x d).2 := by
  simp only
  rw [binarySearch_found _ _ (ascending_foldl rs [] (by simp [Ascending]))]

theorem mem_bsearchInsert (x : List Str) (t a : Str) : a ∈ bsearchInsert x t ↔ (a ∈ x ∨ (a = t ∧ (binarySearch x t).2 = false) ∨ (a = t ∧ a ∈ x)) := by
  unfold bsearchInsert
  simp only
  by_cases hf : (binarySearch x t).2 = true
  · simp only [hf, ↓reduceIte, Bool.true_eq_false, and_false, false_or]
    constructor
    · exact Or.inl
    · rintro (h | ⟨_, h⟩) <;> exact h
  · have hf' : (binarySearch x t).2 = false := by simpa using hf
    simp only [hf', Bool.false_eq_true, ↓reduceIte, and_true, List.mem_append, List.mem_cons]
    constructor
    · rintro (h | rfl | h)
      · exact Or.inl (List.mem_of_mem_take h)
      · exact Or.inr (Or.inl rfl)
      · exact Or.inl (List.mem_of_mem_drop h)
    · rintro (h | rfl | ⟨rfl, h⟩)
      · have := List.take_append_drop (binarySearch x t).1 x
        rw [← this] at h
        rcases List.mem_append.mp h with h | h
        · exact Or.inl h
        · exact Or.inr (Or.inr h)
      · exact Or.inr (Or.inl rfl)
      · have := List.take_append_drop (binarySearch x a).1 x
        rw [← this] at h
        rcases List.mem_append.mp h with h | h
        · exact Or.inl h
        · exact Or.inr (Or.inr h)

theorem mem_bsearchInsert' (x : List Str) (t a : Str) (hs : Ascending x) :
    a ∈ bsearchInsert x t ↔ (a ∈ x ∨ a = t) := by
  rw [mem_bsearchInsert]
  constructor
  · rintro (h | ⟨h, _⟩ | ⟨h, _⟩)
    · exact Or.inl h
    · exact Or.inr h
    · exact Or.inr h
  · rintro (h | rfl)
    · exact Or.inl h
    · cases hf : (binarySearch x a).2 with
      | false => exact Or.inr (Or.inl ⟨rfl, rfl⟩)
      | true =>
        rw [binarySearch_found x a hs] at hf
        exact Or.inr (Or.inr ⟨rfl, List.contains_iff_mem.mp hf⟩)

theorem mem_foldl_bsearchInsert (rs : List Str) : ∀ (x : List Str), Ascending x → ∀ a,
    a ∈ rs.foldl bsearchInsert x ↔ (a ∈ x ∨ a ∈ rs) := by
  induction rs with
  | nil => intro x _ a; simp
  | cons r rs ih =>
    intro x hs a
    rw [List.foldl_cons, ih _ (ascending_insert x r hs), mem_bsearchInsert' x r a hs]
    simp only [List.mem_cons]
    constructor
    · rintro ((h | h) | h)
      · exact Or.inl h
      · exact Or.inr (Or.inl h)
      · exact Or.inr (Or.inr h)
    · rintro (h | h | h)
      · exact Or.inl (Or.inl h)
      · exact Or.inl (Or.inr h)
      · exact Or.inr h

theorem foldl_insert_bsearch (l : List Str) : ∀ (x : List Str),
    l.foldl DomainB.insert (DomainB.bsearch x) = DomainB.bsearch (l.foldl bsearchInsert x) := by
  induction l with
  | nil => intro x; rfl
  | cons y ys ih => intro x; simp only [List.foldl_cons, DomainB.insert, ih]

/-- the binary-search matcher filled by `Insert` accepts exactly the inserted rules -/
theorem bsearch_lang (rs : List Str) (d : Str) :
    (rs.foldl DomainB.insert (DomainB.bsearch [])).lang d = true ↔ d ∈ rs := by
  rw [foldl_insert_bsearch]
  have hasc := ascending_foldl rs [] (by simp [Ascending])
  show (binarySearch _ d).2 = true ↔ _
  rw [binarySearch_found _ _ hasc, List.contains_iff_mem, mem_foldl_bsearchInsert rs [] (by simp [Ascending])]
  simp

end SSV.DomainSet
