import SSV.Proofs.DomainRoundTrip
/-
The converter's v2fly/dlc reader: on a file made of well-formed entries (`full:` / `domain:` / `keyword:` / `regexp:`
value, optionally one separator byte and `@attribute`) it builds exactly the selected entries, and the resulting
builder (hence its text and gob forms) decides the language these entries denote.
-/
namespace SSV.DomainSet

inductive DlcKind where
  | full | domain | keyword | regexp
deriving DecidableEq, Repr

def DlcKind.pre : DlcKind → Str
  | .full => SSV.Gen.C10.dlcFullPrefix
  | .domain => SSV.Gen.C10.dlcDomainPrefix
  | .keyword => SSV.Gen.C10.dlcKeywordPrefix
  | .regexp => SSV.Gen.C10.dlcRegexpPrefix

structure DlcEntry where
  kind : DlcKind
  value : Str
  /-- separator byte and attribute text (after the '@') -/
  attr : Option (UInt8 × Str)

def DlcEntry.tail (e : DlcEntry) : Str :=
  match e.attr with
  | none => []
  | some (sep, a) => sep :: 64 :: a

/-- the line of an entry -/
def DlcEntry.render (e : DlcEntry) : Str := e.kind.pre ++ (e.value ++ e.tail)

/-- `-tag` selection: no tag selects every entry, a tag the entries carrying exactly that attribute -/
def DlcEntry.selected (tag : Str) (e : DlcEntry) : Bool :=
  tag.isEmpty || (match e.attr with | none => false | some (_, a) => a == tag)

/-- entries the reader handles as the format means them: a non-empty value without '@', one separator byte that is not '@' -/
def DlcEntry.WellFormed (e : DlcEntry) : Prop :=
  e.value ≠ [] ∧ (64 : UInt8) ∉ e.value ∧ (∀ sep a, e.attr = some (sep, a) → sep ≠ 64)

def DlcEntry.toLine (e : DlcEntry) : DlcLine :=
  match e.kind with
  | .full => .domain e.value
  | .domain => .suffix e.value
  | .keyword => .keyword e.value
  | .regexp => .regexp e.value

theorem cutAt_append_no (c : UInt8) : ∀ (s rest : Str), c ∉ s →
    cutAt c (s ++ rest) = (s ++ (cutAt c rest).1, (cutAt c rest).2)
  | [], rest, _ => by simp
  | x :: xs, rest, h => by
    have hx : x ≠ c := by intro h'; subst h'; simp at h
    have ih := cutAt_append_no c xs rest (by intro h'; exact h (by simp [h']))
    rw [List.cons_append, cutAt]
    simp [hx, ih]

theorem pre_no_at (k : DlcKind) : (64 : UInt8) ∉ k.pre := by
  cases k <;> decide

theorem pre_head (k : DlcKind) (rest : Str) : (k.pre ++ rest).head? ≠ some hash := by
  cases k <;> simp [DlcKind.pre, SSV.Gen.C10.dlcFullPrefix, SSV.Gen.C10.dlcDomainPrefix, SSV.Gen.C10.dlcKeywordPrefix,
    SSV.Gen.C10.dlcRegexpPrefix, hash]

theorem goSlice_mid (a b c : Str) : goSlice (a ++ (b ++ c)) a.length (a.length + b.length) = some b := by
  unfold goSlice
  have : ¬ a.length > a.length + b.length := by omega
  simp only [this, ↓reduceIte]
  rw [← List.append_assoc, List.take_left' (by simp), List.drop_left' rfl]

/-- the prefix switch picks the entry's kind -/
theorem dlc_pick (k : DlcKind) (v t : Str) :
    dlcPick (k.pre ++ (v ++ t)) (k.pre.length + v.length) = (DlcEntry.mk k v none).toLine := by
  unfold dlcPick
  cases k
  · have h := goSlice_mid SSV.Gen.C10.dlcFullPrefix v t
    simp only [DlcKind.pre, DlcEntry.toLine] at h ⊢
    have hp : SSV.Gen.C10.dlcFullPrefix.isPrefixOf (SSV.Gen.C10.dlcFullPrefix ++ (v ++ t)) = true := by
      rw [List.isPrefixOf_iff_prefix]; exact List.prefix_append _ _
    simp only [hp, ↓reduceIte, h]
  · have h := goSlice_mid SSV.Gen.C10.dlcDomainPrefix v t
    simp only [DlcKind.pre, DlcEntry.toLine] at h ⊢
    have hp : SSV.Gen.C10.dlcDomainPrefix.isPrefixOf (SSV.Gen.C10.dlcDomainPrefix ++ (v ++ t)) = true := by
      rw [List.isPrefixOf_iff_prefix]; exact List.prefix_append _ _
    have hn : SSV.Gen.C10.dlcFullPrefix.isPrefixOf (SSV.Gen.C10.dlcDomainPrefix ++ (v ++ t)) = false := by
      simp [SSV.Gen.C10.dlcFullPrefix, SSV.Gen.C10.dlcDomainPrefix, List.isPrefixOf]
    simp only [hn, Bool.false_eq_true, hp, ↓reduceIte, h]
  · have h := goSlice_mid SSV.Gen.C10.dlcKeywordPrefix v t
    simp only [DlcKind.pre, DlcEntry.toLine] at h ⊢
    have hp : SSV.Gen.C10.dlcKeywordPrefix.isPrefixOf (SSV.Gen.C10.dlcKeywordPrefix ++ (v ++ t)) = true := by
      rw [List.isPrefixOf_iff_prefix]; exact List.prefix_append _ _
    have hn1 : SSV.Gen.C10.dlcFullPrefix.isPrefixOf (SSV.Gen.C10.dlcKeywordPrefix ++ (v ++ t)) = false := by
      simp [SSV.Gen.C10.dlcFullPrefix, SSV.Gen.C10.dlcKeywordPrefix, List.isPrefixOf]
    have hn2 : SSV.Gen.C10.dlcDomainPrefix.isPrefixOf (SSV.Gen.C10.dlcKeywordPrefix ++ (v ++ t)) = false := by
      simp [SSV.Gen.C10.dlcDomainPrefix, SSV.Gen.C10.dlcKeywordPrefix, List.isPrefixOf]
    simp only [hn1, hn2, Bool.false_eq_true, hp, ↓reduceIte, h]
  · have h := goSlice_mid SSV.Gen.C10.dlcRegexpPrefix v t
    simp only [DlcKind.pre, DlcEntry.toLine] at h ⊢
    have hp : SSV.Gen.C10.dlcRegexpPrefix.isPrefixOf (SSV.Gen.C10.dlcRegexpPrefix ++ (v ++ t)) = true := by
      rw [List.isPrefixOf_iff_prefix]; exact List.prefix_append _ _
    have hn1 : SSV.Gen.C10.dlcFullPrefix.isPrefixOf (SSV.Gen.C10.dlcRegexpPrefix ++ (v ++ t)) = false := by
      simp [SSV.Gen.C10.dlcFullPrefix, SSV.Gen.C10.dlcRegexpPrefix, List.isPrefixOf]
    have hn2 : SSV.Gen.C10.dlcDomainPrefix.isPrefixOf (SSV.Gen.C10.dlcRegexpPrefix ++ (v ++ t)) = false := by
      simp [SSV.Gen.C10.dlcDomainPrefix, SSV.Gen.C10.dlcRegexpPrefix, List.isPrefixOf]
    have hn3 : SSV.Gen.C10.dlcKeywordPrefix.isPrefixOf (SSV.Gen.C10.dlcRegexpPrefix ++ (v ++ t)) = false := by
      simp [SSV.Gen.C10.dlcKeywordPrefix, SSV.Gen.C10.dlcRegexpPrefix, List.isPrefixOf]
    simp only [hn1, hn2, hn3, Bool.false_eq_true, hp, ↓reduceIte, h]

theorem toLine_eq (e : DlcEntry) : (DlcEntry.mk e.kind e.value none).toLine = e.toLine := rfl

/-- one well-formed entry line: taken (as its kind and value) iff selected by the tag, never invalid, never a panic -/
theorem dlcLine_render (tag : Str) (e : DlcEntry) (hw : e.WellFormed) :
    dlcLine tag e.render = if e.selected tag then e.toLine else .skip := by
  obtain ⟨hv, hat, hsep⟩ := hw
  have hno : (64 : UInt8) ∉ e.kind.pre ++ e.value := by
    intro h
    rcases List.mem_append.mp h with h | h
    · exact pre_no_at _ h
    · exact hat h
  unfold dlcLine DlcEntry.render
  simp only [pre_head, ↓reduceIte]
  rw [← List.append_assoc, cutAt_append_no 64 _ _ hno]
  cases ha : e.attr with
  | none =>
    have ht : e.tail = [] := by simp [DlcEntry.tail, ha]
    simp only [ht, cutAt, List.append_nil, Option.isSome_none, Bool.false_eq_true, false_and, ↓reduceIte]
    by_cases htag : tag.isEmpty = true
    · simp only [htag, ↓reduceIte]
      have := dlc_pick e.kind e.value []
      rw [List.append_nil] at this
      rw [List.length_append, this, toLine_eq]
      simp only [DlcEntry.selected, htag, Bool.true_or, ↓reduceIte]
    · simp [DlcEntry.selected, htag, ha]
  | some p =>
    obtain ⟨sep, a⟩ := p
    have hs : sep ≠ 64 := hsep sep a ha
    have ht : e.tail = sep :: 64 :: a := by simp [DlcEntry.tail, ha]
    have hc : cutAt 64 (sep :: 64 :: a) = ([sep], some a) := by simp [cutAt, hs]
    simp only [ht, hc, Option.isSome_some, true_and]
    have hlen : (e.kind.pre ++ e.value ++ [sep]).length ≠ 0 := by simp
    simp only [hlen, ↓reduceIte]
    have hend : (e.kind.pre ++ e.value ++ [sep]).length - 1 = e.kind.pre.length + e.value.length := by simp
    have hpick := dlc_pick e.kind e.value (sep :: 64 :: a)
    rw [toLine_eq] at hpick
    rw [hend, List.append_assoc]
    by_cases htag : tag.isEmpty = true
    · simp only [htag, ↓reduceIte, hpick]
      simp only [DlcEntry.selected, htag, Bool.true_or, ↓reduceIte]
    · simp only [htag, Bool.false_eq_true, ↓reduceIte]
      by_cases hat' : a = tag
      · subst hat'
        simp only [ne_eq, not_true_eq_false, ↓reduceIte, hpick]
        simp [DlcEntry.selected, ha]
      · have : (a == tag) = false := by simpa using hat'
        simp [hat', DlcEntry.selected, htag, ha, this]

/-- what the reader builds from a list of entries -/
def addEntries (tag : Str) (b : Builder) : List DlcEntry → Builder
  | [] => b
  | e :: es =>
    if e.selected tag then
      (match e.kind with
       | .full => addEntries tag { b with domains := b.domains.insert e.value } es
       | .domain => addEntries tag { b with suffixes := b.suffixes.insert e.value } es
       | .keyword => addEntries tag { b with keywords := b.keywords ++ [e.value] } es
       | .regexp => addEntries tag { b with regexps := b.regexps ++ [e.value] } es)
    else addEntries tag b es

theorem addDlcLines_entries (tag : Str) : ∀ (es : List DlcEntry) (b : Builder), (∀ e ∈ es, e.WellFormed) →
    addDlcLines tag b (es.map DlcEntry.render) = .ok (addEntries tag b es)
  | [], b, _ => rfl
  | e :: es, b, h => by
    have ih := fun b' => addDlcLines_entries tag es b' (fun x hx => h x (by simp [hx]))
    rw [List.map_cons, addDlcLines, dlcLine_render tag e (h e (by simp))]
    unfold addEntries
    by_cases hs : e.selected tag = true
    · simp only [hs, ↓reduceIte, DlcEntry.toLine]
      cases e.kind <;> simp only [ih]
    · simp only [hs, Bool.false_eq_true, ↓reduceIte, ih]

/-- what one entry denotes -/
def DlcEntry.matches (re : Str → Str → Bool) (e : DlcEntry) (d : Str) : Bool :=
  match e.kind with
  | .full => d == e.value
  | .domain => matchDomainSuffix d e.value
  | .keyword => containsSub d e.value
  | .regexp => re e.value d

theorem suffixB_lang_insert_bool (b : SuffixB) (r d : Str) :
    (b.insert r).lang d = (b.lang d || matchDomainSuffix d r) := by
  rw [Bool.eq_iff_iff, SuffixB.lang_insert, Bool.or_eq_true, matchDomainSuffix_iff]

theorem lang_addEntries (re : Str → Str → Bool) (tag : Str) (d : Str) : ∀ (es : List DlcEntry) (b : Builder),
    (∃ m, b.domains = .map m) →
    (addEntries tag b es).lang re d = (b.lang re d || (es.filter (DlcEntry.selected tag)).any (fun e => e.matches re d))
  | [], b, _ => by simp [addEntries]
  | e :: es, b, ⟨m, hm⟩ => by
    unfold addEntries
    by_cases hs : e.selected tag = true
    · simp only [hs, ↓reduceIte, List.filter_cons_of_pos, List.any_cons]
      cases hk : e.kind with
      | full =>
        simp only
        rw [lang_addEntries re tag d es { b with domains := b.domains.insert e.value }
          ⟨mapInsert m e.value, by simp [hm, DomainB.insert]⟩]
        simp only [Builder.lang, hm, DomainB.lang_insert_map, DlcEntry.matches, hk]
        cases (DomainB.map m).lang d <;> cases (d == e.value) <;> simp
      | domain =>
        simp only
        rw [lang_addEntries re tag d es { b with suffixes := b.suffixes.insert e.value } ⟨m, hm⟩]
        simp only [Builder.lang, suffixB_lang_insert_bool, DlcEntry.matches, hk]
        cases b.domains.lang d <;> cases b.suffixes.lang d <;> cases matchDomainSuffix d e.value <;> simp
      | keyword =>
        simp only
        rw [lang_addEntries re tag d es { b with keywords := b.keywords ++ [e.value] } ⟨m, hm⟩]
        simp only [Builder.lang, keywordMatch, List.any_append, List.any_cons, List.any_nil, Bool.or_false,
          DlcEntry.matches, hk]
        cases b.domains.lang d <;> cases b.suffixes.lang d <;> cases b.keywords.any (containsSub d)
          <;> cases containsSub d e.value <;> simp
      | regexp =>
        simp only
        rw [lang_addEntries re tag d es { b with regexps := b.regexps ++ [e.value] } ⟨m, hm⟩]
        simp only [Builder.lang, List.any_append, List.any_cons, List.any_nil, Bool.or_false, DlcEntry.matches, hk]
        cases b.domains.lang d <;> cases b.suffixes.lang d <;> cases keywordMatch b.keywords d
          <;> cases b.regexps.any (fun p => re p d) <;> cases re e.value d <;> simp
    · simp only [hs, Bool.false_eq_true, ↓reduceIte]
      rw [lang_addEntries re tag d es b ⟨m, hm⟩]
      simp [hs]

/-- the dlc file made of the entries' lines, each terminated by LF -/
def dlcText (es : List DlcEntry) : Str := (es.map DlcEntry.render).flatMap (fun l => l ++ [LF])

theorem builderFromDlc_entries (tag : Str) (es : List DlcEntry) (hw : ∀ e ∈ es, e.WellFormed)
    (hs : ∀ e ∈ es, lineSafe e.render = true) :
    builderFromDlc tag (dlcText es) = .ok (addEntries tag Builder.emptyText es) := by
  unfold builderFromDlc dlcText
  rw [nonEmptyLines_of_safe _ (by
    intro l hl
    obtain ⟨e, he, rfl⟩ := List.mem_map.mp hl
    exact hs e he)]
  exact addDlcLines_entries tag es _ hw

/-- the builder the reader makes keeps the shape of a text-parser builder (map, well-formed trie) and only holds
entry values -/
theorem addEntries_textBuilder (tag : Str) : ∀ (es : List DlcEntry) (b : Builder), TextBuilder b →
    (∀ e ∈ es, lineSafe e.value = true) → TextBuilder (addEntries tag b es)
  | [], b, hb, _ => hb
  | e :: es, b, hb, hv => by
    have hrest : ∀ x ∈ es, lineSafe x.value = true := fun x hx => hv x (by simp [hx])
    have hsafe := hv e (by simp)
    unfold addEntries
    by_cases hs : e.selected tag = true
    · simp only [hs, ↓reduceIte]
      cases e.kind with
      | full =>
        simp only
        refine addEntries_textBuilder tag es _ ?_ hrest
        obtain ⟨m, hm⟩ := hb.domains
        refine ⟨⟨mapInsert m e.value, by simp [hm, DomainB.insert]⟩, hb.suffixes, ?_, hb.safeS, hb.safeK, hb.safeR⟩
        intro k hk
        simp only [hm, DomainB.insert, DomainB.rules, mem_mapInsert] at hk
        rcases hk with h' | rfl
        · exact hb.safeD k (by simpa [hm, DomainB.rules] using h')
        · exact hsafe
      | domain =>
        simp only
        refine addEntries_textBuilder tag es _ ?_ hrest
        obtain ⟨root, hroot, hwf⟩ := hb.suffixes
        refine ⟨hb.domains, ⟨trieInsert root e.value, by simp [hroot, SuffixB.insert], trieInsert_WF root _ hwf⟩,
          hb.safeD, ?_, hb.safeK, hb.safeR⟩
        intro k hk
        simp only [hroot, SuffixB.insert, SuffixB.rules] at hk
        rcases keys_trieInsert root e.value k hk with h' | rfl
        · exact hb.safeS k (by simpa [hroot, SuffixB.rules] using h')
        · exact hsafe
      | keyword =>
        simp only
        refine addEntries_textBuilder tag es _ ?_ hrest
        refine ⟨hb.domains, hb.suffixes, hb.safeD, hb.safeS, ?_, hb.safeR⟩
        intro k hk
        simp only [List.mem_append, List.mem_singleton] at hk
        rcases hk with h' | rfl
        · exact hb.safeK k h'
        · exact hsafe
      | regexp =>
        simp only
        refine addEntries_textBuilder tag es _ ?_ hrest
        refine ⟨hb.domains, hb.suffixes, hb.safeD, hb.safeS, hb.safeK, ?_⟩
        intro k hk
        simp only [List.mem_append, List.mem_singleton] at hk
        rcases hk with h' | rfl
        · exact hb.safeR k h'
        · exact hsafe
    · simp only [hs, Bool.false_eq_true, ↓reduceIte]
      exact addEntries_textBuilder tag es b hb hrest

end SSV.DomainSet
