import SSV.Proofs.RelayLifeInv3d
/-
C12 helper lemmas, part 4: life cycle of the NAT socket.  It is open from the successful ListenUDP until it is closed by
the early return that owns it or by the uplink goroutine after the send channel was closed; nobody uses it afterwards.
-/
namespace SSV.RelayLife
variable (cfg : Cfg)

/-- every early return that owns the socket closes it -/
def Cfg.closesAll (cfg : Cfg) : Bool := cfg.closeSetDl && cfg.closeNewPacker && cfg.closeSwap

structure Inv4 (cfg : Cfg) (s : State) : Prop where
  s1 : ∀ i, i < s.n → (s.ent i).ipc.idx ≤ 2 → (s.ent i).sock = false
  s2 : ∀ i, i < s.n → 3 ≤ (s.ent i).ipc.idx → (s.ent i).ipc.idx ≤ 8 → (s.ent i).sock = true
  s3 : ∀ i, i < s.n → (s.ent i).clean = true → (s.ent i).upc ≠ .done → (s.ent i).sock = true
  s4 : cfg.uplinkCloses = true → ∀ i, i < s.n → (s.ent i).upc = .done → (s.ent i).sock = false
  s5 : cfg.closesAll = true → ∀ i, i < s.n → (s.ent i).clean = false → 9 ≤ (s.ent i).ipc.idx → (s.ent i).sock = false
  u4 : ∀ i, i < s.n → ((s.ent i).upc = .closeSock ∨ (s.ent i).upc = .done) → 11 ≤ (s.ent i).ipc.idx
  u6 : ∀ i, i < s.n → (s.ent i).clean = true → 7 ≤ (s.ent i).ipc.idx → (s.ent i).upc ≠ .none

theorem inv4_initial : Inv4 cfg State.init := by
  constructor <;> simp [State.init]

set_option hygiene false in
macro "close_case4" : tactic => `(tactic| (
  first
  | (simp at h; done)
  | (injection h with h; subst h
     constructor <;>
       simp_all [State.setE, State.inTab, Entry.closeIf, Entry.closeSock, Cfg.closesAll, IPc.idx, IPc.closed_t] <;>
       grind [IPc.idx, Entry.fresh])))

theorem inv4_arrive (s s' : State) (c : Nat) (h1 : Inv1 s) (ha : Inv3a s) (hd : Inv3d s) (hI : Inv4 cfg s) (h : step cfg s (.arrive c) = some s') : Inv4 cfg s' := by
  have a7 := h1.closed
  clear h1
  have u2 := ha.u2
  have u3 := ha.u3
  clear ha
  obtain ⟨u1⟩ := hd
  obtain ⟨s1,s2,s3,s4,s5,u4,u6⟩ := hI
  simp only [step] at h
  (repeat' split at h) <;> close_case4

theorem inv4_rLock (s s' : State)  (h1 : Inv1 s) (ha : Inv3a s) (hd : Inv3d s) (hI : Inv4 cfg s) (h : step cfg s (.rLock ) = some s') : Inv4 cfg s' := by
  have a7 := h1.closed
  clear h1
  have u2 := ha.u2
  have u3 := ha.u3
  clear ha
  obtain ⟨u1⟩ := hd
  obtain ⟨s1,s2,s3,s4,s5,u4,u6⟩ := hI
  simp only [step] at h
  (repeat' split at h) <;> close_case4

set_option maxHeartbeats 1600000 in
theorem inv4_rProc (s s' : State) (ok : Bool) (h1 : Inv1 s) (ha : Inv3a s) (hd : Inv3d s) (hI : Inv4 cfg s) (h : step cfg s (.rProc ok) = some s') : Inv4 cfg s' := by
  have a7 := h1.closed
  clear h1
  have u2 := ha.u2
  have u3 := ha.u3
  clear ha
  obtain ⟨u1⟩ := hd
  obtain ⟨s1,s2,s3,s4,s5,u4,u6⟩ := hI
  simp only [step] at h
  (repeat' split at h) <;> close_case4

theorem inv4_rMore (s s' : State) (c : Nat) (h1 : Inv1 s) (ha : Inv3a s) (hd : Inv3d s) (hI : Inv4 cfg s) (h : step cfg s (.rMore c) = some s') : Inv4 cfg s' := by
  have a7 := h1.closed
  clear h1
  have u2 := ha.u2
  have u3 := ha.u3
  clear ha
  obtain ⟨u1⟩ := hd
  obtain ⟨s1,s2,s3,s4,s5,u4,u6⟩ := hI
  simp only [step] at h
  (repeat' split at h) <;> close_case4

theorem inv4_rUnlock (s s' : State)  (h1 : Inv1 s) (ha : Inv3a s) (hd : Inv3d s) (hI : Inv4 cfg s) (h : step cfg s (.rUnlock ) = some s') : Inv4 cfg s' := by
  have a7 := h1.closed
  clear h1
  have u2 := ha.u2
  have u3 := ha.u3
  clear ha
  obtain ⟨u1⟩ := hd
  obtain ⟨s1,s2,s3,s4,s5,u4,u6⟩ := hI
  simp only [step] at h
  (repeat' split at h) <;> close_case4

theorem inv4_rExit (s s' : State)  (h1 : Inv1 s) (ha : Inv3a s) (hd : Inv3d s) (hI : Inv4 cfg s) (h : step cfg s (.rExit ) = some s') : Inv4 cfg s' := by
  have a7 := h1.closed
  clear h1
  have u2 := ha.u2
  have u3 := ha.u3
  clear ha
  obtain ⟨u1⟩ := hd
  obtain ⟨s1,s2,s3,s4,s5,u4,u6⟩ := hI
  simp only [step] at h
  (repeat' split at h) <;> close_case4

set_option maxHeartbeats 1600000 in
theorem inv4_init (s s' : State) (i : Nat) (ok : Bool) (h1 : Inv1 s) (ha : Inv3a s) (hd : Inv3d s) (hI : Inv4 cfg s) (h : step cfg s (.init i ok) = some s') : Inv4 cfg s' := by
  have a7 := h1.closed
  clear h1
  have u2 := ha.u2
  have u3 := ha.u3
  clear ha
  obtain ⟨u1⟩ := hd
  obtain ⟨s1,s2,s3,s4,s5,u4,u6⟩ := hI
  simp only [step] at h
  (repeat' split at h) <;> close_case4

theorem inv4_dTimeout (s s' : State) (i : Nat) (h1 : Inv1 s) (ha : Inv3a s) (hd : Inv3d s) (hI : Inv4 cfg s) (h : step cfg s (.dTimeout i) = some s') : Inv4 cfg s' := by
  have a7 := h1.closed
  clear h1
  have u2 := ha.u2
  have u3 := ha.u3
  clear ha
  obtain ⟨u1⟩ := hd
  obtain ⟨s1,s2,s3,s4,s5,u4,u6⟩ := hI
  simp only [step] at h
  (repeat' split at h) <;> close_case4

theorem inv4_dPacket (s s' : State) (i : Nat) (h1 : Inv1 s) (ha : Inv3a s) (hd : Inv3d s) (hI : Inv4 cfg s) (h : step cfg s (.dPacket i) = some s') : Inv4 cfg s' := by
  have a7 := h1.closed
  clear h1
  have u2 := ha.u2
  have u3 := ha.u3
  clear ha
  obtain ⟨u1⟩ := hd
  obtain ⟨s1,s2,s3,s4,s5,u4,u6⟩ := hI
  simp only [step] at h
  (repeat' split at h) <;> close_case4

theorem inv4_dSend (s s' : State) (i : Nat) (h1 : Inv1 s) (ha : Inv3a s) (hd : Inv3d s) (hI : Inv4 cfg s) (h : step cfg s (.dSend i) = some s') : Inv4 cfg s' := by
  have a7 := h1.closed
  clear h1
  have u2 := ha.u2
  have u3 := ha.u3
  clear ha
  obtain ⟨u1⟩ := hd
  obtain ⟨s1,s2,s3,s4,s5,u4,u6⟩ := hI
  simp only [step] at h
  (repeat' split at h) <;> close_case4

set_option maxHeartbeats 1600000 in
theorem inv4_cleanup (s s' : State) (i : Nat) (h1 : Inv1 s) (ha : Inv3a s) (hd : Inv3d s) (hI : Inv4 cfg s) (h : step cfg s (.cleanup i) = some s') : Inv4 cfg s' := by
  have a7 := h1.closed
  clear h1
  have u2 := ha.u2
  have u3 := ha.u3
  clear ha
  obtain ⟨u1⟩ := hd
  obtain ⟨s1,s2,s3,s4,s5,u4,u6⟩ := hI
  simp only [step] at h
  (repeat' split at h) <;> close_case4

theorem inv4_uRecv (s s' : State) (i : Nat) (k : Nat) (h1 : Inv1 s) (ha : Inv3a s) (hd : Inv3d s) (hI : Inv4 cfg s) (h : step cfg s (.uRecv i k) = some s') : Inv4 cfg s' := by
  have a7 := h1.closed
  clear h1
  have u2 := ha.u2
  have u3 := ha.u3
  clear ha
  obtain ⟨u1⟩ := hd
  obtain ⟨s1,s2,s3,s4,s5,u4,u6⟩ := hI
  simp only [step] at h
  (repeat' split at h) <;> close_case4

set_option maxHeartbeats 1600000 in
theorem inv4_uStep (s s' : State) (i : Nat) (h1 : Inv1 s) (ha : Inv3a s) (hd : Inv3d s) (hI : Inv4 cfg s) (h : step cfg s (.uStep i) = some s') : Inv4 cfg s' := by
  have a7 := h1.closed
  clear h1
  have u2 := ha.u2
  have u3 := ha.u3
  clear ha
  obtain ⟨u1⟩ := hd
  obtain ⟨s1,s2,s3,s4,s5,u4,u6⟩ := hI
  simp only [step] at h
  (repeat' split at h) <;> close_case4

theorem inv4_timer (s s' : State) (i : Nat) (h1 : Inv1 s) (ha : Inv3a s) (hd : Inv3d s) (hI : Inv4 cfg s) (h : step cfg s (.timer i) = some s') : Inv4 cfg s' := by
  have a7 := h1.closed
  clear h1
  have u2 := ha.u2
  have u3 := ha.u3
  clear ha
  obtain ⟨u1⟩ := hd
  obtain ⟨s1,s2,s3,s4,s5,u4,u6⟩ := hI
  simp only [step] at h
  (repeat' split at h) <;> close_case4

theorem inv4_stopCall (s s' : State)  (h1 : Inv1 s) (ha : Inv3a s) (hd : Inv3d s) (hI : Inv4 cfg s) (h : step cfg s (.stopCall ) = some s') : Inv4 cfg s' := by
  have a7 := h1.closed
  clear h1
  have u2 := ha.u2
  have u3 := ha.u3
  clear ha
  obtain ⟨u1⟩ := hd
  obtain ⟨s1,s2,s3,s4,s5,u4,u6⟩ := hI
  simp only [step] at h
  (repeat' split at h) <;> close_case4

set_option maxHeartbeats 1600000 in
theorem inv4_stop (s s' : State)  (h1 : Inv1 s) (ha : Inv3a s) (hd : Inv3d s) (hI : Inv4 cfg s) (h : step cfg s (.stop ) = some s') : Inv4 cfg s' := by
  have a7 := h1.closed
  clear h1
  have u2 := ha.u2
  have u3 := ha.u3
  clear ha
  obtain ⟨u1⟩ := hd
  obtain ⟨s1,s2,s3,s4,s5,u4,u6⟩ := hI
  simp only [step] at h
  (repeat' split at h) <;> close_case4

set_option maxHeartbeats 1600000 in
theorem inv4_stopVisit (s s' : State) (i : Nat) (h1 : Inv1 s) (ha : Inv3a s) (hd : Inv3d s) (hI : Inv4 cfg s) (h : step cfg s (.stopVisit i) = some s') : Inv4 cfg s' := by
  have a7 := h1.closed
  clear h1
  have u2 := ha.u2
  have u3 := ha.u3
  clear ha
  obtain ⟨u1⟩ := hd
  obtain ⟨s1,s2,s3,s4,s5,u4,u6⟩ := hI
  simp only [step] at h
  (repeat' split at h) <;> close_case4

theorem inv4_step (s s' : State) (e : Ev) (h1 : Inv1 s) (ha : Inv3a s) (hd : Inv3d s) (hI : Inv4 cfg s) (h : step cfg s e = some s') : Inv4 cfg s' := by
  cases e with
  | arrive c => exact inv4_arrive cfg s s' c h1 ha hd hI h
  | rLock  => exact inv4_rLock cfg s s'  h1 ha hd hI h
  | rProc ok => exact inv4_rProc cfg s s' ok h1 ha hd hI h
  | rMore c => exact inv4_rMore cfg s s' c h1 ha hd hI h
  | rUnlock  => exact inv4_rUnlock cfg s s'  h1 ha hd hI h
  | rExit  => exact inv4_rExit cfg s s'  h1 ha hd hI h
  | init i ok => exact inv4_init cfg s s' i ok h1 ha hd hI h
  | dTimeout i => exact inv4_dTimeout cfg s s' i h1 ha hd hI h
  | dPacket i => exact inv4_dPacket cfg s s' i h1 ha hd hI h
  | dSend i => exact inv4_dSend cfg s s' i h1 ha hd hI h
  | cleanup i => exact inv4_cleanup cfg s s' i h1 ha hd hI h
  | uRecv i k => exact inv4_uRecv cfg s s' i k h1 ha hd hI h
  | uStep i => exact inv4_uStep cfg s s' i h1 ha hd hI h
  | timer i => exact inv4_timer cfg s s' i h1 ha hd hI h
  | stopCall  => exact inv4_stopCall cfg s s'  h1 ha hd hI h
  | stop  => exact inv4_stop cfg s s'  h1 ha hd hI h
  | stopVisit i => exact inv4_stopVisit cfg s s' i h1 ha hd hI h

end SSV.RelayLife
