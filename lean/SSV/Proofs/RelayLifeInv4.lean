import SSV.Proofs.RelayLifeInv4a
import SSV.Proofs.RelayLifeInv4b
import SSV.Proofs.RelayLifeInv4c
namespace SSV.RelayLife
variable (cfg : Cfg)

theorem inv4_step (s s' : State) (e : Ev) (h1 : Inv1 s) (ha : Inv3a s) (hd : Inv3d s) (hI : Inv4 cfg s) (h : step cfg s e = some s') : Inv4 cfg s' := by
  cases e with
  | arrive c => exact inv4_arrive cfg s s' c h1 ha hd hI h
  | rLock  => exact inv4_rLock cfg s s'  h1 ha hd hI h
  | rProc ok => exact inv4_rProc cfg s s' ok h1 ha hd hI h
  | rMore c => exact inv4_rMore cfg s s' c h1 ha hd hI h
  | rUnlock  => exact inv4_rUnlock cfg s s'  h1 ha hd hI h
  | rExit  => exact inv4_rExit cfg s s'  h1 ha hd hI h
  | init i ok => exact inv4_init cfg s s' i ok h1 ha hd hI h
  | dTimeout i => exact inv4_dTimeout cfg s s' i h1 ha hd hI h
  | dPacket i => exact inv4_dPacket cfg s s' i h1 ha hd hI h
  | dSend i => exact inv4_dSend cfg s s' i h1 ha hd hI h
  | uFail i => exact inv4_uFail cfg s s' i h1 ha hd hI h
  | cleanup i => exact inv4_cleanup cfg s s' i h1 ha hd hI h
  | uRecv i k => exact inv4_uRecv cfg s s' i k h1 ha hd hI h
  | uStep i => exact inv4_uStep cfg s s' i h1 ha hd hI h
  | timer i => exact inv4_timer cfg s s' i h1 ha hd hI h
  | stopCall  => exact inv4_stopCall cfg s s'  h1 ha hd hI h
  | stop  => exact inv4_stop cfg s s'  h1 ha hd hI h
  | stopVisit i => exact inv4_stopVisit cfg s s' i h1 ha hd hI h

end SSV.RelayLife
