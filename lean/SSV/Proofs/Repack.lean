import SSV.Model.Repack
import SSV.Proofs.Parsers
import SSV.Proofs.ParsersSocks3
/-
C06 helper lemmas, part 8: the relays' re-pack step and the ss2022 TCP client's padding split never panic.
-/
namespace SSV.Parsers.Proofs
open SSV SSV.Go SSV.Outcome SSV.Parsers

theorem socksLen_ok {a : Addr} (h : a.nameFits = true) : ∃ n, (a.socksLen : R Nat) = .ok n ∧ 4 ≤ n ∧ n ≤ 259 := by
  cases a with
  | none => exact ⟨7, rfl, by omega, by omega⟩
  | ip4 _ _ => exact ⟨7, rfl, by omega, by omega⟩
  | ip6 x _ =>
    simp only [Addr.socksLen]
    split
    · exact ⟨_, rfl, by omega, by omega⟩
    · exact ⟨_, rfl, by omega, by omega⟩
  | dom d p =>
    simp only [Addr.nameFits, decide_eq_true_eq] at h
    simp only [Addr.socksLen]
    rw [if_neg (by omega)]
    exact ⟨_, rfl, by omega, by omega⟩

theorem intN_ok (draw : Nat) {n : Int} (h : 0 < n) : ∃ d, intN draw n = .ok d ∧ 0 ≤ d ∧ d < n := by
  refine ⟨(draw : Int) % n, ?_, Int.emod_nonneg _ (by omega), Int.emod_lt_of_pos _ h⟩
  unfold intN
  rw [if_neg (by omega)]

theorem goSlice_ok {n : Nat} {i j : Int} (h : 0 ≤ i ∧ i ≤ j ∧ j ≤ (n : Int)) : goSlice n i j = .ok () := by
  unfold goSlice; rw [if_pos h]

theorem intToUint16_ok {i : Int} (h : 0 ≤ i ∧ i < 65536) : intToUint16 i = .ok () := by
  unfold intToUint16; rw [if_pos h]

/-- the padding draw as guarded in the source: some `pad` with `0 ≤ pad ≤ maxPad` -/
theorem pad_ok (shouldPad : Bool) (draw : Nat) {maxPad : Int} (h : 0 ≤ maxPad) :
    ∃ pad : Int, ((if (!true || decide (maxPad > 0)) && shouldPad then do
        let d ← intN draw maxPad
        pure (1 + d)
      else pure 0 : R Int)) = .ok pad ∧ 0 ≤ pad ∧ pad ≤ maxPad := by
  by_cases hc : ((!true || decide (maxPad > 0)) && shouldPad) = true
  · rw [if_pos hc]
    have hp : 0 < maxPad := by
      simp only [Bool.not_true, Bool.false_or, Bool.and_eq_true, decide_eq_true_eq] at hc
      exact hc.1
    obtain ⟨d, hd, h0, h1⟩ := intN_ok draw hp
    exact ⟨1 + d, by simp [hd], by omega, by omega⟩
  · rw [if_neg hc]
    exact ⟨0, rfl, by omega, h⟩

theorem np_ss2022ClientPack (maxPacketSize : Int) (nonAEAD : Nat) (hn : Gen.C06.UDPSeparateHeaderLength ≤ nonAEAD)
    (target : Addr) (ht : target.nameFits = true) (shouldPad : Bool) (draw : Nat) (bufLen ps pl : Nat)
    (hb : ps + pl ≤ bufLen) : NoPanic (ss2022ClientPack true maxPacketSize nonAEAD target shouldPad draw bufLen ps pl) := by
  unfold ss2022ClientPack
  obtain ⟨tal, htal, t7, t259⟩ := socksLen_ok ht
  simp only [htal, ok_bind, Gen.C06.UDPClientMessageHeaderFixedLength, Gen.C06.tagSize, Gen.C06.UDPSeparateHeaderLength] at hn ⊢
  split
  · simp
  · rename_i hm
    obtain ⟨pad, hpad, p0, p1⟩ := pad_ok shouldPad draw (Int.not_lt.mp hm)
    rw [hpad]
    simp only [ok_bind]
    rw [goSlice_ok (by omega), intToUint16_ok (by omega)]
    simp only [ok_bind]
    rw [goSlice_ok (by omega)]
    simp only [ok_bind]
    rw [goSlice_ok (by omega)]
    simp only [ok_bind]
    rw [goSlice_ok (by omega)]
    simp

theorem np_ss2022ServerPack (maxPacketLen : Int) (src4 shouldPad : Bool) (draw : Nat) (bufLen ps pl : Nat)
    (hb : ps + pl ≤ bufLen) : NoPanic (ss2022ServerPack true maxPacketLen src4 shouldPad draw bufLen ps pl) := by
  unfold ss2022ServerPack
  simp only [Gen.C06.UDPServerMessageHeaderFixedLength, Gen.C06.tagSize, Gen.C06.UDPSeparateHeaderLength]
  have hs : (7 : Int) ≤ (if src4 = true then 1 + 4 + 2 else 1 + 16 + 2) ∧ (if src4 = true then (1 + 4 + 2 : Int) else 1 + 16 + 2) ≤ 19 := by
    cases src4 <;> simp
  generalize (if src4 = true then (1 + 4 + 2 : Int) else 1 + 16 + 2) = sal at hs ⊢
  split
  · simp
  · rename_i hm
    obtain ⟨pad, hpad, p0, p1⟩ := pad_ok shouldPad draw (Int.not_lt.mp hm)
    rw [hpad]
    simp only [ok_bind]
    rw [goSlice_ok (by omega), intToUint16_ok (by omega)]
    simp only [ok_bind]
    rw [goSlice_ok (by omega)]
    simp only [ok_bind]
    rw [goSlice_ok (by omega)]
    simp

theorem np_prefixPack (hdr addrLen : Nat) (maxPacketSize : Int) (bufLen ps pl : Nat)
    (hh : addrLen + hdr ≤ ps) (hb : ps + pl ≤ bufLen) : NoPanic (prefixPack hdr addrLen maxPacketSize bufLen ps pl) := by
  unfold prefixPack
  dsimp only
  rw [goSlice_ok (by omega)]
  simp only [ok_bind]
  rw [goSlice_ok (by omega)]
  simp only [ok_bind]
  rw [goSlice_ok (by omega)]
  simp only [ok_bind]
  split <;> simp

theorem np_prefixClientPack (hdr : Nat) (target : Addr) (ht : target.nameFits = true) (maxPacketSize : Int) (bufLen ps pl : Nat)
    (hh : Gen.C06.MaxAddrLen + hdr ≤ ps) (hb : ps + pl ≤ bufLen) :
    NoPanic (prefixClientPack hdr target maxPacketSize bufLen ps pl) := by
  unfold prefixClientPack
  obtain ⟨tal, htal, t7, t259⟩ := socksLen_ok ht
  simp only [htal, ok_bind]
  simp only [Gen.C06.MaxAddrLen] at hh
  exact np_prefixPack hdr tal maxPacketSize bufLen ps pl (by omega) hb

theorem np_prefixServerPack (hdr : Nat) (src4 : Bool) (maxPacketLen : Int) (bufLen ps pl : Nat)
    (hh : Gen.C06.IPv6AddrLen + hdr ≤ ps) (hb : ps + pl ≤ bufLen) :
    NoPanic (prefixServerPack hdr src4 maxPacketLen bufLen ps pl) := by
  unfold prefixServerPack
  simp only [Gen.C06.IPv6AddrLen] at hh
  refine np_prefixPack hdr _ maxPacketLen bufLen ps pl ?_ hb
  cases src4 <;> simp <;> omega

theorem np_directClientPack (mtu : Int) (target : Addr) (hv : target.isValid = true) (resolve : Bytes → Option Bool) (ps pl : Nat) :
    NoPanic (directClientPack mtu target resolve ps pl) := by
  unfold directClientPack
  cases target with
  | none => simp [Addr.isValid] at hv
  | ip4 a p => simp only [Addr.isIP, Addr.ip, if_true, ok_bind, pure_eq]; split <;> simp
  | ip6 a p => simp only [Addr.isIP, Addr.ip, if_true, ok_bind, pure_eq]; split <;> simp
  | dom d p =>
    simp only [Addr.isIP, Addr.domain, ok_bind, Bool.false_eq_true, if_false]
    cases resolve d with
    | none => simp
    | some v => simp only [pure_eq, ok_bind]; split <;> simp

theorem np_dialStreamFinish (tal payloadLen : Nat) (ppl sent : Int) (h1 : 0 ≤ sent) (h2 : sent ≤ ppl) (h3 : tal + 2 + ppl < 65536) :
    NoPanic (dialStreamFinish tal payloadLen ppl sent) := by
  unfold dialStreamFinish
  dsimp only
  rw [intToUint16_ok (by omega)]
  simp only [ok_bind]
  rw [intToUint16_ok (by omega)]
  simp

theorem np_dialStreamSplit (target : Addr) (ht : target.nameFits = true) (payloadLen draw : Nat) :
    NoPanic (dialStreamSplit target payloadLen draw) := by
  unfold dialStreamSplit
  obtain ⟨tal, htal, t7, t259⟩ := socksLen_ok ht
  simp only [htal, ok_bind]
  have hS : ((Gen.C06.streamMaxPayloadSize : Nat) : Int) = 65535 := rfl
  have hP : ((Gen.C06.MaxPaddingLength : Nat) : Int) = 900 := rfl
  simp only [hS, hP]
  split
  · rename_i h1
    rw [goSlice_ok (by omega)]
    simp only [ok_bind]
    rw [goSlice_ok (by omega)]
    simp only [ok_bind]
    exact np_dialStreamFinish _ _ _ _ (by omega) (by omega) (by omega)
  · rename_i h1
    split
    · exact np_dialStreamFinish _ _ _ _ (by omega) (by omega) (by omega)
    · rename_i h2
      split
      · rename_i h3
        obtain ⟨d, hd, d0, d1⟩ := intN_ok draw (n := (900 : Int) - payloadLen + 1) (by omega)
        rw [hd]
        simp only [ok_bind]
        exact np_dialStreamFinish _ _ _ _ (by omega) (by omega) (by omega)
      · obtain ⟨d, hd, d0, d1⟩ := intN_ok draw (n := (900 : Int)) (by omega)
        rw [hd]
        simp only [ok_bind]
        exact np_dialStreamFinish _ _ _ _ (by omega) (by omega) (by omega)

/-- every address the slice parsers return has a name of at most 255 bytes -/
theorem connAddrFromSlice_nameFits {b : Bytes} {a : Addr} {n : Nat} (h : connAddrFromSlice b = .ok (a, n)) : a.nameFits = true := by
  unfold connAddrFromSlice addrFromDomainPort at h
  go_consts_at h
  go_cases h
  all_goals (obtain ⟨h1, h2⟩ := h; subst h1; first | rfl | (simp only [Addr.nameFits, decide_eq_true_eq]; omega))

theorem connAddrFromSliceDC_nameFits {b : Bytes} {a : Addr} {n : Nat} (h : connAddrFromSliceDC b = .ok (a, n)) : a.nameFits = true := by
  unfold connAddrFromSliceDC addrFromDomainPort at h
  go_consts_at h
  go_cases h
  all_goals (obtain ⟨h1, h2⟩ := h; subst h1; first | rfl | (simp only [Addr.nameFits, decide_eq_true_eq]; omega))

/-! #### accessor preconditions and the UDP ASSOCIATE session -/

theorem np_resolveIPPort (resolve : Bytes → Option (Bool × Bytes)) (a : Addr) (hv : a.isValid = true) :
    NoPanic (a.resolveIPPort resolve) := by
  cases a with
  | none => simp [Addr.isValid] at hv
  | ip4 _ _ => simp [Addr.resolveIPPort]
  | ip6 _ _ => simp [Addr.resolveIPPort]
  | dom d p =>
    simp only [Addr.resolveIPPort]
    split
    · simp
    · simp

theorem s5ClientRequest_valid {cmd : UInt8} {enc : Bytes} {st st' : S5} {a : Addr}
    (h : s5ClientRequest cmd enc st = .ok (st', a)) : a.isValid = true := by
  unfold s5ClientRequest at h
  split at h
  · simp at h
  · obtain ⟨s1, _, h⟩ := bind_eq_ok h
    obtain ⟨s2, _, h⟩ := bind_eq_ok h
    obtain ⟨s3, _, h⟩ := bind_eq_ok h
    obtain ⟨tail, _, h⟩ := bind_eq_ok h
    split at h
    · simp at h
    · obtain ⟨s4, _, h⟩ := bind_eq_ok h
      obtain ⟨s5, _, h⟩ := bind_eq_ok h
      obtain ⟨v, _, h⟩ := bind_eq_ok h
      split at h
      · simp at h
      · obtain ⟨_, _, h⟩ := bind_eq_ok h
        obtain ⟨pre, _, h⟩ := bind_eq_ok h
        obtain ⟨⟨sa, rest⟩, _, h⟩ := bind_eq_ok h
        dsimp only at h
        obtain ⟨⟨a', n⟩, ha, h⟩ := bind_eq_ok h
        dsimp only at h
        obtain ⟨rep, _, h⟩ := bind_eq_ok h
        split at h
        · simp at h
        · simp only [pure_eq, Outcome.ok.injEq, Prod.mk.injEq] at h
          rw [← h.2]
          exact (connAddrFromSlice_ok ha).2

theorem s5Client_valid {auth : Bool} {authMsg : Bytes} {cmd : UInt8} {enc stream : Bytes} {a : Addr}
    (h : s5Client auth authMsg cmd enc stream = .ok a) : a.isValid = true := by
  unfold s5Client at h
  obtain ⟨st1, _, h⟩ := bind_eq_ok h
  obtain ⟨st2, _, h⟩ := bind_eq_ok h
  obtain ⟨⟨st3, a'⟩, h3, h⟩ := bind_eq_ok h
  simp only [pure_eq, Outcome.ok.injEq] at h
  rw [← h]
  exact s5ClientRequest_valid h3

theorem np_s5UDPNewSession (auth : Bool) (authMsg : Bytes) (resolve : Bytes → Option (Bool × Bytes)) (stream : Bytes) :
    NoPanic (s5UDPNewSession auth authMsg resolve stream) := by
  unfold s5UDPNewSession
  refine noPanic_bind (np_s5Client auth authMsg _ _ (by simp [Gen.C06.MaxAddrLen]) stream) ?_
  intro bnd h
  exact np_resolveIPPort resolve bnd (s5Client_valid h)

end SSV.Parsers.Proofs
