import SSV.Model.SaltPool
/-
Helper lemmas for C03, part 1: the 64-bit word arithmetic of `ValidateUnixEpochTimestamp`.
-/
namespace SSV.SaltPool

theorem toInt_ofNat_small (n : Nat) (h : n < 2 ^ 63) : (BitVec.ofNat 64 n).toInt = (n : Int) := by
  rw [BitVec.toInt_ofNat', Int.bmod_def]
  simp only [Nat.reducePow] at *
  omega

/-- `ValidateUnixEpochTimestamp` on words: with the clock at least `MaxEpochDiff` away from both ends of
`int64`, the wrapping subtraction and the two signed comparisons accept exactly the words whose signed value is
within `MaxEpochDiff` of the clock. -/
theorem tsValidWord_iff (P : Params) (ts ne : BitVec 64)
    (hlo : -(2 ^ 63 : Int) + P.maxEpochDiff ≤ ne.toInt) (hhi : ne.toInt + P.maxEpochDiff < 2 ^ 63) :
    tsValidWord P ts ne = true ↔
      (ts.toInt - ne.toInt ≤ P.maxEpochDiff ∧ ne.toInt - ts.toInt ≤ P.maxEpochDiff) := by
  have hM : P.maxEpochDiff < 2 ^ 63 := by
    have := BitVec.toInt_lt (x := ne)
    have := BitVec.le_toInt ne
    omega
  have h1 := BitVec.toInt_lt (x := ts)
  have h2 := BitVec.le_toInt ts
  have h3 := BitVec.toInt_lt (x := ne)
  have h4 := BitVec.le_toInt ne
  have hm : (BitVec.ofNat 64 P.maxEpochDiff).toInt = (P.maxEpochDiff : Int) := toInt_ofNat_small _ hM
  simp only [tsValidWord, BitVec.slt_eq_decide, Bool.not_eq_true', Bool.or_eq_false_iff, decide_eq_false_iff_not,
    BitVec.toInt_sub, BitVec.toInt_neg, hm, Int.bmod_def]
  simp only [Nat.reducePow, Nat.reduceSub] at *
  omega

/-- No assumption on the clock word at all: the check accepts exactly the words `ne + d` (wrapping `int64`
addition) with `|d| ≤ MaxEpochDiff`. -/
theorem tsValidWord_iff_wrap (P : Params) (hM : P.maxEpochDiff < 2 ^ 63) (ts ne : BitVec 64) :
    tsValidWord P ts ne = true ↔
      ∃ d : Int, -(P.maxEpochDiff : Int) ≤ d ∧ d ≤ P.maxEpochDiff ∧ ts = ne + BitVec.ofInt 64 d := by
  have hm : (BitVec.ofNat 64 P.maxEpochDiff).toInt = (P.maxEpochDiff : Int) := toInt_ofNat_small _ hM
  have hv : tsValidWord P ts ne = true ↔
      (-(P.maxEpochDiff : Int) ≤ (ts - ne).toInt ∧ (ts - ne).toInt ≤ P.maxEpochDiff) := by
    simp only [tsValidWord, BitVec.slt_eq_decide, Bool.not_eq_true', Bool.or_eq_false_iff, decide_eq_false_iff_not,
      BitVec.toInt_neg, hm, Int.bmod_def]
    simp only [Nat.reducePow] at *
    omega
  rw [hv]
  constructor
  · intro ⟨h1, h2⟩
    refine ⟨(ts - ne).toInt, h1, h2, ?_⟩
    rw [BitVec.ofInt_toInt, BitVec.add_comm, BitVec.sub_add_cancel]
  · rintro ⟨d, h1, h2, rfl⟩
    have : (ne + BitVec.ofInt 64 d - ne) = BitVec.ofInt 64 d := by
      rw [BitVec.add_comm, BitVec.add_sub_cancel]
    rw [this, BitVec.toInt_ofInt, Int.bmod_def]
    simp only [Nat.reducePow] at *
    omega

theorem nowEpoch_toInt (now : Nat) (h : unixSec now < 2 ^ 63) : (nowEpoch now).toInt = (unixSec now : Int) :=
  toInt_ofNat_small _ h

/-- `ValidateUnixEpochTimestamp(ts, now)` for a clock reading `now ≥ 0` (ns) with `now.Unix() + MaxEpochDiff`
inside `int64`: accepted iff the signed timestamp word is within `MaxEpochDiff` of `⌊now⌋` seconds. -/
theorem tsValid_iff (P : Params) (ts : BitVec 64) (now : Nat) (h : unixSec now + P.maxEpochDiff < 2 ^ 63) :
    tsValid P ts now = true ↔
      (ts.toInt - (unixSec now : Int) ≤ P.maxEpochDiff ∧ (unixSec now : Int) - ts.toInt ≤ P.maxEpochDiff) := by
  have hn : (nowEpoch now).toInt = (unixSec now : Int) := nowEpoch_toInt now (by omega)
  unfold tsValid
  rw [tsValidWord_iff P ts (nowEpoch now) (by rw [hn]; omega) (by rw [hn]; omega), hn]

/-- Two instants at which the same timestamp word validates are less than `2·MaxEpochDiff + 1` seconds apart:
the validity span of a timestamp, in nanoseconds of server time. -/
theorem valid_span (P : Params) (ts : BitVec 64) (t1 t2 : Nat)
    (hr1 : unixSec t1 + P.maxEpochDiff < 2 ^ 63) (hr2 : unixSec t2 + P.maxEpochDiff < 2 ^ 63)
    (h1 : tsValid P ts t1 = true) (h2 : tsValid P ts t2 = true) :
    t2 < t1 + (2 * P.maxEpochDiff + 1) * nsPerSec := by
  rw [tsValid_iff P ts t1 hr1] at h1
  rw [tsValid_iff P ts t2 hr2] at h2
  simp only [unixSec, nsPerSec] at *
  omega

end SSV.SaltPool
