import SSV.Model.Stats
/-
C14 — helper lemmas: table look-ups, thread-local well-formedness, the conserved quantity `mass`.
-/
namespace SSV.Stats
open SSV.Gen.C14

macro "arith" : tactic => `(tactic| first | omega | (simp; done) | (simp; omega) | (simp only [Nat.zero_add]; done))

/-! ### tables -/

theorem Counters.get_set (c : Counters) (f : Field) (v : Nat) (g : Field) :
    (c.set f v).get g = if g = f then v else c.get g := by
  unfold Counters.get Counters.set
  simp only [List.lookup_cons]
  by_cases h : g = f
  · subst h; simp
  · have : (g == f) = false := by simpa using h
    simp [this, h]

@[simp] theorem Counters.get_zero (f : Field) : Counters.zero.get f = 0 := rfl

theorem Store.upd_get (s : Store) (t : Target) (f : Field) (v : Nat) (t' : Target) (g : Field) :
    ((s.upd t f v) t').get g = if t' = t ∧ g = f then v else (s t').get g := by
  unfold Store.upd
  by_cases h : t' = t
  · subst h; simp [Counters.get_set]
  · simp [h]

/-! ### what a thread still owes / already holds, per collector and counter -/

/-- sum of the arguments of the atomic adds on counter `f` still to be executed -/
def pendPc (f : Field) : List BStep → Nat
  | [] => 0
  | .add f' a :: r => (if f' = f then a else 0) + pendPc f r
  | .load _ _ :: r => pendPc f r
  | .swap0 _ _ :: r => pendPc f r

/-- sum over the completed visits of collector `t` of the figure for `f` -/
def sumDone (t : Target) (f : Field) : List (Target × Counters) → Nat
  | [] => 0
  | e :: r => (if e.1 = t then e.2.get f else 0) + sumDone t f r

theorem sumDone_append (t : Target) (f : Field) (a b : List (Target × Counters)) :
    sumDone t f (a ++ b) = sumDone t f a + sumDone t f b := by
  induction a with
  | nil => simp [sumDone]
  | cons e r ih => simp [sumDone, ih, Nat.add_assoc]

/-- traffic of collector `t`, counter `f` that the thread has still to add -/
def Thread.pend (t : Target) (f : Field) : Thread → Nat
  | .collect c => if c.v.t = t then pendPc f c.v.pc else 0
  | .snap _ => 0

/-- traffic of collector `t`, counter `f` that a resetting snapshot has taken out of the counters so far
(values returned by `Swap(0)`: in finished visits and in the `Traffic` literal under construction) -/
def Thread.got (t : Target) (f : Field) : Thread → Nat
  | .collect _ => 0
  | .snap s => if s.reset then sumDone t f s.done + (if s.v.t = t then s.v.lit.get f else 0) else 0

/-! ### well-formedness of the program a thread is executing -/

def isAdd : BStep → Bool
  | .add _ _ => true
  | _ => false

def isLoad : BStep → Bool
  | .load _ _ => true
  | _ => false

/-- `Swap(0)` of counter `f` stored into the field of the same name, which has not been written yet -/
def swapSame (lit : Counters) : BStep → Bool
  | .swap0 f o => o == f && lit.get f == 0
  | _ => false

def ResetOK (lit : Counters) (pc : List BStep) : Prop := (∀ s ∈ pc, swapSame lit s = true) ∧ pc.Nodup

instance (lit : Counters) (pc : List BStep) : Decidable (ResetOK lit pc) := by unfold ResetOK; infer_instance

def isAddG : Gen.C14.Step → Bool
  | .add _ _ => true
  | _ => false

def SnapTh.idlePhase (s : SnapTh) : Prop :=
  match s.phase with
  | .anon => False
  | .visiting _ _ => False
  | _ => True

def Thread.WF : Thread → Prop
  | .collect c => ∀ s ∈ c.v.pc, isAdd s = true
  | .snap s =>
    (if s.reset then ResetOK s.v.lit s.v.pc else ∀ x ∈ s.v.pc, isLoad x = true) ∧
    (s.idlePhase → (∀ f, s.v.lit.get f = 0) ∧ s.v.pc = [])

/-- facts about the regenerated programs the invariants rest on (each is closed by evaluation in
`SSV.C14.gen_ok`; a change of the source that falsifies one re-opens every theorem below) -/
structure GenOK : Prop where
  collect_adds : ∀ i : Inner, ∀ s ∈ innerProg i, isAddG s = true
  reset_anon : ResetOK Counters.zero ((snapProg (shapeOf true).anonKind).map (bindStep []))
  reset_user : ResetOK Counters.zero ((snapProg (shapeOf true).userKind).map (bindStep []))
  load_anon : ∀ x ∈ (snapProg (shapeOf false).anonKind).map (bindStep []), isLoad x = true
  load_user : ∀ x ∈ (snapProg (shapeOf false).userKind).map (bindStep []), isLoad x = true
  add_pointwise : ∀ (tot lit : Counters) (f : Field), (applyAdd tot lit).get f = (tot.get f + lit.get f) % M

theorem collectPc_adds (g : GenOK) (c : Call) (x0 x1 : Nat) : ∀ s ∈ collectPc c x0 x1, isAdd s = true := by
  intro s hs
  unfold collectPc at hs
  simp only [List.mem_map] at hs
  obtain ⟨s0, h0, rfl⟩ := hs
  have := g.collect_adds _ s0 h0
  cases s0 <;> simp_all [bindStep, isAdd, isAddG]

theorem mkCollect_WF (g : GenOK) (c : Call) (u : String) (x0 x1 : Nat) : (Thread.collect (mkCollect c u x0 x1)).WF := by
  simp only [Thread.WF, mkCollect]
  exact collectPc_adds g c x0 x1

theorem mkSnap_WF (g : GenOK) (reset : Bool) : (Thread.snap (mkSnap reset)).WF := by
  cases reset
  · refine ⟨?_, ?_⟩
    · simpa [mkSnap] using g.load_anon
    · intro h; simp [SnapTh.idlePhase, mkSnap] at h
  · refine ⟨?_, ?_⟩
    · simpa [mkSnap] using g.reset_anon
    · intro h; simp [SnapTh.idlePhase, mkSnap] at h

/-! ### one atomic step of one thread: well-formedness is kept, `got + counter + pend` is conserved -/

theorem resetOK_tail {lit : Counters} {f o : Field} {rest : List BStep} (v : Nat)
    (h : ResetOK lit (.swap0 f o :: rest)) : o = f ∧ lit.get f = 0 ∧ ResetOK (lit.set o v) rest := by
  obtain ⟨hall, hnd⟩ := h
  have h0 := hall (.swap0 f o) (by simp)
  simp only [swapSame, Bool.and_eq_true, beq_iff_eq] at h0
  obtain ⟨hof, hz⟩ := h0
  subst hof
  refine ⟨rfl, hz, ?_, (List.nodup_cons.mp hnd).2⟩
  intro s hs
  have hne : s ≠ .swap0 o o := by
    intro e; subst e; exact (List.nodup_cons.mp hnd).1 hs
  have hs' := hall s (by simp [hs])
  cases s with
  | add _ _ => simp [swapSame] at hs'
  | load _ _ => simp [swapSame] at hs'
  | swap0 f' o' =>
    simp only [swapSame, Bool.and_eq_true, beq_iff_eq] at hs' ⊢
    obtain ⟨hof', hz'⟩ := hs'
    subst hof'
    refine ⟨rfl, ?_⟩
    have hne' : o' ≠ o := by intro e; subst e; exact hne rfl
    simp [Counters.get_set, hne', hz']

/-- the change of `got + counter + pend` for collector `t`, counter `f` caused by one step of `th` -/
def Conserved (t : Target) (f : Field) (sh sh' : Shared) (th th' : Thread) : Prop :=
  (th'.got t f + (sh'.ctr t).get f + th'.pend t f) % M = (th.got t f + (sh.ctr t).get f + th.pend t f) % M ∧
  th'.got t f + (sh'.ctr t).get f + th'.pend t f ≤ th.got t f + (sh.ctr t).get f + th.pend t f

theorem collect_step_ok (sh sh' : Shared) (c c' : CollectTh) (hwf : (Thread.collect c).WF)
    (h : c.step sh = some (sh', c')) :
    (Thread.collect c').WF ∧ c'.v.t = c.v.t ∧ c'.u = c.u ∧
    (∀ t, t ≠ c.v.t → sh'.ctr t = sh.ctr t) ∧
    ∀ t f, Conserved t f sh sh' (.collect c) (.collect c') := by
  unfold CollectTh.step at h
  cases hst : c.stage with
  | lookup =>
    simp only [hst, Option.some.injEq, Prod.mk.injEq] at h
    obtain ⟨rfl, rfl⟩ := h
    exact ⟨hwf, rfl, rfl, fun _ _ => rfl, fun t f => ⟨rfl, Nat.le_refl _⟩⟩
  | create =>
    simp only [hst] at h
    split at h
    · simp only [Option.some.injEq, Prod.mk.injEq] at h
      obtain ⟨rfl, rfl⟩ := h
      exact ⟨hwf, rfl, rfl, fun _ _ => rfl, fun t f => ⟨rfl, Nat.le_refl _⟩⟩
    · simp at h
  | run =>
    simp only [hst] at h
    cases hpc : c.v.pc with
    | nil => simp [hpc] at h
    | cons s rest =>
      simp only [hpc, Option.some.injEq, Prod.mk.injEq] at h
      obtain ⟨rfl, rfl⟩ := h
      have hs : isAdd s = true := hwf s (by simp [hpc])
      cases s with
      | load _ _ => simp [isAdd] at hs
      | swap0 _ _ => simp [isAdd] at hs
      | add f0 a =>
        refine ⟨?_, rfl, rfl, ?_, ?_⟩
        · intro x hx; exact hwf x (by simp [hpc]; exact Or.inr (by simpa [exec] using hx))
        · intro t ht
          simp only [exec, Store.upd]
          funext
          simp [ht]
        · intro t f
          simp only [Conserved, Thread.got, Thread.pend, exec, hpc, pendPc, Store.upd_get]
          by_cases ht : c.v.t = t
          · subst ht
            by_cases hf : f0 = f
            · subst hf; simp only [and_self, if_true, M]
              generalize (sh.ctr c.v.t).get f0 = C
              generalize pendPc f0 rest = P
              exact ⟨by arith, by arith⟩
            · have hf' : ¬ f = f0 := fun e => hf e.symm
              simp only [hf, hf', and_false, if_false, if_true, M]; exact ⟨by arith, by arith⟩
          · have ht' : ¬ t = c.v.t := fun e => ht e.symm
            simp only [ht, ht', false_and, if_false, M]; exact ⟨by arith, by arith⟩

theorem conserved_of_eq {t : Target} {f : Field} {sh sh' : Shared} {th th' : Thread}
    (h1 : th'.got t f = th.got t f) (h2 : (sh'.ctr t).get f = (sh.ctr t).get f) (h3 : th'.pend t f = th.pend t f) :
    Conserved t f sh sh' th th' := by
  simp [Conserved, h1, h2, h3]

theorem resetOK_nil (lit : Counters) : ResetOK lit [] := ⟨by simp, List.nodup_nil⟩

theorem snap_step_ok (g : GenOK) (order : List String) (sh sh' : Shared) (s s' : SnapTh)
    (hwf : (Thread.snap s).WF) (h : s.step order sh = some (sh', s')) :
    (Thread.snap s').WF ∧ s'.reset = s.reset ∧ ∀ t f, Conserved t f sh sh' (.snap s) (.snap s') := by
  obtain ⟨hprog, hidle⟩ := hwf
  unfold SnapTh.step at h
  cases hpc : s.v.pc with
  | cons x rest =>
    simp only [hpc, Option.some.injEq, Prod.mk.injEq] at h
    obtain ⟨rfl, rfl⟩ := h
    have hnotidle : ¬ s.idlePhase := by
      intro hi; have := (hidle hi).2; simp [hpc] at this
    cases hr : s.reset with
    | false =>
      simp only [hr, hpc] at hprog
      have hx : isLoad x = true := hprog x (by simp)
      cases x with
      | add _ _ => simp [isLoad] at hx
      | swap0 _ _ => simp [isLoad] at hx
      | load f0 o =>
        refine ⟨⟨?_, ?_⟩, rfl, ?_⟩
        · simp only [exec]
          intro y hy; exact hprog y (by simp [hy])
        · intro hi; exact absurd hi (by simpa [SnapTh.idlePhase, exec] using hnotidle)
        · intro t f; apply conserved_of_eq <;> simp [Thread.got, Thread.pend, hr, exec]
    | true =>
      simp only [hr, hpc, if_true] at hprog
      have hx : swapSame s.v.lit x = true := hprog.1 x (by simp)
      cases x with
      | add _ _ => simp [swapSame] at hx
      | load _ _ => simp [swapSame] at hx
      | swap0 f0 o =>
        obtain ⟨hof, hz, hrest⟩ := resetOK_tail ((sh.ctr s.v.t).get f0) hprog
        subst hof
        refine ⟨⟨?_, ?_⟩, rfl, ?_⟩
        · simpa [hr, exec] using hrest
        · intro hi; exact absurd hi (by simpa [SnapTh.idlePhase, exec] using hnotidle)
        · intro t f
          simp only [Conserved, Thread.got, Thread.pend, hr, exec, if_true, Store.upd_get, Counters.get_set]
          by_cases ht : s.v.t = t
          · subst ht
            by_cases hf : f = o
            · subst hf; simp only [and_self, if_true, hz, M]; exact ⟨by arith, by arith⟩
            · simp only [hf, and_false, if_false, if_true, M]; exact ⟨by arith, by arith⟩
          · have ht' : ¬ t = s.v.t := fun e => ht e.symm
            simp only [ht, ht', false_and, if_false, M]; exact ⟨by arith, by arith⟩
  | nil =>
    simp only [hpc] at h
    cases hph : s.phase with
    | anon =>
      simp only [hph, Option.some.injEq, Prod.mk.injEq] at h
      obtain ⟨rfl, rfl⟩ := h
      refine ⟨⟨?_, ?_⟩, rfl, ?_⟩
      · cases hr : s.reset <;> simp [Visit.idle, resetOK_nil]
      · intro _; simp [Visit.idle]
      · intro t f; apply conserved_of_eq
        · cases hr : s.reset <;> simp [Thread.got, hr, sumDone_append, sumDone, Visit.idle] <;> (by_cases h : Target.anon = t <;> simp [h])
        · rfl
        · rfl
    | lockWait =>
      simp only [hph, Option.some.injEq, Prod.mk.injEq] at h
      obtain ⟨rfl, rfl⟩ := h
      have hi : s.idlePhase := by simp [SnapTh.idlePhase, hph]
      refine ⟨⟨hprog, fun _ => hidle hi⟩, rfl, ?_⟩
      intro t f; apply conserved_of_eq <;> rfl
    | users todo =>
      have hi : s.idlePhase := by simp [SnapTh.idlePhase, hph]
      obtain ⟨hz, _⟩ := hidle hi
      cases todo with
      | nil =>
        simp only [hph, Option.some.injEq, Prod.mk.injEq] at h
        obtain ⟨rfl, rfl⟩ := h
        refine ⟨⟨hprog, fun _ => hidle hi⟩, rfl, ?_⟩
        intro t f; apply conserved_of_eq <;> rfl
      | cons u todo =>
        simp only [hph, Option.some.injEq, Prod.mk.injEq] at h
        obtain ⟨rfl, rfl⟩ := h
        refine ⟨⟨?_, ?_⟩, rfl, ?_⟩
        · cases hr : s.reset
          · simpa [hr] using g.load_user
          · simpa [hr] using g.reset_user
        · intro hi'; simp [SnapTh.idlePhase] at hi'
        · intro t f; apply conserved_of_eq
          · cases hr : s.reset <;> simp [Thread.got, hr, hz]
          · rfl
          · rfl
    | visiting u todo =>
      simp only [hph, Option.some.injEq, Prod.mk.injEq] at h
      obtain ⟨rfl, rfl⟩ := h
      refine ⟨⟨?_, ?_⟩, rfl, ?_⟩
      · cases hr : s.reset <;> simp [Visit.idle, resetOK_nil]
      · intro _; simp [Visit.idle]
      · intro t f; apply conserved_of_eq
        · cases hr : s.reset <;> simp [Thread.got, hr, sumDone_append, sumDone, Visit.idle] <;> (by_cases h : Target.anon = t <;> simp [h])
        · rfl
        · rfl
    | finished => simp [hph] at h

end SSV.Stats
