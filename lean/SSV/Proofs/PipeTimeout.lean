import SSV.Proofs.PipeLive
/-
C15 — a timeout result is only ever produced by a deadline alternative / deadline pre-check whose cancel
channel is closed.
-/
namespace SSV.Pipe

theorem closeErr_ne_timeout (k : RKind) (e : Err) : k.closeErr e ≠ .timeout := by
  cases k <;> cases e <;> simp [RKind.closeErr, writeToCloseErr, Err.toR]

theorem writeCloseErr_ne_timeout (e : Err) : writeCloseErr e ≠ .timeout := by
  cases e <;> simp [writeCloseErr, Err.toR]

/-- is `p` a returned call with a timeout error? -/
def PC.isTimeout : PC → Bool
  | .rRet _ .timeout => true
  | .wRet _ .timeout _ => true
  | _ => false

theorem withErr_timeout {s : State} {i : Nat} {f : Err → State}
    (hp : (withErr s f).panicked = false) (ht : ((withErr s f).thr i).isTimeout = true)
    (hf : ∀ e, ((f e).thr i).isTimeout = false) : False := by
  unfold withErr at hp ht
  cases he : s.err with
  | none => simp [he, State.panic] at hp
  | some e => simp [he, hf e] at ht

theorem timeout_only_if_expired_aux {s s' : State} (i : Nat) (hs : s' ∈ localSteps s i)
    (ht : (s'.thr i).isTimeout = true) (hp : s'.panicked = false) :
    match s.thr i with
    | .rSel _ _ g => s.rdl.chanClosed g = true
    | .rChk2 .. => s.rdl.closed = true
    | .wSel _ _ _ g => s.wdl.chanClosed g = true
    | .wChk2 .. => s.wdl.closed = true
    | _ => False := by
  unfold localSteps at hs
  split at hs <;> rename_i hpc <;> simp only [hpc]
  case h_1 k acc => -- rChk1
    split at hs <;> simp at hs <;> subst hs
    · exact withErr_timeout hp ht (by intro e; have := closeErr_ne_timeout k e; simp [State.setT, PC.isTimeout]; split <;> simp_all)
    · simp [State.setT, PC.isTimeout] at ht
  case h_2 k acc => -- rChk2
    split at hs <;> simp at hs <;> subst hs
    · assumption
    · simp [State.setT, PC.isTimeout] at ht
  case h_3 => simp at hs; subst hs; simp [State.setT, PC.isTimeout] at ht
  case h_4 k acc g => -- rSel
    rcases mem_selSteps hs with h | h <;> split at h <;> simp at h
    · subst h
      exact (withErr_timeout hp ht (by intro e; have := closeErr_ne_timeout k e; simp [State.setT, PC.isTimeout]; split <;> simp_all)).elim
    · assumption
  case h_5 b => -- wChk1
    split at hs <;> simp at hs <;> subst hs
    · exact withErr_timeout hp ht (by intro e; have := writeCloseErr_ne_timeout e; simp [State.setT, PC.isTimeout]; split <;> simp_all)
    · simp [State.setT, PC.isTimeout] at ht
  case h_6 b => -- wChk2
    split at hs <;> simp at hs <;> subst hs
    · assumption
    · simp [State.setT, PC.isTimeout] at ht
  case h_7 b => -- wLock
    split at hs <;> simp at hs; subst hs; simp [State.setT, PC.isTimeout] at ht
  case h_8 => simp at hs; subst hs; simp [State.setT, PC.isTimeout] at ht
  case h_9 b n ci g => -- wSel
    rcases mem_selSteps hs with h | h <;> split at h <;> simp at h
    · subst h
      exact (withErr_timeout hp ht (by intro e; have := writeCloseErr_ne_timeout e; simp [State.setT, PC.isTimeout]; split <;> simp_all)).elim
    · assumption
  case h_10 => simp at hs; subst hs; simp [State.setT, PC.isTimeout] at ht
  case h_11 => simp at hs; subst hs; simp [State.setT, PC.isTimeout] at ht
  case h_12 w k => -- dChk
    split at hs <;> simp at hs <;> subst hs
    · exact withErr_timeout hp ht (by intro e; (repeat' split) <;> simp [State.setT, PC.isTimeout])
    · simp [State.setT, PC.isTimeout] at ht
  case h_13 w k => simp at hs; subst hs; cases w <;> simp [State.setT, PC.isTimeout] at ht
  case h_14 => simp at hs

end SSV.Pipe
