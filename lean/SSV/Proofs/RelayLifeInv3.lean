import SSV.Proofs.RelayLifeInv3a
import SSV.Proofs.RelayLifeInv3b
import SSV.Proofs.RelayLifeInv3c
/- C12 helper lemmas, part 3: the Stop invariants hold in every reachable state. -/
namespace SSV.RelayLife
variable (cfg : Cfg)

theorem inv3a_reachable {s : State} (h : Reachable cfg s) : Inv3a s := by
  induction h with
  | init => exact inv3a_initial
  | step e _ hs ih => exact inv3a_step cfg _ _ e ih hs

theorem inv3b_reachable {s : State} (h : Reachable cfg s) : Inv3b cfg s := by
  induction h with
  | init => exact inv3b_initial cfg
  | step e hr hs ih => exact inv3b_step cfg _ _ e (inv1_reachable cfg hr) (inv3a_reachable cfg hr) (inv3d_reachable cfg hr) ih hs

theorem inv3c_reachable {s : State} (h : Reachable cfg s) : Inv3c s := by
  induction h with
  | init => exact inv3c_initial
  | step e hr hs ih => exact inv3c_step cfg _ _ e (inv3a_reachable cfg hr) ih hs

end SSV.RelayLife
