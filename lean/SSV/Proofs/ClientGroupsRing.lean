import SSV.Model.ClientGroups
/-
Helper lemmas for C19, probe part 1: a ring of K slots written at `count % K` holds, after any
number of writes, a rotation of the last K values written (preceded by the initial zeros while
fewer than K values were written); sums and maxima do not see the rotation nor the zeros.
-/
namespace SSV.ClientGroups

/-- the last `K` entries of a list: the retained history -/
def lastN {α : Type} (K : Nat) (l : List α) : List α := l.drop (l.length - K)

theorem lastN_length_le {α : Type} (K : Nat) (l : List α) : (lastN K l).length ≤ K := by
  unfold lastN
  rw [List.length_drop]
  omega

theorem lastN_length {α : Type} (K : Nat) (l : List α) (h : K ≤ l.length) : (lastN K l).length = K := by
  unfold lastN
  rw [List.length_drop]
  omega

theorem lastN_of_short {α : Type} (K : Nat) (l : List α) (h : l.length ≤ K) : lastN K l = l := by
  unfold lastN
  have : l.length - K = 0 := by omega
  rw [this, List.drop_zero]

theorem lastN_cons {α : Type} (K : Nat) (a : α) (l : List α) (h : K ≤ l.length) : lastN K (a :: l) = lastN K l := by
  unfold lastN
  have : (a :: l).length - K = (l.length - K) + 1 := by simp; omega
  rw [this, List.drop_succ_cons]

theorem mem_lastN {α : Type} (K : Nat) (l : List α) (x : α) (h : x ∈ lastN K l) : x ∈ l :=
  List.mem_of_mem_drop h

/-- the ring as the code lays it out: the window `W` (oldest first) rotated so that the next write
    (slot `c % K`) falls on the oldest entry -/
def rot (K : Nat) (W : List Nat) (c : Nat) : List Nat := W.drop (K - c % K) ++ W.take (K - c % K)

theorem rot_congr (K : Nat) (W : List Nat) (c c' : Nat) (h : c % K = c' % K) : rot K W c = rot K W c' := by
  unfold rot
  rw [h]

theorem rot_zero (K : Nat) (W : List Nat) (h : W.length = K) (_hK : 0 < K) : rot K W 0 = W := by
  unfold rot
  simp [Nat.zero_mod, ← h]

theorem rot_perm (K : Nat) (W : List Nat) (c : Nat) : (rot K W c).Perm W := by
  unfold rot
  exact List.perm_append_comm.trans (by rw [List.take_append_drop])

theorem rot_length (K : Nat) (W : List Nat) (c : Nat) : (rot K W c).length = W.length :=
  (rot_perm K W c).length_eq

theorem rot_sum (K : Nat) (W : List Nat) (c : Nat) : (rot K W c).sum = W.sum := by
  unfold rot
  rw [List.sum_append, Nat.add_comm, ← List.sum_append, List.take_append_drop]

theorem foldl_max (l : List Nat) : ∀ a : Nat, l.foldl max a = max a (l.foldl max 0) := by
  induction l with
  | nil => intro a; simp
  | cons x r ih =>
    intro a
    simp only [List.foldl_cons]
    rw [ih (max a x), ih (max 0 x)]
    omega

theorem maxOf_append (a b : List Nat) : maxOf (a ++ b) = max (maxOf a) (maxOf b) := by
  unfold maxOf
  rw [List.foldl_append, foldl_max]

theorem maxOf_cons (x : Nat) (l : List Nat) : maxOf (x :: l) = max x (maxOf l) := by
  unfold maxOf
  simp only [List.foldl_cons]
  rw [foldl_max]
  omega

theorem rot_maxOf (K : Nat) (W : List Nat) (c : Nat) : maxOf (rot K W c) = maxOf W := by
  unfold rot
  rw [maxOf_append, Nat.max_comm, ← maxOf_append, List.take_append_drop]

theorem maxOf_replicate_zero (k : Nat) : maxOf (List.replicate k 0) = 0 := by
  induction k with
  | zero => rfl
  | succ k ih => rw [List.replicate_succ, maxOf_cons, ih]; rfl

theorem sum_replicate_zero (k : Nat) : (List.replicate k 0).sum = 0 := by
  induction k with
  | zero => rfl
  | succ k ih => rw [List.replicate_succ, List.sum_cons, ih]

theorem maxOf_le (l : List Nat) (t : Nat) (h : ∀ x ∈ l, x ≤ t) : maxOf l ≤ t := by
  induction l with
  | nil => simp [maxOf]
  | cons x r ih =>
    rw [maxOf_cons]
    have h1 := h x (by simp)
    have h2 := ih (fun y hy => h y (by simp [hy]))
    omega

theorem sum_le (l : List Nat) (t : Nat) (h : ∀ x ∈ l, x ≤ t) : l.sum ≤ l.length * t := by
  induction l with
  | nil => simp
  | cons x r ih =>
    rw [List.sum_cons, List.length_cons, Nat.succ_mul]
    have h1 := h x (by simp)
    have h2 := ih (fun y hy => h y (by simp [hy]))
    omega

/-- how `(c+1) % K` follows `c % K` -/
theorem succ_mod_cases (c K : Nat) (hK : 0 < K) :
    (c % K + 1 < K ∧ (c + 1) % K = c % K + 1) ∨ (c % K + 1 = K ∧ (c + 1) % K = 0) := by
  have hlt := Nat.mod_lt c hK
  have hdm := Nat.div_add_mod c K
  by_cases h : c % K + 1 < K
  · left
    refine ⟨h, ?_⟩
    have : c + 1 = K * (c / K) + (c % K + 1) := by omega
    rw [this, Nat.mul_add_mod, Nat.mod_eq_of_lt h]
  · right
    have h' : c % K + 1 = K := by omega
    refine ⟨h', ?_⟩
    have : c + 1 = K * (c / K + 1) := by rw [Nat.mul_add, Nat.mul_one]; omega
    rw [this, Nat.mul_mod_right]

/-- one write: the slot `c % K` of the rotated window holds its oldest entry, which is replaced -/
theorem rot_set (K : Nat) (W : List Nat) (c v : Nat) (hW : W.length = K) (hK : 0 < K) :
    (rot K W c).set (c % K) v = rot K (W.tail ++ [v]) (c + 1) := by
  have hlt := Nat.mod_lt c hK
  cases W with
  | nil => simp at hW; omega
  | cons h T =>
    have hT : T.length = K - 1 := by simp at hW; omega
    unfold rot
    rw [List.set_append]
    have hlen : (List.drop (K - c % K) (h :: T)).length = c % K := by
      rw [List.length_drop]; simp; omega
    rw [hlen]
    simp only [Nat.lt_irrefl, if_false, Nat.sub_self, List.tail_cons]
    rcases succ_mod_cases c K hK with ⟨h1, h2⟩ | ⟨h1, h2⟩
    · rw [h2]
      have e1 : K - c % K = (K - (c % K + 1)) + 1 := by omega
      rw [e1, List.drop_succ_cons, List.take_succ_cons, List.set_cons_zero]
      rw [List.drop_append, List.take_append, hT]
      have e2 : K - (c % K + 1) - (K - 1) = 0 := by omega
      rw [e2]
      simp
    · rw [h2]
      have e1 : K - c % K = 0 + 1 := by omega
      rw [e1, List.drop_succ_cons, List.take_succ_cons, List.set_cons_zero]
      simp only [List.drop_zero, List.take_zero, Nat.sub_zero]
      have e3 : (T ++ [v]).length = K := by simp; omega
      rw [← e3, List.drop_length, List.take_length]
      simp

/-- the writes of one client's jobs, round after round (`c` is `probeCount`, stepping as a `uint`) -/
def ringRun (K : Nat) : List Nat → Nat → List Nat → List Nat
  | ring, _, [] => ring
  | ring, c, v :: vs => ringRun K (ring.set (c % K) v) (countSucc c) vs

def countIter : Nat → Nat → Nat
  | 0, c => c
  | k + 1, c => countIter k (countSucc c)

theorem countSucc_mod (K c : Nat) (hdiv : K ∣ 2 ^ 64) : countSucc c % K = (c + 1) % K := by
  unfold countSucc uintWord
  exact Nat.mod_mod_of_dvd _ hdiv

theorem add_mod_congr (K a b l : Nat) (h : a % K = b % K) : (a + l) % K = (b + l) % K := by
  rw [Nat.add_mod, h, ← Nat.add_mod]

theorem countIter_mod (K : Nat) (hdiv : K ∣ 2 ^ 64) : ∀ (k c : Nat), countIter k c % K = (c + k) % K
  | 0, c => by simp [countIter]
  | k + 1, c => by
    rw [countIter, countIter_mod K hdiv k (countSucc c)]
    have := add_mod_congr K (countSucc c) (c + 1) k (countSucc_mod K c hdiv)
    rw [this]
    congr 1
    omega

theorem ringRun_rot (K : Nat) (hK : 0 < K) (hdiv : K ∣ 2 ^ 64) :
    ∀ (vs W : List Nat) (c : Nat), W.length = K →
      ringRun K (rot K W c) c vs = rot K (lastN K (W ++ vs)) (c + vs.length)
  | [], W, c, hW => by
    simp only [ringRun, List.append_nil, List.length_nil, Nat.add_zero]
    rw [lastN_of_short K W (by omega)]
  | v :: vs, W, c, hW => by
    simp only [ringRun]
    rw [rot_set K W c v hW hK]
    have hW' : (W.tail ++ [v]).length = K := by
      cases W with
      | nil => simp at hW; omega
      | cons h T => simp at hW ⊢; omega
    rw [rot_congr K _ (c + 1) (countSucc c) (countSucc_mod K c hdiv).symm]
    rw [ringRun_rot K hK hdiv vs _ (countSucc c) hW']
    have hmod : (countSucc c + vs.length) % K = (c + (v :: vs).length) % K := by
      have := add_mod_congr K (countSucc c) (c + 1) vs.length (countSucc_mod K c hdiv)
      rw [this]
      congr 1
      simp; omega
    rw [rot_congr K _ _ _ hmod]
    congr 1
    cases W with
    | nil => simp at hW; omega
    | cons h T =>
      have hT : T.length + 1 = K := by simpa using hW
      simp only [List.tail_cons, List.cons_append, List.append_assoc, List.nil_append]
      symm
      apply lastN_cons
      simp only [List.length_append, List.length_cons]
      omega

/-- padding the history with the initial zeros changes neither the sum nor the maximum of the retained part -/
theorem lastN_pad (K : Nat) (vs : List Nat) :
    lastN K (List.replicate K 0 ++ vs) = List.replicate (K - vs.length) 0 ++ lastN K vs := by
  unfold lastN
  simp only [List.length_append, List.length_replicate]
  have e : K + vs.length - K = vs.length := by omega
  rw [e, List.drop_append, List.drop_replicate, List.length_replicate]

theorem lastN_pad_sum (K : Nat) (vs : List Nat) : (lastN K (List.replicate K 0 ++ vs)).sum = (lastN K vs).sum := by
  rw [lastN_pad, List.sum_append, sum_replicate_zero, Nat.zero_add]

theorem lastN_pad_maxOf (K : Nat) (vs : List Nat) : maxOf (lastN K (List.replicate K 0 ++ vs)) = maxOf (lastN K vs) := by
  rw [lastN_pad, maxOf_append, maxOf_replicate_zero, Nat.zero_max]

/-- the ring of a client after its jobs wrote `vs` (one value per round) into the initial all-zero ring -/
theorem ringRun_init (K : Nat) (hK : 0 < K) (hdiv : K ∣ 2 ^ 64) (vs : List Nat) :
    ringRun K (List.replicate K 0) 0 vs = rot K (lastN K (List.replicate K 0 ++ vs)) vs.length := by
  have h := ringRun_rot K hK hdiv vs (List.replicate K 0) 0 (by simp)
  rw [rot_zero K _ (by simp) hK, Nat.zero_add] at h
  exact h

theorem ringRun_init_sum (K : Nat) (hK : 0 < K) (hdiv : K ∣ 2 ^ 64) (vs : List Nat) :
    (ringRun K (List.replicate K 0) 0 vs).sum = (lastN K vs).sum := by
  rw [ringRun_init K hK hdiv, rot_sum, lastN_pad_sum]

theorem ringRun_init_maxOf (K : Nat) (hK : 0 < K) (hdiv : K ∣ 2 ^ 64) (vs : List Nat) :
    maxOf (ringRun K (List.replicate K 0) 0 vs) = maxOf (lastN K vs) := by
  rw [ringRun_init K hK hdiv, rot_maxOf, lastN_pad_maxOf]

theorem ringRun_init_length (K : Nat) (hK : 0 < K) (hdiv : K ∣ 2 ^ 64) (vs : List Nat) :
    (ringRun K (List.replicate K 0) 0 vs).length = K := by
  rw [ringRun_init K hK hdiv, rot_length, lastN_length]
  simp

end SSV.ClientGroups
