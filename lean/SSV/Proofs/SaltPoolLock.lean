import SSV.Proofs.SaltPool
/-
Helper lemmas for C03, part 5: the body of `Add` executed statement by statement under the mutex is
linearizable — every interleaving yields the results and the pool of running the atomic `add` once per call,
in the order in which the calls return.
-/
set_option linter.unusedSimpArgs false
namespace SSV.SaltPool

theorem seqAdds_snoc (P : Params) (p : Pool) (cs : List ACall) (c : ACall) :
    seqAdds P p (cs ++ [c]) =
      ((add P c.now c.salt (seqAdds P p cs).1).1, (seqAdds P p cs).2 ++ [(add P c.now c.salt (seqAdds P p cs).1).2]) := by
  induction cs generalizing p with
  | nil => simp [seqAdds]
  | cons d cs ih => simp [seqAdds, ih]

def Idle (t : AThread) : Prop := t.pc = 0 ∧ t.deferred = false ∧ t.result = none
def Quiet (t : AThread) : Prop := Idle t ∨ t.result.isSome = true

def InCS (P : Params) (t : AThread) (pool abs : Pool) : Prop :=
  t.result = none ∧
  ((t.pc = 1 ∧ t.deferred = false ∧ pool = abs) ∨
   (t.pc = 2 ∧ t.deferred = true ∧ pool = abs) ∨
   (t.pc = 3 ∧ t.deferred = true ∧ pool = pruneExpired t.call.now abs) ∨
   (t.pc = 4 ∧ t.deferred = true ∧ pool = pruneExpired t.call.now abs ∧ contains pool t.call.salt = false) ∨
   (t.pc = 5 ∧ t.deferred = true ∧ pool = insert P t.call.now t.call.salt (pruneExpired t.call.now abs) ∧
      contains (pruneExpired t.call.now abs) t.call.salt = false))

def Rel (P : Params) (s : MState) (abs : Pool) : Prop :=
  (∀ (j : Nat) (t : AThread), s.threads[j]? = some t → some j ≠ s.holder → Quiet t) ∧
  match s.holder with
  | none => s.pool = abs
  | some h => ∃ t, s.threads[h]? = some t ∧ InCS P t s.pool abs

def MInv (P : Params) (p₀ : Pool) (s : MState) : Prop :=
  ∃ abs, seqAdds P p₀ (s.hist.map (·.1)) = (abs, s.hist.map (·.2)) ∧ Rel P s abs

theorem quiet_set {ts : List AThread} {i : Nat} {x : AThread} {h : Option Nat} (hx : some i ≠ h → Quiet x)
    (hq : ∀ (j : Nat) (t : AThread), ts[j]? = some t → j ≠ i → some j ≠ h → Quiet t) :
    ∀ (j : Nat) (t : AThread), (ts.set i x)[j]? = some t → some j ≠ h → Quiet t := by
  intro j t hj hne
  rw [List.getElem?_set] at hj
  split at hj
  · rename_i hij
    subst hij
    split at hj
    · cases hj; exact hx hne
    · cases hj
  · rename_i hij
    exact hq j t hj (fun h => hij h.symm) hne

theorem get_set_self {ts : List AThread} {i : Nat} {t x : AThread} (h : ts[i]? = some t) : (ts.set i x)[i]? = some x := by
  have hlt : i < ts.length := by
    rcases Nat.lt_or_ge i ts.length with h' | h'
    · exact h'
    · rw [List.getElem?_eq_none h'] at h; cases h
  rw [List.getElem?_set]; simp [hlt]

theorem minv_step {P : Params} {p₀ : Pool} {s : MState} (i : Nat) (hinv : MInv P p₀ s) :
    MInv P p₀ (microStep P canonAdd s i) := by
  unfold microStep
  cases hti : s.threads[i]? with
  | none => exact hinv
  | some t =>
    simp only
    cases hdone : t.result.isSome with
    | true => simpa using hinv
    | false =>
    simp only [Bool.false_eq_true, if_false]
    obtain ⟨abs, hseq, hq, hrel⟩ := hinv
    have hres : t.result = none := by cases h : t.result <;> simp [h] at hdone ⊢
    cases hh : s.holder with
    | none =>
      rw [hh] at hrel hq
      have hidle : Idle t := by
        rcases hq i t hti (by simp) with h | h
        · exact h
        · rw [hdone] at h; cases h
      obtain ⟨hpc, hdef, _⟩ := hidle
      simp only [hpc, canonAdd, List.getElem?_cons_zero, hh, Option.isNone_none, if_true, madv]
      refine ⟨abs, hseq, ?_, ?_⟩
      · exact quiet_set (fun hne => absurd rfl hne) (fun j t' hj _ _ => hq j t' hj (by simp))
      · exact ⟨_, get_set_self hti, hres, Or.inl ⟨by simp [hpc], hdef, hrel⟩⟩
    | some h =>
      rw [hh] at hrel hq
      by_cases hih : i = h
      · subst hih
        obtain ⟨t0, ht0, hres0, hcs⟩ := hrel
        rw [hti] at ht0; cases ht0
        rcases hcs with ⟨hpc, hdef, hpool⟩ | ⟨hpc, hdef, hpool⟩ | ⟨hpc, hdef, hpool⟩ | ⟨hpc, hdef, hpool, hnc⟩ | ⟨hpc, hdef, hpool, hnc⟩
        · -- defer Unlock
          simp only [hpc, canonAdd, List.getElem?_cons_succ, List.getElem?_cons_zero, madv]
          refine ⟨abs, hseq, ?_, ?_⟩
          · (try rw [hh]); exact quiet_set (fun hne => absurd rfl hne) (fun j t' hj _ hne => hq j t' hj hne)
          · (try simp only [hh]); exact ⟨_, get_set_self hti, hres, Or.inr (Or.inl ⟨by simp [hpc], rfl, hpool⟩)⟩
        · -- prune
          simp only [hpc, canonAdd, List.getElem?_cons_succ, List.getElem?_cons_zero, madv]
          refine ⟨abs, hseq, ?_, ?_⟩
          · (try rw [hh]); exact quiet_set (fun hne => absurd rfl hne) (fun j t' hj _ hne => hq j t' hj hne)
          · (try simp only [hh])
            exact ⟨_, get_set_self hti, hres, Or.inr (Or.inr (Or.inl ⟨by simp [hpc], hdef, by rw [hpool]⟩))⟩
        · -- lookup
          simp only [hpc, canonAdd, List.getElem?_cons_succ, List.getElem?_cons_zero]
          cases hc : contains s.pool t.call.salt with
          | true =>
            simp only [if_true, mret, hdef, hh, beq_self_eq_true, Bool.and_self]
            have hc' : contains (pruneExpired t.call.now abs) t.call.salt = true := by rw [← hpool]; exact hc
            have hadd : add P t.call.now t.call.salt abs = (pruneExpired t.call.now abs, false) := by simp [add, hc']
            refine ⟨pruneExpired t.call.now abs, ?_, ?_, ?_⟩
            · simp only [List.map_append, List.map_cons, List.map_nil]
              rw [seqAdds_snoc, hseq, hadd]
            · exact quiet_set (fun _ => Or.inr rfl) (fun j t' hj hji _ => hq j t' hj (by simpa using hji))
            · exact hpool
          | false =>
            simp only [Bool.false_eq_true, if_false, madv]
            refine ⟨abs, hseq, ?_, ?_⟩
            · (try rw [hh]); exact quiet_set (fun hne => absurd rfl hne) (fun j t' hj _ hne => hq j t' hj hne)
            · (try simp only [hh])
              exact ⟨_, get_set_self hti, hres, Or.inr (Or.inr (Or.inr (Or.inl ⟨by simp [hpc], hdef, hpool, hc⟩)))⟩
        · -- insert
          simp only [hpc, canonAdd, List.getElem?_cons_succ, List.getElem?_cons_zero, madv]
          refine ⟨abs, hseq, ?_, ?_⟩
          · (try rw [hh]); exact quiet_set (fun hne => absurd rfl hne) (fun j t' hj _ hne => hq j t' hj hne)
          · (try simp only [hh])
            refine ⟨_, get_set_self hti, hres, Or.inr (Or.inr (Or.inr (Or.inr ⟨by simp [hpc], hdef, by rw [hpool], ?_⟩)))⟩
            rw [← hpool]; exact hnc
        · -- return true
          simp only [hpc, canonAdd, List.getElem?_cons_succ, List.getElem?_cons_zero, mret, hdef, hh, beq_self_eq_true,
            Bool.and_self, if_true]
          have hadd : add P t.call.now t.call.salt abs =
              (insert P t.call.now t.call.salt (pruneExpired t.call.now abs), true) := by simp [add, hnc]
          refine ⟨insert P t.call.now t.call.salt (pruneExpired t.call.now abs), ?_, ?_, ?_⟩
          · simp only [List.map_append, List.map_cons, List.map_nil]
            rw [seqAdds_snoc, hseq, hadd]
          · exact quiet_set (fun _ => Or.inr rfl) (fun j t' hj hji _ => hq j t' hj (by simpa using hji))
          · exact hpool
      · -- another thread: it is idle (blocked on Lock) — nothing happens
        have hidle : Idle t := by
          rcases hq i t hti (by simpa using hih) with h' | h'
          · exact h'
          · rw [hdone] at h'; cases h'
        obtain ⟨hpc, _, _⟩ := hidle
        simp only [hpc, canonAdd, List.getElem?_cons_zero, hh, Option.isNone_some, Bool.false_eq_true, if_false]
        exact ⟨abs, hseq, by rw [hh]; exact hq, by simp only [hh]; exact hrel⟩


theorem minv_init (P : Params) (p₀ : Pool) (calls : List ACall) : MInv P p₀ (minit p₀ calls) := by
  refine ⟨p₀, rfl, ?_, rfl⟩
  intro j t hj _
  simp only [minit, List.getElem?_map] at hj
  cases hc : calls[j]? with
  | none => simp [hc] at hj
  | some c => simp [hc] at hj; subst hj; exact Or.inl ⟨rfl, rfl, rfl⟩

theorem minv_run {P : Params} {p₀ : Pool} (sched : List Nat) {s : MState} (h : MInv P p₀ s) :
    MInv P p₀ (mrun P canonAdd s sched) := by
  induction sched generalizing s with
  | nil => exact h
  | cons i sched ih => simp only [mrun, List.foldl_cons]; exact ih (minv_step i h)

/-- linearizability of `Add` (canonical body) -/
theorem add_linearizable (P : Params) (p₀ : Pool) (calls : List ACall) (sched : List Nat) :
    let s := mrun P canonAdd (minit p₀ calls) sched
    (seqAdds P p₀ (s.hist.map (·.1))).2 = s.hist.map (·.2) ∧
    (s.holder = none → s.pool = (seqAdds P p₀ (s.hist.map (·.1))).1) := by
  intro s
  obtain ⟨abs, hseq, _, hrel⟩ := minv_run (P := P) sched (minv_init P p₀ calls)
  refine ⟨by rw [hseq], fun hn => ?_⟩
  rw [hn] at hrel
  rw [hseq]; exact hrel

end SSV.SaltPool
