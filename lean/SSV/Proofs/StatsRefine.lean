import SSV.Proofs.StatsLock
import SSV.Model.Stats
/-
C14 — refinement: every statement-level step of `serverCollector.userCollector` under reader/writer-lock
semantics (SSV.Model.StatsLock) is either invisible to, or exactly one step of, the stage machine
`lookup → create → run` that the counter-level model (SSV.Model.Stats, `CollectTh.step`) uses for the
selection of a user collector; the write section runs only while no snapshot holds the read lock.
-/
namespace SSV.StatsLock
open SSV.Gen.C14 SSV.Stats

/-- the thread holds the read lock (fast path of `userCollector`) -/
def inR (th : LThread) : Bool := decide (1 ≤ th.pc) && decide (th.pc ≤ 2)

theorem countP_splitR (pre post : List LThread) (th : LThread) :
    (pre ++ th :: post).countP inR = pre.countP inR + (if inR th then 1 else 0) + post.countP inR := by
  simp only [List.countP_append, List.countP_cons]; omega

/-- lock accounting: the read-lock holders are the snapshots (`ext`) plus the callers in their fast path;
a writer excludes every reader -/
structure RInv (c : LConfig) : Prop where
  r : c.sh.readers = c.sh.ext + c.threads.countP inR
  rw : c.sh.writer = true → c.sh.readers = 0

theorem step_rinv {a b : LConfig} (hs : LStepRel userCollector a b) (hi : Inv a) (hr : RInv a) : RInv b := by
  cases hs with
  | envRLock sh ths hw =>
    obtain ⟨h1, h2⟩ := hr
    simp only at h1 h2
    exact ⟨by simp only; omega, by intro hw'; simp only at hw'; rw [hw] at hw'; simp at hw'⟩
  | envRUnlock sh ths he =>
    obtain ⟨h1, h2⟩ := hr
    simp only at h1 h2
    refine ⟨by simp only; omega, ?_⟩
    intro hw'
    have := h2 hw'
    omega
  | mk pre post th th' sh sh' h =>
    obtain ⟨h1, h2⟩ := hr
    simp only at h1 h2
    rw [countP_splitR] at h1
    have hth : T sh th := hi.t th (by simp)
    have hpc : th.pc = 0 ∨ th.pc = 1 ∨ th.pc = 2 ∨ th.pc = 3 ∨ th.pc = 4 ∨ th.pc = 5 ∨ th.pc = 6 ∨ th.pc = 7 ∨
        th.pc = 8 ∨ th.pc = 9 ∨ th.pc = 10 := by have := hth.1; omega
    -- readers, ext, writer and the thread's read-section membership unchanged
    have fin : sh'.readers = sh.readers → sh'.ext = sh.ext → sh'.writer = sh.writer → inR th' = inR th →
        RInv ⟨sh', pre ++ th' :: post⟩ := by
      intro e1 e2 e3 e4
      refine ⟨?_, ?_⟩
      · simp only; rw [countP_splitR, e1, e2, e4]; exact h1
      · simp only; rw [e3, e1]; exact h2
    rcases hpc with hpc | hpc | hpc | hpc | hpc | hpc | hpc | hpc | hpc | hpc | hpc
    · -- rlock
      simp only [lstep, userCollector, hpc, List.getElem?_cons_zero] at h
      split at h
      · simp at h
      · rename_i hnw
        simp only [Option.some.injEq, Prod.mk.injEq] at h
        obtain ⟨rfl, rfl⟩ := h
        have hin : inR th = false := by simp [inR, hpc]
        rw [hin] at h1
        refine ⟨?_, ?_⟩
        · simp only; rw [countP_splitR]; simp [inR, hpc]; simp at h1; omega
        · intro hw'; simp only at hw'; exact absurd hw' hnw
    · simp [lstep, userCollector, hpc] at h
      obtain ⟨rfl, rfl⟩ := h
      exact fin rfl rfl rfl (by simp [inR, hpc])
    · -- runlock
      simp [lstep, userCollector, hpc] at h
      obtain ⟨rfl, rfl⟩ := h
      have hin : inR th = true := by simp [inR, hpc]
      rw [hin] at h1
      simp only [if_true] at h1
      refine ⟨?_, ?_⟩
      · simp only; rw [countP_splitR]; simp [inR, hpc]; omega
      · intro hw'; simp only at hw'; have := h2 hw'; omega
    · simp [lstep, userCollector, hpc] at h
      obtain ⟨rfl, rfl⟩ := h
      refine fin rfl rfl rfl ?_
      cases huc : th.uc <;> simp [inR, hpc]
    · -- lock
      simp only [lstep, userCollector, hpc, List.getElem?_cons_succ, List.getElem?_cons_zero] at h
      split at h
      · simp at h
      · rename_i hcond
        simp only [Option.some.injEq, Prod.mk.injEq] at h
        obtain ⟨rfl, rfl⟩ := h
        have hr0 : sh.readers = 0 := by
          false_or_by_contra
          rename_i hne
          exact hcond (Or.inr hne)
        refine ⟨?_, ?_⟩
        · simp only; rw [countP_splitR]
          have : inR th = false := by simp [inR, hpc]
          rw [this] at h1
          simp [inR, hpc]; simp at h1; omega
        · intro _; exact hr0
    · simp [lstep, userCollector, hpc] at h
      obtain ⟨rfl, rfl⟩ := h
      exact fin rfl rfl rfl (by simp [inR, hpc])
    · simp [lstep, userCollector, hpc] at h
      obtain ⟨rfl, rfl⟩ := h
      refine fin rfl rfl rfl ?_
      cases huc : th.uc <;> simp [inR, hpc]
    · simp [lstep, userCollector, hpc] at h
      obtain ⟨rfl, rfl⟩ := h
      exact fin rfl rfl rfl (by simp [inR, hpc])
    · simp [lstep, userCollector, hpc] at h
      obtain ⟨rfl, rfl⟩ := h
      exact fin rfl rfl rfl (by simp [inR, hpc])
    · -- unlock
      simp [lstep, userCollector, hpc] at h
      obtain ⟨rfl, rfl⟩ := h
      refine ⟨?_, ?_⟩
      · simp only; rw [countP_splitR]
        have : inR th = false := by simp [inR, hpc]
        rw [this] at h1
        simp [inR, hpc]; simp at h1; omega
      · intro hw'; simp at hw'
    · simp [lstep, userCollector, hpc] at h

theorem linit_rinv (entry : Option Nat) (n : Nat) : RInv (linit entry n) := by
  refine ⟨?_, ?_⟩
  · simp [linit, List.countP_replicate, inR]
  · intro h; simp [linit] at h

theorem reach_both {a b : LConfig} (hr : LReach userCollector a b) (hi : Inv a) (hri : RInv a) : Inv b ∧ RInv b := by
  induction hr with
  | refl => exact ⟨hi, hri⟩
  | tail _ hs ih => exact ⟨step_inv hs ih.1, step_rinv hs ih.1 ih.2⟩

/-! ### abstraction to the counter-level stage machine -/

/-- stage of the counter-level Collect* thread that corresponds to a program point of `userCollector` -/
def absStage (th : LThread) : CStage :=
  if th.pc ≤ 1 then .lookup
  else if th.pc ≤ 3 then (if th.uc.isSome then .run else .create)
  else if th.pc ≤ 8 then .create
  else .run

/-- counter-level shared state seen through the map entry of user `u`: the user collector exists iff the map
holds an entry; `readers` = snapshots holding the read lock -/
def absShared (u : String) (sh : LShared) : Shared :=
  { ctr := fun _ => Counters.zero, names := if sh.entry.isSome then [u] else [], readers := sh.ext }

def absThread (u : String) (v : Visit) (th : LThread) : CollectTh := { u := u, stage := absStage th, v := v }

theorem names_contains (u : String) (e : Option Nat) :
    (if e.isSome then [u] else []).contains u = e.isSome := by
  cases e <;> first | rfl | simp

/-- a thread inside the write section: the write lock is held and no snapshot holds the read lock -/
theorem no_ext_in_write_section {pre post : List LThread} {th : LThread} {sh : LShared}
    (hi : Inv ⟨sh, pre ++ th :: post⟩) (hr : RInv ⟨sh, pre ++ th :: post⟩) (hin : inW th = true) : sh.ext = 0 := by
  have hw := hi.w
  simp only at hw
  rw [countP_split, hin] at hw
  have hwr : sh.writer = true := by
    cases hwv : sh.writer
    · simp [hwv] at hw
    · rfl
  have h0 := hr.rw hwr
  have h1 := hr.r
  simp only at h0 h1
  omega

/-- **Refinement.** One statement of `userCollector`, executed by any caller in any reachable configuration of
the lock-level model, is either invisible at the counter level (shared abstraction and stage unchanged) or is
exactly the step `CollectTh.step` takes from the corresponding stage: the look-up under the read lock is the
`lookup` step, and leaving the checked part of the write section — by finding the entry (`skipIfSet` at 6) or
by storing the new collector (`store`) — is the `create` step, taken while no snapshot holds the read lock. -/
theorem refines (u : String) (v : Visit) (pre post : List LThread) (th th' : LThread) (sh sh' : LShared)
    (h : lstep userCollector sh th = some (sh', th'))
    (hi : Inv ⟨sh, pre ++ th :: post⟩) (hr : RInv ⟨sh, pre ++ th :: post⟩) :
    (absShared u sh' = absShared u sh ∧ absStage th' = absStage th) ∨
    CollectTh.step (absShared u sh) (absThread u v th) = some (absShared u sh', absThread u v th') := by
  have hth : T sh th := hi.t th (by simp)
  have hpc : th.pc = 0 ∨ th.pc = 1 ∨ th.pc = 2 ∨ th.pc = 3 ∨ th.pc = 4 ∨ th.pc = 5 ∨ th.pc = 6 ∨ th.pc = 7 ∨
      th.pc = 8 ∨ th.pc = 9 ∨ th.pc = 10 := by have := hth.1; omega
  rcases hpc with hpc | hpc | hpc | hpc | hpc | hpc | hpc | hpc | hpc | hpc | hpc
  · -- rlock
    simp only [lstep, userCollector, hpc, List.getElem?_cons_zero] at h
    split at h
    · simp at h
    · simp only [Option.some.injEq, Prod.mk.injEq] at h
      obtain ⟨rfl, rfl⟩ := h
      left; simp [absShared, absStage, hpc]
  · -- lookup under the read lock = the counter-level `lookup` step
    simp [lstep, userCollector, hpc] at h
    obtain ⟨rfl, rfl⟩ := h
    right
    simp [CollectTh.step, absThread, absStage, hpc, absShared]
  · simp [lstep, userCollector, hpc] at h
    obtain ⟨rfl, rfl⟩ := h
    left; simp [absShared, absStage, hpc]
  · simp [lstep, userCollector, hpc] at h
    obtain ⟨rfl, rfl⟩ := h
    left
    cases huc : th.uc <;> simp [absStage, hpc, huc]
  · -- lock
    simp only [lstep, userCollector, hpc, List.getElem?_cons_succ, List.getElem?_cons_zero] at h
    split at h
    · simp at h
    · simp only [Option.some.injEq, Prod.mk.injEq] at h
      obtain ⟨rfl, rfl⟩ := h
      left; simp [absShared, absStage, hpc]
  · simp [lstep, userCollector, hpc] at h
    obtain ⟨rfl, rfl⟩ := h
    left; simp [absStage, hpc]
  · -- skipIfSet 2 in the write section
    have hext := no_ext_in_write_section hi hr (by simp [inW, hpc])
    have h6 := hth.2.1 hpc
    simp [lstep, userCollector, hpc] at h
    obtain ⟨rfl, rfl⟩ := h
    cases huc : th.uc with
    | none => left; simp [absStage, hpc]
    | some r =>
      right
      have he : sh.entry = some r := by rw [← h6, huc]
      simp [CollectTh.step, absThread, absStage, hpc, absShared, hext, he]
  · simp [lstep, userCollector, hpc] at h
    obtain ⟨rfl, rfl⟩ := h
    left; simp [absShared, absStage, hpc]
  · -- store = the counter-level `create` step
    have hext := no_ext_in_write_section hi hr (by simp [inW, hpc])
    have h8 := hth.2.2.2.1 hpc
    simp [lstep, userCollector, hpc] at h
    obtain ⟨rfl, rfl⟩ := h
    right
    simp [CollectTh.step, absThread, absStage, hpc, absShared, hext, h8.1, h8.2]
  · simp [lstep, userCollector, hpc] at h
    obtain ⟨rfl, rfl⟩ := h
    left; simp [absShared, absStage, hpc]
  · simp [lstep, userCollector, hpc] at h

/-- snapshots taking / releasing the read lock are the counter-level `readers ± 1` -/
theorem refines_env (u : String) (sh : LShared) :
    (absShared u { sh with readers := sh.readers + 1, ext := sh.ext + 1 }) = { absShared u sh with readers := (absShared u sh).readers + 1 } ∧
    (absShared u { sh with readers := sh.readers - 1, ext := sh.ext - 1 }) = { absShared u sh with readers := (absShared u sh).readers - 1 } := by
  simp [absShared]

end SSV.StatsLock
