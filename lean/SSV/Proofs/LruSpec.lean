import SSV.Model.Lru
/- helper lemmas about `Lru.Spec.find` (association-list lookup) for the C17 spec sanity theorems -/
namespace SSV.Lru
variable {K V : Type} [DecidableEq K]

theorem sfind_none_iff (s : Spec K V) (k : K) : Spec.find s k = none ↔ ∀ p ∈ s, p.1 ≠ k := by
  induction s with
  | nil => simp [Spec.find]
  | cons p rest ih =>
    obtain ⟨k', v⟩ := p
    by_cases h : k' = k
    · simp [Spec.find, h]
    · simp [Spec.find, h, ih]

theorem sfind_append (a b : Spec K V) (k : K) :
    Spec.find (a ++ b) k = match Spec.find a k with | some v => some v | none => Spec.find b k := by
  induction a with
  | nil => simp [Spec.find]
  | cons p rest ih =>
    obtain ⟨k', v⟩ := p
    by_cases h : k' = k
    · simp [Spec.find, h]
    · simp [Spec.find, h, ih]

theorem sfind_erase_self (s : Spec K V) (k : K) : Spec.find (Spec.erase s k) k = none := by
  rw [sfind_none_iff]; intro p hp; simp [Spec.erase] at hp; exact hp.2

theorem sfind_erase_other (s : Spec K V) (k k' : K) (h : k' ≠ k) : Spec.find (Spec.erase s k) k' = Spec.find s k' := by
  induction s with
  | nil => simp [Spec.erase, Spec.find]
  | cons p rest ih =>
    obtain ⟨k0, v⟩ := p
    have ih' := ih
    simp [Spec.erase] at ih' ⊢
    by_cases h0 : k0 = k
    · have : ¬ k0 = k' := by rw [h0]; exact fun e => h e.symm
      simp [h0, List.filter_cons, Spec.find]
      rw [if_neg (by rw [← h0]; exact this)]; exact ih'
    · simp [h0, List.filter_cons, Spec.find, ih']

end SSV.Lru
