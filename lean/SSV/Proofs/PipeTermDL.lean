import SSV.Proofs.PipeTerm
/-
C15 — once BOTH deadlines of a direction have expired (current cancel channels closed) and no Set*Deadline call
is pending, every run without new calls is finite, whether or not the direction is closed: the analogue of
`run_bounded` for deadlines, with its own measure.
-/
namespace SSV.Pipe

/-- distance from the end of the call when the deadlines have expired -/
def PC.rankE : PC → Nat
  | .idle => 0
  | .rRet .. | .wRet .. | .uRet .. => 1
  | .rChk2 .. => 25
  | .rChk1 .. => 26
  | .rAck .. => 29
  | .rSel .. => 32
  | .rEnter .. => 33
  | .wAwait .. => 2
  | .wSel .. => 3
  | .wEnter .. => 4
  | .wLock .. => 5
  | .wChk2 .. => 6
  | .wChk1 .. => 7
  | .cClose => 2
  | .cStore _ => 3
  | .dSet .. => 0
  | .dChk .. => 0

def msumE : Nat → (Nat → PC) → Nat
  | 0, _ => 0
  | n + 1, f => msumE n f + (f n).rankE

def measureE (N : Nat) (s : State) : Nat := msumE N s.thr

theorem msumE_upd_ge (n i : Nat) (f : Nat → PC) (p : PC) (h : n ≤ i) :
    msumE n (fun k => if k = i then p else f k) = msumE n f := by
  induction n with
  | zero => rfl
  | succ m ih =>
    have hne : m ≠ i := by omega
    simp only [msumE, ih (by omega), hne, if_false]

theorem msumE_upd_lt (n i : Nat) (f : Nat → PC) (p : PC) (h : i < n) :
    msumE n (fun k => if k = i then p else f k) + (f i).rankE = msumE n f + p.rankE := by
  induction n with
  | zero => omega
  | succ m ih =>
    by_cases hm : i = m
    · subst hm
      simp only [msumE, msumE_upd_ge i i f p (Nat.le_refl _), if_true]; omega
    · have hne : m ≠ i := fun e => hm e.symm
      have := ih (by omega)
      simp only [msumE, hne, if_false]; omega

def PC.isSetter : PC → Bool
  | .dChk .. | .dSet .. => true
  | _ => false

/-- both deadlines expired, nobody about to change them -/
structure Expired (s : State) : Prop where
  rd : s.rdl.closed = true
  wd : s.wdl.closed = true
  noSet : ∀ i, (s.thr i).isSetter = false

/-- a step that only changes the pc of thread `i < N` (and fields the measure and `Expired` do not read) to a
pc of smaller rank -/
theorem stepE {N i : Nat} {s s' : State} (p : PC) (hi : i < N) (hb : Bounded N s) (hx : Expired s)
    (ht : s'.thr = fun k => if k = i then p else s.thr k) (hr : s'.rdl = s.rdl) (hw : s'.wdl = s.wdl)
    (hns : p.isSetter = false) (hlt : p.rankE < (s.thr i).rankE) :
    measureE N s' < measureE N s ∧ Bounded N s' ∧ Expired s' := by
  have := msumE_upd_lt N i s.thr p hi
  refine ⟨by simp only [measureE, ht]; omega, bounded_upd p hb hi ht, ⟨by rw [hr]; exact hx.rd, by rw [hw]; exact hx.wd, ?_⟩⟩
  intro k; rw [ht]; simp only []; split
  · exact hns
  · exact hx.noSet k

theorem after_rankE (k : RKind) (acc nr : Nat) (fail : Bool) :
    (k.after acc nr fail).rankE ≤ 26 ∧ (k.after acc nr fail).isSetter = false := by
  cases k with
  | read cap => simp [RKind.after, PC.rankE, PC.isSetter]
  | wt plan ff => cases fail <;> simp [RKind.after, PC.rankE, PC.isSetter]

theorem local_decreasesE {N : Nat} {s s' : State} (h : Inv s) (hx : Expired s) (hb : Bounded N s) (i : Nat)
    (hs : s' ∈ localSteps s i) : measureE N s' < measureE N s ∧ Bounded N s' ∧ Expired s' := by
  have hi : i < N := by
    apply lt_of_idle_ne hb; intro hidle
    rw [localSteps_idle hidle] at hs; simp at hs
  have hw : s.done = true → ∀ f : Err → State, withErr s f = f ((s.err).getD .eof) := by
    intro hd f; obtain ⟨e, he⟩ := err_of_done h hd; simp [withErr, he]
  unfold localSteps at hs
  simp only [if_pos hx.rd, if_pos hx.wd] at hs
  split at hs <;> rename_i hp
  case h_1 k acc =>
    split at hs <;> simp only [List.mem_singleton] at hs <;> subst hs
    · rename_i hd; rw [hw hd]
      exact stepE _ hi hb hx rfl rfl rfl rfl (by simp [hp, PC.rankE])
    · exact stepE _ hi hb hx rfl rfl rfl rfl (by simp [hp, PC.rankE])
  case h_2 k acc =>
    simp only [List.mem_singleton] at hs; subst hs
    exact stepE _ hi hb hx rfl rfl rfl rfl (by simp [hp, PC.rankE])
  case h_3 k acc =>
    simp only [List.mem_singleton] at hs; subst hs
    exact stepE _ hi hb hx rfl rfl rfl rfl (by simp [hp, PC.rankE])
  case h_4 k acc g =>
    rcases mem_selSteps hs with h' | h'
    · split at h'
      case isFalse => simp at h'
      rename_i hd
      simp only [Option.some.injEq] at h'; subst h'; rw [hw hd]
      exact stepE _ hi hb hx rfl rfl rfl rfl (by simp [hp, PC.rankE])
    · split at h'
      case isFalse => simp at h'
      simp only [Option.some.injEq] at h'; subst h'
      exact stepE _ hi hb hx rfl rfl rfl rfl (by simp [hp, PC.rankE])
  case h_5 b =>
    split at hs <;> simp only [List.mem_singleton] at hs <;> subst hs
    · rename_i hd; rw [hw hd]
      exact stepE _ hi hb hx rfl rfl rfl rfl (by simp [hp, PC.rankE])
    · exact stepE _ hi hb hx rfl rfl rfl rfl (by simp [hp, PC.rankE])
  case h_6 b =>
    simp only [List.mem_singleton] at hs; subst hs
    exact stepE _ hi hb hx rfl rfl rfl rfl (by simp [hp, PC.rankE])
  case h_7 b =>
    split at hs
    case isFalse => simp at hs
    simp only [List.mem_singleton] at hs; subst hs
    exact stepE _ hi hb hx rfl rfl rfl rfl (by simp [hp, PC.rankE])
  case h_8 b n ci =>
    simp only [List.mem_singleton] at hs; subst hs
    exact stepE _ hi hb hx rfl rfl rfl rfl (by simp [hp, PC.rankE])
  case h_9 b n ci g =>
    rcases mem_selSteps hs with h' | h'
    · split at h'
      case isFalse => simp at h'
      rename_i hd
      simp only [Option.some.injEq] at h'; subst h'; rw [hw hd]
      exact stepE _ hi hb hx rfl rfl rfl rfl (by simp [hp, PC.rankE])
    · split at h'
      case isFalse => simp at h'
      simp only [Option.some.injEq] at h'; subst h'
      exact stepE _ hi hb hx rfl rfl rfl rfl (by simp [hp, PC.rankE])
  case h_10 e' =>
    simp only [List.mem_singleton] at hs; subst hs
    exact stepE _ hi hb hx rfl rfl rfl rfl (by simp [hp, PC.rankE])
  case h_11 =>
    simp only [List.mem_singleton] at hs; subst hs
    exact stepE _ hi hb hx rfl rfl rfl rfl (by simp [hp, PC.rankE])
  case h_12 w k => have := hx.noSet i; simp [hp, PC.isSetter] at this
  case h_13 w k => have := hx.noSet i; simp [hp, PC.isSetter] at this
  case h_14 => simp at hs


/-- a joint step: the pcs of two different threads `a, b < N` change, total rank decreases -/
theorem stepE2 {N a b : Nat} {s s' : State} (pa pb : PC) (ha : a < N) (hbN : b < N) (hab : a ≠ b)
    (hb : Bounded N s) (hx : Expired s)
    (ht : s'.thr = fun k => if k = a then pa else if k = b then pb else s.thr k)
    (hr : s'.rdl = s.rdl) (hw : s'.wdl = s.wdl) (hna : pa.isSetter = false) (hnb : pb.isSetter = false)
    (hlt : pa.rankE + pb.rankE < (s.thr a).rankE + (s.thr b).rankE) :
    measureE N s' < measureE N s ∧ Bounded N s' ∧ Expired s' := by
  have m1 := msumE_upd_lt N b s.thr pb hbN
  have m2 := msumE_upd_lt N a (fun k => if k = b then pb else s.thr k) pa ha
  simp only [hab, if_false] at m2
  refine ⟨by simp only [measureE, ht]; omega, ?_, ⟨by rw [hr]; exact hx.rd, by rw [hw]; exact hx.wd, ?_⟩⟩
  · intro k hk; rw [ht]
    have h1 : k ≠ a := by omega
    have h2 : k ≠ b := by omega
    simp [h1, h2, hb k hk]
  · intro k; rw [ht]; simp only []; split
    · exact hna
    · split
      · exact hnb
      · exact hx.noSet k

theorem istep_decreasesE {N : Nat} {s s' : State} (h : Inv s) (hx : Expired s) (hb : Bounded N s)
    (st : IStep s s') : measureE N s' < measureE N s ∧ Bounded N s' ∧ Expired s' := by
  cases st with
  | loc i hs => exact local_decreasesE h hx hb i hs
  | finish i hs =>
    unfold finish at hs
    split at hs <;> rename_i hp <;> first
      | (simp at hs; done)
      | (simp only [Option.some.injEq] at hs; subst hs
         have hi : i < N := lt_of_idle_ne hb (by rw [hp]; simp)
         exact stepE _ hi hb hx rfl rfl rfl rfl (by simp [hp, PC.rankE]))
  | fire w hs =>
    -- an armed timer has an open channel: with both channels closed no timer can fire
    unfold fire at hs
    cases w
    · simp only [Bool.false_eq_true, if_false] at hs
      split at hs
      next ha => have := h.rdlOk ha; rw [hx.rd] at this; cases this
      next => simp at hs
    · simp only [if_true] at hs
      split at hs
      next ha => have := h.wdlOk ha; rw [hx.wd] at this; cases this
      next => simp at hs
  | data i j hs =>
    unfold data at hs
    split at hs
    next k acc g b n ci gw hi hj =>
      split at hs
      next =>
        simp only [Option.some.injEq] at hs; subst hs
        have hiN : i < N := lt_of_idle_ne hb (by rw [hi]; simp)
        have hjN : j < N := lt_of_idle_ne hb (by rw [hj]; simp)
        have hij : i ≠ j := by intro e; subst e; rw [hi] at hj; cases hj
        refine stepE2 (a := j) (b := i) _ _ hjN hiN (Ne.symm hij) hb hx rfl rfl rfl rfl rfl ?_
        simp [hi, hj, PC.rankE]
      next => simp at hs
    next => simp at hs
  | count i j hs =>
    unfold count at hs
    split at hs
    next k acc nr fail chunk b n ci hi hj =>
      have hiN : i < N := lt_of_idle_ne hb (by rw [hi]; simp)
      have hjN : j < N := lt_of_idle_ne hb (by rw [hj]; simp)
      have hij : i ≠ j := by intro e; subst e; rw [hi] at hj; cases hj
      obtain ⟨j', hj'⟩ := h.ackHs i (by simp [hi, PC.isAck])
      obtain ⟨i', hi'⟩ := h.awaitHs j (by simp [hj, PC.isAwait])
      have hhs : s.hs = some (i, j) := by
        rw [hj'] at hi'; simp only [Option.some.injEq, Prod.mk.injEq] at hi'
        rw [hj', hi'.2]
      obtain ⟨_, _, _, _, b0, _, _, e1, e2, hle⟩ := h.hsOk i j hhs
      rw [hi] at e1; rw [hj] at e2
      simp only [PC.rAck.injEq] at e1; simp only [PC.wAwait.injEq] at e2
      obtain ⟨_, _, enr, _, _⟩ := e1
      obtain ⟨eb, _, _⟩ := e2
      subst enr; subst eb
      have hnle : ¬ nr > b.length := by omega
      simp only [hnle, if_false, Option.some.injEq] at hs
      obtain ⟨hr, hns⟩ := after_rankE k acc nr fail
      generalize k.after acc nr fail = rpc at hs hr hns
      have r1 : (s.thr i).rankE = 29 := by rw [hi]; rfl
      have r2 : (s.thr j).rankE = 2 := by rw [hj]; rfl
      split at hs
      · subst hs
        refine stepE2 (a := i) (b := j) rpc (.wEnter (b.drop nr) (n + nr) ci) hiN hjN hij hb hx rfl rfl rfl hns rfl ?_
        have : (PC.wEnter (b.drop nr) (n + nr) ci).rankE = 4 := rfl
        omega
      · subst hs
        refine stepE2 (a := i) (b := j) rpc (.wRet (n + nr) .nil (some ci)) hiN hjN hij hb hx rfl rfl rfl hns rfl ?_
        have : (PC.wRet (n + nr) .nil (some ci)).rankE = 1 := rfl
        omega
    next => simp at hs

/-- every run of internal steps from a state with both deadlines expired has at most `measureE N s` steps -/
theorem run_boundedE {N k : Nat} {s s' : State} (run : IRun s k s') (h : Inv s) (hx : Expired s)
    (hb : Bounded N s) : k + measureE N s' ≤ measureE N s ∧ Inv s' ∧ Expired s' ∧ Bounded N s' := by
  induction run with
  | nil => exact ⟨by omega, h, hx, hb⟩
  | cons st _ ih =>
    have d := istep_decreasesE h hx hb st
    have := ih (inv_step h st.toStep) d.2.2 d.2.1
    exact ⟨by omega, this.2⟩

end SSV.Pipe
