import SSV.Proofs.StreamResponse
/-
C01, layer 2, client → server: `DialStream`'s request is parsed back by `HandleStream`
(`request_observed`): SOCKS address codec, variable-length and fixed-length header.
-/
namespace SSV.Stream
open SSV.Gen.C01

theorem ofNat_toNat_lt (n : Nat) (h : n < 256) : (UInt8.ofNat n).toNat = n := by
  rw [UInt8.toNat_ofNat']
  exact Nat.mod_eq_of_lt (by simpa using h)

/-- normal form: what `Addr.norm` returns -/
def Addr.Normal : Addr → Prop
  | .v6 ip _ => is4in6 ip = false
  | _ => True

theorem norm_normal (a : Addr) : a.norm.Normal := by
  cases a with
  | v4 ip p => simp [Addr.norm, Addr.Normal]
  | domain d p => simp [Addr.norm, Addr.Normal]
  | v6 ip p =>
    simp only [Addr.norm]
    split
    · simp [Addr.Normal]
    · rename_i h; simpa [Addr.Normal] using h

theorem norm_valid (a : Addr) (h : a.Valid = true) : a.norm.Valid = true := by
  cases a with
  | v4 ip p => exact h
  | domain d p => exact h
  | v6 ip p =>
    simp only [Addr.norm]
    split
    · simp only [Addr.Valid, Bool.and_eq_true, beq_iff_eq, decide_eq_true_eq] at h ⊢
      exact ⟨by simp [h.1], h.2⟩
    · exact h

theorem norm_of_normal (a : Addr) (h : a.Normal) : a.norm = a := by
  cases a with
  | v4 ip p => rfl
  | domain d p => rfl
  | v6 ip p => simp only [Addr.Normal] at h; simp [Addr.norm, h]

theorem encodeAddr_norm (a : Addr) : encodeAddr a = encodeAddr a.norm := by
  unfold encodeAddr
  rw [norm_of_normal a.norm (norm_normal a)]

/-- `ConnAddrFromSlice ∘ WriteAddrFromConnAddr` on a normalised, valid address -/
theorem parseAddr_encode_normal (a : Addr) (hv : a.Valid = true) (hn : a.Normal) (rest : Bytes) :
    parseAddr (encodeAddr a ++ rest) = .ok (a, (encodeAddr a).length) := by
  have h1 : (1 : Nat) < 256 := by decide
  cases a with
  | v4 ip p =>
    simp only [Addr.Valid, Bool.and_eq_true, beq_iff_eq, decide_eq_true_eq] at hv
    have hp : unbe16 (be16 p ++ rest) = p := unbe16_be16 p hv.2 rest
    simp only [encodeAddr, Addr.norm, parseAddr, List.cons_append, List.length_cons, List.length_append, hv.1, be16_length,
      AtypIPv4, AtypDomainName, AtypIPv6, IPv4AddrLen, ofNat_toNat_lt 1 h1, List.append_assoc]
    rw [List.take_left' hv.1, List.drop_left' hv.1, hp]
    repeat (first | rfl | (rw [if_neg (by omega)]) | (rw [if_pos trivial]) | (rw [if_neg (by decide)]))
  | v6 ip p =>
    simp only [Addr.Valid, Bool.and_eq_true, beq_iff_eq, decide_eq_true_eq] at hv
    simp only [Addr.Normal] at hn
    have hp : unbe16 (be16 p ++ rest) = p := unbe16_be16 p hv.2 rest
    simp only [encodeAddr, Addr.norm, hn, Bool.false_eq_true, ↓reduceIte, parseAddr, List.cons_append, List.length_cons,
      List.length_append, hv.1, be16_length, AtypIPv4, AtypDomainName, AtypIPv6, IPv6AddrLen, ofNat_toNat_lt 4 (by decide),
      List.append_assoc]
    rw [List.take_left' hv.1, List.drop_left' hv.1, hp]
    repeat (first | rfl | (rw [if_neg (by omega)]) | (rw [if_pos trivial]) | (rw [if_neg (by decide)]))
  | domain d p =>
    simp only [Addr.Valid, Bool.and_eq_true, decide_eq_true_eq] at hv
    have hp : unbe16 (be16 p ++ rest) = p := unbe16_be16 p hv.2 rest
    have hd : (UInt8.ofNat d.length).toNat = d.length := ofNat_toNat_lt _ (by omega)
    simp only [encodeAddr, Addr.norm, parseAddr, List.cons_append, List.length_cons, List.length_append, be16_length,
      AtypIPv4, AtypDomainName, AtypIPv6, ofNat_toNat_lt 3 (by decide), List.append_assoc, List.headD_cons, hd,
      List.drop_succ_cons, List.drop_zero]
    have hdr : List.drop (1 + d.length) (UInt8.ofNat d.length :: (d ++ (be16 p ++ rest))) = be16 p ++ rest := by
      rw [Nat.add_comm, List.drop_succ_cons, List.drop_left]
    have hd0 : d.length ≠ 0 := by omega
    simp only [hdr, hp, List.take_left, ↓reduceIte, hd0]
    rw [if_neg (by omega), if_neg (by omega)]
    congr 2
    omega

theorem parseAddr_encode (a : Addr) (hv : a.Valid = true) (rest : Bytes) :
    parseAddr (encodeAddr a ++ rest) = .ok (a.norm, (encodeAddr a).length) := by
  rw [encodeAddr_norm a]
  exact parseAddr_encode_normal a.norm (norm_valid a hv) (norm_normal a) rest

theorem encodeAddr_length_le (a : Addr) (hv : a.Valid = true) : (encodeAddr a).length ≤ MaxAddrLen := by
  rw [encodeAddr_norm a]
  have hv' := norm_valid a hv
  have hn' := norm_normal a
  generalize a.norm = b at hv' hn'
  have hm : MaxAddrLen = 259 := rfl
  unfold encodeAddr
  rw [norm_of_normal b hn']
  cases b with
  | v4 ip p =>
    simp only [Addr.Valid, Bool.and_eq_true, beq_iff_eq, decide_eq_true_eq] at hv'
    simp only [List.length_cons, List.length_append, be16_length, hv'.1]; omega
  | v6 ip p =>
    simp only [Addr.Valid, Bool.and_eq_true, beq_iff_eq, decide_eq_true_eq] at hv'
    simp only [List.length_cons, List.length_append, be16_length, hv'.1]; omega
  | domain d p =>
    simp only [Addr.Valid, Bool.and_eq_true, decide_eq_true_eq] at hv'
    simp only [List.length_cons, List.length_append, be16_length]; omega

/-- `ParseTCPRequestVariableLengthHeader ∘ PutTCPRequestVariableLengthHeader` -/
theorem parseVarHeader_varHeader (t : Addr) (hv : t.Valid = true) (padLen : Nat) (payload : Bytes)
    (hpad : padLen < 65536) (hne : 1 ≤ padLen + payload.length) :
    parseVarHeader (varHeader t padLen payload) = .ok (t.norm, payload) := by
  unfold parseVarHeader varHeader
  rw [List.append_assoc, List.append_assoc, parseAddr_encode t hv]
  simp only [List.drop_left]
  have hlen : (be16 padLen ++ (zeros padLen ++ payload)).length = 2 + padLen + payload.length := by
    simp [be16_length, zeros]; omega
  rw [if_neg (by rw [hlen]; omega), unbe16_be16 padLen hpad, if_neg (by rw [hlen]; omega)]
  have : (be16 padLen ++ (zeros padLen ++ payload)).drop (2 + padLen) = payload := by
    rw [← List.append_assoc]
    have : (be16 padLen ++ zeros padLen).length = 2 + padLen := by simp [be16_length, zeros]
    rw [← this, List.drop_left]
  rw [this]

end SSV.Stream

namespace SSV.Stream
open SSV.Gen.C01

theorem fixedHeader_fields (ts vhlen : Nat) :
    ((fixedHeader ts vhlen).headD 0).toNat = HeaderTypeClientStream ∧
    ((fixedHeader ts vhlen).drop 1).take 8 = be64 ts ∧ (fixedHeader ts vhlen).drop 9 = be16 vhlen := by
  have h8 := be64_length ts
  have hh : fixedHeader ts vhlen = UInt8.ofNat HeaderTypeClientStream :: (be64 ts ++ be16 vhlen) := by
    simp [fixedHeader]
  refine ⟨by rw [hh]; rfl, ?_, ?_⟩
  · rw [hh, List.drop_succ_cons, List.drop_zero, ← h8, List.take_left]
  · rw [hh, List.drop_succ_cons, ← h8, List.drop_left]

/-- `HandleStream` on a genuine request (core): the transport handed the first read the fixed-length
part `prefix ++ salt ++ identity header ++ seal(fixed header)`; the identity header (if the server
uses one) names user `u`; the rest of the wire starts with `seal(variable header)`. -/
theorem handle_genuine {C : Crypto} (hC : AeadOK C) (sc : ServerCfg) (now : Int) (segs : List Bytes)
    (u : User) (salt idh vh later : Bytes) (ts : Nat) (a : Addr) (pl : Bytes)
    (hmode : (sc.psk.length = 0 ∧ idh.length = IdentityHeaderLength ∧ salt.length = sc.ipsk.length ∧
                lookupUser C sc.users (C.eihDec sc.ipsk salt idh) = some u) ∨
             (sc.psk.length ≠ 0 ∧ idh = [] ∧ salt.length = sc.psk.length ∧ u = ⟨"", sc.psk⟩))
    (hts : ClockOK ts now) (hvl : vh.length < 65536) (hpv : parseVarHeader vh = .ok (a, pl))
    (hfr : firstRead sc.allowSeg
        (sc.reqPrefix.length + (if sc.psk.length = 0 then sc.ipsk.length else sc.psk.length) +
          (if sc.psk.length = 0 then IdentityHeaderLength else 0) + TCPRequestFixedLengthHeaderLength + tagSize) segs =
      .ok (sc.reqPrefix ++ salt ++ idh ++ C.enc (C.kdf u.psk salt) 0 (fixedHeader ts vh.length))
          (C.enc (C.kdf u.psk salt) 1 vh ++ later)) :
    handle C sc now segs = .request ⟨a, pl, u.name⟩ ⟨C.kdf u.psk salt, 2, [], later⟩ salt u.psk := by
  obtain ⟨f1, f2, f3⟩ := fixedHeader_fields ts vh.length
  have hlen2 : (C.enc (C.kdf u.psk salt) 1 vh).length = vh.length + tagSize := hC.enc_len _ _ _
  have hu16 : unbe16 (be16 vh.length) = vh.length := by simpa using unbe16_be16 vh.length hvl []
  have hts' : tsOk (unbeN (be64 ts)) now = true := by
    rw [unbeN_be64 ts (by have := hts.1; omega)]; exact hts.2
  have hrf : readFull (vh.length + tagSize) (C.enc (C.kdf u.psk salt) 1 vh ++ later) = .ok (C.enc (C.kdf u.psk salt) 1 vh, later) :=
    readFull_ok _ _ _ hlen2 (by have : tagSize = 16 := rfl; omega)
  have hpre : (sc.reqPrefix ++ salt ++ idh ++ C.enc (C.kdf u.psk salt) 0 (fixedHeader ts vh.length)).take sc.reqPrefix.length = sc.reqPrefix := by
    rw [List.append_assoc, List.append_assoc, List.take_left]
  rcases hmode with ⟨hp0, hidl, hsl, hlook⟩ | ⟨hp0, hidn, hsl, hu⟩
  · have hsalt : ((sc.reqPrefix ++ salt ++ idh ++ C.enc (C.kdf u.psk salt) 0 (fixedHeader ts vh.length)).drop sc.reqPrefix.length).take sc.ipsk.length = salt := by
      rw [List.append_assoc, List.append_assoc, List.drop_left, ← hsl, List.take_left]
    have hid : ((sc.reqPrefix ++ salt ++ idh ++ C.enc (C.kdf u.psk salt) 0 (fixedHeader ts vh.length)).drop (sc.reqPrefix.length + sc.ipsk.length)).take IdentityHeaderLength = idh := by
      rw [← hsl, ← List.length_append, List.append_assoc, List.drop_left, ← hidl, List.take_left]
    have hct : (sc.reqPrefix ++ salt ++ idh ++ C.enc (C.kdf u.psk salt) 0 (fixedHeader ts vh.length)).drop (sc.reqPrefix.length + sc.ipsk.length + IdentityHeaderLength) =
        C.enc (C.kdf u.psk salt) 0 (fixedHeader ts vh.length) := by
      rw [← hsl, ← hidl, ← List.length_append, ← List.length_append, List.drop_left]
    unfold handle
    simp only [hp0, ↓reduceIte] at hfr ⊢
    simp only [hfr, hpre, ne_eq, not_true_eq_false, ↓reduceIte, hsalt, hid, hct, hlook, hC.dec_enc, f1, f2, f3, hts',
      Bool.not_true, Bool.false_eq_true, hu16, hrf, hpv]
  · subst hidn
    have hsalt : ((sc.reqPrefix ++ salt ++ [] ++ C.enc (C.kdf u.psk salt) 0 (fixedHeader ts vh.length)).drop sc.reqPrefix.length).take sc.psk.length = salt := by
      rw [List.append_nil, List.append_assoc, List.drop_left, ← hsl, List.take_left]
    have hct : (sc.reqPrefix ++ salt ++ [] ++ C.enc (C.kdf u.psk salt) 0 (fixedHeader ts vh.length)).drop (sc.reqPrefix.length + sc.psk.length + 0) =
        C.enc (C.kdf u.psk salt) 0 (fixedHeader ts vh.length) := by
      rw [List.append_nil, Nat.add_zero, ← hsl, ← List.length_append, List.drop_left]
    have hk : C.kdf sc.psk salt = C.kdf u.psk salt := by rw [hu]
    unfold handle
    simp only [hp0, ↓reduceIte] at hfr ⊢
    simp only [hfr, hpre, ne_eq, not_true_eq_false, ↓reduceIte, hsalt, hct, hk, hC.dec_enc, f1, f2, f3, hts',
      Bool.not_true, Bool.false_eq_true, hu16, hrf, hpv]
    rw [hu]

end SSV.Stream

namespace SSV.Stream
open SSV.Gen.C01

/-- laws of the identity-header block cipher and the PSK hash -/
structure EihOK (C : Crypto) : Prop where
  dec_enc : ∀ k s b, C.eihDec k s (C.eihEnc k s b) = b
  enc_len : ∀ k s b, (C.eihEnc k s b).length = b.length
  hash_len : ∀ p, (C.pskHash p).length = IdentityHeaderLength

/-- client and server are configured for each other (after the relays have stripped their identity
headers): either both use the same PSK and no identity header, or the client's single iPSK is the
server's and the server's user table maps the client's PSK hash to the client's key, owned by `user` -/
def Paired (C : Crypto) (cc : ClientCfg) (sc : ServerCfg) (user : String) : Prop :=
  sc.reqPrefix = cc.reqPrefix ∧
  ((cc.ipsks = [] ∧ sc.psk = cc.psk ∧ cc.psk.length ≠ 0 ∧ user = "") ∨
   (cc.ipsks = [sc.ipsk] ∧ sc.psk.length = 0 ∧ sc.ipsk.length = cc.psk.length ∧
    lookupUser C sc.users (C.pskHash cc.psk) = some ⟨user, cc.psk⟩))

theorem ppl_bounds (t : Addr) (ht : t.Valid = true) (P : Bytes) (rnd : Nat) (hr : RndOk P.length rnd = true) :
    let room := roomForPayload t
    let inReq := if P.length > room then P.take room else P
    let ppl := paddingPayloadLen room P.length rnd
    inReq.length ≤ ppl ∧ ppl ≤ room ∧ 1 ≤ ppl ∧ (encodeAddr t).length + 2 + room = streamMaxPayloadSize := by
  intro room inReq ppl
  have hal := encodeAddr_length_le t ht
  have hm : MaxAddrLen = 259 := rfl
  have hs : streamMaxPayloadSize = 65535 := rfl
  have hmp : MaxPaddingLength = 900 := rfl
  have hroom : room = 65535 - (encodeAddr t).length - 2 := rfl
  simp only [RndOk, hmp] at hr
  simp only [ppl, inReq, paddingPayloadLen, hmp]
  by_cases h1 : P.length > room
  · simp only [h1, ↓reduceIte, List.length_take]; omega
  · simp only [h1, ↓reduceIte]
    by_cases h2 : P.length ≥ 900
    · simp only [h2, ↓reduceIte]; omega
    · simp only [h2, ↓reduceIte] at hr ⊢
      by_cases h3 : P.length > 0
      · simp only [h3, ↓reduceIte, decide_eq_true_eq] at hr ⊢; omega
      · simp only [h3, ↓reduceIte, decide_eq_true_eq] at hr ⊢; omega

end SSV.Stream

namespace SSV.Stream
open SSV.Gen.C01

theorem fixedHeader_length (ts n : Nat) : (fixedHeader ts n).length = TCPRequestFixedLengthHeaderLength := by
  simp [fixedHeader, be64_length, be16_length, TCPRequestFixedLengthHeaderLength]

/-- the first transport write of `DialStream` -/
theorem dial_head (C : Crypto) (cc : ClientCfg) (ch : DialChoice) (t : Addr) (P : Bytes) :
    ∃ tail, (dial C cc ch t P).segs =
      (cc.reqPrefix ++ ch.salt ++ (identityHeaders C cc ch.salt).flatten ++
        C.enc (C.kdf cc.psk ch.salt) 0 (fixedHeader ch.ts
          (varHeader t (paddingPayloadLen (roomForPayload t) P.length ch.rnd - (dial C cc ch t P).inReq.length) (dial C cc ch t P).inReq).length) ++
        C.enc (C.kdf cc.psk ch.salt) 1
          (varHeader t (paddingPayloadLen (roomForPayload t) P.length ch.rnd - (dial C cc ch t P).inReq.length) (dial C cc ch t P).inReq)) :: tail :=
  ⟨_, rfl⟩

/-- **request_observed**: the server parses back exactly what the client asked for -/
theorem request_observed_core {C : Crypto} (hC : AeadOK C) (hE : EihOK C) (cc : ClientCfg) (sc : ServerCfg) (user : String)
    (hp : Paired C cc sc user) (ch : DialChoice) (hsalt : ch.salt.length = cc.psk.length)
    (t : Addr) (ht : t.Valid = true) (P : Bytes) (hr : RndOk P.length ch.rnd = true)
    (now : Int) (hts : ClockOK ch.ts now) (req later : Bytes) (tail : List Bytes)
    (hreq : (dial C cc ch t P).segs = req :: tail) (segs : List Bytes)
    (hfr : firstRead sc.allowSeg
        (sc.reqPrefix.length + (if sc.psk.length = 0 then sc.ipsk.length else sc.psk.length) +
          (if sc.psk.length = 0 then IdentityHeaderLength else 0) + TCPRequestFixedLengthHeaderLength + tagSize) segs =
      .ok ((req ++ later).take (sc.reqPrefix.length + (if sc.psk.length = 0 then sc.ipsk.length else sc.psk.length) +
              (if sc.psk.length = 0 then IdentityHeaderLength else 0) + TCPRequestFixedLengthHeaderLength + tagSize))
          ((req ++ later).drop (sc.reqPrefix.length + (if sc.psk.length = 0 then sc.ipsk.length else sc.psk.length) +
              (if sc.psk.length = 0 then IdentityHeaderLength else 0) + TCPRequestFixedLengthHeaderLength + tagSize))) :
    handle C sc now segs =
      .request ⟨t.norm, P.take (roomForPayload t), user⟩ ⟨C.kdf cc.psk ch.salt, 2, [], later⟩ ch.salt cc.psk := by
  obtain ⟨tl, hd⟩ := dial_head C cc ch t P
  rw [hd] at hreq
  obtain ⟨hreq1, _⟩ := List.cons.inj hreq
  obtain ⟨hb1, hb2, hb3, hb4⟩ := ppl_bounds t ht P ch.rnd hr
  have hin : (dial C cc ch t P).inReq = P.take (roomForPayload t) := (C01aux C cc ch t P)
  have hinr : (dial C cc ch t P).inReq = (if P.length > roomForPayload t then P.take (roomForPayload t) else P) := rfl
  rw [← hinr, hin] at hb1
  rw [hin] at hreq1
  have hs : streamMaxPayloadSize = 65535 := rfl
  have htag : tagSize = 16 := rfl
  have hfx : TCPRequestFixedLengthHeaderLength = 11 := rfl
  have hidl16 : IdentityHeaderLength = 16 := rfl
  -- the variable-length header
  have hvl : (varHeader t (paddingPayloadLen (roomForPayload t) P.length ch.rnd - (P.take (roomForPayload t)).length) (P.take (roomForPayload t))).length < 65536 := by
    simp only [varHeader, List.length_append, be16_length, zeros, List.length_replicate]
    omega
  have hpv := parseVarHeader_varHeader t ht (paddingPayloadLen (roomForPayload t) P.length ch.rnd - (P.take (roomForPayload t)).length)
    (P.take (roomForPayload t)) (by omega) (by omega)
  obtain ⟨hpre, hmode⟩ := hp
  rcases hmode with ⟨hip, hpsk, hpl, hun⟩ | ⟨hip, hp0, hil, hlook⟩
  · -- no identity header
    have hidh : (identityHeaders C cc ch.salt).flatten = [] := by simp [identityHeaders, hip]
    rw [hidh] at hreq1
    have hp0 : sc.psk.length ≠ 0 := by rw [hpsk]; exact hpl
    simp only [hp0, ↓reduceIte] at hfr
    have hA : (cc.reqPrefix ++ ch.salt ++ [] ++ C.enc (C.kdf cc.psk ch.salt) 0 (fixedHeader ch.ts
          (varHeader t (paddingPayloadLen (roomForPayload t) P.length ch.rnd - (P.take (roomForPayload t)).length) (P.take (roomForPayload t))).length)).length =
        sc.reqPrefix.length + sc.psk.length + 0 + TCPRequestFixedLengthHeaderLength + tagSize := by
      simp only [List.length_append, hC.enc_len, fixedHeader_length, List.length_nil, hpre, hpsk, hsalt]
      omega
    have htake := List.take_left (l₁ := cc.reqPrefix ++ ch.salt ++ [] ++ C.enc (C.kdf cc.psk ch.salt) 0 (fixedHeader ch.ts
          (varHeader t (paddingPayloadLen (roomForPayload t) P.length ch.rnd - (P.take (roomForPayload t)).length) (P.take (roomForPayload t))).length))
        (l₂ := C.enc (C.kdf cc.psk ch.salt) 1 (varHeader t (paddingPayloadLen (roomForPayload t) P.length ch.rnd - (P.take (roomForPayload t)).length) (P.take (roomForPayload t))) ++ later)
    have hdrop := List.drop_left (l₁ := cc.reqPrefix ++ ch.salt ++ [] ++ C.enc (C.kdf cc.psk ch.salt) 0 (fixedHeader ch.ts
          (varHeader t (paddingPayloadLen (roomForPayload t) P.length ch.rnd - (P.take (roomForPayload t)).length) (P.take (roomForPayload t))).length))
        (l₂ := C.enc (C.kdf cc.psk ch.salt) 1 (varHeader t (paddingPayloadLen (roomForPayload t) P.length ch.rnd - (P.take (roomForPayload t)).length) (P.take (roomForPayload t))) ++ later)
    rw [hA] at htake hdrop
    rw [← hreq1, List.append_assoc _ _ later, htake, hdrop] at hfr
    have := handle_genuine hC sc now segs ⟨"", sc.psk⟩ ch.salt [] _ later ch.ts t.norm (P.take (roomForPayload t))
      (Or.inr ⟨hp0, rfl, by rw [hpsk]; exact hsalt, rfl⟩) hts hvl hpv
      (by simp only [hp0, ↓reduceIte]; rw [hpre, hpsk]; rw [hpre, hpsk] at hfr; exact hfr)
    rw [this, hun, hpsk]
  · -- one identity header naming the client's key
    have hidh : (identityHeaders C cc ch.salt).flatten = C.eihEnc sc.ipsk ch.salt (C.pskHash cc.psk) := by
      simp [identityHeaders, eihHashes, hip]
    have hidlen : (C.eihEnc sc.ipsk ch.salt (C.pskHash cc.psk)).length = IdentityHeaderLength := by
      rw [hE.enc_len, hE.hash_len]
    rw [hidh] at hreq1
    simp only [hp0, ↓reduceIte] at hfr
    have hA : (cc.reqPrefix ++ ch.salt ++ C.eihEnc sc.ipsk ch.salt (C.pskHash cc.psk) ++ C.enc (C.kdf cc.psk ch.salt) 0 (fixedHeader ch.ts
          (varHeader t (paddingPayloadLen (roomForPayload t) P.length ch.rnd - (P.take (roomForPayload t)).length) (P.take (roomForPayload t))).length)).length =
        sc.reqPrefix.length + sc.ipsk.length + IdentityHeaderLength + TCPRequestFixedLengthHeaderLength + tagSize := by
      simp only [List.length_append, hC.enc_len, fixedHeader_length, hidlen, hpre, hil, hsalt]
      omega
    have htake := List.take_left (l₁ := cc.reqPrefix ++ ch.salt ++ C.eihEnc sc.ipsk ch.salt (C.pskHash cc.psk) ++ C.enc (C.kdf cc.psk ch.salt) 0 (fixedHeader ch.ts
          (varHeader t (paddingPayloadLen (roomForPayload t) P.length ch.rnd - (P.take (roomForPayload t)).length) (P.take (roomForPayload t))).length))
        (l₂ := C.enc (C.kdf cc.psk ch.salt) 1 (varHeader t (paddingPayloadLen (roomForPayload t) P.length ch.rnd - (P.take (roomForPayload t)).length) (P.take (roomForPayload t))) ++ later)
    have hdrop := List.drop_left (l₁ := cc.reqPrefix ++ ch.salt ++ C.eihEnc sc.ipsk ch.salt (C.pskHash cc.psk) ++ C.enc (C.kdf cc.psk ch.salt) 0 (fixedHeader ch.ts
          (varHeader t (paddingPayloadLen (roomForPayload t) P.length ch.rnd - (P.take (roomForPayload t)).length) (P.take (roomForPayload t))).length))
        (l₂ := C.enc (C.kdf cc.psk ch.salt) 1 (varHeader t (paddingPayloadLen (roomForPayload t) P.length ch.rnd - (P.take (roomForPayload t)).length) (P.take (roomForPayload t))) ++ later)
    rw [hA] at htake hdrop
    rw [← hreq1, List.append_assoc _ _ later, htake, hdrop] at hfr
    have := handle_genuine hC sc now segs ⟨user, cc.psk⟩ ch.salt (C.eihEnc sc.ipsk ch.salt (C.pskHash cc.psk)) _ later ch.ts t.norm (P.take (roomForPayload t))
      (Or.inl ⟨hp0, hidlen, by rw [hil]; exact hsalt, by rw [hE.dec_enc]; exact hlook⟩) hts hvl hpv
      (by simp only [hp0, ↓reduceIte]; rw [hpre]; rw [hpre] at hfr; exact hfr)
    rw [this]
where
  C01aux (C : Crypto) (cc : ClientCfg) (ch : DialChoice) (t : Addr) (P : Bytes) :
      (dial C cc ch t P).inReq = P.take (roomForPayload t) := by
    by_cases h : P.length > roomForPayload t
    · simp [dial, h]
    · simp only [dial, h, ↓reduceIte]
      exact (List.take_of_length_le (by omega)).symm

end SSV.Stream

namespace SSV.Stream
open SSV.Gen.C01

/-- the client's first transport write with the identity headers made explicit -/
theorem dial_head_hdrs (C : Crypto) (cc : ClientCfg) (ch : DialChoice) (t : Addr) (P : Bytes) :
    ∃ body tail, (∀ ipsks, ∃ tail', (dial C { cc with ipsks := ipsks } ch t P).segs =
        (cc.reqPrefix ++ ch.salt ++ (identityHeaders C { cc with ipsks := ipsks } ch.salt).flatten ++ body) :: tail') ∧
      (dial C cc ch t P).segs = (cc.reqPrefix ++ ch.salt ++ (identityHeaders C cc ch.salt).flatten ++ body) :: tail :=
  ⟨_, _, fun _ => ⟨_, by simp only [dial, List.append_assoc]; rfl⟩, by simp only [dial, List.append_assoc]; rfl⟩

/-- one relay: the first identity header of an `i0 :: i1 :: rest` client names `i1`; stripping it
gives, byte for byte, the request of the same client configured with `i1 :: rest` -/
theorem relayStrip_request {C : Crypto} (hE : EihOK C) (pre salt body later : Bytes) (psk i0 i1 : Bytes) (rest : List Bytes)
    (rp rs : Bytes) (a : Bool) :
    let cc : ClientCfg := ⟨psk, i0 :: i1 :: rest, rp, rs, a⟩
    let cc' : ClientCfg := ⟨psk, i1 :: rest, rp, rs, a⟩
    relayStrip C pre.length salt.length i0 i1 (pre ++ salt ++ (identityHeaders C cc salt).flatten ++ body ++ later) =
      some (pre ++ salt ++ (identityHeaders C cc' salt).flatten ++ body ++ later) := by
  intro cc cc'
  have hh : identityHeaders C cc salt = C.eihEnc i0 salt (C.pskHash i1) :: identityHeaders C cc' salt := by
    simp [identityHeaders, eihHashes, cc, cc']
  have hl : (C.eihEnc i0 salt (C.pskHash i1)).length = IdentityHeaderLength := by rw [hE.enc_len, hE.hash_len]
  rw [hh, List.flatten_cons]
  have e1 : ((pre ++ salt ++ (C.eihEnc i0 salt (C.pskHash i1) ++ (identityHeaders C cc' salt).flatten) ++ body ++ later).drop pre.length).take salt.length = salt := by
    simp only [List.append_assoc, List.drop_left, List.take_left]
  have e2 : ((pre ++ salt ++ (C.eihEnc i0 salt (C.pskHash i1) ++ (identityHeaders C cc' salt).flatten) ++ body ++ later).drop (pre.length + salt.length)).take IdentityHeaderLength =
      C.eihEnc i0 salt (C.pskHash i1) := by
    rw [← List.length_append, ← hl]
    simp only [List.append_assoc]
    rw [← List.append_assoc pre salt, List.drop_left, List.take_left]
  have e3 : (pre ++ salt ++ (C.eihEnc i0 salt (C.pskHash i1) ++ (identityHeaders C cc' salt).flatten) ++ body ++ later).take (pre.length + salt.length) = pre ++ salt := by
    rw [← List.length_append]
    simp only [List.append_assoc]
    rw [← List.append_assoc pre salt, List.take_left]
  have e4 : (pre ++ salt ++ (C.eihEnc i0 salt (C.pskHash i1) ++ (identityHeaders C cc' salt).flatten) ++ body ++ later).drop (pre.length + salt.length + IdentityHeaderLength) =
      (identityHeaders C cc' salt).flatten ++ body ++ later := by
    rw [← List.length_append, ← hl, ← List.length_append]
    have : pre ++ salt ++ (C.eihEnc i0 salt (C.pskHash i1) ++ (identityHeaders C cc' salt).flatten) ++ body ++ later =
        (pre ++ salt ++ C.eihEnc i0 salt (C.pskHash i1)) ++ ((identityHeaders C cc' salt).flatten ++ body ++ later) := by
      simp only [List.append_assoc]
    rw [this, List.drop_left]
  unfold relayStrip
  simp only [e1, e2, e3, e4, hE.dec_enc, ↓reduceIte]
  simp only [List.append_assoc]

/-- the whole chain: the relays holding `i0, …` in front of the holder of the last iPSK turn the
request of the `n`-iPSK client into the request of the client configured with the last iPSK only -/
theorem relayAll_request {C : Crypto} (hE : EihOK C) (pre salt body later psk rp rs : Bytes) (a : Bool) :
    ∀ (front : List Bytes) (last : Bytes),
      relayAll C pre.length salt.length (front ++ [last])
        (pre ++ salt ++ (identityHeaders C ⟨psk, front ++ [last], rp, rs, a⟩ salt).flatten ++ body ++ later) =
      some (pre ++ salt ++ (identityHeaders C ⟨psk, [last], rp, rs, a⟩ salt).flatten ++ body ++ later) := by
  intro front
  induction front with
  | nil => intro last; rfl
  | cons i0 f ih =>
    intro last
    cases f with
    | nil =>
      have := relayStrip_request hE pre salt body later psk i0 last [] rp rs a
      simp only [List.cons_append, List.nil_append, relayAll] at this ⊢
      rw [this]
    | cons i1 f' =>
      have h1 := relayStrip_request hE pre salt body later psk i0 i1 (f' ++ [last]) rp rs a
      have h2 := ih last
      simp only [List.cons_append, relayAll] at h1 h2 ⊢
      rw [h1]
      exact h2

end SSV.Stream

namespace SSV.Stream
open SSV.Gen.C01

/-- `DialStream` with another list of iPSKs differs in the identity headers only -/
theorem dial_segs_ipsks (C : Crypto) (cc : ClientCfg) (ipsks' : List Bytes) (ch : DialChoice) (t : Addr) (P : Bytes) :
    ∃ body tl,
      (dial C cc ch t P).segs = (cc.reqPrefix ++ ch.salt ++ (identityHeaders C cc ch.salt).flatten ++ body) :: tl ∧
      (dial C { cc with ipsks := ipsks' } ch t P).segs =
        (cc.reqPrefix ++ ch.salt ++ (identityHeaders C { cc with ipsks := ipsks' } ch.salt).flatten ++ body) :: tl :=
  ⟨_, _, by simp only [dial, List.append_assoc]; rfl, by simp only [dial, List.append_assoc]⟩

/-- the relays in front of the server turn the request of a client with the iPSK chain
`front ++ [last]` into the request of the same client configured with `[last]` alone: same salt,
same sealed headers, same excess chunks -/
theorem relay_chain_request {C : Crypto} (hE : EihOK C) (cc : ClientCfg) (front : List Bytes) (last : Bytes)
    (hip : cc.ipsks = front ++ [last]) (ch : DialChoice) (t : Addr) (P later : Bytes) :
    ∃ req req1 tl, (dial C cc ch t P).segs = req :: tl ∧
      (dial C { cc with ipsks := [last] } ch t P).segs = req1 :: tl ∧
      relayAll C cc.reqPrefix.length ch.salt.length cc.ipsks (req ++ later) = some (req1 ++ later) := by
  obtain ⟨body, tl, h1, h2⟩ := dial_segs_ipsks C cc [last] ch t P
  refine ⟨_, _, tl, h1, h2, ?_⟩
  have := relayAll_request hE cc.reqPrefix ch.salt body later cc.psk cc.reqPrefix cc.respPrefix cc.allowSeg front last
  have e1 : (⟨cc.psk, front ++ [last], cc.reqPrefix, cc.respPrefix, cc.allowSeg⟩ : ClientCfg) = cc := by
    cases cc; simp at hip ⊢; exact hip.symm
  have e2 : (⟨cc.psk, [last], cc.reqPrefix, cc.respPrefix, cc.allowSeg⟩ : ClientCfg) = { cc with ipsks := [last] } := rfl
  rw [e1, e2, ← hip] at this
  exact this

end SSV.Stream
