import SSV.Model.UdpSession
import SSV.Proofs.SWFRun
import SSV.Proofs.SaltPoolTs
/-
Lemmas about the UDP unpacker session model (C04): rejected packets are no-ops, the server
unpacker refines "Fresh w.r.t. the delivered ids", junk can be removed from a history.
-/
namespace SSV.UdpSession
open SSV.SWF

/-! ### rejected packets leave the state unchanged -/

theorem serverStep_noop (st : ServerState) (now : Nat) (p : Packet)
    (h : (serverStep st now p).2 ≠ .ok) : (serverStep st now p).1 = st := by
  unfold serverStep at h ⊢
  split
  · next hv => simp [hv] at h
  · rfl

theorem clientStep_noop (st : ClientState) (now : Nat) (p : Packet)
    (h : (clientStep st now p).2 ≠ .ok) : (clientStep st now p).1 = st := by
  unfold clientStep at h ⊢
  split
  · next hv => simp [hv] at h
  · rfl

theorem serverStep_res (st : ServerState) (now : Nat) (p : Packet) : (serverStep st now p).2 = serverVerdict st now p := by
  unfold serverStep; split
  · next h => exact h.symm
  · rfl

theorem clientStep_res (st : ClientState) (now : Nat) (p : Packet) : (clientStep st now p).2 = clientVerdict st now p := by
  unfold clientStep; split
  · next h => exact h.symm
  · rfl

theorem serverStep_ok_state {st : ServerState} {now : Nat} {p : Packet} (h : serverVerdict st now p = .ok) :
    (serverStep st now p).1 = serverCommit st p := by
  unfold serverStep; rw [if_pos h]

theorem clientStep_ok_state {st : ClientState} {now : Nat} {p : Packet} (h : clientVerdict st now p = .ok) :
    (clientStep st now p).1 = clientCommit st now p := by
  unfold clientStep; rw [if_pos h]

/-! ### what a delivered packet must satisfy -/

theorem parseClientHeader_ne_ok {now : Nat} {p : Packet} {e : Res}
    (he : parseClientHeader now p = some e) : e ≠ .ok := by
  simp only [parseClientHeader, SSV.Gen.C04.udpClientHeaderOrder, runChecks, checkFails] at he
  intro h; subst h
  cases h1 : p.hdr <;> cases h2 : (p.typ != headerTypeClientPacket) <;> cases h3 : tsValid p.ts now <;>
    cases h4 : p.padOk <;> cases h6 : p.addrOk <;> simp_all

theorem parseServerHeader_ne_ok {now csid : Nat} {p : Packet} {e : Res}
    (he : parseServerHeader now csid p = some e) : e ≠ .ok := by
  simp only [parseServerHeader, SSV.Gen.C04.udpServerHeaderOrder, runChecks, checkFails] at he
  intro h; subst h
  cases h1 : p.hdr <;> cases h2 : (p.typ != headerTypeServerPacket) <;> cases h3 : tsValid p.ts now <;>
    cases h5 : (p.csid != csid) <;> cases h4 : p.padOk <;> cases h6 : p.addrOk <;> simp_all

theorem serverVerdict_ok {st : ServerState} {now : Nat} {p : Packet} :
    serverVerdict st now p = .ok ↔
    (p.long = true ∧ replayed st.filter p.pid = false ∧ p.authentic = true ∧ parseClientHeader now p = none) := by
  unfold serverVerdict
  cases hl : p.long <;> cases hr : replayed st.filter p.pid <;> cases ha : p.authentic <;>
    cases hp : parseClientHeader now p <;> simp_all
  exact parseClientHeader_ne_ok hp

theorem clientVerdict_ok {st : ClientState} {now : Nat} {p : Packet} :
    clientVerdict st now p = .ok ↔
    (p.long = true ∧ ∃ status sf, classify st now p.sid = some (status, sf) ∧ replayed sf p.pid = false ∧
      p.authentic = true ∧ parseServerHeader now st.csid p = none) := by
  unfold clientVerdict
  cases hl : p.long
  · simp
  · cases hc : classify st now p.sid with
    | none => simp
    | some v =>
      obtain ⟨status, sf⟩ := v
      cases hr : replayed sf p.pid <;> cases ha : p.authentic <;>
        cases hp : parseServerHeader now st.csid p <;> simp_all
      · exact ⟨status, sf, ⟨rfl, rfl⟩, hr⟩
      · exact parseServerHeader_ne_ok hp

theorem serverStep_ok {st : ServerState} {now : Nat} {p : Packet}
    (h : (serverStep st now p).2 = .ok) :
    p.long = true ∧ p.authentic = true ∧ parseClientHeader now p = none := by
  rw [serverStep_res, serverVerdict_ok] at h
  exact ⟨h.1, h.2.2.1, h.2.2.2⟩

theorem clientStep_ok {st : ClientState} {now : Nat} {p : Packet}
    (h : (clientStep st now p).2 = .ok) :
    p.long = true ∧ p.authentic = true ∧ parseServerHeader now st.csid p = none := by
  rw [clientStep_res, clientVerdict_ok] at h
  obtain ⟨hl, _, _, _, _, ha, hp⟩ := h
  exact ⟨hl, ha, hp⟩

/-! ### what the timestamp check means, for every 64-bit timestamp word -/

/-- sane clock: `now.Unix() + MaxEpochDiff` is an `int64` -/
def ClockOk (now : Nat) : Prop := SSV.SaltPool.unixSec now + tsParams.maxEpochDiff < 2 ^ 63

instance (now : Nat) : Decidable (ClockOk now) := by unfold ClockOk; infer_instance

/-- the timestamp word, read as `int64`, is within `MaxEpochDiff` seconds of the clock -/
def tsNear (ts : BitVec 64) (now : Nat) : Prop :=
  ts.toInt - (SSV.SaltPool.unixSec now : Int) ≤ (SSV.Gen.C04.MaxEpochDiff : Nat) ∧
  (SSV.SaltPool.unixSec now : Int) - ts.toInt ≤ (SSV.Gen.C04.MaxEpochDiff : Nat)

instance (ts : BitVec 64) (now : Nat) : Decidable (tsNear ts now) := by unfold tsNear; infer_instance

/-- `ValidateUnixEpochTimestamp` as written (wrapping `int64` subtraction, two signed comparisons) accepts a
64-bit word iff it is within `MaxEpochDiff` s of the clock — for EVERY word, on a sane clock. -/
theorem tsValid_iff_near (ts : BitVec 64) {now : Nat} (h : ClockOk now) : tsValid ts now = true ↔ tsNear ts now :=
  SSV.SaltPool.tsValid_iff tsParams ts now h

/-- forged, stale (more than `MaxEpochDiff` s from the clock, any 64-bit value), wrong-type, foreign-session
(client side) packets -/
def serverJunk (now : Nat) (p : Packet) : Bool :=
  !p.authentic || p.typ != headerTypeClientPacket || !decide (tsNear p.ts now)

def clientJunk (csid : Nat) (now : Nat) (p : Packet) : Bool :=
  !p.authentic || p.typ != headerTypeServerPacket || !decide (tsNear p.ts now) || p.csid != csid

theorem parseClientHeader_none {now : Nat} {p : Packet} (h : parseClientHeader now p = none) :
    p.hdr = true ∧ p.typ = headerTypeClientPacket ∧ tsValid p.ts now = true ∧ p.padOk = true ∧ p.addrOk = true := by
  simp only [parseClientHeader, SSV.Gen.C04.udpClientHeaderOrder, runChecks, checkFails] at h
  cases h1 : p.hdr <;> cases h2 : (p.typ != headerTypeClientPacket) <;> cases h3 : tsValid p.ts now <;>
    cases h4 : p.padOk <;> cases h6 : p.addrOk <;> simp_all

theorem parseServerHeader_none {now csid : Nat} {p : Packet} (h : parseServerHeader now csid p = none) :
    p.hdr = true ∧ p.typ = headerTypeServerPacket ∧ tsValid p.ts now = true ∧ p.csid = csid ∧ p.padOk = true ∧ p.addrOk = true := by
  simp only [parseServerHeader, SSV.Gen.C04.udpServerHeaderOrder, runChecks, checkFails] at h
  cases h1 : p.hdr <;> cases h2 : (p.typ != headerTypeServerPacket) <;> cases h3 : tsValid p.ts now <;>
    cases h5 : (p.csid != csid) <;> cases h4 : p.padOk <;> cases h6 : p.addrOk <;> simp_all

theorem parseClientHeader_none_iff {now : Nat} {p : Packet} :
    parseClientHeader now p = none ↔
      (p.hdr = true ∧ p.typ = headerTypeClientPacket ∧ tsValid p.ts now = true ∧ p.padOk = true ∧ p.addrOk = true) := by
  simp only [parseClientHeader, SSV.Gen.C04.udpClientHeaderOrder, runChecks, checkFails]
  cases h1 : p.hdr <;> cases h2 : (p.typ != headerTypeClientPacket) <;> cases h3 : tsValid p.ts now <;>
    cases h4 : p.padOk <;> cases h6 : p.addrOk <;> simp_all

theorem serverJunk_rejected {st : ServerState} {now : Nat} {p : Packet} (hc : ClockOk now) (h : serverJunk now p = true) :
    (serverStep st now p).2 ≠ .ok := by
  intro hok
  obtain ⟨_, ha, hp⟩ := serverStep_ok hok
  obtain ⟨_, ht, hts, _⟩ := parseClientHeader_none hp
  have hn := (tsValid_iff_near p.ts hc).mp hts
  simp [serverJunk, ha, ht, hn] at h

theorem clientJunk_rejected {st : ClientState} {now : Nat} {p : Packet} (hck : ClockOk now) (h : clientJunk st.csid now p = true) :
    (clientStep st now p).2 ≠ .ok := by
  intro hok
  obtain ⟨_, ha, hp⟩ := clientStep_ok hok
  obtain ⟨_, ht, hts, hc, _⟩ := parseServerHeader_none hp
  have hn := (tsValid_iff_near p.ts hck).mp hts
  simp [clientJunk, ha, ht, hn, hc] at h

/-! ### removing junk from a history does not change the other verdicts -/

theorem server_junk_filter (st : ServerState) (evs : List Event) (hck : ∀ e ∈ evs, ClockOk e.1) :
    ((evs.zip (serverRun st evs)).filter (fun e => !serverJunk e.1.1 e.1.2)).map (·.2) =
      serverRun st (evs.filter (fun e => !serverJunk e.1 e.2)) := by
  induction evs generalizing st with
  | nil => rfl
  | cons e r ih =>
    obtain ⟨now, p⟩ := e
    simp only [serverRun, List.zip_cons_cons, List.filter_cons]
    by_cases hj : serverJunk now p = true
    · have hst := serverStep_noop st now p (serverJunk_rejected (hck (now, p) List.mem_cons_self) hj)
      simp only [hj, Bool.not_true, Bool.false_eq_true, if_false]
      rw [hst]; exact ih st (fun e he => hck e (List.mem_cons_of_mem _ he))
    · simp only [hj, Bool.not_false, if_true, List.map_cons, serverRun]
      rw [ih _ (fun e he => hck e (List.mem_cons_of_mem _ he))]

theorem clientCommit_csid (st : ClientState) (now : Nat) (p : Packet) :
    (clientCommit st now p).csid = st.csid ∧ (clientCommit st now p).filterSize = st.filterSize := by
  unfold clientCommit
  cases classify st now p.sid with
  | none => exact ⟨rfl, rfl⟩
  | some v => obtain ⟨status, sf⟩ := v; cases status <;> exact ⟨rfl, rfl⟩

theorem clientStep_csid (st : ClientState) (now : Nat) (p : Packet) : (clientStep st now p).1.csid = st.csid := by
  unfold clientStep; split
  · exact (clientCommit_csid st now p).1
  · rfl

theorem client_junk_filter (st : ClientState) (evs : List Event) (hck : ∀ e ∈ evs, ClockOk e.1) :
    ((evs.zip (clientRun st evs)).filter (fun e => !clientJunk st.csid e.1.1 e.1.2)).map (·.2) =
      clientRun st (evs.filter (fun e => !clientJunk st.csid e.1 e.2)) := by
  induction evs generalizing st with
  | nil => rfl
  | cons e r ih =>
    obtain ⟨now, p⟩ := e
    simp only [clientRun, List.zip_cons_cons, List.filter_cons]
    by_cases hj : clientJunk st.csid now p = true
    · have hst := clientStep_noop st now p (clientJunk_rejected (hck (now, p) List.mem_cons_self) hj)
      simp only [hj, Bool.not_true, Bool.false_eq_true, if_false]
      rw [hst]; exact ih st (fun e he => hck e (List.mem_cons_of_mem _ he))
    · simp only [hj, Bool.not_false, if_true, List.map_cons, clientRun]
      have := ih (clientStep st now p).1 (fun e he => hck e (List.mem_cons_of_mem _ he))
      rw [clientStep_csid] at this
      rw [this]

/-! ### server unpacker: refinement to "Fresh w.r.t. the delivered ids" -/

/-- ids delivered by the server unpacker along a run (most recent first) -/
def serverDelivered (st : ServerState) (d : List Nat) : List Event → List Nat
  | [] => d
  | (now, p) :: r =>
    serverDelivered (serverStep st now p).1 (if (serverStep st now p).2 = .ok then p.pid :: d else d) r

/-- the filter (once it exists) describes exactly the delivered ids; before that nothing was delivered -/
def FInv (sf : Option Filter) (d : List Nat) (n : Nat) : Prop :=
  match sf with
  | none => d = []
  | some f => Inv f d ∧ f.size = n

def SInv (st : ServerState) (d : List Nat) : Prop := FInv st.filter d st.filterSize

theorem isOk_new (size : Nat) (h1 : 1 ≤ size) (h2 : size + 63 < 2 ^ 63) (c : Nat) : isOk (new size) c = true :=
  (isOk_iff (new_inv size h1 h2) c).mpr ⟨by simp, Or.inl rfl⟩

theorem replayed_iff {sf : Option Filter} {d : List Nat} {n : Nat}
    (hinv : FInv sf d n) (pid : Nat) :
    replayed sf pid = false ↔ Fresh n d pid := by
  unfold FInv at hinv
  cases sf with
  | none =>
    subst hinv
    simp only [replayed, true_iff]
    exact ⟨by simp, Or.inl rfl⟩
  | some f =>
    obtain ⟨hI, hsz⟩ := hinv
    simp only [replayed, Bool.not_eq_false']
    rw [isOk_iff hI pid, hsz]; rfl

theorem filterOrNew_mustAdd {sf : Option Filter} {d : List Nat} {n : Nat} (h1 : 1 ≤ n) (h2 : n + 63 < 2 ^ 63)
    (hinv : FInv sf d n) {pid : Nat}
    (hr : replayed sf pid = false) :
    Inv (mustAdd (filterOrNew sf n) pid) (pid :: d) ∧ (mustAdd (filterOrNew sf n) pid).size = n := by
  unfold FInv at hinv
  cases sf with
  | none =>
    subst hinv
    simp only [filterOrNew]
    exact ⟨mustAdd_inv (new_inv n h1 h2) (isOk_new n h1 h2 pid), by rw [mustAdd_size]; rfl⟩
  | some f =>
    obtain ⟨hI, hsz⟩ := hinv
    simp only [replayed, Bool.not_eq_false'] at hr
    simp only [filterOrNew]
    exact ⟨mustAdd_inv hI hr, by rw [mustAdd_size]; exact hsz⟩

theorem serverStep_spec {st : ServerState} {d : List Nat} (h1 : 1 ≤ st.filterSize) (h2 : st.filterSize + 63 < 2 ^ 63)
    (hinv : SInv st d) (now : Nat) (p : Packet) :
    ((serverStep st now p).2 = .ok ↔
      (p.long = true ∧ p.authentic = true ∧ parseClientHeader now p = none ∧ Fresh st.filterSize d p.pid)) ∧
    SInv (serverStep st now p).1 (if (serverStep st now p).2 = .ok then p.pid :: d else d) ∧
    (serverStep st now p).1.filterSize = st.filterSize := by
  have hri := replayed_iff hinv p.pid
  rw [serverStep_res]
  refine ⟨?_, ?_, ?_⟩
  · rw [serverVerdict_ok, hri]
    constructor
    · rintro ⟨a, b, c, e⟩; exact ⟨a, c, e, b⟩
    · rintro ⟨a, c, e, b⟩; exact ⟨a, b, c, e⟩
  · by_cases hv : serverVerdict st now p = .ok
    · rw [if_pos hv, serverStep_ok_state hv]
      have hr := (serverVerdict_ok.mp hv).2.1
      exact filterOrNew_mustAdd h1 h2 hinv hr
    · rw [if_neg hv, serverStep_noop st now p (by rw [serverStep_res]; exact hv)]
      exact hinv
  · unfold serverStep; split <;> rfl

theorem serverRun_inv {st : ServerState} {d : List Nat} (h1 : 1 ≤ st.filterSize) (h2 : st.filterSize + 63 < 2 ^ 63)
    (hinv : SInv st d) (evs : List Event) :
    SInv (serverAfter st evs) (serverDelivered st d evs) ∧ (serverAfter st evs).filterSize = st.filterSize := by
  induction evs generalizing st d with
  | nil => exact ⟨hinv, rfl⟩
  | cons e r ih =>
    obtain ⟨now, p⟩ := e
    obtain ⟨_, hI, hsz⟩ := serverStep_spec h1 h2 hinv now p
    simp only [serverAfter, serverDelivered]
    have := ih (by rw [hsz]; exact h1) (by rw [hsz]; exact h2) hI
    rw [hsz] at this
    exact this

theorem serverDelivered_nodup {st : ServerState} {d : List Nat} (h1 : 1 ≤ st.filterSize) (h2 : st.filterSize + 63 < 2 ^ 63)
    (hinv : SInv st d) (hd : d.Nodup) (evs : List Event) : (serverDelivered st d evs).Nodup := by
  induction evs generalizing st d with
  | nil => exact hd
  | cons e r ih =>
    obtain ⟨now, p⟩ := e
    obtain ⟨hiff, hI, hsz⟩ := serverStep_spec h1 h2 hinv now p
    simp only [serverDelivered]
    apply ih (by rw [hsz]; exact h1) (by rw [hsz]; exact h2) hI
    by_cases hok : (serverStep st now p).2 = .ok
    · simp only [hok, if_true]
      exact List.nodup_cons.mpr ⟨(hiff.mp hok).2.2.2.1, hd⟩
    · simp only [hok, if_false]; exact hd

end SSV.UdpSession
