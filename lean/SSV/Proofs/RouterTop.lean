import SSV.Proofs.RouterAddr
/-
C09 helper lemmas: from one route to the router (`Router.match` + client getters vs `specMatch`).
-/
namespace SSV.Router
open SSV.Router.Spec SSV.Gen

theorem V.and_eq_t (v w : V) (h : v.and w = .t) : v = .t ∧ w = .t := by
  cases v <;> simp [V.and] at h ⊢; exact h

theorem allV_eq_t_iff (vs : List V) : allV vs = .t ↔ ∀ v ∈ vs, v = .t := by
  induction vs with
  | nil => simp [allV]
  | cons v vs ih =>
    simp only [allV, List.mem_cons, forall_eq_or_imp]
    constructor
    · intro h
      obtain ⟨a, b⟩ := V.and_eq_t _ _ h
      exact ⟨a, ih.mp b⟩
    · rintro ⟨a, b⟩
      rw [a]; exact ih.mpr b

theorem allV_eq_f (vs : List V) (h : allV vs = .f) : ∃ v ∈ vs, v = .f := by
  induction vs with
  | nil => simp [allV] at h
  | cons v vs ih =>
    simp only [allV] at h
    cases v with
    | t => obtain ⟨w, hw, e⟩ := ih h; exact ⟨w, List.mem_cons_of_mem _ hw, e⟩
    | f => exact ⟨.f, List.mem_cons_self, rfl⟩
    | e x => simp [V.and] at h

theorem allV_eq_e (vs : List V) (x : Err) (h : allV vs = .e x) : ∃ v ∈ vs, v = .e x := by
  induction vs with
  | nil => simp [allV] at h
  | cons v vs ih =>
    simp only [allV] at h
    cases v with
    | t => obtain ⟨w, hw, e⟩ := ih h; exact ⟨w, List.mem_cons_of_mem _ hw, e⟩
    | f => simp [V.and] at h
    | e y => simp only [V.and, V.e.injEq] at h; subst h; exact ⟨_, List.mem_cons_self, rfl⟩

def optRes : Option String → Res
  | some c => .client c
  | none => .rejected

theorem clientFor_tcp (r : Route) : r.clientFor .tcp = optRes r.tcpClient := by
  unfold Route.clientFor optRes; cases r.tcpClient <;> rfl

theorem clientFor_udp (r : Route) : r.clientFor .udp = optRes r.udpClient := by
  unfold Route.clientFor optRes; cases r.udpClient <;> rfl

theorem secNetwork_ok (rc : RouteConfig) (cs : List Crit) (h : secNetwork rc = .ok cs) :
    rc.network = "" ∨ rc.network = "tcp" ∨ rc.network = "udp" := by
  unfold secNetwork at h
  simp only [C09.networkNames, List.getD_cons_zero, List.getD_cons_succ] at h
  split at h
  · rename_i e; exact Or.inl e
  · split at h
    · rename_i e; exact Or.inr (Or.inl e)
    · split at h
      · rename_i e; exact Or.inr (Or.inr e)
      · cases h

theorem rejectName_eq : C09.rejectName = "reject" := rfl

/-- the client of a built route, for a request that the route matches -/
theorem clientFor_spec (p : Params) (env : Env) (rc : RouteConfig) (route : Route) (q : Req)
    (h : build env rc = .ok route) (hm : specRoute p env rc q = .t) :
    route.clientFor q.net = specClient rc.client := by
  obtain ⟨rs, cNet, clients, cSrv, cSp, cSa, cDp, cDa, _, hNet, hcl, _, _, _, _, _, rfl⟩ := build_ok env rc route h
  have hn : cNetwork rc q = .t := (allV_eq_t_iff _).mp hm _ (by simp [conds])
  unfold secClients at hcl
  unfold specClient
  rw [rejectName_eq] at hcl
  by_cases e : rc.client = "reject"
  · rw [if_pos e] at hcl; cases hcl
    rw [if_pos e]
    cases q.net <;> rfl
  · rw [if_neg e] at hcl
    rw [if_neg e]
    simp only at hcl
    by_cases c1 : ((decide (rc.network = "") || decide (rc.network = "tcp")) && !env.tcpClients.contains rc.client) = true
    · rw [if_pos c1] at hcl; cases hcl
    · rw [if_neg c1] at hcl
      by_cases c2 : ((decide (rc.network = "") || decide (rc.network = "udp")) && !env.udpClients.contains rc.client) = true
      · rw [if_pos c2] at hcl; cases hcl
      · rw [if_neg c2] at hcl
        cases hcl
        -- the network criterion: a route restricted to the other network cannot have matched
        unfold cNetwork at hn
        rcases secNetwork_ok rc cNet hNet with n0 | n1 | n2
        · cases hq : q.net <;> simp [clientFor_tcp, clientFor_udp, optRes, n0]
        · cases hq : q.net
          · simp [clientFor_tcp, optRes, n1]
          · simp [n1, hq, V.ofBool] at hn
        · cases hq : q.net
          · simp [n2, hq, V.ofBool] at hn
          · simp [clientFor_udp, optRes, n2]

def defaultOf (name : String) (clients : List String) : Res :=
  if name = "reject" then .rejected
  else if name = "" then
    match clients with
    | [c] => .client c
    | _ => .rejected
  else .client name

theorem specDefault_eq (env : Env) (cfg : Config) (net : Net) :
    specDefault env cfg net =
      (match net with
       | .tcp => defaultOf cfg.defaultTCPClientName env.tcpClients
       | .udp => defaultOf cfg.defaultUDPClientName env.udpClients) := by
  cases net <;> rfl

theorem defaultClient_spec (name : String) (clients : List String) (nf : BuildErr) (d : Option String)
    (h : defaultClient name clients nf = .ok d) : optRes d = defaultOf name clients := by
  unfold defaultClient at h
  unfold defaultOf
  rw [rejectName_eq] at h
  by_cases e1 : name = "reject"
  · rw [if_pos e1] at h; cases h; rw [if_pos e1]; rfl
  · rw [if_neg e1] at h; rw [if_neg e1]
    by_cases e2 : name = ""
    · rw [if_pos e2] at h; rw [if_pos e2]
      match clients, h with
      | [], h => cases h; rfl
      | [c], h => cases h; rfl
      | _ :: _ :: _, h => cases h; rfl
    · rw [if_neg e2] at h; rw [if_neg e2]
      by_cases e3 : clients.contains name = true
      · rw [if_pos e3] at h; cases h; rfl
      · rw [if_neg e3] at h; cases h

/-- what the specification says `Router.match` returns: the deciding route config, the default, or an error -/
inductive SpecPick where
  | route (rc : RouteConfig)
  | dflt
  | error (x : Err)

def specPick (p : Params) (env : Env) (q : Req) : List RouteConfig → SpecPick
  | [] => .dflt
  | rc :: rest =>
    match specRoute p env rc q with
    | .t => .route rc
    | .f => specPick p env q rest
    | .e x => .error x

theorem specRoutes_pick (p : Params) (env : Env) (cfg : Config) (q : Req) : ∀ rcs,
    specRoutes p env cfg q rcs =
      (match specPick p env q rcs with
       | .route rc => specClient rc.client
       | .dflt => specDefault env cfg q.net
       | .error x => .error x) := by
  intro rcs
  induction rcs with
  | nil => rfl
  | cons rc rcs ih =>
    simp only [specRoutes, specPick]
    cases specRoute p env rc q with
    | t => rfl
    | f => exact ih
    | e x => rfl

theorem specRouteNames_pick (p : Params) (env : Env) (q : Req) : ∀ rcs,
    specRouteNames p env q rcs =
      (match specPick p env q rcs with
       | .route rc => some rc.name
       | .dflt => some "default"
       | .error _ => none) := by
  intro rcs
  induction rcs with
  | nil => rfl
  | cons rc rcs ih =>
    simp only [specRouteNames, specPick]
    cases specRoute p env rc q with
    | t => rfl
    | f => exact ih
    | e x => rfl

theorem build_name (env : Env) (rc : RouteConfig) (route : Route) (h : build env rc = .ok route) :
    route.name = rc.name := by
  obtain ⟨_, _, _, _, _, _, _, _, _, _, _, _, _, _, _, _, rfl⟩ := build_ok env rc route h
  rfl

/-- `Router.match` over the built routes followed by the default route picks what the specification picks:
the route built from the deciding route config (same name, client as documented), the default route, or the error -/
theorem matchRoute_spec (p : Params) (env : Env) (q : Req) (dflt : Route)
    (hnd : env.servers.Nodup) (hq : q.WF env) (hdc : dflt.criteria = []) :
    ∀ (rcs : List RouteConfig) (rs : List Route), buildRoutes env rcs = .ok rs →
      (match specPick p env q rcs with
       | .route rc => ∃ rt, matchRoute p q (rs ++ [dflt]) = .route rt ∧ rt.name = rc.name ∧
                          rt.clientFor q.net = specClient rc.client
       | .dflt => matchRoute p q (rs ++ [dflt]) = .route dflt
       | .error x => matchRoute p q (rs ++ [dflt]) = .error x) := by
  intro rcs
  induction rcs with
  | nil =>
    intro rs h
    simp only [buildRoutes] at h; cases h
    simp [specPick, matchRoute, hdc, meetAll]
  | cons rc rcs ih =>
    intro rs h
    simp only [buildRoutes] at h
    split at h
    · cases h
    · rename_i r hr
      split at h
      · cases h
      · rename_i rs' hrs
        cases h
        simp only [List.cons_append, matchRoute, specPick, route_sound p env rc r q hnd hq hr]
        cases hv : specRoute p env rc q with
        | t => simp only [R.ofV]; exact ⟨r, rfl, build_name env rc r hr, clientFor_spec p env rc r q hr hv⟩
        | f => simp only [R.ofV]; exact ih rs' hrs
        | e x => simp only [R.ofV]

theorem router_spec (p : Params) (env : Env) (cfg : Config) (r : Router) (q : Req)
    (hnd : env.servers.Nodup) (hq : q.WF env) (h : buildRouter env cfg = .ok r) :
    getClient p r q = specMatch p env cfg q ∧ matchedRoute p r q = specMatchedRoute p env cfg q := by
  unfold buildRouter at h
  split at h
  · cases h
  · rename_i dt hdt
    split at h
    · cases h
    · rename_i du hdu
      split at h
      · cases h
      · rename_i rs hrs
        cases h
        have key := matchRoute_spec p env q
          { name := "default", criteria := [], tcpClient := dt, udpClient := du } hnd hq rfl cfg.routes rs hrs
        have hdef : Route.clientFor { name := "default", criteria := [], tcpClient := dt, udpClient := du } q.net =
            specDefault env cfg q.net := by
          rw [specDefault_eq]
          cases q.net with
          | tcp => rw [clientFor_tcp]; exact defaultClient_spec _ _ _ _ hdt
          | udp => rw [clientFor_udp]; exact defaultClient_spec _ _ _ _ hdu
        unfold getClient matchedRoute specMatch specMatchedRoute
        rw [specRoutes_pick, specRouteNames_pick]
        cases hp : specPick p env q cfg.routes with
        | route rc =>
          rw [hp] at key
          obtain ⟨rt, hm, hn, hc⟩ := key
          simp only [hm, hn, hc, and_self]
        | dflt =>
          rw [hp] at key
          simp only [key, hdef, and_self]
        | error x =>
          rw [hp] at key
          simp only [key, and_self]

theorem getClient_spec (p : Params) (env : Env) (cfg : Config) (r : Router) (q : Req)
    (hnd : env.servers.Nodup) (hq : q.WF env) (h : buildRouter env cfg = .ok r) :
    getClient p r q = specMatch p env cfg q := (router_spec p env cfg r q hnd hq h).1

theorem defaultOf_ne_panic (name : String) (clients : List String) : defaultOf name clients ≠ .panic := by
  unfold defaultOf
  split
  · simp
  · split
    · split <;> simp
    · simp

theorem specRoutes_ne_panic (p : Params) (env : Env) (cfg : Config) (q : Req) :
    ∀ rcs, specRoutes p env cfg q rcs ≠ .panic := by
  intro rcs
  induction rcs with
  | nil =>
    simp only [specRoutes]
    rw [specDefault_eq]
    cases q.net <;> exact defaultOf_ne_panic _ _
  | cons rc rcs ih =>
    simp only [specRoutes]
    split
    · unfold specClient; split <;> simp
    · exact ih
    · simp

end SSV.Router
