import SSV.Proofs.RelayLifeInv3d
namespace SSV.RelayLife
variable (cfg : Cfg)

set_option maxHeartbeats 1600000 in
theorem inv3b_stop (s s' : State)  (h1 : Inv1 s) (ha : Inv3a s) (hd : Inv3d s) (hI : Inv3b cfg s) (h : step cfg s (.stop ) = some s') : Inv3b cfg s' := by
  have a5 := h1.tab
  have a6 := h1.inTab
  clear h1
  obtain ⟨k1,u2,u3,g5,gp⟩ := ha
  obtain ⟨u1⟩ := hd
  obtain ⟨e0,e1,e2,g9⟩ := hI
  simp only [step] at h
  (repeat' split at h) <;> close_case3


end SSV.RelayLife
