import SSV.Model.SWFSpec
/-
Helper lemmas for the sliding-window filter proof (C04): bit tests, ring words,
the clearing loop, residues inside a window of `R` consecutive blocks.
-/
namespace SSV.SWF

/-- The tie to the source constant: the proofs below are for 64-bit blocks. If
`ss2022.swfBlockBits` changes, this (and with it every C04 theorem) stops checking. -/
theorem blockBits_eq : blockBits = 64 := by decide

/-- `w & (1 << j) == 0` tests bit `j`. -/
theorem and_shift_beq_zero (w j : Nat) : ((w &&& (1 <<< j)) == 0) = !w.testBit j := by
  rw [Nat.one_shiftLeft]
  cases h : w.testBit j
  · have h0 : w &&& 2 ^ j = 0 := by
      apply Nat.eq_of_testBit_eq
      intro i
      rw [Nat.testBit_and, Nat.testBit_two_pow, Nat.zero_testBit]
      by_cases hji : j = i
      · subst hji; simp [h]
      · simp [hji]
    simp [h0]
  · have h0 : w &&& 2 ^ j ≠ 0 := by
      intro h0
      have h1 := congrArg (fun x => x.testBit j) h0
      simp [Nat.testBit_and, h] at h1
    simp [h0]

theorem and_shift_bne_zero (w j : Nat) : ((w &&& (1 <<< j)) != 0) = w.testBit j := by
  have := and_shift_beq_zero w j
  simp only [bne, this, Bool.not_not]

/-- bit test of `w | (1 << j)` -/
theorem testBit_or_shift (w j i : Nat) : (w ||| (1 <<< j)).testBit i = (w.testBit i || decide (j = i)) := by
  rw [Nat.one_shiftLeft, Nat.testBit_or, Nat.testBit_two_pow]

theorem or_shift_lt (w j : Nat) (hw : w < 2 ^ 64) (hj : j < 64) : w ||| (1 <<< j) < 2 ^ 64 := by
  rw [Nat.one_shiftLeft]
  exact Nat.or_lt_two_pow hw (Nat.pow_lt_pow_right (by decide) hj)

/-- reading a ring after a write (the write index is in range) -/
theorem getD_set (l : List Nat) (i j v : Nat) (hi : i < l.length) :
    (l.set i v).getD j 0 = if i = j then v else l.getD j 0 := by
  simp only [List.getD_eq_getElem?_getD, List.getElem?_set, hi, if_true]
  split <;> simp

theorem getD_set_zero (l : List Nat) (i j : Nat) :
    (l.set i 0).getD j 0 = if i = j then 0 else l.getD j 0 := by
  simp only [List.getD_eq_getElem?_getD, List.getElem?_set]
  split
  · split <;> simp
  · rfl

/-- two blocks inside one window of `R` consecutive blocks with the same residue are equal -/
theorem mod_inj_window {R a b B : Nat} (ha : a ≤ B) (ha' : B < a + R) (hb : b ≤ B) (hb' : B < b + R)
    (h : a % R = b % R) : a = b := by
  rcases Nat.le_total a b with hab | hab
  · have h1 : (b - a) % R = 0 := Nat.sub_mod_eq_zero_of_mod_eq h.symm
    have h2 : (b - a) % R = b - a := Nat.mod_eq_of_lt (by omega)
    omega
  · have h1 : (a - b) % R = 0 := Nat.sub_mod_eq_zero_of_mod_eq h
    have h2 : (a - b) % R = a - b := Nat.mod_eq_of_lt (by omega)
    omega

/-! ### the clearing loop -/

theorem clearLoop_length (mask n i : Nat) (ring : List Nat) :
    (clearLoop mask n i ring).length = ring.length := by
  induction n generalizing i ring with
  | zero => rfl
  | succ n ih => simp [clearLoop, ih]

/-- a zero word stays zero -/
theorem clearLoop_zero (mask n i j : Nat) (ring : List Nat) (h : ring.getD j 0 = 0) :
    (clearLoop mask n i ring).getD j 0 = 0 := by
  induction n generalizing i ring with
  | zero => exact h
  | succ n ih =>
    simp only [clearLoop]
    apply ih
    rw [getD_set_zero]
    split
    · rfl
    · exact h

/-- the `t`-th iteration (1-based) clears index `(i+t) % R` -/
theorem clearLoop_cleared (k n i t : Nat) (ring : List Nat) (h1 : 1 ≤ t) (hn : t ≤ n) :
    (clearLoop (2 ^ k - 1) n i ring).getD ((i + t) % 2 ^ k) 0 = 0 := by
  induction n generalizing i ring t with
  | zero => omega
  | succ n ih =>
    simp only [clearLoop, Nat.and_two_pow_sub_one_eq_mod]
    by_cases ht : t = 1
    · subst ht
      apply clearLoop_zero
      rw [getD_set_zero]; simp
    · have := ih ((i + 1) % 2 ^ k) (t - 1) (ring.set ((i + 1) % 2 ^ k) 0) (by omega) (by omega)
      rw [Nat.mod_add_mod] at this
      have e : i + 1 + (t - 1) = i + t := by omega
      rw [e] at this
      exact this

/-- an index that no iteration hits keeps its word -/
theorem clearLoop_kept (k n i j : Nat) (ring : List Nat)
    (h : ∀ t, 1 ≤ t → t ≤ n → (i + t) % 2 ^ k ≠ j) :
    (clearLoop (2 ^ k - 1) n i ring).getD j 0 = ring.getD j 0 := by
  induction n generalizing i ring with
  | zero => rfl
  | succ n ih =>
    simp only [clearLoop, Nat.and_two_pow_sub_one_eq_mod]
    rw [ih]
    · rw [getD_set_zero]
      have := h 1 (by omega) (by omega)
      simp [this]
    · intro t h1 hn
      rw [Nat.mod_add_mod]
      have := h (t + 1) (by omega) (by omega)
      have e : i + 1 + t = i + (t + 1) := by omega
      rw [e]; exact this

/-- every index the loop writes is inside the ring (no index-out-of-range in the code) -/
theorem clearLoop_index_lt (k i : Nat) : (i + 1) &&& (2 ^ k - 1) < 2 ^ k := by
  rw [Nat.and_two_pow_sub_one_eq_mod]
  exact Nat.mod_lt _ (Nat.two_pow_pos k)

end SSV.SWF
