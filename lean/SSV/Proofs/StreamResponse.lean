import SSV.Proofs.StreamRun
/-
C01, layer 2, server → client: the server's first write (`prepareInitWriteBufs` / `initWrite`) and
the client's `initRead` / `readFirstPayloadChunk`.
-/
namespace SSV.Stream
open SSV.Gen.C01

theorem unbeN_append_singleton (xs : Bytes) (b : UInt8) : unbeN (xs ++ [b]) = unbeN xs * 256 + b.toNat := by
  simp [unbeN, List.foldl_append]

theorem beN_length (k n : Nat) : (beN k n).length = k := by
  induction k generalizing n with
  | zero => rfl
  | succ k ih => simp [beN, ih]

theorem unbeN_beN (k n : Nat) : unbeN (beN k n) = n % 256 ^ k := by
  induction k generalizing n with
  | zero => simp [beN, unbeN, Nat.mod_one]
  | succ k ih =>
    rw [beN, unbeN_append_singleton, ih, UInt8.toNat_ofNat']
    have h256 : (2:Nat) ^ 8 = 256 := rfl
    rw [h256, Nat.mod_mod, Nat.pow_succ, Nat.mul_comm (256 ^ k) 256, Nat.mod_mul]
    omega

theorem unbeN_be64 (ts : Nat) (h : ts < 2 ^ 64) : unbeN (be64 ts) = ts := by
  rw [be64, unbeN_beN]
  exact Nat.mod_eq_of_lt (by simpa using h)

theorem be64_length (ts : Nat) : (be64 ts).length = 8 := beN_length 8 ts

/-- the clocks agree within `MaxEpochDiff` seconds -/
def ClockOK (ts : Nat) (now : Int) : Prop := ts < 2 ^ 63 ∧ tsOk ts now = true

theorem parseRespHeader_respHeader (ts : Nat) (now : Int) (reqSalt : Bytes) (len : Nat)
    (hts : ClockOK ts now) (h0 : len ≠ 0) (hl : len < 65536) :
    parseRespHeader (respHeader ts reqSalt len) now reqSalt = .ok len := by
  have h8 := be64_length ts
  have hh : respHeader ts reqSalt len = UInt8.ofNat HeaderTypeServerStream :: (be64 ts ++ (reqSalt ++ be16 len)) := by
    simp [respHeader]
  have e1 : ((respHeader ts reqSalt len).headD 0).toNat = HeaderTypeServerStream := by
    rw [hh]; rfl
  have e2 : ((respHeader ts reqSalt len).drop 1).take 8 = be64 ts := by
    rw [hh, List.drop_succ_cons, List.drop_zero, ← h8, List.take_left]
  have e3 : (respHeader ts reqSalt len).drop 9 = reqSalt ++ be16 len := by
    rw [hh, List.drop_succ_cons, ← h8, List.drop_left]
  have e4 : (respHeader ts reqSalt len).drop (9 + reqSalt.length) = be16 len := by
    rw [← List.drop_drop, e3, List.drop_left]
  unfold parseRespHeader
  rw [if_neg (by rw [e1]; simp), e2, unbeN_be64 ts (by have := hts.1; omega), hts.2]
  simp only [Bool.not_true, Bool.false_eq_true, ↓reduceIte, e3, List.take_left, ne_eq, not_true_eq_false, e4]
  have : unbe16 (be16 len) = len := by simpa using unbe16_be16 len hl []
  rw [this, if_neg h0]

/-- the first-chunk capacity lies between 4096 and the chunk limit -/
theorem firstCap_bounds (pl sl : Nat) (ch : RespChoice) (h : CapsOk pl sl ch = true) :
    4096 ≤ firstCap pl sl ch ∧ firstCap pl sl ch ≤ streamMaxPayloadSize := by
  simp only [CapsOk, Bool.and_eq_true, Bool.or_eq_true, decide_eq_true_eq] at h
  simp only [firstCap]
  have hs : streamMaxPayloadSize = 65535 := rfl
  have hw : streamWriteBufferSize = 65569 := rfl
  have ht : tagSize = 16 := rfl
  split <;> omega

/-- what the client's first read does on a genuine response: the transport delivered
`respPrefix ++ salt ++ seal(header) ++ seal(p0) ++ chunks…` and the first read (one `Read`, or
`io.ReadFull` when segmented headers are allowed) returned the fixed-length part. -/
theorem initRead_genuine {C : Crypto} (hC : AeadOK C) (c : CReader) (now : Int) (ch : RespChoice) (p0 rest : Bytes)
    (hr : c.r = none) (hsalt : ch.salt.length = c.psk.length)
    (hts : ClockOK ch.ts now) (h0 : p0.length ≠ 0) (hl : p0.length ≤ streamMaxPayloadSize)
    (hfr : firstRead c.allowSeg
        (c.respPrefix.length + c.psk.length + TCPRequestFixedLengthHeaderLength + c.psk.length + tagSize) c.segs =
      .ok (c.respPrefix ++ ch.salt ++ C.enc (C.kdf c.psk ch.salt) 0 (respHeader ch.ts c.reqSalt p0.length))
          (C.enc (C.kdf c.psk ch.salt) 1 p0 ++ rest)) :
    ∃ c1 c2, initRead C c now = (.ok p0.length, c1) ∧ firstPayload C c1 p0.length = (.ok p0, c2) ∧
      c2.r = some ⟨C.kdf c.psk ch.salt, 2, [], rest⟩ ∧ c2.psk = c.psk := by
  have hs : streamMaxPayloadSize = 65535 := rfl
  have hpre : (c.respPrefix ++ ch.salt ++ C.enc (C.kdf c.psk ch.salt) 0 (respHeader ch.ts c.reqSalt p0.length)).take c.respPrefix.length = c.respPrefix := by
    rw [List.append_assoc, List.take_left]
  have hsl : ((c.respPrefix ++ ch.salt ++ C.enc (C.kdf c.psk ch.salt) 0 (respHeader ch.ts c.reqSalt p0.length)).drop c.respPrefix.length).take c.psk.length = ch.salt := by
    rw [List.append_assoc, List.drop_left, ← hsalt, List.take_left]
  have hct : (c.respPrefix ++ ch.salt ++ C.enc (C.kdf c.psk ch.salt) 0 (respHeader ch.ts c.reqSalt p0.length)).drop (c.respPrefix.length + c.psk.length) =
      C.enc (C.kdf c.psk ch.salt) 0 (respHeader ch.ts c.reqSalt p0.length) := by
    rw [← hsalt, ← List.length_append, List.drop_left]
  have hparse := parseRespHeader_respHeader ch.ts now c.reqSalt p0.length hts h0 (by omega)
  have hlen2 : (C.enc (C.kdf c.psk ch.salt) 1 p0).length = p0.length + tagSize := hC.enc_len _ _ _
  have e1 : initRead C c now = (.ok p0.length,
      { c with segs := [], r := some ⟨C.kdf c.psk ch.salt, 1, [], C.enc (C.kdf c.psk ch.salt) 1 p0 ++ rest⟩ }) := by
    unfold initRead
    simp only [hfr, hpre, ne_eq, not_true_eq_false, ↓reduceIte, hsl, hct, hC.dec_enc, hparse]
  refine ⟨_, { c with segs := [], r := some ⟨C.kdf c.psk ch.salt, 2, [], rest⟩ }, e1, ?_, rfl, rfl⟩
  simp only [firstPayload]
  rw [readFull_ok _ _ _ hlen2 (by have : tagSize = 16 := rfl; omega)]
  simp only [hC.dec_enc]

end SSV.Stream

namespace SSV.Stream
open SSV.Gen.C01

/-- the wire image of a response: prefix, salt, sealed header announcing `p0`, sealed `p0`, then
ordinary chunks from nonce 2 -/
def respWire (C : Crypto) (s : SWriter) (ch : RespChoice) (p0 : Bytes) (cs : List Bytes) : Bytes :=
  s.respPrefix ++ ch.salt ++ C.enc (C.kdf s.psk ch.salt) 0 (respHeader ch.ts s.reqSalt p0.length) ++
    (C.enc (C.kdf s.psk ch.salt) 1 p0 ++ encodeChunks C (C.kdf s.psk ch.salt) 2 cs)

/-- `ShadowStreamServerConn.Write` on a conn that has not written yet: the first
`firstCap` bytes travel with the response header, the rest as ordinary chunks; later calls continue
from the writer it leaves behind. -/
theorem SWriter_first_write (C : Crypto) (s : SWriter) (hs : s.w = none) (ch : RespChoice) (b : Bytes)
    (hb : b.length ≠ 0) (later : List Bytes) (cap : Nat) (hcap : cap = firstCap s.respPrefix.length s.psk.length ch) :
    ∃ w1, (s.write C ch b).2.w = some w1 ∧
      ((s.write C ch b).1 ++ (w1.emit C later).1).flatten =
        respWire C s ch (b.take cap) (writeChunks (b.drop cap) ++ later) := by
  subst hcap
  have h1 := emit_flatten C ⟨C.kdf s.psk ch.salt, 2⟩ (writeChunks (b.drop (firstCap s.respPrefix.length s.psk.length ch)))
  have h2 := emit_flatten C ⟨C.kdf s.psk ch.salt, 2 + 2 * (writeChunks (b.drop (firstCap s.respPrefix.length s.psk.length ch))).length⟩ later
  simp only at h1 h2
  refine ⟨⟨C.kdf s.psk ch.salt, 2 + 2 * (writeChunks (b.drop (firstCap s.respPrefix.length s.psk.length ch))).length⟩, ?_, ?_⟩
  · simp only [SWriter.write, hb, ↓reduceIte, hs, initWrite]
    rw [h1.2.1]
  · simp only [SWriter.write, hb, ↓reduceIte, hs, initWrite, List.flatten_append, List.flatten_cons, respWire]
    rw [h1.1, h2.1, encodeChunks_append]
    simp only [List.append_assoc]

/-- the client's first call on a genuine response (prefix, salt and keys as configured on both
sides, the request salt the server saw = the one the client sent), and the state it leaves: a plain
reader in sync with the remaining chunks. -/
theorem client_first_call {C : Crypto} (hC : AeadOK C) (ch : RespChoice) (p0 : Bytes) (cs : List Bytes)
    (c : CReader) (now : Int)
    (hr : c.r = none) (hsalt : ch.salt.length = c.psk.length) (hts : ClockOK ch.ts now)
    (h0 : p0.length ≠ 0) (hl : p0.length ≤ streamMaxPayloadSize) (hv : ValidChunks cs)
    (hfr : firstRead c.allowSeg
        (c.respPrefix.length + c.psk.length + TCPRequestFixedLengthHeaderLength + c.psk.length + tagSize) c.segs =
      .ok (c.respPrefix ++ ch.salt ++ C.enc (C.kdf c.psk ch.salt) 0 (respHeader ch.ts c.reqSalt p0.length))
          (C.enc (C.kdf c.psk ch.salt) 1 p0 ++ encodeChunks C (C.kdf c.psk ch.salt) 2 cs)) :
    (∀ n, ∃ r', (c.read C now n).2.r = some r' ∧ Sync C r' cs ∧ (c.read C now n).1.err = none ∧
        p0 = (c.read C now n).1.bytes ++ r'.left ∧ (0 < n → (c.read C now n).1.bytes ≠ [])) ∧
    (c.writeTo C now).1 = .copied (p0 :: cs) none ∧
    (∀ started, (c.tunnel C now started).1 = .copied (p0 :: cs) none) := by
  obtain ⟨c1, c2, hi, hp, hr2, _⟩ := initRead_genuine hC c now ch p0 _ hr hsalt hts h0 hl hfr
  have hsync : Sync C ⟨C.kdf c.psk ch.salt, 2, [], encodeChunks C (C.kdf c.psk ch.salt) 2 cs⟩ cs :=
    ⟨rfl, hv⟩
  have hfuel : cs.length < (encodeChunks C (C.kdf c.psk ch.salt) 2 cs).length + 1 := by
    have := encodeChunks_length_ge hC (C.kdf c.psk ch.salt) 2 cs; omega
  have hf1 : writeToFlushesLeftover = true := by decide
  have hf2 : tunnelFlushesLeftover = true := by decide
  have hp0 : p0 ≠ [] := fun h => h0 (by simp [h])
  refine ⟨fun n => ?_, ?_, fun started => ?_⟩
  · simp only [CReader.read, hr, hi, hp]
    by_cases hbuf : p0.length + tagSize ≤ n
    · simp only [hbuf, ↓reduceIte, hr2]
      exact ⟨_, rfl, hsync, rfl, by simp [ROut.bytes], fun _ => by simpa [ROut.bytes] using hp0⟩
    · simp only [hbuf, ↓reduceIte, hr2, Option.map_some]
      refine ⟨_, rfl, ⟨hsync.wire, hsync.valid⟩, rfl, by simp [ROut.bytes], fun hn => ?_⟩
      simp only [ROut.bytes, ne_eq, List.take_eq_nil_iff, not_or]
      exact ⟨by omega, hp0⟩
  · simp only [CReader.writeTo, hr, CReader.firstCopy, hi, hp, hr2, Reader.writeTo, hf1, ↓reduceIte, List.length_nil]
    rw [copyLoop_sync hC cs _ _ [] hsync hfuel]
    simp [ROut.prepend]
  · simp only [CReader.tunnel, hr, CReader.firstCopy, hi, hp, hr2, Reader.tunnel, hf2, ↓reduceIte, List.length_nil]
    rw [copyLoop_sync hC cs _ _ [] hsync hfuel]
    simp [ROut.prepend]

end SSV.Stream

namespace SSV.Stream
open SSV.Gen.C01

/-- the bytes the server's first `ReadFrom` takes from its source: the first bytes the source hands
over travel with the response header — an error returned together with them is dropped when they fit
the first-chunk buffer, and the conn's `ReadFrom` reads on —, then everything up to and including the
first result that carries an error -/
def Src.takenServerFirst (cap : Nat) : Src → Bytes
  | [] => []
  | it :: rest =>
    if it.data.length = 0 then
      match it.err with
      | none => Src.takenServerFirst cap rest
      | some _ => []
    else if it.data.length ≤ cap then it.data ++ Src.taken rest
    else Src.taken (it :: rest)

/-- the first loop of `readFromGeneric`: it finds the first bytes the source hands over, also when
they come together with `io.EOF` or another error. Depends on the regenerated fact
`serverFirstReadHandlesDataFirst`. -/
theorem firstData_spec (cap : Nat) (hc0 : 0 < cap) :
    ∀ (fuel : Nat) (s : Src), s.size < fuel →
      match firstData cap fuel s with
      | (none, _, _) => Src.takenServerFirst cap s = []
      | (some p0, _, rest) => p0.length ≠ 0 ∧ p0.length ≤ cap ∧ Src.takenServerFirst cap s = p0 ++ Src.taken rest := by
  have hf : serverFirstReadHandlesDataFirst = true := by decide
  intro fuel
  induction fuel with
  | zero => intro s h; omega
  | succ f ih =>
    intro s hsz
    cases s with
    | nil => simp [firstData, Src.read, Src.takenServerFirst]
    | cons it rest =>
      by_cases hle : it.data.length ≤ cap
      · have hrd : Src.read cap (it :: rest) = ((it.data, it.err), rest) := by simp [Src.read, hle]
        by_cases h0 : it.data.length > 0
        · have h0' : it.data.length ≠ 0 := by omega
          simp only [firstData, hrd, hf, h0, decide_true, Bool.true_or, Bool.and_self, ↓reduceIte]
          exact ⟨h0', hle, by simp [Src.takenServerFirst, h0', hle]⟩
        · have h00 : it.data.length = 0 := by omega
          cases herr : it.err with
          | none =>
            have hsz' : Src.size rest < f := by simp [Src.size] at hsz; omega
            have := ih rest hsz'
            simp only [firstData, hrd, h0, decide_false, Bool.false_and, herr]
            simpa [Src.takenServerFirst, h00, herr] using this
          | some e =>
            cases e <;> simp [firstData, hrd, h0, herr, Src.takenServerFirst, h00]
      · have hgt : cap < it.data.length := by omega
        have hrd : Src.read cap (it :: rest) = ((it.data.take cap, none), { it with data := it.data.drop cap } :: rest) := by
          simp [Src.read, hle]
        have h0 : 0 < min cap it.data.length := by omega
        simp only [firstData, hrd, List.length_take, h0, decide_true, Option.isNone_none, Bool.or_true, Bool.and_self, ↓reduceIte]
        refine ⟨by omega, by omega, ?_⟩
        have hne : it.data.length ≠ 0 := by omega
        simp only [Src.takenServerFirst, hne, ↓reduceIte, hle, Src.taken]
        cases it.err with
        | none => simp only []; rw [← List.append_assoc, List.take_append_drop]
        | some e => simp only []; rw [List.take_append_drop]

/-- `readFromGeneric` on a conn that has not written yet: nothing is written only if the source hands
over nothing; otherwise the wire is a response whose first payload and chunks are exactly the bytes
taken from the source -/
theorem SWriter_first_readFrom (C : Crypto) (s : SWriter) (hs : s.w = none) (ch : RespChoice) (src : Src)
    (hcap : 0 < firstCap s.respPrefix.length s.psk.length ch) :
    (Src.takenServerFirst (firstCap s.respPrefix.length s.psk.length ch) src = [] ∧ (s.readFrom C ch src).1 = []) ∨
    ∃ p0 cs, p0.length ≠ 0 ∧ p0.length ≤ firstCap s.respPrefix.length s.psk.length ch ∧ ValidChunks cs ∧
      p0 ++ cs.flatten = Src.takenServerFirst (firstCap s.respPrefix.length s.psk.length ch) src ∧
      (s.readFrom C ch src).1.flatten = respWire C s ch p0 cs := by
  have h := firstData_spec _ hcap (src.size + 1) src (by omega)
  cases hfd : firstData (firstCap s.respPrefix.length s.psk.length ch) (src.size + 1) src with
  | mk o re =>
    obtain ⟨e, rest⟩ := re
    rw [hfd] at h
    cases o with
    | none =>
      left
      exact ⟨h, by simp [SWriter.readFrom, hs, hfd]⟩
    | some p0 =>
      right
      obtain ⟨h1, h2, h3⟩ := h
      have hsp := connReadFrom_spec rest
      have hem := emit_flatten C ⟨C.kdf s.psk ch.salt, 2⟩ (connReadFrom rest).1
      refine ⟨p0, (connReadFrom rest).1, h1, h2, hsp.1, by rw [hsp.2.1, h3], ?_⟩
      simp only [SWriter.readFrom, hs, hfd, initWrite, List.flatten_cons, respWire]
      rw [hem.1]
      simp only [List.append_assoc]

end SSV.Stream

namespace SSV.Stream
open SSV.Gen.C01

/-- the client's first call when the transport carries `respWire … p0 cs` and hands the first read its
fixed-length part -/
theorem client_first_call_respWire {C : Crypto} (hC : AeadOK C) (s : SWriter) (ch : RespChoice) (p0 : Bytes) (cs : List Bytes)
    (c : CReader) (now : Int) (hts : ClockOK ch.ts now) (hsalt : ch.salt.length = s.psk.length)
    (hr : c.r = none) (hpsk : c.psk = s.psk) (hpre : c.respPrefix = s.respPrefix) (hrs : c.reqSalt = s.reqSalt)
    (hrsl : s.reqSalt.length = s.psk.length)
    (h0 : p0.length ≠ 0) (hl : p0.length ≤ streamMaxPayloadSize) (hv : ValidChunks cs)
    (hfr : firstRead c.allowSeg (c.respPrefix.length + c.psk.length + TCPRequestFixedLengthHeaderLength + c.psk.length + tagSize) c.segs =
        .ok ((respWire C s ch p0 cs).take (c.respPrefix.length + c.psk.length + TCPRequestFixedLengthHeaderLength + c.psk.length + tagSize))
            ((respWire C s ch p0 cs).drop (c.respPrefix.length + c.psk.length + TCPRequestFixedLengthHeaderLength + c.psk.length + tagSize))) :
    (∀ n, ∃ r', (c.read C now n).2.r = some r' ∧ Sync C r' cs ∧ (c.read C now n).1.err = none ∧
        p0 = (c.read C now n).1.bytes ++ r'.left ∧ (0 < n → (c.read C now n).1.bytes ≠ [])) ∧
    (c.writeTo C now).1 = .copied (p0 :: cs) none ∧
    (∀ started, (c.tunnel C now started).1 = .copied (p0 :: cs) none) := by
  have hlenfix : (s.respPrefix ++ ch.salt ++ C.enc (C.kdf s.psk ch.salt) 0 (respHeader ch.ts s.reqSalt p0.length)).length =
      s.respPrefix.length + s.psk.length + TCPRequestFixedLengthHeaderLength + s.psk.length + tagSize := by
    simp only [List.length_append, hC.enc_len, respHeader, List.length_cons, be64_length, be16_length, hsalt, hrsl]
    have : TCPRequestFixedLengthHeaderLength = 11 := rfl
    omega
  rw [hpre, hpsk] at hfr
  have htake : (respWire C s ch p0 cs).take
      (s.respPrefix.length + s.psk.length + TCPRequestFixedLengthHeaderLength + s.psk.length + tagSize) =
      s.respPrefix ++ ch.salt ++ C.enc (C.kdf s.psk ch.salt) 0 (respHeader ch.ts s.reqSalt p0.length) := by
    rw [respWire, ← hlenfix, List.take_left]
  have hdrop : (respWire C s ch p0 cs).drop
      (s.respPrefix.length + s.psk.length + TCPRequestFixedLengthHeaderLength + s.psk.length + tagSize) =
      C.enc (C.kdf s.psk ch.salt) 1 p0 ++ encodeChunks C (C.kdf s.psk ch.salt) 2 cs := by
    rw [respWire, ← hlenfix, List.drop_left]
  rw [htake, hdrop] at hfr
  have hfr2 : firstRead c.allowSeg
      (c.respPrefix.length + c.psk.length + TCPRequestFixedLengthHeaderLength + c.psk.length + tagSize) c.segs =
      .ok (c.respPrefix ++ ch.salt ++ C.enc (C.kdf c.psk ch.salt) 0 (respHeader ch.ts c.reqSalt p0.length))
          (C.enc (C.kdf c.psk ch.salt) 1 p0 ++ encodeChunks C (C.kdf c.psk ch.salt) 2 cs) := by
    rw [hpre, hpsk, hrs]; exact hfr
  exact client_first_call hC ch p0 cs c now hr (by rw [hpsk]; exact hsalt) hts h0 hl hv hfr2

end SSV.Stream
