import SSV.Proofs.RelayLifeInv1
import SSV.Proofs.RelayLifeInv6
import SSV.Proofs.RelayLifeInv3d
/-
C12: a ranking function of the relay.  `measure` strictly decreases on every step of a goroutine of the relay
(`Ev.internal`); only the environment (a client datagram, the next message of a received batch, a datagram from the
target, the call of Stop) and the NAT timer are not counted.  Hence between two environment events the relay makes at
most `measure s` steps, and after Stop was called (no client datagram is accepted any more) every run of the relay's own
steps ends within `measure s` steps — a bound in terms of queued packets and program positions (in-flight work), in which
the NAT timeout does not occur.
-/
namespace SSV.RelayLife

def IPc.rank : IPc → Nat
  | .getClient => 15 | .newSession => 14 | .listen => 13 | .setDl => 12 | .newPacker => 11 | .swap => 10 | .spawn => 9
  | .dProc => 8 | .dRead => 7 | .cLock => 6 | .cClose => 5 | .cDelete => 4 | .cUnlock => 3 | .cDrain => 2 | .done => 0
def UPc.rank : UPc → Nat
  | .none => 7 | .send => 6 | .arm => 5 | .check => 4 | .force => 3 | .recv => 2 | .closeSock => 1 | .done => 0
def RPc.rank : RPc → Nat
  | .done => 0 | .read => 1 | .unlock => 2 | .hold _ => 40 | .wantLock _ => 41
def SPc.rank : SPc → Nat
  | .idle => 50 | .dlServer => 40 | .waitMwg => 38 | .lock => 36 | .iter => 34 | .pend _ => 33 | .unlock => 32
  | .waitWg => 30 | .closeSrv => 28 | .done => 0
theorem IPc.rank_getClient : IPc.rank .getClient = 15 := rfl
theorem IPc.rank_newSession : IPc.rank .newSession = 14 := rfl
theorem IPc.rank_listen : IPc.rank .listen = 13 := rfl
theorem IPc.rank_setDl : IPc.rank .setDl = 12 := rfl
theorem IPc.rank_newPacker : IPc.rank .newPacker = 11 := rfl
theorem IPc.rank_swap : IPc.rank .swap = 10 := rfl
theorem IPc.rank_spawn : IPc.rank .spawn = 9 := rfl
theorem IPc.rank_dProc : IPc.rank .dProc = 8 := rfl
theorem IPc.rank_dRead : IPc.rank .dRead = 7 := rfl
theorem IPc.rank_cLock : IPc.rank .cLock = 6 := rfl
theorem IPc.rank_cClose : IPc.rank .cClose = 5 := rfl
theorem IPc.rank_cDelete : IPc.rank .cDelete = 4 := rfl
theorem IPc.rank_cUnlock : IPc.rank .cUnlock = 3 := rfl
theorem IPc.rank_cDrain : IPc.rank .cDrain = 2 := rfl
theorem IPc.rank_done : IPc.rank .done = 0 := rfl
theorem UPc.rank_none : UPc.rank .none = 7 := rfl
theorem UPc.rank_send : UPc.rank .send = 6 := rfl
theorem UPc.rank_arm : UPc.rank .arm = 5 := rfl
theorem UPc.rank_check : UPc.rank .check = 4 := rfl
theorem UPc.rank_force : UPc.rank .force = 3 := rfl
theorem UPc.rank_recv : UPc.rank .recv = 2 := rfl
theorem UPc.rank_closeSock : UPc.rank .closeSock = 1 := rfl
theorem UPc.rank_done : UPc.rank .done = 0 := rfl
theorem RPc.rank_done : RPc.rank .done = 0 := rfl
theorem RPc.rank_read : RPc.rank .read = 1 := rfl
theorem RPc.rank_unlock : RPc.rank .unlock = 2 := rfl
theorem RPc.rank_hold (c : Nat) : RPc.rank (.hold c) = 40 := rfl
theorem RPc.rank_wantLock (c : Nat) : RPc.rank (.wantLock c) = 41 := rfl
theorem SPc.rank_idle : SPc.rank .idle = 50 := rfl
theorem SPc.rank_dlServer : SPc.rank .dlServer = 40 := rfl
theorem SPc.rank_waitMwg : SPc.rank .waitMwg = 38 := rfl
theorem SPc.rank_lock : SPc.rank .lock = 36 := rfl
theorem SPc.rank_iter : SPc.rank .iter = 34 := rfl
theorem SPc.rank_unlock : SPc.rank .unlock = 32 := rfl
theorem SPc.rank_waitWg : SPc.rank .waitWg = 30 := rfl
theorem SPc.rank_closeSrv : SPc.rank .closeSrv = 28 := rfl
theorem SPc.rank_done : SPc.rank .done = 0 := rfl
theorem SPc.rank_pend (i : Nat) : SPc.rank (.pend i) = 33 := rfl

def Entry.mu (e : Entry) : Nat := e.ipc.rank + (e.q * 7 + e.upc.rank) + (if e.visited then 0 else 2)

def emuF : Nat → (Nat → Entry) → Nat
  | 0, _ => 0
  | n + 1, ent => emuF n ent + (ent n).mu

def measure (s : State) : Nat := s.spc.rank + s.rpc.rank + emuF s.n s.ent

theorem emuF_congr (n : Nat) (f g : Nat → Entry) (h : ∀ j, j < n → f j = g j) : emuF n f = emuF n g := by
  induction n with
  | zero => rfl
  | succ n ih => simp only [emuF]; rw [ih (fun j hj => h j (by omega)), h n (by omega)]

theorem mu_le_emuF (n : Nat) (ent : Nat → Entry) (i : Nat) (hi : i < n) : (ent i).mu ≤ emuF n ent := by
  induction n with
  | zero => omega
  | succ n ih =>
    simp only [emuF]
    by_cases h : i = n
    · subst h; omega
    · have := ih (by omega); omega

theorem emuF_upd (n : Nat) (ent : Nat → Entry) (i : Nat) (e' : Entry) (hi : i < n) :
    emuF n (fun j => if j = i then e' else ent j) = emuF n ent - (ent i).mu + e'.mu := by
  induction n with
  | zero => omega
  | succ n ih =>
    simp only [emuF]
    by_cases h : i = n
    · subst h
      have : emuF i (fun j => if j = i then e' else ent j) = emuF i ent := emuF_congr _ _ _ (fun j hj => by simp; omega)
      simp [this]
      try omega
    · have h1 := ih (by omega)
      have h2 := mu_le_emuF n ent i (by omega)
      simp [h1, Ne.symm h]; omega

theorem emuF_new (n : Nat) (ent : Nat → Entry) (e' : Entry) :
    emuF (n + 1) (fun j => if j = n then e' else ent j) = emuF n ent + e'.mu := by
  simp only [emuF, if_true]
  rw [emuF_congr n _ ent (fun j hj => by simp; omega)]

variable (cfg : Cfg)

set_option hygiene false in
macro "dec_close" : tactic => `(tactic| (
  simp_all [Entry.mu, Entry.closeIf, Entry.closeSock, Entry.fresh, IPc.rank_getClient, IPc.rank_newSession, IPc.rank_listen, IPc.rank_setDl, IPc.rank_newPacker, IPc.rank_swap, IPc.rank_spawn, IPc.rank_dProc, IPc.rank_dRead, IPc.rank_cLock, IPc.rank_cClose, IPc.rank_cDelete, IPc.rank_cUnlock, IPc.rank_cDrain, IPc.rank_done, UPc.rank_none, UPc.rank_send, UPc.rank_arm, UPc.rank_check, UPc.rank_force, UPc.rank_recv, UPc.rank_closeSock, UPc.rank_done, RPc.rank_done, RPc.rank_read, RPc.rank_unlock, RPc.rank_hold, RPc.rank_wantLock, SPc.rank_idle, SPc.rank_dlServer, SPc.rank_waitMwg, SPc.rank_lock, SPc.rank_iter, SPc.rank_unlock, SPc.rank_waitWg, SPc.rank_closeSrv, SPc.rank_done, SPc.rank_pend]
  all_goals (repeat' split)
  all_goals (try simp_all [Entry.mu, IPc.rank_getClient, IPc.rank_newSession, IPc.rank_listen, IPc.rank_setDl, IPc.rank_newPacker, IPc.rank_swap, IPc.rank_spawn, IPc.rank_dProc, IPc.rank_dRead, IPc.rank_cLock, IPc.rank_cClose, IPc.rank_cDelete, IPc.rank_cUnlock, IPc.rank_cDrain, IPc.rank_done, UPc.rank_none, UPc.rank_send, UPc.rank_arm, UPc.rank_check, UPc.rank_force, UPc.rank_recv, UPc.rank_closeSock, UPc.rank_done, RPc.rank_done, RPc.rank_read, RPc.rank_unlock, RPc.rank_hold, RPc.rank_wantLock, SPc.rank_idle, SPc.rank_dlServer, SPc.rank_waitMwg, SPc.rank_lock, SPc.rank_iter, SPc.rank_unlock, SPc.rank_waitWg, SPc.rank_closeSrv, SPc.rank_done, SPc.rank_pend])
  all_goals omega))

set_option hygiene false in
macro "dec_upd" hi:term : tactic => `(tactic| (
  injection hs with hs; subst hs
  simp only [measure, State.setE, emuF_upd _ _ _ _ $hi]
  dec_close))

set_option hygiene false in
macro "dec_glob" : tactic => `(tactic| (
  injection hs with hs; subst hs
  simp only [measure, State.setE]
  dec_close))

-- events of entry `i` guarded by `i < s.n`
set_option hygiene false in
macro "dec_entry" : tactic => `(tactic| (
  by_cases hi : i < s.n
  · have hle := mu_le_emuF s.n s.ent i hi
    simp only [step, hi, true_and, if_true] at hs
    (repeat' split at hs) <;> first
      | (simp at hs; done)
      | dec_upd hi
  · simp [step, hi] at hs))

theorem dec_init (s s' : State) (i : Nat) (ok : Bool) (hd : Inv3d s) (hs : step cfg s (.init i ok) = some s') : measure s' < measure s := by
  by_cases hi : i < s.n
  · have hle := mu_le_emuF s.n s.ent i hi
    have hu := hd.u1 i hi
    simp only [step, hi, if_true] at hs
    (repeat' split at hs) <;> first
      | (simp at hs; done)
      | (injection hs with hs; subst hs
         simp only [measure, State.setE, emuF_upd _ _ _ _ hi]
         simp_all [IPc.idx]
         dec_close)
  · simp [step, hi] at hs
theorem dec_dTimeout (s s' : State) (i : Nat) (hs : step cfg s (.dTimeout i) = some s') : measure s' < measure s := by dec_entry
theorem dec_dSend (s s' : State) (i : Nat) (hs : step cfg s (.dSend i) = some s') : measure s' < measure s := by dec_entry
theorem dec_cleanup (s s' : State) (i : Nat) (hs : step cfg s (.cleanup i) = some s') : measure s' < measure s := by dec_entry
theorem dec_uRecv (s s' : State) (i k : Nat) (hs : step cfg s (.uRecv i k) = some s') : measure s' < measure s := by dec_entry
theorem dec_uStep (s s' : State) (i : Nat) (hs : step cfg s (.uStep i) = some s') : measure s' < measure s := by dec_entry
theorem dec_uFail (s s' : State) (i : Nat) (hs : step cfg s (.uFail i) = some s') : measure s' < measure s := by dec_entry

theorem dec_stopVisit (s s' : State) (i : Nat) (hs : step cfg s (.stopVisit i) = some s') : measure s' < measure s := by
  by_cases hi : i < s.n
  · have hle := mu_le_emuF s.n s.ent i hi
    simp only [step, hi, true_and] at hs
    (repeat' split at hs) <;> first
      | (simp at hs; done)
      | dec_upd hi
  · simp [step, hi] at hs

theorem dec_rLock (s s' : State) (hs : step cfg s .rLock = some s') : measure s' < measure s := by
  simp only [step] at hs
  (repeat' split at hs) <;> first | (simp at hs; done) | dec_glob
theorem dec_rUnlock (s s' : State) (hs : step cfg s .rUnlock = some s') : measure s' < measure s := by
  simp only [step] at hs
  (repeat' split at hs) <;> first | (simp at hs; done) | dec_glob
theorem dec_rExit (s s' : State) (hs : step cfg s .rExit = some s') : measure s' < measure s := by
  simp only [step] at hs
  (repeat' split at hs) <;> first | (simp at hs; done) | dec_glob

theorem dec_rProc (s s' : State) (ok : Bool) (h1 : Inv1 s) (hs : step cfg s (.rProc ok) = some s') : measure s' < measure s := by
  simp only [step] at hs
  split at hs
  · next c hc =>
    split at hs
    · dec_glob
    · split at hs
      · next i ht =>
        have hi := (h1.tab c i ht).1
        have hle := mu_le_emuF s.n s.ent i hi
        (repeat' split at hs) <;> first | dec_upd hi | dec_glob
      · injection hs with hs; subst hs
        simp only [measure, emuF_new]
        dec_close
  · simp at hs

theorem dec_stop (s s' : State) (h6 : Inv6 s) (hs : step cfg s .stop = some s') : measure s' < measure s := by
  cases hsp : s.spc with
  | pend i =>
    obtain ⟨hi, hv⟩ := h6.p2 i hsp
    have hle := mu_le_emuF s.n s.ent i hi
    simp only [step, hsp] at hs
    dec_upd hi
  | _ =>
    simp only [step, hsp] at hs
    (repeat' split at hs) <;> first | (simp at hs; done) | dec_glob

/-- every step of a goroutine of the relay strictly decreases the measure -/
theorem measure_decreases {s s' : State} (h : Reachable cfg s) (e : Ev) (he : e.internal = true) (hs : step cfg s e = some s') :
    measure s' < measure s := by
  cases e with
  | arrive c => simp [Ev.internal] at he
  | rMore c => simp [Ev.internal] at he
  | dPacket i => simp [Ev.internal] at he
  | timer i => simp [Ev.internal] at he
  | stopCall => simp [Ev.internal] at he
  | rLock => exact dec_rLock cfg s s' hs
  | rProc ok => exact dec_rProc cfg s s' ok (inv1_reachable cfg h) hs
  | rUnlock => exact dec_rUnlock cfg s s' hs
  | rExit => exact dec_rExit cfg s s' hs
  | init i ok => exact dec_init cfg s s' i ok (inv3d_reachable cfg h) hs
  | dTimeout i => exact dec_dTimeout cfg s s' i hs
  | dSend i => exact dec_dSend cfg s s' i hs
  | cleanup i => exact dec_cleanup cfg s s' i hs
  | uRecv i k => exact dec_uRecv cfg s s' i k hs
  | uStep i => exact dec_uStep cfg s s' i hs
  | uFail i => exact dec_uFail cfg s s' i hs
  | stop => exact dec_stop cfg s s' (inv6_reachable cfg h) hs
  | stopVisit i => exact dec_stopVisit cfg s s' i hs

/-- a run of the relay's own steps from a reachable state is no longer than the measure of that state -/
theorem internal_run_bounded {s s' : State} (h : Reachable cfg s) (es : List Ev) (hint : ∀ e ∈ es, e.internal = true)
    (hr : run cfg s es = some s') : es.length + measure s' ≤ measure s := by
  induction es generalizing s with
  | nil => simp [run] at hr; subst hr; simp
  | cons e es ih =>
    simp only [run] at hr
    split at hr
    · next s1 h1 =>
      have hd := measure_decreases cfg h e (hint e (by simp)) h1
      have := ih (Reachable.step e h h1) (fun e' he' => hint e' (by simp [he'])) hr
      simp only [List.length_cons]; omega
    · simp at hr

end SSV.RelayLife
