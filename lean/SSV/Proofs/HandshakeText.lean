import SSV.Model.HandshakeHttp
import SSV.Proofs.Handshake
/-
Helper lemmas for C07: conn.ParseAddr ∘ conn.Addr.String (net.SplitHostPort, decimal and dotted-quad text).
-/
namespace SSV.HS
open SSV SSV.Gen

theorem lastIndexOf_none (c : UInt8) (l : Bytes) (h : c ∉ l) : lastIndexOf c l = none := by
  induction l with
  | nil => rfl
  | cons x xs ih =>
    simp at h
    simp [lastIndexOf, ih h.2, Ne.symm h.1]

theorem lastIndexOf_split (c : UInt8) (h ds : Bytes) (hd : c ∉ ds) :
    lastIndexOf c (h ++ c :: ds) = some h.length := by
  induction h with
  | nil => simp [lastIndexOf, lastIndexOf_none c ds hd]
  | cons x xs ih => simp [lastIndexOf, ih]

theorem indexOfB_split (c : UInt8) (h rest : Bytes) (hh : c ∉ h) :
    indexOfB c (h ++ c :: rest) = some h.length := by
  induction h with
  | nil => simp [indexOfB]
  | cons x xs ih =>
    simp at hh
    simp [indexOfB, Ne.symm hh.1, ih hh.2]

theorem not_mem_of_all_digit (l : Bytes) (h : l.all isDigit = true) (c : UInt8) (hc : isDigit c = false) : c ∉ l := by
  intro hm
  have := List.all_eq_true.mp h c hm
  rw [hc] at this; cases this

theorem contains_false_of_not_mem (l : Bytes) (c : UInt8) (h : c ∉ l) : l.contains c = false := by
  simpa using h

/-- net.SplitHostPort on `host ":" port` without brackets or further colons -/
theorem splitHostPort_plain (h ds : Bytes) (h1 : COLON ∉ h) (h2 : (91 : UInt8) ∉ h) (h3 : (93 : UInt8) ∉ h)
    (hne : h.head? ≠ some 91) (d1 : COLON ∉ ds) (d2 : (91 : UInt8) ∉ ds) (d3 : (93 : UInt8) ∉ ds) :
    splitHostPort (h ++ COLON :: ds) = some (h, ds) := by
  unfold splitHostPort
  rw [lastIndexOf_split COLON h ds d1]
  have hh : (h ++ COLON :: ds).head? ≠ some 91 := by
    cases h with
    | nil => simp [COLON]
    | cons x xs => simpa using hne
  simp only [hh, if_false]
  have c1 : (List.take h.length (h ++ COLON :: ds)).contains COLON = false := by
    rw [List.take_left' rfl]; exact contains_false_of_not_mem _ _ h1
  have c2 : (h ++ COLON :: ds).contains 91 = false := by
    apply contains_false_of_not_mem; simp [h2, d2, COLON]
  have c3 : (h ++ COLON :: ds).contains 93 = false := by
    apply contains_false_of_not_mem; simp [h3, d3, COLON]
  simp [List.take_left' rfl]
  exact ⟨h1, ⟨h2, by decide, d2⟩, h3, by decide, d3⟩

/-- net.SplitHostPort on `"[" host "]:" port` -/
theorem splitHostPort_bracket (h ds : Bytes) (h2 : (91 : UInt8) ∉ h) (h3 : (93 : UInt8) ∉ h)
    (d1 : COLON ∉ ds) (d2 : (91 : UInt8) ∉ ds) (d3 : (93 : UInt8) ∉ ds) :
    splitHostPort ([91] ++ h ++ [93, COLON] ++ ds) = some (h, ds) := by
  have e1 : [91] ++ h ++ [93, COLON] ++ ds = (91 :: h ++ [93]) ++ COLON :: ds := by simp
  have e2 : [91] ++ h ++ [93, COLON] ++ ds = (91 :: h) ++ 93 :: (COLON :: ds) := by simp
  unfold splitHostPort
  rw [e1, lastIndexOf_split COLON _ ds d1, ← e1]
  have hi : indexOfB 93 ([91] ++ h ++ [93, COLON] ++ ds) = some (h.length + 1) := by
    rw [e2, indexOfB_split 93 (91 :: h) _ (by simp [h3])]; simp
  simp only [hi]
  simp [h2, d2, d3, COLON]

theorem isDigit_u8 (k : Nat) (h : k < 10) : isDigit (u8 (48 + k)) = true := by
  have : k = 0 ∨ k = 1 ∨ k = 2 ∨ k = 3 ∨ k = 4 ∨ k = 5 ∨ k = 6 ∨ k = 7 ∨ k = 8 ∨ k = 9 := by omega
  rcases this with h | h | h | h | h | h | h | h | h | h <;> subst h <;> decide

theorem digit_val (k : Nat) (h : k < 10) : (u8 (48 + k)).toNat - 48 = k := by
  rw [u8_toNat _ (by omega)]; omega

theorem natDecAux_all (fuel n : Nat) (acc : Bytes) (h : acc.all isDigit = true) :
    (natDecAux fuel n acc).all isDigit = true := by
  induction fuel generalizing n acc with
  | zero => simpa [natDecAux] using h
  | succ f ih =>
    simp only [natDecAux]
    have hd : (u8 (48 + n % 10) :: acc).all isDigit = true := by
      simp only [List.all_cons, isDigit_u8 _ (Nat.mod_lt _ (by omega)), h, Bool.and_self]
    split
    · exact hd
    · exact ih _ _ hd

def decFold (a : Nat) (l : Bytes) : Nat := l.foldl (fun acc c => acc * 10 + (c.toNat - 48)) a

theorem decFold_shift (l : Bytes) (a : Nat) : decFold a l = a * 10 ^ l.length + decFold 0 l := by
  induction l generalizing a with
  | nil => simp [decFold]
  | cons x xs ih =>
    have e1 : decFold a (x :: xs) = decFold (a * 10 + (x.toNat - 48)) xs := rfl
    have e2 : decFold 0 (x :: xs) = decFold (0 * 10 + (x.toNat - 48)) xs := rfl
    rw [e1, e2, ih (a * 10 + (x.toNat - 48)), ih (0 * 10 + (x.toNat - 48))]
    simp only [List.length_cons, Nat.pow_succ, Nat.zero_mul, Nat.zero_add, Nat.add_mul]
    rw [Nat.mul_assoc, Nat.mul_comm 10 (10 ^ xs.length)]
    omega

theorem decVal_eq (l : Bytes) : decVal l = decFold 0 l := rfl

theorem natDecAux_val (fuel n : Nat) (acc : Bytes) (h : n < fuel) :
    decVal (natDecAux fuel n acc) = n * 10 ^ acc.length + decVal acc := by
  induction fuel generalizing n acc with
  | zero => omega
  | succ f ih =>
    simp only [natDecAux]
    have hcons : decVal (u8 (48 + n % 10) :: acc) = (n % 10) * 10 ^ acc.length + decVal acc := by
      rw [decVal_eq, decVal_eq]
      have e : decFold 0 (u8 (48 + n % 10) :: acc) = decFold (0 * 10 + ((u8 (48 + n % 10)).toNat - 48)) acc := rfl
      rw [e, decFold_shift, digit_val _ (Nat.mod_lt _ (by omega))]
      simp
    split
    · rename_i hlt
      rw [hcons, Nat.mod_eq_of_lt hlt]
    · rename_i hge
      rw [ih (n / 10) _ (by omega), hcons]
      simp only [List.length_cons, Nat.pow_succ]
      have hn : n = 10 * (n / 10) + n % 10 := (Nat.div_add_mod n 10).symm
      generalize 10 ^ acc.length = P
      generalize decVal acc = D
      have e1 : n / 10 * (P * 10) = 10 * (n / 10 * P) := by
        rw [Nat.mul_comm P 10, ← Nat.mul_assoc, Nat.mul_comm (n / 10) 10, Nat.mul_assoc]
      have e2 : n * P = 10 * (n / 10 * P) + n % 10 * P := by
        conv => lhs; rw [hn]
        rw [Nat.add_mul, Nat.mul_assoc]
      rw [e1, e2]
      omega

theorem natDecAux_ne (fuel n : Nat) (acc : Bytes) (h : 0 < fuel) : natDecAux fuel n acc ≠ [] := by
  induction fuel generalizing n acc with
  | zero => omega
  | succ f ih =>
    simp only [natDecAux]
    split
    · simp
    · cases f with
      | zero => simp [natDecAux]
      | succ g => exact ih _ _ (by omega)

theorem parsePort_natDec (p : Nat) (h : p < 65536) : parsePort (natDec p) = some p := by
  have h1 : (natDec p).all isDigit = true := natDecAux_all _ _ _ rfl
  have h2 : natDec p ≠ [] := natDecAux_ne _ _ _ (by omega)
  have h3 : decVal (natDec p) = p := by
    have := natDecAux_val (p + 1) p [] (by omega)
    simpa [natDec, decVal] using this
  unfold parsePort
  have : (natDec p).isEmpty = false := by
    cases hn : natDec p with
    | nil => exact absurd hn h2
    | cons _ _ => rfl
  simp [this, h1, h3]; omega

theorem splitOn_nomem (c : UInt8) (xs : Bytes) (h : c ∉ xs) : splitOn c xs = [xs] := by
  induction xs with
  | nil => rfl
  | cons x xs ih =>
    simp at h
    have : splitOn c (x :: xs) = (if x = c then [] :: splitOn c xs else match splitOn c xs with
      | [] => [[x]] | hd :: t => (x :: hd) :: t) := rfl
    rw [this, ih h.2]; simp [Ne.symm h.1]

theorem splitOn_split (c : UInt8) (xs rest : Bytes) (h : c ∉ xs) :
    splitOn c (xs ++ c :: rest) = xs :: splitOn c rest := by
  induction xs with
  | nil =>
    have : splitOn c (c :: rest) = (if c = c then [] :: splitOn c rest else match splitOn c rest with
      | [] => [[c]] | hd :: t => (c :: hd) :: t) := rfl
    simp [this]
  | cons x xs ih =>
    simp at h
    have : splitOn c (x :: (xs ++ c :: rest)) = (if x = c then [] :: splitOn c (xs ++ c :: rest)
      else match splitOn c (xs ++ c :: rest) with
      | [] => [[x]] | hd :: t => (x :: hd) :: t) := rfl
    rw [List.cons_append, this, ih h.2]; simp [Ne.symm h.1]

set_option maxRecDepth 100000 in
theorem v4field_rt : ∀ n, n < 256 → parseV4Field (natDec n) = some (u8 n) := by decide

theorem natDec_all (n : Nat) : (natDec n).all isDigit = true := natDecAux_all _ _ _ rfl

theorem find_special (l rest : Bytes) (h : l.all isDigit = true) :
    (l ++ 46 :: rest).find? (fun c => c == 46 || c == 58 || c == 37) = some 46 := by
  induction l with
  | nil => simp
  | cons x xs ih =>
    simp only [List.all_cons, Bool.and_eq_true] at h
    have key : ∀ y : UInt8, isDigit y = true → (y == 46 || y == 58 || y == 37) = false := by
      intro y hy
      simp only [isDigit, Bool.and_eq_true, decide_eq_true_eq] at hy
      have h1 := UInt8.le_iff_toNat_le.mp hy.1
      have h2 := UInt8.le_iff_toNat_le.mp hy.2
      simp only [Bool.or_eq_false_iff, beq_eq_false_iff_ne, ne_eq]
      refine ⟨⟨?_, ?_⟩, ?_⟩ <;> (intro e; subst e; revert h1 h2; decide)
    simp [key x h.1, ih h.2]

theorem not_mem_natDec (n : Nat) (c : UInt8) (hc : isDigit c = false) : c ∉ natDec n :=
  not_mem_of_all_digit _ (natDec_all n) c hc

theorem parseV4_fmtV4 (a b c d : UInt8) : parseV4 (fmtV4 [a, b, c, d]) = some [a, b, c, d] := by
  have e : fmtV4 [a, b, c, d] = natDec a.toNat ++ 46 :: (natDec b.toNat ++ 46 :: (natDec c.toNat ++ 46 :: natDec d.toNat)) := by
    simp [fmtV4]
  have nd : ∀ n, (46 : UInt8) ∉ natDec n := fun n => not_mem_natDec n 46 (by decide)
  unfold parseV4
  rw [e, splitOn_split _ _ _ (nd _), splitOn_split _ _ _ (nd _), splitOn_split _ _ _ (nd _), splitOn_nomem _ _ (nd _)]
  simp [v4field_rt _ (UInt8.toNat_lt a), v4field_rt _ (UInt8.toNat_lt b), v4field_rt _ (UInt8.toNat_lt c),
    v4field_rt _ (UInt8.toNat_lt d), u8]

theorem parseIP_fmtV4 (a b c d : UInt8) : parseIP (fmtV4 [a, b, c, d]) = some (false, [a, b, c, d]) := by
  have e : fmtV4 [a, b, c, d] = natDec a.toNat ++ 46 :: (natDec b.toNat ++ 46 :: (natDec c.toNat ++ 46 :: natDec d.toNat)) := by
    simp [fmtV4]
  unfold parseIP
  have := find_special (natDec a.toNat) (natDec b.toNat ++ 46 :: (natDec c.toNat ++ 46 :: natDec d.toNat)) (natDec_all _)
  rw [← e] at this
  rw [this]
  simp [parseV4_fmtV4]

theorem not_mem_fmtV4 (a b c d x : UInt8) (hx : isDigit x = false) (h46 : x ≠ 46) : x ∉ fmtV4 [a, b, c, d] := by
  have e : fmtV4 [a, b, c, d] = natDec a.toNat ++ 46 :: (natDec b.toNat ++ 46 :: (natDec c.toNat ++ 46 :: natDec d.toNat)) := by
    simp [fmtV4]
  rw [e]
  simp [not_mem_natDec _ x hx, h46]

theorem parseAddr_addrString (a : Addr) (hw : a.wf = true) (hc : httpCarriable a = true) :
    parseAddr (addrString a) = some a := by
  cases a with
  | zero => simp [httpCarriable] at hc
  | dom n p =>
    simp only [Addr.wf, Bool.and_eq_true, decide_eq_true_eq] at hw
    obtain ⟨⟨hl1, hl2⟩, hp⟩ := hw
    simp only [httpCarriable, Bool.and_eq_true, List.all_eq_true, bne_iff_ne, ne_eq, Option.isNone_iff_eq_none] at hc
    obtain ⟨hall, hip⟩ := hc
    have n1 : COLON ∉ n := fun h => (hall _ h).1.1.2 rfl
    have n2 : (91 : UInt8) ∉ n := fun h => (hall _ h).1.2 rfl
    have n3 : (93 : UInt8) ∉ n := fun h => (hall _ h).2 rfl
    have hh : n.head? ≠ some 91 := by
      intro h; exact n2 (List.mem_of_mem_head? h)
    have e : addrString (.dom n p) = n ++ COLON :: natDec p := by simp [addrString]
    unfold parseAddr
    rw [e, splitHostPort_plain n (natDec p) n1 n2 n3 hh (not_mem_natDec _ _ (by decide))
      (not_mem_natDec _ _ (by decide)) (not_mem_natDec _ _ (by decide))]
    simp [parsePort_natDec p hp, hip, hl1, hl2]
  | v4 ip p =>
    simp only [Addr.wf, Bool.and_eq_true, decide_eq_true_eq, beq_iff_eq] at hw
    obtain ⟨hl, hp⟩ := hw
    match ip, hl with
    | [a, b, c, d], _ =>
      have e : addrString (.v4 [a, b, c, d] p) = fmtV4 [a, b, c, d] ++ COLON :: natDec p := by simp [addrString]
      have hh : (fmtV4 [a, b, c, d]).head? ≠ some 91 := by
        intro h; exact not_mem_fmtV4 a b c d 91 (by decide) (by decide) (List.mem_of_mem_head? h)
      unfold parseAddr
      rw [e, splitHostPort_plain _ (natDec p) (not_mem_fmtV4 a b c d _ (by decide) (by decide))
        (not_mem_fmtV4 a b c d _ (by decide) (by decide)) (not_mem_fmtV4 a b c d _ (by decide) (by decide)) hh
        (not_mem_natDec _ _ (by decide)) (not_mem_natDec _ _ (by decide)) (not_mem_natDec _ _ (by decide))]
      simp [parsePort_natDec p hp, parseIP_fmtV4]
  | v6 ip p =>
    simp only [Addr.wf, Bool.and_eq_true, decide_eq_true_eq, beq_iff_eq] at hw
    obtain ⟨hl, hp⟩ := hw
    simp only [httpCarriable, Bool.and_eq_true, List.all_eq_true, bne_iff_ne, ne_eq, beq_iff_eq] at hc
    obtain ⟨hrt, hall⟩ := hc
    have n2 : (91 : UInt8) ∉ fmtV6 ip := fun h => (hall _ h).1 rfl
    have n3 : (93 : UInt8) ∉ fmtV6 ip := fun h => (hall _ h).2 rfl
    have e : addrString (.v6 ip p) = [91] ++ fmtV6 ip ++ [93, COLON] ++ natDec p := by simp [addrString]
    unfold parseAddr
    rw [e, splitHostPort_bracket _ (natDec p) n2 n3 (not_mem_natDec _ _ (by decide))
      (not_mem_natDec _ _ (by decide)) (not_mem_natDec _ _ (by decide))]
    simp [parsePort_natDec p hp, hrt]

end SSV.HS
