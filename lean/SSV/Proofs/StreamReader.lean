import SSV.Proofs.StreamCodec
/-
The reader invariant of layer 1: a reader is "in sync" with a list of chunks still on the wire;
every reader call (Read with any buffer length, WriteTo, tunnel copy) keeps it in sync and hands
over the next bytes of the stream, each exactly once.
-/
namespace SSV.Stream
open SSV.Gen.C01

/-- the transport still holds exactly the encoding of `cs` under the reader's key and nonce -/
structure Sync (C : Crypto) (r : Reader) (cs : List Bytes) : Prop where
  wire : r.wire = encodeChunks C r.key r.nonce cs
  valid : ValidChunks cs

/-- bytes the application has not seen yet -/
def pending (r : Reader) (cs : List Bytes) : Bytes := r.left ++ cs.flatten

theorem sealChunk_length_pos {C : Crypto} (hC : AeadOK C) (k : Bytes) (n : Nat) (p : Bytes) :
    0 < (sealChunk C k n p).length := by
  simp only [sealChunk, List.length_append, hC.enc_len, tagSize]
  omega

theorem encodeChunks_length_ge {C : Crypto} (hC : AeadOK C) (k : Bytes) (n : Nat) (cs : List Bytes) :
    cs.length ≤ (encodeChunks C k n cs).length := by
  induction cs generalizing n with
  | nil => simp
  | cons p ps ih =>
    simp only [encodeChunks, List.length_cons, List.length_append]
    have := sealChunk_length_pos hC k n p
    have := ih (n + 2)
    omega

theorem copyLoop_sync {C : Crypto} (hC : AeadOK C) (cs : List Bytes) :
    ∀ (fuel : Nat) (r : Reader) (acc : List Bytes), Sync C r cs → cs.length < fuel →
      copyLoop C fuel r acc =
        (.copied (acc.reverse ++ cs) none, { r with nonce := r.nonce + 2 * cs.length, wire := [] }) := by
  induction cs with
  | nil =>
    intro fuel r acc hs hf
    obtain ⟨f, rfl⟩ : ∃ f, fuel = f + 1 := ⟨fuel - 1, by omega⟩
    have hw : r.wire = [] := by simpa [encodeChunks] using hs.wire
    simp [copyLoop, hw, readChunk_nil]
  | cons p ps ih =>
    intro fuel r acc hs hf
    obtain ⟨f, rfl⟩ : ∃ f, fuel = f + 1 := ⟨fuel - 1, by omega⟩
    have hp := hs.valid p (List.mem_cons_self)
    have hw : r.wire = sealChunk C r.key r.nonce p ++ encodeChunks C r.key (r.nonce + 2) ps := by
      simpa [encodeChunks] using hs.wire
    have hs' : Sync C { r with nonce := r.nonce + 2, wire := encodeChunks C r.key (r.nonce + 2) ps } ps :=
      ⟨rfl, hs.valid.tail⟩
    simp only [copyLoop, hw, readChunk_sealChunk hC _ _ _ _ hp.1 hp.2]
    rw [ih f _ (p :: acc) hs' (by simp at hf; omega)]
    simp only [List.reverse_cons, List.append_assoc, List.singleton_append, List.length_cons]
    congr 2
    omega

/-- what one reader call guarantees -/
structure StepOK (C : Crypto) (r : Reader) (cs : List Bytes) (op : ROp) (cs' : List Bytes) : Prop where
  sync : Sync C (r.step C op).2 cs'
  /-- no error other than end of stream -/
  noErr : (r.step C op).1.err = none ∨ (r.step C op).1.err = some .eof
  /-- the call hands over a prefix of the pending bytes and keeps the rest pending -/
  split : pending r cs = (r.step C op).1.bytes ++ pending (r.step C op).2 cs'
  /-- end of stream is only reported when nothing is pending any more -/
  atEnd : (r.step C op).1.sawEnd = true → pending (r.step C op).2 cs' = []
  /-- a `Read` reporting end of stream delivers nothing with it -/
  eofEmpty : (r.step C op).1.err = some .eof → (r.step C op).1.bytes = []
  /-- a copy call always runs to the end of the stream -/
  copyEnds : op ≠ .read 0 → (∀ n, op ≠ .read n) → (r.step C op).1.sawEnd = true
  /-- a `Read` into a non-empty buffer makes progress while bytes are pending -/
  progress : ∀ n, op = .read n → 0 < n → pending r cs ≠ [] → (r.step C op).1.bytes ≠ []
  /-- and reports end of stream when nothing is pending -/
  readEnd : ∀ n, op = .read n → pending r cs = [] → (r.step C op).1 = .fail .eof
  /-- `nonce_lockstep`: the reader's counter advances by two per consumed chunk, like the writer's -/
  nonce : (r.step C op).2.nonce + 2 * cs'.length = r.nonce + 2 * cs.length
  key : (r.step C op).2.key = r.key

theorem flatten_nil_of_valid {cs : List Bytes} (hv : ValidChunks cs) (h : cs.flatten = []) : cs = [] := by
  cases cs with
  | nil => rfl
  | cons p ps =>
    exfalso
    have := (hv p List.mem_cons_self).1
    simp at h
    exact this (by simp [h.1])

theorem read_ok {C : Crypto} (hC : AeadOK C) (r : Reader) (cs : List Bytes) (hs : Sync C r cs) (n : Nat) :
    ∃ cs', StepOK C r cs (.read n) cs' := by
  by_cases hl : r.left.length = 0
  · have hl' : r.left = [] := List.length_eq_zero_iff.mp hl
    cases cs with
    | nil =>
      have hw : r.wire = [] := by simpa [encodeChunks] using hs.wire
      have e : r.step C (.read n) = (.fail .eof, { r with nonce := r.nonce, wire := [] }) := by
        simp [Reader.step, Reader.read, hl, hw, readChunk_nil]
      refine ⟨[], ?sync, ?noErr, ?split, ?atEnd, ?eofEmpty, ?copyEnds, ?progress, ?readEnd, ?nonce, ?key⟩
      case sync => rw [e]; exact ⟨rfl, ValidChunks.nil⟩
      case noErr => rw [e]; exact Or.inr rfl
      case split => rw [e]; simp [pending, hl', ROut.bytes]
      case atEnd => rw [e]; simp [pending, hl']
      case eofEmpty => rw [e]; simp [ROut.bytes]
      case copyEnds => intro _ h; exact absurd rfl (h n)
      case progress => intro m _ _ hp; simp [pending, hl'] at hp
      case readEnd => intro m _ _; rw [e]
      case nonce => rw [e]
      case key => rw [e]
    | cons p ps =>
      have hp := hs.valid p List.mem_cons_self
      have hpne : p ≠ [] := fun h => hp.1 (by simp [h])
      have hw : r.wire = sealChunk C r.key r.nonce p ++ encodeChunks C r.key (r.nonce + 2) ps := by
        simpa [encodeChunks] using hs.wire
      by_cases hb : n ≥ streamReadMinBufferSize
      · have e : r.step C (.read n) = (.data p, { r with nonce := r.nonce + 2, wire := encodeChunks C r.key (r.nonce + 2) ps }) := by
          simp [Reader.step, Reader.read, hl, hw, readChunk_sealChunk hC _ _ _ _ hp.1 hp.2, hb]
        refine ⟨ps, ?sync, ?noErr, ?split, ?atEnd, ?eofEmpty, ?copyEnds, ?progress, ?readEnd, ?nonce, ?key⟩
        case sync => rw [e]; exact ⟨rfl, hs.valid.tail⟩
        case noErr => rw [e]; exact Or.inl rfl
        case split => rw [e]; simp [pending, hl', ROut.bytes]
        case atEnd => rw [e]; simp [ROut.sawEnd]
        case eofEmpty => rw [e]; simp [ROut.err]
        case copyEnds => intro _ h; exact absurd rfl (h n)
        case progress => intro m _ _ _; rw [e]; simpa [ROut.bytes] using hpne
        case readEnd => intro m _ hpd; simp [pending, hl', hpne] at hpd
        case nonce => rw [e]; simp only [List.length_cons]; omega
        case key => rw [e]
      · have e : r.step C (.read n) = (.data (p.take n), { r with nonce := r.nonce + 2, wire := encodeChunks C r.key (r.nonce + 2) ps, left := p.drop n }) := by
          simp [Reader.step, Reader.read, hl, hw, readChunk_sealChunk hC _ _ _ _ hp.1 hp.2, hb]
        refine ⟨ps, ?sync, ?noErr, ?split, ?atEnd, ?eofEmpty, ?copyEnds, ?progress, ?readEnd, ?nonce, ?key⟩
        case sync => rw [e]; exact ⟨rfl, hs.valid.tail⟩
        case noErr => rw [e]; exact Or.inl rfl
        case split =>
          rw [e]; simp only [pending, hl', ROut.bytes, List.nil_append, List.flatten_cons]
          rw [← List.append_assoc, List.take_append_drop]
        case atEnd => rw [e]; simp [ROut.sawEnd]
        case eofEmpty => rw [e]; simp [ROut.err]
        case copyEnds => intro _ h; exact absurd rfl (h n)
        case progress =>
          intro m hm hpos _; cases hm; rw [e]
          simp only [ROut.bytes, ne_eq, List.take_eq_nil_iff, not_or]
          exact ⟨by omega, hpne⟩
        case readEnd => intro m _ hpd; simp [pending, hl', hpne] at hpd
        case nonce => rw [e]; simp only [List.length_cons]; omega
        case key => rw [e]
  · have hne : r.left ≠ [] := fun h => hl (by simp [h])
    have e : r.step C (.read n) = (.data (r.left.take n), { r with left := r.left.drop n }) := by
      simp [Reader.step, Reader.read, hl]
    refine ⟨cs, ?sync, ?noErr, ?split, ?atEnd, ?eofEmpty, ?copyEnds, ?progress, ?readEnd, ?nonce, ?key⟩
    case sync => rw [e]; exact ⟨hs.wire, hs.valid⟩
    case noErr => rw [e]; exact Or.inl rfl
    case split =>
      rw [e]; simp only [pending, ROut.bytes]
      rw [← List.append_assoc, List.take_append_drop]
    case atEnd => rw [e]; simp [ROut.sawEnd]
    case eofEmpty => rw [e]; simp [ROut.err]
    case copyEnds => intro _ h; exact absurd rfl (h n)
    case progress =>
      intro m hm hpos _; cases hm; rw [e]
      simp only [ROut.bytes, ne_eq, List.take_eq_nil_iff, not_or]
      exact ⟨by omega, hne⟩
    case readEnd => intro m _ hpd; simp [pending, hne] at hpd
    case nonce => rw [e]
    case key => rw [e]

theorem copy_ok {C : Crypto} (hC : AeadOK C) (r : Reader) (cs : List Bytes) (hs : Sync C r cs) (op : ROp)
    (hop : op = .writeTo ∨ op = .tunnel) : ∃ cs', StepOK C r cs op cs' := by
  have hfuel : cs.length < r.wire.length + 1 := by
    rw [hs.wire]; have := encodeChunks_length_ge hC r.key r.nonce cs; omega
  have hf1 : writeToFlushesLeftover = true := by decide
  have hf2 : tunnelFlushesLeftover = true := by decide
  have hnr : ∀ n, op ≠ .read n := by intro n h; rcases hop with rfl | rfl <;> cases h
  by_cases hl : r.left.length = 0
  · have hl' : r.left = [] := List.length_eq_zero_iff.mp hl
    have e : r.step C op = (.copied cs none, { r with nonce := r.nonce + 2 * cs.length, wire := [] }) := by
      rcases hop with rfl | rfl
      · simp [Reader.step, Reader.writeTo, hf1, hl, copyLoop_sync hC cs _ r [] hs hfuel]
      · simp [Reader.step, Reader.tunnel, hf2, hl, copyLoop_sync hC cs _ r [] hs hfuel]
    refine ⟨[], ?sync, ?noErr, ?split, ?atEnd, ?eofEmpty, ?copyEnds, ?progress, ?readEnd, ?nonce, ?key⟩
    case sync => rw [e]; exact ⟨rfl, ValidChunks.nil⟩
    case noErr => rw [e]; exact Or.inl rfl
    case split => rw [e]; simp [pending, hl', ROut.bytes]
    case atEnd => rw [e]; simp [pending, hl']
    case eofEmpty => rw [e]; simp [ROut.err]
    case copyEnds => intro _ _; rw [e]; rfl
    case progress => intro m hm; exact absurd hm (hnr m)
    case readEnd => intro m hm; exact absurd hm (hnr m)
    case nonce => rw [e]; simp
    case key => rw [e]
  · have hs' : Sync C { r with left := [] } cs := ⟨hs.wire, hs.valid⟩
    have e : r.step C op = (.copied (r.left :: cs) none, { r with left := [], nonce := r.nonce + 2 * cs.length, wire := [] }) := by
      rcases hop with rfl | rfl
      · simp [Reader.step, Reader.writeTo, hf1, hl, copyLoop_sync hC cs _ _ [r.left] hs' hfuel]
      · simp [Reader.step, Reader.tunnel, hf2, hl, copyLoop_sync hC cs _ _ [r.left] hs' hfuel]
    refine ⟨[], ?sync, ?noErr, ?split, ?atEnd, ?eofEmpty, ?copyEnds, ?progress, ?readEnd, ?nonce, ?key⟩
    case sync => rw [e]; exact ⟨rfl, ValidChunks.nil⟩
    case noErr => rw [e]; exact Or.inl rfl
    case split => rw [e]; simp [pending, ROut.bytes]
    case atEnd => rw [e]; simp [pending]
    case eofEmpty => rw [e]; simp [ROut.err]
    case copyEnds => intro _ _; rw [e]; rfl
    case progress => intro m hm; exact absurd hm (hnr m)
    case readEnd => intro m hm; exact absurd hm (hnr m)
    case nonce => rw [e]; simp
    case key => rw [e]

theorem step_ok {C : Crypto} (hC : AeadOK C) (r : Reader) (cs : List Bytes) (hs : Sync C r cs) (op : ROp) :
    ∃ cs', StepOK C r cs op cs' := by
  cases op with
  | read n => exact read_ok hC r cs hs n
  | writeTo => exact copy_ok hC r cs hs _ (Or.inl rfl)
  | tunnel => exact copy_ok hC r cs hs _ (Or.inr rfl)

end SSV.Stream

namespace SSV.Stream
open SSV.Gen.C01

/-- the sink keeps the `io.Writer` contract: it takes fewer bytes than offered only together with an error -/
def SinkOK (sink : List SinkRes) : Prop := ∀ r ∈ sink, r.err = true ∨ streamMaxPayloadSize ≤ r.accept

theorem sinkWrite_ok {sink : List SinkRes} (h : SinkOK sink) (p : Bytes) (hp : p.length ≤ streamMaxPayloadSize) :
    (∃ rest, p = (sinkWrite sink p).1 ++ rest) ∧ ((sinkWrite sink p).2.1 = false → (sinkWrite sink p).1 = p) ∧
    SinkOK (sinkWrite sink p).2.2 := by
  cases sink with
  | nil => exact ⟨⟨[], by simp [sinkWrite]⟩, fun _ => rfl, h⟩
  | cons r rest =>
    refine ⟨⟨p.drop r.accept, by simp [sinkWrite]⟩, fun he => ?_, fun x hx => h x (List.mem_cons_of_mem _ hx)⟩
    rcases h r List.mem_cons_self with h1 | h1
    · simp [sinkWrite, h1] at he
    · simp only [sinkWrite]
      exact List.take_of_length_le (by omega)

/-- `WriteTo` into any contract-keeping sink: what the sink took is a prefix of the pending stream
(nothing repeated, nothing out of order); if the sink never failed, it took everything -/
theorem copyLoopSink_prefix {C : Crypto} (hC : AeadOK C) (cs : List Bytes) :
    ∀ (fuel : Nat) (r : Reader) (sink : List SinkRes) (acc : List Bytes), Sync C r cs → SinkOK sink → cs.length < fuel →
      ∃ pieces e, (copyLoopSink C fuel r sink acc).1 = .copied (acc.reverse ++ pieces) e ∧
        (∃ rest, cs.flatten = pieces.flatten ++ rest) ∧ (e = none → pieces.flatten = cs.flatten) ∧
        (e = none ∨ e = some .sinkErr) := by
  induction cs with
  | nil =>
    intro fuel r sink acc hs _ hf
    obtain ⟨f, rfl⟩ : ∃ f, fuel = f + 1 := ⟨fuel - 1, by omega⟩
    have hw : r.wire = [] := by simpa [encodeChunks] using hs.wire
    exact ⟨[], none, by simp [copyLoopSink, hw, readChunk_nil], ⟨[], rfl⟩, fun _ => rfl, Or.inl rfl⟩
  | cons p ps ih =>
    intro fuel r sink acc hs hk hf
    obtain ⟨f, rfl⟩ : ∃ f, fuel = f + 1 := ⟨fuel - 1, by omega⟩
    have hp := hs.valid p List.mem_cons_self
    have hw : r.wire = sealChunk C r.key r.nonce p ++ encodeChunks C r.key (r.nonce + 2) ps := by
      simpa [encodeChunks] using hs.wire
    have hs' : Sync C { r with nonce := r.nonce + 2, wire := encodeChunks C r.key (r.nonce + 2) ps } ps :=
      ⟨rfl, hs.valid.tail⟩
    obtain ⟨⟨rest0, hpre⟩, hfull, hk'⟩ := sinkWrite_ok hk p hp.2
    by_cases he : (sinkWrite sink p).2.1 = true
    · refine ⟨[(sinkWrite sink p).1], some .sinkErr, ?_⟩
      refine And.intro ?_ (And.intro ?_ (And.intro ?_ ?_))
      · simp [copyLoopSink, hw, readChunk_sealChunk hC _ _ _ _ hp.1 hp.2, he]
      · refine ⟨rest0 ++ ps.flatten, ?_⟩
        simp only [List.flatten_cons, List.flatten_nil, List.append_nil]
        rw [← List.append_assoc, ← hpre]
      · intro h; cases h
      · exact Or.inr rfl
    · have he' : (sinkWrite sink p).2.1 = false := by simpa using he
      have ha := hfull he'
      obtain ⟨pieces, e, h1, ⟨rest, h2⟩, h3, h4⟩ := ih f _ (sinkWrite sink p).2.2 ((sinkWrite sink p).1 :: acc) hs' hk' (by simp at hf; omega)
      refine ⟨(sinkWrite sink p).1 :: pieces, e, ?_⟩
      refine And.intro ?_ (And.intro ?_ (And.intro (fun h => ?_) h4))
      · simp only [copyLoopSink, hw, readChunk_sealChunk hC _ _ _ _ hp.1 hp.2, he', Bool.false_eq_true, ↓reduceIte]
        rw [h1]
        simp
      · exact ⟨rest, by simp only [List.flatten_cons, ha, h2, List.append_assoc]⟩
      · simp only [List.flatten_cons, ha, h3 h]

end SSV.Stream

namespace SSV.Stream
open SSV.Gen.C01

/-- the state a copy into a failing sink / destination leaves behind: the reader is in sync with the
chunks after the one in flight; the stream splits into what the sink took, what was lost of the chunk
in flight (at most the rest of that one chunk; nothing if the sink never failed), and what is still to
come — so nothing can be delivered twice and nothing beyond the chunk in flight is lost -/
theorem copyLoopSink_sync {C : Crypto} (hC : AeadOK C) (cs : List Bytes) :
    ∀ (fuel : Nat) (r : Reader) (sink : List SinkRes) (acc : List Bytes), Sync C r cs → SinkOK sink → cs.length < fuel →
      ∃ pieces e cs' lost, (copyLoopSink C fuel r sink acc).1 = .copied (acc.reverse ++ pieces) e ∧
        Sync C (copyLoopSink C fuel r sink acc).2.1 cs' ∧ (copyLoopSink C fuel r sink acc).2.1.left = r.left ∧
        cs.flatten = pieces.flatten ++ lost ++ cs'.flatten ∧ lost.length ≤ streamMaxPayloadSize ∧
        (e = none → lost = [] ∧ cs' = []) ∧ (e = none ∨ e = some .sinkErr) := by
  induction cs with
  | nil =>
    intro fuel r sink acc hs _ hf
    obtain ⟨f, rfl⟩ : ∃ f, fuel = f + 1 := ⟨fuel - 1, by omega⟩
    have hw : r.wire = [] := by simpa [encodeChunks] using hs.wire
    refine ⟨[], none, [], [], by simp [copyLoopSink, hw, readChunk_nil], ?_, by simp [copyLoopSink, hw, readChunk_nil], rfl, by simp,
      fun _ => ⟨rfl, rfl⟩, Or.inl rfl⟩
    simp only [copyLoopSink, hw, readChunk_nil]
    exact ⟨rfl, ValidChunks.nil⟩
  | cons p ps ih =>
    intro fuel r sink acc hs hk hf
    obtain ⟨f, rfl⟩ : ∃ f, fuel = f + 1 := ⟨fuel - 1, by omega⟩
    have hp := hs.valid p List.mem_cons_self
    have hw : r.wire = sealChunk C r.key r.nonce p ++ encodeChunks C r.key (r.nonce + 2) ps := by
      simpa [encodeChunks] using hs.wire
    have hs' : Sync C { r with nonce := r.nonce + 2, wire := encodeChunks C r.key (r.nonce + 2) ps } ps :=
      ⟨rfl, hs.valid.tail⟩
    obtain ⟨⟨rest0, hpre⟩, hfull, hk'⟩ := sinkWrite_ok hk p hp.2
    by_cases he : (sinkWrite sink p).2.1 = true
    · refine ⟨[(sinkWrite sink p).1], some .sinkErr, ps, rest0, ?_⟩
      refine And.intro ?_ (And.intro ?_ (And.intro ?_ (And.intro ?_ (And.intro ?_ (And.intro (fun h => nomatch h) (Or.inr rfl))))))
      · simp [copyLoopSink, hw, readChunk_sealChunk hC _ _ _ _ hp.1 hp.2, he]
      · simp only [copyLoopSink, hw, readChunk_sealChunk hC _ _ _ _ hp.1 hp.2, he, ↓reduceIte]
        exact hs'
      · simp [copyLoopSink, hw, readChunk_sealChunk hC _ _ _ _ hp.1 hp.2, he]
      · simp only [List.flatten_cons, List.flatten_nil, List.append_nil]
        rw [← hpre]
      · have : p.length = (sinkWrite sink p).1.length + rest0.length := by
          have := congrArg List.length hpre; simpa using this
        omega
    · have he' : (sinkWrite sink p).2.1 = false := by simpa using he
      have ha := hfull he'
      obtain ⟨pieces, e, cs', lost, h1, h2, h2l, h3, h4, h5, h6⟩ :=
        ih f _ (sinkWrite sink p).2.2 ((sinkWrite sink p).1 :: acc) hs' hk' (by simp at hf; omega)
      refine ⟨(sinkWrite sink p).1 :: pieces, e, cs', lost, ?_⟩
      refine And.intro ?_ (And.intro ?_ (And.intro ?_ (And.intro ?_ (And.intro h4 (And.intro h5 h6)))))
      · simp only [copyLoopSink, hw, readChunk_sealChunk hC _ _ _ _ hp.1 hp.2, he', Bool.false_eq_true, ↓reduceIte]
        rw [h1]; simp
      · simp only [copyLoopSink, hw, readChunk_sealChunk hC _ _ _ _ hp.1 hp.2, he', Bool.false_eq_true, ↓reduceIte]
        exact h2
      · simp only [copyLoopSink, hw, readChunk_sealChunk hC _ _ _ _ hp.1 hp.2, he', Bool.false_eq_true, ↓reduceIte]
        exact h2l
      · simp only [List.flatten_cons, ha, h3, List.append_assoc]

end SSV.Stream
