import SSV.Proofs.UdpSession
/-
Client unpacker (C04 `client_sessions`): a packet is delivered at most once across the current, the old
and dropped server sessions, on a monotone clock; at most one server-session change per minute.

Ghost state: for every delivered packet an entry (sid, pid, ts, delivery time), filed under the life of
the session it was delivered in: current, old, or dropped.
-/
namespace SSV.UdpSession
open SSV.SWF

theorem interval_eq : sessionChangeInterval = 60000000000 := by decide
/-- a timestamp word that validated at `td` no longer validates 61 s later — for every 64-bit word, through the
arithmetic meaning of the check (`tsValid_iff_near`), on a sane clock -/
theorem ts_expire {ts : BitVec 64} {td t : Nat} (hck : ClockOk t)
    (hv : tsValid ts td = true) (ht : td + 61000000000 ≤ t) : tsValid ts t = false := by
  have hck' : ClockOk td := by
    simp only [ClockOk, SSV.SaltPool.unixSec, SSV.SaltPool.nsPerSec] at hck ⊢
    omega
  have h1 := (tsValid_iff_near ts hck').mp hv
  cases hb : tsValid ts t with
  | false => rfl
  | true =>
    have h2 := (tsValid_iff_near ts hck).mp hb
    have hm : SSV.Gen.C04.MaxEpochDiff = 30 := by decide
    simp only [tsNear, hm, SSV.SaltPool.unixSec, SSV.SaltPool.nsPerSec] at h1 h2
    omega

structure Entry where
  sid : Nat
  pid : Nat
  ts : BitVec 64
  td : Nat

structure Ghost where
  cur : List Entry
  old : List Entry
  dropped : List Entry

def Ghost.all (g : Ghost) : List Entry := g.cur ++ (g.old ++ g.dropped)

def SessInv (n : Nat) (s : Option Session) (log : List Entry) : Prop :=
  match s with
  | none => log = []
  | some s => Inv s.filter (log.map (·.pid)) ∧ s.filter.size = n ∧ ∀ e ∈ log, e.sid = s.sid

structure CInv (st : ClientState) (g : Ghost) (T : Nat) : Prop where
  cur : SessInv st.filterSize st.cur g.cur
  old : SessInv st.filterSize st.old g.old
  oldSeen : ∀ e ∈ g.old, ∃ L, st.oldLastSeen = some L ∧ e.td ≤ L
  dropped : ∀ e ∈ g.dropped, ∃ L, st.oldLastSeen = some L ∧ e.td + sessionChangeInterval ≤ L ∧
      ((isCur st e.sid = true ∨ isOld st e.sid = true) → e.td + 2 * sessionChangeInterval ≤ L)
  seenLe : ∀ L, st.oldLastSeen = some L → L ≤ T
  curLe : ∀ e ∈ g.cur, e.td ≤ T
  valid : ∀ e ∈ g.all, tsValid e.ts e.td = true
  distinct : ∀ s s', st.cur = some s → st.old = some s' → s.sid ≠ s'.sid

theorem CInv.mono {st : ClientState} {g : Ghost} {T t : Nat} (h : CInv st g T) (ht : T ≤ t) : CInv st g t :=
  { h with seenLe := fun L hL => Nat.le_trans (h.seenLe L hL) ht, curLe := fun e he => Nat.le_trans (h.curLe e he) ht }

/-! ### the session classification -/

theorem classify_cases (st : ClientState) (now sid : Nat) :
    (∃ s, st.cur = some s ∧ s.sid = sid ∧ classify st now sid = some (.current, some s.filter)) ∨
    (isCur st sid = false ∧ ∃ s, st.old = some s ∧ s.sid = sid ∧ classify st now sid = some (.old, some s.filter)) ∨
    (isCur st sid = false ∧ isOld st sid = false ∧ changeTooSoon st now = true ∧ classify st now sid = none) ∨
    (isCur st sid = false ∧ isOld st sid = false ∧ changeTooSoon st now = false ∧ classify st now sid = some (.new, none)) := by
  unfold classify classify.classifyOld classify.classifyNew isCur isOld
  cases hc : st.cur with
  | some s =>
    by_cases h1 : s.sid = sid
    · left; exact ⟨s, rfl, h1, by simp [h1]⟩
    · right
      cases ho : st.old with
      | some s' =>
        by_cases h2 : s'.sid = sid
        · left; exact ⟨by simp [h1], s', rfl, h2, by simp [h1, h2]⟩
        · right
          cases hs : changeTooSoon st now
          · right; simp [h1, h2]
          · left; simp [h1, h2]
      | none =>
        right
        cases hs : changeTooSoon st now
        · right; simp [h1]
        · left; simp [h1]
  | none =>
    right
    cases ho : st.old with
    | some s' =>
      by_cases h2 : s'.sid = sid
      · left; exact ⟨rfl, s', rfl, h2, by simp [h2]⟩
      · right
        cases hs : changeTooSoon st now
        · right; simp [h2]
        · left; simp [h2]
    | none =>
      right
      cases hs : changeTooSoon st now
      · right; simp
      · left; simp

theorem isCur_of {st : ClientState} {s : Session} (h : st.cur = some s) (sid : Nat) :
    isCur st sid = decide (s.sid = sid) := by
  by_cases hx : s.sid = sid <;> simp [isCur, h, hx]

theorem isOld_of {st : ClientState} {s : Session} (h : st.old = some s) (sid : Nat) :
    isOld st sid = decide (s.sid = sid) := by
  by_cases hx : s.sid = sid <;> simp [isOld, h, hx]

/-- an id already in the log of a session is refused by that session's filter -/
theorem replayed_of_mem {n : Nat} {s : Session} {log : List Entry} (h : SessInv n (some s) log)
    {e : Entry} (he : e ∈ log) : replayed (some s.filter) e.pid = true := by
  obtain ⟨hI, _, _⟩ := h
  cases hr : replayed (some s.filter) e.pid with
  | true => rfl
  | false =>
    simp only [replayed, Bool.not_eq_false'] at hr
    have := ((isOk_iff hI e.pid).mp hr).1
    exact absurd (List.mem_map_of_mem (f := (·.pid)) he) this

/-! ### one step -/

def key (e : Entry) : Nat × Nat × BitVec 64 := (e.sid, e.pid, e.ts)

def entryOf (now : Nat) (p : Packet) : Entry := { sid := p.sid, pid := p.pid, ts := p.ts, td := now }

/-- the ghost state after a delivery -/
def ghostStep (st : ClientState) (g : Ghost) (now : Nat) (p : Packet) : Ghost :=
  if isCur st p.sid then { g with cur := entryOf now p :: g.cur }
  else if isOld st p.sid then { g with old := entryOf now p :: g.old }
  else { cur := [entryOf now p], old := g.cur, dropped := g.old ++ g.dropped }

theorem ghostStep_all {st : ClientState} {g : Ghost} {now : Nat} {p : Packet} :
    ∀ e, e ∈ (ghostStep st g now p).all ↔ (e = entryOf now p ∨ e ∈ g.all) := by
  intro e
  unfold ghostStep Ghost.all
  split
  · simp only [List.cons_append, List.mem_cons]
  · split
    · simp only [List.mem_append, List.mem_cons]
      constructor
      · rintro (h | (h | h) | h)
        · exact Or.inr (Or.inl h)
        · exact Or.inl h
        · exact Or.inr (Or.inr (Or.inl h))
        · exact Or.inr (Or.inr (Or.inr h))
      · rintro (h | h | h | h)
        · exact Or.inr (Or.inl (Or.inl h))
        · exact Or.inl h
        · exact Or.inr (Or.inl (Or.inr h))
        · exact Or.inr (Or.inr h)
    · simp only [List.mem_append, List.mem_cons, List.not_mem_nil, or_false]

theorem client_step {st : ClientState} {g : Ghost} {T t : Nat} {p : Packet}
    (h1 : 1 ≤ st.filterSize) (h2 : st.filterSize + 63 < 2 ^ 63)
    (hinv : CInv st g T) (ht : T ≤ t)
    (r3 : ClockOk t)
    (hok : clientVerdict st t p = .ok) :
    (∀ e ∈ g.all, key e ≠ key (entryOf t p)) ∧ CInv (clientCommit st t p) (ghostStep st g t p) t := by
  obtain ⟨_, status, sf, hcl, hrep, _, hparse⟩ := clientVerdict_ok.mp hok
  obtain ⟨_, _, htsv, _, _⟩ := parseServerHeader_none hparse
  have hI := interval_eq
  have hinv' := hinv.mono ht
  have hvalid0 : tsValid (entryOf t p).ts (entryOf t p).td = true := htsv
  -- entries of dropped sessions are protected by their timestamps
  have dropped_stale : ∀ e ∈ g.dropped, e.sid = p.sid → e.ts = p.ts →
      (isCur st p.sid = true ∨ isOld st p.sid = true ∨ changeTooSoon st t = false) → False := by
    intro e he hs hts hcase
    obtain ⟨L, hL, hle, hcond⟩ := hinv.dropped e he
    have hLt := hinv'.seenLe L hL
    have hv := hinv.valid e (by unfold Ghost.all; simp [he])
    have hfar : e.td + 61000000000 ≤ t := by
      rcases hcase with hc | hc | hc
      · have := hcond (Or.inl (hs ▸ hc)); omega
      · have := hcond (Or.inr (hs ▸ hc)); omega
      · simp only [changeTooSoon, hL, decide_eq_false_iff_not] at hc; omega
    have := ts_expire r3 hv hfar
    rw [hts, htsv] at this; cases this
  rcases classify_cases st t p.sid with ⟨s, hcur, hsid, hc⟩ | ⟨hnc, s, hold, hsid, hc⟩ | ⟨_, _, _, hc⟩ | ⟨hnc, hno, hsoon, hc⟩
  · -- current session
    rw [hc] at hcl; cases hcl
    have hisCur : isCur st p.sid = true := by rw [isCur_of hcur]; simp [hsid]
    have hS : SessInv st.filterSize (some s) g.cur := by have := hinv.cur; rw [hcur] at this; exact this
    have hF : FInv (some s.filter) (g.cur.map (·.pid)) st.filterSize := ⟨hS.1, hS.2.1⟩
    obtain ⟨hI', hsz'⟩ := filterOrNew_mustAdd h1 h2 hF hrep
    refine ⟨?_, ?_⟩
    · intro e he hk
      simp only [key, entryOf, Prod.mk.injEq] at hk
      obtain ⟨hk1, hk2, hk3⟩ := hk
      unfold Ghost.all at he
      rcases List.mem_append.mp he with he | he
      · have := replayed_of_mem hS he
        rw [hk2, hrep] at this; cases this
      · rcases List.mem_append.mp he with he | he
        · -- the old session has another id
          cases hold : st.old with
          | none => have := hinv.old; rw [hold] at this; simp only [SessInv] at this; rw [this] at he; cases he
          | some s' =>
            have hS' := hinv.old; rw [hold] at hS'
            have := hS'.2.2 e he
            exact hinv.distinct s s' hcur hold (by rw [hsid, ← hk1, this])
        · exact dropped_stale e he hk1 hk3 (Or.inl hisCur)
    · have hst' : clientCommit st t p = { st with cur := some { sid := p.sid, filter := mustAdd (filterOrNew (some s.filter) st.filterSize) p.pid } } := by
        unfold clientCommit; rw [hc]
      have hg' : ghostStep st g t p = { g with cur := entryOf t p :: g.cur } := by
        unfold ghostStep; rw [if_pos hisCur]
      rw [hst', hg']
      have hcur' : ∀ x, isCur { st with cur := some { sid := p.sid, filter := mustAdd (filterOrNew (some s.filter) st.filterSize) p.pid } } x = isCur st x := by
        intro x; simp [isCur, hcur, hsid]
      refine ⟨?_, hinv'.old, hinv'.oldSeen, ?_, hinv'.seenLe, ?_, ?_, ?_⟩
      · refine ⟨hI', hsz', ?_⟩
        intro e he
        rcases List.mem_cons.mp he with rfl | he
        · rfl
        · show e.sid = p.sid
          rw [hS.2.2 e he, hsid]
      · intro e he
        obtain ⟨L, hL, hle, hcond⟩ := hinv.dropped e he
        refine ⟨L, hL, hle, ?_⟩
        intro hx; apply hcond
        rcases hx with hx | hx
        · left; rw [← hcur']; exact hx
        · right; exact hx
      · intro e he
        rcases List.mem_cons.mp he with rfl | he
        · exact Nat.le_refl _
        · exact hinv'.curLe e he
      · intro e he
        have : e = entryOf t p ∨ e ∈ g.all := by
          unfold Ghost.all at he ⊢
          simp only [List.cons_append, List.mem_cons] at he
          exact he
        rcases this with rfl | he
        · exact hvalid0
        · exact hinv.valid e he
      · intro a b ha hb
        simp only [Option.some.injEq] at ha
        subst ha
        show p.sid ≠ b.sid
        rw [← hsid]; exact hinv.distinct s b hcur hb
  · -- old session
    rw [hc] at hcl; cases hcl
    have hisOld : isOld st p.sid = true := by rw [isOld_of hold]; simp [hsid]
    have hS : SessInv st.filterSize (some s) g.old := by have := hinv.old; rw [hold] at this; exact this
    have hF : FInv (some s.filter) (g.old.map (·.pid)) st.filterSize := ⟨hS.1, hS.2.1⟩
    obtain ⟨hI', hsz'⟩ := filterOrNew_mustAdd h1 h2 hF hrep
    refine ⟨?_, ?_⟩
    · intro e he hk
      simp only [key, entryOf, Prod.mk.injEq] at hk
      obtain ⟨hk1, hk2, hk3⟩ := hk
      unfold Ghost.all at he
      rcases List.mem_append.mp he with he | he
      · cases hcur : st.cur with
        | none => have := hinv.cur; rw [hcur] at this; simp only [SessInv] at this; rw [this] at he; cases he
        | some s' =>
          have hS' := hinv.cur; rw [hcur] at hS'
          have := hS'.2.2 e he
          rw [isCur_of hcur] at hnc
          simp only [decide_eq_false_iff_not] at hnc
          exact hnc (by rw [← this, hk1])
      · rcases List.mem_append.mp he with he | he
        · have := replayed_of_mem hS he
          rw [hk2, hrep] at this; cases this
        · exact dropped_stale e he hk1 hk3 (Or.inr (Or.inl hisOld))
    · have hst' : clientCommit st t p = { st with old := some { sid := p.sid, filter := mustAdd (filterOrNew (some s.filter) st.filterSize) p.pid }, oldLastSeen := some t } := by
        unfold clientCommit; rw [hc]
      have hg' : ghostStep st g t p = { g with old := entryOf t p :: g.old } := by
        unfold ghostStep; rw [if_neg (by simp [hnc]), if_pos hisOld]
      rw [hst', hg']
      have hold' : ∀ x, isOld { st with old := some { sid := p.sid, filter := mustAdd (filterOrNew (some s.filter) st.filterSize) p.pid }, oldLastSeen := some t } x = isOld st x := by
        intro x; simp [isOld, hold, hsid]
      refine ⟨hinv'.cur, ?_, ?_, ?_, ?_, hinv'.curLe, ?_, ?_⟩
      · refine ⟨hI', hsz', ?_⟩
        intro e he
        rcases List.mem_cons.mp he with rfl | he
        · rfl
        · show e.sid = p.sid
          rw [hS.2.2 e he, hsid]
      · intro e he
        refine ⟨t, rfl, ?_⟩
        rcases List.mem_cons.mp he with rfl | he
        · exact Nat.le_refl _
        · obtain ⟨L, hL, hle⟩ := hinv.oldSeen e he
          have := hinv'.seenLe L hL; omega
      · intro e he
        obtain ⟨L, hL, hle, hcond⟩ := hinv.dropped e he
        have hLt := hinv'.seenLe L hL
        refine ⟨t, rfl, by omega, ?_⟩
        intro hx
        have : e.td + 2 * sessionChangeInterval ≤ L := by
          apply hcond
          rcases hx with hx | hx
          · left; exact hx
          · right; rw [← hold']; exact hx
        omega
      · intro L hL
        simp only [Option.some.injEq] at hL
        omega
      · intro e he
        have : e = entryOf t p ∨ e ∈ g.all := by
          unfold Ghost.all at he ⊢
          simp only [List.cons_append, List.mem_append, List.mem_cons] at he ⊢
          rcases he with h | h | h | h
          · exact Or.inr (Or.inl h)
          · exact Or.inl h
          · exact Or.inr (Or.inr (Or.inl h))
          · exact Or.inr (Or.inr (Or.inr h))
        rcases this with rfl | he
        · exact hvalid0
        · exact hinv.valid e he
      · intro a b ha hb
        simp only [Option.some.injEq] at hb
        subst hb
        show a.sid ≠ p.sid
        rw [← hsid]; exact hinv.distinct a s ha hold
  · -- refused by the one-minute rule: not a delivery
    rw [hc] at hcl; cases hcl
  · -- new session
    rw [hc] at hcl; cases hcl
    have hF : FInv (none : Option Filter) ([] : List Nat) st.filterSize := rfl
    obtain ⟨hI', hsz'⟩ := filterOrNew_mustAdd h1 h2 hF hrep
    refine ⟨?_, ?_⟩
    · intro e he hk
      simp only [key, entryOf, Prod.mk.injEq] at hk
      obtain ⟨hk1, hk2, hk3⟩ := hk
      unfold Ghost.all at he
      rcases List.mem_append.mp he with he | he
      · cases hcur : st.cur with
        | none => have := hinv.cur; rw [hcur] at this; simp only [SessInv] at this; rw [this] at he; cases he
        | some s' =>
          have hS' := hinv.cur; rw [hcur] at hS'
          have := hS'.2.2 e he
          rw [isCur_of hcur] at hnc
          simp only [decide_eq_false_iff_not] at hnc
          exact hnc (by rw [← this, hk1])
      · rcases List.mem_append.mp he with he | he
        · cases hold : st.old with
          | none => have := hinv.old; rw [hold] at this; simp only [SessInv] at this; rw [this] at he; cases he
          | some s' =>
            have hS' := hinv.old; rw [hold] at hS'
            have := hS'.2.2 e he
            rw [isOld_of hold] at hno
            simp only [decide_eq_false_iff_not] at hno
            exact hno (by rw [← this, hk1])
        · exact dropped_stale e he hk1 hk3 (Or.inr (Or.inr hsoon))
    · have hst' : clientCommit st t p = { st with old := st.cur, oldLastSeen := some t, cur := some { sid := p.sid, filter := mustAdd (filterOrNew none st.filterSize) p.pid } } := by
        unfold clientCommit; rw [hc]
      have hg' : ghostStep st g t p = { cur := [entryOf t p], old := g.cur, dropped := g.old ++ g.dropped } := by
        unfold ghostStep; rw [if_neg (by simp [hnc]), if_neg (by simp [hno])]
      rw [hst', hg']
      refine ⟨?_, hinv.cur, ?_, ?_, ?_, ?_, ?_, ?_⟩
      · refine ⟨hI', hsz', ?_⟩
        intro e he
        rcases List.mem_cons.mp he with rfl | he
        · rfl
        · cases he
      · intro e he
        exact ⟨t, rfl, hinv'.curLe e he⟩
      · intro e he
        refine ⟨t, rfl, ?_⟩
        rcases List.mem_append.mp he with he | he
        · -- entries of the session that is dropped now
          obtain ⟨L, hL, hle⟩ := hinv.oldSeen e he
          have hsoon' := hsoon
          simp only [changeTooSoon, hL, decide_eq_false_iff_not] at hsoon'
          refine ⟨by omega, ?_⟩
          intro hx
          exfalso
          cases hold : st.old with
          | none => have := hinv.old; rw [hold] at this; simp only [SessInv] at this; rw [this] at he; cases he
          | some s' =>
            have hS' := hinv.old; rw [hold] at hS'
            have hes := hS'.2.2 e he
            rcases hx with hx | hx
            · simp only [isCur, beq_iff_eq] at hx
              rw [isOld_of hold] at hno
              simp only [decide_eq_false_iff_not] at hno
              exact hno (by rw [← hes, ← hx])
            · cases hcur : st.cur with
              | none => simp [isOld, hcur] at hx
              | some s'' =>
                simp only [isOld, hcur, beq_iff_eq] at hx
                exact hinv.distinct s'' s' hcur hold (by rw [hx, hes])
        · obtain ⟨L, hL, hle, _⟩ := hinv.dropped e he
          have hsoon' := hsoon
          simp only [changeTooSoon, hL, decide_eq_false_iff_not] at hsoon'
          refine ⟨by omega, fun _ => by omega⟩
      · intro L hL
        simp only [Option.some.injEq] at hL
        omega
      · intro e he
        rcases List.mem_cons.mp he with rfl | he
        · exact Nat.le_refl _
        · cases he
      · intro e he
        have : e = entryOf t p ∨ e ∈ g.all := by
          unfold Ghost.all at he ⊢
          simp only [List.cons_append, List.nil_append, List.mem_append, List.mem_cons] at he ⊢
          rcases he with h | h | h | h
          · exact Or.inl h
          · exact Or.inr (Or.inl h)
          · exact Or.inr (Or.inr (Or.inl h))
          · exact Or.inr (Or.inr (Or.inr h))
        rcases this with rfl | he
        · exact hvalid0
        · exact hinv.valid e he
      · intro a b ha hb
        simp only [Option.some.injEq] at ha
        subst ha
        show p.sid ≠ b.sid
        have hb' : st.cur = some b := hb
        rw [isCur_of hb'] at hnc
        simp only [decide_eq_false_iff_not] at hnc
        exact fun e => hnc e.symm

/-! ### runs -/

/-- clock readings never go back -/
def MonoFrom : Nat → List Event → Prop
  | _, [] => True
  | T, (t, _) :: r => T ≤ t ∧ MonoFrom t r

/-- sane clock at the event: `now.Unix() + MaxEpochDiff` is an `int64` (timestamps are arbitrary 64-bit words) -/
def EvOk (e : Event) : Prop := ClockOk e.1

/-- (session id, packet id, timestamp) of the delivered packets of a run, in order -/
def clientOkKeys (st : ClientState) : List Event → List (Nat × Nat × BitVec 64)
  | [] => []
  | (t, p) :: r =>
    if (clientStep st t p).2 = .ok then (p.sid, p.pid, p.ts) :: clientOkKeys (clientStep st t p).1 r
    else clientOkKeys (clientStep st t p).1 r

theorem clientCommit_filterSize (st : ClientState) (t : Nat) (p : Packet) :
    (clientStep st t p).1.filterSize = st.filterSize := by
  unfold clientStep; split
  · exact (clientCommit_csid st t p).2
  · rfl

theorem client_run_nodup {st : ClientState} {g : Ghost} {T : Nat}
    (h1 : 1 ≤ st.filterSize) (h2 : st.filterSize + 63 < 2 ^ 63) (hinv : CInv st g T)
    (evs : List Event) (hm : MonoFrom T evs) (hr : ∀ e ∈ evs, EvOk e) :
    (clientOkKeys st evs).Nodup ∧ ∀ k ∈ clientOkKeys st evs, ∀ e ∈ g.all, key e ≠ k := by
  induction evs generalizing st g T with
  | nil => exact ⟨List.nodup_nil, fun k hk => by cases hk⟩
  | cons ev r ih =>
    obtain ⟨t, p⟩ := ev
    obtain ⟨hTt, hm'⟩ := hm
    have r3 := hr (t, p) List.mem_cons_self
    have hr' : ∀ e ∈ r, EvOk e := fun e he => hr e (List.mem_cons_of_mem _ he)
    have hfs := clientCommit_filterSize st t p
    simp only [clientOkKeys]
    by_cases hok : (clientStep st t p).2 = .ok
    · have hv : clientVerdict st t p = .ok := by rw [← clientStep_res]; exact hok
      obtain ⟨hnew, hinv2⟩ := client_step h1 h2 hinv hTt r3 hv
      rw [if_pos hok]
      rw [clientStep_ok_state hv] at hfs ⊢
      obtain ⟨ihn, ihk⟩ := ih (by rw [hfs]; exact h1) (by rw [hfs]; exact h2) hinv2 hm' hr'
      refine ⟨List.nodup_cons.mpr ⟨?_, ihn⟩, ?_⟩
      · intro hmem
        exact ihk _ hmem (entryOf t p) ((ghostStep_all _).mpr (Or.inl rfl)) rfl
      · intro k hk e he
        rcases List.mem_cons.mp hk with rfl | hk
        · exact hnew e he
        · exact ihk k hk e ((ghostStep_all _).mpr (Or.inr he))
    · rw [if_neg hok]
      have hst := clientStep_noop st t p hok
      rw [hst]
      exact ih h1 h2 (hinv.mono hTt) hm' hr'

theorem clientInit_inv (n csid : Nat) : CInv (clientInit n csid) { cur := [], old := [], dropped := [] } 0 := by
  refine ⟨rfl, rfl, ?_, ?_, ?_, ?_, ?_, ?_⟩
  · intro e he; cases he
  · intro e he; cases he
  · intro L hL; cases hL
  · intro e he; cases he
  · intro e he; cases he
  · intro a b ha; cases ha

/-! ### fresh packets of the current / old server session are never refused -/

def ghostAfter (st : ClientState) (g : Ghost) : List Event → Ghost
  | [] => g
  | (t, p) :: r =>
    if (clientStep st t p).2 = .ok then ghostAfter (clientStep st t p).1 (ghostStep st g t p) r
    else ghostAfter (clientStep st t p).1 g r

theorem client_run_inv {st : ClientState} {g : Ghost} {T : Nat}
    (h1 : 1 ≤ st.filterSize) (h2 : st.filterSize + 63 < 2 ^ 63) (hinv : CInv st g T)
    (evs : List Event) (hm : MonoFrom T evs) (hr : ∀ e ∈ evs, EvOk e) :
    (∃ T', CInv (clientAfter st evs) (ghostAfter st g evs) T') ∧ (clientAfter st evs).filterSize = st.filterSize ∧
      (clientAfter st evs).csid = st.csid := by
  induction evs generalizing st g T with
  | nil => exact ⟨⟨T, hinv⟩, rfl, rfl⟩
  | cons ev r ih =>
    obtain ⟨t, p⟩ := ev
    obtain ⟨hTt, hm'⟩ := hm
    have r3 := hr (t, p) List.mem_cons_self
    have hr' : ∀ e ∈ r, EvOk e := fun e he => hr e (List.mem_cons_of_mem _ he)
    have hfs := clientCommit_filterSize st t p
    have hcs := clientStep_csid st t p
    simp only [clientAfter, ghostAfter]
    by_cases hok : (clientStep st t p).2 = .ok
    · have hv : clientVerdict st t p = .ok := by rw [← clientStep_res]; exact hok
      obtain ⟨_, hinv2⟩ := client_step h1 h2 hinv hTt r3 hv
      rw [if_pos hok]
      rw [← clientStep_ok_state hv] at hinv2
      obtain ⟨a, b, c⟩ := ih (by rw [hfs]; exact h1) (by rw [hfs]; exact h2) hinv2 hm' hr'
      exact ⟨a, by rw [b, hfs], by rw [c, hcs]⟩
    · rw [if_neg hok]
      have hst := clientStep_noop st t p hok
      rw [hst]
      exact ih h1 h2 (hinv.mono hTt) hm' hr'

theorem client_fresh_accepted {st : ClientState} {g : Ghost} {T : Nat} (hinv : CInv st g T) (t : Nat) (p : Packet)
    (hl : p.long = true) (ha : p.authentic = true) (hp : parseServerHeader t st.csid p = none) :
    (isCur st p.sid = true → Fresh st.filterSize (g.cur.map (·.pid)) p.pid → clientVerdict st t p = .ok) ∧
    (isCur st p.sid = false → isOld st p.sid = true → Fresh st.filterSize (g.old.map (·.pid)) p.pid →
      clientVerdict st t p = .ok) := by
  constructor
  · intro hc hf
    rcases classify_cases st t p.sid with ⟨s, hcur, hsid, hcl⟩ | ⟨hnc, _⟩ | ⟨hnc, _⟩ | ⟨hnc, _⟩
    · have hS : SessInv st.filterSize (some s) g.cur := by have := hinv.cur; rw [hcur] at this; exact this
      have hF : FInv (some s.filter) (g.cur.map (·.pid)) st.filterSize := ⟨hS.1, hS.2.1⟩
      exact clientVerdict_ok.mpr ⟨hl, .current, some s.filter, hcl, (replayed_iff hF p.pid).mpr hf, ha, hp⟩
    all_goals (rw [hc] at hnc; cases hnc)
  · intro hnc ho hf
    rcases classify_cases st t p.sid with ⟨s, hcur, hsid, _⟩ | ⟨_, s, hold, hsid, hcl⟩ | ⟨_, hno, _⟩ | ⟨_, hno, _⟩
    · rw [isCur_of hcur] at hnc; simp [hsid] at hnc
    · have hS : SessInv st.filterSize (some s) g.old := by have := hinv.old; rw [hold] at this; exact this
      have hF : FInv (some s.filter) (g.old.map (·.pid)) st.filterSize := ⟨hS.1, hS.2.1⟩
      exact clientVerdict_ok.mpr ⟨hl, .old, some s.filter, hcl, (replayed_iff hF p.pid).mpr hf, ha, hp⟩
    all_goals (rw [ho] at hno; cases hno)

/-! ### at most one server-session change per minute -/

/-- clock readings of the deliveries that changed the current server session -/
def clientChanges (st : ClientState) : List Event → List Nat
  | [] => []
  | (t, p) :: r =>
    if (clientStep st t p).2 = .ok ∧ isCur st p.sid = false ∧ isOld st p.sid = false
    then t :: clientChanges (clientStep st t p).1 r
    else clientChanges (clientStep st t p).1 r

/-- `oldServerSessionLastSeenTime` never lies in the future and never moves back -/
theorem oldLastSeen_step (st : ClientState) (t : Nat) (p : Packet) (L : Nat) (hL : st.oldLastSeen = some L) (hLt : L ≤ t) :
    ∃ L', (clientStep st t p).1.oldLastSeen = some L' ∧ L ≤ L' ∧ L' ≤ t := by
  unfold clientStep
  split
  · unfold clientCommit
    cases hc : classify st t p.sid with
    | none => exact ⟨L, hL, Nat.le_refl _, hLt⟩
    | some v =>
      obtain ⟨status, sf⟩ := v
      cases status
      · exact ⟨L, hL, Nat.le_refl _, hLt⟩
      · exact ⟨t, rfl, hLt, Nat.le_refl _⟩
      · exact ⟨t, rfl, hLt, Nat.le_refl _⟩
  · exact ⟨L, hL, Nat.le_refl _, hLt⟩

theorem client_changes_spaced {st : ClientState} {T : Nat} (evs : List Event) (hm : MonoFrom T evs)
    (L : Nat) (hL : st.oldLastSeen = some L) (hLT : L ≤ T) :
    ∀ c ∈ clientChanges st evs, L + sessionChangeInterval ≤ c := by
  induction evs generalizing st T L with
  | nil => intro c hc; cases hc
  | cons ev r ih =>
    obtain ⟨t, p⟩ := ev
    obtain ⟨hTt, hm'⟩ := hm
    obtain ⟨L', hL', hLL', hL't⟩ := oldLastSeen_step st t p L hL (Nat.le_trans hLT hTt)
    have ihr := ih hm' L' hL' hL't
    intro c hc
    simp only [clientChanges] at hc
    split at hc
    · next hch =>
      rcases List.mem_cons.mp hc with rfl | hc
      · obtain ⟨hok, hnc, hno⟩ := hch
        rw [clientStep_res] at hok
        obtain ⟨_, status, sf, hcl, _⟩ := clientVerdict_ok.mp hok
        rcases classify_cases st c p.sid with ⟨s, hcur, hsid, _⟩ | ⟨_, s, hold, hsid, _⟩ | ⟨_, _, _, hcn⟩ | ⟨_, _, hsoon, _⟩
        · rw [isCur_of hcur] at hnc; simp [hsid] at hnc
        · rw [isOld_of hold] at hno; simp [hsid] at hno
        · rw [hcn] at hcl; cases hcl
        · simp only [changeTooSoon, hL, decide_eq_false_iff_not] at hsoon
          omega
      · have := ihr c hc; omega
    · have := ihr c hc; omega

theorem client_changes_pairwise {st : ClientState} {T : Nat} (evs : List Event) (hm : MonoFrom T evs) :
    (clientChanges st evs).Pairwise (fun a b => a + sessionChangeInterval ≤ b) := by
  induction evs generalizing st T with
  | nil => exact List.Pairwise.nil
  | cons ev r ih =>
    obtain ⟨t, p⟩ := ev
    obtain ⟨hTt, hm'⟩ := hm
    simp only [clientChanges]
    split
    · next hch =>
      refine List.Pairwise.cons ?_ (ih hm')
      -- after a change `oldLastSeen = t`
      obtain ⟨hok, hnc, hno⟩ := hch
      rw [clientStep_res] at hok
      have hst : (clientStep st t p).1.oldLastSeen = some t := by
        rw [clientStep_ok_state hok]
        unfold clientCommit
        rcases classify_cases st t p.sid with ⟨s, hcur, hsid, _⟩ | ⟨_, s, hold, hsid, _⟩ | ⟨_, _, _, hcn⟩ | ⟨_, _, _, hcn⟩
        · rw [isCur_of hcur] at hnc; simp [hsid] at hnc
        · rw [isOld_of hold] at hno; simp [hsid] at hno
        · obtain ⟨_, status, sf, hcl, _⟩ := clientVerdict_ok.mp hok
          rw [hcn] at hcl; cases hcl
        · rw [hcn]
      exact client_changes_spaced r hm' t hst (Nat.le_refl _)
    · exact ih hm'

end SSV.UdpSession
