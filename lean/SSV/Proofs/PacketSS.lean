import SSV.Proofs.PacketPlain
/- C05 helper lemmas: Shadowsocks 2022 packers and unpackers. -/
namespace SSV.Packet
open SSV SSV.Gen.C05

theorem choosePadding_bounds (m : Int) (p : Bool) (r : Nat) (hm : 0 ≤ m) :
    0 ≤ choosePadding m p r ∧ choosePadding m p r ≤ m := by
  unfold choosePadding
  split
  · next h =>
    have : (r % m.toNat : Nat) < m.toNat := Nat.mod_lt _ (by omega)
    omega
  · omega

/-- `ParseUDPClientMessageHeader` reads back what `PutUDPClientMessageHeader` wrote -/
theorem parseClientHeader_put (ts padding : Bytes) (pad : Nat) (a : Addr) (payload : Bytes) (now : Int)
    (hts : ts.length = 8) (hpadl : padding.length = pad) (hp : pad < 65536) (ha : a.wf) (htsok : tsOk ts now = true) :
    parseClientHeader (UInt8.ofNat HeaderTypeClientPacket :: (ts ++ (be16 pad ++ (padding ++ (encodeAddr a ++ payload))))) now
      = .ok (a.norm, 11 + pad + (addrLen a).toNat, payload.length) := by
  have hal := encodeAddr_length a ha
  have e0 : sub (UInt8.ofNat HeaderTypeClientPacket :: (ts ++ (be16 pad ++ (padding ++ (encodeAddr a ++ payload))))) 0 1
      = [UInt8.ofNat HeaderTypeClientPacket] := by simp [sub]
  have e1 : sub (UInt8.ofNat HeaderTypeClientPacket :: (ts ++ (be16 pad ++ (padding ++ (encodeAddr a ++ payload))))) 1 8 = ts := by
    rw [sub_cons_succ, sub_left _ _ _ hts]
  have e2 : sub (UInt8.ofNat HeaderTypeClientPacket :: (ts ++ (be16 pad ++ (padding ++ (encodeAddr a ++ payload))))) 9 2 = be16 pad := by
    rw [sub_cons_succ, sub_right ts _ 8 2 0 (by omega), sub_left (be16 pad) _ 2 rfl]
  have e3 : List.drop (11 + pad) (UInt8.ofNat HeaderTypeClientPacket :: (ts ++ (be16 pad ++ (padding ++ (encodeAddr a ++ payload)))))
      = encodeAddr a ++ payload := by
    have : (UInt8.ofNat HeaderTypeClientPacket :: (ts ++ (be16 pad ++ (padding ++ (encodeAddr a ++ payload)))))
        = (UInt8.ofNat HeaderTypeClientPacket :: (ts ++ (be16 pad ++ padding))) ++ (encodeAddr a ++ payload) := by simp
    have hl : (UInt8.ofNat HeaderTypeClientPacket :: (ts ++ (be16 pad ++ padding))).length = 11 + pad := by
      simp only [List.length_cons, List.length_append, hts, be16_length, hpadl]; omega
    rw [this, ← hl, List.drop_left]
  unfold parseClientHeader
  simp only [e0, e1, e2, e3, unbe_be16 _ hp, htsok, List.length_cons, List.length_append, hts, be16_length, hpadl,
    UDPClientMessageHeaderFixedLength, decode_encodeAddr a payload ha]
  rw [if_neg (by omega), if_neg (by simp), if_neg (by simp), if_neg (by omega)]
  have : 8 + (2 + (pad + (List.length (encodeAddr a) + List.length payload))) + 1 - (11 + pad + (addrLen a).toNat)
      = List.length payload := by omega
  rw [this]


/-- `ParseUDPServerMessageHeader` reads back what `PutUDPServerMessageHeader` wrote -/
theorem parseServerHeader_put (ts csid padding : Bytes) (pad : Nat) (a : AddrPort) (payload : Bytes) (now : Int)
    (hts : ts.length = 8) (hcs : csid.length = 8) (hpadl : padding.length = pad) (hp : pad < 65536) (ha : a.wf)
    (htsok : tsOk ts now = true) :
    parseServerHeader (UInt8.ofNat HeaderTypeServerPacket :: (ts ++ (csid ++ (be16 pad ++ (padding ++ (encodeAddrPort a ++ payload)))))) now csid
      = .ok (a.norm, 19 + pad + (addrPortLen a).toNat, payload.length) := by
  have hal := encodeAddrPort_length a ha
  have e0 : sub (UInt8.ofNat HeaderTypeServerPacket :: (ts ++ (csid ++ (be16 pad ++ (padding ++ (encodeAddrPort a ++ payload)))))) 0 1
      = [UInt8.ofNat HeaderTypeServerPacket] := by simp [sub]
  have e1 : sub (UInt8.ofNat HeaderTypeServerPacket :: (ts ++ (csid ++ (be16 pad ++ (padding ++ (encodeAddrPort a ++ payload)))))) 1 8 = ts := by
    rw [sub_cons_succ, sub_left _ _ _ hts]
  have e1' : sub (UInt8.ofNat HeaderTypeServerPacket :: (ts ++ (csid ++ (be16 pad ++ (padding ++ (encodeAddrPort a ++ payload)))))) 9 8 = csid := by
    rw [sub_cons_succ, sub_right ts _ 8 8 0 (by omega), sub_left csid _ 8 hcs]
  have e2 : sub (UInt8.ofNat HeaderTypeServerPacket :: (ts ++ (csid ++ (be16 pad ++ (padding ++ (encodeAddrPort a ++ payload)))))) 17 2 = be16 pad := by
    rw [sub_cons_succ, sub_right ts _ 16 2 8 (by omega), sub_right csid _ 8 2 0 (by omega), sub_left (be16 pad) _ 2 rfl]
  have e3 : List.drop (19 + pad) (UInt8.ofNat HeaderTypeServerPacket :: (ts ++ (csid ++ (be16 pad ++ (padding ++ (encodeAddrPort a ++ payload))))))
      = encodeAddrPort a ++ payload := by
    have : (UInt8.ofNat HeaderTypeServerPacket :: (ts ++ (csid ++ (be16 pad ++ (padding ++ (encodeAddrPort a ++ payload))))))
        = (UInt8.ofNat HeaderTypeServerPacket :: (ts ++ (csid ++ (be16 pad ++ padding)))) ++ (encodeAddrPort a ++ payload) := by simp
    have hl : (UInt8.ofNat HeaderTypeServerPacket :: (ts ++ (csid ++ (be16 pad ++ padding)))).length = 19 + pad := by
      simp only [List.length_cons, List.length_append, hts, hcs, be16_length, hpadl]; omega
    rw [this, ← hl, List.drop_left]
  unfold parseServerHeader
  simp only [e0, e1, e1', e2, e3, unbe_be16 _ hp, htsok, List.length_cons, List.length_append, hts, hcs, be16_length, hpadl,
    UDPServerMessageHeaderFixedLength, decode_encodeAddrPort a payload ha]
  rw [if_neg (by omega), if_neg (by simp), if_neg (by simp), if_neg (by simp), if_neg (by omega)]
  have : 8 + (8 + (2 + (pad + (List.length (encodeAddrPort a) + List.length payload)))) + 1 - (19 + pad + (addrPortLen a).toNat)
      = List.length payload := by omega
  rw [this]

theorem ite_panic_eq_ok {α : Type} (p : Prop) [Decidable p] (y : Outcome α) (r : α) :
    ((if p then Outcome.panic else y) = .ok r) ↔ (¬ p ∧ y = .ok r) := by
  by_cases h : p <;> simp [h]
theorem ite_noRoom_eq_ok {α : Type} (p : Prop) [Decidable p] (y : Outcome α) (r : α) :
    ((if p then Outcome.noRoom else y) = .ok r) ↔ (¬ p ∧ y = .ok r) := by
  by_cases h : p <;> simp [h]
theorem ite_err_eq_ok {α : Type} (p : Prop) [Decidable p] (e : Err) (y : Outcome α) (r : α) :
    ((if p then Outcome.err e else y) = .ok r) ↔ (¬ p ∧ y = .ok r) := by
  by_cases h : p <;> simp [h]

theorem addrLen_bounds (a : Addr) (ha : a.wf) : 5 ≤ addrLen a ∧ addrLen a ≤ 259 := by
  cases a with
  | zero => simp [addrLen, addrLenZero]
  | ip ap => simp only [addrLen, addrPortLen]; split <;> simp [addrLenV4, addrLenV6]
  | dom n p => obtain ⟨h1, h2, _⟩ := ha; simp only [addrLen, addrLenDomain]; omega

theorem addrPortLen_bounds (a : AddrPort) : 7 ≤ addrPortLen a ∧ addrPortLen a ≤ 19 := by
  simp only [addrPortLen]; split <;> simp [addrLenV4, addrLenV6]

/-- the message header `PutUDPClientMessageHeader` writes (the padding bytes are whatever the buffer held) -/
def ssClientHdr (b : Bytes) (a : Addr) (ps pad : Nat) (ts : Bytes) : Bytes :=
  UInt8.ofNat HeaderTypeClientPacket ::
    (ts ++ be16 pad ++ sub b (ps - (addrLen a).toNat - pad) pad ++ encodeAddr a)

def ssClientPacket (c : Crypto) (userBlock aeadKey : Bytes) (eih : List (Bytes × Bytes)) (b : Bytes) (a : Addr)
    (ps pl pad : Nat) (ts sid pid : Bytes) : Bytes :=
  c.enc (ssBlock userBlock eih) (sid ++ pid) ++ (eih.map (fun kh => c.enc kh.1 (xorBytes kh.2 (sid ++ pid)))).flatten ++
    c.aseal aeadKey ((sid ++ pid).drop 4) (ssClientHdr b a ps pad ts ++ sub b ps pl)

def ssFront (k : Nat) (a : Addr) (pad : Nat) : Nat := 16 + 16 * k + 11 + (addrLen a).toNat + pad

/-- shape of a successful second stage -/
theorem ssClientPackWith_ok {c : Crypto} {userBlock aeadKey : Bytes} {eih : List (Bytes × Bytes)}
    {b : Bytes} {a : Addr} {ps pl : Nat} {padI : Int} {ts sid pid : Bytes} {r : Packed} (ha : a.wf) (hp0 : 0 ≤ padI)
    (h : ssClientPackWith c userBlock aeadKey eih b a ps pl padI ts sid pid = .ok r) :
    ssFront eih.length a padI.toNat ≤ ps ∧ ps + pl + 16 ≤ b.length ∧
      r.packetStart = (ps : Int) - ssFront eih.length a padI.toNat ∧
      r.packetLen = ((ssFront eih.length a padI.toNat + pl + 16 : Nat) : Int) ∧
      r.buf = splice b (ps - ssFront eih.length a padI.toNat)
        (ssClientPacket c userBlock aeadKey eih b a ps pl padI.toNat ts sid pid) := by
  obtain ⟨hal1, hal2⟩ := addrLen_bounds a ha
  unfold ssClientPackWith at h
  simp only [ite_panic_eq_ok, ite_noRoom_eq_ok] at h
  obtain ⟨hs1, hs2, hs3, hroom, h⟩ := h
  simp only [Outcome.ok.injEq] at h
  subst h
  simp only [Decidable.not_not, sliceOk, cMessageHeaderStart, cPacketStart, cPacketLen,
    cIdentityHeadersStart, UDPSeparateHeaderLength, IdentityHeaderLength, UDPClientMessageHeaderFixedLength] at hs1 hs2 hs3 hroom ⊢
  refine ⟨?_, by omega, ?_, ?_, ?_⟩
  · simp only [ssFront]; omega
  · simp only [ssFront]; omega
  · simp only [ssFront]; omega
  · simp only [ssFront, ssClientPacket, ssClientHdr]
    have e : ((ps : Int) - 11 - addrLen a - padI).toNat + 11 = ps - (addrLen a).toNat - padI.toNat := by omega
    rw [e]
    congr 1
    omega


theorem sub_of_sub (bb : Bytes) (q n off m : Nat) (h : off + m ≤ n) :
    sub bb (q + off) m = sub (sub bb q n) off m := by
  unfold sub
  rw [List.drop_take, List.take_take, List.drop_drop]
  congr 1
  omega

/-- first stage: the padding choice is within the budget, so the packet respects `maxPacketSize` -/
theorem ssClientPack_ok {c : Crypto} {userBlock aeadKey : Bytes} {eih : List (Bytes × Bytes)} {mps : Int} {pol : Policy}
    {b : Bytes} {a : Addr} {ps pl rand : Nat} {ts sid pid : Bytes} {r : Packed} (ha : a.wf)
    (h : ssClientPack c userBlock aeadKey eih mps pol b a ps pl rand ts sid pid = .ok r) :
    ∃ pad : Nat, pad ≤ 65535 ∧ ssFront eih.length a pad ≤ ps ∧ ps + pl + 16 ≤ b.length ∧
      ((ssFront eih.length a pad + pl + 16 : Nat) : Int) ≤ mps ∧
      r.packetStart = (ps : Int) - ssFront eih.length a pad ∧
      r.packetLen = ((ssFront eih.length a pad + pl + 16 : Nat) : Int) ∧
      r.buf = splice b (ps - ssFront eih.length a pad) (ssClientPacket c userBlock aeadKey eih b a ps pl pad ts sid pid) := by
  obtain ⟨hal1, hal2⟩ := addrLen_bounds a ha
  unfold ssClientPack at h
  rw [wf_not_domTooLong ha] at h
  simp only [Bool.false_eq_true, if_false, ite_err_eq_ok] at h
  obtain ⟨hmax, h⟩ := h
  have hb := choosePadding_bounds _ (shouldPad pol a.port) rand (Int.not_lt.mp hmax)
  generalize choosePadding _ (shouldPad pol a.port) rand = padI at h hb
  obtain ⟨h1, h2, h3, h4, h5⟩ := ssClientPackWith_ok ha hb.1 h
  refine ⟨padI.toNat, ?_, h1, h2, ?_, h3, h4, h5⟩
  · have := hb.2
    simp only [cMaxPaddingLen, cHeaderNoPaddingLen] at this
    omega
  · have := hb.2
    simp only [cMaxPaddingLen, cHeaderNoPaddingLen, UDPSeparateHeaderLength, IdentityHeaderLength] at this
    simp only [ssFront]
    omega


end SSV.Packet
