import SSV.Proofs.PacketPlain
/- C05 helper lemmas: Shadowsocks 2022 packers and unpackers. -/
namespace SSV.Packet
open SSV SSV.Gen.C05

theorem choosePadding_bounds (m : Int) (p : Bool) (r : Nat) (hm : 0 ≤ m) :
    0 ≤ choosePadding m p r ∧ choosePadding m p r ≤ m := by
  unfold choosePadding
  split
  · next h =>
    have : (r % m.toNat : Nat) < m.toNat := Nat.mod_lt _ (by omega)
    omega
  · omega

/-- `ParseUDPClientMessageHeader` reads back what `PutUDPClientMessageHeader` wrote -/
theorem parseClientHeader_put (ts padding : Bytes) (pad : Nat) (a : Addr) (payload : Bytes) (now : Int)
    (hts : ts.length = 8) (hpadl : padding.length = pad) (hp : pad < 65536) (ha : a.wf) (htsok : tsOk ts now = true) :
    parseClientHeader (UInt8.ofNat HeaderTypeClientPacket :: (ts ++ (be16 pad ++ (padding ++ (encodeAddr a ++ payload))))) now
      = .ok (a.norm, 11 + pad + (addrLen a).toNat, payload.length) := by
  have hal := encodeAddr_length a ha
  have e0 : sub (UInt8.ofNat HeaderTypeClientPacket :: (ts ++ (be16 pad ++ (padding ++ (encodeAddr a ++ payload))))) 0 1
      = [UInt8.ofNat HeaderTypeClientPacket] := by simp [sub]
  have e1 : sub (UInt8.ofNat HeaderTypeClientPacket :: (ts ++ (be16 pad ++ (padding ++ (encodeAddr a ++ payload))))) 1 8 = ts := by
    rw [sub_cons_succ, sub_left _ _ _ hts]
  have e2 : sub (UInt8.ofNat HeaderTypeClientPacket :: (ts ++ (be16 pad ++ (padding ++ (encodeAddr a ++ payload))))) 9 2 = be16 pad := by
    rw [sub_cons_succ, sub_right ts _ 8 2 0 (by omega), sub_left (be16 pad) _ 2 rfl]
  have e3 : List.drop (11 + pad) (UInt8.ofNat HeaderTypeClientPacket :: (ts ++ (be16 pad ++ (padding ++ (encodeAddr a ++ payload)))))
      = encodeAddr a ++ payload := by
    have : (UInt8.ofNat HeaderTypeClientPacket :: (ts ++ (be16 pad ++ (padding ++ (encodeAddr a ++ payload)))))
        = (UInt8.ofNat HeaderTypeClientPacket :: (ts ++ (be16 pad ++ padding))) ++ (encodeAddr a ++ payload) := by simp
    have hl : (UInt8.ofNat HeaderTypeClientPacket :: (ts ++ (be16 pad ++ padding))).length = 11 + pad := by
      simp only [List.length_cons, List.length_append, hts, be16_length, hpadl]; omega
    rw [this, ← hl, List.drop_left]
  unfold parseClientHeader
  simp only [e0, e1, e2, e3, unbe_be16 _ hp, htsok, List.length_cons, List.length_append, hts, be16_length, hpadl,
    UDPClientMessageHeaderFixedLength, decode_encodeAddr a payload ha]
  rw [if_neg (by omega), if_neg (by simp), if_neg (by simp), if_neg (by omega)]
  have : 8 + (2 + (pad + (List.length (encodeAddr a) + List.length payload))) + 1 - (11 + pad + (addrLen a).toNat)
      = List.length payload := by omega
  rw [this]


/-- `ParseUDPServerMessageHeader` reads back what `PutUDPServerMessageHeader` wrote -/
theorem parseServerHeader_put (ts csid padding : Bytes) (pad : Nat) (a : AddrPort) (payload : Bytes) (now : Int)
    (hts : ts.length = 8) (hcs : csid.length = 8) (hpadl : padding.length = pad) (hp : pad < 65536) (ha : a.wf)
    (htsok : tsOk ts now = true) :
    parseServerHeader (UInt8.ofNat HeaderTypeServerPacket :: (ts ++ (csid ++ (be16 pad ++ (padding ++ (encodeAddrPort a ++ payload)))))) now csid
      = .ok (a.norm, 19 + pad + (addrPortLen a).toNat, payload.length) := by
  have hal := encodeAddrPort_length a ha
  have e0 : sub (UInt8.ofNat HeaderTypeServerPacket :: (ts ++ (csid ++ (be16 pad ++ (padding ++ (encodeAddrPort a ++ payload)))))) 0 1
      = [UInt8.ofNat HeaderTypeServerPacket] := by simp [sub]
  have e1 : sub (UInt8.ofNat HeaderTypeServerPacket :: (ts ++ (csid ++ (be16 pad ++ (padding ++ (encodeAddrPort a ++ payload)))))) 1 8 = ts := by
    rw [sub_cons_succ, sub_left _ _ _ hts]
  have e1' : sub (UInt8.ofNat HeaderTypeServerPacket :: (ts ++ (csid ++ (be16 pad ++ (padding ++ (encodeAddrPort a ++ payload)))))) 9 8 = csid := by
    rw [sub_cons_succ, sub_right ts _ 8 8 0 (by omega), sub_left csid _ 8 hcs]
  have e2 : sub (UInt8.ofNat HeaderTypeServerPacket :: (ts ++ (csid ++ (be16 pad ++ (padding ++ (encodeAddrPort a ++ payload)))))) 17 2 = be16 pad := by
    rw [sub_cons_succ, sub_right ts _ 16 2 8 (by omega), sub_right csid _ 8 2 0 (by omega), sub_left (be16 pad) _ 2 rfl]
  have e3 : List.drop (19 + pad) (UInt8.ofNat HeaderTypeServerPacket :: (ts ++ (csid ++ (be16 pad ++ (padding ++ (encodeAddrPort a ++ payload))))))
      = encodeAddrPort a ++ payload := by
    have : (UInt8.ofNat HeaderTypeServerPacket :: (ts ++ (csid ++ (be16 pad ++ (padding ++ (encodeAddrPort a ++ payload))))))
        = (UInt8.ofNat HeaderTypeServerPacket :: (ts ++ (csid ++ (be16 pad ++ padding)))) ++ (encodeAddrPort a ++ payload) := by simp
    have hl : (UInt8.ofNat HeaderTypeServerPacket :: (ts ++ (csid ++ (be16 pad ++ padding)))).length = 19 + pad := by
      simp only [List.length_cons, List.length_append, hts, hcs, be16_length, hpadl]; omega
    rw [this, ← hl, List.drop_left]
  unfold parseServerHeader
  simp only [e0, e1, e1', e2, e3, unbe_be16 _ hp, htsok, List.length_cons, List.length_append, hts, hcs, be16_length, hpadl,
    UDPServerMessageHeaderFixedLength, decode_encodeAddrPort a payload ha]
  rw [if_neg (by omega), if_neg (by simp), if_neg (by simp), if_neg (by simp), if_neg (by omega)]
  have : 8 + (8 + (2 + (pad + (List.length (encodeAddrPort a) + List.length payload)))) + 1 - (19 + pad + (addrPortLen a).toNat)
      = List.length payload := by omega
  rw [this]

end SSV.Packet
