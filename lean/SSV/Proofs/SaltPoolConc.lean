import SSV.Proofs.SaltPool
/-
Helper lemmas for C03, part 4: k concurrent presentations of one request.
-/
namespace SSV.SaltPool

theorem phase1_cases (P : Params) (c : Bool) (r : Request) (pool : Pool) :
    (phase1 P c r pool = none ∧ r.complete = true ∧ tryContains c pool r.salt = false ∧ r.prefixOk = true ∧
        r.userOk = true ∧ r.authOk = true) ∨
    (∃ v, phase1 P c r pool = some v ∧ v ≠ .accepted ∧ v ≠ .lateError ∧
        (v = .repeatedSalt → tryContains c pool r.salt = true) ∧
        (r.complete = true → r.prefixOk = true → r.userOk = true → r.authOk = true → v = .repeatedSalt)) := by
  simp only [phase1, phase1Stages, runStages, stageStep]
  cases h1 : r.complete with
  | false => simp
  | true =>
  cases h2 : tryContains c pool r.salt with
  | true => simp [h2]
  | false =>
  cases h3 : r.prefixOk with
  | false => simp [h2]
  | true =>
  cases h4 : r.userOk with
  | false => simp [h2]
  | true =>
  cases h5 : r.authOk <;> simp [h2]

theorem phase2_eq (P : Params) (now : Nat) (r : Request) (pool : Pool) :
    phase2 P now r pool =
      if !r.typeOk then (pool, .typeMismatch)
      else if !tsValid P r.ts now then (pool, .badTimestamp)
      else if !(add P now r.salt pool).2 then ((add P now r.salt pool).1, .repeatedSalt)
      else if !r.bodyOk then ((add P now r.salt pool).1, .lateError)
      else ((add P now r.salt pool).1, .accepted) := by
  simp only [phase2, phase2Stages, runStages, stageStep]
  cases h6 : r.typeOk with
  | false => simp
  | true =>
  cases h7 : tsValid P r.ts now with
  | false => simp
  | true =>
  cases h8 : (add P now r.salt pool).2 with
  | false => simp [h8]
  | true =>
  cases h9 : r.bodyOk <;> simp [h8]

/-- `HandleStream` is its two halves run back to back (same pool, same clock reading). -/
theorem handle_eq_phases (P : Params) (c : Bool) (now : Nat) (r : Request) (pool : Pool) :
    handle P c now r pool =
      match phase1 P c r pool with
      | some v => (pool, v)
      | none => phase2 P now r pool := by
  rw [handle_eq, phase2_eq]
  simp only [phase1, phase1Stages, runStages, stageStep]
  cases h1 : r.complete with
  | false => simp
  | true =>
  cases h2 : tryContains c pool r.salt with
  | true => simp [h2]
  | false =>
  cases h3 : r.prefixOk with
  | false => simp [h2]
  | true =>
  cases h4 : r.userOk with
  | false => simp [h2]
  | true =>
  cases h5 : r.authOk <;> simp [h2]

theorem phase2_cases (P : Params) (now : Nat) (r : Request) (pool : Pool) :
    ((phase2 P now r pool).1 = pool ∧ (phase2 P now r pool).2 ≠ .accepted ∧ (phase2 P now r pool).2 ≠ .repeatedSalt ∧
        (r.typeOk = false ∨ tsValid P r.ts now = false)) ∨
    (r.typeOk = true ∧ tsValid P r.ts now = true ∧ (phase2 P now r pool).1 = (add P now r.salt pool).1 ∧
      (phase2 P now r pool).2 =
        (if (add P now r.salt pool).2 then (if r.bodyOk then Verdict.accepted else Verdict.lateError) else Verdict.repeatedSalt)) := by
  rw [phase2_eq]
  cases h6 : r.typeOk with
  | false => simp
  | true =>
  cases h7 : tsValid P r.ts now with
  | false => simp
  | true =>
  cases h8 : (add P now r.salt pool).2 with
  | false => simp
  | true =>
  cases h9 : r.bodyOk <;> simp

/-! ### thread lists -/

def isAcc : TState → Bool
  | .done .accepted => true
  | _ => false

theorem countAccepted_cons (t : TState) (ts : List TState) :
    countAccepted (t :: ts) = countAccepted ts + (if isAcc t then 1 else 0) := by
  cases t with
  | idle => simp [countAccepted, isAcc]
  | checked => simp [countAccepted, isAcc]
  | done v => cases v <;> simp [countAccepted, isAcc]

theorem countAccepted_setAt {ts : List TState} {i : Nat} {y x : TState} (h : ts[i]? = some y) (hy : isAcc y = false) :
    countAccepted (setAt ts i x) = countAccepted ts + (if isAcc x then 1 else 0) := by
  induction ts generalizing i with
  | nil => simp at h
  | cons t ts ih =>
    cases i with
    | zero =>
      simp only [List.getElem?_cons_zero, Option.some.injEq] at h
      subst h
      simp [setAt, countAccepted_cons, hy]
    | succ i =>
      simp only [List.getElem?_cons_succ] at h
      simp only [setAt, countAccepted_cons, ih h]
      omega

theorem mem_setAt {α : Type} {ts : List α} {i : Nat} {x t : α} (h : t ∈ setAt ts i x) : t ∈ ts ∨ t = x := by
  induction ts generalizing i with
  | nil => simp [setAt] at h
  | cons a ts ih =>
    cases i with
    | zero =>
      simp only [setAt, List.mem_cons] at h
      rcases h with h | h
      · exact Or.inr h
      · exact Or.inl (List.mem_cons_of_mem _ h)
    | succ i =>
      simp only [setAt, List.mem_cons] at h
      rcases h with h | h
      · exact Or.inl (by simp [h])
      · rcases ih h with h | h
        · exact Or.inl (List.mem_cons_of_mem _ h)
        · exact Or.inr h

theorem setAt_length {α : Type} (ts : List α) (i : Nat) (x : α) : (setAt ts i x).length = ts.length := by
  induction ts generalizing i with
  | nil => rfl
  | cons a ts ih => cases i <;> simp [setAt, ih]

theorem countAccepted_zero_of_not_acc {ts : List TState} (h : ∀ t ∈ ts, isAcc t = false) : countAccepted ts = 0 := by
  induction ts with
  | nil => rfl
  | cons t ts ih =>
    rw [countAccepted_cons, ih (fun t ht => h t (List.mem_cons_of_mem _ ht)), h t (by simp)]
    rfl

theorem allDone_mem {ts : List TState} (h : allDone ts = true) : ∀ t ∈ ts, ∃ v, t = .done v := by
  induction ts with
  | nil => simp
  | cons t ts ih =>
    cases t with
    | idle => simp [allDone] at h
    | checked => simp [allDone] at h
    | done v =>
      intro t' ht'
      rcases List.mem_cons.mp ht' with rfl | ht'
      · exact ⟨v, rfl⟩
      · exact ih (by simpa [allDone] using h) t' ht'

/-! ### at most one winner -/

/-- the winner's node: in the pool, carrying the request's salt, inserted at an instant at which the timestamp validated -/
def WinnerNode (P : Params) (r : Request) (pool : Pool) : Prop :=
  ∃ n ∈ pool, n.salt = r.salt ∧ ∃ t, tsValid P r.ts t = true ∧ ClockOk P t ∧ n.expiresAt = t + P.window

def AtMostInv (P : Params) (r : Request) (s : CState) : Prop :=
  countAccepted s.threads = 0 ∨ (countAccepted s.threads = 1 ∧ WinnerNode P r s.pool)

theorem winner_live {P : Params} {r : Request} {t now : Nat}
    (hside : (2 * P.maxEpochDiff + 1) * nsPerSec ≤ P.window)
    (h1 : tsValid P r.ts t = true) (hc1 : ClockOk P t) (h2 : tsValid P r.ts now = true) (hc2 : ClockOk P now) :
    now < t + P.window := by
  have := valid_span P r.ts t now hc1 hc2 h1 h2
  omega

theorem atMost_step {P : Params} {r : Request} {s : CState} (a : Act)
    (hside : (2 * P.maxEpochDiff + 1) * nsPerSec ≤ P.window)
    (hclk : ∀ i now, a = .add i now → ClockOk P now)
    (h : AtMostInv P r s) : AtMostInv P r (cstep P r s a) := by
  cases a with
  | check i c =>
    simp only [cstep]
    cases hi : s.threads[i]? with
    | none => exact h
    | some t =>
      cases t with
      | checked => exact h
      | done v => exact h
      | idle =>
        rcases phase1_cases P c r s.pool with ⟨hn, _⟩ | ⟨v, hv, hna, _⟩
        · simp only [hn]
          unfold AtMostInv
          rw [show countAccepted (setAt s.threads i .checked) = countAccepted s.threads from by
            rw [countAccepted_setAt hi rfl]; rfl]
          exact h
        · simp only [hv]
          unfold AtMostInv
          rw [show countAccepted (setAt s.threads i (.done v)) = countAccepted s.threads from by
            rw [countAccepted_setAt hi rfl]
            cases v <;> simp [isAcc] at hna ⊢]
          exact h
  | add i now =>
    have hc2 := hclk i now rfl
    simp only [cstep]
    cases hi : s.threads[i]? with
    | none => exact h
    | some t =>
      cases t with
      | idle => exact h
      | done v => exact h
      | checked =>
        simp only
        have hcount : countAccepted (setAt s.threads i (.done (phase2 P now r s.pool).2)) =
            countAccepted s.threads + (if isAcc (.done (phase2 P now r s.pool).2) then 1 else 0) :=
          countAccepted_setAt hi rfl
        rcases phase2_cases P now r s.pool with ⟨hp, hna, _, _⟩ | ⟨_, hv, hp, hverd⟩
        · -- refused before Add: nothing changes
          have : isAcc (.done (phase2 P now r s.pool).2) = false := by
            cases hh : (phase2 P now r s.pool).2 <;> simp [isAcc] <;> exact absurd hh hna
          unfold AtMostInv at h ⊢
          rw [hcount, this, hp]
          simpa using h
        · rcases h with h0 | ⟨h1, n, hn, hns, t, ht, hct, hne⟩
          · -- nobody has won yet
            cases hadd : (add P now r.salt s.pool).2 with
            | false =>
              left
              rw [hcount, hverd, hadd]; simpa [isAcc] using h0
            | true =>
              cases hb : r.bodyOk with
              | false => left; rw [hcount, hverd, hadd, hb]; simpa [isAcc] using h0
              | true =>
                right
                refine ⟨by rw [hcount, hverd, hadd, hb, h0]; simp [isAcc], ?_⟩
                exact ⟨_, by rw [hp]; exact add_true_mem hadd, rfl, now, hv, hc2, rfl⟩
          · -- somebody has won: the node is live at `now`, Add answers false
            have hlive : now < n.expiresAt := by rw [hne]; exact winner_live hside ht hct hv hc2
            have hfalse : (add P now r.salt s.pool).2 = false := by rw [← hns]; exact add_false_of_live hn hlive
            right
            refine ⟨by rw [hcount, hverd, hfalse]; simpa [isAcc] using h1, ?_⟩
            exact ⟨n, by rw [hp]; exact mem_add_of_live hn hlive, hns, t, ht, hct, hne⟩

theorem atMost_run {P : Params} {r : Request} (sched : List Act) {s : CState}
    (hside : (2 * P.maxEpochDiff + 1) * nsPerSec ≤ P.window)
    (hclk : ∀ a ∈ sched, ∀ i now, a = .add i now → ClockOk P now)
    (h : AtMostInv P r s) : AtMostInv P r (crun P r s sched) := by
  induction sched generalizing s with
  | nil => exact h
  | cons a sched ih =>
    simp only [crun, List.foldl_cons]
    exact ih (fun b hb => hclk b (List.mem_cons_of_mem _ hb))
      (atMost_step a hside (hclk a (by simp)) h)

/-! ### exactly one winner -/

/-- a genuine request: every check other than the timestamp and the salt lookup passes -/
def Good (r : Request) : Prop :=
  r.complete = true ∧ r.prefixOk = true ∧ r.userOk = true ∧ r.authOk = true ∧ r.typeOk = true ∧ r.bodyOk = true

def okT (t : TState) : Prop := t = .idle ∨ t = .checked ∨ t = .done .accepted ∨ t = .done .repeatedSalt

def ExactInv (P : Params) (r : Request) (s : CState) : Prop :=
  (contains s.pool r.salt = false ∧ ∀ t ∈ s.threads, t = .idle ∨ t = .checked) ∨
  (countAccepted s.threads = 1 ∧ WinnerNode P r s.pool ∧ ∀ t ∈ s.threads, okT t)

theorem exact_step {P : Params} {r : Request} {s : CState} (a : Act)
    (hside : (2 * P.maxEpochDiff + 1) * nsPerSec ≤ P.window) (hg : Good r)
    (hclk : ∀ i now, a = .add i now → tsValid P r.ts now = true ∧ ClockOk P now)
    (h : ExactInv P r s) : ExactInv P r (cstep P r s a) := by
  obtain ⟨g1, g2, g3, g4, g5, g6⟩ := hg
  cases a with
  | check i c =>
    simp only [cstep]
    cases hi : s.threads[i]? with
    | none => exact h
    | some t =>
      cases t with
      | checked => exact h
      | done v => exact h
      | idle =>
        rcases phase1_cases P c r s.pool with ⟨hn, _⟩ | ⟨v, hv, _, _, hrep, hmust⟩
        · simp only [hn]
          rcases h with ⟨hc, hall⟩ | ⟨h1, hw, hall⟩
          · left
            exact ⟨hc, fun t ht => by
              rcases mem_setAt ht with ht | ht
              · exact hall t ht
              · exact Or.inr ht⟩
          · right
            refine ⟨by rw [countAccepted_setAt hi rfl]; simpa [isAcc] using h1, hw, fun t ht => ?_⟩
            rcases mem_setAt ht with ht | ht
            · exact hall t ht
            · exact Or.inr (Or.inl ht)
        · simp only [hv]
          have hvr : v = .repeatedSalt := hmust g1 g2 g3 g4
          have htc := hrep hvr
          rcases h with ⟨hc, _⟩ | ⟨h1, hw, hall⟩
          · -- the salt is absent: TryContains cannot have answered true
            exfalso
            unfold tryContains at htc
            cases c <;> simp [hc] at htc
          · right
            refine ⟨by rw [countAccepted_setAt hi rfl, hvr]; simpa [isAcc] using h1, hw, fun t ht => ?_⟩
            rcases mem_setAt ht with ht | ht
            · exact hall t ht
            · exact Or.inr (Or.inr (Or.inr (by rw [ht, hvr])))
  | add i now =>
    obtain ⟨hv, hc2⟩ := hclk i now rfl
    simp only [cstep]
    cases hi : s.threads[i]? with
    | none => exact h
    | some t =>
      cases t with
      | idle => exact h
      | done v => exact h
      | checked =>
        simp only
        have hcount : countAccepted (setAt s.threads i (.done (phase2 P now r s.pool).2)) =
            countAccepted s.threads + (if isAcc (.done (phase2 P now r s.pool).2) then 1 else 0) :=
          countAccepted_setAt hi rfl
        rcases phase2_cases P now r s.pool with ⟨_, _, _, hbad⟩ | ⟨_, _, hp, hverd⟩
        · rcases hbad with hbad | hbad
          · rw [g5] at hbad; cases hbad
          · rw [hv] at hbad; cases hbad
        · rcases h with ⟨hc, hall⟩ | ⟨h1, ⟨n, hn, hns, t, ht, hct, hne⟩, hall⟩
          · -- first Add: the salt is absent, so it is inserted and this thread wins
            have hadd : (add P now r.salt s.pool).2 = true := add_true_of_absent hc
            have hzero : countAccepted s.threads = 0 :=
              countAccepted_zero_of_not_acc (fun t ht => by rcases hall t ht with h | h <;> rw [h] <;> rfl)
            right
            refine ⟨by rw [hcount, hverd, hadd, g6, hzero]; simp [isAcc], ?_, fun t ht => ?_⟩
            · exact ⟨_, by rw [hp]; exact add_true_mem hadd, rfl, now, hv, hc2, rfl⟩
            · rcases mem_setAt ht with ht | ht
              · rcases hall t ht with h | h
                · exact Or.inl h
                · exact Or.inr (Or.inl h)
              · exact Or.inr (Or.inr (Or.inl (by rw [ht, hverd, hadd, g6]; rfl)))
          · have hlive : now < n.expiresAt := by rw [hne]; exact winner_live hside ht hct hv hc2
            have hfalse : (add P now r.salt s.pool).2 = false := by rw [← hns]; exact add_false_of_live hn hlive
            right
            refine ⟨by rw [hcount, hverd, hfalse]; simpa [isAcc] using h1, ?_, fun t' ht' => ?_⟩
            · exact ⟨n, by rw [hp]; exact mem_add_of_live hn hlive, hns, t, ht, hct, hne⟩
            · rcases mem_setAt ht' with ht' | ht'
              · exact hall t' ht'
              · exact Or.inr (Or.inr (Or.inr (by rw [ht', hverd, hfalse]; rfl)))

theorem exact_run {P : Params} {r : Request} (sched : List Act) {s : CState}
    (hside : (2 * P.maxEpochDiff + 1) * nsPerSec ≤ P.window) (hg : Good r)
    (hclk : ∀ a ∈ sched, ∀ i now, a = .add i now → tsValid P r.ts now = true ∧ ClockOk P now)
    (h : ExactInv P r s) : ExactInv P r (crun P r s sched) := by
  induction sched generalizing s with
  | nil => exact h
  | cons a sched ih =>
    simp only [crun, List.foldl_cons]
    exact ih (fun b hb => hclk b (List.mem_cons_of_mem _ hb))
      (exact_step a hside hg (hclk a (by simp)) h)

theorem cstep_length (P : Params) (r : Request) (s : CState) (a : Act) :
    (cstep P r s a).threads.length = s.threads.length := by
  cases a with
  | check i c =>
    simp only [cstep]
    split
    · split <;> simp [setAt_length]
    · rfl
  | add i now =>
    simp only [cstep]
    split
    · simp [setAt_length]
    · rfl

theorem crun_length (P : Params) (r : Request) (s : CState) (sched : List Act) :
    (crun P r s sched).threads.length = s.threads.length := by
  induction sched generalizing s with
  | nil => rfl
  | cons a sched ih => simp only [crun, List.foldl_cons]; exact (ih _).trans (cstep_length P r s a)

end SSV.SaltPool
