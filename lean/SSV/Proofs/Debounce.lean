import SSV.Model.Persist
/-
Helper lemmas for C20, part 3: the invariant of the debounce loop with the final look at the queue.
-/
namespace SSV.Persist

/-- invariant of `progDrain`: an acknowledged change that is not on disk is either still announced in the
queue or the saver is already on its way to the save (nodes 1–3); node 4 (`return`) is entered only with
everything acknowledged on disk. -/
def DInv (s : DState) : Prop :=
  (∀ v ∈ s.pend, v ≤ s.mem) ∧ s.acked ≤ s.mem ∧ s.pc ≤ 5 ∧
  (s.exited = true → s.pc = 4) ∧
  (s.pc = 5 → s.cancelled = true) ∧
  (s.pc = 4 → s.cancelled = true ∧ s.acked ≤ s.disk) ∧
  ((s.pc = 0 ∨ s.pc = 5) → s.acked ≤ s.disk ∨ s.queue = true)

theorem dinv_init : DInv dinit := by
  simp [DInv, dinit]

theorem dinv_step {s t : DState} (hs : DInv s) (h : Step progDrain s t) : DInv t := by
  obtain ⟨hp, ham, hpc, hex, h5, h4, h05⟩ := hs
  cases h with
  | mutate =>
    refine ⟨?_, by simp; omega, hpc, hex, h5, h4, h05⟩
    intro v hv
    simp at hv
    rcases hv with rfl | hv
    · simp
    · have := hp v hv; simp; omega
  | enqueue v hv =>
    have hvm := hp v hv
    refine ⟨?_, ?_, hpc, hex, h5, ?_, ?_⟩
    · intro w hw; exact hp w (List.mem_of_mem_erase hw)
    · show (if s.cancelled = true then s.acked else max s.acked v) ≤ s.mem
      split
      · exact ham
      · exact Nat.max_le.mpr ⟨ham, hvm⟩
    · intro h
      have h' := h4 h
      show s.cancelled = true ∧ (if s.cancelled = true then s.acked else max s.acked v) ≤ s.disk
      rw [if_pos h'.1]; exact h'
    · intro _; right; rfl
  | cancel =>
    refine ⟨hp, ham, hpc, hex, ?_, ?_, h05⟩
    · intro _; rfl
    · intro h; exact ⟨rfl, (h4 h).2⟩
  | sel alts g nxt hx hn hm hr =>
    obtain ⟨pc, q, can, mem, disk, pend, acked, ex⟩ := s
    simp only at hp ham hpc hex h5 h4 h05 hx hn
    subst hx
    match pc with
    | 0 =>
      simp [progDrain] at hn; subst hn
      simp at hm
      rcases hm with ⟨rfl, rfl⟩ | ⟨rfl, rfl⟩
      · simp [DInv, fire]; exact ⟨hp, ham⟩
      · simp [altReady, guardReady] at hr
        simp [DInv, fire]; exact ⟨hp, ham, hr, by simpa using h05⟩
    | 1 =>
      simp [progDrain] at hn; subst hn
      simp at hm
      rcases hm with ⟨rfl, rfl⟩ | ⟨rfl, rfl⟩ <;> (simp [DInv, fire]; exact ⟨hp, ham⟩)
    | 2 =>
      simp [progDrain] at hn; subst hn
      simp at hm
      rcases hm with ⟨rfl, rfl⟩ | ⟨rfl, rfl⟩ <;> (simp [DInv, fire]; exact ⟨hp, ham⟩)
    | 3 => simp [progDrain] at hn
    | 4 => simp [progDrain] at hn
    | 5 =>
      simp [progDrain] at hn; subst hn
      simp at hm
      rcases hm with ⟨rfl, rfl⟩ | ⟨rfl, rfl⟩
      · simp [DInv, fire]; exact ⟨hp, ham⟩
      · simp [altReady, guardReady] at hr
        have hc : can = true := by simpa using h5
        have := h05
        simp [hr] at this
        simp [DInv, fire]; exact ⟨hp, ham, hc, this⟩
    | n + 6 => simp at hpc
  | save nxt hx hn =>
    obtain ⟨pc, q, can, mem, disk, pend, acked, ex⟩ := s
    simp only at hp ham hpc hex h5 h4 h05 hx hn
    subst hx
    match pc with
    | 0 | 1 | 2 | 4 | 5 => simp [progDrain] at hn
    | 3 =>
      simp [progDrain] at hn; subst hn
      simp [DInv]; exact ⟨hp, ham, Or.inl ham⟩
    | n + 6 => simp at hpc
  | ret hx hn =>
    obtain ⟨pc, q, can, mem, disk, pend, acked, ex⟩ := s
    simp only at hp ham hpc hex h5 h4 h05 hx hn
    subst hx
    match pc with
    | 0 | 1 | 2 | 3 | 5 => simp [progDrain] at hn
    | 4 =>
      have := h4 rfl
      simp [DInv]; exact ⟨hp, ham, this⟩
    | n + 6 => simp at hpc

theorem dinv_reach {s : DState} (h : Reach progDrain s) : DInv s := by
  induction h with
  | init => exact dinv_init
  | step _ hst ih => exact dinv_step ih hst

end SSV.Persist
