import SSV.Model.SaltPoolFast
import SSV.Proofs.SaltPool
/-
Helper lemmas for C03, part 7: the fast pool representation refines the list model.
-/
namespace SSV.SaltPool
open Std

theorem contains_cons (n : Node) (p : Pool) (s : Salt) : contains (n :: p) s = (n.salt == s || contains p s) := by
  simp [contains]

theorem contains_append (a b : Pool) (s : Salt) : contains (a ++ b) s = (contains a s || contains b s) := by
  simp [contains]

theorem pruneExpired_append (now : Nat) (a b : Pool) :
    pruneExpired now (a ++ b) = if pruneExpired now a = [] then pruneExpired now b else pruneExpired now a ++ b := by
  induction a with
  | nil => simp [pruneExpired]
  | cons n rest ih =>
    simp only [List.cons_append, pruneExpired]
    split
    · simp
    · exact ih

def SaltsNodup (p : Pool) : Prop := (p.map (·.salt)).Nodup

/-- the set holds exactly the salts of the list -/
def SetOk (h : HashSet Nat) (p : Pool) : Prop := ∀ s, h.contains s = contains p s

/-- `dropExpired` on a segment `l` followed by any context `t` -/
theorem dropExpired_spec (now : Nat) (l t : Pool) (h : HashSet Nat) (hok : SetOk h (l ++ t)) (hnd : SaltsNodup (l ++ t)) :
    (dropExpired now l h).1 = pruneExpired now l ∧ SetOk (dropExpired now l h).2 ((dropExpired now l h).1 ++ t) := by
  induction l generalizing h with
  | nil => exact ⟨rfl, hok⟩
  | cons n rest ih =>
    unfold dropExpired pruneExpired
    split
    · exact ⟨rfl, hok⟩
    · have hnd' : SaltsNodup (rest ++ t) := by
        unfold SaltsNodup at hnd ⊢
        simp only [List.cons_append, List.map_cons] at hnd
        exact (List.nodup_cons.mp hnd).2
      have hnot : contains (rest ++ t) n.salt = false := by
        unfold SaltsNodup at hnd
        simp only [List.cons_append, List.map_cons] at hnd
        have hn := (List.nodup_cons.mp hnd).1
        cases hc : contains (rest ++ t) n.salt
        · rfl
        · obtain ⟨m, hm, hs⟩ := (contains_iff _ _).mp hc
          exact absurd (List.mem_map.mpr ⟨m, hm, hs⟩) hn
      refine ih (h.erase n.salt) ?_ hnd'
      intro s
      rw [HashSet.contains_erase, hok s]
      simp only [List.cons_append, contains_cons]
      by_cases hs : n.salt = s
      · subst hs; rw [hnot]; simp
      · have : (n.salt == s) = false := by simpa using hs
        rw [this]; simp

structure FInv (f : FPool) : Prop where
  ok : SetOk f.set f.toPool
  nodup : SaltsNodup f.toPool

theorem fprune_spec (now : Nat) (f : FPool) (hf : FInv f) :
    (fprune now f).toPool = pruneExpired now f.toPool ∧ FInv (fprune now f) := by
  have hsub : ∀ q : Pool, q = pruneExpired now f.toPool → SaltsNodup q := by
    intro q hq
    rw [hq]
    exact List.Nodup.sublist (List.Sublist.map _ (pruneExpired_suffix now f.toPool).sublist) hf.nodup
  obtain ⟨h1, h2⟩ := dropExpired_spec now f.front f.back.reverse f.set hf.ok hf.nodup
  unfold fprune
  cases hd : dropExpired now f.front f.set with
  | mk fr h =>
    rw [hd] at h1 h2
    simp only at h1 h2
    cases fr with
    | nil =>
      simp only
      have hnd2 : SaltsNodup (f.back.reverse ++ []) := by
        have := hsub _ rfl
        unfold FPool.toPool at this
        rw [pruneExpired_append, ← h1] at this
        simp only [if_true] at this
        simp only [List.append_nil]
        exact List.Nodup.sublist (List.Sublist.map _ (List.sublist_append_right _ _)) hf.nodup
      have hok2 : SetOk h (f.back.reverse ++ []) := by simpa using h2
      obtain ⟨g1, g2⟩ := dropExpired_spec now f.back.reverse [] h hok2 hnd2
      have htp : ({ front := (dropExpired now f.back.reverse h).1, back := [], set := (dropExpired now f.back.reverse h).2 } : FPool).toPool
          = pruneExpired now f.toPool := by
        unfold FPool.toPool
        rw [pruneExpired_append, ← h1]
        simp [g1]
      refine ⟨htp, ⟨?_, ?_⟩⟩
      · rw [htp]
        have : SetOk (dropExpired now f.back.reverse h).2 ((dropExpired now f.back.reverse h).1 ++ []) := g2
        rw [← htp]
        simpa [FPool.toPool] using this
      · rw [htp]; exact hsub _ rfl
    | cons a fr' =>
      simp only
      have htp : ({ front := a :: fr', back := f.back, set := h } : FPool).toPool = pruneExpired now f.toPool := by
        unfold FPool.toPool
        rw [pruneExpired_append, ← h1]
        simp
      refine ⟨htp, ⟨?_, ?_⟩⟩
      · exact h2
      · rw [htp]; exact hsub _ rfl

/-- **refinement**: one `fadd` = one `add` of the list model, and the invariant is kept -/
theorem fadd_refines (P : Params) (now : Nat) (s : Salt) (f : FPool) (hf : FInv f) :
    (fadd P now s f).1.toPool = (add P now s f.toPool).1 ∧ (fadd P now s f).2 = (add P now s f.toPool).2 ∧
    FInv (fadd P now s f).1 := by
  obtain ⟨hp, hinv⟩ := fprune_spec now f hf
  have hc : (fprune now f).set.contains s = contains (pruneExpired now f.toPool) s := by rw [hinv.ok s, hp]
  unfold fadd add
  simp only [hc]
  cases hcs : contains (pruneExpired now f.toPool) s with
  | true => simp [hp, hinv]
  | false =>
    simp only [Bool.false_eq_true, if_false]
    have htp : FPool.toPool { front := (fprune now f).front,
                              back := { salt := s, expiresAt := now + P.window } :: (fprune now f).back,
                              set := (fprune now f).set.insert s }
        = insert P now s (pruneExpired now f.toPool) := by
      have hp' : (fprune now f).front ++ (fprune now f).back.reverse = pruneExpired now f.toPool := hp
      simp only [FPool.toPool, List.reverse_cons, insert]
      rw [← List.append_assoc, hp']
      rfl
    refine ⟨htp, trivial, ⟨?_, ?_⟩⟩
    · intro x
      rw [htp, HashSet.contains_insert, hinv.ok x, hp]
      simp [insert, contains, Bool.or_comm]
    · rw [htp]
      unfold SaltsNodup insert
      rw [List.map_append, List.map_singleton]
      refine List.nodup_append.mpr ⟨by rw [← hp]; exact hinv.nodup, by simp, ?_⟩
      intro a ha b hb
      rw [List.mem_singleton.mp hb]
      intro hab
      obtain ⟨n, hn, hns⟩ := List.mem_map.mp ha
      have : contains (pruneExpired now f.toPool) s = true := (contains_iff _ _).mpr ⟨n, hn, by rw [hns, hab]⟩
      rw [hcs] at this; cases this

theorem foldl_insert_contains (p : Pool) (h : HashSet Nat) (s : Salt) :
    (p.foldl (fun (h : HashSet Nat) (n : Node) => h.insert n.salt) h).contains s = (h.contains s || contains p s) := by
  induction p generalizing h with
  | nil => simp [contains]
  | cons n rest ih =>
    simp only [List.foldl_cons]
    rw [ih, HashSet.contains_insert, contains_cons]
    cases (n.salt == s) <;> cases h.contains s <;> simp

theorem ofPool_inv (p : Pool) (hnd : SaltsNodup p) : (FPool.ofPool p).toPool = p ∧ FInv (FPool.ofPool p) := by
  have htp : (FPool.ofPool p).toPool = p := by simp [FPool.ofPool, FPool.toPool]
  refine ⟨htp, ⟨?_, by rw [htp]; exact hnd⟩⟩
  intro s
  rw [htp]
  show (p.foldl (fun (h : HashSet Nat) (n : Node) => h.insert n.salt) ∅).contains s = contains p s
  rw [foldl_insert_contains]; simp

/-- distinctness of the salts is kept by `add` whatever the instants are (also non-monotone ones) -/
theorem nodup_add (P : Params) (now : Nat) (s : Salt) (p : Pool) (h : SaltsNodup p) : SaltsNodup (add P now s p).1 := by
  have hf := (ofPool_inv p h).2
  have := (fadd_refines P now s (FPool.ofPool p) hf)
  rw [(ofPool_inv p h).1] at this
  rw [← this.1]; exact this.2.2.nodup

theorem foldl_addStep_refines (P : Params) (cs : List ACall) (f : FPool) (k : Nat) (hf : FInv f) :
    (cs.foldl (addStepF P) (f, k)).1.toPool = (cs.foldl (addStepL P) (f.toPool, k)).1 ∧
    (cs.foldl (addStepF P) (f, k)).2 = (cs.foldl (addStepL P) (f.toPool, k)).2 ∧
    FInv (cs.foldl (addStepF P) (f, k)).1 := by
  induction cs generalizing f k with
  | nil => exact ⟨rfl, rfl, hf⟩
  | cons c cs ih =>
    simp only [List.foldl_cons]
    obtain ⟨h1, h2, h3⟩ := fadd_refines P c.now c.salt f hf
    have e : addStepL P (f.toPool, k) c =
        ((addStepF P (f, k) c).1.toPool, (addStepF P (f, k) c).2) := by
      simp only [addStepL, addStepF, h1, h2]
    rw [e]
    exact ih (addStepF P (f, k) c).1 (addStepF P (f, k) c).2 h3

/-- **the fast representation computes the list model**, for every batch of calls from every pool with distinct salts -/
theorem fcountAdds_refines (P : Params) (p : Pool) (cs : List ACall) (hnd : SaltsNodup p) :
    (fcountAdds P (FPool.ofPool p) cs).1.toPool = (countAdds P p cs).1 ∧
    (fcountAdds P (FPool.ofPool p) cs).2 = (countAdds P p cs).2 := by
  obtain ⟨htp, hinv⟩ := ofPool_inv p hnd
  have := foldl_addStep_refines P cs (FPool.ofPool p) 0 hinv
  rw [htp] at this
  exact ⟨this.1, this.2.1⟩

end SSV.SaltPool
