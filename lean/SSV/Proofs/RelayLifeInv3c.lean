import SSV.Proofs.RelayLifeDefs3
namespace SSV.RelayLife
variable (cfg : Cfg)

theorem inv3c_arrive (s s' : State) (c : Nat) (ha : Inv3a s) (hI : Inv3c s) (h : step cfg s (.arrive c) = some s') : Inv3c s' := by
  have g5 := ha.g5
  clear ha
  obtain ⟨g10⟩ := hI
  simp only [step] at h
  (repeat' split at h) <;> close_case3

theorem inv3c_rLock (s s' : State)  (ha : Inv3a s) (hI : Inv3c s) (h : step cfg s (.rLock ) = some s') : Inv3c s' := by
  have g5 := ha.g5
  clear ha
  obtain ⟨g10⟩ := hI
  simp only [step] at h
  (repeat' split at h) <;> close_case3

set_option maxHeartbeats 1600000 in
theorem inv3c_rProc (s s' : State) (ok : Bool) (ha : Inv3a s) (hI : Inv3c s) (h : step cfg s (.rProc ok) = some s') : Inv3c s' := by
  have g5 := ha.g5
  clear ha
  obtain ⟨g10⟩ := hI
  simp only [step] at h
  (repeat' split at h) <;> close_case3

theorem inv3c_rMore (s s' : State) (c : Nat) (ha : Inv3a s) (hI : Inv3c s) (h : step cfg s (.rMore c) = some s') : Inv3c s' := by
  have g5 := ha.g5
  clear ha
  obtain ⟨g10⟩ := hI
  simp only [step] at h
  (repeat' split at h) <;> close_case3

theorem inv3c_rUnlock (s s' : State)  (ha : Inv3a s) (hI : Inv3c s) (h : step cfg s (.rUnlock ) = some s') : Inv3c s' := by
  have g5 := ha.g5
  clear ha
  obtain ⟨g10⟩ := hI
  simp only [step] at h
  (repeat' split at h) <;> close_case3

theorem inv3c_rExit (s s' : State)  (ha : Inv3a s) (hI : Inv3c s) (h : step cfg s (.rExit ) = some s') : Inv3c s' := by
  have g5 := ha.g5
  clear ha
  obtain ⟨g10⟩ := hI
  simp only [step] at h
  (repeat' split at h) <;> close_case3

set_option maxHeartbeats 1600000 in
theorem inv3c_init (s s' : State) (i : Nat) (ok : Bool) (ha : Inv3a s) (hI : Inv3c s) (h : step cfg s (.init i ok) = some s') : Inv3c s' := by
  have g5 := ha.g5
  clear ha
  obtain ⟨g10⟩ := hI
  simp only [step] at h
  (repeat' split at h) <;> close_case3

theorem inv3c_dTimeout (s s' : State) (i : Nat) (ha : Inv3a s) (hI : Inv3c s) (h : step cfg s (.dTimeout i) = some s') : Inv3c s' := by
  have g5 := ha.g5
  clear ha
  obtain ⟨g10⟩ := hI
  simp only [step] at h
  (repeat' split at h) <;> close_case3

theorem inv3c_dPacket (s s' : State) (i : Nat) (ha : Inv3a s) (hI : Inv3c s) (h : step cfg s (.dPacket i) = some s') : Inv3c s' := by
  have g5 := ha.g5
  clear ha
  obtain ⟨g10⟩ := hI
  simp only [step] at h
  (repeat' split at h) <;> close_case3

theorem inv3c_dSend (s s' : State) (i : Nat) (ha : Inv3a s) (hI : Inv3c s) (h : step cfg s (.dSend i) = some s') : Inv3c s' := by
  have g5 := ha.g5
  clear ha
  obtain ⟨g10⟩ := hI
  simp only [step] at h
  (repeat' split at h) <;> close_case3

theorem inv3c_uFail (s s' : State) (i : Nat) (ha : Inv3a s) (hI : Inv3c s) (h : step cfg s (.uFail i) = some s') : Inv3c s' := by
  have g5 := ha.g5
  clear ha
  obtain ⟨g10⟩ := hI
  simp only [step] at h
  (repeat' split at h) <;> close_case3

set_option maxHeartbeats 1600000 in
theorem inv3c_cleanup (s s' : State) (i : Nat) (ha : Inv3a s) (hI : Inv3c s) (h : step cfg s (.cleanup i) = some s') : Inv3c s' := by
  have g5 := ha.g5
  clear ha
  obtain ⟨g10⟩ := hI
  simp only [step] at h
  (repeat' split at h) <;> close_case3

theorem inv3c_uRecv (s s' : State) (i : Nat) (k : Nat) (ha : Inv3a s) (hI : Inv3c s) (h : step cfg s (.uRecv i k) = some s') : Inv3c s' := by
  have g5 := ha.g5
  clear ha
  obtain ⟨g10⟩ := hI
  simp only [step] at h
  (repeat' split at h) <;> close_case3

set_option maxHeartbeats 1600000 in
theorem inv3c_uStep (s s' : State) (i : Nat) (ha : Inv3a s) (hI : Inv3c s) (h : step cfg s (.uStep i) = some s') : Inv3c s' := by
  have g5 := ha.g5
  clear ha
  obtain ⟨g10⟩ := hI
  simp only [step] at h
  (repeat' split at h) <;> close_case3

theorem inv3c_timer (s s' : State) (i : Nat) (ha : Inv3a s) (hI : Inv3c s) (h : step cfg s (.timer i) = some s') : Inv3c s' := by
  have g5 := ha.g5
  clear ha
  obtain ⟨g10⟩ := hI
  simp only [step] at h
  (repeat' split at h) <;> close_case3

theorem inv3c_stopCall (s s' : State)  (ha : Inv3a s) (hI : Inv3c s) (h : step cfg s (.stopCall ) = some s') : Inv3c s' := by
  have g5 := ha.g5
  clear ha
  obtain ⟨g10⟩ := hI
  simp only [step] at h
  (repeat' split at h) <;> close_case3

set_option maxHeartbeats 1600000 in
theorem inv3c_stop (s s' : State)  (ha : Inv3a s) (hI : Inv3c s) (h : step cfg s (.stop ) = some s') : Inv3c s' := by
  have g5 := ha.g5
  clear ha
  obtain ⟨g10⟩ := hI
  simp only [step] at h
  (repeat' split at h) <;> close_case3

set_option maxHeartbeats 1600000 in
theorem inv3c_stopVisit (s s' : State) (i : Nat) (ha : Inv3a s) (hI : Inv3c s) (h : step cfg s (.stopVisit i) = some s') : Inv3c s' := by
  have g5 := ha.g5
  clear ha
  obtain ⟨g10⟩ := hI
  simp only [step] at h
  (repeat' split at h) <;> close_case3

theorem inv3c_step (s s' : State) (e : Ev) (ha : Inv3a s) (hI : Inv3c s) (h : step cfg s e = some s') : Inv3c s' := by
  cases e with
  | arrive c => exact inv3c_arrive cfg s s' c ha hI h
  | rLock  => exact inv3c_rLock cfg s s'  ha hI h
  | rProc ok => exact inv3c_rProc cfg s s' ok ha hI h
  | rMore c => exact inv3c_rMore cfg s s' c ha hI h
  | rUnlock  => exact inv3c_rUnlock cfg s s'  ha hI h
  | rExit  => exact inv3c_rExit cfg s s'  ha hI h
  | init i ok => exact inv3c_init cfg s s' i ok ha hI h
  | dTimeout i => exact inv3c_dTimeout cfg s s' i ha hI h
  | dPacket i => exact inv3c_dPacket cfg s s' i ha hI h
  | dSend i => exact inv3c_dSend cfg s s' i ha hI h
  | uFail i => exact inv3c_uFail cfg s s' i ha hI h
  | cleanup i => exact inv3c_cleanup cfg s s' i ha hI h
  | uRecv i k => exact inv3c_uRecv cfg s s' i k ha hI h
  | uStep i => exact inv3c_uStep cfg s s' i ha hI h
  | timer i => exact inv3c_timer cfg s s' i ha hI h
  | stopCall  => exact inv3c_stopCall cfg s s'  ha hI h
  | stop  => exact inv3c_stop cfg s s'  ha hI h
  | stopVisit i => exact inv3c_stopVisit cfg s s' i ha hI h

end SSV.RelayLife
