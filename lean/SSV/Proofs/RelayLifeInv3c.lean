import SSV.Proofs.RelayLifeInv3c_p0
import SSV.Proofs.RelayLifeInv3c_p1
import SSV.Proofs.RelayLifeInv3c_p2
import SSV.Proofs.RelayLifeInv3c_p3
import SSV.Proofs.RelayLifeInv3c_p4
import SSV.Proofs.RelayLifeInv3c_p5
import SSV.Proofs.RelayLifeInv3c_p6
import SSV.Proofs.RelayLifeInv3c_p7
import SSV.Proofs.RelayLifeInv3c_p8
namespace SSV.RelayLife
variable (cfg : Cfg)

theorem inv3c_step (s s' : State) (e : Ev) (ha : Inv3a s) (hI : Inv3c s) (h : step cfg s e = some s') : Inv3c s' := by
  cases e with
  | arrive c => exact inv3c_arrive cfg s s' c ha hI h
  | rLock  => exact inv3c_rLock cfg s s'  ha hI h
  | rProc ok => exact inv3c_rProc cfg s s' ok ha hI h
  | rMore c => exact inv3c_rMore cfg s s' c ha hI h
  | rUnlock  => exact inv3c_rUnlock cfg s s'  ha hI h
  | rExit  => exact inv3c_rExit cfg s s'  ha hI h
  | init i ok => exact inv3c_init cfg s s' i ok ha hI h
  | dTimeout i => exact inv3c_dTimeout cfg s s' i ha hI h
  | dPacket i => exact inv3c_dPacket cfg s s' i ha hI h
  | dSend i => exact inv3c_dSend cfg s s' i ha hI h
  | uFail i => exact inv3c_uFail cfg s s' i ha hI h
  | cleanup i => exact inv3c_cleanup cfg s s' i ha hI h
  | uRecv i k => exact inv3c_uRecv cfg s s' i k ha hI h
  | uStep i => exact inv3c_uStep cfg s s' i ha hI h
  | timer i => exact inv3c_timer cfg s s' i ha hI h
  | stopCall  => exact inv3c_stopCall cfg s s'  ha hI h
  | stop  => exact inv3c_stop cfg s s'  ha hI h
  | stopVisit i => exact inv3c_stopVisit cfg s s' i ha hI h

end SSV.RelayLife
