import SSV.Proofs.PacketHistory
import SSV.Proofs.PacketSSDown
/- C05 helper lemmas: server → client histories, with the client unpacker's per-session state. -/
namespace SSV.Packet
open SSV SSV.Gen.C05

/-! ## none / SOCKS5 -/

def PlainDownStep.good (len : Nat) (x : PlainDownStep) : Prop := x.src.wf ∧ x.ps + x.payload.length ≤ len

theorem plainDownHistStep_spec (hdr3 : Bool) (limit : Int) (server pktSrc : AddrPort) (hfrom : mappedEqual pktSrc server = true)
    (b : Bytes) (x : PlainDownStep) (hx : x.good b.length) :
    ((plainDownHistStep hdr3 limit server pktSrc b x).1).length = b.length ∧
    ((plainDownHistStep hdr3 limit server pktSrc b x).2 = none ∨
     (plainDownHistStep hdr3 limit server pktSrc b x).2 = some (x.src.norm, x.payload)) := by
  obtain ⟨hw, hfit⟩ := hx
  have hL : (splice b x.ps x.payload).length = b.length := splice_length _ _ _ hfit
  have hP : sub (splice b x.ps x.payload) x.ps x.payload.length = x.payload := sub_splice _ _ _ hfit
  unfold plainDownHistStep
  simp only
  generalize hpk : plainServerPack hdr3 (splice b x.ps x.payload) x.src x.ps x.payload.length limit = pk
  cases pk with
  | ok r =>
    simp only
    obtain ⟨hu, hpay⟩ := plain_roundtrip_down hdr3 limit server pktSrc hfrom _ x.src x.ps x.payload.length r hw (by rw [hL]; exact hfit) hpk
    obtain ⟨hlen, _, _⟩ := plainServerPack_frame hdr3 limit _ x.src x.ps x.payload.length r hw (by rw [hL]; exact hfit) hpk
    rw [hu]
    simp only
    refine ⟨by rw [hlen, hL], Or.inr ?_⟩
    simp only [Int.toNat_natCast, hpay, hP]
  | err e => exact ⟨hL, Or.inl rfl⟩
  | panic => exact ⟨hL, Or.inl rfl⟩
  | noRoom => exact ⟨hL, Or.inl rfl⟩

def PlainDownDelivered : List PlainDownStep → List (Option (AddrPort × Bytes)) → Prop
  | [], [] => True
  | x :: t, o :: os => (o = none ∨ o = some (x.src.norm, x.payload)) ∧ PlainDownDelivered t os
  | _, _ => False

theorem plainDownHist_spec (hdr3 : Bool) (limit : Int) (server pktSrc : AddrPort) (hfrom : mappedEqual pktSrc server = true)
    (steps : List PlainDownStep) :
    ∀ (b : Bytes), (∀ x ∈ steps, x.good b.length) → PlainDownDelivered steps (plainDownHist hdr3 limit server pktSrc b steps) := by
  induction steps with
  | nil => intro b _; trivial
  | cons x t ih =>
    intro b hgood
    obtain ⟨hlen, hout⟩ := plainDownHistStep_spec hdr3 limit server pktSrc hfrom b x (hgood x (by simp))
    simp only [plainDownHist, PlainDownDelivered]
    exact ⟨hout, ih _ (fun y hy => by rw [hlen]; exact hgood y (by simp [hy]))⟩

/-! ## ss2022: the client unpacker's session state -/

/-- the separate header of a packed server packet, as it lies in the buffer -/
theorem ssServerPack_sep (c : Crypto) (L : c.Laws) (block aeadKey : Bytes) (pol : Policy) (b : Bytes) (a : AddrPort)
    (ps pl : Nat) (lim : Int) (rand : Nat) (ts ssid spid csid : Bytes) (r : Packed)
    (ha : a.wf) (hts : ts.length = 8) (hssid : ssid.length = 8) (hspid : spid.length = 8) (hcs : csid.length = 8)
    (h : ssServerPack c block aeadKey pol b a ps pl lim rand ts ssid spid csid = .ok r) :
    sub r.buf r.packetStart.toNat 16 = c.enc block (ssid ++ spid) := by
  obtain ⟨hal1, hal2⟩ := addrPortLen_bounds a
  obtain ⟨pad, hpad, hF, hroom, _, hps, hpl, hbuf⟩ := ssServerPack_ok h
  have hsep : (ssid ++ spid).length = 16 := by simp [hssid, hspid]
  have hFdef : ssSFront a pad = 16 + 19 + (addrPortLen a).toNat + pad := rfl
  have hhdr := ssServerHdr_length b a ps pad ts csid ha hts hcs (by omega)
  have hsubpl : (sub b ps pl).length = pl := sub_length _ _ _ (by omega)
  have hPlen : (ssServerPacket c block aeadKey b a ps pl pad ts ssid spid csid).length = ssSFront a pad + pl + 16 := by
    simp only [ssServerPacket, List.length_append, L.enc_len, L.seal_len, hsep, hhdr, hsubpl]
    omega
  have e1 : r.packetStart.toNat = ps - ssSFront a pad := by omega
  have henc : (c.enc block (ssid ++ spid)).length = 16 := by rw [L.enc_len, hsep]
  rw [e1, hbuf]
  have := sub_splice_inner b (ps - ssSFront a pad) (ssServerPacket c block aeadKey b a ps pl pad ts ssid spid csid) 0 16
    (by rw [hPlen]; omega) (by rw [hPlen]; omega)
  rw [Nat.add_zero] at this
  rw [this, ssServerPacket, sub_left _ _ _ henc]

/-- a successful `ssClientUnpack` passed the size and slice guards -/
theorem ssClientUnpack_guards {c : Crypto} {block key csid : Bytes} {now : Int} {b : Bytes} {q n : Nat} {u : Unpacked AddrPort}
    (h : ssClientUnpack c block key csid now b q n = .ok u) :
    cUnpackTooSmall n = false ∧ sliceOk b q (cUnpackMessageHeaderStart q) ∧ sliceOk b (cUnpackMessageHeaderStart q) (q + n) := by
  unfold ssClientUnpack at h
  simp only [ite_panic_eq_ok, ite_err_eq_ok, Decidable.not_not] at h
  obtain ⟨h1, hs1, hs2, _⟩ := h
  exact ⟨by simpa using h1, hs1, hs2⟩

/-- the unpacker's state is fresh, or its current session is this packer's and it has only seen ids this packer used -/
def CUInv (ssid : Bytes) (used : List Bytes) (st : CUState) : Prop :=
  (st.cur = none ∧ st.old = none ∧ st.oldLastSeen = none) ∨ (st.cur = some ssid ∧ ∀ x ∈ st.curSeen, x ∈ used)

/-- with such a state and a packet id not used before, the stateful unpacker returns what the fresh-unpacker
function returns with this session's key, and stays in such a state -/
theorem ssClientUnpackS_of_inv (c : Crypto) (block : Bytes) (keyOf : Bytes → Bytes) (csid ssid spid : Bytes) (now : Int)
    (st : CUState) (used : List Bytes) (b : Bytes) (q n : Nat) (u : Unpacked AddrPort)
    (hssid : ssid.length = 8) (hinv : CUInv ssid used st) (hnew : spid ∉ used)
    (hsep : c.dec block (sub b q 16) = ssid ++ spid)
    (hu : ssClientUnpack c block (keyOf ssid) csid now b q n = .ok u) :
    (ssClientUnpackS c block keyOf csid now st b q n).2 = .ok u ∧
    CUInv ssid (spid :: used) (ssClientUnpackS c block keyOf csid now st b q n).1 := by
  obtain ⟨g1, g2, g3⟩ := ssClientUnpack_guards hu
  have htake : (ssid ++ spid).take 8 = ssid := by simp [hssid]
  have hdrop : (ssid ++ spid).drop 8 = spid := by simp [hssid]
  unfold ssClientUnpackS
  simp only [g1, Bool.false_eq_true, if_false, g2, g3, not_true_eq_false, hsep, htake, hdrop]
  rcases hinv with ⟨hc, ho, hl⟩ | ⟨hc, hseen⟩
  · simp only [hc, ho, hl, reduceCtorEq, if_false, Bool.false_eq_true, hu]
    simp [CUInv]
  · have hns : spid ∉ st.curSeen := fun hm => hnew (hseen spid hm)
    simp only [hc, if_true, hns, if_false, hu]
    refine ⟨trivial, Or.inr ⟨rfl, ?_⟩⟩
    intro x hx
    rcases List.mem_cons.mp hx with h | h
    · simp [h]
    · exact List.mem_cons_of_mem _ (hseen x h)

def SSDownStep.good (len : Nat) (x : SSDownStep) : Prop :=
  x.src.wf ∧ x.ps + x.payload.length ≤ len ∧ x.ts.length = 8 ∧ x.spid.length = 8 ∧ tsOk x.ts x.now = true

def SSDownPair.good (p : SSDownPair) : Prop := p.c.Laws ∧ p.ssid.length = 8 ∧ p.csid.length = 8

theorem ssDownHistStep_spec (p : SSDownPair) (hp : p.good) (used : List Bytes) (st : CUState) (hinv : CUInv p.ssid used st)
    (b : Bytes) (x : SSDownStep) (hx : x.good b.length) (hnew : x.spid ∉ used) :
    ((ssDownHistStep p (st, b) x).1.2).length = b.length ∧
    CUInv p.ssid (x.spid :: used) (ssDownHistStep p (st, b) x).1.1 ∧
    ((ssDownHistStep p (st, b) x).2 = none ∨ (ssDownHistStep p (st, b) x).2 = some (x.src.norm, x.payload)) := by
  obtain ⟨hw, hfit, hts, hspid, hnow⟩ := hx
  obtain ⟨hL', hssid, hcs⟩ := hp
  have hL : (splice b x.ps x.payload).length = b.length := splice_length _ _ _ hfit
  have hP : sub (splice b x.ps x.payload) x.ps x.payload.length = x.payload := sub_splice _ _ _ hfit
  have hmono : CUInv p.ssid (x.spid :: used) st := by
    rcases hinv with h | ⟨h1, h2⟩
    · exact Or.inl h
    · exact Or.inr ⟨h1, fun y hy => List.mem_cons_of_mem _ (h2 y hy)⟩
  unfold ssDownHistStep
  simp only
  generalize hpk : ssServerPack p.c p.block (p.keyOf p.ssid) p.pol (splice b x.ps x.payload) x.src x.ps x.payload.length p.lim
    x.rand x.ts p.ssid x.spid p.csid = pk
  cases pk with
  | ok r =>
    simp only
    obtain ⟨u, hu, ha, hps, hpl, hpay, hlen, _, _⟩ := ss_roundtrip_down p.c hL' p.block (p.keyOf p.ssid) p.pol _ x.src x.ps
      x.payload.length p.lim x.rand x.ts p.ssid x.spid p.csid x.now r hw hts hssid hspid hcs hnow hpk
    have hsep := ssServerPack_sep p.c hL' p.block (p.keyOf p.ssid) p.pol _ x.src x.ps x.payload.length p.lim x.rand x.ts p.ssid
      x.spid p.csid r hw hts hssid hspid hcs hpk
    have hdec : p.c.dec p.block (sub r.buf r.packetStart.toNat 16) = p.ssid ++ x.spid := by rw [hsep, hL'.dec_enc]
    obtain ⟨hres, hinv'⟩ := ssClientUnpackS_of_inv p.c p.block p.keyOf p.csid p.ssid x.spid x.now st used r.buf
      r.packetStart.toNat r.packetLen.toNat u hssid hinv hnew hdec hu
    generalize hcu : ssClientUnpackS p.c p.block p.keyOf p.csid x.now st r.buf r.packetStart.toNat r.packetLen.toNat = cu at hres hinv'
    obtain ⟨st', o⟩ := cu
    simp only at hres hinv'
    subst hres
    simp only
    refine ⟨by rw [hlen, hL], hinv', Or.inr ?_⟩
    rw [ha, hps, hpl]
    simp only [Int.toNat_natCast, hpay, hP]
  | err e => exact ⟨hL, hmono, Or.inl rfl⟩
  | panic => exact ⟨hL, hmono, Or.inl rfl⟩
  | noRoom => exact ⟨hL, hmono, Or.inl rfl⟩

def SSDownDelivered : List SSDownStep → List (Option (AddrPort × Bytes)) → Prop
  | [], [] => True
  | x :: t, o :: os => (o = none ∨ o = some (x.src.norm, x.payload)) ∧ SSDownDelivered t os
  | _, _ => False

theorem ssDownHist_spec (p : SSDownPair) (hp : p.good) (steps : List SSDownStep) :
    ∀ (used : List Bytes) (st : CUState) (b : Bytes), CUInv p.ssid used st → (∀ x ∈ steps, x.good b.length) →
      (steps.map (·.spid)).Nodup → (∀ x ∈ steps, x.spid ∉ used) →
      SSDownDelivered steps (ssDownHist p (st, b) steps) := by
  induction steps with
  | nil => intro _ _ _ _ _ _ _; trivial
  | cons x t ih =>
    intro used st b hinv hgood hnd hdis
    obtain ⟨hlen, hinv', hout⟩ := ssDownHistStep_spec p hp used st hinv b x (hgood x (by simp)) (hdis x (by simp))
    simp only [ssDownHist, SSDownDelivered]
    refine ⟨hout, ?_⟩
    simp only [List.map_cons, List.nodup_cons] at hnd
    apply ih (x.spid :: used) _ _ hinv' (fun y hy => by rw [hlen]; exact hgood y (by simp [hy])) hnd.2
    intro y hy hmem
    rcases List.mem_cons.mp hmem with h | h
    · exact hnd.1 (by rw [← h]; exact List.mem_map_of_mem hy)
    · exact hdis y (by simp [hy]) h

end SSV.Packet
