import SSV.Proofs.ClientGroupsRun
import SSV.Proofs.ClientGroupsRR
/-
Helper lemmas for C19: the generic form of "after a history the selection is the first best".
-/
namespace SSV.ClientGroups
open SSV.Gen.C19

theorem firstBestL_ofFn {n : Nat} (b : Nat → Nat → Bool) (sc : Fin n → Nat) (i : Nat)
    (h : FirstBestL b (List.ofFn sc) i) :
    ∃ hi : i < n, (∀ j : Fin n, b (sc j) (sc ⟨i, hi⟩) = false) ∧ (∀ j : Fin n, j.val < i → b (sc ⟨i, hi⟩) (sc j) = true) := by
  obtain ⟨hlt, h1, h2⟩ := h
  have hi : i < n := by simpa using hlt
  refine ⟨hi, ?_, ?_⟩
  · intro j
    have := h1 j.val (by simp)
    simpa [List.getElem_ofFn] using this
  · intro j hj
    have := h2 j.val hj
    simpa [List.getElem_ofFn] using this

theorem map_ofFn_ne_nil {n : Nat} (hist : History n) (h : hist ≠ []) : hist.map List.ofFn ≠ [] := by
  cases hist with
  | nil => exact absurd rfl h
  | cons a r => simp

/-- after any non-empty history the published selection is the scan's result over the statement's figures -/
theorem run_sel_spec (p : Policy) (t : Nat) {n : Nat} (hist : History n) (hne : hist ≠ []) :
    (run p t (init p n) (hist.map List.ofFn)).sel =
      bestIndex p t (List.ofFn (fun i => specScore p t (column hist i))) := by
  rw [run_sel p t _ _ (map_ofFn_ne_nil hist hne), run_init_scores]

theorem run_firstBest (p : Policy) (t : Nat) {n : Nat} (hn : 0 < n) (hist : History n) (hne : hist ≠ [])
    (hb : StrictOrd (cmpTest (cmpOf p)))
    (hinit : ∀ i : Fin n, cmpTest (cmpOf p) (valOf (initBestOf p) t) (specScore p t (column hist i)) = false) :
    FirstBestL (cmpTest (cmpOf p)) (List.ofFn (fun i => specScore p t (column hist i)))
      (run p t (init p n) (hist.map List.ofFn)).sel := by
  rw [run_sel_spec p t hist hne]
  unfold bestIndex
  apply scan_firstBest _ hb
  · intro h
    have := congrArg List.length h
    simp at this
    omega
  · intro x hx
    obtain ⟨i, rfl⟩ := (List.mem_ofFn).mp hx
    exact hinit i

theorem run_sel_lt (p : Policy) (t : Nat) {n : Nat} (hn : 0 < n) (hist : History n) :
    (run p t (init p n) (hist.map List.ofFn)).sel < n := by
  cases hist with
  | nil => simp [run, init, initial_sel]; exact hn
  | cons f r =>
    rw [run_sel_spec p t (f :: r) (by simp)]
    have := bestIndex_lt p t (List.ofFn (fun i => specScore p t (column (f :: r) i))) (by simpa using hn)
    simpa using this

theorem selections_prefix (p : Policy) (t : Nat) : ∀ (hist : List (List Outcome)) (st : State) (k : Nat), k < hist.length →
    (selections p t st hist)[k]? = some (run p t st (hist.take (k + 1))).sel
  | [], _, _, h => by simp at h
  | os :: rest, st, 0, _ => by simp [selections, run]
  | os :: rest, st, k + 1, h => by
    have ih := selections_prefix p t rest (round p t st os) k (by simpa using h)
    simpa [selections, run] using ih

/-! ## a whole history in small steps: per round, the jobs finish in an arbitrary order, then `finish` -/

/-- one round in small steps: `ord` is the order in which the clients' jobs finish -/
def roundSmall (p : Policy) (t : Nat) {n : Nat} (st : State) (r : (Fin n → Outcome) × List (Fin n)) : State :=
  finish p t (runJobs p t st (r.2.map (fun i => (i.val, r.1 i))))

def runSmall (p : Policy) (t : Nat) {n : Nat} (st : State) (hist : List ((Fin n → Outcome) × List (Fin n))) : State :=
  hist.foldl (roundSmall p t) st

theorem round_rings_length (p : Policy) (t : Nat) {n : Nat} (st : State) (hlen : st.rings.length = n) (f : Fin n → Outcome) :
    (round p t st (List.ofFn f)).rings.length = n := by
  simp [round, finish, hlen]

theorem runSmall_eq_run (p : Policy) (t : Nat) {n : Nat} :
    ∀ (hist : List ((Fin n → Outcome) × List (Fin n))) (st : State), st.rings.length = n →
      (∀ r ∈ hist, ∀ i : Fin n, i ∈ r.2) →
      runSmall p t st hist = run p t st (hist.map (fun r => List.ofFn r.1))
  | [], _, _, _ => rfl
  | r :: rest, st, hlen, hall => by
    have h1 : roundSmall p t st r = round p t st (List.ofFn r.1) :=
      jobs_then_finish p t r.1 r.2 (hall r (by simp)) st hlen
    have ih := runSmall_eq_run p t rest (round p t st (List.ofFn r.1)) (round_rings_length p t st hlen r.1)
      (fun q hq => hall q (by simp [hq]))
    simp only [runSmall, run, List.foldl_cons, List.map_cons] at ih ⊢
    rw [h1]
    exact ih

end SSV.ClientGroups
