import SSV.Proofs.ClientGroupsRun
import SSV.Proofs.ClientGroupsRR
/-
Helper lemmas for C19: the generic form of "after a history the selection is the first best".
-/
namespace SSV.ClientGroups
open SSV.Gen.C19

theorem firstBestL_ofFn {n : Nat} (b : Nat → Nat → Bool) (sc : Fin n → Nat) (i : Nat)
    (h : FirstBestL b (List.ofFn sc) i) :
    ∃ hi : i < n, (∀ j : Fin n, b (sc j) (sc ⟨i, hi⟩) = false) ∧ (∀ j : Fin n, j.val < i → b (sc ⟨i, hi⟩) (sc j) = true) := by
  obtain ⟨hlt, h1, h2⟩ := h
  have hi : i < n := by simpa using hlt
  refine ⟨hi, ?_, ?_⟩
  · intro j
    have := h1 j.val (by simp)
    simpa [List.getElem_ofFn] using this
  · intro j hj
    have := h2 j.val hj
    simpa [List.getElem_ofFn] using this

theorem map_ofFn_ne_nil {n : Nat} (hist : History n) (h : hist ≠ []) : hist.map List.ofFn ≠ [] := by
  cases hist with
  | nil => exact absurd rfl h
  | cons a r => simp

/-- after any non-empty history the published selection is the scan's result over the statement's figures -/
theorem run_sel_spec (p : Policy) (t : Nat) {n : Nat} (hist : History n) (hne : hist ≠ []) :
    (run p t (init p n) (hist.map List.ofFn)).sel =
      bestIndex p t (List.ofFn (fun i => specScore p t (column hist i))) := by
  rw [run_sel p t _ _ (map_ofFn_ne_nil hist hne), run_init_scores]

theorem run_firstBest (p : Policy) (t : Nat) {n : Nat} (hn : 0 < n) (hist : History n) (hne : hist ≠ [])
    (hb : StrictOrd (cmpTest (cmpOf p)))
    (hinit : ∀ i : Fin n, cmpTest (cmpOf p) (valOf (initBestOf p) t) (specScore p t (column hist i)) = false) :
    FirstBestL (cmpTest (cmpOf p)) (List.ofFn (fun i => specScore p t (column hist i)))
      (run p t (init p n) (hist.map List.ofFn)).sel := by
  rw [run_sel_spec p t hist hne]
  unfold bestIndex
  apply scan_firstBest _ hb
  · intro h
    have := congrArg List.length h
    simp at this
    omega
  · intro x hx
    obtain ⟨i, rfl⟩ := (List.mem_ofFn).mp hx
    exact hinit i

theorem run_sel_lt (p : Policy) (t : Nat) {n : Nat} (hn : 0 < n) (hist : History n) :
    (run p t (init p n) (hist.map List.ofFn)).sel < n := by
  cases hist with
  | nil => simp [run, init, initial_sel]; exact hn
  | cons f r =>
    rw [run_sel_spec p t (f :: r) (by simp)]
    have := bestIndex_lt p t (List.ofFn (fun i => specScore p t (column (f :: r) i))) (by simpa using hn)
    simpa using this

theorem selections_prefix (p : Policy) (t : Nat) : ∀ (hist : List (List Outcome)) (st : State) (k : Nat), k < hist.length →
    (selections p t st hist)[k]? = some (run p t st (hist.take (k + 1))).sel
  | [], _, _, h => by simp at h
  | os :: rest, st, 0, _ => by simp [selections, run]
  | os :: rest, st, k + 1, h => by
    have ih := selections_prefix p t rest (round p t st os) k (by simpa using h)
    simpa [selections, run] using ih

end SSV.ClientGroups
