import SSV.Proofs.DomainText
import SSV.Proofs.DomainTrieKeys
/-
Everything the text parser produces can be written back on a line: the rules of a parsed builder are `lineSafe`,
its exact-domain slot is a map and its suffix slot a well-formed trie.
-/
namespace SSV.DomainSet

/-! ### lines are line-safe -/

theorem mem_trimCR {s : Str} {x : UInt8} (h : x ∈ trimCR s) : x ∈ s := by
  unfold trimCR at h
  rw [List.mem_reverse] at h
  exact List.mem_reverse.mp ((List.dropWhile_sublist _).subset h)

theorem getLast?_trimCR (s : Str) : (trimCR s).getLast? ≠ some CR := by
  unfold trimCR
  rw [List.getLast?_reverse]
  intro h
  have hne : s.reverse.dropWhile (· = CR) ≠ [] := by
    intro h0; rw [h0] at h; simp at h
  have := @List.head_dropWhile_not _ (fun x => decide (x = CR)) s.reverse hne
  rw [List.head?_eq_some_head hne] at h
  injection h with h
  rw [h] at this
  simp at this

theorem lineSafe_of_mem_nonEmptyLines {text l : Str} (h : l ∈ nonEmptyLines text) : lineSafe l = true := by
  rw [nonEmptyLines_spec, List.mem_filter, List.mem_map] at h
  obtain ⟨⟨piece, hp, rfl⟩, hne⟩ := h
  rw [lineSafe_iff]
  refine ⟨by simpa [List.isEmpty_iff] using hne, ?_, getLast?_trimCR piece⟩
  intro hm
  exact mem_splitOn_no_sep LF text piece hp (mem_trimCR hm)

theorem lineSafe_drop {l : Str} {n : Nat} (h : lineSafe l = true) (hn : l.length > n) : lineSafe (l.drop n) = true := by
  obtain ⟨_, h2, h3⟩ := (lineSafe_iff l).mp h
  rw [lineSafe_iff]
  refine ⟨?_, ?_, ?_⟩
  · intro h0
    have := congrArg List.length h0
    simp at this; omega
  · intro hm; exact h2 (List.mem_of_mem_drop hm)
  · rw [List.getLast?_drop]
    have : ¬ l.length ≤ n := by omega
    simpa [this] using h3

theorem classify_cases (l : Str) :
    (classify l = .suffix (l.drop 7) ∧ l.length > 7) ∨ (classify l = .domain (l.drop 7) ∧ l.length > 7)
    ∨ (classify l = .regexp (l.drop 7) ∧ l.length > 7) ∨ (classify l = .keyword (l.drop 8) ∧ l.length > 8)
    ∨ classify l = .comment ∨ classify l = .invalid := by
  unfold classify
  simp only []
  by_cases h1 : l.length > SSV.Gen.C10.textProbeLen ∧ l.take SSV.Gen.C10.textProbeLen = SSV.Gen.C10.suffixPrefix
  · left; rw [if_pos h1]; exact ⟨rfl, h1.1⟩
  · rw [if_neg h1]
    by_cases h2 : l.length > SSV.Gen.C10.textProbeLen ∧ l.take SSV.Gen.C10.textProbeLen = SSV.Gen.C10.domainPrefix
    · right; left; rw [if_pos h2]; exact ⟨rfl, h2.1⟩
    · rw [if_neg h2]
      by_cases h3 : l.length > SSV.Gen.C10.textProbeLen ∧ l.take SSV.Gen.C10.textProbeLen = SSV.Gen.C10.regexpPrefix
      · right; right; left; rw [if_pos h3]; exact ⟨rfl, h3.1⟩
      · rw [if_neg h3]
        by_cases h4 : l.length > SSV.Gen.C10.textProbeLen
            ∧ l.take SSV.Gen.C10.textProbeLen = SSV.Gen.C10.keywordPrefix.take SSV.Gen.C10.textProbeLen
        · rw [if_pos h4]
          by_cases h5 : l.length ≤ SSV.Gen.C10.keywordPrefix.length
              ∨ l[SSV.Gen.C10.textProbeLen]? ≠ SSV.Gen.C10.keywordPrefix[SSV.Gen.C10.textProbeLen]?
          · right; right; right; right; right; rw [if_pos h5]
          · right; right; right; left; rw [if_neg h5]
            refine ⟨rfl, ?_⟩
            have : ¬ l.length ≤ SSV.Gen.C10.keywordPrefix.length := fun h => h5 (Or.inl h)
            have hl : SSV.Gen.C10.keywordPrefix.length = 8 := rfl
            omega
        · rw [if_neg h4]
          by_cases h5 : l.head? ≠ some hash
          · right; right; right; right; right; rw [if_pos h5]
          · right; right; right; right; left; rw [if_neg h5]

theorem classify_safe {l : Str} (h : lineSafe l = true) :
    (∀ r, classify l = .suffix r → lineSafe r = true) ∧ (∀ r, classify l = .domain r → lineSafe r = true)
    ∧ (∀ r, classify l = .regexp r → lineSafe r = true) ∧ (∀ r, classify l = .keyword r → lineSafe r = true) := by
  rcases classify_cases l with ⟨hc, hn⟩ | ⟨hc, hn⟩ | ⟨hc, hn⟩ | ⟨hc, hn⟩ | hc | hc <;>
    (rw [hc]; refine ⟨?_, ?_, ?_, ?_⟩ <;> intro r hr <;> first
      | (injection hr with hr; subst hr; exact lineSafe_drop h hn)
      | cases hr)

/-! ### keys of a trie after `Insert` -/

theorem paths_set : ∀ (cs : Children) (s : Str) (t : Trie) (p : List Str), p ∈ (cs.set s t).paths →
    p ∈ cs.paths ∨ ∃ q ∈ t.paths, p = s :: q
  | .nil, s, t, p, h => by
    simp only [Children.set, Children.paths, List.append_nil, List.mem_map] at h
    obtain ⟨q, hq, rfl⟩ := h
    exact Or.inr ⟨q, hq, rfl⟩
  | .cons k u rest, s, t, p, h => by
    unfold Children.set at h
    by_cases hk : k = s
    · subst hk
      simp only [↓reduceIte, Children.paths, List.mem_append, List.mem_map] at h ⊢
      rcases h with ⟨q, hq, rfl⟩ | h
      · exact Or.inr ⟨q, hq, rfl⟩
      · exact Or.inl (Or.inr h)
    · simp only [hk, ↓reduceIte, Children.paths, List.mem_append, List.mem_map] at h ⊢
      rcases h with h | h
      · exact Or.inl (Or.inl h)
      · rcases paths_set rest s t p h with h' | h'
        · exact Or.inl (Or.inr h')
        · exact Or.inr h'

theorem paths_of_lookup : ∀ (cs : Children) (l : Str) (t : Trie), cs.lookup l = some t →
    ∀ q ∈ t.paths, (l :: q) ∈ cs.paths
  | .nil, _, _, h, _, _ => by simp [Children.lookup] at h
  | .cons k u rest, l, t, h, q, hq => by
    unfold Children.lookup at h
    simp only [Children.paths, List.mem_append, List.mem_map]
    by_cases hk : k = l
    · simp only [hk, ↓reduceIte, Option.some.injEq] at h
      subst h; subst hk
      exact Or.inl ⟨q, hq, rfl⟩
    · simp only [hk, ↓reduceIte] at h
      exact Or.inr (paths_of_lookup rest l t h q hq)

/-- after `Insert(r)` every key is an old key or `r` itself -/
theorem paths_insertLabels : ∀ (r : List Str) (cs : Children) (p : List Str), p ∈ (insertLabels cs r).paths →
    p ∈ cs.paths ∨ p = r
  | [], cs, p, h => by left; simpa [insertLabels] using h
  | [l], cs, p, h => by
    rw [insertLabels] at h
    rcases paths_set cs l .leaf p h with h' | ⟨q, hq, rfl⟩
    · exact Or.inl h'
    · simp only [Trie.paths, List.mem_singleton] at hq
      subst hq; exact Or.inr rfl
  | l :: l' :: rest, cs, p, h => by
    have ih := paths_insertLabels (l' :: rest)
    rw [insertLabels] at h
    rotate_left
    · simp
    cases hlk : cs.lookup l with
    | none =>
      simp only [hlk] at h
      rcases paths_set cs l _ p h with h' | ⟨q, hq, rfl⟩
      · exact Or.inl h'
      · simp only [Trie.paths] at hq
        rcases ih .nil q hq with h'' | rfl
        · simp [Children.paths] at h''
        · exact Or.inr rfl
    | some t =>
      cases t with
      | leaf => simp only [hlk] at h; exact Or.inl h
      | node cs1 =>
        simp only [hlk] at h
        rcases paths_set cs l _ p h with h' | ⟨q, hq, rfl⟩
        · exact Or.inl h'
        · simp only [Trie.paths] at hq
          rcases ih cs1 q hq with h'' | rfl
          · exact Or.inl (paths_of_lookup cs l (.node cs1) hlk q h'')
          · exact Or.inr rfl

theorem keys_trieInsert (root : Children) (r k : Str) (h : k ∈ trieKeys (trieInsert root r)) :
    k ∈ trieKeys root ∨ k = r := by
  unfold trieKeys trieInsert at *
  rw [List.mem_map] at h
  obtain ⟨p, hp, rfl⟩ := h
  rcases paths_insertLabels _ root p hp with h' | rfl
  · exact Or.inl (List.mem_map.mpr ⟨p, h', rfl⟩)
  · exact Or.inr (pathToStr_labelsRev r)

/-! ### the parser's builder -/

/-- what `BuilderFromText` produces: a map, a well-formed trie, and only rules a line can hold -/
structure TextBuilder (b : Builder) : Prop where
  domains : ∃ m, b.domains = .map m
  suffixes : ∃ root, b.suffixes = .trie root ∧ root.WF
  safeD : ∀ r ∈ b.domains.rules, lineSafe r = true
  safeS : ∀ r ∈ b.suffixes.rules, lineSafe r = true
  safeK : ∀ r ∈ b.keywords, lineSafe r = true
  safeR : ∀ r ∈ b.regexps, lineSafe r = true

theorem TextBuilder.emptyText : TextBuilder Builder.emptyText :=
  ⟨⟨[], rfl⟩, ⟨.nil, rfl, trivial⟩, by simp [Builder.emptyText, DomainB.rules],
    by simp [Builder.emptyText, SuffixB.rules, trieKeys, Children.paths], by simp [Builder.emptyText],
    by simp [Builder.emptyText]⟩

theorem addLines_textBuilder : ∀ (ls : List Str) (b b' : Builder), TextBuilder b → (∀ l ∈ ls, lineSafe l = true) →
    addLines b ls = .ok b' → TextBuilder b'
  | [], b, b', hb, _, h => by
    simp only [addLines, Except.ok.injEq] at h
    subst h; exact hb
  | l :: ls, b, b', hb, hl, h => by
    have hsafe := classify_safe (hl l (by simp))
    have hrest : ∀ x ∈ ls, lineSafe x = true := fun x hx => hl x (by simp [hx])
    unfold addLines at h
    cases hc : classify l with
    | suffix r =>
      simp only [hc] at h
      have hsafe := hsafe.1 r hc
      refine addLines_textBuilder ls _ b' ?_ hrest h
      obtain ⟨root, hroot, hwf⟩ := hb.suffixes
      refine ⟨hb.domains, ⟨trieInsert root r, by simp [hroot, SuffixB.insert], trieInsert_WF root r hwf⟩,
        hb.safeD, ?_, hb.safeK, hb.safeR⟩
      intro k hk
      simp only [hroot, SuffixB.insert, SuffixB.rules] at hk
      rcases keys_trieInsert root r k hk with h' | rfl
      · exact hb.safeS k (by simpa [hroot, SuffixB.rules] using h')
      · exact hsafe
    | domain r =>
      simp only [hc] at h
      have hsafe := hsafe.2.1 r hc
      refine addLines_textBuilder ls _ b' ?_ hrest h
      obtain ⟨m, hm⟩ := hb.domains
      refine ⟨⟨mapInsert m r, by simp [hm, DomainB.insert]⟩, hb.suffixes, ?_, hb.safeS, hb.safeK, hb.safeR⟩
      intro k hk
      simp only [hm, DomainB.insert, DomainB.rules, mem_mapInsert] at hk
      rcases hk with h' | rfl
      · exact hb.safeD k (by simpa [hm, DomainB.rules] using h')
      · exact hsafe
    | regexp r =>
      simp only [hc] at h
      have hsafe := hsafe.2.2.1 r hc
      refine addLines_textBuilder ls _ b' ?_ hrest h
      refine ⟨hb.domains, hb.suffixes, hb.safeD, hb.safeS, hb.safeK, ?_⟩
      intro k hk
      simp only [List.mem_append, List.mem_singleton] at hk
      rcases hk with h' | rfl
      · exact hb.safeR k h'
      · exact hsafe
    | keyword r =>
      simp only [hc] at h
      have hsafe := hsafe.2.2.2 r hc
      refine addLines_textBuilder ls _ b' ?_ hrest h
      refine ⟨hb.domains, hb.suffixes, hb.safeD, hb.safeS, ?_, hb.safeR⟩
      intro k hk
      simp only [List.mem_append, List.mem_singleton] at hk
      rcases hk with h' | rfl
      · exact hb.safeK k h'
      · exact hsafe
    | comment =>
      simp only [hc] at h
      exact addLines_textBuilder ls b b' hb hrest h
    | invalid => simp [hc] at h

/-- the lemma the round trip needs: whatever text the parser accepts, its builder satisfies the round-trip hypothesis -/
theorem builderFromText_textBuilder {text : Str} {b : Builder} (h : builderFromText text = .ok b) : TextBuilder b := by
  unfold builderFromText at h
  have hall : ∀ l ∈ nonEmptyLines text, lineSafe l = true := fun l hl => lineSafe_of_mem_nonEmptyLines hl
  cases hls : nonEmptyLines text with
  | nil => simp [hls] at h
  | cons first rest =>
    rw [hls] at hall
    simp only [hls] at h
    cases hh : parseCapacityHint first with
    | bad => simp [hh] at h
    | found v =>
      simp only [hh] at h
      cases rest with
      | nil => simp at h
      | cons x xs =>
        simp only at h
        exact addLines_textBuilder _ _ b TextBuilder.emptyText (fun l hl => hall l (by simp [hl])) h
    | absent =>
      simp only [hh] at h
      exact addLines_textBuilder _ _ b TextBuilder.emptyText hall h

end SSV.DomainSet
