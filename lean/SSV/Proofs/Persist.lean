import SSV.Model.Persist
/-
Helper lemmas for C20: symbolic execution of the two save programs on the crash-able file system.
-/
namespace SSV.Persist

/-- every post-crash view of the store path is the document `o` or the document `n` -/
def Safe (o n : Bytes) (fs : FS) : Prop :=
  ∀ c, PostCrash fs c → c = some o ∨ c = some n

theorem safe_of_old {o n : Bytes} {fs : FS} (h1 : fs.thist = [some 0])
    (h2 : fs.inodes[0]? = some ⟨o, true⟩) : Safe o n fs := by
  intro c hc
  obtain ⟨b, hb, hm⟩ := hc
  rw [h1] at hb
  simp at hb
  subst hb
  simp only [h2] at hm
  obtain ⟨ino, hi, d, hd, hcl⟩ := hm
  simp at hi
  subst hi
  left
  rw [hd, hcl rfl]

theorem safe_of_new {o n : Bytes} {fs : FS} (h1 : fs.thist = [some 1, some 0])
    (h2 : fs.inodes[0]? = some ⟨o, true⟩) (h3 : fs.inodes[1]? = some ⟨n, true⟩) : Safe o n fs := by
  intro c hc
  obtain ⟨b, hb, hm⟩ := hc
  rw [h1] at hb
  simp at hb
  rcases hb with hb | hb
  · subst hb
    simp only [h3] at hm
    obtain ⟨ino, hi, d, hd, hcl⟩ := hm
    simp at hi
    subst hi
    right
    rw [hd, hcl rfl]
  · subst hb
    simp only [h2] at hm
    obtain ⟨ino, hi, d, hd, hcl⟩ := hm
    simp at hi
    subst hi
    left
    rw [hd, hcl rfl]


macro "close_safe" : tactic =>
  `(tactic| first
    | exact safe_of_old rfl rfl
    | exact safe_of_new rfl rfl rfl)

/-- temp-file program, no failing call: every instant is safe -/
theorem trace_tempRename_none (o n : Bytes) :
    ∀ fs ∈ trace n none progTempRename 0 (startRun (initFS o)), Safe o n fs := by
  intro fs hmem
  simp [trace, progTempRename, enabled, faultAt, execOp, execOk, interm, writeBytes, upd, startRun, initFS] at hmem
  rcases hmem with rfl | rfl | ⟨a, _, rfl⟩ | rfl | rfl | rfl <;> close_safe

/-- temp-file program, statement `j` fails (a write: after `k` bytes): every instant is safe -/
theorem trace_tempRename_fault (o n : Bytes) (j k : Nat) :
    ∀ fs ∈ trace n (some (j, k)) progTempRename 0 (startRun (initFS o)), Safe o n fs := by
  intro fs hmem
  match j with
  | 0 | 1 | 2 | 3 | 4 | 5 | 6 | 7 | 8 | 9 =>
    simp [trace, progTempRename, enabled, faultAt, execOp, execOk, execFail, interm, writeBytes, upd, startRun, initFS] at hmem
    rcases hmem with rfl | rfl | ⟨a, _, rfl⟩ | rfl | rfl | rfl | rfl <;> close_safe
  | j + 10 =>
    simp [trace, progTempRename, enabled, faultAt, execOp, execOk, interm, writeBytes, upd, startRun, initFS] at hmem
    rcases hmem with rfl | rfl | ⟨a, _, rfl⟩ | rfl | rfl | rfl <;> close_safe

theorem trace_tempRename_safe (o n : Bytes) (fault : Fault) :
    ∀ fs ∈ trace n fault progTempRename 0 (startRun (initFS o)), Safe o n fs := by
  match fault with
  | none => exact trace_tempRename_none o n
  | some (j, k) => exact trace_tempRename_fault o n j k

/-- the run to its end: success ⇒ the store path holds the new document, failure ⇒ still the old one;
in both cases on a synced file -/
theorem final_tempRename (o n : Bytes) (fault : Fault) :
    let r := finalRun n fault none progTempRename 0 (startRun (initFS o))
    (r.err = false → afterKill r.fs = some n) ∧ (r.err = true → afterKill r.fs = some o) := by
  match fault with
  | none => simp [finalRun, progTempRename, enabled, faultAt, execOp, execOk, writeBytes, upd, startRun, initFS, afterKill]
  | some (j, k) =>
    match j with
    | 0 | 1 | 2 | 3 | 4 | 5 | 6 | 7 | 8 | 9 =>
      simp [finalRun, progTempRename, enabled, faultAt, execOp, execOk, execFail, writeBytes, upd, startRun, initFS, afterKill]
    | j + 10 =>
      simp [finalRun, progTempRename, enabled, faultAt, execOp, execOk, writeBytes, upd, startRun, initFS, afterKill]

/-- temp-file program under a process kill: the store path holds the old or the new document -/
theorem kill_tempRename (o n : Bytes) (fault : Fault) :
    ∀ fs ∈ trace n fault progTempRename 0 (startRun (initFS o)), afterKill fs = some o ∨ afterKill fs = some n := by
  intro fs hmem
  match fault with
  | none =>
    simp [trace, progTempRename, enabled, faultAt, execOp, execOk, interm, writeBytes, upd, startRun, initFS] at hmem
    rcases hmem with rfl | rfl | ⟨a, _, rfl⟩ | rfl | rfl | rfl <;> simp [afterKill]
  | some (j, k) =>
    match j with
    | 0 | 1 | 2 | 3 | 4 | 5 | 6 | 7 | 8 | 9 =>
      simp [trace, progTempRename, enabled, faultAt, execOp, execOk, execFail, interm, writeBytes, upd, startRun, initFS] at hmem
      rcases hmem with rfl | rfl | ⟨a, _, rfl⟩ | rfl | rfl | rfl | rfl <;> simp [afterKill]
    | j + 10 =>
      simp [trace, progTempRename, enabled, faultAt, execOp, execOk, interm, writeBytes, upd, startRun, initFS] at hmem
      rcases hmem with rfl | rfl | ⟨a, _, rfl⟩ | rfl | rfl | rfl <;> simp [afterKill]

/-! ### the truncate-then-write program (`os.WriteFile`) -/

/-- right after the `open(O_TRUNC)` the store path names an empty file -/
theorem writeFile_passes_empty (o n : Bytes) :
    ∃ fs ∈ trace n none progWriteFile 0 (startRun (initFS o)), afterKill fs = some [] ∧ PostCrash fs (some []) := by
  refine ⟨{ inodes := [⟨[], false⟩], target := some 0, thist := [some 0], tmps := [], isLink := false, dest := none }, ?_, ?_, ?_⟩
  · simp [trace, progWriteFile, enabled, faultAt, execOp, execOk, interm, writeBytes, upd, startRun, initFS]
  · simp [afterKill]
  · exact ⟨some 0, by simp, ⟨[], false⟩, by simp, [], rfl, by simp⟩

/-- every byte count: after `j` bytes of the write the store path names the first `j` bytes of the new document -/
theorem writeFile_passes_prefix (o n : Bytes) (j : Nat) (hj : j ≤ n.length) :
    ∃ fs ∈ trace n none progWriteFile 0 (startRun (initFS o)), afterKill fs = some (n.take j) := by
  refine ⟨{ inodes := [⟨n.take j, false⟩], target := some 0, thist := [some 0], tmps := [], isLink := false, dest := none }, ?_, ?_⟩
  · simp [trace, progWriteFile, enabled, faultAt, execOp, execOk, interm, writeBytes, upd, startRun, initFS]
    exact Or.inr (Or.inl ⟨j, by omega, rfl⟩)
  · simp [afterKill]

/-- what still holds for the truncate-then-write program under a process kill or a failing call: the
store path holds the old document or a prefix of the new one (never anything else) -/
theorem writeFile_kill_prefix (o n : Bytes) (fault : Fault) :
    ∀ fs ∈ trace n fault progWriteFile 0 (startRun (initFS o)),
      afterKill fs = some o ∨ ∃ p, p <+: n ∧ afterKill fs = some p := by
  intro fs hmem
  match fault with
  | none =>
    simp [trace, progWriteFile, enabled, faultAt, execOp, execOk, interm, writeBytes, upd, startRun, initFS] at hmem
    rcases hmem with rfl | rfl | ⟨a, _, rfl⟩ | rfl | rfl | rfl <;> simp [afterKill, List.take_prefix]
  | some (j, k) =>
    match j with
    | 0 | 1 | 2 | 3 | 4 =>
      simp [trace, progWriteFile, enabled, faultAt, execOp, execOk, execFail, interm, writeBytes, upd, startRun, initFS] at hmem
      rcases hmem with rfl | rfl | ⟨a, _, rfl⟩ | rfl | rfl | rfl <;> simp [afterKill, List.take_prefix]
    | j + 5 =>
      simp [trace, progWriteFile, enabled, faultAt, execOp, execOk, interm, writeBytes, upd, startRun, initFS] at hmem
      rcases hmem with rfl | rfl | ⟨a, _, rfl⟩ | rfl | rfl | rfl <;> simp [afterKill, List.take_prefix]

/-- `load` of a document -/
theorem load_ser {U : Type} (C : Codec U) (hC : C.Lawful) (u : U) : load C (some (C.ser u)) = some u := by
  have h := hC.ser_ne_nil u
  have hd := hC.decode_ser u
  cases hs : C.ser u with
  | nil => exact absurd hs h
  | cons b bs => simp only [load]; rw [← hs]; exact hd

end SSV.Persist
