import SSV.Proofs.RelayLifeInv1
import SSV.Proofs.RelayLifeInv3
import SSV.Proofs.RelayLifeInv4
import SSV.Proofs.RelayLifeInv5
/-
C12: the property-level consequences of the invariants, for an arbitrary configuration of the model.
`SSV/Props/C12.lean` instantiates them with the configurations regenerated from the four relay files.
-/
namespace SSV.RelayLife
variable (cfg : Cfg)

/-- neither a send on a closed channel nor a second `close` ever happens -/
theorem no_panic {s : State} (h : Reachable cfg s) : s.panic = false :=
  (inv1_reachable cfg h).noPanic

/-- whenever the receive loop is about to enqueue (it holds the mutex and found entry `i` for key `c`), the channel of `i` is open -/
theorem enqueue_target_open {s : State} (h : Reachable cfg s) {c i : Nat} (hr : s.rpc = .hold c) (ht : s.table c = some i) :
    (s.ent i).chClosed = false := by
  have I := inv1_reachable cfg h
  obtain ⟨hi, hk⟩ := I.tab c i ht
  have hm : s.mu = .recv := I.muR.mpr (by simp [hr, RPc.holds])
  have hd : (s.ent i).ipc.deleted = false := (I.inTab i hi).mp (by rw [hk]; exact ht)
  cases hc : (s.ent i).chClosed with
  | false => rfl
  | true =>
    have hcl := (I.closed i hi).mp hc
    have hcrit := IPc.closed_live_crit _ hcl hd
    have := (I.muC i).mpr ⟨hi, hcrit⟩
    rw [hm] at this
    cases this

/-- a closed channel whose entry is still in the table exists only inside the clean-up's critical section -/
theorem closed_in_table_only_in_crit {s : State} (h : Reachable cfg s) {i : Nat} (hi : i < s.n)
    (hc : (s.ent i).chClosed = true) (ht : s.table (s.ent i).key = some i) : s.mu = .cleanup i := by
  have I := inv1_reachable cfg h
  exact (I.muC i).mpr ⟨hi, IPc.closed_live_crit _ ((I.closed i hi).mp hc) ((I.inTab i hi).mp ht)⟩

/-- `close` has been executed exactly when the clean-up is past it (so: at most once, and only there) -/
theorem closed_iff_past_close {s : State} (h : Reachable cfg s) {i : Nat} (hi : i < s.n) :
    (s.ent i).chClosed = true ↔ (s.ent i).ipc.closed = true :=
  (inv1_reachable cfg h).closed i hi

/-- `delete(table, key)` removes the entry of the deleting session itself -/
theorem delete_removes_self {s : State} (h : Reachable cfg s) {i : Nat} (hi : i < s.n) (hp : (s.ent i).ipc = .cDelete) :
    s.table (s.ent i).key = some i :=
  ((inv1_reachable cfg h).inTab i hi).mpr (by rw [hp]; rfl)

/-- after its `delete` a session is no longer reachable through the table -/
theorem deleted_not_in_table {s : State} (h : Reachable cfg s) {i : Nat} (hi : i < s.n) (hp : (s.ent i).ipc.deleted = true) :
    s.table (s.ent i).key ≠ some i := by
  intro ht
  have := ((inv1_reachable cfg h).inTab i hi).mp ht
  rw [hp] at this
  cases this

/-- After Stop's pass over the table: a downlink blocked on a FUTURE read deadline exists only while its uplink is
between the re-arm and the re-force (it is not blocked and will force the deadline into the past). -/
theorem stop_no_timer (hr : cfg.recheck = true) {s : State} (h : Reachable cfg s) (hs : s.spc.afterIter = true)
    {i : Nat} (hi : i < s.n) (hp : (s.ent i).ipc = .dRead) (hd : (s.ent i).dl = .future) :
    (s.ent i).upc = .check ∨ (s.ent i).upc = .force := by
  have I1 := inv1_reachable cfg h
  have A := inv3a_reachable cfg h
  have B := inv3b_reachable cfg h
  have ht : s.table (s.ent i).key = some i := (I1.inTab i hi).mpr (by rw [hp]; rfl)
  have hv := B.g9 hs i hi ht
  have hc : (s.ent i).clean = true := by
    cases hcl : (s.ent i).clean with
    | true => rfl
    | false =>
      have := A.u3 i hi hcl
      rw [hp] at this
      simp [IPc.idx] at this
  exact B.e2 hr i hi hv hc hd

/-- once `wg.Wait()` has returned, every session goroutine has returned -/
theorem all_returned_after_wait {s : State} (h : Reachable cfg s) (hs : s.spc.afterWg = true) {i : Nat} (hi : i < s.n) :
    (s.ent i).finished = true := by
  have := (inv3c_reachable cfg h).g10 hs i hi
  simp only [Entry.finished, this.1, beq_self_eq_true, Bool.true_and, Bool.or_eq_true, beq_iff_eq]
  exact this.2

/-- Stop only gets past `mwg.Wait()` when the receive loop has returned: no session is created afterwards -/
theorem recv_loop_done_after_mwg {s : State} (h : Reachable cfg s) (hs : s.spc.afterMwg = true) : s.rpc = .done :=
  (inv3a_reachable cfg h).g5 hs

/-- a datagram for a key without table entry creates a fresh entry: open channel holding the datagram, nil state -/
theorem missing_key_creates_fresh {s s' : State} {c : Nat} (hr : s.rpc = .hold c) (ht : s.table c = none)
    (hs : step cfg s (.rProc true) = some s') :
    s'.table c = some s.n ∧ s'.n = s.n + 1 ∧ s'.ent s.n = Entry.fresh c := by
  simp [step, hr, ht] at hs
  subst hs
  simp


theorem inv4_reachable {s : State} (h : Reachable cfg s) : Inv4 cfg s := by
  induction h with
  | init => exact inv4_initial cfg
  | step e hr hs ih => exact inv4_step cfg _ _ e (inv1_reachable cfg hr) (inv3a_reachable cfg hr) (inv3d_reachable cfg hr) ih hs

/-- when all goroutines of a session have returned its NAT socket is closed (if every early return that owns the
socket and the uplink goroutine close it, as `cfg` says the source does) -/
theorem socket_released (hc : cfg.closesAll = true) (hu : cfg.uplinkCloses = true) {s : State} (h : Reachable cfg s)
    {i : Nat} (hi : i < s.n) (hf : (s.ent i).finished = true) : (s.ent i).sock = false := by
  have I := inv4_reachable cfg h
  simp only [Entry.finished, Bool.and_eq_true, Bool.or_eq_true, beq_iff_eq] at hf
  obtain ⟨hp, hup⟩ := hf
  rcases hup with hup | hup
  · cases hcl : (s.ent i).clean with
    | true => exact absurd hup (I.u6 i hi hcl (by rw [hp]; simp [IPc.idx]))
    | false => exact I.s5 hc i hi hcl (by rw [hp]; simp [IPc.idx])
  · exact I.s4 hu i hi hup

/-- the downlink only ever reads from an open socket: nobody closes it while the downlink loop runs -/
theorem downlink_socket_open {s : State} (h : Reachable cfg s) {i : Nat} (hi : i < s.n)
    (hp : (s.ent i).ipc = .dRead ∨ (s.ent i).ipc = .dProc) : (s.ent i).sock = true := by
  have I := inv4_reachable cfg h
  rcases hp with hp | hp <;> exact I.s2 i hi (by rw [hp]; simp [IPc.idx]) (by rw [hp]; simp [IPc.idx])


theorem inv5_reachable {s : State} (h : Reachable cfg s) : Inv5 cfg s := by
  induction h with
  | init => exact inv5_initial cfg
  | step e hr hs ih => exact inv5_step cfg _ _ e (inv4_reachable cfg hr) ih hs

/-- a downlink blocked in its read always has a read deadline (if the initialiser arms one before the goroutines start) -/
theorem downlink_has_deadline (ha : cfg.initArms = true) {s : State} (h : Reachable cfg s) {i : Nat} (hi : i < s.n)
    (hp : (s.ent i).ipc = .dRead) : (s.ent i).dl ≠ .unset :=
  (inv5_reachable cfg h).d1 ha i hi (by rw [hp]; simp [IPc.idx]) (by rw [hp]; simp [IPc.idx])

/-- so the blocked read can always end by itself: either the NAT timer can still fire or the read fails right away;
this does not depend on the uplink ever having sent (or packed) anything -/
theorem downlink_can_time_out (ha : cfg.initArms = true) {s : State} (h : Reachable cfg s) {i : Nat} (hi : i < s.n)
    (hp : (s.ent i).ipc = .dRead) :
    (step cfg s (.timer i)).isSome = true ∨ (step cfg s (.dTimeout i)).isSome = true := by
  have hd := downlink_has_deadline cfg ha h hi hp
  cases hdl : (s.ent i).dl with
  | unset => exact absurd hdl hd
  | future => left; simp [step, hi, hdl]
  | past => right; simp [step, hi, hp, hdl]

/-- shape of a state in which Stop waits and only the NAT timer (or the environment) can make anything move -/
def stuckOnTimer (s : State) : Prop :=
  s.n = 1 ∧ s.spc = .waitWg ∧ s.rpc = .done ∧ s.mu = .free ∧ (s.ent 0).ipc = .dRead ∧ (s.ent 0).dl = .future ∧
  (s.ent 0).upc = .recv ∧ (s.ent 0).q = 0 ∧ (s.ent 0).chClosed = false

theorem stuck_no_internal_move {s : State} (hs : stuckOnTimer s) (e : Ev) (he : e.internal = true) : step cfg s e = none := by
  obtain ⟨h1, h2, h3, h4, h5, h6, h7, h8, h9⟩ := hs
  cases e <;> simp [Ev.internal] at he <;> simp [step, h1, h2, h3, h4]
  case uRecv i k => intro hi _; subst hi; omega
  case stop => simp [allB, Entry.finished, h5]
  all_goals first
    | omega
    | (intro hi; subst hi; simp_all; done)
    | (simp_all; done)

end SSV.RelayLife
