import SSV.Proofs.StatsConc
/-
C14 — thread-local invariants carried through every interleaving: the totals of a snapshot are the sum
of the `Traffic` values it obtained; a Collect* thread works on the collector of its own username.
-/
namespace SSV.Stats
open SSV.Gen.C14

/-- an invariant of single threads that every thread step keeps holds for all threads of every reachable configuration -/
theorem reach_inv (P : Thread → Prop)
    (hP : ∀ order sh sh' th th', P th → Thread.step order sh th = some (sh', th') → P th')
    {a b : Config} (hr : Reach a b) (h : ∀ th ∈ a.threads, P th) : ∀ th ∈ b.threads, P th := by
  induction hr with
  | refl => exact h
  | tail _ hstep ih =>
    cases hstep with
    | mk pre post th th' sh sh' order _ hs =>
      intro x hx
      simp only [List.mem_append, List.mem_cons] at hx
      rcases hx with hx | rfl | hx
      · exact ih x (by simp [hx])
      · exact hP order sh sh' th x (ih th (by simp)) hs
      · exact ih x (by simp [hx])

/-- sum of the figure for `f` over all `Traffic` values a snapshot obtained (anonymous collector first) -/
def sumAll (f : Field) : List (Target × Counters) → Nat
  | [] => 0
  | e :: r => e.2.get f + sumAll f r

theorem sumAll_append (f : Field) (a b : List (Target × Counters)) : sumAll f (a ++ b) = sumAll f a + sumAll f b := by
  induction a with
  | nil => simp [sumAll]
  | cons e r ih => simp [sumAll, ih, Nat.add_assoc]

/-- `s.Traffic` (the server totals of the snapshot under construction) is the sum, modulo 2^64, of the
`Traffic` values obtained so far -/
def SnapTh.TotalOK (s : SnapTh) : Prop :=
  (s.phase = .anon → s.done = []) ∧
  ∀ f, s.phase ≠ .anon → (s.total.get f % M = sumAll f s.done % M ∧ s.total.get f ≤ sumAll f s.done)

def Thread.TotalOK : Thread → Prop
  | .collect _ => True
  | .snap s => s.TotalOK

theorem snap_step_total (order : List String) (sh sh' : Shared) (s s' : SnapTh)
    (hok : s.TotalOK) (h : s.step order sh = some (sh', s')) : s'.TotalOK := by
  obtain ⟨hanon, htot⟩ := hok
  unfold SnapTh.step at h
  cases hpc : s.v.pc with
  | cons x rest =>
    simp only [hpc, Option.some.injEq, Prod.mk.injEq] at h
    obtain ⟨_, rfl⟩ := h
    exact ⟨hanon, htot⟩
  | nil =>
    simp only [hpc] at h
    cases hph : s.phase with
    | anon =>
      simp only [hph, Option.some.injEq, Prod.mk.injEq] at h
      obtain ⟨_, rfl⟩ := h
      refine ⟨by simp, fun f _ => ?_⟩
      simp [hanon hph, sumAll]
    | lockWait =>
      simp only [hph, Option.some.injEq, Prod.mk.injEq] at h
      obtain ⟨_, rfl⟩ := h
      refine ⟨by simp, fun f _ => ?_⟩
      exact htot f (by simp [hph])
    | users todo =>
      cases todo with
      | nil =>
        simp only [hph, Option.some.injEq, Prod.mk.injEq] at h
        obtain ⟨_, rfl⟩ := h
        exact ⟨by simp, fun f _ => htot f (by simp [hph])⟩
      | cons u todo =>
        simp only [hph, Option.some.injEq, Prod.mk.injEq] at h
        obtain ⟨_, rfl⟩ := h
        exact ⟨by simp, fun f _ => htot f (by simp [hph])⟩
    | visiting u todo =>
      simp only [hph, Option.some.injEq, Prod.mk.injEq] at h
      obtain ⟨_, rfl⟩ := h
      refine ⟨by simp, fun f _ => ?_⟩
      have := htot f (by simp [hph])
      simp only [genOK.add_pointwise, sumAll_append, sumAll, M] at this ⊢
      exact ⟨by omega, by omega⟩
    | finished => simp [hph] at h

theorem thread_step_total (order : List String) (sh sh' : Shared) (th th' : Thread)
    (hok : th.TotalOK) (h : Thread.step order sh th = some (sh', th')) : th'.TotalOK := by
  cases th with
  | collect c =>
    simp only [Thread.step, Option.map_eq_some_iff] at h
    obtain ⟨⟨_, _⟩, _, heq⟩ := h
    simp only [Prod.mk.injEq] at heq
    obtain ⟨_, rfl⟩ := heq
    trivial
  | snap s =>
    simp only [Thread.step, Option.map_eq_some_iff] at h
    obtain ⟨⟨sh1, s1⟩, hc, heq⟩ := h
    simp only [Prod.mk.injEq] at heq
    obtain ⟨_, rfl⟩ := heq
    exact snap_step_total order sh sh1 s s1 hok hc

theorem initCfg_total (ops : List Op) : ∀ th ∈ (initCfg ops).threads, th.TotalOK := by
  intro th hth
  simp only [initCfg, List.mem_map] at hth
  obtain ⟨op, _, rfl⟩ := hth
  cases op with
  | collect c u x0 x1 => trivial
  | snapshot r => exact ⟨fun _ => rfl, fun f hne => absurd rfl hne⟩

/-- a Collect* thread holds the collector `serverCollector.trafficCollector(username)` selects -/
def Thread.OwnTarget : Thread → Prop
  | .collect c => c.v.t = target c.u
  | .snap _ => True

theorem thread_step_own (order : List String) (sh sh' : Shared) (th th' : Thread)
    (hwf : th.WF) (hok : th.OwnTarget) (h : Thread.step order sh th = some (sh', th')) : th'.OwnTarget := by
  cases th with
  | collect c =>
    simp only [Thread.step, Option.map_eq_some_iff] at h
    obtain ⟨⟨sh1, c1⟩, hc, heq⟩ := h
    simp only [Prod.mk.injEq] at heq
    obtain ⟨_, rfl⟩ := heq
    have := collect_step_ok sh sh1 c c1 hwf hc
    simp only [Thread.OwnTarget] at hok ⊢
    rw [this.2.1, this.2.2.1]; exact hok
  | snap s =>
    simp only [Thread.step, Option.map_eq_some_iff] at h
    obtain ⟨⟨_, _⟩, _, heq⟩ := h
    simp only [Prod.mk.injEq] at heq
    obtain ⟨_, rfl⟩ := heq
    trivial

/-- what a finished SnapshotAndReset call returned for collector `t`, counter `f` (0 for every other thread) -/
def returnedByReset (t : Target) (f : Field) : Thread → Nat
  | .snap s => if s.reset then sumDone t f s.done else 0
  | .collect _ => 0

theorem finished_got_pend (th : Thread) (hwf : th.WF) (hfin : th.finished) (t : Target) (f : Field) :
    th.got t f = returnedByReset t f th ∧ th.pend t f = 0 := by
  cases th with
  | collect c =>
    simp only [Thread.finished] at hfin
    simp [Thread.got, Thread.pend, returnedByReset, hfin.2, pendPc]
  | snap s =>
    simp only [Thread.finished] at hfin
    have hz := (hwf.2 (by simp [SnapTh.idlePhase, hfin])).1 f
    cases hr : s.reset <;> simp [Thread.got, Thread.pend, returnedByReset, hr, hz]

theorem sum_finished (threads : List Thread) (hwf : ∀ th ∈ threads, th.WF) (hfin : ∀ th ∈ threads, th.finished)
    (t : Target) (f : Field) :
    sumOver (Thread.got t f) threads = sumOver (returnedByReset t f) threads ∧ sumOver (Thread.pend t f) threads = 0 := by
  induction threads with
  | nil => exact ⟨rfl, rfl⟩
  | cons th r ih =>
    have h1 := finished_got_pend th (hwf th (by simp)) (hfin th (by simp)) t f
    have h2 := ih (fun x hx => hwf x (by simp [hx])) (fun x hx => hfin x (by simp [hx]))
    simp [sumOver, h1.1, h1.2, h2.1, h2.2]

end SSV.Stats
