import SSV.Proofs.PortSetRanges
/-
`Count()` counts the set bits and `First()` is the least set bit; hence with `Count() = 1` the single-port
criterion `port == First()` decides membership.
-/
namespace SSV.PortSet

theorem onesCount_eq_count : ∀ (f x : Nat), onesCount f x = (bitsOf x f).count true
  | 0, _ => rfl
  | f + 1, x => by
    rw [onesCount, bitsOf, List.count_cons, onesCount_eq_count f (x / 2)]
    have : x % 2 = 0 ∨ x % 2 = 1 := by omega
    rcases this with h | h <;> simp [h] <;> omega

theorem count_foldl : ∀ (ws : Words) (c : Nat),
    ws.foldl (fun c w => c + onesCount 64 w) c = c + (allBits ws).count true
  | [], c => by simp [allBits]
  | w :: rest, c => by
    rw [List.foldl_cons, count_foldl rest]
    show _ = c + (bitsOf w 64 ++ allBits rest).count true
    rw [List.count_append, onesCount_eq_count]
    omega

theorem count_eq (ws : Words) : count ws = (allBits ws).count true := by
  unfold count
  rw [count_foldl]; omega

theorem tz_lt_of_ne_zero : ∀ (f x : Nat), x ≠ 0 → x < 2 ^ f → trailingZeros f x < f
  | 0, x, h0, h => by simp at h; omega
  | f + 1, x, h0, h => by
    unfold trailingZeros
    split
    · omega
    · have hp : 2 ^ (f + 1) = 2 * 2 ^ f := by rw [Nat.pow_succ, Nat.mul_comm]
      have := tz_lt_of_ne_zero f (x / 2) (by omega) (by omega)
      omega

theorem bitsOf_head (x n : Nat) (h : x % 2 = 1) : (bitsOf x (n + 1))[0]? = some true := by
  simp [bitsOf, h]

/-- the position of the least set bit, relative to the first block scanned -/
theorem firstFrom_spec : ∀ (ws : Words) (i : Nat), (∀ w ∈ ws, w < 2 ^ 64) → i + ws.length ≤ 1024 →
    1 ≤ (allBits ws).count true →
    ∃ k, firstFrom i ws = i * 64 + k ∧ (allBits ws)[k]? = some true ∧ ∀ j, j < k → (allBits ws)[j]? = some false
  | [], i, _, _, h => by simp [allBits] at h
  | w :: rest, i, hw, hlen, hc => by
    have hw64 : w < 2 ^ 64 := hw w (by simp)
    have hlen' : i + 1 + rest.length ≤ 1024 := by simp at hlen; omega
    unfold firstFrom
    show ∃ k, _ = _ ∧ (bitsOf w 64 ++ allBits rest)[k]? = some true ∧
      ∀ j, j < k → (bitsOf w 64 ++ allBits rest)[j]? = some false
    by_cases h0 : w = 0
    · subst h0
      have hz : bitsOf 0 64 = List.replicate 64 false := bitsOf_all_zero 64 0 64 (by decide)
      have hc' : 1 ≤ (allBits rest).count true := by
        have e : allBits (0 :: rest) = bitsOf 0 64 ++ allBits rest := rfl
        rw [e, List.count_append, hz] at hc
        simpa using hc
      obtain ⟨k, hk1, hk2, hk3⟩ := firstFrom_spec rest (i + 1) (fun x hx => hw x (by simp [hx])) hlen' hc'
      refine ⟨64 + k, ?_, ?_, ?_⟩
      · simp only [↓reduceIte, hk1]; omega
      · rw [List.getElem?_append_right (by rw [length_bitsOf]; omega), length_bitsOf]
        have : 64 + k - 64 = k := by omega
        rw [this]; exact hk2
      · intro j hj
        by_cases hj64 : j < 64
        · rw [List.getElem?_append_left (by rw [length_bitsOf]; exact hj64), hz, List.getElem?_replicate]
          simp [hj64]
        · rw [List.getElem?_append_right (by rw [length_bitsOf]; omega), length_bitsOf]
          exact hk3 (j - 64) (by omega)
    · have htz := tz_lt_of_ne_zero 64 w h0 hw64
      refine ⟨trailingZeros 64 w, ?_, ?_, ?_⟩
      · simp only [h0, ↓reduceIte, u16, blockBits, SSV.Gen.C10.portsetBlockBits]
        have : i < 1024 := by simp at hlen; omega
        omega
      · rw [List.getElem?_append_left (by rw [length_bitsOf]; exact htz)]
        rw [bitsOf_tz 64 w 64 (by omega)]
        rw [List.getElem?_append_right (by simp)]
        simp only [List.length_replicate, Nat.sub_self]
        obtain ⟨m, hm⟩ : ∃ m, 64 - trailingZeros 64 w = m + 1 := ⟨64 - trailingZeros 64 w - 1, by omega⟩
        rw [hm]
        exact bitsOf_head _ m (tz_bit 64 w htz)
      · intro j hj
        rw [List.getElem?_append_left (by rw [length_bitsOf]; omega)]
        rw [bitsOf_tz 64 w 64 (by omega)]
        rw [List.getElem?_append_left (by simp; exact hj)]
        simp [hj]

/-- a Boolean list with exactly one `true`, found at index `k` -/
theorem unique_true : ∀ (l : List Bool) (k : Nat), l.count true = 1 → l[k]? = some true →
    ∀ p, l[p]? = some true ↔ p = k
  | [], k, h, _ => by simp at h
  | b :: l, k, hc, hk => by
    intro p
    cases b with
    | true =>
      have h0 : l.count true = 0 := by simpa [List.count_cons] using hc
      have hno : ∀ q : Nat, l[q]? ≠ some true := by
        intro q hq
        have hm : true ∈ l := List.mem_of_getElem? hq
        have hnot : true ∉ l := List.count_eq_zero.mp h0
        exact hnot hm
      cases k with
      | zero =>
        cases p with
        | zero => simp
        | succ p' => simp only [List.getElem?_cons_succ]; constructor
                     · intro h; exact absurd h (hno p')
                     · intro h; omega
      | succ k' => simp only [List.getElem?_cons_succ] at hk; exact absurd hk (hno k')
    | false =>
      have h1 : l.count true = 1 := by simpa [List.count_cons] using hc
      cases k with
      | zero => simp at hk
      | succ k' =>
        simp only [List.getElem?_cons_succ] at hk
        have ih := unique_true l k' h1 hk
        cases p with
        | zero => simp
        | succ p' =>
          simp only [List.getElem?_cons_succ]
          rw [ih p']; omega

/-- with exactly one port in the set, `port == First()` is membership -/
theorem single_port (ws : Words) (h : WF ws) (hc : count ws = 1) (p : Nat) (hp : p < 65536) :
    (p == first ws) = bitAt ws p := by
  rw [count_eq] at hc
  obtain ⟨k, hk1, hk2, _⟩ := firstFrom_spec ws 0 h.2 (by rw [h.1]; omega) (by omega)
  have hfirst : first ws = k := by unfold first; rw [hk1]; omega
  have hu := unique_true (allBits ws) k hc hk2 p
  have hbit : (allBits ws)[p]? = some (bitAt ws p) := by
    rw [allBits_getElem? ws p (by rw [h.1]; omega), bitAt_eq_testBit]
  rw [hbit] at hu
  rw [hfirst, Bool.eq_iff_iff]
  simp only [beq_iff_eq]
  constructor
  · intro e; exact (Option.some.inj (hu.mpr e))
  · intro e; exact hu.mp (by rw [e])

end SSV.PortSet
