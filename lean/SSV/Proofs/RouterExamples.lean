import SSV.Proofs.RouterPorts
/-
C09: witnesses used by the `example`s of Props/C09 (a port table with exactly one port).
-/
namespace SSV.Router

theorem countFrom_single (a : Nat) : ∀ n p, countFrom (fun q => q == a) n p = if p ≤ a ∧ a < p + n then 1 else 0 := by
  intro n
  induction n with
  | zero =>
    intro p
    have : ¬ (p ≤ a ∧ a < p + 0) := by omega
    simp [countFrom, this]
  | succ n ih =>
    intro p
    simp only [countFrom, ih]
    by_cases h1 : p = a
    · subst h1
      have c1 : ¬ (p + 1 ≤ p ∧ p < p + 1 + n) := by omega
      have c2 : p ≤ p ∧ p < p + (n + 1) := by omega
      simp [c1, c2]
    · have e : (p == a) = false := by simp [h1]
      by_cases c1 : p + 1 ≤ a ∧ a < p + 1 + n
      · have c2 : p ≤ a ∧ a < p + (n + 1) := by omega
        simp [c1, c2, e]
      · have c2 : ¬ (p ≤ a ∧ a < p + (n + 1)) := by omega
        simp [c1, c2, e]

/-- the table holding port 80 only -/
def onePort : PortSet := PortSet.empty.add 80

theorem onePort_mem : onePort.mem = fun q => q == 80 := by
  funext q
  rw [Bool.eq_iff_iff, onePort, PortSet.mem_add _ PortSet.wf_empty 80 q (by decide), PortSet.mem_empty]
  simp

theorem onePort_count : onePort.count = 1 := by
  unfold PortSet.count
  rw [onePort_mem, countFrom_single]
  decide

theorem onePort_zero : onePort.mem 0 = false := by
  rw [onePort_mem]; decide

end SSV.Router
