-- generation failed: ss2022: function *ShadowStreamConn.readChunk not found
#exit_gen_broken
