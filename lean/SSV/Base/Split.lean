/-
Byte-string splitting helpers shared by the C10 models (owned by C10; core Lean only).
-/
namespace SSV

/-- split at every occurrence of `c` (always at least one piece): `strings.Split`-like. -/
def splitOn (c : UInt8) : List UInt8 → List (List UInt8)
  | [] => [[]]
  | x :: xs =>
    if x = c then [] :: splitOn c xs
    else match splitOn c xs with
      | [] => [[x]]
      | h :: t => (x :: h) :: t

/-- `strings.IndexByte`-style cut at the first `c`: `(before, some after)` or `(s, none)` -/
def cutAt (c : UInt8) : List UInt8 → List UInt8 × Option (List UInt8)
  | [] => ([], none)
  | x :: xs =>
    if x = c then ([], some xs)
    else let r := cutAt c xs; (x :: r.1, r.2)

/-- pieces joined with `c` between them -/
def joinWith (c : UInt8) : List (List UInt8) → List UInt8
  | [] => []
  | [a] => a
  | a :: b :: rest => a ++ c :: joinWith c (b :: rest)

end SSV
