import SSV.Base.Util
/-
Outcome monad for models of Go code that handles peer-controlled bytes (property C06; shared helper,
created by the C06 builder).

`Outcome ε α = ok a | err e | panic`: Go slice / index / fixed-size-array conversions are modelled by
operations that CAN return `panic` (exactly when the Go runtime would raise a run-time panic), so that
"the code's own guards are sufficient" is a real statement: `f input ≠ .panic`.
Core Lean only.
-/
namespace SSV

inductive Outcome (ε α : Type) where
  | ok (a : α)
  | err (e : ε)
  | panic
deriving Repr, DecidableEq

namespace Outcome
variable {ε α β : Type}

@[inline] def bind (x : Outcome ε α) (f : α → Outcome ε β) : Outcome ε β :=
  match x with
  | ok a => f a
  | err e => err e
  | panic => panic

instance : Monad (Outcome ε) where
  pure := ok
  bind := bind

/-- The property of interest. -/
def NoPanic (x : Outcome ε α) : Prop := x ≠ panic

@[simp] theorem pure_eq (a : α) : (pure a : Outcome ε α) = ok a := rfl
@[simp] theorem ok_bind (a : α) (f : α → Outcome ε β) : (ok a >>= f) = f a := rfl
@[simp] theorem err_bind (e : ε) (f : α → Outcome ε β) : ((err e : Outcome ε α) >>= f) = err e := rfl
@[simp] theorem panic_bind (f : α → Outcome ε β) : ((panic : Outcome ε α) >>= f) = panic := rfl
@[simp] theorem noPanic_ok (a : α) : NoPanic (ok a : Outcome ε α) := by simp [NoPanic]
@[simp] theorem noPanic_err (e : ε) : NoPanic (err e : Outcome ε α) := by simp [NoPanic]
@[simp] theorem not_noPanic_panic : ¬ NoPanic (panic : Outcome ε α) := by simp [NoPanic]

/-- Sequencing: no panic in the first part, and none in the continuation on every value the first part can return. -/
theorem noPanic_bind {x : Outcome ε α} {f : α → Outcome ε β}
    (hx : NoPanic x) (hf : ∀ a, x = ok a → NoPanic (f a)) : NoPanic (x >>= f) := by
  cases x with
  | ok a => exact hf a rfl
  | err e => simp
  | panic => exact absurd rfl hx

theorem bind_eq_ok {x : Outcome ε α} {f : α → Outcome ε β} {b : β}
    (h : (x >>= f) = ok b) : ∃ a, x = ok a ∧ f a = ok b := by
  cases x with
  | ok a => exact ⟨a, rfl, h⟩
  | err e => simp at h
  | panic => simp at h

/-- Result class as printed by the drivers. -/
def isOk : Outcome ε α → Bool
  | ok _ => true
  | _ => false

end Outcome

/-! ### Go slice operations on `Bytes` (length = `len`, capacity is tracked separately where it matters) -/

namespace Go
variable {ε : Type}
open Outcome

/-- `b[i]` -/
def idx (b : Bytes) (i : Nat) : Outcome ε UInt8 :=
  if h : i < b.length then .ok (b[i]) else .panic

/-- `b[i:j]` (with `j ≤ len(b)`; re-slicing beyond `len` up to `cap` is modelled explicitly where the code does it) -/
def slice (b : Bytes) (i j : Nat) : Outcome ε Bytes :=
  if i ≤ j ∧ j ≤ b.length then .ok ((b.take j).drop i) else .panic

/-- `b[i:]` -/
def sliceFrom (b : Bytes) (i : Nat) : Outcome ε Bytes :=
  if i ≤ b.length then .ok (b.drop i) else .panic

/-- `b[:j]` -/
def sliceTo (b : Bytes) (j : Nat) : Outcome ε Bytes :=
  if j ≤ b.length then .ok (b.take j) else .panic

/-- `*(*[n]byte)(b)` / `[n]byte(b)`: conversion of a slice to an array (pointer): panics if `len(b) < n`. -/
def arr (n : Nat) (b : Bytes) : Outcome ε Bytes :=
  if n ≤ b.length then .ok (b.take n) else .panic

def be16val (b : Bytes) : Nat := (b.getD 0 0).toNat * 256 + (b.getD 1 0).toNat

def beVal (b : Bytes) : Nat := b.foldl (fun acc x => acc * 256 + x.toNat) 0

/-- `binary.BigEndian.Uint16(b)`: `_ = b[1]` bounds-check hint, panics if `len(b) < 2`. -/
def be16 (b : Bytes) : Outcome ε Nat :=
  if 2 ≤ b.length then .ok (be16val b) else .panic

/-- `binary.BigEndian.Uint64(b)`: panics if `len(b) < 8`. -/
def be64 (b : Bytes) : Outcome ε Nat :=
  if 8 ≤ b.length then .ok (beVal (b.take 8)) else .panic

/-- `copy(dst[at:], src)` for `at ≤ len(dst)`: copies `min` bytes, never panics by itself; the slicing `dst[at:]` can. -/
def copyAt (dst : Bytes) (at_ : Nat) (src : Bytes) : Outcome ε Bytes :=
  if at_ ≤ dst.length then
    let n := min src.length (dst.length - at_)
    .ok (dst.take at_ ++ src.take n ++ dst.drop (at_ + n))
  else .panic

/-- `b[i] = v` -/
def setIdx (b : Bytes) (i : Nat) (v : UInt8) : Outcome ε Bytes :=
  if i < b.length then .ok (b.set i v) else .panic

theorem be16val_lt (b : Bytes) : be16val b < 65536 := by
  unfold be16val
  have h0 := (b.getD 0 0).toNat_lt
  have h1 := (b.getD 1 0).toNat_lt
  omega

@[simp] theorem idx_of_lt {b : Bytes} {i : Nat} (h : i < b.length) : (idx b i : Outcome ε UInt8) = .ok (b[i]) := by
  simp [idx, h]
@[simp] theorem slice_of_le {b : Bytes} {i j : Nat} (h : i ≤ j ∧ j ≤ b.length) :
    (slice b i j : Outcome ε Bytes) = .ok ((b.take j).drop i) := by simp [slice, h]
@[simp] theorem sliceFrom_of_le {b : Bytes} {i : Nat} (h : i ≤ b.length) :
    (sliceFrom b i : Outcome ε Bytes) = .ok (b.drop i) := by simp [sliceFrom, h]
@[simp] theorem sliceTo_of_le {b : Bytes} {j : Nat} (h : j ≤ b.length) :
    (sliceTo b j : Outcome ε Bytes) = .ok (b.take j) := by simp [sliceTo, h]
@[simp] theorem arr_of_le {n : Nat} {b : Bytes} (h : n ≤ b.length) :
    (arr n b : Outcome ε Bytes) = .ok (b.take n) := by simp [arr, h]
@[simp] theorem be16_of_le {b : Bytes} (h : 2 ≤ b.length) : (be16 b : Outcome ε Nat) = .ok (be16val b) := by
  simp [be16, h]
@[simp] theorem be64_of_le {b : Bytes} (h : 8 ≤ b.length) : (be64 b : Outcome ε Nat) = .ok (beVal (b.take 8)) := by
  simp [be64, h]

end Go
end SSV
