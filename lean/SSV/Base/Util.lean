/-
Shared helpers for the executable models and the line-protocol drivers.
Core Lean only (no Mathlib) so that every driver links as a `lean_exe`.
-/
namespace SSV

abbrev Bytes := List UInt8

def hexDigit (n : Nat) : Char :=
  if n < 10 then Char.ofNat (48 + n) else Char.ofNat (87 + n)

def toHex (bs : Bytes) : String :=
  String.ofList (bs.foldr (fun b acc => hexDigit (b.toNat / 16) :: hexDigit (b.toNat % 16) :: acc) [])

def hexVal? (c : Char) : Option Nat :=
  if '0' ≤ c ∧ c ≤ '9' then some (c.toNat - 48)
  else if 'a' ≤ c ∧ c ≤ 'f' then some (c.toNat - 87)
  else if 'A' ≤ c ∧ c ≤ 'F' then some (c.toNat - 55)
  else none

def ofHexChars : List Char → Option Bytes
  | [] => some []
  | [_] => none
  | a :: b :: rest => do
    let x ← hexVal? a
    let y ← hexVal? b
    let r ← ofHexChars rest
    pure (UInt8.ofNat (x * 16 + y) :: r)

/-- `-` denotes the empty byte string on the wire protocol (so that every field is non-empty). -/
def ofHex? (s : String) : Option Bytes :=
  if s == "-" then some [] else ofHexChars s.toList

def toHexField (bs : Bytes) : String :=
  if bs.isEmpty then "-" else toHex bs

/-- Split a protocol line into whitespace-separated fields. -/
def fields (line : String) : List String :=
  (line.split (fun c => c == ' ' || c == '\t' || c == '\n' || c == '\r')).toList.map (·.toString) |>.filter (· ≠ "")

end SSV
