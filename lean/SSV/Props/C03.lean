import SSV.Model.SaltPool
import SSV.Gen.C03
import SSV.Proofs.SaltPoolTs
import SSV.Proofs.SaltPool
import SSV.Proofs.SaltPoolInv
import SSV.Proofs.SaltPoolConc
import SSV.Proofs.SaltPoolLock
import SSV.Proofs.SaltPoolFallback
import SSV.Proofs.SaltPoolFast
/-
C03 — A TCP handshake is accepted at most once while its timestamp is acceptable.

Property theorems about the model `SSV.Model.SaltPool` instantiated with the constants regenerated from
/repo (`P`). Helper lemmas live in `SSV/Proofs/SaltPool*.lean`.

Reading guide
* `gen_*`               — the tie: what the translator read in the source is what the model runs.
* `gen_side_condition`  — `(2·MaxEpochDiff + 1)·10⁹ ≤ ReplayWindowDuration`, decided on the regenerated constants.
                          It is exactly what `no_double_accept` and `concurrent_one_winner` need, and
                          `replay_possible` shows that it is necessary: with any constants that violate it the
                          witness history of finding F2 is accepted twice.
* histories             — `run P st ops` (ops = `advance d | present r contended`) from an arbitrary state `st`;
                          a fresh request is a `present` of a request whose salt is not in the pool, a forged one
                          a `present` of a request with `forged = true`. The clock only moves forward (`d : Nat`).
* clock range           — `ClockOk P t` (`t.Unix() + MaxEpochDiff < 2^63`) at the instants at which a timestamp is
                          compared; outside it the `int64` subtraction of the code wraps (engine `ts` runs the real
                          function there and reports the counts).
-/
namespace SSV.C03
open SSV.SaltPool

/-- the model's parameters: the constants of the current source -/
def P : Params := { maxEpochDiff := SSV.Gen.C03.MaxEpochDiff, window := SSV.Gen.C03.ReplayWindowDuration }

/-! ## Tie to the source (Gen) -/

/-- `HandleStream` performs the property-relevant steps in the order the model runs them: `TryContains`
pre-check → prefix → identity header → AEAD open → one clock reading → header parse with that reading →
`Add` with the same reading → body. -/
theorem gen_handle_stages : SSV.Gen.C03.handleStages.map Stage.ofName = handleStages.map some := by decide

/-- the two guards of `HandleStream` on the salt pool, verbatim -/
theorem gen_salt_pool_guards : SSV.Gen.C03.saltPoolGuards =
    ["if s.saltPool.TryContains(extendedSalt) { err = ErrRepeatedSalt return }",
     "if !s.saltPool.Add(now, extendedSalt) { return req, ErrRepeatedSalt }"] := by decide

/-- The body of `SaltPool.Add` is `Lock; defer Unlock; prune; lookup→false; insert; return true`: it runs
entirely under the write lock (so it is one atomic action of the concurrent model) and computes `add`. -/
theorem gen_add_program :
    ∃ prog, SSV.Gen.C03.addProgram.map AddStep.ofName = prog.map some ∧ addBodyAtomic prog = true ∧
      ∀ (Q : Params) (now : Nat) (s : Salt) (p : Pool), execAdd Q now s prog p = some (add Q now s p) := by
  refine ⟨[.lock, .deferUnlock, .prune, .lookupReturnFalse, .insert, .returnTrue], by decide, by decide, ?_⟩
  intro Q now s p
  simp only [execAdd, add]
  cases contains (pruneExpired now p) s <;> simp

/-- **`Add` is atomic (linearizable).** Any number of callers run the body of `SaltPool.Add` *as the translator read
it* one statement at a time, in any interleaving (`sched` = which caller moves next; `Lock` blocks while `p.mu` is
held, `return` runs the deferred `Unlock`): the results returned are exactly those of running the atomic `add` once per
call in the order of the returns, and whenever the mutex is free the pool is the pool of that sequential run. This is
what lets `concurrent_one_winner` treat `Add` as one atomic action. (Go's `sync.RWMutex` giving mutual exclusion is the
semantics of `lock` in `microStep`; trusted.) -/
theorem add_is_atomic (p₀ : Pool) (calls : List ACall) (sched : List Nat) :
    ∃ prog, SSV.Gen.C03.addProgram.map AddStep.ofName = prog.map some ∧
      let s := mrun P prog (minit p₀ calls) sched
      (seqAdds P p₀ (s.hist.map (·.1))).2 = s.hist.map (·.2) ∧
      (s.holder = none → s.pool = (seqAdds P p₀ (s.hist.map (·.1))).1) :=
  ⟨canonAdd, by decide, add_linearizable P p₀ calls sched⟩

/-- source shapes the model mirrors statement by statement -/
theorem gen_src_pruneExpired : SSV.Gen.C03.srcPruneExpired =
    "{ node := p.head if node == nil || node.expiresAt.After(now) { return } for { delete(p.nodeBySalt, node.salt) node = node.next if node == nil { p.head = nil p.tail = nil return } if node.expiresAt.After(now) { p.head = node return } } }" := rfl
theorem gen_src_insert : SSV.Gen.C03.srcInsert =
    "{ if p.nodeBySalt == nil { p.nodeBySalt = make(map[[32]byte]*saltNode) } node := &saltNode{ salt: salt, expiresAt: now.Add(ReplayWindowDuration), } p.nodeBySalt[salt] = node if p.tail != nil { p.tail.next = node } else { p.head = node } p.tail = node }" := rfl
theorem gen_src_contains : SSV.Gen.C03.srcContains =
    "{ p.mu.RLock() _, ok := p.nodeBySalt[salt] p.mu.RUnlock() return ok }" := rfl
theorem gen_src_tryContains : SSV.Gen.C03.srcTryContains =
    "{ if p.mu.TryRLock() { _, ok := p.nodeBySalt[salt] p.mu.RUnlock() return ok } return false }" := rfl
theorem gen_src_validateTimestamp : SSV.Gen.C03.srcValidateTimestamp =
    "{ tsEpoch := int64(binary.BigEndian.Uint64(b)) nowEpoch := now.Unix() diff := tsEpoch - nowEpoch if diff < -MaxEpochDiff || diff > MaxEpochDiff { return &HeaderError[int64]{ErrBadTimestamp, nowEpoch, tsEpoch} } return nil }" := rfl

/-- the deferred fallback decision of `HandleStream`, verbatim: fall back iff `err != nil && n > 0 && fallback
configured` — this is `outcome` -/
theorem gen_src_handle_defer : SSV.Gen.C03.srcHandleDefer =
    "defer func() { if err != nil { if n > 0 && s.unsafeFallbackAddr.IsValid() { logger.Warn(\"Initiating fallback for unauthenticated connection\", zap.Error(err)) req = netio.ConnRequest{ PendingConn: netio.NopPendingConn(rawRW), Addr: s.unsafeFallbackAddr, Payload: readBuf[:n], } err = nil return } if tc, ok := rawRW.(*net.TCPConn); ok { s.rejectPolicy(tc, logger) } } }()" := rfl

/-- `n` is assigned exactly twice: by the first read, and `n = 0` (stage `commit`, right after `Add` succeeded —
see `gen_handle_stages` for its position) -/
theorem gen_handle_assigns_n : SSV.Gen.C03.handleAssignsN =
    ["n, err = s.readOnceOrFull(rawRW, readBuf)", "n = 0"] := by decide

/-- **UDP side of the same constant.** `NewUDPServer` advertises `ReplayWindowDuration` as the minimum NAT timeout
(a UDP session must outlive the validity span of the packets that created it, or an evicted session can be re-created
by a replay): written as that constant, and evaluating to the value the TCP side uses. -/
theorem gen_udp_min_nat_timeout :
    SSV.Gen.C03.udpMinNATTimeoutExpr = "ReplayWindowDuration" ∧ SSV.Gen.C03.udpMinNATTimeout = P.window :=
  ⟨rfl, rfl⟩

/-- … and the side condition holds for it as well: a change of the advertised minimum (or of the constant) that lets
UDP sessions be evicted inside the 61 s validity span re-opens this obligation. -/
theorem gen_udp_side_condition : (2 * P.maxEpochDiff + 1) * nsPerSec ≤ SSV.Gen.C03.udpMinNATTimeout := by decide

/-- the "30 seconds" of the statement -/
theorem gen_max_epoch_diff : P.maxEpochDiff = 30 := by decide

/-- **Side condition.** A timestamp validates during `2·MaxEpochDiff + 1` whole seconds of server time (both
comparisons are on `⌊now⌋`); salts must be retained at least that long. `pruneExpired` drops a node as soon as
`expiresAt ≤ now`, `expiresAt = t₁ + ReplayWindowDuration`, and two valid instants satisfy
`t₂ - t₁ ≤ (2·MaxEpochDiff + 1)·10⁹ - 1`, so the exact requirement is `≤` as stated (see `replay_possible`). -/
theorem gen_side_condition : (2 * P.maxEpochDiff + 1) * nsPerSec ≤ P.window := by decide

/-! ## Timestamp validation on 64-bit words -/

/-- `ValidateUnixEpochTimestamp` — `int64` cast of the header word, wrapping subtraction, two signed comparisons —
accepts exactly the words whose signed value is within `MaxEpochDiff` of `now.Unix()`, for every 64-bit word `ts` and
every `int64` clock value at least `MaxEpochDiff` away from the ends of `int64`. -/
theorem ts_valid_word_iff (ts ne : BitVec 64)
    (hlo : -(2 ^ 63 : Int) + P.maxEpochDiff ≤ ne.toInt) (hhi : ne.toInt + P.maxEpochDiff < 2 ^ 63) :
    tsValidWord P ts ne = true ↔ (ts.toInt - ne.toInt ≤ P.maxEpochDiff ∧ ne.toInt - ts.toInt ≤ P.maxEpochDiff) :=
  tsValidWord_iff P ts ne hlo hhi

/-- … and for *every* pair of 64-bit words, without any assumption on the clock: the accepted words are exactly
`ne + d` in wrapping `int64` arithmetic with `|d| ≤ MaxEpochDiff` (near the ends of `int64` this differs from the
integer distance, which is why the other statements carry `ClockOk`). -/
theorem ts_valid_word_wrap (ts ne : BitVec 64) :
    tsValidWord P ts ne = true ↔
      ∃ d : Int, -(P.maxEpochDiff : Int) ≤ d ∧ d ≤ P.maxEpochDiff ∧ ts = ne + BitVec.ofInt 64 d :=
  tsValidWord_iff_wrap P (by decide) ts ne

/-- the same for a clock reading `now ≥ 0` in nanoseconds: `|ts − ⌊now / 10⁹⌋| ≤ MaxEpochDiff` -/
theorem ts_valid_iff (ts : BitVec 64) (now : Nat) (h : ClockOk P now) :
    tsValid P ts now = true ↔
      (ts.toInt - (unixSec now : Int) ≤ P.maxEpochDiff ∧ (unixSec now : Int) - ts.toInt ≤ P.maxEpochDiff) :=
  tsValid_iff P ts now h

/-! ## Histories -/

/-- **At most once.** Whatever happened before (`st`, `ops₁`), if request `r` is accepted at `t₁` and bytes with
the same salt and timestamp are presented at any later instant `t₂` of any continuation `ops₂` (other requests,
forged traffic, clock advances, any `TryContains` outcomes) at which the timestamp still validates, they are
not accepted. -/
theorem no_double_accept (st : State) (ops₁ ops₂ : List Op) (r r₂ : Request) (c₁ c₂ : Bool)
    (hsame : r₂.salt = r.salt ∧ r₂.ts = r.ts) :
    let s₁ := run P st ops₁
    (handle P c₁ s₁.now r s₁.pool).2 = .accepted →
    let s₂ := run P (step P s₁ (.present r c₁)).1 ops₂
    ClockOk P s₁.now → ClockOk P s₂.now →
    tsValid P r₂.ts s₂.now = true →
    (handle P c₂ s₂.now r₂ s₂.pool).2 ≠ .accepted := by
  intro s₁ hacc s₂ hc1 hc2 hv2
  obtain ⟨_, _, _, _, _, _, hv1, hadd, _, hpool⟩ := handle_accepted hacc
  -- the node inserted at t₁
  let n : Node := { salt := r.salt, expiresAt := s₁.now + P.window }
  have hn : n ∈ (step P s₁ (.present r c₁)).1.pool := by
    show n ∈ (handle P c₁ s₁.now r s₁.pool).1
    rw [hpool]; exact add_true_mem hadd
  have hlive : Live n s₂ := live_run ops₂ (Or.inl hn)
  have hle : s₁.now ≤ s₂.now := Nat.le_trans (step_now_le P s₁ _) (run_now_le P _ ops₂)
  rw [hsame.2] at hv2
  have hspan := valid_span P r.ts s₁.now s₂.now hc1 hc2 hv1 hv2
  have hside := gen_side_condition
  have hlt : s₂.now < n.expiresAt := by show s₂.now < s₁.now + P.window; omega
  rcases hlive with hmem | hexp
  · exact handle_not_accepted_of_live hmem hsame.1.symm hlt
  · omega

/-- **Only within 30 s.** An accepted request carries a timestamp within `MaxEpochDiff` (= 30, `gen_max_epoch_diff`)
seconds of the server clock, authenticates, and its salt was not in the pool. -/
theorem only_within_30s (c : Bool) (now : Nat) (r : Request) (pool : Pool) (hc : ClockOk P now)
    (h : (handle P c now r pool).2 = .accepted) :
    -30 ≤ r.ts.toInt - (unixSec now : Int) ∧ r.ts.toInt - (unixSec now : Int) ≤ 30 ∧ r.forged = false := by
  obtain ⟨h1, _, h3, h4, h5, _, hv, _, _, _⟩ := handle_accepted h
  have := (ts_valid_iff r.ts now hc).mp hv
  have hM := gen_max_epoch_diff
  refine ⟨by omega, by omega, by simp [Request.forged, h1, h3, h4, h5]⟩

/-- **Failed attempts leave nothing behind.** A presentation that does not authenticate (truncated, wrong prefix,
unknown user, AEAD failure), or that authenticates but has the wrong type or an invalid timestamp, or that is
refused by the `TryContains` pre-check, leaves the pool exactly as it was and is not accepted. -/
theorem failed_is_noop (c : Bool) (now : Nat) (r : Request) (pool : Pool)
    (h : r.forged = true ∨ tryContains c pool r.salt = true ∨ r.typeOk = false ∨ tsValid P r.ts now = false) :
    (handle P c now r pool).1 = pool ∧ (handle P c now r pool).2 ≠ .accepted := by
  rcases handle_cases P c now r pool with ⟨hp, hna, _, _⟩ | ⟨h1, h2, h3, h4, h5, h6, h7, _, _⟩
  · exact ⟨hp, hna⟩
  · exfalso
    rcases h with h | h | h | h
    · simp [Request.forged, h1, h3, h4, h5] at h
    · rw [h2] at h; cases h
    · rw [h6] at h; cases h
    · rw [h7] at h; cases h

/-- **Unauthenticated presentations never change later verdicts**: deleting every forged presentation from a
history changes neither the final state nor the (time, request, verdict) log of the remaining presentations. -/
theorem forged_invisible (st : State) (ops : List Op) :
    run P st (ops.filter (fun o => !o.isForged)) = run P st ops ∧
    runLog P st (ops.filter (fun o => !o.isForged)) = (runLog P st ops).filter (fun e => !e.req.forged) :=
  ⟨run_filter_forged P st ops, runLog_filter_forged P st ops⟩

/-- **A genuine request whose salt is not in the pool is accepted** whenever its timestamp validates — whatever
happened before, in particular whatever forged bytes carrying the same salt were presented. -/
theorem fresh_never_refused (c : Bool) (now : Nat) (salt : Salt) (ts : BitVec 64) (pool : Pool)
    (hfresh : contains pool salt = false) (hv : tsValid P ts now = true) :
    (handle P c now (genuine salt ts) pool).2 = .accepted := by
  have hadd : (add P now salt pool).2 = true := add_true_of_absent hfresh
  have htc : tryContains c pool salt = false := by unfold tryContains; cases c <;> simp [hfresh]
  rw [handle_eq]
  simp [genuine, htc, hv, hadd]

/-! ## Servers with a fallback address (`UnsafeFallbackAddr`)

`handleStream P fb gotBytes …` = `handle` followed by the deferred decision (`gen_src_handle_defer`): an error becomes a
fallback request iff `fb` (a fallback address is configured) and `gotBytes` (`n > 0`), except after `commit`.
The pool evolves exactly as without a fallback (`handleStream_fst`), so every history theorem above applies verbatim.
-/

/-- a genuine client request is returned iff the accept logic accepted — the fallback never turns anything into an
acceptance, and never hides one -/
theorem fallback_accepts_same (fb g c : Bool) (now : Nat) (r : Request) (pool : Pool) :
    (handleStream P fb g c now r pool).2 = .accepted ↔ (handle P c now r pool).2 = .accepted := by
  rw [handleStream_snd]; exact outcome_accepted_iff fb g _

/-- **No double accept through the fallback path**, for every server configuration `fb` and every `n`: the statement of
`no_double_accept` for the outcome of `HandleStream` including its deferred function. -/
theorem no_double_accept_fallback (fb g₁ g₂ : Bool) (st : State) (ops₁ ops₂ : List Op) (r r₂ : Request) (c₁ c₂ : Bool)
    (hsame : r₂.salt = r.salt ∧ r₂.ts = r.ts) :
    let s₁ := run P st ops₁
    (handleStream P fb g₁ c₁ s₁.now r s₁.pool).2 = .accepted →
    let s₂ := run P (step P s₁ (.present r c₁)).1 ops₂
    ClockOk P s₁.now → ClockOk P s₂.now →
    tsValid P r₂.ts s₂.now = true →
    (handleStream P fb g₂ c₂ s₂.now r₂ s₂.pool).2 ≠ .accepted := by
  intro s₁ hacc s₂ hc1 hc2 hv2 h
  exact no_double_accept st ops₁ ops₂ r r₂ c₁ c₂ hsame ((fallback_accepts_same ..).mp hacc) hc1 hc2 hv2
    ((fallback_accepts_same ..).mp h)

/-- **A replayed genuine request on a fallback server is handed to the fallback**, as a repeated salt, whichever of
the two salt checks catches it (`TryContains` or, under contention, `Add`), and it adds nothing to the pool. -/
theorem replay_goes_to_fallback (st : State) (ops₁ ops₂ : List Op) (r : Request) (c₁ c₂ : Bool) (hg : Good r) :
    let s₁ := run P st ops₁
    (handleStream P true true c₁ s₁.now r s₁.pool).2 = .accepted →
    let s₂ := run P (step P s₁ (.present r c₁)).1 ops₂
    ClockOk P s₁.now → ClockOk P s₂.now →
    tsValid P r.ts s₂.now = true →
    (handleStream P true true c₂ s₂.now r s₂.pool).2 = .fallback .repeatedSalt ∧
    ((handleStream P true true c₂ s₂.now r s₂.pool).1 = s₂.pool ∨
     (handleStream P true true c₂ s₂.now r s₂.pool).1 = pruneExpired s₂.now s₂.pool) := by
  intro s₁ hacc s₂ hc1 hc2 hv2
  have hacc' := (fallback_accepts_same ..).mp hacc
  obtain ⟨_, _, _, _, _, _, hv1, hadd, _, hpool⟩ := handle_accepted hacc'
  let n : Node := { salt := r.salt, expiresAt := s₁.now + P.window }
  have hn : n ∈ (step P s₁ (.present r c₁)).1.pool := by
    show n ∈ (handle P c₁ s₁.now r s₁.pool).1
    rw [hpool]; exact add_true_mem hadd
  have hlive : Live n s₂ := live_run ops₂ (Or.inl hn)
  have hspan := valid_span P r.ts s₁.now s₂.now hc1 hc2 hv1 hv2
  have hside := gen_side_condition
  have hlt : s₂.now < n.expiresAt := by show s₂.now < s₁.now + P.window; omega
  have hmem : n ∈ s₂.pool := by
    rcases hlive with h | h
    · exact h
    · omega
  obtain ⟨hrep, hp⟩ := handle_repeated_of_live (P := P) (c := c₂) hg hv2 hmem rfl hlt
  refine ⟨?_, hp⟩
  rw [handleStream_snd, hrep]; rfl

/-- **`failed_is_noop` for the fallback outcome.** Whatever is handed to the fallback left no node behind: the pool is
exactly as before, or — only when the refusal came from `Add` (a replay whose `TryContains` pre-check was skipped) —
it was pruned of expired nodes and nothing else. Unauthenticated bytes in particular (`r.forged`) change nothing. -/
theorem failed_is_noop_fallback (g c : Bool) (now : Nat) (r : Request) (pool : Pool) (v : Verdict)
    (h : (handleStream P true g c now r pool).2 = .fallback v) :
    ((handleStream P true g c now r pool).1 = pool ∨
      ((handleStream P true g c now r pool).1 = pruneExpired now pool ∧ v = .repeatedSalt)) ∧
    (∀ n ∈ (handleStream P true g c now r pool).1, n ∈ pool) ∧
    (r.forged = true → (handleStream P true g c now r pool).1 = pool) := by
  rw [handleStream_snd] at h
  obtain ⟨hvw, _, _, hna, hnl⟩ := outcome_fallback h
  rw [handleStream_fst]
  have hcases := handle_refused_pool hna hnl
  refine ⟨?_, ?_, fun hf => (failed_is_noop c now r pool (Or.inl hf)).1⟩
  · rcases hcases with hp | ⟨hp, hr⟩
    · exact Or.inl hp
    · exact Or.inr ⟨hp, by rw [← hvw, hr]⟩
  · intro n hn
    rcases hcases with hp | ⟨hp, _⟩
    · rw [hp] at hn; exact hn
    · rw [hp] at hn; exact mem_of_mem_prune hn

/-- without a fallback address, or when the first read delivered nothing, every refusal is an error -/
theorem no_fallback_without_config (fb g c : Bool) (now : Nat) (r : Request) (pool : Pool) (v : Verdict)
    (h : (handleStream P fb g c now r pool).2 = .fallback v) : fb = true ∧ g = true := by
  rw [handleStream_snd] at h
  exact ⟨(outcome_fallback h).2.1, (outcome_fallback h).2.2.1⟩

/-- **Expiry order = insertion order.** From a well-formed state (e.g. the empty pool) every history on the
monotone clock keeps the list sorted by expiry, every expiry at most one window ahead, and salts distinct; hence
pruning the expired *prefix* removes every expired node. -/
theorem pool_sorted (st : State) (ops : List Op) (h : WF P st) :
    WF P (run P st ops) ∧ ∀ now, ∀ n ∈ pruneExpired now (run P st ops).pool, now < n.expiresAt :=
  ⟨wf_run ops h, fun _ => prune_complete (wf_run ops h).sorted⟩

/-- **Only expiry removes a salt.** Whatever traffic follows — any number of other accepted requests, forged bytes,
clock advances — a node that is in the pool stays there until the clock reaches its expiry. (This is what any capacity
bound or eviction policy other than expiry would break; `Add`'s step program `gen_add_program` pins that its body
removes nothing except through `pruneExpired`.) -/
theorem retained_until_expiry (st : State) (ops : List Op) (n : Node) (h : n ∈ st.pool)
    (hl : (run P st ops).now < n.expiresAt) : n ∈ (run P st ops).pool := by
  rcases live_run (P := P) ops (Or.inl h) with h | h
  · exact h
  · omega

/-- `N` distinct fresh genuine requests presented at one instant -/
def flood (N : Nat) : List Op := (List.range N).map (fun i => Op.present (genuine i 0#64) false)

/-- **The pool is unbounded, by design.** `N` distinct genuine requests accepted within one validity span leave `N`
nodes in the pool, for every `N`: memory grows with the handshake rate × `ReplayWindowDuration`; the property
("whatever other traffic arrives in between") leaves no room for a size cap that forgets unexpired salts. -/
theorem pool_unbounded (N : Nat) : (run P { now := 0, pool := [] } (flood N)).pool.length = N := by
  suffices h : ∀ N, (run P { now := 0, pool := [] } (flood N)).now = 0 ∧
      (run P { now := 0, pool := [] } (flood N)).pool.length = N ∧
      ∀ n ∈ (run P { now := 0, pool := [] } (flood N)).pool, n.salt < N ∧ n.expiresAt = P.window from (h N).2.1
  intro N
  induction N with
  | zero => simp [flood, run]
  | succ k ih =>
    obtain ⟨hnow, hlen, hall⟩ := ih
    have hfl : flood (k + 1) = flood k ++ [Op.present (genuine k 0#64) false] := by
      simp [flood, List.range_succ]
    rw [hfl, run_append]
    generalize run P { now := 0, pool := [] } (flood k) = st at hnow hlen hall
    have hW : 0 < P.window := by decide
    have hprune : pruneExpired 0 st.pool = st.pool := by
      cases hp : st.pool with
      | nil => rfl
      | cons m rest =>
        have := (hall m (by rw [hp]; simp)).2
        show (if m.expiresAt > 0 then m :: rest else pruneExpired 0 rest) = m :: rest
        have hpos : m.expiresAt > 0 := by omega
        rw [if_pos hpos]
    have hnc : contains st.pool k = false := by
      cases hc : contains st.pool k
      · rfl
      · obtain ⟨m, hm, hs⟩ := (contains_iff _ _).mp hc
        exact absurd hs (Nat.ne_of_lt (hall m hm).1)
    have hv : tsValid P 0#64 0 = true := by decide
    have hadd : add P 0 k st.pool = (st.pool ++ [{ salt := k, expiresAt := 0 + P.window }], true) := by
      simp [add, hprune, hnc, SaltPool.insert]
    have hh : handle P false 0 (genuine k 0#64) st.pool = (st.pool ++ [{ salt := k, expiresAt := 0 + P.window }], .accepted) := by
      rw [handle_eq]; simp [genuine, tryContains, hnc, hv, hadd]
    simp only [run, step, hnow, hh]
    refine ⟨?_, ?_, ?_⟩
    · trivial
    · simp [hlen]
    intro n hn
    rcases List.mem_append.mp hn with hn | hn
    · exact ⟨Nat.lt_succ_of_lt (hall n hn).1, (hall n hn).2⟩
    · rw [List.mem_singleton.mp hn]; exact ⟨Nat.lt_succ_self k, Nat.zero_add _⟩

/-- **Salts in the pool stay distinct** under `Add` with any instants (also the non-monotone ones of concurrent
callers) and under any presentation — the code's map `nodeBySalt` and its linked list never disagree. -/
theorem salts_stay_distinct (now : Nat) (s : Salt) (c : Bool) (r : Request) (p : Pool) (h : SaltsNodup p) :
    SaltsNodup (add P now s p).1 ∧ SaltsNodup (handle P c now r p).1 := by
  refine ⟨nodup_add P now s p h, ?_⟩
  rcases handle_pool P c now r p with hp | ⟨_, _, _, hp⟩ <;> rw [hp]
  · exact h
  · exact nodup_add P now r.salt p h

/-- **The fast executable pool computes the list model.** The driver runs long floods (2^16-class and larger) on a
front/back list + hash set representation (the shape of the Go code: linked list + map); for every pool with distinct
salts and every batch of `Add` calls it yields exactly the list model's final pool and number of `true` answers. -/
theorem fast_pool_refines (p : Pool) (cs : List ACall) (hnd : SaltsNodup p) :
    (fcountAdds P (FPool.ofPool p) cs).1.toPool = (countAdds P p cs).1 ∧
    (fcountAdds P (FPool.ofPool p) cs).2 = (countAdds P p cs).2 :=
  fcountAdds_refines P p cs hnd

/-! ## k concurrent presentations of one request -/

/-- **One winner.** `k` threads run `HandleStream` on the same bytes `r` against one pool `p₀`; `sched` is any
interleaving of their atomic actions (`check i c`: the `TryContains` read, possibly skipped; `add i now`: clock
reading, parse, `Add`, body — `Add` is atomic by `add_is_atomic`), each thread reading its own clock, in any order.
(1) Never are two copies accepted. (2) If `r` is genuine, its salt is not in `p₀`, every clock reading validates the
timestamp and every thread finished, then exactly one copy is accepted and every other one gets `ErrRepeatedSalt`. -/
theorem concurrent_one_winner (r : Request) (p₀ : Pool) (k : Nat) (sched : List Act)
    (hclk : ∀ a ∈ sched, ∀ i now, a = .add i now → ClockOk P now) :
    let fin := crun P r { pool := p₀, threads := List.replicate k .idle } sched
    countAccepted fin.threads ≤ 1 ∧
    (Good r → contains p₀ r.salt = false → 0 < k →
      (∀ a ∈ sched, ∀ i now, a = .add i now → tsValid P r.ts now = true) → allDone fin.threads = true →
      countAccepted fin.threads = 1 ∧ ∀ t ∈ fin.threads, t = .done .accepted ∨ t = .done .repeatedSalt) := by
  intro fin
  have hzero : countAccepted (List.replicate k TState.idle) = 0 :=
    countAccepted_zero_of_not_acc (fun t ht => by rw [(List.mem_replicate.mp ht).2]; rfl)
  constructor
  · have := atMost_run (P := P) (r := r) sched (s := { pool := p₀, threads := List.replicate k .idle })
      gen_side_condition hclk (Or.inl hzero)
    rcases this with h | ⟨h, _⟩
    · show countAccepted (crun P r _ sched).threads ≤ 1; omega
    · show countAccepted (crun P r _ sched).threads ≤ 1; omega
  · intro hg hfresh hk hvalid hdone
    have hinv := exact_run (P := P) (r := r) sched (s := { pool := p₀, threads := List.replicate k .idle })
      gen_side_condition hg (fun a ha i now e => ⟨hvalid a ha i now e, hclk a ha i now e⟩)
      (Or.inl ⟨hfresh, fun t ht => Or.inl (List.mem_replicate.mp ht).2⟩)
    have hlen : fin.threads.length = k := by
      show (crun P r _ sched).threads.length = k
      rw [crun_length]; simp
    rcases hinv with ⟨_, hall⟩ | ⟨h1, _, hall⟩
    · -- impossible: all threads are done, yet none may be
      exfalso
      cases hth : fin.threads with
      | nil => rw [hth] at hlen; simp at hlen; omega
      | cons t ts =>
        have ht : t ∈ fin.threads := by rw [hth]; simp
        obtain ⟨v, hv⟩ := allDone_mem hdone t ht
        rcases hall t ht with h | h <;> rw [hv] at h <;> cases h
    · refine ⟨h1, fun t ht => ?_⟩
      obtain ⟨v, hv⟩ := allDone_mem hdone t ht
      rcases hall t ht with h | h | h | h
      · rw [hv] at h; cases h
      · rw [hv] at h; cases h
      · exact Or.inl h
      · exact Or.inr h

/-! ## Finding F2: what goes wrong when the side condition fails -/

/-- **The side condition is necessary** (finding F2). For *any* constants with
`ReplayWindowDuration < (2·MaxEpochDiff + 1)·10⁹` the following history double-accepts, starting from the empty
pool at instant 0: a client whose clock is `MaxEpochDiff` seconds ahead sends `r` (timestamp `MaxEpochDiff`), accepted
at `t₁ = 0`; the clock advances by `ReplayWindowDuration`; any fresh request `r'` is accepted (its `Add` prunes the
salt of `r`, whose expiry `t₁ + ReplayWindowDuration ≤ now`); `r` is presented again: `TryContains` finds nothing,
the timestamp still validates (`⌊now⌋ ≤ 2·MaxEpochDiff` seconds), `Add` inserts — accepted a second time.
With the pinned constants before the fix (30 s, 60 s) this is `replay_possible_before_fix`. -/
theorem replay_possible (Q : Params) (hbad : Q.window < (2 * Q.maxEpochDiff + 1) * nsPerSec)
    (hM : 3 * Q.maxEpochDiff < 2 ^ 63) :
    ∃ (r : Request) (ops₁ ops₂ : List Op),
      let s₁ := run Q { now := 0, pool := [] } ops₁
      (handle Q false s₁.now r s₁.pool).2 = .accepted ∧
      let s₂ := run Q (step Q s₁ (.present r false)).1 ops₂
      ClockOk Q s₁.now ∧ ClockOk Q s₂.now ∧ tsValid Q r.ts s₂.now = true ∧
      (handle Q false s₂.now r s₂.pool).2 = .accepted := by
  let r := genuine 1 (BitVec.ofNat 64 Q.maxEpochDiff)
  let r' := genuine 2 (BitVec.ofNat 64 (unixSec Q.window))
  have hW : unixSec Q.window ≤ 2 * Q.maxEpochDiff := by
    simp only [unixSec, nsPerSec] at *; omega
  have hc0 : ClockOk Q 0 := by simp only [ClockOk, unixSec, nsPerSec]; omega
  have hcW : ClockOk Q Q.window := by simp only [ClockOk]; omega
  have hts : (BitVec.ofNat 64 Q.maxEpochDiff).toInt = (Q.maxEpochDiff : Int) := toInt_ofNat_small _ (by omega)
  have hts' : (BitVec.ofNat 64 (unixSec Q.window)).toInt = (unixSec Q.window : Int) := toInt_ofNat_small _ (by omega)
  have hv0 : tsValid Q r.ts 0 = true := by
    rw [tsValid_iff Q _ 0 hc0]; show _ ∧ _; simp only [r, genuine, hts, unixSec, nsPerSec]; omega
  have hvW : tsValid Q r.ts Q.window = true := by
    rw [tsValid_iff Q _ _ hcW]; show _ ∧ _; simp only [r, genuine, hts]; omega
  have hvW' : tsValid Q r'.ts Q.window = true := by
    rw [tsValid_iff Q _ _ hcW]; show _ ∧ _; simp only [r', genuine, hts']; omega
  -- the three pools
  have hp1 : (handle Q false 0 r []).1 = [{ salt := 1, expiresAt := 0 + Q.window }] := by
    have hv0' : tsValid Q (BitVec.ofNat 64 Q.maxEpochDiff) 0 = true := hv0
    rw [handle_eq]; simp [hv0', tryContains, contains, add, pruneExpired, SaltPool.insert, r, genuine]
  have ha1 : (handle Q false 0 r []).2 = .accepted := fresh_pool_accept Q hv0 (by rfl)
  have hp2 : (handle Q false Q.window r' [{ salt := 1, expiresAt := 0 + Q.window }]).1
      = [{ salt := 2, expiresAt := Q.window + Q.window }] := by
    have hvW'' : tsValid Q (BitVec.ofNat 64 (unixSec Q.window)) Q.window = true := hvW'
    rw [handle_eq]; simp [hvW'', tryContains, contains, add, pruneExpired, SaltPool.insert, r', genuine]
  refine ⟨r, [], [.advance Q.window, .present r' false], ?_⟩
  simp only [run, step]
  refine ⟨ha1, hc0, ?_, ?_, ?_⟩
  · simpa using hcW
  · simpa using hvW
  · simp only [Nat.zero_add, hp1]
    rw [show (0 + Q.window) = Q.window from Nat.zero_add _] at hp2
    rw [hp2]
    exact fresh_pool_accept Q hvW (by simp [contains])
where
  fresh_pool_accept (Q : Params) {now : Nat} {pool : Pool} {s : Salt} {ts : BitVec 64}
      (hv : tsValid Q (genuine s ts).ts now = true) (hfresh : contains pool s = false) :
      (handle Q false now (genuine s ts) pool).2 = .accepted := by
    have hadd : (add Q now s pool).2 = true := add_true_of_absent hfresh
    rw [handle_eq]
    simp [genuine, tryContains, hfresh, hadd] at hv ⊢
    simp [hv]

/-- finding F2 on the constants of the pinned tree before the fix (`MaxEpochDiff = 30`, `ReplayWindowDuration = 60 s`) -/
theorem replay_possible_before_fix :
    ∃ (r : Request) (ops₁ ops₂ : List Op),
      let Q : Params := { maxEpochDiff := 30, window := 60000000000 }
      let s₁ := run Q { now := 0, pool := [] } ops₁
      (handle Q false s₁.now r s₁.pool).2 = .accepted ∧
      let s₂ := run Q (step Q s₁ (.present r false)).1 ops₂
      ClockOk Q s₁.now ∧ ClockOk Q s₂.now ∧ tsValid Q r.ts s₂.now = true ∧
      (handle Q false s₂.now r s₂.pool).2 = .accepted :=
  replay_possible { maxEpochDiff := 30, window := 60000000000 } (by decide) (by decide)

/-! ## The hypotheses are satisfiable (non-vacuity) -/

/-- 2000-01-01T00:00:00.5Z, the instant used below -/
def t₀ : Nat := 946684800500000000

example : ClockOk P t₀ := by decide
/-- `no_double_accept`: a request with client clock +30 s accepted at `t₀`, still valid 60.1 s later -/
example : (handle P false t₀ (genuine 1 946684830#64) []).2 = .accepted ∧ ClockOk P (t₀ + 60100000000) ∧
    tsValid P 946684830#64 (t₀ + 60100000000) = true := by decide
/-- `only_within_30s` / `fresh_never_refused` -/
example : (handle P true t₀ (genuine 7 946684770#64) [{ salt := 3, expiresAt := t₀ + 5 }]).2 = .accepted := by decide
/-- `failed_is_noop`: a forged copy carrying a pooled salt, `TryContains` contended -/
example : ({ genuine 3 946684800#64 with authOk := false } : Request).forged = true := by decide
/-- `ts_valid_word_iff`: clock range non-empty, and both outcomes occur -/
example : tsValidWord P 946684830#64 946684800#64 = true ∧ tsValidWord P 946684831#64 946684800#64 = false ∧
    tsValidWord P (946684800#64 + 0x8000000000000000#64) 946684800#64 = false := by decide
/-- `add_is_atomic`: two callers with the same salt, interleaved statement by statement (the second blocks on `Lock`) -/
example :
    let s := mrun P canonAdd (minit [] [{ now := 5, salt := 1 }, { now := 7, salt := 1 }]) [0, 1, 0, 1, 0, 0, 1, 0, 0, 1, 1, 1, 1, 1]
    s.hist = [({ now := 5, salt := 1 }, true), ({ now := 7, salt := 1 }, false)] ∧ s.holder = none := by decide
/-- `retained_until_expiry`: hypotheses satisfiable after a flood of 3 other requests -/
example : ({ salt := 0, expiresAt := P.window } : Node) ∈ (run P { now := 0, pool := [] } (flood 1)).pool ∧
    (run P (run P { now := 0, pool := [] } (flood 1)) (flood 4)).now < P.window := by decide
/-- `replay_goes_to_fallback` / `failed_is_noop_fallback`: on a fallback server the first presentation is accepted, the
replay (pre-check contended) goes to the fallback, a forged copy goes to the fallback, an empty read is an error -/
example :
    let r := genuine 1 946684830#64
    let p₁ := (handleStream P true true false t₀ r []).1
    (handleStream P true true false t₀ r []).2 = .accepted ∧
    (handleStream P true true true (t₀ + 60100000000) r p₁).2 = .fallback .repeatedSalt ∧
    (handleStream P true true false t₀ { r with authOk := false } p₁).2 = .fallback .repeatedSalt ∧
    (handleStream P true true false t₀ { r with salt := 2, authOk := false } p₁).2 = .fallback .authFail ∧
    (handleStream P true false false t₀ { r with complete := false } p₁).2 = .error .shortRead := by decide
/-- `fast_pool_refines` / `salts_stay_distinct`: the empty pool has distinct salts -/
example : SaltsNodup ([] : Pool) := by simp [SaltsNodup]
/-- `pool_sorted`: the empty pool is well-formed -/
example : WF P { now := t₀, pool := [] } := wf_empty P t₀
/-- `concurrent_one_winner`: two threads, the second one's `TryContains` contended, clocks out of order -/
example :
    let fin := crun P (genuine 1 946684830#64) { pool := [], threads := List.replicate 2 .idle }
      [.check 0 false, .check 1 true, .add 1 (t₀ + 7), .add 0 t₀]
    allDone fin.threads = true ∧ fin.threads = [.done .repeatedSalt, .done .accepted] := by decide

end SSV.C03

#print axioms SSV.C03.gen_handle_stages
#print axioms SSV.C03.gen_salt_pool_guards
#print axioms SSV.C03.gen_add_program
#print axioms SSV.C03.add_is_atomic
#print axioms SSV.C03.gen_src_pruneExpired
#print axioms SSV.C03.gen_src_insert
#print axioms SSV.C03.gen_src_contains
#print axioms SSV.C03.gen_src_tryContains
#print axioms SSV.C03.gen_src_validateTimestamp
#print axioms SSV.C03.gen_src_handle_defer
#print axioms SSV.C03.gen_handle_assigns_n
#print axioms SSV.C03.gen_udp_min_nat_timeout
#print axioms SSV.C03.gen_udp_side_condition
#print axioms SSV.C03.gen_max_epoch_diff
#print axioms SSV.C03.gen_side_condition
#print axioms SSV.C03.ts_valid_word_iff
#print axioms SSV.C03.ts_valid_word_wrap
#print axioms SSV.C03.ts_valid_iff
#print axioms SSV.C03.no_double_accept
#print axioms SSV.C03.only_within_30s
#print axioms SSV.C03.failed_is_noop
#print axioms SSV.C03.forged_invisible
#print axioms SSV.C03.fresh_never_refused
#print axioms SSV.C03.fallback_accepts_same
#print axioms SSV.C03.no_double_accept_fallback
#print axioms SSV.C03.replay_goes_to_fallback
#print axioms SSV.C03.failed_is_noop_fallback
#print axioms SSV.C03.no_fallback_without_config
#print axioms SSV.C03.pool_sorted
#print axioms SSV.C03.retained_until_expiry
#print axioms SSV.C03.pool_unbounded
#print axioms SSV.C03.salts_stay_distinct
#print axioms SSV.C03.fast_pool_refines
#print axioms SSV.C03.concurrent_one_winner
#print axioms SSV.C03.replay_possible
#print axioms SSV.C03.replay_possible_before_fix
