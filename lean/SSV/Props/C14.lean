import SSV.Model.Stats
/-
C14 — property theorems (first cut; extended below as the proofs land).
-/
namespace SSV.C14
open SSV.Stats SSV.Gen.C14

/-- `GET /servers/{s}/users/{u}` shows the entry of `u` in the snapshot (zero figures when `u` has no entry),
not the server totals. False of the pinned tree (finding F10), true after proposed_fixes/F10.diff. -/
theorem api_user_projection (r : Result) (u : String) : projectUser r u = lookupUser r.users u := by
  simp [projectUser, getUserProjection]

end SSV.C14

#print axioms SSV.C14.api_user_projection
