import SSV.Proofs.StatsSeq
import SSV.Proofs.StatsFuel
import SSV.Proofs.StatsLock
import SSV.Proofs.StatsRefine
/-
C14 — Traffic statistics neither lose nor invent traffic and charge the right user.

Setting (SSV.Model.Stats): a configuration is the shared collector state plus a pool of threads, one per
call of the `stats.Collector` interface (`Op`): Collect* calls execute the regenerated programs
`Gen.collectTCPSession` …, Snapshot / SnapshotAndReset execute `Gen.snapshot` / `Gen.snapshotAndReset` on
the anonymous collector and then, under the read lock, on every user collector. `Step` lets any thread
execute its next atomic operation; `Reach (initCfg ops) cfg` therefore ranges over every interleaving of
every pool `ops` (any number of calls, users, snapshots), including unfinished ones.
Counters are `uint64`: all sums are stated modulo `M = 2^64`, together with `≤`, which makes them exact
whenever the recorded total itself fits in 64 bits.
-/
namespace SSV.C14
open SSV.Stats SSV.Gen.C14

/-- The regenerated programs have the shape the invariants need: Collect* bodies are atomic adds only,
`snapshotAndReset` is one `Swap(0)` per counter stored under the counter's own name, `snapshot` only loads,
`Traffic.Add` adds field by field, Snapshot/SnapshotAndReset have the aggregation shape of `parseAgg`. -/
theorem gen_ok : GenOK ∧ parseAgg SnapshotAndReset = some ⟨.snapshotAndReset, .snapshotAndReset⟩ ∧
    parseAgg Snapshot = some ⟨.snapshot, .snapshot⟩ ∧
    -- serverCollector.userCollector: look-up under the read lock; if absent: write lock, look-up AGAIN,
    -- create and store only if still absent, unlock. This is what makes "create if absent" one atomic
    -- step (`CStage.create`) that never replaces an existing collector.
    userCollector = [.rlock, .lookup, .runlock, .skipIfSet 6, .lock, .lookup, .skipIfSet 2, .create, .store, .unlock, .ret] :=
  ⟨genOK, shape_reset, shape_plain, by decide⟩

/-- One Collect* call is worth exactly what the `stats.Collector` documentation says, counter by counter:
the sum of the arguments of its atomic adds on counter `f` is `specDelta` (no crossed up/down fields or
arguments anywhere between the public method and the atomic add). -/
theorem collect_effect (c : Call) (x0 x1 : Nat) (f : Field) :
    pendPc f (collectPc c x0 x1) = specDelta c x0 x1 f :=
  collect_adds_spec c x0 x1 f

/-- **Conservation under every interleaving.** At every point of every interleaving of any pool of calls,
for every collector `t` (anonymous or a user) and every counter `f`:
  (values handed out so far by resetting snapshots) + (current value of the counter) + (adds of started or
  not yet started Collect* calls still to be applied)  =  everything the pool records for `(t, f)`
modulo 2^64, and exactly when that total is below 2^64. Nothing is dropped, nothing is counted twice,
whatever the schedule; in particular a `Swap(0)` racing with an `Add` loses nothing. -/
theorem conservation (ops : List Op) (cfg : Config) (hr : Reach (initCfg ops) cfg) (t : Target) (f : Field) :
    (sumOver (Thread.got t f) cfg.threads + (cfg.sh.ctr t).get f + sumOver (Thread.pend t f) cfg.threads) % M
        = recorded t f ops % M ∧
    sumOver (Thread.got t f) cfg.threads + (cfg.sh.ctr t).get f + sumOver (Thread.pend t f) cfg.threads
        ≤ recorded t f ops ∧
    (recorded t f ops < M →
      sumOver (Thread.got t f) cfg.threads + (cfg.sh.ctr t).get f + sumOver (Thread.pend t f) cfg.threads
        = recorded t f ops) := by
  have h := (reach_ok hr (initCfg_WF ops)).2 t f
  rw [mass_init] at h
  simp only [mass] at h
  refine ⟨h.1, h.2, fun hlt => ?_⟩
  have h1 := h.1
  have h2 := h.2
  simp only [M] at h1 hlt
  omega

example : Reach (initCfg [.collect .tcp "alice" 10 20, .snapshot true]) (initCfg [.collect .tcp "alice" 10 20, .snapshot true]) :=
  Reach.refl _

/-- **Conservation at quiescence.** When every call of the pool has returned — after ANY interleaving —
the figures returned by all SnapshotAndReset calls for `(t, f)`, summed, plus the value still in the counter
(which is what a final Snapshot reads, see `final_snapshot_reads_counters`) equal everything recorded for
`(t, f)`: per user, for the anonymous user, and hence for the totals. -/
theorem conservation_quiescent (ops : List Op) (cfg : Config) (hr : Reach (initCfg ops) cfg)
    (hfin : ∀ th ∈ cfg.threads, th.finished) (t : Target) (f : Field) :
    (sumOver (returnedByReset t f) cfg.threads + (cfg.sh.ctr t).get f) % M = recorded t f ops % M ∧
    (recorded t f ops < M → sumOver (returnedByReset t f) cfg.threads + (cfg.sh.ctr t).get f = recorded t f ops) := by
  have hwf := (reach_ok hr (initCfg_WF ops)).1
  have hs := sum_finished cfg.threads hwf hfin t f
  have hc := conservation ops cfg hr t f
  rw [hs.1, hs.2] at hc
  simpa using ⟨hc.1, hc.2.2⟩

example : ∀ th ∈ (initCfg []).threads, th.finished := by simp [initCfg]

/-- **Server totals = anonymous + Σ users, in every snapshot, under concurrency.** In every reachable
configuration, every Snapshot / SnapshotAndReset thread that has left its first phase has
`s.Traffic = Σ (Traffic values it obtained: the anonymous collector's, then one per listed user)` modulo 2^64
(and exactly, when the sum fits). This is a statement about the values the snapshot READ: under concurrency
they are not one consistent cut of the counters (each was read at its own instant); at quiescence they are the
counters themselves (`final_snapshot_reads_counters`). -/
theorem total_is_sum (ops : List Op) (cfg : Config) (hr : Reach (initCfg ops) cfg) (s : SnapTh)
    (hs : Thread.snap s ∈ cfg.threads) (hph : s.phase ≠ .anon) (f : Field) :
    s.total.get f % M = sumAll f s.done % M ∧ s.total.get f ≤ sumAll f s.done ∧
    (sumAll f s.done < M → s.total.get f = sumAll f s.done) := by
  have h := reach_inv Thread.TotalOK thread_step_total hr (initCfg_total ops) _ hs
  have h' := h.2 f hph
  refine ⟨h'.1, h'.2, fun hlt => ?_⟩
  have h1 := h'.1
  have h2 := h'.2
  simp only [M] at h1 hlt
  omega

/-- **Attribution.** In every reachable configuration, an atomic step of a Collect* thread for username `u`
changes no collector other than `serverCollector.trafficCollector(u)`; the empty username selects the
anonymous collector, every other name the collector of exactly that name. (How much it adds to its own
collector is `collect_effect`; that it ends up in that user's snapshot figures is `conservation`, which is
stated per collector.) -/
theorem attribution (ops : List Op) (cfg : Config) (hr : Reach (initCfg ops) cfg) (c c' : CollectTh)
    (hc : Thread.collect c ∈ cfg.threads) (sh' : Shared) (hstep : c.step cfg.sh = some (sh', c')) :
    (∀ t, t ≠ target c.u → sh'.ctr t = cfg.sh.ctr t) ∧
    target "" = .anon ∧ (∀ u : String, u ≠ "" → target u = .user u) := by
  have hwf := (reach_ok hr (initCfg_WF ops)).1 _ hc
  have hown : (Thread.collect c).OwnTarget := by
    have hP : ∀ th ∈ cfg.threads, th.WF ∧ th.OwnTarget := by
      refine reach_inv (fun th => th.WF ∧ th.OwnTarget) ?_ hr ?_
      · intro order sh sh2 th th' hp hst
        exact ⟨(thread_step_ok order sh sh2 th th' hp.1 hst).1, thread_step_own order sh sh2 th th' hp.1 hp.2 hst⟩
      · intro th hth
        refine ⟨initCfg_WF ops th hth, ?_⟩
        simp only [initCfg, List.mem_map] at hth
        obtain ⟨op, _, rfl⟩ := hth
        cases op <;> simp [Op.thread, Thread.OwnTarget, mkCollect]
    exact (hP _ hc).2
  have h := collect_step_ok cfg.sh sh' c c' hwf hstep
  refine ⟨fun t ht => h.2.2.2.1 t (by rw [hown]; exact ht), ?_, ?_⟩
  · simp [target, anonymousUsername]
  · intro u hu; simp [target, anonymousUsername, hu]

/-- **Lazy creation of user collectors (lock level).** Any number of threads call
`serverCollector.userCollector(u)` concurrently for the same `u`, executing the regenerated program
`Gen.userCollector` statement by statement under reader/writer-lock semantics (SSV.Model.StatsLock), the map
holding a collector for `u` already or not. In every reachable configuration: every caller that has returned
holds the collector that is in the map (so all callers add to the SAME counters and every later snapshot
iterates over exactly that collector); a collector that is in the map is never replaced. This is what
justifies the atomic "create if absent" step of the counter-level model (`CStage.create`), and what fails if
the re-check under the write lock is removed. -/
theorem userCollector_creates_once (entry : Option Nat) (n : Nat) (cfg : StatsLock.LConfig)
    (hr : StatsLock.LReach userCollector (StatsLock.linit entry n) cfg) :
    (∀ th ∈ cfg.threads, StatsLock.returned userCollector th → th.uc = cfg.sh.entry ∧ cfg.sh.entry.isSome) ∧
    (∀ r, entry = some r → cfg.sh.entry = some r) ∧
    (∀ cfg', StatsLock.LStepRel userCollector cfg cfg' → ∀ r, cfg.sh.entry = some r → cfg'.sh.entry = some r) := by
  have hi := StatsLock.reach_inv hr (StatsLock.linit_inv entry n)
  refine ⟨?_, ?_, ?_⟩
  · intro th hth hret
    have ht := hi.t th hth
    exact ht.2.2.2.2.2.1 (StatsLock.returned_pc ht hret)
  · intro r he
    exact StatsLock.reach_entry hr (StatsLock.linit_inv entry n) r (by simp [StatsLock.linit, he])
  · intro cfg' hs r he
    exact StatsLock.entry_stable hs hi r he

example : StatsLock.LReach userCollector (StatsLock.linit none 3) (StatsLock.linit none 3) := StatsLock.LReach.refl _

/-- **Refinement of the lock level by the counter level.** In every configuration reachable in the lock-level
model (any number of callers of `userCollector(u)`, snapshots taking and releasing the read lock as
environment), each statement a caller executes is either invisible through the abstraction
(`absShared`: "the user collector exists" = "the map has an entry", `readers` = snapshots holding the read
lock; `absStage`: program point ↦ `lookup | create | run`) or is EXACTLY the step the counter-level model's
`CollectTh.step` takes from the corresponding stage — including its enabling condition (`create` only while no
snapshot holds the read lock). A caller starts in the stage a fresh Collect* thread for a named user starts in.
Hence every lock-level run of the collector selection projects onto a run of the stage machine used by
`conservation` / `attribution`. -/
theorem userCollector_refines (u : String) (v : Visit) (entry : Option Nat) (n : Nat)
    (pre post : List StatsLock.LThread) (th th' : StatsLock.LThread) (sh sh' : StatsLock.LShared)
    (hr : StatsLock.LReach userCollector (StatsLock.linit entry n) ⟨sh, pre ++ th :: post⟩)
    (h : StatsLock.lstep userCollector sh th = some (sh', th')) :
    ((StatsLock.absShared u sh' = StatsLock.absShared u sh ∧ StatsLock.absStage th' = StatsLock.absStage th) ∨
      CollectTh.step (StatsLock.absShared u sh) (StatsLock.absThread u v th)
        = some (StatsLock.absShared u sh', StatsLock.absThread u v th')) ∧
    StatsLock.absStage { pc := 0, uc := none } = CStage.lookup ∧
    (u ≠ "" → ∀ c x0 x1, (mkCollect c u x0 x1).stage = CStage.lookup) := by
  have hb := StatsLock.reach_both hr (StatsLock.linit_inv entry n) (StatsLock.linit_rinv entry n)
  refine ⟨StatsLock.refines u v pre post th th' sh sh' h hb.1 hb.2, by simp [StatsLock.absStage], ?_⟩
  intro hu c x0 x1
  simp [mkCollect, anonymousUsername, hu]

example : StatsLock.LReach userCollector (StatsLock.linit none 2)
    ⟨(StatsLock.linit none 2).sh, [] ++ { pc := 0, uc := none } :: [{ pc := 0, uc := none }]⟩ := StatsLock.LReach.refl _

/-- **A Snapshot at quiescence reads the counters.** Started on shared state `sh` with no other thread
running, a Snapshot — whatever order `range sc.ucs` yields — leaves every counter unchanged and, once finished,
has obtained for the anonymous collector and for EVERY existing user collector exactly the current counter
values. Together with `conservation_quiescent`: Σ (figures returned by all SnapshotAndReset calls) + (figures of
a final Snapshot) = everything recorded, per user, for the anonymous user, and (by `total_is_sum`) for the
server totals. -/
theorem final_snapshot_reads_counters (sh : Shared) (cfg : Config)
    (hr : Reach ⟨sh, [.snap (mkSnap false)]⟩ cfg) (s : SnapTh) (hth : cfg.threads = [.snap s])
    (hfin : s.phase = .finished) :
    cfg.sh.ctr = sh.ctr ∧
    (∀ e ∈ s.done, ∀ f, e.2.get f = (sh.ctr e.1).get f) ∧
    Target.anon ∈ s.done.map Prod.fst ∧ (∀ u ∈ sh.names, Target.user u ∈ s.done.map Prod.fst) := by
  obtain ⟨s', hth', hl⟩ := lone_reach sh hr
  rw [hth] at hth'
  simp only [List.cons.injEq, Thread.snap.injEq, and_true] at hth'
  subst hth'
  have hc := hl.cover
  simp only [Cover, hfin, targets] at hc
  exact ⟨hl.ctr, hl.done, hc.1, hc.2⟩

/-- the hypotheses are satisfiable: the driver's sequential run is such a run and it finishes -/
example : ∃ cfg s, Reach ⟨Shared.init, [.snap (mkSnap false)]⟩ cfg ∧ cfg.threads = [.snap s] ∧ s.phase = .finished :=
  ⟨_, _, runSnap_reach 12 Shared.init (mkSnap false), rfl, by decide⟩

/-- The sequential execution used by the driver (and compared with the real collector by corr_c14) is a run of
the interleaving semantics the theorems above quantify over. -/
theorem driver_run_is_interleaving (n : Nat) (sh : Shared) :
    (∀ reset : Bool, Reach ⟨sh, [.snap (mkSnap reset)]⟩
        ⟨(runSnap n sh (mkSnap reset)).1, [.snap (runSnap n sh (mkSnap reset)).2]⟩) ∧
    (∀ (c : Call) (u : String) (x0 x1 : Nat), Reach ⟨sh, [.collect (mkCollect c u x0 x1)]⟩
        ⟨(runCollect n sh (mkCollect c u x0 x1)).1, [.collect (runCollect n sh (mkCollect c u x0 x1)).2]⟩) :=
  ⟨fun reset => runSnap_reach n sh (mkSnap reset), fun c u x0 x1 => runCollect_reach n sh (mkCollect c u x0 x1)⟩

/-- **The driver's Snapshot always completes, and at quiescence it is exact.** The fuel `doSnapshot` gives a
lone Snapshot / SnapshotAndReset thread suffices for every shared state (any number of user collectors): the
run ends in phase `finished`; and the plain Snapshot leaves the counters unchanged and returns, for the
anonymous collector and every existing user, exactly the counters. So `final_snapshot_reads_counters` applies
to the very function the correspondence engine compares with the real collector. -/
theorem doSnapshot_exact (sh : Shared) :
    (∀ reset : Bool, (runSnap (snapFuel sh) sh (mkSnap reset)).2.phase = .finished) ∧
    (runSnap (snapFuel sh) sh (mkSnap false)).1.ctr = sh.ctr ∧
    (∀ e ∈ (runSnap (snapFuel sh) sh (mkSnap false)).2.done, ∀ f, e.2.get f = (sh.ctr e.1).get f) ∧
    Target.anon ∈ (runSnap (snapFuel sh) sh (mkSnap false)).2.done.map Prod.fst ∧
    (∀ u ∈ sh.names, Target.user u ∈ (runSnap (snapFuel sh) sh (mkSnap false)).2.done.map Prod.fst) := by
  have hfin : ∀ reset : Bool, (runSnap (snapFuel sh) sh (mkSnap reset)).2.phase = .finished :=
    fun reset => runSnap_finishes _ sh _ (fuel_suffices sh reset)
  have h := final_snapshot_reads_counters sh ⟨_, [.snap _]⟩ (runSnap_reach (snapFuel sh) sh (mkSnap false)) _ rfl (hfin false)
  exact ⟨hfin, h.1, h.2.1, h.2.2.1, h.2.2.2⟩

/-! ### API projections -/

/-- JSON member names of the six figures, as the SSM API documents them -/
def specJSONName : Field → String
  | .downlinkPackets => "downlinkPackets"
  | .downlinkBytes => "downlinkBytes"
  | .uplinkPackets => "uplinkPackets"
  | .uplinkBytes => "uplinkBytes"
  | .tcpSessions => "tcpSessions"
  | .udpSessions => "udpSessions"

/-- **API exactness (projection part).** `GET …/stats` encodes the snapshot it took — SnapshotAndReset exactly
for `?clear` / `?clear=true` given once, Snapshot otherwise — every figure under its documented JSON name,
users under "users"/"username"; `GET …/users/{u}` shows the figures of the entry named `u` of a Snapshot
(zero figures if there is none), NOT the server totals. The last conjunct is false of the pinned tree
(finding F10: `Gen.getUserProjection = .serverTotals`) and true after proposed_fixes/F10.diff. -/
theorem api_exact :
    (∀ f : Field, f.jsonName = specJSONName f) ∧ usersJSONName = "users" ∧ usernameJSONName = "username" ∧
    (∀ vals : List String, statsClear vals = true ↔ (vals = [""] ∨ vals = ["true"])) ∧
    (∀ sh vals, apiStats sh vals = doSnapshot sh (statsClear vals)) ∧
    (∀ (r : Result) (u : String), projectUser r u = lookupUser r.users u) := by
  refine ⟨fun f => by cases f <;> rfl, rfl, rfl, ?_, fun _ _ => rfl, ?_⟩
  · intro vals
    match vals with
    | [] => simp [statsClear]
    | [v] => simp [statsClear, statsClearValues]
    | _ :: _ :: _ => simp [statsClear]
  · intro r u
    simp [projectUser, getUserProjection]

/-- `lookupUser` returns the figures of the entry named `u` when the names in the list are distinct
(they are: one entry per key of `sc.ucs`), and zero figures when no entry is named `u`. -/
theorem lookupUser_exact (users : List (String × Counters)) (u : String) :
    (∀ c, users.Pairwise (fun a b => a.1 ≠ b.1) → (u, c) ∈ users → lookupUser users u = c) ∧
    ((∀ e ∈ users, e.1 ≠ u) → ∀ f, (lookupUser users u).get f = 0) := by
  refine ⟨?_, ?_⟩
  · intro c hpw hmem
    induction users with
    | nil => simp at hmem
    | cons e r ih =>
      simp only [List.pairwise_cons] at hpw
      simp only [List.mem_cons] at hmem
      rcases hmem with rfl | hmem
      · simp [lookupUser, List.find?]
      · have hne : e.1 ≠ u := hpw.1 (u, c) hmem
        have := ih hpw.2 hmem
        simp only [lookupUser, List.find?] at this ⊢
        have hb : (e.1 == u) = false := by simpa using hne
        simp only [hb]
        exact this
  · intro hall f
    have : users.find? (fun e => e.1 == u) = none := by
      simp only [List.find?_eq_none]
      intro e he; simpa using hall e he
    simp [lookupUser, this]

example : [("alice", Counters.zero)].Pairwise (fun a b => a.1 ≠ b.1) := by simp

end SSV.C14

#print axioms SSV.C14.gen_ok
#print axioms SSV.C14.collect_effect
#print axioms SSV.C14.conservation
#print axioms SSV.C14.conservation_quiescent
#print axioms SSV.C14.total_is_sum
#print axioms SSV.C14.attribution
#print axioms SSV.C14.userCollector_creates_once
#print axioms SSV.C14.userCollector_refines
#print axioms SSV.C14.final_snapshot_reads_counters
#print axioms SSV.C14.driver_run_is_interleaving
#print axioms SSV.C14.doSnapshot_exact
#print axioms SSV.C14.api_exact
#print axioms SSV.C14.lookupUser_exact
