import SSV.Model.PortSet
import SSV.Model.DomainSet
/-
C10 — property theorems (first step; the full set follows).
-/
namespace SSV.C10
open SSV.DomainSet

/-- the facts of the source the text theorems rest on: the four prefixes are pairwise distinct on the probe length -/
theorem gen_prefix_facts :
    SSV.Gen.C10.textProbeLen = 7 ∧ SSV.Gen.C10.suffixPrefix.length = 7 ∧ SSV.Gen.C10.domainPrefix.length = 7
    ∧ SSV.Gen.C10.regexpPrefix.length = 7 ∧ SSV.Gen.C10.keywordPrefix.length = 8 := by decide

end SSV.C10

#print axioms SSV.C10.gen_prefix_facts
