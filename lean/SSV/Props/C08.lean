import SSV.Proofs.Cred4
/-
C08 — Users are identified by key; the accepted key set tracks credential changes.

Property theorems only. The model is `SSV.Model.Cred` (state, step semantics, schedules); the four API
operations are the step programs `SSV.Gen.C08.{addProg,updateProg,deleteProg,loadProg}` regenerated from
cred/manager.go on every run: every theorem below is re-checked against what the source says now.
`H` is the PSK hash; nothing assumes it injective (a colliding key is refused as "duplicate uPSK" by the
code and is then simply not in the set; a colliding client key fails the AEAD open, see `handshake`).
`Inv H st` (SSV/Proofs/Cred.lean) says: maps made, no fault, the lookup map is exactly the index of the
cache by key hash, every live map equals the lookup map. It holds after `RegisterServer` (first theorem).
-/
namespace SSV.C08
open SSV.Cred SSV.Gen.C08

variable (H : Key → Hash)

/-- what the statement calls "the same set": for every live store and every client key `k`, a session under
`k` is accepted exactly when some listed user has `k`, it is attributed to exactly that user, and no two
listed users share a key. (`find st.cache n = some k` is "the API lists user `n` with key `k`".) -/
structure ViewsAgree (st : St) : Prop where
  accepted_iff_listed : ∀ m, (st.tcp = some m ∨ st.udp = some m) → ∀ k n,
    handshake H m k = some n ↔ find st.cache n = some k
  one_owner : ∀ n n' k, find st.cache n = some k → find st.cache n' = some k → n = n'
  no_fault : st.fault = false

theorem views_of_inv (st : St) (hi : Inv H st) : ViewsAgree H st :=
  ⟨fun _ hm k n => handshake_iff H hi hm k n, owner_unique H hi, hi.noFault⟩

/-- `RegisterServer` (fresh manager + first `LoadFromFile`) either fails or establishes the invariant,
whatever the store file holds (zero bytes, garbage, duplicate keys, wrong sizes, any users). -/
theorem register_establishes (pskLen : Nat) (hasTcp hasUdp : Bool) (file : Doc) (st : St)
    (h : call H (fresh pskLen hasTcp hasUdp file) .reload = (st, .ok)) :
    Inv H st ∧ Synced st ∧ ViewsAgree H st :=
  let ⟨a, b⟩ := fresh_reload H pskLen hasTcp hasUdp file st h
  ⟨a, b, views_of_inv H st a⟩

/-- `accept_iff_member`: a handshake under key `k` is accepted iff `k` is the key of a listed user. -/
theorem accept_iff_member (st : St) (hi : Inv H st) (m : ULM) (hm : st.tcp = some m ∨ st.udp = some m) (k : Key) :
    (handshake H m k).isSome = true ↔ ∃ n, find st.cache n = some k := by
  constructor
  · intro h
    cases hh : handshake H m k with
    | none => simp [hh] at h
    | some n => exact ⟨n, (handshake_iff H hi hm k n).1 hh⟩
  · rintro ⟨n, hn⟩
    simp [(handshake_iff H hi hm k n).2 hn]

/-- `attributed_to_owner`: the username of an accepted session is the owner of the key, and the owner is unique. -/
theorem attributed_to_owner (st : St) (hi : Inv H st) (m : ULM) (hm : st.tcp = some m ∨ st.udp = some m)
    (k : Key) (n : Name) (h : handshake H m k = some n) :
    find st.cache n = some k ∧ ∀ n', find st.cache n' = some k → n' = n :=
  ⟨(handshake_iff H hi hm k n).1 h, fun n' h' => owner_unique H hi n' n k h' ((handshake_iff H hi hm k n).1 h)⟩

/-- attribution on EVERY return path of the TCP handshake: whatever identity hash `h` a connection presents and
whatever key `k` its header is sealed under, with or without a fallback address —
a request is attributed to the listed owner of `k` (and `h` is that key's hash), and a connection that did not
authenticate (forged identity, garbage, unknown user) is attributed to nobody even when it is forwarded to the
fallback address. Depends on the regenerated `fallbackFreshRequest`. -/
theorem attribution_on_every_path (st : St) (hi : Inv H st) (m : ULM) (hm : st.tcp = some m ∨ st.udp = some m)
    (fb : Bool) (h : Hash) (k : Key) :
    (∀ n, handleStream H fb m h k = .request n → find st.cache n = some k ∧ H k = h) ∧
    (∀ u, handleStream H fb m h k = .fallback u → u = "") ∧
    (∀ n, find st.cache n = some k → handleStream H fb m (H k) k = .request n) := by
  refine ⟨?_, ?_, ?_⟩
  · intro n hr
    unfold handleStream at hr
    rw [live_eq H hi hm] at hr
    cases hf : find st.lookup h with
    | none => simp only [hf] at hr; split at hr <;> cases hr
    | some e =>
      obtain ⟨n', k'⟩ := e
      simp only [hf] at hr
      by_cases hk : k' = k ∧ H k = h
      · simp only [hk, and_self, if_true, HsResult.request.injEq] at hr
        subst hr
        obtain ⟨rfl, hh⟩ := hk
        exact ⟨(hi.sound _ _ _ hf).1, hh⟩
      · simp only [hk, if_false] at hr
        split at hr <;> cases hr
  · intro u hr
    unfold handleStream at hr
    cases hf : find m h with
    | none =>
      simp only [hf] at hr
      split at hr
      · cases hr; rfl
      · cases hr
    | some e =>
      obtain ⟨n', k'⟩ := e
      simp only [hf] at hr
      by_cases hk : k' = k ∧ H k = h
      · simp [hk] at hr
      · simp only [hk, if_false] at hr
        split at hr
        · simp only [fallbackFreshRequest, if_true, HsResult.fallback.injEq] at hr
          exact hr.symm
        · cases hr
  · intro n hn
    unfold handleStream
    rw [live_eq H hi hm, hi.complete n k hn]
    simp

/-- `views_agree_seq`: after every finite history of add / update / delete / reload calls, external edits of
the store file and debounce ticks, the in-memory views agree; the content the manager last synchronised
with the file represents the cache unless a save is pending. -/
theorem views_agree_seq (st0 : St) (hi : Inv H st0) (hs : Synced st0) (evs : List Ev) :
    ViewsAgree H (runHist H st0 evs) ∧ Inv H (runHist H st0 evs) ∧ Synced (runHist H st0 evs) :=
  ⟨views_of_inv H _ (runHist_inv H evs st0 hi), runHist_inv H evs st0 hi, runHist_synced H evs st0 hi hs⟩

/-- the file clause of `views_agree_seq`: once the debounced save has had its time, nothing is pending, the
synchronised content decodes to exactly the listed set, and if a change was pending it is what the file now
holds (the file differs from it only by somebody else's edit that has not been reloaded). -/
theorem file_tracks_cache_seq (st0 : St) (hi : Inv H st0) (hs : Synced st0) (evs : List Ev) :
    let st := runHist H st0 evs
    let st' := runHist H st0 (evs ++ [.tick])
    st'.pending = false ∧ Represents st'.cachedContent st'.cache ∧ st'.cache = st.cache ∧
      (st.pending = true → st'.file = st'.cachedContent ∧ st'.file = render st.cache) := by
  intro st st'
  have hst' : st' = tick st := by simp [st', st, runHist, List.foldl_append, applyEv]
  have hi' := runHist_inv H evs st0 hi
  have hs' := runHist_synced H evs st0 hi hs
  obtain ⟨a, b, c⟩ := tick_synced st hi'.nodup hs'
  rw [hst']
  refine ⟨b, a.rep b, ?_, fun hp => ?_⟩
  · by_cases hp : st.pending = true
    · rw [tick_pending st hp]
    · rw [tick_idle st (by simpa using hp) hs'.idle]
  · obtain ⟨c1, c2⟩ := c hp
    exact ⟨c1.trans c2.symm, c1⟩

/-- `views_agree_conc`: in every interleaving of any number of concurrent API calls (each running the
regenerated program, atomic between `lock` and `unlock`, separately schedulable elsewhere) with the saver's
dequeue / save actions, at every moment — in particular at quiescence — the in-memory views agree, no
step touched the manager's maps outside the lock and nothing panicked. By invariant over the interleaving
semantics, for all schedules. -/
theorem views_agree_conc (st0 : St) (hi : Inv H st0) (ops : List Op) (acts : List Act) :
    ViewsAgree H ((Sys.start st0 ops).run H acts).st ∧ Inv H ((Sys.start st0 ops).run H acts).st :=
  let h := run_inv H acts _ (start_inv H st0 ops hi)
  ⟨views_of_inv H _ h.inv, h.inv⟩

/-- file clause of `views_agree_conc`, about `cachedContent`: in every interleaving — external edits of the store
file included — at quiescence (every call returned, nothing pending, saver idle) the content the manager last
read or wrote decodes to exactly the listed set: no acknowledged change can be left without a save. -/
theorem synced_content_tracks_cache_conc (st0 : St) (hi : Inv H st0) (hs : Synced st0) (ops : List Op) (acts : List Act) :
    let s := (Sys.start st0 ops).run H acts
    s.quiescent → Represents s.st.cachedContent s.st.cache := by
  intro s hq
  have hf := run_file H acts _ (start_inv H st0 ops hi) (start_file st0 ops hs)
  refine hf ?_ hq.2.1 hq.2.2
  intro t ht
  simp [owes, hq.1 t ht]

/-- the bytes on disk: from ANY reachable moment (after any interleaving, external edits included) at which the
file is what the manager last read or wrote — e.g. right after a reload took an edit, or after a save — it stays
so through every continuation in which nobody else edits the file, whatever calls, reloads and saves interleave. -/
theorem file_eq_synced_stable (st0 : St) (hi : Inv H st0) (ops : List Op) (pre post : List Act)
    (hne : ∀ a ∈ post, a.isEdit = false)
    (he : ((Sys.start st0 ops).run H pre).st.file = ((Sys.start st0 ops).run H pre).st.cachedContent) :
    let s := ((Sys.start st0 ops).run H pre).run H post
    s.st.file = s.st.cachedContent :=
  run_fileEq H post _ (run_inv H pre _ (start_inv H st0 ops hi)) hne he

/-- `file_tracks_cache_conc`, about the FILE: start with file and manager in sync (as after registration or a
save); in every interleaving of any number of calls, reloads and saver actions without foreign edits, at
quiescence the store file decodes to exactly the listed set (and the accepted set is the listed set by
`views_agree_conc`): the three views of the statement are the same. Depends on the regenerated `loadProg`
reading the file inside the critical section (F23); `stale_reload_witness` shows it false for the old program. -/
theorem file_tracks_cache_conc (st0 : St) (hi : Inv H st0) (hs : Synced st0) (hfile : st0.file = st0.cachedContent)
    (ops : List Op) (acts : List Act) (hne : ∀ a ∈ acts, a.isEdit = false) :
    let s := (Sys.start st0 ops).run H acts
    s.quiescent → Represents s.st.file s.st.cache := by
  intro s hq
  have h1 := synced_content_tracks_cache_conc H st0 hi hs ops acts hq
  have h2 : s.st.file = s.st.cachedContent := run_fileEq H acts _ (start_inv H st0 ops hi) hne hfile
  rw [h2]; exact h1

/-- with foreign edits: once a reload has taken the edited file (the file is then what the manager last read),
and nobody edits it afterwards, the file again decodes to the listed set at quiescence. -/
theorem file_tracks_cache_conc_after_edit (st0 : St) (hi : Inv H st0) (hs : Synced st0) (ops : List Op)
    (pre post : List Act) (hne : ∀ a ∈ post, a.isEdit = false)
    (he : ((Sys.start st0 ops).run H pre).st.file = ((Sys.start st0 ops).run H pre).st.cachedContent) :
    let s := (Sys.start st0 ops).run H (pre ++ post)
    s.quiescent → Represents s.st.file s.st.cache := by
  intro s hq
  have h1 := synced_content_tracks_cache_conc H st0 hi hs ops (pre ++ post) hq
  have h2 : s.st.file = s.st.cachedContent := by
    have := file_eq_synced_stable H st0 hi ops pre post hne he
    simpa [s, Sys.run, List.foldl_append] using this
  rw [h2]; exact h1

/-- and whenever the saver runs with a save pending, what it writes represents the cache of that moment -/
theorem saved_file_represents_cache_conc (st0 : St) (hi : Inv H st0) (ops : List Op) (acts : List Act) :
    let s := (Sys.start st0 ops).run H acts
    s.st.pending = true →
      (tick s.st).file = render s.st.cache ∧ Represents (tick s.st).file (tick s.st).cache := by
  intro s hp
  have h := (run_inv H acts _ (start_inv H st0 ops hi)).inv
  rw [tick_pending s.st hp]
  exact ⟨rfl, render_represents s.st.cache h.nodup⟩

/-- every schedule can be completed: running any unfinished thread strictly shortens its program, so the
quiescent states `file_tracks_cache_conc` speaks about are reached by every fair schedule. -/
theorem segment_progress (st : St) (t : Thread) (h : t.prog ≠ []) :
    (seg H st t).2.prog.length < t.prog.length := by
  have hsuf : ∀ p : List Step, (afterUnlock p).length ≤ p.length := by
    intro p
    induction p with
    | nil => simp [afterUnlock]
    | cons s r ih => unfold afterUnlock; split <;> simp <;> omega
  rcases seg_prog H t st with e | e
  · rw [e]
    cases hp : t.prog with
    | nil => exact absurd hp h
    | cons s rest =>
      cases s <;> simp [dropSeg]
      have := hsuf rest
      omega
  · rw [e]
    cases hp : t.prog with
    | nil => exact absurd hp h
    | cons s rest => simp

/-- `deleted_key_rejected`: deleting a listed user is acknowledged and from then on a session under its
key is rejected by every live store. -/
theorem deleted_key_rejected (st : St) (hi : Inv H st) (n : Name) (k : Key) (h : find st.cache n = some k) :
    (call H st (.delete n)).2 = .ok ∧
    ∀ m, ((call H st (.delete n)).1.tcp = some m ∨ (call H st (.delete n)).1.udp = some m) →
      handshake H m k = none := by
  have hi' := call_inv H st (.delete n) hi
  refine ⟨by rw [call_delete H st n k h], ?_⟩
  intro m hm
  cases hh : handshake H m k with
  | none => rfl
  | some n' =>
    have hf := (handshake_iff H hi' hm k n').1 hh
    rw [call_delete H st n k h] at hf
    simp only [find_erase] at hf
    by_cases e : n = n'
    · simp [e] at hf
    · simp only [e, if_false] at hf
      exact absurd (owner_unique H hi n n' k h hf) e

/-- rotation: an acknowledged update makes the old key stop working and the new key work, for that user. -/
theorem rotated_key_rejected (st : St) (hi : Inv H st) (n : Name) (k0 k : Key) (h : find st.cache n = some k0)
    (hk : k0 ≠ k) (hl : k.len = st.pskLen) (hfree : find st.lookup (H k) = none) :
    (call H st (.update n k)).2 = .ok ∧
    ∀ m, ((call H st (.update n k)).1.tcp = some m ∨ (call H st (.update n k)).1.udp = some m) →
      handshake H m k0 = none ∧ handshake H m k = some n := by
  have hi' := call_inv H st (.update n k) hi
  refine ⟨by rw [call_update H st n k k0 h hk hl hfree], ?_⟩
  intro m hm
  constructor
  · cases hh : handshake H m k0 with
    | none => rfl
    | some n' =>
      have hf := (handshake_iff H hi' hm k0 n').1 hh
      rw [call_update H st n k k0 h hk hl hfree] at hf
      simp only [find_insert] at hf
      by_cases e : n = n'
      · simp only [e, if_true, Option.some.injEq] at hf
        exact absurd hf.symm hk
      · simp only [e, if_false] at hf
        exact absurd (owner_unique H hi n n' k0 h hf) e
  · apply (handshake_iff H hi' hm k n).2
    rw [call_update H st n k k0 h hk hl hfree]
    simp [find_insert]

/-- duplicate keys are refused: adding a user with a key some other user owns changes nothing. -/
theorem duplicate_key_refused (st : St) (hi : Inv H st) (n n' : Name) (k : Key)
    (hn : n ≠ "") (hl : k.len = st.pskLen) (hnew : find st.cache n = none) (hown : find st.cache n' = some k) :
    call H st (.add n k) = (st, .errDup) := by
  have := hi.complete n' k hown
  simp [call, Op.thread, addProg, runThread, seg, runLocked, exec, touch, hn, hl, hnew, this]

/-- steps that read the store file, read or write the manager's maps / `cachedContent`, or publish to the live stores -/
def guarded : Step → Bool
  | .readFile | .guardAbsent | .loadUc | .guardHashFree | .cacheSet | .cacheUpdKey | .cacheDel | .lookupSet | .lookupDelOld
  | .lookupDelUc | .liveSet | .liveDelOldSet | .liveDelUc | .guardChanged | .guardChangedLoaded | .setCachedContent
  | .setLookup | .setCache | .liveReplaceTcpLocal | .liveReplaceUdpLocal | .liveReplaceTcpShared | .liveReplaceUdpShared => true
  | _ => false

/-- every guarded step of `p` lies between a `lock` and the next `unlock` -/
def insideLock : Bool → List Step → Bool
  | _, [] => true
  | held, s :: rest =>
    if s = .lock then insideLock true rest
    else if s = .unlock then insideLock false rest
    else (held || !guarded s) && insideLock held rest

/-- the two regenerated facts of DESIGN §5 C08, read off the programs: the live stores are updated, and the
reloaded map is cloned, before the manager lock is released, and the store file is read after it is taken (F23)
— in all four operations. -/
theorem publish_inside_lock : progs.all (insideLock false) = true := by decide

/-- add and update check the key's hash against the lookup map before they write it -/
theorem duplicate_check_precedes_write :
    (addProg.takeWhile (· ≠ .lookupSet)).contains .guardHashFree = true ∧
    (updateProg.takeWhile (· ≠ .lookupSet)).contains .guardHashFree = true := by decide

/-! ### the hypotheses are satisfiable -/

def hId (k : Key) : Hash := k.id
def k1 : Key := ⟨1, 16⟩
def k2 : Key := ⟨2, 16⟩
def k3 : Key := ⟨3, 16⟩
/-- a three-user store registered on a TCP+UDP server -/
def st3 : St := (call hId (fresh 16 true true (.entries [("a", k1), ("b", k2), ("c", k3)])) .reload).1

theorem st3_ok : call hId (fresh 16 true true (.entries [("a", k1), ("b", k2), ("c", k3)])) .reload = (st3, .ok) :=
  Prod.ext rfl (by decide)

example : Inv hId st3 ∧ Synced st3 := (register_establishes hId _ _ _ _ _ st3_ok).1 |> fun a => ⟨a, (register_establishes hId _ _ _ _ _ st3_ok).2.1⟩
example : find st3.cache "b" = some k2 := by decide
example : ∃ m, st3.tcp = some m ∧ handshake hId m k2 = some "b" := ⟨_, rfl, by decide⟩
example : k2 ≠ ⟨4, 16⟩ ∧ (⟨4, 16⟩ : Key).len = st3.pskLen ∧ find st3.lookup (hId ⟨4, 16⟩) = none := by decide
example : find st3.cache "d" = none ∧ find st3.cache "a" = some k1 := by decide
/-- a zero-byte store file is refused at registration (regenerated `loadProg` has the loaded-check) -/
example : (call hId (fresh 16 true true .empty) .reload).2 = .errParse := by decide
/-- a quiescent system reached by a real interleaving: add d ‖ delete a on `st3`, then the saver -/
example : ((Sys.start st3 [.add "d" ⟨4, 16⟩, .delete "a"]).run hId
    [.thread 0, .thread 1, .thread 0, .thread 1, .thread 0, .thread 1, .thread 0, .thread 0, .thread 1, .dequeue, .save]).quiescent := by
  unfold Sys.quiescent; decide

/-! ### F23: the witness for the program that reads the file before taking the lock -/

/-- `LoadFromFile` as it was before F23: `readFile` outside the critical section -/
def loadProgReadOutside : List Step :=
  [.readFile, .deferClose, .lock, .guardChangedLoaded, .decode, .guardDecodeOk, .buildMaps, .setCachedContent,
   .setLookup, .setCache, .liveReplaceTcpLocal, .liveReplaceUdpLocal, .unlock, .ret]

def k4 : Key := ⟨4, 16⟩

/-- add d (acknowledged, save pending) ‖ reload with the old program: the reload reads the store file, then the
saver writes the file with d, then the reload's critical section installs what it read -/
def staleSys : Sys :=
  Sys.run hId
    { st := st3, threads := [(Op.add "d" k4).thread, { prog := loadProgReadOutside, regs := { name := "", key := noKey } }] }
    [.thread 0, .thread 0, .thread 0, .thread 0, .thread 0,   -- add d: acknowledged, save queued
     .thread 1, .thread 1,                                     -- reload: file read (without d)
     .dequeue, .save,                                          -- saver: file and cachedContent now hold d
     .thread 1, .thread 1]                                     -- reload: lock … unlock, return

/-- with the read outside the lock the property fails in the model: both calls are acknowledged, the system
is quiescent, nobody edited the file, yet d is unlisted and rejected while the store file holds d. -/
theorem stale_reload_witness :
    staleSys.quiescent ∧ staleSys.threads.map (·.res) = [some .ok, some .ok] ∧
    find staleSys.st.cache "d" = none ∧
    (∃ m, staleSys.st.tcp = some m ∧ handshake hId m k4 = none) ∧
    (∃ l, decodeDoc staleSys.st.file = some l ∧ find l "d" = some k4) := by
  refine ⟨by unfold Sys.quiescent; decide, by decide, by decide, ⟨_, rfl, by decide⟩, ⟨_, rfl, by decide⟩⟩

end SSV.C08

#print axioms SSV.C08.views_of_inv
#print axioms SSV.C08.register_establishes
#print axioms SSV.C08.accept_iff_member
#print axioms SSV.C08.attributed_to_owner
#print axioms SSV.C08.attribution_on_every_path
#print axioms SSV.C08.views_agree_seq
#print axioms SSV.C08.file_tracks_cache_seq
#print axioms SSV.C08.views_agree_conc
#print axioms SSV.C08.synced_content_tracks_cache_conc
#print axioms SSV.C08.file_eq_synced_stable
#print axioms SSV.C08.file_tracks_cache_conc
#print axioms SSV.C08.file_tracks_cache_conc_after_edit
#print axioms SSV.C08.stale_reload_witness
#print axioms SSV.C08.saved_file_represents_cache_conc
#print axioms SSV.C08.segment_progress
#print axioms SSV.C08.publish_inside_lock
#print axioms SSV.C08.duplicate_check_precedes_write
#print axioms SSV.C08.deleted_key_rejected
#print axioms SSV.C08.rotated_key_rejected
#print axioms SSV.C08.duplicate_key_refused
#print axioms SSV.C08.st3_ok
