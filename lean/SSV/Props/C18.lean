import SSV.Model.Config
/-
C18 — property theorems (placeholder while the machinery is brought up; replaced below).
-/
namespace SSV.C18
open SSV.Config

theorem effFilterSize_pos (n : Nat) : 1 ≤ effFilterSize n := by
  unfold effFilterSize
  split
  · decide
  · omega

end SSV.C18

#print axioms SSV.C18.effFilterSize_pos
