import SSV.Proofs.Config
/-
C18 — Configurations are either rejected at load or run without invariant violations.

Model: SSV.Model.Config (`validate` = service.Config.Manager on the modelled fields; every number,
table and the presence of the load-time checks for F4 / F15 / F20 comes from SSV.Gen.C18, i.e. from
the source as it is now).  The documented side (README.md, field comments, the property statement)
is the `Doc` namespace below: literal constants, independent of Gen.

  accepted_sound     validate c = ok e  ->  every invariant the statement names holds: key lengths (PSK, iPSKs, uPSK
                     store), ss2022 NAT timeout >= replay window, MTU >= 1280, tuning ranges, unique client / server /
                     resolver / set names, resolved route and default-client references
  accepted_groups    ... client-group names unique and distinct from client names, every member exists for its network
  accepted_resolvers ... the client a resolver names exists for its network
  violating_rejected the converse, per invariant: a configuration violating one is refused with an error
  dangling_rejected  ... for references to client / group names and for group names
  defaults           omitted ≡ "" ≡ the documented default (policies, NAT timeout, batch sizes, capacity, filter
  defaults_all       size, client network), for single validators and for whole configurations (servers; servers+clients)
  legacy_equiv       legacy single-listener fields ≡ the listener arrays Config.Migrate produces
  no_crash_configs   accepted => the preconditions of the packet-level no-panic theorems:
                     target-only direct servers have an IP tunnel address; 1 ≤ filter size, size+63 < 2^63
  gen_*              side conditions on the regenerated facts (they fail to elaborate on a tree without the fixes
                     F4 / F12 / F15 / F20, or with changed bounds / defaults)

"No accepted combination leads to a crash once traffic flows" is decided PARTIALLY: the theorem gives
the two preconditions under which C04/C05/C06 prove the packet paths panic-free; the behaviour of
started services is only sampled (smoke engine of corr_c18).
-/
namespace SSV.C18
open SSV.Config SSV.Gen

-- ---------------------------------------------------------------- the documented side

namespace Doc
/-- "the MTU is at least 1280" -/
def minMTU : Int := 1280
/-- "Shadowsocks 2022 NAT timeouts are no shorter than the replay window" (60 s, in ns) -/
def replayWindow : Int := 60000000000
/-- README / field comments: batch sizes 1..1024 (0 = default), capacity >= 64 (0 = default) -/
def maxBatch : Int := 1024
def minCapacity : Int := 64
/-- "The default value is 5 minutes." / 256 / 64 / 1024 / 256 -/
def natTimeout : Int := 300000000000
def relayBatch : Int := 256
def recvBatch : Int := 64
def sendCapacity : Int := 1024
def filterSize : Nat := 256
/-- README "Security": `ForceReset` (default), `PadPlainDNS` (default) -/
def rejectPolicy : String := "ForceReset"
def paddingPolicy : String := "PadPlainDNS"
/-- "key lengths match the method" -/
def keyLen : Proto → Option Nat
  | .ss128 => some 16
  | .ss256 => some 32
  | _ => none
end Doc

-- ---------------------------------------------------------------- Gen side conditions (re-checked on every run)

theorem gen_pskLen (p : Proto) : pskLenFor p = Doc.keyLen p := by
  cases p <;> decide

theorem gen_mtu : (C18.serverMTUMin : Int) = Doc.minMTU ∧ (C18.clientMTUMin : Int) = Doc.minMTU := by decide

/-- the session server's minimum NAT timeout is at least the code's replay window, which is at least the documented
    60 s; the default (5 min) is above the minimum -/
theorem gen_nat : (C18.ReplayWindowDuration : Int) ≤ C18.ss2022MinNATTimeout ∧ (C18.natTimeoutDefault : Int) = Doc.natTimeout ∧
    C18.natTimeoutRejectsEqual = false ∧ Doc.replayWindow ≤ (C18.ReplayWindowDuration : Int) ∧
    (C18.ss2022MinNATTimeout : Int) ≤ Doc.natTimeout := by decide

theorem gen_perf : (C18.relayBatchMax : Int) = Doc.maxBatch ∧ (C18.recvBatchMax : Int) = Doc.maxBatch ∧
    (C18.sendCapMin : Int) = Doc.minCapacity ∧ (C18.relayBatchDefault : Int) = Doc.relayBatch ∧
    (C18.recvBatchDefault : Int) = Doc.recvBatch ∧ (C18.sendCapDefault : Int) = Doc.sendCapacity := by decide

/-- F12: the nil branch of `Policy()` and the text "" both give the documented default -/
theorem gen_policy_defaults :
    rejectOf none = some Doc.rejectPolicy ∧ rejectOf (some "") = some Doc.rejectPolicy ∧
    rejectOf (some Doc.rejectPolicy) = some Doc.rejectPolicy ∧
    paddingOf none = some Doc.paddingPolicy ∧ paddingOf (some "") = some Doc.paddingPolicy ∧
    paddingOf (some Doc.paddingPolicy) = some Doc.paddingPolicy := by decide

theorem gen_filter_default : C18.DefaultSlidingWindowFilterSize = Doc.filterSize := by decide

/-- F15: the filter size is validated at load, with a bound far below the overflow of the ring computation -/
theorem gen_filter_bound :
    (∃ m, C18.serverFilterSizeMax = some m ∧ m + 63 < 2 ^ 63) ∧ (∃ m, C18.clientFilterSizeMax = some m ∧ m + 63 < 2 ^ 63) :=
  ⟨⟨_, rfl, by decide⟩, ⟨_, rfl, by decide⟩⟩

/-- F4 / F20: the load-time checks exist -/
theorem gen_checks_present :
    C18.directTargetOnlyRequiresIP = true ∧ C18.domainSetNamesUnique = true ∧ C18.prefixSetNamesUnique = true := by decide

/-- the replay window the NAT timeouts are measured against covers the (2·MaxEpochDiff+1) s during which a
    timestamp validates (C03 proves that much necessary) -/
theorem gen_replay_window : (2 * C18.MaxEpochDiff + 1) * 1000000000 ≤ C18.ReplayWindowDuration := by decide

/-- every server stores its index in `serverIndexByName` (the extractor accepts no other loop shape) -/
theorem gen_server_index : C18.serverIndexEveryServer = true := by decide

-- ---------------------------------------------------------------- invariants

/-- the invariants of one accepted UDP listener -/
structure ULInv (minNat : Int) (e : EffUL) : Prop where
  relay : 1 ≤ e.relayBatch ∧ e.relayBatch ≤ Doc.maxBatch
  recv : 1 ≤ e.recvBatch ∧ e.recvBatch ≤ Doc.maxBatch
  cap : Doc.minCapacity ≤ e.sendCap
  nat : minNat ≤ Doc.natTimeout → minNat ≤ e.natTimeout

theorem ul_sound {minNat : Int} {l : UL} {e : EffUL} (h : checkUL minNat l = .ok e) : ULInv minNat e := by
  have ok := checkUL_ok h
  obtain ⟨g1, g2, g3, g4, g5, g6⟩ := gen_perf
  obtain ⟨_, n2, n3, _, _⟩ := gen_nat
  refine ⟨?_, ?_, ?_, ?_⟩
  · rcases rangeDefault_some ok.relay with ⟨a, b, c⟩ | ⟨_, c⟩
    · rw [g1] at b; rw [c]; exact ⟨by omega, b⟩
    · rw [c, g4]; decide
  · rcases rangeDefault_some ok.recv with ⟨a, b, c⟩ | ⟨_, c⟩
    · rw [g2] at b; rw [c]; exact ⟨by omega, b⟩
    · rw [c, g5]; decide
  · rcases capDefault_some ok.cap with ⟨a, c⟩ | ⟨_, c⟩
    · rw [g3] at a; rw [c]; exact a
    · rw [c, g6]; decide
  · intro hm
    rcases ok.nat with ⟨_, c⟩ | ⟨_, b, c⟩
    · rw [c, n2]
      exact hm
    · rw [c]
      unfold natTooSmall at b
      rw [n3] at b
      simpa using b

/-- the invariants the statement names, for one server -/
structure ServerInv (s : Server) (e : EffServer) : Prop where
  /-- key lengths match the method (PSK / iPSK and the uPSK store) -/
  psk : s.proto.isSS = true → Doc.keyLen s.proto = some s.pskLen
  upsk : s.proto.isSS = true → s.upsk ≠ .missing ∧ ∀ l, s.upsk = .keys l → Doc.keyLen s.proto = some l
  /-- the MTU is at least 1280 when UDP is served -/
  mtu : s.allUDP ≠ [] → Doc.minMTU ≤ s.mtu
  /-- ss2022 NAT timeouts are no shorter than the replay window (the code's constant, itself >= the documented 60 s) -/
  nat : s.proto.isSS = true → ∀ u ∈ e.udp, (C18.ReplayWindowDuration : Int) ≤ u.natTimeout ∧ Doc.replayWindow ≤ u.natTimeout
  /-- the documented ranges of the tuning knobs -/
  perf : ∀ u ∈ e.udp, 1 ≤ u.relayBatch ∧ u.relayBatch ≤ Doc.maxBatch ∧ 1 ≤ u.recvBatch ∧ u.recvBatch ≤ Doc.maxBatch ∧
    Doc.minCapacity ≤ u.sendCap
  /-- every configured listener (array or legacy) was built -/
  listeners : e.udp.length = s.allUDP.length ∧ e.tcp = s.allTCP.length
  /-- a direct server has its tunnel address -/
  tunnel : s.proto = .direct → s.tunnel ≠ .absent

theorem isSS_minNat {p : Proto} (h : p.isSS = true) : minNatOf p = (C18.ss2022MinNATTimeout : Int) := by
  unfold minNatOf
  rw [if_pos h]

theorem pskOK_keyLen {p : Proto} {n : Nat} {l : List Nat} (h : pskOK p n l = true) :
    Doc.keyLen p = some n ∧ ∀ k ∈ l, Doc.keyLen p = some k := by
  unfold pskOK at h
  rw [gen_pskLen] at h
  split at h
  · cases h
  · rename_i m hm
    simp only [Bool.and_eq_true, decide_eq_true_eq, List.all_eq_true] at h
    refine ⟨by rw [hm, h.1], fun k hk => ?_⟩
    rw [hm, h.2 k hk]

theorem server_sound {s : Server} {e : EffServer} (h : checkServer s = .ok e) : ServerInv s e := by
  have ok := checkServer_ok h
  have i3 := ok.init (s.proto.isSS && !pskOK s.proto s.pskLen [], "server-psk") (by simp [Server.initChecks])
  have i1 := ok.init (s.proto = .direct && !s.tunnel.valid, "server-tunnel") (by simp [Server.initChecks])
  have u1 := ok.udpc (!s.allUDP.isEmpty && decide (s.mtu < (C18.serverMTUMin : Int)), "server-mtu") (by simp [Server.udpChecks])
  have hup := ok.upsk
  refine ⟨?_, ?_, ?_, ?_, ?_, ?_, ?_⟩
  · intro hs
    simp only [hs, Bool.true_and, Bool.not_eq_false'] at i3
    exact (pskOK_keyLen i3).1
  · intro hs
    simp only [hs, Bool.true_and, Bool.not_eq_false'] at hup
    unfold upskOK at hup
    refine ⟨?_, ?_⟩
    · intro hm
      rw [hm] at hup
      cases hup
    · intro l hl
      rw [hl] at hup
      simp only [decide_eq_true_eq] at hup
      rw [← gen_pskLen]
      exact hup
  · intro hne
    have : s.allUDP.isEmpty = false := by
      cases hl : s.allUDP with
      | nil => exact absurd hl hne
      | cons a as => rfl
    simp only [this, Bool.not_false, Bool.true_and, decide_eq_false_iff_not] at u1
    rw [gen_mtu.1] at u1
    omega
  · intro hs u hu
    obtain ⟨l, _, hl⟩ := mapE_ok_mem' ok.udp u hu
    have inv := ul_sound hl
    rw [isSS_minNat hs] at inv
    obtain ⟨n1, _, _, n4, n5⟩ := gen_nat
    have := inv.nat n5
    exact ⟨by omega, by omega⟩
  · intro u hu
    obtain ⟨l, _, hl⟩ := mapE_ok_mem' ok.udp u hu
    have inv := ul_sound hl
    exact ⟨inv.relay.1, inv.relay.2, inv.recv.1, inv.recv.2, inv.cap⟩
  · refine ⟨mapE_length ok.udp, ?_⟩
    rw [ok.eff]
    rfl
  · intro hd ha
    rw [ha] at i1
    simp [hd, Addr.valid] at i1

/-- the invariants the statement names, for one client -/
structure ClientInv (k : Client) : Prop where
  psk : k.proto.isSS = true → Doc.keyLen k.proto = some k.pskLen ∧ ∀ n ∈ k.ipskLens, Doc.keyLen k.proto = some n
  mtu : k.enableUDP = true → Doc.minMTU ≤ k.mtu

theorem client_sound {k : Client} {e : EffClient} (h : checkClient k = .ok e) : ClientInv k := by
  have ⟨ok, _⟩ := checkClient_ok h
  have i1 := ok (k.proto.isSS && !pskOK k.proto k.pskLen k.ipskLens, "client-psk") (by simp [Client.checks])
  have i2 := ok (k.enableUDP && decide (k.mtu < (C18.clientMTUMin : Int)), "client-mtu") (by simp [Client.checks])
  refine ⟨?_, ?_⟩
  · intro hs
    simp only [hs, Bool.true_and, Bool.not_eq_false'] at i1
    exact pskOK_keyLen i1
  · intro hu
    simp only [hu, Bool.true_and, decide_eq_false_iff_not] at i2
    rw [gen_mtu.2] at i2
    omega

-- ---------------------------------------------------------------- inversion of `validate`

structure Accepted (c : Config) (e : Eff) : Prop where
  servers : c.servers ≠ []
  clients : checkClients [] (effectiveClients c) = .ok e.clients
  groups : checkGroups ((effectiveClients c).map (·.name)) [] c.groups (tcpNamesOf (effectiveClients c)) (udpNamesOf (effectiveClients c)) =
    .ok (e.tcpNames, e.udpNames)
  resolvers : checkResolvers e.tcpNames e.udpNames [] c.resolvers = .ok ()
  serverNames : checkUnique "dup-server" [] (c.servers.map (·.name)) = .ok ()
  router : checkRouter c.router (c.resolvers.map (·.name)) e.tcpNames e.udpNames (c.servers.map (·.name)) = .ok ()
  effServers : mapE checkServer c.servers = .ok e.servers
  api : checkApi c.api = .ok ()
  routes : e.routes = routeKinds c.router

theorem validate_ok {c : Config} {e : Eff} (h : validate c = .ok e) : Accepted c e := by
  unfold validate at h
  split at h
  · cases h
  · rename_i h0
    simp only at h
    split at h
    · cases h
    · rename_i ecs h1
      split at h
      · cases h
      · rename_i tcp udp h2
        split at h
        · cases h
        · rename_i h3
          split at h
          · cases h
          · rename_i h4
            split at h
            · cases h
            · rename_i h5
              split at h
              · cases h
              · rename_i ess h6
                split at h
                · cases h
                · rename_i h7
                  cases h
                  refine ⟨?_, h1, h2, h3, h4, h5, h6, h7, rfl⟩
                  intro hnil
                  rw [hnil] at h0
                  exact h0 rfl

-- ---------------------------------------------------------------- accepted_sound

/-- references of one route resolve (client per network, resolver, servers, sets) -/
structure RouteInv (rt : Route) (c : Config) (e : Eff) : Prop where
  tcpClient : rt.client ≠ "reject" → (rt.network = "" ∨ rt.network = "tcp") → rt.client ∈ e.tcpNames
  udpClient : rt.client ≠ "reject" → (rt.network = "" ∨ rt.network = "udp") → rt.client ∈ e.udpNames
  resolver : rt.resolver ≠ "" → rt.resolver ∈ c.resolvers.map (·.name)
  servers : ∀ n ∈ rt.fromServers, n ∈ c.servers.map (·.name)
  domainSets : ∀ n ∈ rt.toDomainSets, n ∈ c.router.domainSets
  prefixSets : (∀ n ∈ rt.fromPrefixSets, n ∈ c.router.prefixSets) ∧ (∀ n ∈ rt.toPrefixSets, n ∈ c.router.prefixSets)

theorem all_contains {l names : List String} (h : (!l.all names.contains) = false) : ∀ n ∈ l, n ∈ names := by
  intro n hn
  simp only [Bool.not_eq_false', List.all_eq_true] at h
  simpa using h n hn

theorem route_sound {rt : Route} {c : Config} {e : Eff}
    (h : checkRoute rt (c.resolvers.map (·.name)) e.tcpNames e.udpNames (c.servers.map (·.name)) c.router.domainSets c.router.prefixSets = .ok ()) :
    RouteInv rt c e := by
  have ok := checkRoute_ok h
  have k (p : Bool × String) (hp : p ∈ rt.checks (c.resolvers.map (·.name)) e.tcpNames e.udpNames (c.servers.map (·.name)) c.router.domainSets c.router.prefixSets) := ok p hp
  refine ⟨?_, ?_, ?_, ?_, ?_, ?_, ?_⟩
  · intro hc hn
    have := k (rt.client ≠ "reject" && (rt.network = "" || rt.network = "tcp") && !e.tcpNames.contains rt.client, "route-tcp-notfound") (by simp [Route.checks])
    have hn' : (decide (rt.network = "") || decide (rt.network = "tcp")) = true := by
      rcases hn with hn | hn <;> simp [hn]
    simp only [hn', Bool.and_true, ne_eq, hc, not_false_eq_true, decide_true, Bool.true_and, Bool.not_eq_false'] at this
    simpa using this
  · intro hc hn
    have := k (rt.client ≠ "reject" && (rt.network = "" || rt.network = "udp") && !e.udpNames.contains rt.client, "route-udp-notfound") (by simp [Route.checks])
    have hn' : (decide (rt.network = "") || decide (rt.network = "udp")) = true := by
      rcases hn with hn | hn <;> simp [hn]
    simp only [hn', Bool.and_true, ne_eq, hc, not_false_eq_true, decide_true, Bool.true_and, Bool.not_eq_false'] at this
    simpa using this
  · intro hr
    have := k (rt.resolver ≠ "" && !(c.resolvers.map (·.name)).contains rt.resolver, "route-resolver-notfound") (by simp [Route.checks])
    simp only [ne_eq, hr, not_false_eq_true, decide_true, Bool.true_and, Bool.not_eq_false'] at this
    simpa using this
  · exact all_contains (k (!rt.fromServers.all (c.servers.map (·.name)).contains, "route-server-notfound") (by simp [Route.checks]))
  · exact all_contains (k (!rt.toDomainSets.all c.router.domainSets.contains, "route-domainset-notfound") (by simp [Route.checks]))
  · exact all_contains (k (!rt.fromPrefixSets.all c.router.prefixSets.contains, "route-prefixset-notfound") (by simp [Route.checks]))
  · exact all_contains (k (!rt.toPrefixSets.all c.router.prefixSets.contains, "route-prefixset-notfound") (by simp [Route.checks]))

/-- **accepted_sound**: every configuration `Manager` accepts satisfies the invariants the statement names. -/
theorem accepted_sound {c : Config} {e : Eff} (h : validate c = .ok e) :
    -- per server: key lengths, MTU, ss2022 NAT timeout >= replay window, tuning ranges, listeners built
    (∀ s ∈ c.servers, ∃ es ∈ e.servers, checkServer s = .ok es ∧ ServerInv s es) ∧
    -- per client (the default client included): key lengths, MTU
    (∀ k ∈ effectiveClients c, ClientInv k) ∧
    -- names are unique
    ((effectiveClients c).map (·.name)).Nodup ∧ (c.servers.map (·.name)).Nodup ∧ (c.resolvers.map (·.name)).Nodup ∧
    c.router.domainSets.Nodup ∧ c.router.prefixSets.Nodup ∧
    -- every referenced client, resolver, set and server exists
    (∀ rt ∈ c.router.routes, RouteInv rt c e) ∧
    (c.router.defaultTCP ≠ "" → c.router.defaultTCP ≠ "reject" → c.router.defaultTCP ∈ e.tcpNames) ∧
    (c.router.defaultUDP ≠ "" → c.router.defaultUDP ≠ "reject" → c.router.defaultUDP ∈ e.udpNames) := by
  have acc := validate_ok h
  have ⟨cnd, _, call⟩ := checkClients_ok acc.clients
  have ⟨rnd, _, _⟩ := checkResolvers_nodup acc.resolvers
  have ⟨snd, _⟩ := checkUnique_nodup acc.serverNames
  -- router
  have hr := acc.router
  unfold checkRouter at hr
  split at hr
  · cases hr
  · rename_i r1
    split at hr
    · cases hr
    · rename_i r2
      split at hr
      · cases hr
      · rename_i r3
        split at hr
        · cases hr
        · rename_i r4
          have hds : c.router.domainSets.Nodup := by
            unfold setNamesOK at r3
            rw [gen_checks_present.2.1] at r3
            exact (checkUnique_nodup r3).1
          have hps : c.router.prefixSets.Nodup := by
            unfold setNamesOK at r4
            rw [gen_checks_present.2.2] at r4
            exact (checkUnique_nodup r4).1
          refine ⟨?_, ?_, cnd, snd, rnd, hds, hps, ?_, ?_, ?_⟩
          · intro s hs
            obtain ⟨es, hes, hc⟩ := mapE_ok_mem acc.effServers s hs
            exact ⟨es, hes, hc, server_sound hc⟩
          · intro k hk
            obtain ⟨ek, _, hc⟩ := call k hk
            exact client_sound hc
          · intro rt hrt
            exact route_sound (checkRoutes_ok hr rt hrt)
          · intro h1 h2
            simp only [defaultClientOK, Bool.not_eq_true', Bool.or_eq_false_iff, decide_eq_false_iff_not] at r1
            have := r1
            simp only [h2, h1, not_false_eq_true, true_and, Bool.not_eq_false] at this
            simpa using this
          · intro h1 h2
            simp only [defaultClientOK, Bool.not_eq_true', Bool.or_eq_false_iff, decide_eq_false_iff_not] at r2
            have := r2
            simp only [h2, h1, not_false_eq_true, true_and, Bool.not_eq_false] at this
            simpa using this

/-- a non-trivial accepted configuration (ss2022 server with TCP and UDP, natTimeout 2 min) -/
def exServer : Server :=
  { name := "s", proto := .ss128, pskLen := 16, mtu := 1500, tcpListeners := [{}],
    udpListeners := [{ natTimeout := 120000000000 }] }

/-- the error class of a result (`none`: accepted) -/
def errorOf {α : Type} : R α → Option String
  | .error e => some e
  | .ok _ => none

example : errorOf (validate { servers := [exServer] }) = none := by decide

-- ---------------------------------------------------------------- violating_rejected

theorem rejected_of_not_ok {c : Config} (h : ∀ e, validate c ≠ .ok e) : ∃ err, validate c = .error err := by
  cases hv : validate c with
  | error err => exact ⟨err, rfl⟩
  | ok e => exact absurd hv (h e)

/-- **violating_rejected**: a configuration that violates one of the named invariants is refused with an error. -/
theorem violating_rejected {c : Config}
    (bad :
      -- a key (PSK, uPSK store) whose length does not match the method
      (∃ s ∈ c.servers, s.proto.isSS = true ∧ (Doc.keyLen s.proto ≠ some s.pskLen ∨ s.upsk = .missing ∨ ∃ l, s.upsk = .keys l ∧ Doc.keyLen s.proto ≠ some l)) ∨
      (∃ k ∈ effectiveClients c, k.proto.isSS = true ∧ (Doc.keyLen k.proto ≠ some k.pskLen ∨ ∃ n ∈ k.ipskLens, Doc.keyLen k.proto ≠ some n)) ∨
      -- an ss2022 UDP listener (array or legacy) with an explicit NAT timeout below the replay window
      (∃ s ∈ c.servers, s.proto.isSS = true ∧ ∃ l ∈ s.allUDP, l.natTimeout ≠ 0 ∧ l.natTimeout < Doc.replayWindow) ∨
      -- UDP with an MTU below 1280
      (∃ s ∈ c.servers, s.allUDP ≠ [] ∧ s.mtu < Doc.minMTU) ∨
      (∃ k ∈ effectiveClients c, k.enableUDP = true ∧ k.mtu < Doc.minMTU) ∨
      -- tuning knobs outside the documented ranges
      (∃ s ∈ c.servers, ∃ l ∈ s.allUDP, l.relayBatch < 0 ∨ Doc.maxBatch < l.relayBatch ∨ l.recvBatch < 0 ∨ Doc.maxBatch < l.recvBatch ∨
        (l.sendCap ≠ 0 ∧ l.sendCap < Doc.minCapacity)) ∨
      -- duplicate names
      ¬ ((effectiveClients c).map (·.name)).Nodup ∨ ¬ (c.servers.map (·.name)).Nodup ∨ ¬ (c.resolvers.map (·.name)).Nodup ∨
      ¬ c.router.domainSets.Nodup ∨ ¬ c.router.prefixSets.Nodup ∨
      -- dangling references
      (∃ rt ∈ c.router.routes, (rt.resolver ≠ "" ∧ rt.resolver ∉ c.resolvers.map (·.name)) ∨ (∃ n ∈ rt.fromServers, n ∉ c.servers.map (·.name)) ∨
        (∃ n ∈ rt.toDomainSets, n ∉ c.router.domainSets) ∨ (∃ n ∈ rt.fromPrefixSets, n ∉ c.router.prefixSets) ∨ (∃ n ∈ rt.toPrefixSets, n ∉ c.router.prefixSets))) :
    ∃ err, validate c = .error err := by
  apply rejected_of_not_ok
  intro e h
  have ⟨hs, hk, n1, n2, n3, n4, n5, hrt, _, _⟩ := accepted_sound h
  rcases bad with ⟨s, hs', hss, hb⟩ | ⟨k, hk', hss, hb⟩ | ⟨s, hs', hss, l, hl, hnz, hlt⟩ | ⟨s, hs', hne, hlt⟩ | ⟨k, hk', hu, hlt⟩ |
      ⟨s, hs', l, hl, hb⟩ | hb | hb | hb | hb | hb | ⟨rt, hrt', hb⟩
  · obtain ⟨es, _, _, inv⟩ := hs s hs'
    rcases hb with hb | hb | ⟨l, hl, hb⟩
    · exact hb (inv.psk hss)
    · exact (inv.upsk hss).1 hb
    · exact hb ((inv.upsk hss).2 l hl)
  · have inv := hk k hk'
    rcases hb with hb | ⟨n, hn, hb⟩
    · exact hb (inv.psk hss).1
    · exact hb ((inv.psk hss).2 n hn)
  · obtain ⟨es, _, hc, inv⟩ := hs s hs'
    have ok := checkServer_ok hc
    obtain ⟨u, hu, hlu⟩ := mapE_ok_mem ok.udp l hl
    have hnat := (inv.nat hss u hu).2
    rcases (checkUL_ok hlu).nat with ⟨hz, _⟩ | ⟨_, _, heq⟩
    · exact hnz hz
    · rw [heq] at hnat
      omega
  · obtain ⟨es, _, _, inv⟩ := hs s hs'
    have := inv.mtu hne
    omega
  · have := (hk k hk').mtu hu
    omega
  · obtain ⟨es, _, hc, inv⟩ := hs s hs'
    have ok := checkServer_ok hc
    obtain ⟨u, hu, hlu⟩ := mapE_ok_mem ok.udp l hl
    have ulok := checkUL_ok hlu
    have p := inv.perf u hu
    obtain ⟨g1, g2, g3, _, _, _⟩ := gen_perf
    rcases hb with hb | hb | hb | hb | ⟨hb1, hb2⟩
    · rcases rangeDefault_some ulok.relay with ⟨a, _, _⟩ | ⟨a, _⟩ <;> omega
    · rcases rangeDefault_some ulok.relay with ⟨_, a, _⟩ | ⟨a, _⟩
      · rw [g1] at a; omega
      · have : (0 : Int) ≤ Doc.maxBatch := by decide
        omega
    · rcases rangeDefault_some ulok.recv with ⟨a, _, _⟩ | ⟨a, _⟩ <;> omega
    · rcases rangeDefault_some ulok.recv with ⟨_, a, _⟩ | ⟨a, _⟩
      · rw [g2] at a; omega
      · have : (0 : Int) ≤ Doc.maxBatch := by decide
        omega
    · rcases capDefault_some ulok.cap with ⟨a, _⟩ | ⟨a, _⟩
      · rw [g3] at a; omega
      · exact hb1 a
  · exact hb n1
  · exact hb n2
  · exact hb n3
  · exact hb n4
  · exact hb n5
  · have inv := hrt rt hrt'
    rcases hb with ⟨h1, h2⟩ | ⟨n, hn, h2⟩ | ⟨n, hn, h2⟩ | ⟨n, hn, h2⟩ | ⟨n, hn, h2⟩
    · exact h2 (inv.resolver h1)
    · exact h2 (inv.servers n hn)
    · exact h2 (inv.domainSets n hn)
    · exact h2 (inv.prefixSets.1 n hn)
    · exact h2 (inv.prefixSets.2 n hn)

/-- the hypotheses of `violating_rejected` are satisfiable: an ss2022 UDP listener with natTimeout 59 s -/
example : errorOf (validate { servers := [{ exServer with udpListeners := [{ natTimeout := 59000000000 }] }] }) = some "nat-timeout" := by
  decide

-- ---------------------------------------------------------------- legacy_equiv

/-- **legacy_equiv**: a configuration written with the legacy single-listener fields (`enableTCP`, `enableUDP`,
    `natTimeoutSec`, `udp*BatchSize`, ...) is decided exactly like the listener arrays `Config.Migrate` produces:
    same acceptance, same error class, same effective services. -/
theorem legacy_equiv (c : Config) : validate c.migrate = validate c :=
  validate_congr_servers c Server.migrate (fun _ => rfl) (fun s _ => checkServer_migrate s)

/-- non-trivial instance: legacy UDP with natTimeoutSec 59 on an ss2022 server is refused both ways -/
example : errorOf (validate { servers := [{ exServer with udpListeners := [], enableUDP := true, natTimeoutSec := 59 }] }) = some "nat-timeout" ∧
    errorOf (validate (Config.migrate { servers := [{ exServer with udpListeners := [], enableUDP := true, natTimeoutSec := 59 }] })) = some "nat-timeout" :=
  ⟨by decide, by decide⟩

-- ---------------------------------------------------------------- defaults

/-- write the documented default where a policy is omitted or "" -/
def normPolicy (d : String) : Option String → Option String
  | none => some d
  | some s => if s = "" then some d else some s

/-- a UDP listener with every omitted (zero) value replaced by the documented default -/
def explicitUL (l : UL) : UL :=
  { l with natTimeout := if l.natTimeout = 0 then Doc.natTimeout else l.natTimeout,
           relayBatch := if l.relayBatch = 0 then Doc.relayBatch else l.relayBatch,
           recvBatch := if l.recvBatch = 0 then Doc.recvBatch else l.recvBatch,
           sendCap := if l.sendCap = 0 then Doc.sendCapacity else l.sendCap }

/-- a server with every omitted / empty policy, filter size and listener value written out as documented -/
def explicitServer (s : Server) : Server :=
  { s with reject := normPolicy Doc.rejectPolicy s.reject, padding := normPolicy Doc.paddingPolicy s.padding,
           filterSize := if s.filterSize = 0 then Doc.filterSize else s.filterSize,
           udpListeners := s.udpListeners.map explicitUL }

/-- a client with omitted network / padding policy / filter size written out as documented -/
def explicitClient (k : Client) : Client :=
  { k with network := if k.network = "" then "ip" else k.network,
           padding := normPolicy Doc.paddingPolicy k.padding,
           filterSize := if k.filterSize = 0 then Doc.filterSize else k.filterSize }

theorem rejectOf_norm (r : Option String) : rejectOf (normPolicy Doc.rejectPolicy r) = rejectOf r := by
  cases r with
  | none => decide
  | some s =>
    by_cases hs : s = ""
    · subst hs; decide
    · simp [normPolicy, hs]

theorem paddingOf_norm (r : Option String) : paddingOf (normPolicy Doc.paddingPolicy r) = paddingOf r := by
  cases r with
  | none => decide
  | some s =>
    by_cases hs : s = ""
    · subst hs; decide
    · simp [normPolicy, hs]

theorem relay_explicit (x : Int) :
    rangeDefault (if x = 0 then Doc.relayBatch else x) C18.relayBatchMax C18.relayBatchDefault =
    rangeDefault x C18.relayBatchMax C18.relayBatchDefault := by
  by_cases hx : x = 0
  · subst hx; decide
  · rw [if_neg hx]

theorem recv_explicit (x : Int) :
    rangeDefault (if x = 0 then Doc.recvBatch else x) C18.recvBatchMax C18.recvBatchDefault =
    rangeDefault x C18.recvBatchMax C18.recvBatchDefault := by
  by_cases hx : x = 0
  · subst hx; decide
  · rw [if_neg hx]

theorem cap_explicit (x : Int) : capDefault (if x = 0 then Doc.sendCapacity else x) = capDefault x := by
  by_cases hx : x = 0
  · subst hx; decide
  · rw [if_neg hx]

theorem nat_explicit {minNat : Int} (hm : minNat ≤ Doc.natTimeout) (x : Int) :
    natEff minNat (if x = 0 then Doc.natTimeout else x) = natEff minNat x := by
  by_cases hx : x = 0
  · subst hx
    have hnz : Doc.natTimeout ≠ 0 := by decide
    unfold natEff natTooSmall
    rw [if_pos rfl, if_pos rfl, if_neg hnz, gen_nat.2.2.1]
    have : ¬ Doc.natTimeout < minNat := by omega
    simp only [Bool.false_eq_true, if_false, this, decide_false]
    rw [gen_nat.2.1]
  · rw [if_neg hx]

theorem checkUL_explicit {minNat : Int} (hm : minNat ≤ Doc.natTimeout) (l : UL) :
    checkUL minNat (explicitUL l) = checkUL minNat l := by
  unfold checkUL
  simp only [explicitUL, relay_explicit, recv_explicit, cap_explicit, nat_explicit hm]
  first | done | rfl

theorem minNat_le (p : Proto) : minNatOf p ≤ Doc.natTimeout := by
  unfold minNatOf
  split
  · exact gen_nat.2.2.2.2
  · decide

theorem filterOK_explicit (max : Option Nat) (hmax : ∀ m, max = some m → Doc.filterSize ≤ m) (n : Nat) :
    filterSizeOK max (if n = 0 then Doc.filterSize else n) = filterSizeOK max n := by
  by_cases hn : n = 0
  · subst hn
    rw [if_pos rfl]
    cases max with
    | none => rfl
    | some m =>
      have := hmax m rfl
      simp [filterSizeOK, this]
  · rw [if_neg hn]

theorem effFilter_explicit (n : Nat) : effFilterSize (if n = 0 then Doc.filterSize else n) = effFilterSize n := by
  by_cases hn : n = 0
  · subst hn; decide
  · rw [if_neg hn]

/-- omitted ≡ "" ≡ documented default, for one server written with listener arrays -/
theorem checkServer_explicit (s : Server) (hu : s.enableUDP = false) : checkServer (explicitServer s) = checkServer s := by
  have hT : (explicitServer s).allTCP = s.allTCP := rfl
  have hU : (explicitServer s).allUDP = s.udpListeners.map explicitUL := by
    simp [Server.allUDP, explicitServer, hu]
  have hU0 : s.allUDP = s.udpListeners := by simp [Server.allUDP, hu]
  have hmap : mapE (checkUL (minNatOf s.proto)) (s.udpListeners.map explicitUL) = mapE (checkUL (minNatOf s.proto)) s.udpListeners := by
    rw [mapE_map]
    exact mapE_congr (fun l _ => checkUL_explicit (minNat_le s.proto) l)
  have hemp := isEmpty_map explicitUL s.udpListeners
  have hf := filterOK_explicit C18.serverFilterSizeMax (by intro m hm; cases hm; decide) s.filterSize
  have he := effFilter_explicit s.filterSize
  unfold checkServer Server.initChecks Server.udpChecks Server.eff
  rw [hT, hU, hU0]
  simp only [explicitServer, hmap, hemp, hf, he, rejectOf_norm, paddingOf_norm]
  first | done | rfl

/-- omitted ≡ "" ≡ documented default, for one client -/
theorem checkClient_explicit (k : Client) : checkClient (explicitClient k) = checkClient k := by
  have hf := filterOK_explicit C18.clientFilterSizeMax (by intro m hm; cases hm; decide) k.filterSize
  have he := effFilter_explicit k.filterSize
  have hn : networkOK (if k.network = "" then "ip" else k.network) = networkOK k.network := by
    by_cases h : k.network = ""
    · rw [if_pos h, h]; decide
    · rw [if_neg h]
  have hn2 : (if (if k.network = "" then "ip" else k.network) = "" then "ip" else (if k.network = "" then "ip" else k.network)) =
      (if k.network = "" then "ip" else k.network) := by
    by_cases h : k.network = ""
    · rw [if_pos h]; decide
    · rw [if_neg h, if_neg h]
  unfold checkClient Client.checks Client.eff Client.addressesOK
  simp only [explicitClient, hf, he, hn, paddingOf_norm]
  first
    | done
    | (rw [hn2]; first | done | rfl)
    | (by_cases h : k.network = "" <;> simp [h] <;> rfl)

/-- **defaults** (configuration level): after `Config.Migrate`, writing out every omitted / "" policy, every zero
    NAT timeout, batch size, channel capacity and filter size of every server as the DOCUMENTED default
    (README / field comments, `Doc`) changes nothing: same acceptance, same error, same effective services. -/
theorem defaults (c : Config) :
    validate { c.migrate with servers := c.migrate.servers.map explicitServer } = validate c := by
  rw [← legacy_equiv c]
  apply validate_congr_servers c.migrate explicitServer (fun _ => rfl)
  intro s hs
  apply checkServer_explicit
  simp only [Config.migrate, List.mem_map] at hs
  obtain ⟨t, _, ht⟩ := hs
  rw [← ht]
  rfl

/-- what `exServer` (reject / padding policy and filter size omitted) becomes -/
def exEff : EffServer :=
  { name := "s", proto := .ss128, tcp := 1,
    udp := [{ batchMode := "", relayBatch := Doc.relayBatch, recvBatch := Doc.recvBatch, sendCap := Doc.sendCapacity,
              natTimeout := 120000000000 }],
    reject := some Doc.rejectPolicy, padding := some Doc.paddingPolicy, filterSize := some Doc.filterSize }

/-- the three spellings of the reject policy of `exServer` (omitted, "", "ForceReset") give the same services -/
example : checkServer exServer = checkServer { exServer with reject := some "" } ∧
    checkServer exServer = checkServer { exServer with reject := some "ForceReset" } ∧
    checkServer exServer = .ok exEff :=
  ⟨rfl, rfl, rfl⟩

-- ---------------------------------------------------------------- no_crash_configs

theorem two63 : 2 ^ 63 = 9223372036854775808 := by decide

theorem effFilter_bound {max : Option Nat} {m n : Nat} (hmax : max = some m) (hm : m + 63 < 2 ^ 63)
    (h : filterSizeOK max n = true) : 1 ≤ effFilterSize n ∧ effFilterSize n + 63 < 2 ^ 63 := by
  subst hmax
  simp only [filterSizeOK, decide_eq_true_eq] at h
  rw [two63] at hm ⊢
  unfold effFilterSize
  split
  · rw [gen_filter_default]; decide
  · omega

/-- the preconditions under which the packet paths are proved panic-free (C04: `1 ≤ size`, `size+63 < 2^63`;
    C06/F4: the direct server's reply path calls `IPPort()` on the tunnel address when target-only is set) -/
structure NoCrashServer (s : Server) : Prop where
  targetOnly : s.proto = .direct → s.allUDP ≠ [] → s.targetOnly = true → s.tunnel = .ip
  filter : s.proto.isSS = true → 1 ≤ effFilterSize s.filterSize ∧ effFilterSize s.filterSize + 63 < 2 ^ 63

theorem no_crash_server {s : Server} {e : EffServer} (h : checkServer s = .ok e) : NoCrashServer s := by
  have ok := checkServer_ok h
  have i4 := ok.init (s.proto.isSS && !filterSizeOK C18.serverFilterSizeMax s.filterSize, "server-filter-size") (by simp [Server.initChecks])
  have u2 := ok.udpc (!s.allUDP.isEmpty && s.proto = .direct && C18.directTargetOnlyRequiresIP && s.targetOnly && s.tunnel ≠ .ip, "server-targetonly")
    (by simp [Server.udpChecks])
  refine ⟨?_, ?_⟩
  · intro hd hne ht
    have hemp : s.allUDP.isEmpty = false := by
      cases hl : s.allUDP with
      | nil => exact absurd hl hne
      | cons a as => rfl
    rw [gen_checks_present.1] at u2
    simpa [hemp, hd, ht] using u2
  · intro hs
    obtain ⟨⟨m, hm, hb⟩, _⟩ := gen_filter_bound
    simp only [hs, Bool.true_and, Bool.not_eq_false'] at i4
    exact effFilter_bound hm hb i4

/-- **no_crash_configs**: every accepted combination satisfies the preconditions of the no-panic theorems. -/
theorem no_crash_configs {c : Config} {e : Eff} (h : validate c = .ok e) :
    (∀ s ∈ c.servers, NoCrashServer s) ∧
    (∀ k ∈ effectiveClients c, k.proto.isSS = true → 1 ≤ effFilterSize k.filterSize ∧ effFilterSize k.filterSize + 63 < 2 ^ 63) := by
  have acc := validate_ok h
  refine ⟨?_, ?_⟩
  · intro s hs
    obtain ⟨es, _, hc⟩ := mapE_ok_mem acc.effServers s hs
    exact no_crash_server hc
  · intro k hk hss
    have ⟨_, _, call⟩ := checkClients_ok acc.clients
    obtain ⟨ek, _, hc⟩ := call k hk
    have ⟨ok, _⟩ := checkClient_ok hc
    have i := ok (k.proto.isSS && !filterSizeOK C18.clientFilterSizeMax k.filterSize, "client-filter-size") (by simp [Client.checks])
    obtain ⟨_, ⟨m, hm, hb⟩⟩ := gen_filter_bound
    simp only [hss, Bool.true_and, Bool.not_eq_false'] at i
    exact effFilter_bound hm hb i

/-- F4 / F15 witnesses are refused: target-only with a domain; the filter sizes 2^64-1 and 2^64-64 -/
example : errorOf (validate { servers := [{ name := "d", proto := .direct, tunnel := .domain, targetOnly := true, mtu := 1500, udpListeners := [{}] }] }) = some "server-targetonly" ∧
    errorOf (validate { servers := [{ exServer with filterSize := 18446744073709551615 }] }) = some "server-filter-size" ∧
    errorOf (validate { servers := [{ exServer with filterSize := 18446744073709551552 }] }) = some "server-filter-size" :=
  ⟨by decide, by decide, by decide⟩

end SSV.C18

namespace SSV.C18
open SSV.Config SSV.Gen

/-- the whole configuration with every documented default written out (after `Config.Migrate`) -/
def explicitConfig (c : Config) : Config :=
  { c.migrate with servers := c.migrate.servers.map explicitServer, clients := c.clients.map explicitClient }

/-- **defaults** for whole configurations, servers and clients -/
theorem defaults_all (c : Config) : validate (explicitConfig c) = validate c := by
  have hc : validate { c.migrate with clients := c.migrate.clients.map explicitClient } = validate c.migrate :=
    validate_congr_clients c.migrate explicitClient (fun _ => rfl) (fun _ => rfl) (fun _ => rfl) checkClient_explicit
  rw [← legacy_equiv c, ← hc]
  apply validate_congr_servers { c.migrate with clients := c.migrate.clients.map explicitClient } explicitServer (fun _ => rfl)
  intro s hs
  apply checkServer_explicit
  simp only [Config.migrate, List.mem_map] at hs
  obtain ⟨t, _, ht⟩ := hs
  rw [← ht]
  rfl

end SSV.C18

namespace SSV.C18
open SSV.Config SSV.Gen

/-- **accepted_sound**, client groups: group names are unique and differ from every client name; every member
    of a group is a client (or an earlier group) usable for that network. -/
theorem accepted_groups {c : Config} {e : Eff} (h : validate c = .ok e) :
    (c.groups.map (·.name)).Nodup ∧
    (∀ g ∈ c.groups, g.name ∉ (effectiveClients c).map (·.name)) ∧
    (∀ g ∈ c.groups, (∀ m ∈ g.tcpClients, m ∈ e.tcpNames) ∧ (∀ m ∈ g.udpClients, m ∈ e.udpNames)) ∧
    (∀ k ∈ effectiveClients c, (k.enableTCP = true → k.name ∈ e.tcpNames) ∧ (k.enableUDP = true → k.name ∈ e.udpNames)) := by
  have acc := validate_ok h
  have ⟨nd, ns, mem, mt, mu⟩ := checkGroups_ok acc.groups
  refine ⟨nd, (fun g hg => (ns g hg).2), mem, ?_⟩
  intro k hk
  refine ⟨fun ht => mt _ ?_, fun hu => mu _ ?_⟩
  · unfold tcpNamesOf
    exact List.mem_map.mpr ⟨k, List.mem_filter.mpr ⟨hk, by simpa using ht⟩, rfl⟩
  · unfold udpNamesOf
    exact List.mem_map.mpr ⟨k, List.mem_filter.mpr ⟨hk, by simpa using hu⟩, rfl⟩

end SSV.C18

namespace SSV.C18
open SSV.Config SSV.Gen

/-- **accepted_sound**, resolvers: the TCP / UDP client a resolver names exists for that network -/
theorem accepted_resolvers {c : Config} {e : Eff} (h : validate c = .ok e) :
    ∀ r ∈ c.resolvers, (r.tcpClient ≠ "" → r.tcpClient ∈ e.tcpNames) ∧ (r.udpClient ≠ "" → r.udpClient ∈ e.udpNames) := by
  have acc := validate_ok h
  have ⟨_, _, hall⟩ := checkResolvers_nodup acc.resolvers
  intro r hr
  exact checkResolver_ok (hall r hr)

end SSV.C18

namespace SSV.C18
open SSV.Config SSV.Gen

/-- every name a configuration defines for clients: the (effective) clients and the client groups -/
def clientNames (c : Config) : List String := (effectiveClients c).map (·.name) ++ c.groups.map (·.name)

theorem names_sub {c : Config} {e : Eff} (h : validate c = .ok e) :
    (∀ n ∈ e.tcpNames, n ∈ clientNames c) ∧ (∀ n ∈ e.udpNames, n ∈ clientNames c) := by
  have acc := validate_ok h
  have ⟨b1, b2⟩ := checkGroups_sub acc.groups
  refine ⟨?_, ?_⟩
  · intro n hn
    unfold clientNames
    rcases b1 n hn with h1 | h1
    · unfold tcpNamesOf at h1
      obtain ⟨k, hk, hkn⟩ := List.mem_map.mp h1
      exact List.mem_append_left _ (List.mem_map.mpr ⟨k, (List.mem_filter.mp hk).1, hkn⟩)
    · exact List.mem_append_right _ h1
  · intro n hn
    unfold clientNames
    rcases b2 n hn with h1 | h1
    · unfold udpNamesOf at h1
      obtain ⟨k, hk, hkn⟩ := List.mem_map.mp h1
      exact List.mem_append_left _ (List.mem_map.mpr ⟨k, (List.mem_filter.mp hk).1, hkn⟩)
    · exact List.mem_append_right _ h1

/-- **violating_rejected**, references to clients and client-group names: a route, a default client name, a group
    member or a resolver client that names no client or group at all, a duplicate group name, or a group named like a
    client, is refused. -/
theorem dangling_rejected {c : Config}
    (bad :
      (∃ rt ∈ c.router.routes, rt.client ≠ "reject" ∧ (rt.network = "" ∨ rt.network = "tcp" ∨ rt.network = "udp") ∧ rt.client ∉ clientNames c) ∨
      (c.router.defaultTCP ≠ "" ∧ c.router.defaultTCP ≠ "reject" ∧ c.router.defaultTCP ∉ clientNames c) ∨
      (c.router.defaultUDP ≠ "" ∧ c.router.defaultUDP ≠ "reject" ∧ c.router.defaultUDP ∉ clientNames c) ∨
      (∃ g ∈ c.groups, (∃ m ∈ g.tcpClients, m ∉ clientNames c) ∨ (∃ m ∈ g.udpClients, m ∉ clientNames c)) ∨
      (∃ r ∈ c.resolvers, (r.tcpClient ≠ "" ∧ r.tcpClient ∉ clientNames c) ∨ (r.udpClient ≠ "" ∧ r.udpClient ∉ clientNames c)) ∨
      ¬ (c.groups.map (·.name)).Nodup ∨
      (∃ g ∈ c.groups, g.name ∈ (effectiveClients c).map (·.name))) :
    ∃ err, validate c = .error err := by
  apply rejected_of_not_ok
  intro e h
  have ⟨_, _, _, _, _, _, _, hrt, hdt, hdu⟩ := accepted_sound h
  have ⟨gnd, gcn, gmem, _⟩ := accepted_groups h
  have hres := accepted_resolvers h
  have ⟨st, su⟩ := names_sub h
  rcases bad with ⟨rt, hrt', hc, hn, hb⟩ | ⟨h1, h2, hb⟩ | ⟨h1, h2, hb⟩ | ⟨g, hg, hb⟩ | ⟨r, hr, hb⟩ | hb | ⟨g, hg, hb⟩
  · have inv := hrt rt hrt'
    rcases hn with hn | hn | hn
    · exact hb (st _ (inv.tcpClient hc (Or.inl hn)))
    · exact hb (st _ (inv.tcpClient hc (Or.inr hn)))
    · exact hb (su _ (inv.udpClient hc (Or.inr hn)))
  · exact hb (st _ (hdt h1 h2))
  · exact hb (su _ (hdu h1 h2))
  · rcases hb with ⟨m, hm, hb⟩ | ⟨m, hm, hb⟩
    · exact hb (st _ ((gmem g hg).1 m hm))
    · exact hb (su _ ((gmem g hg).2 m hm))
  · rcases hb with ⟨h1, hb⟩ | ⟨h1, hb⟩
    · exact hb (st _ ((hres r hr).1 h1))
    · exact hb (su _ ((hres r hr).2 h1))
  · exact hb gnd
  · exact gcn g hg hb

/-- satisfiable: a route to a client that does not exist -/
example : errorOf (validate { servers := [exServer], router := { routes := [{ name := "r", client := "nosuch" }] } }) = some "route-tcp-notfound" := by
  decide

end SSV.C18

namespace SSV.C18
open SSV.Config SSV.Gen

/-- an accepted configuration with a client, a client group over it and a resolver using the group
    (the hypotheses of `accepted_groups` / `accepted_resolvers` are satisfiable) -/
def exConfig : Config :=
  { servers := [exServer],
    clients := [{ name := "a", proto := .direct, enableTCP := true, enableUDP := true, mtu := 1500 }],
    groups := [{ name := "g", tcpPolicy := "round-robin", tcpClients := ["a"] }],
    resolvers := [{ name := "d", addrValid := true, tcpClient := "g" }],
    router := { defaultTCP := "g", routes := [{ name := "r", network := "tcp", client := "g", resolver := "d", fromServers := ["s"] }] } }

example : errorOf (validate exConfig) = none := by decide

end SSV.C18

namespace SSV.C18
open SSV.Config SSV.Gen

/-- **no_crash_configs**, route matching: in an accepted configuration the `fromServers` bit set of every route
    (capacity `len(serverIndexByName)`) has a bit for the index of EVERY server - also unnamed ones - so
    `SourceServerCriterion.Meet` never indexes out of range, whichever server a request arrives on. -/
theorem server_index_in_range {c : Config} {e : Eff} (h : validate c = .ok e) :
    c.bitsetCapacity = c.servers.length ∧ ∀ i, i < c.servers.length → i < c.bitsetCapacity := by
  have ⟨_, _, _, snd, _⟩ := accepted_sound h
  have hcap : c.bitsetCapacity = c.servers.length := by
    unfold Config.bitsetCapacity
    rw [mapSize_nodup snd, List.length_map]
  exact ⟨hcap, fun i hi => by rw [hcap]; exact hi⟩

/-- why the uniqueness check must cover every server: with two unnamed servers the map has one entry, the second
    server's index is out of range - and such a configuration is refused -/
example : Config.bitsetCapacity { servers := [{ exServer with name := "" }, { exServer with name := "" }] } = 1 ∧
    errorOf (validate { servers := [{ exServer with name := "" }, { exServer with name := "" }] }) = some "dup-server" ∧
    errorOf (validate { servers := [{ exServer with name := "edge" }, { exServer with name := "" }] }) = none :=
  ⟨by decide, by decide, by decide⟩

end SSV.C18

namespace SSV.C18
open SSV.Config SSV.Gen

-- ---------------------------------------------------------------- completeness: generic

theorem firstErr_all_false : ∀ {l : List (Bool × String)}, (∀ p ∈ l, p.1 = false) → firstErr l = none
  | [], _ => rfl
  | (c, e) :: rest, h => by
    have hc : c = false := h (c, e) List.mem_cons_self
    unfold firstErr
    rw [hc]
    simp only [Bool.false_eq_true, if_false]
    exact firstErr_all_false (fun p hp => h p (List.mem_cons_of_mem _ hp))

theorem mapE_complete {α β : Type} {f : α → R β} : ∀ {l : List α}, (∀ x ∈ l, ∃ y, f x = .ok y) → ∃ r, mapE f l = .ok r
  | [], _ => ⟨[], rfl⟩
  | a :: as, h => by
    obtain ⟨y, hy⟩ := h a List.mem_cons_self
    obtain ⟨ys, hys⟩ := mapE_complete (fun x hx => h x (List.mem_cons_of_mem _ hx))
    exact ⟨y :: ys, by unfold mapE; rw [hy, hys]⟩

-- ---------------------------------------------------------------- listeners

/-- the documented conditions on a UDP listener; `floor` is the session server's minimum NAT timeout -/
structure ULSpec (floor : Int) (l : UL) : Prop where
  network : l.network = "udp" ∨ l.network = "udp4" ∨ l.network = "udp6"
  batchMode : l.batchMode = "" ∨ l.batchMode = "no" ∨ l.batchMode = "sendmmsg"
  relay : 0 ≤ l.relayBatch ∧ l.relayBatch ≤ Doc.maxBatch
  recv : 0 ≤ l.recvBatch ∧ l.recvBatch ≤ Doc.maxBatch
  cap : l.sendCap = 0 ∨ Doc.minCapacity ≤ l.sendCap
  nat : l.natTimeout = 0 ∨ floor ≤ l.natTimeout

theorem rangeDefault_complete {x max d : Int} (h0 : 0 ≤ x) (h1 : x ≤ max) : ∃ v, rangeDefault x max d = some v := by
  unfold rangeDefault
  by_cases hx : 0 < x
  · exact ⟨x, by rw [if_pos ⟨hx, h1⟩]⟩
  · have : x = 0 := by omega
    exact ⟨d, by rw [if_neg (fun h => hx h.1), if_pos this]⟩

theorem checkUL_complete {floor : Int} {l : UL} (h : ULSpec floor l) : ∃ e, checkUL floor l = .ok e := by
  obtain ⟨g1, g2, g3, _, _, _⟩ := gen_perf
  have hnet : (decide (l.network = "udp") || decide (l.network = "udp4") || decide (l.network = "udp6")) = true := by
    rcases h.network with h1 | h1 | h1 <;> simp [h1]
  have hbm : C18.batchModes.contains l.batchMode = true := by
    rcases h.batchMode with h1 | h1 | h1 <;> rw [h1] <;> decide
  obtain ⟨rb, hrb⟩ := rangeDefault_complete (max := (C18.relayBatchMax : Int)) (d := (C18.relayBatchDefault : Int)) h.relay.1 (by rw [g1]; exact h.relay.2)
  obtain ⟨sb, hsb⟩ := rangeDefault_complete (max := (C18.recvBatchMax : Int)) (d := (C18.recvBatchDefault : Int)) h.recv.1 (by rw [g2]; exact h.recv.2)
  have hcap : ∃ cc, capDefault l.sendCap = some cc := by
    unfold capDefault
    rcases h.cap with h1 | h1
    · by_cases h2 : (C18.sendCapMin : Int) ≤ l.sendCap
      · exact ⟨_, by rw [if_pos h2]⟩
      · exact ⟨_, by rw [if_neg h2, if_pos h1]⟩
    · exact ⟨_, by rw [if_pos (by rw [g3]; exact h1)]⟩
  obtain ⟨cc, hcc⟩ := hcap
  have hnat : ∃ nt, natEff floor l.natTimeout = some nt := by
    unfold natEff
    by_cases hz : l.natTimeout = 0
    · exact ⟨_, by rw [if_pos hz]⟩
    · rcases h.nat with h1 | h1
      · exact absurd h1 hz
      · have hs : natTooSmall l.natTimeout floor = false := by
          unfold natTooSmall
          rw [gen_nat.2.2.1]
          simp only [Bool.false_eq_true, if_false, decide_eq_false_iff_not]
          omega
        exact ⟨l.natTimeout, by rw [if_neg hz, hs]; simp⟩
  obtain ⟨nt, hnt⟩ := hnat
  refine ⟨{ batchMode := l.batchMode, relayBatch := rb, recvBatch := sb, sendCap := cc, natTimeout := nt }, ?_⟩
  unfold checkUL
  simp only [hnet, hbm, hrb, hsb, hcc, hnt, Bool.not_true, Bool.false_eq_true, if_false]

structure TLSpec (l : TL) : Prop where
  network : l.network = "tcp" ∨ l.network = "tcp4" ∨ l.network = "tcp6"
  timeout : 0 ≤ l.waitTimeout
  buf : 0 ≤ l.waitBuf

theorem checkTL_complete {l : TL} (h : TLSpec l) : ∃ u, checkTL l = .ok u := by
  have hnet : (decide (l.network = "tcp") || decide (l.network = "tcp4") || decide (l.network = "tcp6")) = true := by
    rcases h.network with h1 | h1 | h1 <;> simp [h1]
  have h1 : ¬ l.waitTimeout < 0 := by have := h.timeout; omega
  have h2 : ¬ l.waitBuf < 0 := by have := h.buf; omega
  exact ⟨(), by unfold checkTL; simp only [hnet, h1, h2, Bool.not_true, Bool.false_eq_true, if_false]⟩

-- ---------------------------------------------------------------- servers

/-- the session server advertises exactly the replay window as its minimum NAT timeout -/
theorem gen_nat_exact : (C18.ss2022MinNATTimeout : Int) = (C18.ReplayWindowDuration : Int) := by decide

/-- the smallest explicit NAT timeout a UDP listener of the protocol may carry -/
def natFloor (p : Proto) : Int := if p.isSS then (C18.ReplayWindowDuration : Int) else 0

theorem minNatOf_eq (p : Proto) : minNatOf p = natFloor p := by
  unfold minNatOf natFloor
  rw [gen_nat_exact]

/-- the documented conditions on one server (modelled fields) -/
structure ServerSpec (s : Server) : Prop where
  tunnel : s.proto = .direct → s.tunnel ≠ .absent
  httpTLS : s.proto = .http → s.httpTLS = true → s.httpCertList = true
  httpCert : s.proto = .http → s.allTCP ≠ [] → s.httpCertList = false   -- no certificate store in the modelled subset
  psk : s.proto.isSS = true → Doc.keyLen s.proto = some s.pskLen
  filter : s.proto.isSS = true → s.filterSize ≤ 1048576
  upsk : s.proto.isSS = true → s.upsk ≠ .missing ∧ ∀ l, s.upsk = .keys l → Doc.keyLen s.proto = some l
  tcpProto : s.allTCP ≠ [] → s.proto ≠ .other
  tcpL : ∀ l ∈ s.allTCP, TLSpec l
  mtu : s.allUDP ≠ [] → Doc.minMTU ≤ s.mtu
  udpProto : s.allUDP ≠ [] → s.proto.serverUDP = true
  targetOnly : s.allUDP ≠ [] → s.proto = .direct → s.targetOnly = true → s.tunnel = .ip
  udpL : ∀ l ∈ s.allUDP, ULSpec (natFloor s.proto) l

theorem isEmpty_false_iff {α : Type} {l : List α} : l.isEmpty = false ↔ l ≠ [] := by
  cases l <;> simp

theorem checkServer_complete {s : Server} (h : ServerSpec s) : ∃ e, checkServer s = .ok e := by
  have hfmax : C18.serverFilterSizeMax = some 1048576 := rfl
  have hinit : firstErr s.initChecks = none := by
    apply firstErr_all_false
    intro p hp
    simp only [Server.initChecks, List.mem_cons, List.not_mem_nil, or_false] at hp
    rcases hp with rfl | rfl | rfl | rfl | rfl | rfl
    · by_cases hd : s.proto = .direct
      · have := h.tunnel hd
        cases ht : s.tunnel <;> simp_all [Addr.valid]
      · simp [hd]
    · by_cases hd : s.proto = .http
      · cases ht : s.httpTLS
        · simp
        · simp [h.httpTLS hd ht]
      · simp [hd]
    · cases hs : s.proto.isSS
      · simp
      · have hk := h.psk hs
        have : pskOK s.proto s.pskLen [] = true := by
          unfold pskOK
          rw [gen_pskLen, hk]
          simp
        simp [this]
    · cases hs : s.proto.isSS
      · simp
      · have := h.filter hs
        simp [hfmax, filterSizeOK, this]
    · cases he : s.allTCP.isEmpty
      · have := h.tcpProto (isEmpty_false_iff.mp he)
        cases hp : s.proto <;> simp_all [Proto.serverTCP]
      · simp
    · cases he : s.allTCP.isEmpty
      · by_cases hd : s.proto = .http
        · simp [h.httpCert hd (isEmpty_false_iff.mp he)]
        · simp [hd]
      · simp
  obtain ⟨tl, htl⟩ := mapE_complete (f := checkTL) (l := s.allTCP) (fun l hl => checkTL_complete (h.tcpL l hl))
  have hudp : firstErr s.udpChecks = none := by
    apply firstErr_all_false
    intro p hp
    simp only [Server.udpChecks, List.mem_cons, List.not_mem_nil, or_false] at hp
    cases he : s.allUDP.isEmpty
    · have hne := isEmpty_false_iff.mp he
      rcases hp with rfl | rfl | rfl
      · have := h.mtu hne
        have hm : ¬ s.mtu < (C18.serverMTUMin : Int) := by rw [gen_mtu.1]; omega
        simp [hm]
      · by_cases hd : s.proto = .direct
        · cases ht : s.targetOnly
          · simp
          · simp [h.targetOnly hne hd ht]
        · simp [hd]
      · simp [h.udpProto hne]
    · rcases hp with rfl | rfl | rfl <;> simp [he]
  obtain ⟨uls, huls⟩ := mapE_complete (f := checkUL (minNatOf s.proto)) (l := s.allUDP)
    (fun l hl => by rw [minNatOf_eq]; exact checkUL_complete (h.udpL l hl))
  have hupsk : (s.proto.isSS && !upskOK s.proto s.upsk) = false := by
    cases hs : s.proto.isSS
    · simp
    · have ⟨h1, h2⟩ := h.upsk hs
      cases hu : s.upsk with
      | none => simp [upskOK]
      | missing => exact absurd hu h1
      | keys l =>
        have := h2 l hu
        simp [upskOK, gen_pskLen, this]
  exact ⟨s.eff uls, by unfold checkServer; rw [hinit, htl, hudp, huls, hupsk]; simp⟩


-- ---------------------------------------------------------------- clients

/-- the documented conditions on one client (modelled fields) -/
structure ClientSpec (k : Client) : Prop where
  network : k.network = "" ∨ k.network = "ip" ∨ k.network = "ip4" ∨ k.network = "ip6"
  /-- `endpoint` xor (`tcpAddress` / `udpAddress` for the enabled networks), nothing for `direct` -/
  addresses : k.addressesOK = true
  socks5 : k.proto = .socks5 → k.s5auth = true → lenOK k.s5userLen = true ∧ lenOK k.s5passLen = true
  psk : k.proto.isSS = true → Doc.keyLen k.proto = some k.pskLen ∧ ∀ n ∈ k.ipskLens, Doc.keyLen k.proto = some n
  filter : k.proto.isSS = true → k.filterSize ≤ 1048576
  tcpProto : k.enableTCP = true → k.proto.clientTCP = true
  mtu : k.enableUDP = true → Doc.minMTU ≤ k.mtu
  udpProto : k.enableUDP = true → k.proto.clientUDP = true

theorem checkClient_complete {k : Client} (h : ClientSpec k) : ∃ e, checkClient k = .ok e := by
  have hfmax : C18.clientFilterSizeMax = some 1048576 := rfl
  have hall : firstErr k.checks = none := by
    apply firstErr_all_false
    intro p hp
    simp only [Client.checks, List.mem_cons, List.not_mem_nil, or_false] at hp
    rcases hp with rfl | rfl | rfl | rfl | rfl | rfl | rfl | rfl
    · rcases h.network with h1 | h1 | h1 | h1 <;> simp [networkOK, h1]
    · simp [h.addresses]
    · by_cases hd : k.proto = .socks5
      · cases ha : k.s5auth
        · simp
        · have := h.socks5 hd ha
          simp [this.1, this.2]
      · simp [hd]
    · cases hs : k.proto.isSS
      · simp
      · have ⟨hk, hi⟩ := h.psk hs
        have : pskOK k.proto k.pskLen k.ipskLens = true := by
          unfold pskOK
          rw [gen_pskLen, hk]
          simp only [decide_true, Bool.true_and, List.all_eq_true, decide_eq_true_eq]
          intro n hn
          have := hi n hn
          rw [hk] at this
          exact (Option.some.inj this).symm
        simp [this]
    · cases hs : k.proto.isSS
      · simp
      · have := h.filter hs
        simp [hfmax, filterSizeOK, this]
    · cases ht : k.enableTCP
      · simp
      · simp [h.tcpProto ht]
    · cases hu : k.enableUDP
      · simp
      · have := h.mtu hu
        have hm : ¬ k.mtu < (C18.clientMTUMin : Int) := by rw [gen_mtu.2]; omega
        simp [hm]
    · cases hu : k.enableUDP
      · simp
      · simp [h.udpProto hu]
  exact ⟨k.eff, by unfold checkClient; rw [hall]⟩

theorem checkClients_complete : ∀ {cs : List Client} {seen : List String},
    (cs.map (·.name)).Nodup → (∀ k ∈ cs, k.name ∉ seen) → (∀ k ∈ cs, ClientSpec k) → ∃ es, checkClients seen cs = .ok es
  | [], _, _, _, _ => ⟨[], rfl⟩
  | k :: ks, seen, hnd, hns, hsp => by
    simp only [List.map_cons] at hnd
    have ⟨hk, hnd'⟩ := List.nodup_cons.mp hnd
    obtain ⟨ek, hek⟩ := checkClient_complete (hsp k List.mem_cons_self)
    have hseen : seen.contains k.name = false := by
      have := hns k List.mem_cons_self
      simpa using this
    obtain ⟨es, hes⟩ := checkClients_complete (cs := ks) (seen := k.name :: seen) hnd'
      (by
        intro d hd hmem
        rcases List.mem_cons.mp hmem with heq | hm
        · exact hk (List.mem_map.mpr ⟨d, hd, heq⟩)
        · exact hns d (List.mem_cons_of_mem _ hd) hm)
      (fun d hd => hsp d (List.mem_cons_of_mem _ hd))
    exact ⟨ek :: es, by unfold checkClients; rw [hseen, hek, hes]; simp⟩

theorem checkUnique_complete {code : String} : ∀ {ns seen : List String},
    ns.Nodup → (∀ n ∈ ns, n ∉ seen) → checkUnique code seen ns = .ok ()
  | [], _, _, _ => rfl
  | n :: ns, seen, hnd, hns => by
    have ⟨hn, hnd'⟩ := List.nodup_cons.mp hnd
    have hseen : seen.contains n = false := by
      have := hns n List.mem_cons_self
      simpa using this
    unfold checkUnique
    rw [hseen]
    simp only [Bool.false_eq_true, if_false]
    apply checkUnique_complete hnd'
    intro m hm hmem
    cases hmem with
    | head => exact hn hm
    | tail _ h' => exact hns m (List.mem_cons_of_mem _ hm) h'

-- ---------------------------------------------------------------- the whole configuration

/-- **completeness (partial)**: a configuration whose servers and clients satisfy the documented conditions
    (`ServerSpec`, `ClientSpec`: exactly the conditions `accepted_sound` derives, plus protocol / network /
    address well-formedness) and whose server and client names are unique IS ACCEPTED, provided the client-group,
    resolver, router and API stages succeed.  Together with `accepted_sound` / `violating_rejected` this
    characterises acceptance exactly on the server / client / listener part.
    MISSING for the full statement: declarative specifications (and completeness proofs) of the last four stages -
    their soundness halves are `accepted_groups`, `accepted_resolvers`, `route_sound`, `api_sound`. -/
theorem validate_complete_partial {c : Config}
    (hne : c.servers ≠ [])
    (hsrv : ∀ s ∈ c.servers, ServerSpec s) (hsn : (c.servers.map (·.name)).Nodup)
    (hcl : ∀ k ∈ effectiveClients c, ClientSpec k) (hcn : ((effectiveClients c).map (·.name)).Nodup)
    (hstages : ∃ tcp udp,
      checkGroups ((effectiveClients c).map (·.name)) [] c.groups (tcpNamesOf (effectiveClients c)) (udpNamesOf (effectiveClients c)) = .ok (tcp, udp) ∧
      checkResolvers tcp udp [] c.resolvers = .ok () ∧
      checkRouter c.router (c.resolvers.map (·.name)) tcp udp (c.servers.map (·.name)) = .ok ())
    (hapi : checkApi c.api = .ok ()) :
    ∃ e, validate c = .ok e := by
  obtain ⟨tcp, udp, hg, hr, hro⟩ := hstages
  obtain ⟨ecs, hecs⟩ := checkClients_complete (seen := []) hcn (fun _ _ h => by cases h) hcl
  have hu := checkUnique_complete (code := "dup-server") (seen := []) hsn (fun _ _ h => by cases h)
  obtain ⟨ess, hess⟩ := mapE_complete (f := checkServer) (l := c.servers) (fun s hs => checkServer_complete (hsrv s hs))
  have hemp : c.servers.isEmpty = false := isEmpty_false_iff.mpr hne
  refine ⟨{ clients := ecs, servers := ess, routes := routeKinds c.router, tcpNames := tcp, udpNames := udp }, ?_⟩
  unfold validate
  simp only [hemp, Bool.false_eq_true, if_false, hecs, hg, hr, hu, hro, hess, hapi]

/-- the server / client specifications are also NECESSARY: what `accepted_sound` says, in `ServerSpec` form -/
theorem serverSpec_of_accepted {s : Server} {e : EffServer} (h : checkServer s = .ok e) :
    (s.proto.isSS = true → Doc.keyLen s.proto = some s.pskLen) ∧ (s.allUDP ≠ [] → Doc.minMTU ≤ s.mtu) ∧
    (s.proto = .direct → s.tunnel ≠ .absent) ∧ (s.proto.isSS = true → s.filterSize ≤ 1048576) := by
  have inv := server_sound h
  have ok := checkServer_ok h
  refine ⟨inv.psk, inv.mtu, inv.tunnel, ?_⟩
  intro hs
  have i4 := ok.init (s.proto.isSS && !filterSizeOK C18.serverFilterSizeMax s.filterSize, "server-filter-size") (by simp [Server.initChecks])
  have hfmax : C18.serverFilterSizeMax = some 1048576 := rfl
  simpa [hs, hfmax, filterSizeOK] using i4

/-- the API block: accepted => it has a listener, no TLS listener names a certificate list / CA pool that does not
    exist, and NO pattern reaches `http.ServeMux` that makes it panic (F25 / F26) -/
theorem api_sound {c : Config} {e : Eff} (h : validate c = .ok e) :
    c.api.enabled = true → c.api.listeners ≠ [] ∧ (∀ l ∈ c.api.listeners, l.tls = true → l.certList = false ∧ l.clientCAs = false) ∧
      c.api.secret ≠ .wildcard ∧ c.api.secret ≠ .malformed := by
  intro hen
  have ha := (validate_ok h).api
  unfold checkApi at ha
  rw [hen] at ha
  simp only [Bool.not_true, Bool.false_eq_true, if_false] at ha
  split at ha
  · cases ha
  · rename_i hne
    split at ha
    · cases ha
    · rename_i ls hls
      split at ha
      · cases ha
      · rename_i hmux
        have hm := firstErr_none hmux
        have h1 := hm (C18.apiSecretPathChecked && (c.api.secret = .wildcard || c.api.secret = .malformed), "api-secret-path") (by simp [Api.muxChecks])
        have hchk : C18.apiSecretPathChecked = true := by decide
        rw [hchk] at h1
        refine ⟨isEmpty_false_iff.mp (by simpa using hne), ?_, ?_, ?_⟩
        · intro l hl ht
          obtain ⟨u, _, hu⟩ := mapE_ok_mem hls l hl
          unfold checkApiListener at hu
          split at hu
          · cases hu
          · rename_i hf
            have hf' := firstErr_none hf
            have a1 := hf' (l.tls && l.certList, "api-certlist") (by simp)
            have a2 := hf' (l.tls && l.clientCAs, "api-clientcas") (by simp)
            simp only [ht, Bool.true_and] at a1 a2
            exact ⟨a1, a2⟩
        · intro hw
          simp [hw] at h1
        · intro hw
          simp [hw] at h1

/-- Gen side condition: both guards in front of `http.ServeMux.Handle` exist, hence no `PANIC:` class is reachable -/
theorem gen_api_guards : C18.apiSecretPathChecked = true ∧ C18.apiPprofIndexHasMethod = true := by decide

/-- with the guards, the only error the ServeMux part of `NewServer` can produce is the refusal of a secret path with
    braces: neither panic class of `Api.muxChecks` is reachable -/
theorem api_no_panic (a : Api) (e : String) (h : firstErr a.muxChecks = some e) : e = "api-secret-path" := by
  have ⟨g1, g2⟩ := gen_api_guards
  unfold Api.muxChecks at h
  rw [g1, g2] at h
  simp only [firstErr, Bool.not_true, Bool.false_and, Bool.false_eq_true, if_false, Bool.true_and] at h
  split at h
  · exact (Option.some.inj h).symm
  · cases h

end SSV.C18

namespace SSV.C18
open SSV.Config SSV.Gen

/-- the checks of `checkAddresses` are the independent statements the model mirrors (the extractor accepts no other shape) -/
theorem gen_client_addresses : C18.clientAddressChecksIndependent = true := by decide

/-- the documented address rule of a proxy client: `endpoint` alone, or `tcpAddress` / `udpAddress` with an
    address for EVERY enabled network; nothing is required of a `direct` client -/
structure AddressSpec (k : Client) : Prop where
  exclusive : ¬ (k.endpoint = true ∧ (k.tcpAddr = true ∨ k.udpAddr = true))
  some : k.endpoint = true ∨ k.tcpAddr = true ∨ k.udpAddr = true
  tcp : k.enableTCP = true → k.endpoint = true ∨ k.tcpAddr = true
  udp : k.enableUDP = true → k.endpoint = true ∨ k.udpAddr = true

/-- `checkAddresses` decides exactly the documented rule -/
theorem addressesOK_iff (k : Client) : k.addressesOK = true ↔ (k.proto = .direct ∨ AddressSpec k) := by
  unfold Client.addressesOK
  by_cases hd : k.proto = .direct
  · simp [hd]
  · simp only [hd, if_false, false_or]
    constructor
    · intro h
      cases he : k.endpoint <;> cases ht : k.tcpAddr <;> cases hu : k.udpAddr <;>
        cases hT : k.enableTCP <;> cases hU : k.enableUDP <;> simp_all <;>
        exact ⟨by simp_all, by simp_all, by simp_all, by simp_all⟩
    · intro ⟨h1, h2, h3, h4⟩
      cases he : k.endpoint <;> cases ht : k.tcpAddr <;> cases hu : k.udpAddr <;>
        cases hT : k.enableTCP <;> cases hU : k.enableUDP <;> simp_all

/-- **accepted_sound**, client addresses: every enabled network of every accepted proxy client has an address -/
theorem accepted_client_addresses {c : Config} {e : Eff} (h : validate c = .ok e) :
    ∀ k ∈ effectiveClients c, k.proto ≠ .direct → AddressSpec k := by
  intro k hk hnd
  have acc := validate_ok h
  have ⟨_, _, call⟩ := checkClients_ok acc.clients
  obtain ⟨ek, _, hc⟩ := call k hk
  have ⟨ok, _⟩ := checkClient_ok hc
  have i := ok (!k.addressesOK, "client-address") (by simp [Client.checks])
  have : k.addressesOK = true := by simpa using i
  rcases (addressesOK_iff k).mp this with h1 | h1
  · exact absurd h1 hnd
  · exact h1

/-- **violating_rejected**, client addresses: a proxy client with an enabled network that has no address is refused -/
theorem client_address_rejected {c : Config}
    (bad : ∃ k ∈ effectiveClients c, k.proto ≠ .direct ∧ k.endpoint = false ∧
      ((k.enableTCP = true ∧ k.tcpAddr = false) ∨ (k.enableUDP = true ∧ k.udpAddr = false))) :
    ∃ err, validate c = .error err := by
  apply rejected_of_not_ok
  intro e h
  obtain ⟨k, hk, hnd, hep, hb⟩ := bad
  have sp := accepted_client_addresses h k hk hnd
  rcases hb with ⟨h1, h2⟩ | ⟨h1, h2⟩
  · rcases sp.tcp h1 with h3 | h3 <;> simp_all
  · rcases sp.udp h1 with h3 | h3 <;> simp_all

/-- the seeded witness: both networks enabled, `tcpAddress` only -/
def exSplitClient : Client :=
  { name := "a", proto := .socks5, tcpAddr := true, enableTCP := true, enableUDP := true, mtu := 1500 }

example : errorOf (validate { servers := [exServer], clients := [exSplitClient] }) = some "client-address" ∧
    errorOf (validate { servers := [exServer], clients := [{ exSplitClient with udpAddr := true }] }) = none := by
  decide

end SSV.C18

#print axioms SSV.C18.gen_pskLen
#print axioms SSV.C18.gen_mtu
#print axioms SSV.C18.gen_nat
#print axioms SSV.C18.gen_perf
#print axioms SSV.C18.gen_policy_defaults
#print axioms SSV.C18.gen_filter_default
#print axioms SSV.C18.gen_filter_bound
#print axioms SSV.C18.gen_checks_present
#print axioms SSV.C18.ul_sound
#print axioms SSV.C18.isSS_minNat
#print axioms SSV.C18.pskOK_keyLen
#print axioms SSV.C18.server_sound
#print axioms SSV.C18.client_sound
#print axioms SSV.C18.validate_ok
#print axioms SSV.C18.all_contains
#print axioms SSV.C18.route_sound
#print axioms SSV.C18.accepted_sound
#print axioms SSV.C18.rejected_of_not_ok
#print axioms SSV.C18.violating_rejected
#print axioms SSV.C18.legacy_equiv
#print axioms SSV.C18.rejectOf_norm
#print axioms SSV.C18.paddingOf_norm
#print axioms SSV.C18.relay_explicit
#print axioms SSV.C18.recv_explicit
#print axioms SSV.C18.cap_explicit
#print axioms SSV.C18.nat_explicit
#print axioms SSV.C18.checkUL_explicit
#print axioms SSV.C18.minNat_le
#print axioms SSV.C18.filterOK_explicit
#print axioms SSV.C18.effFilter_explicit
#print axioms SSV.C18.checkServer_explicit
#print axioms SSV.C18.checkClient_explicit
#print axioms SSV.C18.defaults
#print axioms SSV.C18.two63
#print axioms SSV.C18.effFilter_bound
#print axioms SSV.C18.no_crash_server
#print axioms SSV.C18.no_crash_configs
#print axioms SSV.C18.defaults_all
#print axioms SSV.C18.accepted_groups
#print axioms SSV.C18.accepted_resolvers
#print axioms SSV.C18.names_sub
#print axioms SSV.C18.dangling_rejected
#print axioms SSV.C18.gen_replay_window
#print axioms SSV.C18.gen_server_index
#print axioms SSV.C18.server_index_in_range
#print axioms SSV.C18.firstErr_all_false
#print axioms SSV.C18.mapE_complete
#print axioms SSV.C18.rangeDefault_complete
#print axioms SSV.C18.checkUL_complete
#print axioms SSV.C18.checkTL_complete
#print axioms SSV.C18.gen_nat_exact
#print axioms SSV.C18.minNatOf_eq
#print axioms SSV.C18.isEmpty_false_iff
#print axioms SSV.C18.checkServer_complete
#print axioms SSV.C18.checkClient_complete
#print axioms SSV.C18.checkClients_complete
#print axioms SSV.C18.checkUnique_complete
#print axioms SSV.C18.validate_complete_partial
#print axioms SSV.C18.serverSpec_of_accepted
#print axioms SSV.C18.api_sound
#print axioms SSV.C18.gen_api_guards
#print axioms SSV.C18.api_no_panic
#print axioms SSV.C18.gen_client_addresses
#print axioms SSV.C18.addressesOK_iff
#print axioms SSV.C18.accepted_client_addresses
#print axioms SSV.C18.client_address_rejected
