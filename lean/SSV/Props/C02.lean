import SSV.Proofs.StreamHandshake
import SSV.Proofs.StreamSticky
import SSV.Proofs.StreamTimeout
/-
C02 — Tampered, spliced or foreign SS2022 TCP traffic is never delivered as data.
Property theorems only (lemmas: SSV/Proofs/StreamAuth.lean). The attacker is an arbitrary wire.
Hypotheses on the AEAD under the session key (`AeadAuth`): unforgeability relative to the genuine
peer's nonce→plaintext history (`honestOf`: the writer uses each nonce once, C01) and determinism.
`authCrypto` below is an instance, so the theorems are not vacuous.
-/
namespace SSV.C02
open SSV SSV.Stream SSV.Gen.C01

/-- an AEAD that opens exactly the genuine ciphertexts of a given history (non-vacuity witness) -/
def authCrypto (honest : Nat → Option Bytes) : Crypto where
  enc := fun _ _ p => p ++ List.replicate tagSize 0
  dec := fun _ n c => match honest n with
    | some p => if c = p ++ List.replicate tagSize 0 then some p else none
    | none => none
  kdf := fun psk salt => psk ++ salt
  eihEnc := fun _ _ b => b
  eihDec := fun _ _ b => b
  pskHash := fun psk => psk

theorem authCrypto_auth (honest : Nat → Option Bytes) (k : Bytes) : AeadAuth (authCrypto honest) k honest := by
  constructor
  · intro n c p h
    simp only [authCrypto] at h
    split at h
    · split at h
      · cases h; assumption
      · cases h
    · cases h
  · intro n c p h
    simp only [authCrypto] at h ⊢
    split at h
    · split at h
      · cases h; assumption
      · cases h
    · cases h

/-- **reader_prefix**: for every wire the attacker presents and every reader schedule (Read with any
buffer sizes, WriteTo, tunnel copy, in any mixture; the schedule ends at the first error), the bytes
handed to the application are a prefix of what the genuine peer wrote. -/
theorem reader_prefix (C : Crypto) (k : Bytes) (n0 : Nat) (cs : List Bytes)
    (hA : AeadAuth C k (honestOf n0 cs)) (hv : ValidChunks cs) (wire : Bytes) (ops : List ROp) :
    ∃ rest, cs.flatten = ((Reader.run C ⟨k, n0, [], wire⟩ ops).map ROut.bytes).flatten ++ rest := by
  obtain ⟨j, rest, h⟩ := run_prefix hA hv ops ⟨k, n0, [], wire⟩ [] ⟨0, by simp, Or.inr ⟨rfl, rfl⟩⟩
  refine ⟨rest ++ (cs.drop j).flatten, ?_⟩
  have : cs.flatten = (cs.take j).flatten ++ (cs.drop j).flatten := by
    rw [← List.flatten_append, List.take_append_drop]
  rw [this, ← h]
  simp

example : ∃ C k, AeadAuth C k (honestOf 2 [[1, 2, 3]]) ∧ ValidChunks [[1, 2, 3]] :=
  ⟨authCrypto (honestOf 2 [[1, 2, 3]]), [], authCrypto_auth _ _, by
    intro p hp; simp at hp; subst hp; decide⟩

/-- **reader_fails_on_alteration**: a `read` that is positioned at chunk `j` of the genuine stream
returns data only if the bytes in front of it are byte-for-byte the genuine encoding of chunk `j`
(and then it returns exactly that chunk); it reports end of stream only if the wire ends at a
genuine AEAD-chunk boundary. Any alteration inside chunk `j` therefore makes the read fail. -/
theorem reader_fails_on_alteration (C : Crypto) (k : Bytes) (n0 : Nat) (cs : List Bytes)
    (hA : AeadAuth C k (honestOf n0 cs)) (hv : ValidChunks cs) (j : Nat) (w : Bytes) :
    (∀ p, (readChunk C k (n0 + 2 * j) w).res = .ok p →
        cs[j]? = some p ∧ ∃ rest, w = sealChunk C k (n0 + 2 * j) p ++ rest) ∧
    ((readChunk C k (n0 + 2 * j) w).res = .error .eof →
        w = [] ∨ ∃ p, cs[j]? = some p ∧ w = C.enc k (n0 + 2 * j) (be16 p.length)) := by
  have h := readChunk_honest hA hv j w
  exact ⟨fun p hp => ⟨(h.1 p hp).1, _, (h.1 p hp).2.1⟩, fun he => (h.2 he).2⟩

/-- the whole-schedule form of the invariant: after any prefix of a schedule on any wire, what was
handed over plus what is buffered is a whole number of genuine chunks -/
theorem reader_chunk_aligned (C : Crypto) (k : Bytes) (n0 : Nat) (cs : List Bytes)
    (hA : AeadAuth C k (honestOf n0 cs)) (hv : ValidChunks cs) (r : Reader) (delivered : Bytes)
    (hi : Inv k n0 cs r delivered) (op : ROp) :
    ∃ j, (delivered ++ (r.step C op).1.bytes) ++ (r.step C op).2.left = (cs.take j).flatten :=
  (step_inv hA hv r delivered hi op).1

/-- **no_request_without_key**: if `HandleStream` produces a request, then the fixed-length and the
variable-length header both opened (nonces 0 and 1) under the session key of a PSK the server holds
— its own, or that of the user the request is attributed to — for the salt on the wire; under the
unforgeability hypothesis for that key, both were sealed by the genuine holder of the key
(`honest 0`, `honest 1`), and target and payload are the ones in that genuine header. A handshake
altered anywhere in these two chunks, or made under a key the server does not hold, cannot yield a
request. -/
theorem no_request_without_key (C : Crypto) (cfg : ServerCfg) (now : Int) (segs : List Bytes)
    (req : Request) (r : Reader) (salt upsk : Bytes)
    (h : handle C cfg now segs = .request req r salt upsk)
    (honest : Nat → Option Bytes) (hA : AeadAuth C (C.kdf upsk salt) honest) :
    KeyHeld cfg upsk req.user ∧
    ∃ fh vh, honest 0 = some fh ∧ honest 1 = some vh ∧ parseVarHeader vh = .ok (req.addr, req.payload) ∧
      r.key = C.kdf upsk salt ∧ r.nonce = 2 ∧ r.left = [] := by
  obtain ⟨ct, c2, fh, vh, h0, h1, hp, hk, e1, e2, e3⟩ := handle_request_authentic C cfg now segs req r salt upsk h
  exact ⟨hk, fh, vh, hA.uf _ _ _ h0, hA.uf _ _ _ h1, hp, e1, e2, e3⟩

/-- **fallback_untouched**: the bytes handed to the fallback destination are a prefix of the bytes
received, unmodified (no in-place decryption before authentication). -/
theorem fallback_untouched (C : Crypto) (cfg : ServerCfg) (now : Int) (segs : List Bytes) (p : Bytes)
    (h : handle C cfg now segs = .fallback p) : ∃ rest, received segs = p ++ rest :=
  handle_fallback_prefix C cfg now segs p h

/-- **response_bound**: a client's first `Read` returns data only if the response header opened under
the client's own key and carries the client's own request salt; under the unforgeability hypothesis
the genuine server sealed exactly that header, i.e. in answer to this request. A response recorded
from another session (other request salt, or other key) is rejected. -/
theorem response_bound (C : Crypto) (c : CReader) (now : Int) (n : Nat) (bs : Bytes)
    (hc : c.r = none) (h : (c.read C now n).1 = .data bs)
    (honest : Bytes → Nat → Option Bytes) (hA : ∀ salt', AeadAuth C (C.kdf c.psk salt') (honest salt')) :
    ∃ salt' hd, honest salt' 0 = some hd ∧ (hd.headD 0).toNat = HeaderTypeServerStream ∧
      (hd.drop 9).take c.reqSalt.length = c.reqSalt := by
  obtain ⟨ct, salt', hd, h0, h1, h2⟩ := first_read_bound C c now n bs hc h
  exact ⟨salt', hd, (hA salt').uf _ _ _ h0, h1, h2⟩

example (honest : Nat → Option Bytes) : ∃ C, ∀ k, AeadAuth C k honest := ⟨authCrypto honest, authCrypto_auth honest⟩

/-- **reader_prefix_continued** (finding F22 repaired: sticky `readErr`): the attacker presents any
wire and the caller keeps calling — `Read` with any buffer sizes, `WriteTo`, tunnel copy, in any
mixture — also AFTER calls have failed. Everything the conn ever hands over is a prefix of what the
genuine peer wrote. (Without the sticky error this is false of the code: a read issued after an
authentication failure can open a genuine 2-byte payload chunk as a length chunk and hand the next
length field to the caller as data; the check reproduces that on the unrepaired tree.)
Depends on the regenerated fact `readErrorsSticky`. -/
theorem reader_prefix_continued (C : Crypto) (k : Bytes) (n0 : Nat) (cs : List Bytes)
    (hA : AeadAuth C k (honestOf n0 cs)) (hv : ValidChunks cs) (wire : Bytes) (ops : List ROp) :
    ∃ rest, cs.flatten = ((SReader.run C ⟨⟨k, n0, [], wire⟩, none, []⟩ ops).map ROut.bytes).flatten ++ rest := by
  rw [srun_bytes]
  exact reader_prefix C k n0 cs hA hv wire ops

/-- after the first failed call every later call on the conn fails with the same error and hands
over nothing (server conn and client conn alike) -/
theorem failed_conn_stays_failed (C : Crypto) (r : Reader) (e : Err) (later : List Bytes) (ops : List ROp)
    (c : CReader) (hc : c.err = some e) (now : Int) :
    SReader.run C ⟨r, some e, later⟩ ops = ops.map (fun op => failedOut op e) ∧
    (∀ n, c.readS C now n = (.fail e, c)) ∧ c.writeToS C now = (.copied [] (some e), c) ∧
    (∀ st, c.tunnelS C now st = (.copied [] (some e), c)) :=
  ⟨failed_run C r e later ops, client_failed C c e hc now⟩

/-- **retryable_iff_nothing_consumed** (narrower repair F22b), on any wire: (a) a transport deadline
that fires while nothing of the next chunk has been consumed leaves the conn exactly as it was (no
sticky error; the next call goes on with the next stretch of the transport); (b) once the sticky error
is set — by a failure that consumed bytes of an unfinished chunk or a chunk that did not authenticate —
every later call fails with it and hands over nothing. -/
theorem retryable_iff_nothing_consumed (C : Crypto) (s : SReader) (nx : Bytes) (rest : List Bytes)
    (herr : s.err = none) (hleft : s.r.left = []) (hwire : s.r.wire = []) (hlater : s.later = nx :: rest) (op : ROp)
    (r : Reader) (e : Err) (later : List Bytes) (ops : List ROp) :
    s.step C op = (failedOut op .timeout, { r := { s.r with wire := nx }, err := none, later := rest }) ∧
    SReader.run C ⟨r, some e, later⟩ ops = ops.map (fun op => failedOut op e) :=
  ⟨boundary_timeout_unchanged C s nx rest herr hleft hwire hlater op, failed_run C r e later ops⟩

/-- **client_first_read_failure** (the continuation after a failed first read, whatever is on the
wire): a client conn that has no reader yet calls `Read` and gets an error other than end of stream —
prefix mismatch, a response header cut short or segmented, authentication failure, a header that is
not bound to the request, a bad first payload chunk. Then either the error is recorded and EVERY later
call of any kind returns it and hands over nothing, or nothing of the response was consumed and the
conn is exactly a fresh client conn on the same bytes (so the next call is a first call again, covered
by `response_bound` / `response_roundtrip`). In no case does a second attempt start in the middle of
the response. (First call = `Read`; the copy paths use the same `initRead` / first-payload code and
are tied by the tamper engine.) -/
theorem client_first_read_failure (C : Crypto) (c : CReader) (now : Int) (n : Nat) (e : Err)
    (hr : c.r = none) (he : c.err = none) (ht : c.touts = [])
    (hh : (c.readS C now n).1.hardErr = some e) (now' : Int) :
    ((∀ m, (c.readS C now n).2.readS C now' m = (.fail e, (c.readS C now n).2)) ∧
     (c.readS C now n).2.writeToS C now' = (.copied [] (some e), (c.readS C now n).2) ∧
     (∀ st, (c.readS C now n).2.tunnelS C now' st = (.copied [] (some e), (c.readS C now n).2))) ∨
    ((c.readS C now n).2.r = none ∧ (c.readS C now n).2.err = none ∧
      ¬ ((c.readS C now n).2.segs.flatten.length < c.segs.flatten.length)) := by
  rcases client_first_failure C c now n e hr he ht hh with h | h
  · exact Or.inl (client_failed C _ e h now')
  · exact Or.inr h

/-- **failed_open_keeps_nonce** (the nonce counter is only advanced by a successful open — the state
invariant the property's anchors name): a `read` that fails authentication leaves the counter at the
number of chunks it did open: unchanged if the length chunk did not open, advanced by one if the length
chunk opened and the payload chunk did not. Depends on the regenerated fact
`decryptAdvancesOnlyOnSuccess` (the three `Decrypt*` helpers increment inside `if err == nil`). Since
the repair of F22 a failed conn refuses every later read, so a violation of this invariant alone can no
longer be turned into delivered bytes; the check then names this theorem as the broken obligation. -/
theorem failed_open_keeps_nonce (C : Crypto) (k : Bytes) (n : Nat) (w : Bytes)
    (h : (readChunk C k n w).res = .error .auth) :
    (readChunk C k n w).nonce = n ∨ (readChunk C k n w).nonce = n + 1 ∧ ∃ c1 lp, C.dec k n c1 = some lp := by
  have hf : decryptAdvancesOnlyOnSuccess = true := by decide
  unfold readChunk at h ⊢
  split at h
  · left; rfl
  · rename_i c1 w1 hrf
    split at h
    · left; simp [failNonce, hf]
    · rename_i lp hd
      right
      refine ⟨?_, c1, lp, hd⟩
      simp only [] at h ⊢
      by_cases h0 : unbe16 lp = 0
      · simp [h0] at h
      · simp only [h0, ↓reduceIte] at h ⊢
        cases hr2 : readFull (unbe16 lp + tagSize) w1 with
        | error e => rfl
        | ok r2 =>
          obtain ⟨c2, w2⟩ := r2
          simp only [hr2] at h ⊢
          cases hd2 : C.dec k (n + 1) c2 with
          | none => simp [failNonce, hf]
          | some p => simp [hd2] at h

end SSV.C02

#print axioms SSV.C02.authCrypto_auth
#print axioms SSV.C02.reader_prefix
#print axioms SSV.C02.reader_fails_on_alteration
#print axioms SSV.C02.reader_chunk_aligned
#print axioms SSV.C02.no_request_without_key
#print axioms SSV.C02.fallback_untouched
#print axioms SSV.C02.response_bound
#print axioms SSV.C02.reader_prefix_continued
#print axioms SSV.C02.failed_conn_stays_failed
#print axioms SSV.C02.retryable_iff_nothing_consumed
#print axioms SSV.C02.client_first_read_failure
#print axioms SSV.C02.failed_open_keeps_nonce
