import SSV.Proofs.StreamRequest
import SSV.Proofs.StreamStickyBase
import SSV.Proofs.StreamTimeout
import SSV.Proofs.StreamSticky
import SSV.Model.StreamToy
/-
C01 — Shadowsocks 2022 TCP tunnel delivers the exact byte stream both ways.
Property theorems only (helper lemmas: SSV/Proofs/Stream*.lean). `C` is any AEAD/KDF/… satisfying
`AeadOK` (open ∘ seal = id, ciphertext length = plaintext length + tagSize); the `example`s show the
hypotheses are satisfiable (an explicit transparent AEAD).

The theorems depend on `SSV.Gen.C01` (regenerated from /repo on every run): the constants and the
facts `writeToFlushesLeftover`, `tunnelFlushesLeftover` (repair of finding F1). With a fact `false`
the model mirrors the unrepaired code and `stream_roundtrip` no longer checks.
-/
namespace SSV.C01
open SSV SSV.Stream SSV.Gen.C01

/-- a transparent AEAD satisfying the hypotheses (non-vacuity witness) -/
def plainCrypto : Crypto where
  enc := fun _ _ p => p ++ List.replicate tagSize 0
  dec := fun _ _ c => some (c.take (c.length - tagSize))
  kdf := fun psk salt => psk ++ salt
  eihEnc := fun _ _ b => b
  eihDec := fun _ _ b => b
  pskHash := fun psk => (psk ++ List.replicate IdentityHeaderLength 0).take IdentityHeaderLength

theorem plainCrypto_ok : AeadOK plainCrypto :=
  ⟨by intro k n p; simp [plainCrypto], by intro k n p; simp [plainCrypto]⟩

theorem plainCrypto_eih : EihOK plainCrypto :=
  ⟨by intro k s b; rfl, by intro k s b; rfl, by intro p; simp [plainCrypto]⟩

/-- **stream_roundtrip** (layer 1, every copy path): whatever sequence of `Write` / `ReadFrom` calls
produced the chunks (any lengths, including 0 and > 0xFFFF; `ReadFrom` from any scripted `io.Reader`:
short reads of every size, `(0, nil)` reads, data returned together with `io.EOF` or with another
error — `WCall.data` is everything the source handed over up to and including the first result with
an error), however the transport cut the ciphertext
into segments (`segs`, only their concatenation matters), and whatever mixture of `Read(n)` (any
`n ≥ 0`), `WriteTo` and tunnel copy the receiving side runs: no call fails, the calls hand over
consecutive pieces of exactly the written bytes — in order, each byte once — and a call reports the
end of the stream only after all of them. -/
theorem stream_roundtrip (C : Crypto) (hC : AeadOK C) (k : Bytes) (n0 : Nat) (calls : List WCall)
    (segs : List Bytes)
    (hseg : segs.flatten = (Writer.emit C ⟨k, n0⟩ (calls.flatMap WCall.chunks)).1.flatten)
    (ops : List ROp) :
    (Reader.run C ⟨k, n0, [], segs.flatten⟩ ops).length = ops.length ∧
    Delivers (calls.map WCall.data).flatten (Reader.run C ⟨k, n0, [], segs.flatten⟩ ops) := by
  have hs : Sync C ⟨k, n0, [], segs.flatten⟩ (calls.flatMap WCall.chunks) :=
    ⟨by rw [hseg, (emit_flatten C ⟨k, n0⟩ _).1], calls_valid calls⟩
  have := run_ok hC ops _ _ hs
  simpa [pending, calls_flatten] using this

example : ∃ C, AeadOK C := ⟨plainCrypto, plainCrypto_ok⟩

/-- the delivered bytes are a prefix of the written bytes (nothing invented, nothing reordered,
nothing duplicated) … -/
theorem delivered_is_prefix (C : Crypto) (hC : AeadOK C) (k : Bytes) (n0 : Nat) (calls : List WCall) (ops : List ROp) :
    ∃ rest, (calls.map WCall.data).flatten =
      ((Reader.run C ⟨k, n0, [], (Writer.emit C ⟨k, n0⟩ (calls.flatMap WCall.chunks)).1.flatten⟩ ops).map ROut.bytes).flatten ++ rest := by
  have := (stream_roundtrip C hC k n0 calls [(Writer.emit C ⟨k, n0⟩ (calls.flatMap WCall.chunks)).1.flatten] (by simp) ops).2
  simpa using this.prefix

/-- … and when a call reports the end of the stream (a `Read` returning EOF, a `WriteTo` / tunnel
copy returning nil), everything written has been delivered by then, and nothing comes after. -/
theorem eof_only_at_end (C : Crypto) (hC : AeadOK C) (k : Bytes) (n0 : Nat) (calls : List WCall) (ops : List ROp)
    (pre : List ROut) (o : ROut) (post : List ROut)
    (he : Reader.run C ⟨k, n0, [], (Writer.emit C ⟨k, n0⟩ (calls.flatMap WCall.chunks)).1.flatten⟩ ops = pre ++ o :: post)
    (hend : o.sawEnd = true) :
    (calls.map WCall.data).flatten = (pre.map ROut.bytes).flatten ++ o.bytes ∧ (post.map ROut.bytes).flatten = [] := by
  have := (stream_roundtrip C hC k n0 calls [(Writer.emit C ⟨k, n0⟩ (calls.flatMap WCall.chunks)).1.flatten] (by simp) ops).2
  exact Delivers.complete (by simpa using this) pre o post he hend

/-- progress: on an in-sync reader a `Read` into a non-empty buffer returns at least one byte while
bytes are pending and EOF when none are; `WriteTo` and the tunnel copy always run to the end. -/
theorem reader_progress (C : Crypto) (hC : AeadOK C) (r : Reader) (cs : List Bytes) (hs : Sync C r cs) :
    (∀ n, 0 < n → pending r cs ≠ [] → (r.step C (.read n)).1.bytes ≠ []) ∧
    (∀ n, pending r cs = [] → (r.step C (.read n)).1 = .fail .eof) ∧
    (r.step C .writeTo).1 = .copied (if r.left.length = 0 then cs else r.left :: cs) none ∧
    (r.step C .tunnel).1 = .copied (if r.left.length = 0 then cs else r.left :: cs) none := by
  refine ⟨fun n hn hp => ?_, fun n hp => ?_, ?_, ?_⟩
  · obtain ⟨_, h⟩ := step_ok hC r cs hs (.read n); exact h.progress n rfl hn hp
  · obtain ⟨_, h⟩ := step_ok hC r cs hs (.read n); exact h.readEnd n rfl hp
  all_goals
    have hfuel : cs.length < r.wire.length + 1 := by
      rw [hs.wire]; have := encodeChunks_length_ge hC r.key r.nonce cs; omega
    have hf1 : writeToFlushesLeftover = true := by decide
    have hf2 : tunnelFlushesLeftover = true := by decide
    by_cases hl : r.left.length = 0
    · simp [Reader.step, Reader.writeTo, Reader.tunnel, hf1, hf2, hl, copyLoop_sync hC cs _ r [] hs hfuel]
    · have hs' : Sync C { r with left := [] } cs := ⟨hs.wire, hs.valid⟩
      simp [Reader.step, Reader.writeTo, Reader.tunnel, hf1, hf2, hl, copyLoop_sync hC cs _ _ [r.left] hs' hfuel]

/-- **nonce_lockstep**: after any schedule the reader is still in sync with the chunks it has not
consumed, under the same key, and its counter is the writer's counter at that chunk boundary
(the writer ends at `n0 + 2·#chunks`; both advance by two per chunk). -/
theorem nonce_lockstep (C : Crypto) (hC : AeadOK C) (k : Bytes) (n0 : Nat) (calls : List WCall) (ops : List ROp) :
    let w := Writer.emit C ⟨k, n0⟩ (calls.flatMap WCall.chunks)
    let r := Reader.after C ⟨k, n0, [], w.1.flatten⟩ ops
    ∃ cs', Sync C r cs' ∧ r.key = w.2.key ∧ r.nonce + 2 * cs'.length = w.2.nonce := by
  have hs : Sync C ⟨k, n0, [], (Writer.emit C ⟨k, n0⟩ (calls.flatMap WCall.chunks)).1.flatten⟩ (calls.flatMap WCall.chunks) :=
    ⟨by rw [(emit_flatten C ⟨k, n0⟩ _).1], calls_valid calls⟩
  obtain ⟨cs', h1, h2, h3⟩ := after_sync hC ops _ _ hs
  refine ⟨cs', h1, ?_, ?_⟩
  · rw [h2, (emit_flatten C ⟨k, n0⟩ _).2.1]
  · rw [h3, (emit_flatten C ⟨k, n0⟩ _).2.1]

/-- the code's 12-byte little-endian `increment` is the successor the model uses, up to 2^96 -/
theorem increment_is_successor (b : Bytes) (h : b.length = nonceSize) :
    leVal (incrementLE b) = (leVal b + 1) % 2 ^ 96 ∧ (incrementLE b).length = nonceSize := by
  refine ⟨?_, by rw [incrementLE_length, h]⟩
  rw [leVal_incrementLE, h]
  rfl

/-- **segmentation**: `io.ReadFull` over a transport that delivers arbitrary segments (empty ones
included) returns what it returns on the concatenation, and leaves the concatenation's rest. -/
theorem segmentation_irrelevant (segs : List Bytes) (n : Nat) (hn : n ≠ 0) :
    match readFull n segs.flatten with
    | .ok (bs, rest) => ∃ segs', readFullSeg n 0 segs = .ok (bs, segs') ∧ segs'.flatten = rest
    | .error e => readFullSeg n 0 segs = .error e := by
  have h := readFullSeg_flat segs n 0
  unfold readFull
  rw [if_neg hn]
  by_cases hlen : segs.flatten.length < n
  · have e := h.2 hlen
    by_cases h0 : segs.flatten.length = 0
    · rw [if_pos h0]; rw [e, if_pos ⟨rfl, h0⟩]
    · rw [if_neg h0, if_pos hlen]; rw [e, if_neg (fun hh => h0 hh.2)]
  · obtain ⟨segs', e, hf⟩ := h.1 (by omega)
    have h0 : segs.flatten.length ≠ 0 := by omega
    rw [if_neg h0, if_neg hlen]
    exact ⟨segs', e, hf⟩


/-- **p_first_partial** (client side of `p_first` / `request_observed`): `DialStream` puts the first
`room = streamMaxPayloadSize − addrLen − 2` bytes of the initial payload at the end of the
variable-length header, sealed under nonce 1 in the first transport write, and writes the excess
as ordinary chunks from nonce 2 on — so by `stream_roundtrip` (with the excess as the first
`Write`) the server's reads return `P.drop room` followed by the later writes.

The server-side half is `request_observed` below; `p_first` puts the two together. -/
theorem p_first_partial (C : Crypto) (cfg : ClientCfg) (ch : DialChoice) (target : Addr) (payload : Bytes) :
    let d := dial C cfg ch target payload
    let k := C.kdf cfg.psk ch.salt
    d.inReq = payload.take (roomForPayload target) ∧ d.excess = payload.drop (roomForPayload target) ∧
    d.inReq ++ d.excess = payload ∧
    (∃ pre vh, d.segs.head? = some (pre ++ C.enc k 1 vh) ∧ ∃ hd, vh = hd ++ d.inReq) ∧
    (d.segs.drop 1).flatten = encodeChunks C k 2 (writeChunks d.excess) ∧
    d.writer = ⟨k, 2 + 2 * (writeChunks d.excess).length⟩ := by
  have hem := emit_flatten C ⟨C.kdf cfg.psk ch.salt, 2⟩
    (writeChunks (if payload.length > roomForPayload target then payload.drop (roomForPayload target) else []))
  by_cases hgt : payload.length > roomForPayload target
  · simp only [dial, hgt, ↓reduceIte] at hem ⊢
    refine ⟨trivial, trivial, List.take_append_drop _ _, ⟨_, _, rfl, _, rfl⟩, ?_, ?_⟩
    · simpa using hem.1
    · simpa using hem.2.1
  · have hle : payload.length ≤ roomForPayload target := by omega
    simp only [dial, hgt, ↓reduceIte] at hem ⊢
    refine ⟨(List.take_of_length_le hle).symm, (List.drop_of_length_le hle).symm, by simp, ⟨_, _, rfl, _, rfl⟩, ?_, ?_⟩
    · simpa using hem.1
    · simpa using hem.2.1


/-- **response_roundtrip** (server → client, first write and first read): a server conn that has not
written yet writes `b` (any non-empty length: the first `firstCap` bytes travel with the response
header — `4096 ≤ firstCap ≤ 0xFFFF` whatever capacities the Go allocator chose, `CapsOk` — the rest as
ordinary chunks), then performs any further `Write` / `ReadFrom` calls. The transport hands the
client's first read the fixed-length part (`hfr`: one segment that long, or `io.ReadFull` when
segmented headers are allowed). Then the client's first call — `Read` with any buffer length,
`WriteTo`, or the tunnel copy into a server conn (started or not) — hands over the first bytes of
`b` followed by the later writes, in order, and leaves a plain reader in sync with the remaining
chunks, so every later call is covered by `stream_roundtrip`'s invariant (`run_ok`). -/
theorem response_roundtrip (C : Crypto) (hC : AeadOK C) (s : SWriter) (hs : s.w = none) (ch : RespChoice)
    (hcaps : CapsOk s.respPrefix.length s.psk.length ch = true) (hsalt : ch.salt.length = s.psk.length)
    (b : Bytes) (hb : b.length ≠ 0) (calls : List WCall)
    (c : CReader) (now : Int) (hts : ClockOK ch.ts now)
    (hr : c.r = none) (hpsk : c.psk = s.psk) (hpre : c.respPrefix = s.respPrefix) (hrs : c.reqSalt = s.reqSalt)
    (hrsl : s.reqSalt.length = s.psk.length)
    (hfr : ∃ w1, (s.write C ch b).2.w = some w1 ∧
      firstRead c.allowSeg (c.respPrefix.length + c.psk.length + TCPRequestFixedLengthHeaderLength + c.psk.length + tagSize) c.segs =
        .ok (((s.write C ch b).1 ++ (w1.emit C (calls.flatMap WCall.chunks)).1).flatten.take
              (c.respPrefix.length + c.psk.length + TCPRequestFixedLengthHeaderLength + c.psk.length + tagSize))
            (((s.write C ch b).1 ++ (w1.emit C (calls.flatMap WCall.chunks)).1).flatten.drop
              (c.respPrefix.length + c.psk.length + TCPRequestFixedLengthHeaderLength + c.psk.length + tagSize))) :
    let stream := b ++ (calls.map WCall.data).flatten
    (∀ n, ∃ r' cs', (c.read C now n).2.r = some r' ∧ Sync C r' cs' ∧ (c.read C now n).1.err = none ∧
        stream = (c.read C now n).1.bytes ++ pending r' cs' ∧ (0 < n → (c.read C now n).1.bytes ≠ [])) ∧
    ((c.writeTo C now).1.bytes = stream ∧ (c.writeTo C now).1.err = none) ∧
    (∀ started, (c.tunnel C now started).1.bytes = stream ∧ (c.tunnel C now started).1.err = none) := by
  intro stream
  obtain ⟨w1, hw1, hfr⟩ := hfr
  obtain ⟨w1', hw1', hwire⟩ := SWriter_first_write C s hs ch b hb (calls.flatMap WCall.chunks) _ rfl
  have : w1' = w1 := by rw [hw1] at hw1'; exact (Option.some.inj hw1').symm
  subst this
  have hcap := firstCap_bounds _ _ ch hcaps
  let cap := firstCap s.respPrefix.length s.psk.length ch
  have hp0 : (b.take cap).length ≠ 0 := by simp only [List.length_take]; omega
  have hp1 : (b.take cap).length ≤ streamMaxPayloadSize := by simp only [List.length_take]; omega
  have hv : ValidChunks (writeChunks (b.drop cap) ++ calls.flatMap WCall.chunks) :=
    ValidChunks.append (writeChunks_valid _) (calls_valid calls)
  -- the fixed-length part of the wire
  have hlenfix : (s.respPrefix ++ ch.salt ++ C.enc (C.kdf s.psk ch.salt) 0 (respHeader ch.ts s.reqSalt (b.take cap).length)).length =
      s.respPrefix.length + s.psk.length + TCPRequestFixedLengthHeaderLength + s.psk.length + tagSize := by
    simp only [List.length_append, hC.enc_len, respHeader, List.length_cons, be64_length, be16_length, hsalt, hrsl]
    have : TCPRequestFixedLengthHeaderLength = 11 := rfl
    omega
  rw [hpre, hpsk, hwire] at hfr
  have htake : (respWire C s ch (b.take cap) (writeChunks (b.drop cap) ++ calls.flatMap WCall.chunks)).take
      (s.respPrefix.length + s.psk.length + TCPRequestFixedLengthHeaderLength + s.psk.length + tagSize) =
      s.respPrefix ++ ch.salt ++ C.enc (C.kdf s.psk ch.salt) 0 (respHeader ch.ts s.reqSalt (b.take cap).length) := by
    rw [respWire, ← hlenfix, List.take_left]
  have hdrop : (respWire C s ch (b.take cap) (writeChunks (b.drop cap) ++ calls.flatMap WCall.chunks)).drop
      (s.respPrefix.length + s.psk.length + TCPRequestFixedLengthHeaderLength + s.psk.length + tagSize) =
      C.enc (C.kdf s.psk ch.salt) 1 (b.take cap) ++
        encodeChunks C (C.kdf s.psk ch.salt) 2 (writeChunks (b.drop cap) ++ calls.flatMap WCall.chunks) := by
    rw [respWire, ← hlenfix, List.drop_left]
  rw [htake, hdrop] at hfr
  have hfr2 : firstRead c.allowSeg
      (c.respPrefix.length + c.psk.length + TCPRequestFixedLengthHeaderLength + c.psk.length + tagSize) c.segs =
      .ok (c.respPrefix ++ ch.salt ++ C.enc (C.kdf c.psk ch.salt) 0 (respHeader ch.ts c.reqSalt (b.take cap).length))
          (C.enc (C.kdf c.psk ch.salt) 1 (b.take cap) ++
            encodeChunks C (C.kdf c.psk ch.salt) 2 (writeChunks (b.drop cap) ++ calls.flatMap WCall.chunks)) := by
    rw [hpre, hpsk, hrs]; exact hfr
  obtain ⟨hread, hwt, htn⟩ := client_first_call hC ch (b.take cap) _ c now hr (by rw [hpsk]; exact hsalt) hts hp0 hp1 hv hfr2
  have hstream : stream = b.take cap ++ (writeChunks (b.drop cap) ++ calls.flatMap WCall.chunks).flatten := by
    simp only [stream, List.flatten_append, writeChunks_flatten, calls_flatten]
    rw [← List.append_assoc, List.take_append_drop]
  refine ⟨fun n => ?_, ?_, fun started => ?_⟩
  · obtain ⟨r', h1, h2, h3, h4, h5⟩ := hread n
    refine ⟨r', _, h1, h2, h3, ?_, h5⟩
    rw [hstream, pending, ← List.append_assoc, ← h4]
  · rw [hwt, hstream]; exact ⟨by simp [ROut.bytes], rfl⟩
  · rw [htn started, hstream]; exact ⟨by simp [ROut.bytes], rfl⟩


/-- **request_observed**: for every configuration pair (`Paired`: same PSK and no identity header, or
the client's iPSK is the server's and the server's user table maps the client's PSK hash to its
owner — the situation after the relays stripped their headers), every request prefix, every target
`T`, every payload `P`, every admissible draw of salt / padding / timestamp (`RndOk`, `ClockOK`), and
every segmentation that hands the first read the fixed-length part (`hfr`: one segment at least that
long, or `io.ReadFull` when segmented headers are allowed): `HandleStream` returns exactly
`(T up to 4-in-6 unmapping, P.take room, owner)` and a reader positioned at nonce 2 on the bytes
that follow the request. -/
theorem request_observed (C : Crypto) (hC : AeadOK C) (hE : EihOK C) (cc : ClientCfg) (sc : ServerCfg) (user : String)
    (hp : Paired C cc sc user) (ch : DialChoice) (hsalt : ch.salt.length = cc.psk.length)
    (t : Addr) (ht : t.Valid = true) (P : Bytes) (hr : RndOk P.length ch.rnd = true)
    (now : Int) (hts : ClockOK ch.ts now) (req later : Bytes) (tail : List Bytes)
    (hreq : (dial C cc ch t P).segs = req :: tail) (segs : List Bytes)
    (hfr : firstRead sc.allowSeg
        (sc.reqPrefix.length + (if sc.psk.length = 0 then sc.ipsk.length else sc.psk.length) +
          (if sc.psk.length = 0 then IdentityHeaderLength else 0) + TCPRequestFixedLengthHeaderLength + tagSize) segs =
      .ok ((req ++ later).take (sc.reqPrefix.length + (if sc.psk.length = 0 then sc.ipsk.length else sc.psk.length) +
              (if sc.psk.length = 0 then IdentityHeaderLength else 0) + TCPRequestFixedLengthHeaderLength + tagSize))
          ((req ++ later).drop (sc.reqPrefix.length + (if sc.psk.length = 0 then sc.ipsk.length else sc.psk.length) +
              (if sc.psk.length = 0 then IdentityHeaderLength else 0) + TCPRequestFixedLengthHeaderLength + tagSize))) :
    handle C sc now segs =
      .request ⟨t.norm, P.take (roomForPayload t), user⟩ ⟨C.kdf cc.psk ch.salt, 2, [], later⟩ ch.salt cc.psk :=
  request_observed_core hC hE cc sc user hp ch hsalt t ht P hr now hts req later tail hreq segs hfr

example : ∃ (C : Crypto) (cc : ClientCfg) (sc : ServerCfg) (user : String), AeadOK C ∧ EihOK C ∧ Paired C cc sc user :=
  ⟨plainCrypto, ⟨[1], [[2]], [], [], false⟩, ⟨[], [2], [⟨"u", [1]⟩], [], [], false, false⟩, "u",
    plainCrypto_ok, plainCrypto_eih, rfl, Or.inr ⟨rfl, rfl, rfl, by first | rfl | simp [lookupUser, plainCrypto, List.find?]⟩⟩


/-- **request_observed_relayed** (identity-header depth 1, 2, 3, … — with `request_observed` for depth 0
this covers every iPSK chain the property quantifies over): the client is configured with the chain
`front ++ [sc.ipsk]` (`front`: the iPSKs of the SIP023 relays, any number). Every relay decrypts the
first identity header with its iPSK-derived key, finds the hash of the next hop's key, strips the
header and forwards (`relayAll`); what reaches the server — the holder of the last iPSK — is byte for
byte the request of the same client configured with `[sc.ipsk]` alone (`relay_chain`), so
`HandleStream` returns `(T up to 4-in-6 unmapping, P.take room, owner)` as in `request_observed`.
A client that puts the wrong key hash into any header (seeded change C01-4) makes some relay refuse. -/
theorem request_observed_relayed (C : Crypto) (hC : AeadOK C) (hE : EihOK C) (cc : ClientCfg) (sc : ServerCfg) (user : String)
    (front : List Bytes) (hip : cc.ipsks = front ++ [sc.ipsk])
    (hp : Paired C { cc with ipsks := [sc.ipsk] } sc user) (ch : DialChoice) (hsalt : ch.salt.length = cc.psk.length)
    (t : Addr) (ht : t.Valid = true) (P : Bytes) (hr : RndOk P.length ch.rnd = true)
    (now : Int) (hts : ClockOK ch.ts now) (later : Bytes) :
    ∃ req tl forwarded, (dial C cc ch t P).segs = req :: tl ∧
      relayAll C cc.reqPrefix.length ch.salt.length cc.ipsks (req ++ later) = some forwarded ∧
      ∀ segs, firstRead sc.allowSeg
          (sc.reqPrefix.length + (if sc.psk.length = 0 then sc.ipsk.length else sc.psk.length) +
            (if sc.psk.length = 0 then IdentityHeaderLength else 0) + TCPRequestFixedLengthHeaderLength + tagSize) segs =
        .ok (forwarded.take (sc.reqPrefix.length + (if sc.psk.length = 0 then sc.ipsk.length else sc.psk.length) +
                (if sc.psk.length = 0 then IdentityHeaderLength else 0) + TCPRequestFixedLengthHeaderLength + tagSize))
            (forwarded.drop (sc.reqPrefix.length + (if sc.psk.length = 0 then sc.ipsk.length else sc.psk.length) +
                (if sc.psk.length = 0 then IdentityHeaderLength else 0) + TCPRequestFixedLengthHeaderLength + tagSize)) →
        handle C sc now segs =
          .request ⟨t.norm, P.take (roomForPayload t), user⟩ ⟨C.kdf cc.psk ch.salt, 2, [], later⟩ ch.salt cc.psk := by
  obtain ⟨req, req1, tl, h1, h2, h3⟩ := relay_chain_request hE cc front sc.ipsk hip ch t P later
  refine ⟨req, tl, req1 ++ later, h1, h3, fun segs hfr => ?_⟩
  exact request_observed C hC hE { cc with ipsks := [sc.ipsk] } sc user hp ch hsalt t ht P hr now hts req1 later tl h2 segs hfr

/-- **p_first**: `P` arrives as the first bytes of the client→server stream: `P.take room` inside
the request (`request_observed`), and the server's reads — any schedule — on the reader that
`HandleStream` returned deliver `P.drop room` followed by everything the client writes later. -/
theorem p_first (C : Crypto) (hC : AeadOK C) (k : Bytes) (t : Addr) (P : Bytes) (calls : List WCall) (ops : List ROp) :
    let later := encodeChunks C k 2 (writeChunks (P.drop (roomForPayload t)) ++ calls.flatMap WCall.chunks)
    P.take (roomForPayload t) ++ (P.drop (roomForPayload t) ++ (calls.map WCall.data).flatten) =
      P ++ (calls.map WCall.data).flatten ∧
    Delivers (P.drop (roomForPayload t) ++ (calls.map WCall.data).flatten) (Reader.run C ⟨k, 2, [], later⟩ ops) := by
  intro later
  refine ⟨by rw [← List.append_assoc, List.take_append_drop], ?_⟩
  have hs : Sync C ⟨k, 2, [], later⟩ (writeChunks (P.drop (roomForPayload t)) ++ calls.flatMap WCall.chunks) :=
    ⟨rfl, ValidChunks.append (writeChunks_valid _) (calls_valid calls)⟩
  have := (run_ok hC ops _ _ hs).2
  simpa [pending, writeChunks_flatten, calls_flatten] using this


/-- **request_stable**: the target address in the `ConnRequest` is a value: it reads the same when
the server looks at it again after its conn has written (whatever now occupies the buffer the
request was parsed in). Depends on the regenerated fact `connAddrFromSliceCopies`
(`socks5.ConnAddrFromSlice` copies the domain name; `HandleStream` parses inside the conn's write
buffer, so an aliasing parser makes the address change under the server's feet). -/
theorem request_stable (a : Addr) (overwritten : Bytes) : addrSeenLater a overwritten = a := by
  have hf : connAddrFromSliceCopies = true := by decide
  cases a <;> simp [addrSeenLater, hf]

/-- **stream_roundtrip_conn**: `stream_roundtrip` for the conn with its sticky read error
(`readErr`, repair of F22): on a genuine stream the guard never fires, the outcomes are the same. -/
theorem stream_roundtrip_conn (C : Crypto) (hC : AeadOK C) (k : Bytes) (n0 : Nat) (calls : List WCall)
    (segs : List Bytes)
    (hseg : segs.flatten = (Writer.emit C ⟨k, n0⟩ (calls.flatMap WCall.chunks)).1.flatten)
    (ops : List ROp) :
    SReader.run C ⟨⟨k, n0, [], segs.flatten⟩, none, []⟩ ops = Reader.run C ⟨k, n0, [], segs.flatten⟩ ops ∧
    Delivers (calls.map WCall.data).flatten (SReader.run C ⟨⟨k, n0, [], segs.flatten⟩, none, []⟩ ops) := by
  have h := stream_roundtrip C hC k n0 calls segs hseg ops
  have e := srun_eq_run C ops ⟨k, n0, [], segs.flatten⟩ h.1
  exact ⟨e, by rw [e]; exact h.2⟩


/-- **transient_timeout_at_chunk_boundary**: the transport reports read deadlines (a `Read` of the
transport returning a timeout error with 0 bytes) at chunk boundaries — any number of them, at any
boundaries, several at the same boundary (empty groups): the stream is the concatenation of the
chunk groups `g0 :: gs`, a deadline fires after each group. Whatever schedule the caller runs — `Read`
with any buffer sizes, `WriteTo`, tunnel copy, in any mixture, calling again after every reported
deadline — the calls hand over consecutive pieces of exactly the written bytes, in order, each byte
once; the only errors reported are the deadlines (one per scripted deadline) and end of stream, the
latter only after everything; the conn's sticky error is never set. A copy call runs until the end
of the stream or the next deadline. Depends on the regenerated facts `readErrorsSticky` and
`boundaryTimeoutRetryable` (the sticky read error is set only when bytes of an unfinished chunk were
consumed or a chunk failed to authenticate). -/
theorem transient_timeout_at_chunk_boundary (C : Crypto) (hC : AeadOK C) (k : Bytes) (n0 : Nat)
    (g0 : List Bytes) (gs : List (List Bytes)) (hv0 : ValidChunks g0) (hv : ∀ g ∈ gs, ValidChunks g) (ops : List ROp) :
    let s : SReader := { r := ⟨k, n0, [], encodeChunks C k n0 g0⟩, later := encodeGroups C k (n0 + 2 * g0.length) gs }
    DeliversT (g0.flatten ++ (gs.map List.flatten).flatten) (s.run C ops) ∧ (s.after C ops).err = none ∧
    (∀ op, (∀ n, op ≠ .read n) → (s.step C op).1.sawEnd = true ∨ (s.step C op).1.err = some .timeout) := by
  intro s
  have hs : TSync C s g0 gs := ⟨rfl, ⟨rfl, hv0⟩, rfl, hv⟩
  obtain ⟨h1, h2⟩ := trun_ok hC ops s g0 gs hs
  refine ⟨by simpa [pendingT, pending, s] using h1, h2, fun op hop => ?_⟩
  obtain ⟨_, _, h⟩ := tstep_ok hC s g0 gs hs op
  exact h.copy hop

/-- **midchunk_timeout_is_permanent** (the negative): the deadline fires after `k > 0` bytes of a
chunk (the stretch `q` is a non-empty proper prefix of the chunk's encoding): the call hands over
nothing and reports the deadline, and every later call of any kind fails with it and hands over
nothing — cipher and stream are out of step, nothing may be authenticated in the chunk's place. -/
theorem midchunk_timeout_is_permanent (C : Crypto) (hC : AeadOK C) (s : SReader) (p q q2 nx : Bytes) (rest : List Bytes)
    (herr : s.err = none) (hleft : s.r.left = []) (hwire : s.r.wire = q) (hlater : s.later = nx :: rest)
    (h0 : p.length ≠ 0) (hmax : p.length ≤ streamMaxPayloadSize)
    (hq : sealChunk C s.r.key s.r.nonce p = q ++ q2) (hq1 : q ≠ []) (hq2 : q2 ≠ []) (op : ROp) (ops : List ROp) :
    (s.step C op).1.bytes = [] ∧ (s.step C op).1.err = some .timeout ∧
    SReader.run C (s.step C op).2 ops = ops.map (fun op => failedOut op .timeout) := by
  obtain ⟨h1, h2, h3⟩ := midchunk_timeout hC s p q q2 nx rest herr hleft hwire hlater h0 hmax hq hq1 hq2 op
  refine ⟨h1, h2, ?_⟩
  have := failed_run C (s.step C op).2.r .timeout (s.step C op).2.later ops
  rw [← h3] at this
  exact this


/-- **response_roundtrip_readfrom**: the server's first write is a `ReadFrom` from ANY scripted source —
short reads of every size, `(0, nil)` reads, data returned together with `io.EOF` (the
`iotest.DataErrReader` style) or with another error, also in the very first read, also when everything
fits the first chunk and nothing was written before. Every byte the source hands over
(`Src.takenServerFirst`) reaches the client, in order, once: the first bytes travel with the response
header, the rest as chunks; the client's first `WriteTo` / tunnel copy delivers all of it, a first
`Read` delivers its beginning and leaves a reader in sync with the rest. Depends on the regenerated
facts `readFromHandlesDataFirst` and `serverFirstReadHandlesDataFirst` (the loops handle `nr > 0`
before they look at `err`). -/
theorem response_roundtrip_readfrom (C : Crypto) (hC : AeadOK C) (s : SWriter) (hs : s.w = none) (ch : RespChoice)
    (hcaps : CapsOk s.respPrefix.length s.psk.length ch = true) (hsalt : ch.salt.length = s.psk.length)
    (src : Src) (hsome : Src.takenServerFirst (firstCap s.respPrefix.length s.psk.length ch) src ≠ [])
    (c : CReader) (now : Int) (hts : ClockOK ch.ts now)
    (hr : c.r = none) (hpsk : c.psk = s.psk) (hpre : c.respPrefix = s.respPrefix) (hrs : c.reqSalt = s.reqSalt)
    (hrsl : s.reqSalt.length = s.psk.length)
    (hfr : firstRead c.allowSeg (c.respPrefix.length + c.psk.length + TCPRequestFixedLengthHeaderLength + c.psk.length + tagSize) c.segs =
        .ok ((s.readFrom C ch src).1.flatten.take (c.respPrefix.length + c.psk.length + TCPRequestFixedLengthHeaderLength + c.psk.length + tagSize))
            ((s.readFrom C ch src).1.flatten.drop (c.respPrefix.length + c.psk.length + TCPRequestFixedLengthHeaderLength + c.psk.length + tagSize))) :
    let stream := Src.takenServerFirst (firstCap s.respPrefix.length s.psk.length ch) src
    (∀ n, ∃ r' cs', (c.read C now n).2.r = some r' ∧ Sync C r' cs' ∧ (c.read C now n).1.err = none ∧
        stream = (c.read C now n).1.bytes ++ pending r' cs' ∧ (0 < n → (c.read C now n).1.bytes ≠ [])) ∧
    ((c.writeTo C now).1.bytes = stream ∧ (c.writeTo C now).1.err = none) ∧
    (∀ started, (c.tunnel C now started).1.bytes = stream ∧ (c.tunnel C now started).1.err = none) := by
  intro stream
  have hcap := firstCap_bounds _ _ ch hcaps
  rcases SWriter_first_readFrom C s hs ch src (by omega) with ⟨hnil, _⟩ | ⟨p0, cs, h0, hle, hv, hdata, hwire⟩
  · exact absurd hnil hsome
  · rw [hwire] at hfr
    obtain ⟨hread, hwt, htn⟩ := client_first_call_respWire hC s ch p0 cs c now hts hsalt hr hpsk hpre hrs hrsl h0 (by omega) hv hfr
    refine ⟨fun n => ?_, ?_, fun started => ?_⟩
    · obtain ⟨r', h1, h2, h3, h4, h5⟩ := hread n
      refine ⟨r', cs, h1, h2, h3, ?_, h5⟩
      show stream = _
      rw [pending, ← List.append_assoc, ← h4]; exact hdata.symm
    · rw [hwt]; exact ⟨by simpa [ROut.bytes] using hdata, rfl⟩
    · rw [htn started]; exact ⟨by simpa [ROut.bytes] using hdata, rfl⟩


/-- **writeto_into_any_sink**: `WriteTo(w)` on an in-sync conn into ANY sink that keeps the `io.Writer`
contract (it may take fewer bytes than offered, with an error, at any call — also for the flushed
left-over): what the sink has taken is a prefix of the pending stream (in order, nothing twice); the
only error reported is the sink's; if the sink never failed it has taken everything. -/
theorem writeto_into_any_sink (C : Crypto) (hC : AeadOK C) (r : Reader) (cs : List Bytes) (hs : Sync C r cs)
    (hleft : r.left.length ≤ streamMaxPayloadSize) (sink : List SinkRes) (hk : SinkOK sink) :
    ∃ pieces e, (r.writeToSink C sink).1 = .copied pieces e ∧ (∃ rest, pending r cs = pieces.flatten ++ rest) ∧
      (e = none → pieces.flatten = pending r cs) ∧ (e = none ∨ e = some .sinkErr) := by
  have hf : writeToFlushesLeftover = true := by decide
  have hfuel : cs.length < r.wire.length + 1 := by
    rw [hs.wire]; have := encodeChunks_length_ge hC r.key r.nonce cs; omega
  by_cases hl : r.left.length = 0
  · have hl' : r.left = [] := List.length_eq_zero_iff.mp hl
    obtain ⟨pieces, e, h1, h2, h3, h4⟩ := copyLoopSink_prefix hC cs _ r sink [] hs hk hfuel
    refine ⟨pieces, e, ?_, ?_, ?_, h4⟩
    · simpa [Reader.writeToSink, hf, hl] using h1
    · simpa [pending, hl'] using h2
    · simpa [pending, hl'] using h3
  · obtain ⟨⟨rest0, hpre⟩, hfull, hk'⟩ := sinkWrite_ok hk r.left hleft
    by_cases he : (sinkWrite sink r.left).2.1 = true
    · refine ⟨[(sinkWrite sink r.left).1], some .sinkErr, ?_⟩
      refine And.intro ?_ (And.intro ?_ (And.intro (fun h => nomatch h) (Or.inr rfl)))
      · simp [Reader.writeToSink, hf, hl, he]
      · refine ⟨rest0 ++ cs.flatten, ?_⟩
        simp only [pending, List.flatten_cons, List.flatten_nil, List.append_nil]
        rw [← List.append_assoc, ← hpre]
    · have he' : (sinkWrite sink r.left).2.1 = false := by simpa using he
      have ha := hfull he'
      have hs' : Sync C { r with left := r.left.drop (sinkWrite sink r.left).1.length } cs := ⟨hs.wire, hs.valid⟩
      obtain ⟨pieces, e, h1, ⟨rest, h2⟩, h3, h4⟩ := copyLoopSink_prefix hC cs _ _ (sinkWrite sink r.left).2.2 [(sinkWrite sink r.left).1] hs' hk' hfuel
      refine ⟨(sinkWrite sink r.left).1 :: pieces, e, ?_⟩
      refine And.intro ?_ (And.intro ?_ (And.intro (fun h => ?_) h4))
      · simpa [Reader.writeToSink, hf, hl, he'] using h1
      · exact ⟨rest, by simp only [pending, List.flatten_cons, ha, h2, List.append_assoc]⟩
      · simp only [pending, List.flatten_cons, ha, h3 h]


/-- **destination_write_failure**: a copy (`WriteTo`, or the tunnel copy, whose destination conn fails
when its transport refuses a write: `accept = 0` together with the error) into a destination that
fails at any call. The error surfaces; what the destination took is a prefix of the pending stream; the
source conn stays in sync: the stream is exactly (taken) ++ (lost: at most the rest of the ONE chunk
that was in flight; if the failure hit the flush of the left-over, nothing — the left-over stays
buffered) ++ (still pending, to be delivered by later calls) — nothing is delivered twice, nothing
beyond the chunk in flight is lost, and the bytes counted as copied are bytes the destination took. -/
theorem destination_write_failure (C : Crypto) (hC : AeadOK C) (r : Reader) (cs : List Bytes) (hs : Sync C r cs)
    (hleft : r.left.length ≤ streamMaxPayloadSize) (sink : List SinkRes) (hk : SinkOK sink) :
    ∃ pieces e cs' lost, (r.writeToSink C sink).1 = .copied pieces e ∧ Sync C (r.writeToSink C sink).2.1 cs' ∧
      pending r cs = pieces.flatten ++ lost ++ pending (r.writeToSink C sink).2.1 cs' ∧
      lost.length ≤ streamMaxPayloadSize ∧ (e = none → lost = [] ∧ pending (r.writeToSink C sink).2.1 cs' = []) ∧
      (e = none ∨ e = some .sinkErr) := by
  have hf : writeToFlushesLeftover = true := by decide
  have hfuel : cs.length < r.wire.length + 1 := by
    rw [hs.wire]; have := encodeChunks_length_ge hC r.key r.nonce cs; omega
  by_cases hl : r.left.length = 0
  · have hl' : r.left = [] := List.length_eq_zero_iff.mp hl
    obtain ⟨pieces, e, cs', lost, h1, h2, h2l, h3, h4, h5, h6⟩ := copyLoopSink_sync hC cs _ r sink [] hs hk hfuel
    have e0 : r.writeToSink C sink = copyLoopSink C (r.wire.length + 1) r sink [] := by
      simp [Reader.writeToSink, hf, hl]
    rw [e0]
    refine ⟨pieces, e, cs', lost, ?_⟩
    refine And.intro (by simpa using h1) (And.intro h2 (And.intro ?_ (And.intro h4 (And.intro (fun h => ?_) h6))))
    · simp only [pending, h2l, hl', List.nil_append]; exact h3
    · obtain ⟨a, b⟩ := h5 h; exact ⟨a, by simp [pending, h2l, hl', b]⟩
  · obtain ⟨⟨rest0, hpre⟩, hfull, hk'⟩ := sinkWrite_ok hk r.left hleft
    by_cases he : (sinkWrite sink r.left).2.1 = true
    · -- the flush failed: what the destination did not take stays buffered
      have e0 : r.writeToSink C sink = (.copied [(sinkWrite sink r.left).1] (some .sinkErr),
          { r with left := r.left.drop (sinkWrite sink r.left).1.length }, (sinkWrite sink r.left).2.2) := by
        simp [Reader.writeToSink, hf, hl, he]
      rw [e0]
      generalize (sinkWrite sink r.left).1 = a at hpre
      have hd : r.left.drop a.length = rest0 := by rw [hpre, List.drop_left]
      refine ⟨[a], some .sinkErr, cs, [], ?_⟩
      refine And.intro rfl (And.intro ⟨hs.wire, hs.valid⟩ (And.intro ?_ (And.intro (by simp) (And.intro (fun h => nomatch h) (Or.inr rfl)))))
      simp only [pending, List.flatten_cons, List.flatten_nil, List.append_nil, hd]
      rw [hpre, List.append_assoc]
    · have he' : (sinkWrite sink r.left).2.1 = false := by simpa using he
      have ha := hfull he'
      have hs' : Sync C { r with left := r.left.drop (sinkWrite sink r.left).1.length } cs := ⟨hs.wire, hs.valid⟩
      obtain ⟨pieces, e, cs', lost, h1, h2, h2l, h3, h4, h5, h6⟩ :=
        copyLoopSink_sync hC cs _ _ (sinkWrite sink r.left).2.2 [(sinkWrite sink r.left).1] hs' hk' hfuel
      have e0 : r.writeToSink C sink = copyLoopSink C (r.wire.length + 1)
          { r with left := r.left.drop (sinkWrite sink r.left).1.length } (sinkWrite sink r.left).2.2 [(sinkWrite sink r.left).1] := by
        simp [Reader.writeToSink, hf, hl, he']
      have hdrop : r.left.drop (sinkWrite sink r.left).1.length = [] := by rw [ha]; simp
      rw [e0]
      have h2l' : (copyLoopSink C (r.wire.length + 1) { r with left := r.left.drop (sinkWrite sink r.left).1.length }
          (sinkWrite sink r.left).2.2 [(sinkWrite sink r.left).1]).2.1.left = [] := by rw [h2l]; exact hdrop
      refine ⟨(sinkWrite sink r.left).1 :: pieces, e, cs', lost, ?_⟩
      refine And.intro ?_ (And.intro h2 (And.intro ?_ (And.intro h4 (And.intro (fun h => ?_) h6))))
      · rw [h1]; simp
      · simp only [pending, h2l', List.nil_append, List.flatten_cons]
        rw [h3]
        conv => lhs; rw [← ha]
        simp only [List.append_assoc]
      · obtain ⟨x, y⟩ := h5 h; exact ⟨x, by simp [pending, h2l', y]⟩


/-- **dial_context_released**: when `DialStream` returns, nothing is registered on the dial context any
more, for every payload length (in particular on both sides of `room`, where the excess is written
through `netio.ConnWriteContext`): cancelling the dial context, or its deadline expiring, after the dial
cannot reach into the session, so every clause above holds for such sessions unchanged. Depends on the
regenerated fact `connWriteContextAlwaysStops` (`ConnWriteContextFunc` calls `stop()` unconditionally). -/
theorem dial_context_released (C : Crypto) (cc : ClientCfg) (ch : DialChoice) (t : Addr) (P : Bytes) :
    (dial C cc ch t P).ctxArmed = false := by
  have hf : connWriteContextAlwaysStops = true := by decide
  simp [dial, hf]

/-- the splitting loops of `Write` / `ReadFrom` lose nothing and respect the chunk limit -/
theorem writer_chunks_valid (calls : List WCall) :
    ValidChunks (calls.flatMap WCall.chunks) ∧
    (calls.flatMap WCall.chunks).flatten = (calls.map WCall.data).flatten :=
  ⟨calls_valid calls, calls_flatten calls⟩

end SSV.C01

#print axioms SSV.C01.plainCrypto_ok
#print axioms SSV.C01.stream_roundtrip
#print axioms SSV.C01.delivered_is_prefix
#print axioms SSV.C01.eof_only_at_end
#print axioms SSV.C01.reader_progress
#print axioms SSV.C01.nonce_lockstep
#print axioms SSV.C01.increment_is_successor
#print axioms SSV.C01.segmentation_irrelevant
#print axioms SSV.C01.writer_chunks_valid
#print axioms SSV.C01.p_first_partial
#print axioms SSV.C01.response_roundtrip
#print axioms SSV.C01.plainCrypto_eih
#print axioms SSV.C01.request_observed
#print axioms SSV.C01.p_first
#print axioms SSV.C01.request_stable
#print axioms SSV.C01.stream_roundtrip_conn
#print axioms SSV.C01.transient_timeout_at_chunk_boundary
#print axioms SSV.C01.midchunk_timeout_is_permanent
#print axioms SSV.C01.response_roundtrip_readfrom
#print axioms SSV.C01.writeto_into_any_sink
#print axioms SSV.C01.request_observed_relayed
#print axioms SSV.C01.destination_write_failure
#print axioms SSV.C01.dial_context_released
