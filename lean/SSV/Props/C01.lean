import SSV.Model.Stream
/-
C01 — property theorems (work in progress: the codec lemmas come first).
-/
namespace SSV.C01
open SSV SSV.Stream

/-- `io.ReadFull` only depends on the concatenation: reading `n > 0` bytes from a wire that has them
returns exactly the first `n` bytes and leaves the rest. -/
theorem readFull_append (a b : Bytes) (h : a.length ≠ 0) :
    readFull a.length (a ++ b) = .ok (a, b) := by
  simp [readFull, h]

end SSV.C01

#print axioms SSV.C01.readFull_append
