import SSV.Model.RelayLifeCfg
import SSV.Proofs.RelayLifeThms
/-
C12 — UDP sessions end cleanly: idle eviction, restart after eviction, prompt shutdown (PARTIAL: all
interleavings of the MODEL; the real scheduler/timers are sampled by corr_c12).

The model (SSV/Model/RelayLife.lean) is instantiated with the configurations that the step programs regenerated
from service/udp_nat.go, udp_nat_mmsg.go, udp_session.go, udp_session_mmsg.go denote (`cfgOf`).  A program shape
the model does not mirror, or a missing re-check in an uplink, makes this file fail to elaborate.

Full statement of the shutdown part ("after Stop every goroutine reaches its end in every fair run, without waiting
for the NAT timer") is proved as its safety parts: `stop_needs_no_timer` (no state after Stop's pass has a downlink
sleeping on a future deadline unless its uplink is about to force it) and `all_threads_exit_partial` (when
`wg.Wait` returns everything has returned).  Not proved: global deadlock-freedom / termination under fairness.
-/
namespace SSV.C12
open SSV.RelayLife SSV.Gen

/-- configurations denoted by the regenerated step programs (elaboration fails on an unrecognised shape) -/
def cfgNatGeneric : Cfg := (cfgOf progsNatGeneric C12.defaultSendChannelCapacity).get (by decide)
def cfgNatMmsg : Cfg := (cfgOf progsNatMmsg C12.defaultSendChannelCapacity).get (by decide)
def cfgSessionGeneric : Cfg := (cfgOf progsSessionGeneric C12.defaultSendChannelCapacity).get (by decide)
def cfgSessionMmsg : Cfg := (cfgOf progsSessionMmsg C12.defaultSendChannelCapacity).get (by decide)

/-- the four relay files, with any send-channel capacity -/
def fileCfg (c : Cfg) : Prop :=
  ∃ cap, c = { cfgNatGeneric with cap := cap } ∨ c = { cfgNatMmsg with cap := cap } ∨
         c = { cfgSessionGeneric with cap := cap } ∨ c = { cfgSessionMmsg with cap := cap }

/-- Gen side condition: every uplink re-checks the shutdown state after re-arming the deadline (F9 repaired) -/
theorem uplinks_recheck : cfgNatGeneric.recheck = true ∧ cfgNatMmsg.recheck = true ∧
    cfgSessionGeneric.recheck = true ∧ cfgSessionMmsg.recheck = true := by decide

theorem fileCfg_recheck {c : Cfg} (h : fileCfg c) : c.recheck = true := by
  obtain ⟨cap, h | h | h | h⟩ := h <;> subst h <;> simp [uplinks_recheck]

/-- In no interleaving does the receive loop send on a closed channel, and no channel is closed twice
(both would panic): the model's `panic` flag is never set; and whenever the receive loop holds the mutex
and has found an entry, that entry's channel is open. -/
theorem no_send_on_closed {c : Cfg} (_ : fileCfg c) {s : State} (h : Reachable c s) :
    s.panic = false ∧ ∀ k i, s.rpc = .hold k → s.table k = some i → (s.ent i).chClosed = false :=
  ⟨no_panic c h, fun _ _ hr ht => enqueue_target_open c h hr ht⟩

/-- The channel is closed exactly once, by the session's own clean-up, under the mutex and together with the table
delete: closed <-> the clean-up is past its `close`; closed-and-still-in-the-table only inside that critical section;
the delete removes the session's own entry; afterwards the table no longer leads to it. -/
theorem close_once {c : Cfg} (_ : fileCfg c) {s : State} (h : Reachable c s) {i : Nat} (hi : i < s.n) :
    ((s.ent i).chClosed = true ↔ (s.ent i).ipc.closed = true) ∧
    ((s.ent i).chClosed = true → s.table (s.ent i).key = some i → s.mu = .cleanup i) ∧
    ((s.ent i).ipc = .cDelete → s.table (s.ent i).key = some i) ∧
    ((s.ent i).ipc.deleted = true → s.table (s.ent i).key ≠ some i) :=
  ⟨closed_iff_past_close c h hi, closed_in_table_only_in_crit c h hi, delete_removes_self c h hi, deleted_not_in_table c h hi⟩

/-- After Stop's pass over the table no downlink sleeps on a FUTURE read deadline, except while its uplink is
between the re-arm and the re-force of that deadline (the uplink is running and its next steps force the deadline
into the past): Stop's latency is bounded by in-flight work, not by the NAT timeout. -/
theorem stop_needs_no_timer {c : Cfg} (hc : fileCfg c) {s : State} (h : Reachable c s) (hs : s.spc.afterIter = true)
    {i : Nat} (hi : i < s.n) (hp : (s.ent i).ipc = .dRead) (hd : (s.ent i).dl = .future) :
    (s.ent i).upc = .check ∨ (s.ent i).upc = .force :=
  stop_no_timer c (fileCfg_recheck hc) h hs hi hp hd


/-- Gen side condition: every early return of the initialiser that owns the NAT socket closes it, and the uplink
goroutine closes it after the relay function returns. -/
theorem sockets_closed_in_source :
    (cfgNatGeneric.closesAll && cfgNatGeneric.uplinkCloses && cfgNatMmsg.closesAll && cfgNatMmsg.uplinkCloses &&
     cfgSessionGeneric.closesAll && cfgSessionGeneric.uplinkCloses && cfgSessionMmsg.closesAll && cfgSessionMmsg.uplinkCloses) = true := by
  decide

theorem fileCfg_closes {c : Cfg} (h : fileCfg c) : c.closesAll = true ∧ c.uplinkCloses = true := by
  have hs := sockets_closed_in_source
  simp only [Bool.and_eq_true] at hs
  obtain ⟨cap, h | h | h | h⟩ := h <;> subst h <;> simp_all [Cfg.closesAll]

/-- The socket is released: when every goroutine of a session has returned (eviction, failed initialisation, or Stop),
its NAT socket is closed; and while the downlink loop runs the socket is open (nobody closes it under the reader). -/
theorem no_socket_leak {c : Cfg} (hc : fileCfg c) {s : State} (h : Reachable c s) {i : Nat} (hi : i < s.n) :
    ((s.ent i).finished = true → (s.ent i).sock = false) ∧
    (((s.ent i).ipc = .dRead ∨ (s.ent i).ipc = .dProc) → (s.ent i).sock = true) :=
  ⟨socket_released c (fileCfg_closes hc).1 (fileCfg_closes hc).2 h hi, downlink_socket_open c h hi⟩

/-- Gen side condition: the initialiser of every relay file arms the read deadline of the NAT socket
(`SetReadDeadline(now+natTimeout)`) before the session goroutines start. -/
theorem inits_arm_deadline : (cfgNatGeneric.initArms && cfgNatMmsg.initArms && cfgSessionGeneric.initArms && cfgSessionMmsg.initArms) = true := by
  decide

theorem fileCfg_initArms {c : Cfg} (h : fileCfg c) : c.initArms = true := by
  have hs := inits_arm_deadline
  simp only [Bool.and_eq_true] at hs
  obtain ⟨cap, h | h | h | h⟩ := h <;> subst h <;> simp_all

/-- Eviction does not depend on a successful send: in every interleaving — including uplinks all of whose packets fail to
pack (`uFail`: dropped without re-arming) — a downlink blocked in its read has a read deadline, so either the NAT timer
can still fire or the read fails at once.  A session can therefore not sit in the table for ever. -/
theorem downlink_always_has_deadline {c : Cfg} (hc : fileCfg c) {s : State} (h : Reachable c s) {i : Nat} (hi : i < s.n)
    (hp : (s.ent i).ipc = .dRead) :
    (s.ent i).dl ≠ .unset ∧ ((step c s (.timer i)).isSome = true ∨ (step c s (.dTimeout i)).isSome = true) :=
  ⟨downlink_has_deadline c (fileCfg_initArms hc) h hi hp, downlink_can_time_out c (fileCfg_initArms hc) h hi hp⟩

/-! Why the initial deadline is needed: without it a session whose only packet cannot be packed is established, its
uplink drops the packet without arming anything, and the downlink sleeps with NO deadline: neither the timer nor the read
can ever end the session (it stays in the table until Stop). -/

def cfgNoInitArm : Cfg := { cfgNatGeneric with initArms := false }

def unpackableTrace : List Ev :=
  [.arrive 0, .rLock, .rProc true, .rUnlock,
   .init 0 true, .init 0 true, .init 0 true, .init 0 true, .init 0 true, .init 0 true, .init 0 true,
   .uRecv 0 1, .uFail 0]

theorem never_evicted_without_init_deadline :
    ((run cfgNoInitArm State.init unpackableTrace).map fun s =>
      ((s.ent 0).ipc == .dRead && (s.ent 0).dl == .unset && (s.ent 0).upc == .recv && (s.ent 0).q == 0 && s.table 0 == some 0 &&
       !(step cfgNoInitArm s (.timer 0)).isSome && !(step cfgNoInitArm s (.dTimeout 0)).isSome && !(step cfgNoInitArm s (.uStep 0)).isSome &&
       !(step cfgNoInitArm s (.uRecv 0 1)).isSome && !(step cfgNoInitArm s (.cleanup 0)).isSome)) = some true := by decide

/-- with the initial deadline the same session (nothing ever sent) is evicted by the timer and fully torn down -/
theorem eviction_of_unpackable_session :
    ((run cfgNatGeneric State.init (unpackableTrace ++
        [.timer 0, .dTimeout 0, .cleanup 0, .cleanup 0, .cleanup 0, .cleanup 0, .uStep 0, .uStep 0])).map fun s =>
      ((s.table 0).isNone && (s.ent 0).finished && !(s.ent 0).sock && s.mu == .free && !s.panic)) = some true := by decide

/-- Shutdown, safety parts: Stop passes `mwg.Wait` only after the receive loop returned (no new sessions afterwards),
and once `wg.Wait` has returned every session goroutine (initialiser/downlink/clean-up and uplink) has returned.
PARTIAL: that every fair run reaches this point is not proved (see header). -/
theorem all_threads_exit_partial {c : Cfg} (_ : fileCfg c) {s : State} (h : Reachable c s) :
    (s.spc.afterMwg = true → s.rpc = .done) ∧
    (s.spc.afterWg = true → ∀ i, i < s.n → (s.ent i).finished = true) :=
  ⟨recv_loop_done_after_mwg c h, fun hs _ hi => all_returned_after_wait c h hs hi⟩

/-! Why the re-check is needed (finding F9): the same model without it reaches a state in which Stop waits in
`wg.Wait`, the downlink sleeps on a future deadline, the uplink is blocked on its empty open channel, and no goroutine
of the relay can move: only the NAT timer ends the wait. -/

def cfgNoRecheck : Cfg := { cfgNatGeneric with recheck := false }

def f9Trace : List Ev :=
  [.arrive 0, .rLock, .rProc true, .rUnlock,
   .init 0 true, .init 0 true, .init 0 true, .init 0 true, .init 0 true, .init 0 true, .init 0 true,
   .uRecv 0 1,                       -- the uplink has taken the packet and is sending it
   .stopCall, .stop, .rExit, .stop, .stop, .stopVisit 0, .stop, .stop, .stop,   -- Stop: swap, deadline := past, unlock, wg.Wait
   .uStep 0, .uStep 0]               -- the uplink finishes the send and re-arms the deadline

theorem stop_timer_witness_without_recheck :
    ∃ s, Reachable cfgNoRecheck s ∧ stuckOnTimer s ∧ ∀ e, e.internal = true → step cfgNoRecheck s e = none := by
  have hrun : (run cfgNoRecheck State.init f9Trace).isSome = true := by decide
  obtain ⟨s, hs⟩ := Option.isSome_iff_exists.mp hrun
  have hshape : stuckOnTimer s := by
    have : ((run cfgNoRecheck State.init f9Trace).map fun s =>
        decide (s.n = 1 ∧ s.spc = .waitWg ∧ s.rpc = .done ∧ s.mu = .free ∧ (s.ent 0).ipc = .dRead ∧ (s.ent 0).dl = .future ∧
          (s.ent 0).upc = .recv ∧ (s.ent 0).q = 0 ∧ (s.ent 0).chClosed = false)) = some true := by decide
    rw [hs] at this
    simpa [stuckOnTimer] using this
  exact ⟨s, reachable_run f9Trace Reachable.init hs, hshape, fun e he => stuck_no_internal_move cfgNoRecheck hshape e he⟩

/-- With the re-check the same schedule goes on: the uplink sees `serverConn` and forces the deadline back. -/
theorem f9_schedule_with_recheck :
    ((run cfgNatGeneric State.init (f9Trace ++ [.uStep 0, .uStep 0, .dTimeout 0])).map fun s =>
      ((s.ent 0).dl, (s.ent 0).ipc)) = some (.past, .cLock) := by decide

/-! Eviction and restart.  Safety facts for all interleavings are in `close_once` (after its delete a session is not
reachable through the table) and in `missing_key_creates_fresh`; the witness below runs the whole cycle on the model:
idle session, timer, downlink exit, clean-up, uplink exit with the socket closed, then a datagram of the same client
creates a new entry which becomes a working session. -/

def establish (i : Nat) : List Ev :=
  [.arrive 0, .rLock, .rProc true, .rUnlock,
   .init i true, .init i true, .init i true, .init i true, .init i true, .init i true, .init i true,
   .uRecv i 1, .uStep i, .uStep i, .uStep i]

def evictTrace : List Ev :=
  establish 0 ++ [.timer 0, .dTimeout 0, .cleanup 0, .cleanup 0, .cleanup 0, .cleanup 0, .uStep 0, .uStep 0]

/-- a fresh entry for an unknown key, in every reachable state of every file's model -/
theorem eviction_restarts_fresh_entry {c : Cfg} (_ : fileCfg c) {s s' : State} {k : Nat} (hr : s.rpc = .hold k)
    (ht : s.table k = none) (hs : step c s (.rProc true) = some s') :
    s'.table k = some s.n ∧ s'.n = s.n + 1 ∧ s'.ent s.n = Entry.fresh k :=
  missing_key_creates_fresh c hr ht hs

theorem eviction_restarts :
    -- after the timer fired on the idle session: entry 0 is gone from the table, all its goroutines returned, socket closed
    ((run cfgNatGeneric State.init evictTrace).map fun s =>
      ((s.table 0).isNone, (s.ent 0).finished, (s.ent 0).sock, s.mu == .free, s.panic)) = some (true, true, false, true, false) ∧
    -- a later datagram of the same client starts a new working session (entry 1): established, deadline armed, queue drained
    ((run cfgNatGeneric State.init (evictTrace ++ establish 1)).map fun s =>
      (s.table 0 == some 1 && (s.ent 1).ipc == .dRead && (s.ent 1).upc == .recv && (s.ent 1).dl == .future &&
       (s.ent 1).q == 0 && (s.ent 1).sock && !s.panic)) = some true := by
  constructor <;> decide

-- the hypotheses of the theorems are satisfiable: reachable states with Stop past its pass and a session in its downlink loop
example : ∃ s, Reachable cfgNatGeneric s ∧ s.spc.afterIter = true ∧ 0 < s.n ∧ (s.ent 0).ipc = .dRead ∧ (s.ent 0).dl = .future := by
  have hrun : (run cfgNatGeneric State.init f9Trace).isSome = true := by decide
  obtain ⟨s, hs⟩ := Option.isSome_iff_exists.mp hrun
  have : ((run cfgNatGeneric State.init f9Trace).map fun s =>
      decide (s.spc.afterIter = true ∧ 0 < s.n ∧ (s.ent 0).ipc = .dRead ∧ (s.ent 0).dl = .future)) = some true := by decide
  rw [hs] at this
  exact ⟨s, reachable_run f9Trace Reachable.init hs, by simpa using this⟩
example : fileCfg cfgNatGeneric := ⟨cfgNatGeneric.cap, Or.inl rfl⟩
example : ∃ s, Reachable cfgNatGeneric s ∧ (∃ k, s.rpc = .hold k) := by
  have hrun : (run cfgNatGeneric State.init [.arrive 0, .rLock]).isSome = true := by decide
  obtain ⟨s, hs⟩ := Option.isSome_iff_exists.mp hrun
  have : ((run cfgNatGeneric State.init [.arrive 0, .rLock]).map fun s => decide (s.rpc = .hold 0)) = some true := by decide
  rw [hs] at this
  exact ⟨s, reachable_run _ Reachable.init hs, 0, by simpa using this⟩

end SSV.C12

#print axioms SSV.C12.uplinks_recheck
#print axioms SSV.C12.fileCfg_recheck
#print axioms SSV.C12.no_send_on_closed
#print axioms SSV.C12.close_once
#print axioms SSV.C12.stop_needs_no_timer
#print axioms SSV.C12.sockets_closed_in_source
#print axioms SSV.C12.fileCfg_closes
#print axioms SSV.C12.no_socket_leak
#print axioms SSV.C12.inits_arm_deadline
#print axioms SSV.C12.fileCfg_initArms
#print axioms SSV.C12.downlink_always_has_deadline
#print axioms SSV.C12.never_evicted_without_init_deadline
#print axioms SSV.C12.eviction_of_unpackable_session
#print axioms SSV.C12.all_threads_exit_partial
#print axioms SSV.C12.stop_timer_witness_without_recheck
#print axioms SSV.C12.f9_schedule_with_recheck
#print axioms SSV.C12.eviction_restarts_fresh_entry
#print axioms SSV.C12.eviction_restarts
