import SSV.Model.RelayLifeCfg
import SSV.Proofs.RelayLifeThms
import SSV.Proofs.RelayLifeEvict
/-
C12 — UDP sessions end cleanly: idle eviction, restart after eviction, prompt shutdown (PARTIAL: all
interleavings of the MODEL; the real scheduler/timers are sampled by corr_c12).

The model (SSV/Model/RelayLife.lean) is instantiated with the configurations that the step programs regenerated
from service/udp_nat.go, udp_nat_mmsg.go, udp_session.go, udp_session_mmsg.go denote (`cfgOf`).  A program shape
the model does not mirror, or a missing re-check in an uplink, makes this file fail to elaborate.

The shutdown part is proved for all runs of the model (`all_threads_exit`: deadlock freedom after Stop without timer or
environment, a ranking function decreasing on every relay step, every maximal run ends with Stop returned within the bound);
eviction is proved for all runs as monotone, always-enabled, strictly decreasing tear-down (`eviction_restarts`), with the
scheduler's weak fairness as the only assumption for "it completes".
-/
namespace SSV.C12
open SSV.RelayLife SSV.Gen

/-- configurations denoted by the regenerated step programs (elaboration fails on an unrecognised shape) -/
def cfgNatGeneric : Cfg := (cfgOf progsNatGeneric C12.defaultSendChannelCapacity).get (by decide)
def cfgNatMmsg : Cfg := (cfgOf progsNatMmsg C12.defaultSendChannelCapacity).get (by decide)
def cfgSessionGeneric : Cfg := (cfgOf progsSessionGeneric C12.defaultSendChannelCapacity).get (by decide)
def cfgSessionMmsg : Cfg := (cfgOf progsSessionMmsg C12.defaultSendChannelCapacity).get (by decide)

/-- the four relay files, with any send-channel capacity -/
def fileCfg (c : Cfg) : Prop :=
  ∃ cap, c = { cfgNatGeneric with cap := cap } ∨ c = { cfgNatMmsg with cap := cap } ∨
         c = { cfgSessionGeneric with cap := cap } ∨ c = { cfgSessionMmsg with cap := cap }

/-- Gen side condition: every uplink re-checks the shutdown state after re-arming the deadline (F9 repaired) -/
theorem uplinks_recheck : cfgNatGeneric.recheck = true ∧ cfgNatMmsg.recheck = true ∧
    cfgSessionGeneric.recheck = true ∧ cfgSessionMmsg.recheck = true := by decide

theorem fileCfg_recheck {c : Cfg} (h : fileCfg c) : c.recheck = true := by
  obtain ⟨cap, h | h | h | h⟩ := h <;> subst h <;> simp [uplinks_recheck]

/-- In no interleaving does the receive loop send on a closed channel, and no channel is closed twice
(both would panic): the model's `panic` flag is never set; and whenever the receive loop holds the mutex
and has found an entry, that entry's channel is open. -/
theorem no_send_on_closed {c : Cfg} (_ : fileCfg c) {s : State} (h : Reachable c s) :
    s.panic = false ∧ ∀ k i, s.rpc = .hold k → s.table k = some i → (s.ent i).chClosed = false :=
  ⟨no_panic c h, fun _ _ hr ht => enqueue_target_open c h hr ht⟩

/-- The channel is closed exactly once, by the session's own clean-up, under the mutex and together with the table
delete: closed <-> the clean-up is past its `close`; closed-and-still-in-the-table only inside that critical section;
the delete removes the session's own entry; afterwards the table no longer leads to it. -/
theorem close_once {c : Cfg} (_ : fileCfg c) {s : State} (h : Reachable c s) {i : Nat} (hi : i < s.n) :
    ((s.ent i).chClosed = true ↔ (s.ent i).ipc.closed = true) ∧
    ((s.ent i).chClosed = true → s.table (s.ent i).key = some i → s.mu = .cleanup i) ∧
    ((s.ent i).ipc = .cDelete → s.table (s.ent i).key = some i) ∧
    ((s.ent i).ipc.deleted = true → s.table (s.ent i).key ≠ some i) :=
  ⟨closed_iff_past_close c h hi, closed_in_table_only_in_crit c h hi, delete_removes_self c h hi, deleted_not_in_table c h hi⟩

/-- After Stop's pass over the table no downlink sleeps on a FUTURE read deadline, except while its uplink is
between the re-arm and the re-force of that deadline (the uplink is running and its next steps force the deadline
into the past): Stop's latency is bounded by in-flight work, not by the NAT timeout. -/
theorem stop_needs_no_timer {c : Cfg} (hc : fileCfg c) {s : State} (h : Reachable c s) (hs : s.spc.afterIter = true)
    {i : Nat} (hi : i < s.n) (hp : (s.ent i).ipc = .dRead) (hd : (s.ent i).dl = .future) :
    (s.ent i).upc = .check ∨ (s.ent i).upc = .force :=
  stop_no_timer c (fileCfg_recheck hc) h hs hi hp hd


/-- Gen side condition: every early return of the initialiser that owns the NAT socket closes it, and the uplink
goroutine closes it after the relay function returns. -/
theorem sockets_closed_in_source :
    (cfgNatGeneric.closesAll && cfgNatGeneric.uplinkCloses && cfgNatMmsg.closesAll && cfgNatMmsg.uplinkCloses &&
     cfgSessionGeneric.closesAll && cfgSessionGeneric.uplinkCloses && cfgSessionMmsg.closesAll && cfgSessionMmsg.uplinkCloses) = true := by
  decide

theorem fileCfg_closes {c : Cfg} (h : fileCfg c) : c.closesAll = true ∧ c.uplinkCloses = true := by
  have hs := sockets_closed_in_source
  simp only [Bool.and_eq_true] at hs
  obtain ⟨cap, h | h | h | h⟩ := h <;> subst h <;> simp_all [Cfg.closesAll]

/-- The socket is released: when every goroutine of a session has returned (eviction, failed initialisation, or Stop),
its NAT socket is closed; and while the downlink loop runs the socket is open (nobody closes it under the reader). -/
theorem no_socket_leak {c : Cfg} (hc : fileCfg c) {s : State} (h : Reachable c s) {i : Nat} (hi : i < s.n) :
    ((s.ent i).finished = true → (s.ent i).sock = false) ∧
    (((s.ent i).ipc = .dRead ∨ (s.ent i).ipc = .dProc) → (s.ent i).sock = true) :=
  ⟨socket_released c (fileCfg_closes hc).1 (fileCfg_closes hc).2 h hi, downlink_socket_open c h hi⟩

/-- Gen side condition: the initialiser of every relay file arms the read deadline of the NAT socket
(`SetReadDeadline(now+natTimeout)`) before the session goroutines start. -/
theorem inits_arm_deadline : (cfgNatGeneric.initArms && cfgNatMmsg.initArms && cfgSessionGeneric.initArms && cfgSessionMmsg.initArms) = true := by
  decide

theorem fileCfg_initArms {c : Cfg} (h : fileCfg c) : c.initArms = true := by
  have hs := inits_arm_deadline
  simp only [Bool.and_eq_true] at hs
  obtain ⟨cap, h | h | h | h⟩ := h <;> subst h <;> simp_all

/-- Eviction does not depend on a successful send: in every interleaving — including uplinks all of whose packets fail to
pack (`uFail`: dropped without re-arming) — a downlink blocked in its read has a read deadline, so either the NAT timer
can still fire or the read fails at once.  A session can therefore not sit in the table for ever. -/
theorem downlink_always_has_deadline {c : Cfg} (hc : fileCfg c) {s : State} (h : Reachable c s) {i : Nat} (hi : i < s.n)
    (hp : (s.ent i).ipc = .dRead) :
    (s.ent i).dl ≠ .unset ∧ ((step c s (.timer i)).isSome = true ∨ (step c s (.dTimeout i)).isSome = true) :=
  ⟨downlink_has_deadline c (fileCfg_initArms hc) h hi hp, downlink_can_time_out c (fileCfg_initArms hc) h hi hp⟩

/-! Why the initial deadline is needed: without it a session whose only packet cannot be packed is established, its
uplink drops the packet without arming anything, and the downlink sleeps with NO deadline: neither the timer nor the read
can ever end the session (it stays in the table until Stop). -/

def cfgNoInitArm : Cfg := { cfgNatGeneric with initArms := false }

def unpackableTrace : List Ev :=
  [.arrive 0, .rLock, .rProc true, .rUnlock,
   .init 0 true, .init 0 true, .init 0 true, .init 0 true, .init 0 true, .init 0 true, .init 0 true,
   .uRecv 0 1, .uFail 0]

theorem never_evicted_without_init_deadline :
    ((run cfgNoInitArm State.init unpackableTrace).map fun s =>
      ((s.ent 0).ipc == .dRead && (s.ent 0).dl == .unset && (s.ent 0).upc == .recv && (s.ent 0).q == 0 && s.table 0 == some 0 &&
       !(step cfgNoInitArm s (.timer 0)).isSome && !(step cfgNoInitArm s (.dTimeout 0)).isSome && !(step cfgNoInitArm s (.uStep 0)).isSome &&
       !(step cfgNoInitArm s (.uRecv 0 1)).isSome && !(step cfgNoInitArm s (.cleanup 0)).isSome)) = some true := by decide

/-- with the initial deadline the same session (nothing ever sent) is evicted by the timer and fully torn down -/
theorem eviction_of_unpackable_session :
    ((run cfgNatGeneric State.init (unpackableTrace ++
        [.timer 0, .dTimeout 0, .cleanup 0, .cleanup 0, .cleanup 0, .cleanup 0, .uStep 0, .uStep 0])).map fun s =>
      ((s.table 0).isNone && (s.ent 0).finished && !(s.ent 0).sock && s.mu == .free && !s.panic)) = some true := by decide

/-- Shutdown, for ALL runs of the model ("stop returns promptly, bounded by in-flight work, not by the NAT timeout").
In every reachable state of every file's model:
(a) deadlock freedom after Stop was called: unless Stop has returned, some goroutine of the relay can make a step —
    `Ev.internal`: no NAT timer, no client datagram, no datagram from the target (sessions in initialisation, downlinks,
    uplinks, clean-ups, the receive loop and Stop itself are all covered);
(b) ranking: every step of a goroutine of the relay strictly decreases `measure` (program positions + 7 x queued packets),
    so a run of such steps is no longer than `measure s`: a bound in terms of in-flight work in which the NAT timeout does
    not occur;
(c) hence every run of relay steps after Stop that cannot be continued has Stop returned within `measure s` steps, and
    such a run exists;
(d) Stop passes `mwg.Wait` only after the receive loop returned, and once `wg.Wait` has returned every session goroutine
    has returned.
Assumption of the model: a blocking initialiser call returns (step `init`), i.e. in-flight work is finite. -/
theorem all_threads_exit {c : Cfg} (hc : fileCfg c) {s : State} (h : Reachable c s) :
    (s.spc ≠ .idle → s.spc ≠ .done → ∃ e, e.internal = true ∧ (step c s e).isSome = true) ∧
    (∀ e s', e.internal = true → step c s e = some s' → measure s' < measure s) ∧
    (∀ es s', (∀ e ∈ es, e.internal = true) → run c s es = some s' → es.length + measure s' ≤ measure s) ∧
    (s.spc ≠ .idle → ∀ es s', (∀ e ∈ es, e.internal = true) → run c s es = some s' →
        (∀ e, e.internal = true → step c s' e = none) → s'.spc = .done ∧ es.length ≤ measure s) ∧
    (s.spc ≠ .idle → ∃ es s', (∀ e ∈ es, e.internal = true) ∧ es.length ≤ measure s ∧ run c s es = some s' ∧ s'.spc = .done) ∧
    (s.spc.afterMwg = true → s.rpc = .done) ∧
    (s.spc.afterWg = true → ∀ i, i < s.n → (s.ent i).finished = true) :=
  ⟨stop_progress c (fileCfg_recheck hc) (fileCfg_initArms hc) h,
   fun e _ he hs => measure_decreases c h e he hs,
   fun es _ hint hr => internal_run_bounded c h es hint hr,
   fun h1 es _ hint hr hmax => maximal_run_returns c (fileCfg_recheck hc) (fileCfg_initArms hc) h h1 es hint hr hmax,
   fun h1 => stop_completes c (fileCfg_recheck hc) (fileCfg_initArms hc) (measure s) h h1 (Nat.le_refl _),
   recv_loop_done_after_mwg c h, fun hs _ hi => all_returned_after_wait c h hs hi⟩

/-- Eviction and restart, for ALL runs of the model.  For every reachable state and every session `i`:
(1) when the timer has fired on the blocked downlink (deadline `past`), the read fails and the tear-down begins;
(2) a tear-down that has begun only moves forward under EVERY event (relay, environment, timer, Stop);
(3) I_i can always make its next tear-down step, except while it waits for the mutex, and then the holder can make a step;
    every such step moves I_i strictly forward (at most 6 steps);
(4) once I_i has returned, U_i can always make a step, each of its steps strictly decreases `q*7+rank`, and no other event
    increases it (the receive loop cannot reach the entry any more);
(5) when both have returned, the entry is not reachable through the table and the NAT socket is closed;
(6) a later datagram of the same client finds no entry, creates a fresh one (open channel holding the datagram, nil state),
    every initialiser call of it returns, and unless Stop is visiting the entry its swap succeeds: a working session.
FAIRNESS ASSUMPTION under which (1)-(5) give "the session is evicted": I_i, U_i and the current mutex holder are scheduled
again and again (weak fairness).  The witness run `eviction_restarts_witness` shows the whole cycle. -/
theorem eviction_restarts {c : Cfg} (hc : fileCfg c) {s : State} (h : Reachable c s) {i : Nat} (hi : i < s.n) :
    ((s.ent i).ipc = .dRead → (s.ent i).dl = .past → ∃ s', step c s (.dTimeout i) = some s' ∧ (s'.ent i).ipc = .cLock) ∧
    ((s.ent i).tearingDown → ∀ e s', step c s e = some s' → (s'.ent i).ipc.rank ≤ (s.ent i).ipc.rank) ∧
    ((s.ent i).tearingDown → (s.ent i).ipc ≠ .done →
        (step c s (.cleanup i)).isSome = true ∨
        ((s.ent i).ipc = .cLock ∧ s.mu ≠ .free ∧ ∃ e, e.internal = true ∧ (step c s e).isSome = true)) ∧
    (∀ s', step c s (.cleanup i) = some s' → (s'.ent i).ipc.rank < (s.ent i).ipc.rank) ∧
    ((s.ent i).ipc = .done → (s.ent i).finished = false →
        (step c s (.uRecv i 1)).isSome = true ∨ (step c s (.uStep i)).isSome = true) ∧
    ((s.ent i).ipc = .done → ∀ e s', step c s e = some s' → (s'.ent i).uplinkWork ≤ (s.ent i).uplinkWork) ∧
    (∀ e s', (e = .uStep i ∨ e = .uFail i ∨ ∃ k, e = .uRecv i k) → step c s e = some s' →
        (s'.ent i).uplinkWork < (s.ent i).uplinkWork) ∧
    ((s.ent i).finished = true → s.table (s.ent i).key ≠ some i ∧ (s.ent i).sock = false) ∧
    (∀ k s', s.rpc = .hold k → s.table k = none → step c s (.rProc true) = some s' →
        s'.table k = some s.n ∧ s'.n = s.n + 1 ∧ s'.ent s.n = Entry.fresh k) ∧
    (9 ≤ (s.ent i).ipc.rank → ∀ ok, (step c s (.init i ok)).isSome = true) ∧
    ((s.ent i).ipc = .swap → (s.ent i).visited = false → s.spc ≠ .pend i → ∀ ok s', step c s (.init i ok) = some s' →
        (s'.ent i).ipc = .spawn ∧ (s'.ent i).clean = true ∧ (s'.ent i).st = .nat) :=
  ⟨fun hp hd => evict_starts c hi hp hd,
   fun ht e _ hs => teardown_monotone c e hs hi ht,
   fun ht hnd => teardown_can_move c h hi ht hnd,
   fun _ hs => cleanup_strict c hs,
   fun hp hnf => uplink_can_move c h hi hp hnf,
   fun hp e _ hs => uplink_work_monotone c h e hs hi hp,
   fun e _ he hs => uplink_step_strict c e he hs,
   fun hf => ⟨deleted_not_in_table c h hi (by
      simp only [Entry.finished, Bool.and_eq_true, beq_iff_eq] at hf; rw [hf.1]; rfl),
      socket_released c (fileCfg_closes hc).1 (fileCfg_closes hc).2 h hi hf⟩,
   fun _ _ hr ht hs => missing_key_creates_fresh c hr ht hs,
   fun hp ok => init_always_returns c hi hp ok,
   fun hp hv hnp ok _ hs => swap_succeeds_unless_stopping c h hi hp hv hnp ok hs⟩

/-! Why the re-check is needed (finding F9): the same model without it reaches a state in which Stop waits in
`wg.Wait`, the downlink sleeps on a future deadline, the uplink is blocked on its empty open channel, and no goroutine
of the relay can move: only the NAT timer ends the wait. -/

def cfgNoRecheck : Cfg := { cfgNatGeneric with recheck := false }

def f9Trace : List Ev :=
  [.arrive 0, .rLock, .rProc true, .rUnlock,
   .init 0 true, .init 0 true, .init 0 true, .init 0 true, .init 0 true, .init 0 true, .init 0 true,
   .uRecv 0 1,                       -- the uplink has taken the packet and is sending it
   .stopCall, .stop, .rExit, .stop, .stop, .stopVisit 0, .stop, .stop, .stop,   -- Stop: swap, deadline := past, unlock, wg.Wait
   .uStep 0, .uStep 0]               -- the uplink finishes the send and re-arms the deadline

theorem stop_timer_witness_without_recheck :
    ∃ s, Reachable cfgNoRecheck s ∧ stuckOnTimer s ∧ ∀ e, e.internal = true → step cfgNoRecheck s e = none := by
  have hrun : (run cfgNoRecheck State.init f9Trace).isSome = true := by decide
  obtain ⟨s, hs⟩ := Option.isSome_iff_exists.mp hrun
  have hshape : stuckOnTimer s := by
    have : ((run cfgNoRecheck State.init f9Trace).map fun s =>
        decide (s.n = 1 ∧ s.spc = .waitWg ∧ s.rpc = .done ∧ s.mu = .free ∧ (s.ent 0).ipc = .dRead ∧ (s.ent 0).dl = .future ∧
          (s.ent 0).upc = .recv ∧ (s.ent 0).q = 0 ∧ (s.ent 0).chClosed = false)) = some true := by decide
    rw [hs] at this
    simpa [stuckOnTimer] using this
  exact ⟨s, reachable_run f9Trace Reachable.init hs, hshape, fun e he => stuck_no_internal_move cfgNoRecheck hshape e he⟩

/-- With the re-check the same schedule goes on: the uplink sees `serverConn` and forces the deadline back. -/
theorem f9_schedule_with_recheck :
    ((run cfgNatGeneric State.init (f9Trace ++ [.uStep 0, .uStep 0, .dTimeout 0])).map fun s =>
      ((s.ent 0).dl, (s.ent 0).ipc)) = some (.past, .cLock) := by decide

/-! Eviction and restart.  Safety facts for all interleavings are in `close_once` (after its delete a session is not
reachable through the table) and in `missing_key_creates_fresh`; the witness below runs the whole cycle on the model:
idle session, timer, downlink exit, clean-up, uplink exit with the socket closed, then a datagram of the same client
creates a new entry which becomes a working session. -/

def establish (i : Nat) : List Ev :=
  [.arrive 0, .rLock, .rProc true, .rUnlock,
   .init i true, .init i true, .init i true, .init i true, .init i true, .init i true, .init i true,
   .uRecv i 1, .uStep i, .uStep i, .uStep i]

def evictTrace : List Ev :=
  establish 0 ++ [.timer 0, .dTimeout 0, .cleanup 0, .cleanup 0, .cleanup 0, .cleanup 0, .uStep 0, .uStep 0]

/-- a fresh entry for an unknown key, in every reachable state of every file's model -/
theorem eviction_restarts_fresh_entry {c : Cfg} (_ : fileCfg c) {s s' : State} {k : Nat} (hr : s.rpc = .hold k)
    (ht : s.table k = none) (hs : step c s (.rProc true) = some s') :
    s'.table k = some s.n ∧ s'.n = s.n + 1 ∧ s'.ent s.n = Entry.fresh k :=
  missing_key_creates_fresh c hr ht hs

theorem eviction_restarts_witness :
    -- after the timer fired on the idle session: entry 0 is gone from the table, all its goroutines returned, socket closed
    ((run cfgNatGeneric State.init evictTrace).map fun s =>
      ((s.table 0).isNone, (s.ent 0).finished, (s.ent 0).sock, s.mu == .free, s.panic)) = some (true, true, false, true, false) ∧
    -- a later datagram of the same client starts a new working session (entry 1): established, deadline armed, queue drained
    ((run cfgNatGeneric State.init (evictTrace ++ establish 1)).map fun s =>
      (s.table 0 == some 1 && (s.ent 1).ipc == .dRead && (s.ent 1).upc == .recv && (s.ent 1).dl == .future &&
       (s.ent 1).q == 0 && (s.ent 1).sock && !s.panic)) = some true := by
  constructor <;> decide

-- the hypotheses of the theorems are satisfiable: reachable states with Stop past its pass and a session in its downlink loop
example : ∃ s, Reachable cfgNatGeneric s ∧ s.spc.afterIter = true ∧ 0 < s.n ∧ (s.ent 0).ipc = .dRead ∧ (s.ent 0).dl = .future := by
  have hrun : (run cfgNatGeneric State.init f9Trace).isSome = true := by decide
  obtain ⟨s, hs⟩ := Option.isSome_iff_exists.mp hrun
  have : ((run cfgNatGeneric State.init f9Trace).map fun s =>
      decide (s.spc.afterIter = true ∧ 0 < s.n ∧ (s.ent 0).ipc = .dRead ∧ (s.ent 0).dl = .future)) = some true := by decide
  rw [hs] at this
  exact ⟨s, reachable_run f9Trace Reachable.init hs, by simpa using this⟩
-- a session whose tear-down has begun is reachable (hypothesis of `eviction_restarts` (2),(3)), with the mutex free
example : ∃ s, Reachable cfgNatGeneric s ∧ 0 < s.n ∧ (s.ent 0).tearingDown ∧ (s.ent 0).ipc ≠ .done := by
  have hrun : (run cfgNatGeneric State.init (establish 0 ++ [.timer 0, .dTimeout 0])).isSome = true := by decide
  obtain ⟨s, hs⟩ := Option.isSome_iff_exists.mp hrun
  have : ((run cfgNatGeneric State.init (establish 0 ++ [.timer 0, .dTimeout 0])).map fun s =>
      decide (0 < s.n ∧ (s.ent 0).ipc = .cLock)) = some true := by decide
  rw [hs] at this
  simp only [Option.map_some, Option.some.injEq, decide_eq_true_eq] at this
  exact ⟨s, reachable_run _ Reachable.init hs, this.1, by simp [Entry.tearingDown, this.2, IPc.rank], by simp [this.2]⟩
example : fileCfg cfgNatGeneric := ⟨cfgNatGeneric.cap, Or.inl rfl⟩
example : ∃ s, Reachable cfgNatGeneric s ∧ (∃ k, s.rpc = .hold k) := by
  have hrun : (run cfgNatGeneric State.init [.arrive 0, .rLock]).isSome = true := by decide
  obtain ⟨s, hs⟩ := Option.isSome_iff_exists.mp hrun
  have : ((run cfgNatGeneric State.init [.arrive 0, .rLock]).map fun s => decide (s.rpc = .hold 0)) = some true := by decide
  rw [hs] at this
  exact ⟨s, reachable_run _ Reachable.init hs, 0, by simpa using this⟩

end SSV.C12

#print axioms SSV.C12.uplinks_recheck
#print axioms SSV.C12.fileCfg_recheck
#print axioms SSV.C12.no_send_on_closed
#print axioms SSV.C12.close_once
#print axioms SSV.C12.stop_needs_no_timer
#print axioms SSV.C12.sockets_closed_in_source
#print axioms SSV.C12.fileCfg_closes
#print axioms SSV.C12.no_socket_leak
#print axioms SSV.C12.inits_arm_deadline
#print axioms SSV.C12.fileCfg_initArms
#print axioms SSV.C12.downlink_always_has_deadline
#print axioms SSV.C12.never_evicted_without_init_deadline
#print axioms SSV.C12.eviction_of_unpackable_session
#print axioms SSV.C12.all_threads_exit
#print axioms SSV.C12.stop_timer_witness_without_recheck
#print axioms SSV.C12.f9_schedule_with_recheck
#print axioms SSV.C12.eviction_restarts_fresh_entry
#print axioms SSV.C12.eviction_restarts
#print axioms SSV.C12.eviction_restarts_witness
