import SSV.Model.Relay
import SSV.Proofs.RelayStep
import SSV.Proofs.RelayReply
import SSV.Proofs.RelayProgress
import SSV.Proofs.RelayBatch
import SSV.Proofs.RelayFair2
/-
C11 — property theorems (model: SSV/Model/Relay.lean; invariants: SSV/Proofs/Relay.lean).

`run cfg State.init acts` ranges over ALL action lists = all interleavings of any number of sessions,
any unpack results (garbage included), any resolver answers in any order, any client address changes.
-/
namespace SSV.C11
open SSV.Relay

/-- The packer assignment implemented by the CURRENT source (Gen fact `packerShared`) gives every
session incarnation its own packer. Fails to elaborate while `DirectUDPClient.NewSession` hands out a stored packer (F8). -/
theorem code_packer_per_session : ∀ a b : Nat,
    packerOfShared SSV.Gen.C11.packerShared a = packerOfShared SSV.Gen.C11.packerShared b → a = b := by
  intro a b h
  simp [packerOfShared, SSV.Gen.C11.packerShared] at h
  exact h

/-- Gen side conditions: in all four receive loops the table insert follows the `continue` taken on a failed
unpack, lookup/insert/enqueue happen under the mutex, and the cleanup closes the channel and deletes the entry
under the same mutex; every other `UDPClient` builds its packer inside `NewSession`. -/
theorem code_facts : codeRecvOK = true ∧ codeCleanupOK = true ∧ SSV.Gen.C11.clientPackerFresh.all (·.2) = true := by
  decide

/-- **no_cross_session_send.** In every reachable state of every interleaving, if sessions do not share a
packer instance, each datagram an uplink put on the wire was made from a packet the receive loop accepted for
THAT session incarnation, carries that packet (payload), and is addressed to the target the packet names:
the literal IP and port, or — for a domain target — an address the resolver answered for that very domain, same port. -/
theorem no_cross_session_send (cfg : Config) (hinj : ∀ a b, cfg.packerOf a = cfg.packerOf b → a = b)
    (acts : List Act) :
    ∀ w ∈ (run cfg State.init acts).sent,
      (∃ src, (w.sid, src, w.pkt) ∈ (run cfg State.init acts).recvd) ∧
      destOK cfg.upstream (run cfg State.init acts).answers w :=
  Relay.sent_ok cfg hinj acts

/-- … instantiated with what the source says now (every protocol parameter free: capacity, keying, whether the
server protocol carries a source, direct client or any upstream proxy address). -/
theorem no_cross_session_send_code (cap : Nat) (byAddr src : Bool) (up : Option (IP × Nat)) (acts : List Act) :
    ∀ w ∈ (run (codeConfig cap byAddr src up) State.init acts).sent,
      (∃ a, (w.sid, a, w.pkt) ∈ (run (codeConfig cap byAddr src up) State.init acts).recvd) ∧
      destOK up (run (codeConfig cap byAddr src up) State.init acts).answers w :=
  no_cross_session_send _ code_packer_per_session acts

example : ∃ cfg : Config, ∀ a b, cfg.packerOf a = cfg.packerOf b → a = b :=
  ⟨⟨4, true, true, false, none, fun s => s⟩, fun _ _ h => h⟩

/-- with an upstream proxy everything goes to the proxy, the named target travels inside -/
example : (run ⟨4, true, true, false, some (99, 1080), fun s => s⟩ State.init
    [.recv 1 1 (some ⟨.dom 7 53, 100⟩), .initOk 0, .take 0]).sent = [⟨0, ⟨.dom 7 53, 100⟩, 99, 1080⟩] := by decide

/-- the F8 witness: A resolves X (→ 10), B resolves Y (→ 20) on the SAME packer; A reads the cached IP after B overwrote it -/
def f8Witness : List Act :=
  [ .recv 1 1 (some ⟨.dom 7 53, 100⟩), .recv 2 2 (some ⟨.dom 8 53, 200⟩), .initOk 0, .initOk 1,
    .take 0, .resolved 0 (some 10), .storeIP 0,          -- A: cache = (X, 10), about to read it
    .take 1, .resolved 1 (some 20), .storeIP 1,          -- B: cache = (Y, 20)
    .readSend 0 ]                                        -- A sends X's datagram to 20

/-- **Negation with a shared packer** (the pinned tree before the F8 repair): a reachable state has a datagram
of session 0, whose packet names domain 7, on the wire towards an address the resolver never gave for domain 7. -/
theorem shared_packer_cross_send :
    ∃ w ∈ (run ⟨4, true, true, false, none, packerOfShared true⟩ State.init f8Witness).sent,
      ¬ destOK none (run ⟨4, true, true, false, none, packerOfShared true⟩ State.init f8Witness).answers w := by
  decide

/-- the same schedule is harmless with a packer per session -/
example : ∀ w ∈ (run ⟨4, true, true, false, none, packerOfShared false⟩ State.init f8Witness).sent,
      destOK none (run ⟨4, true, true, false, none, packerOfShared false⟩ State.init f8Witness).answers w := by
  decide

/-- **garbage_is_noop.** A datagram that fails to parse or authenticate (unpack result `none`) changes
nothing: no table entry, no session (= no goroutines, no socket), no queue, no cache — in any state. -/
theorem garbage_is_noop (cfg : Config) (h : cfg.insertFirst = false) (st : State) (key : Key) (src : Addr) :
    step cfg st (.recv key src none) = st := by
  simp only [step, recv, h]
  by_cases hk : (cfg.byAddr && key != src) = true
  · simp [hk]
  · simp only [hk]
    cases st.table key with
    | none => simp
    | some sid => cases st.sess sid <;> simp

theorem garbage_is_noop_code (cap : Nat) (byAddr src : Bool) (st : State) (key : Key) (a : Addr) :
    step (codeConfig cap byAddr src) st (.recv key a none) = st :=
  garbage_is_noop _ (by simp [codeConfig, code_facts.1]) st key a

/-- had the insert preceded the unpack, garbage WOULD create a session (the model can tell the difference) -/
example : (step ⟨4, true, true, true, none, fun s => s⟩ State.init (.recv 1 1 none)).next = 1 := by decide

/-- **replies_to_owner.** Every reply a downlink wrote is addressed to the source address of the most
recent packet accepted for that session incarnation at the time of sending (its owner's LATEST address),
carries the true source exactly when the protocol has a source field, and — for address-keyed relays —
that address is the session's key. (`insertFirst = false`: sessions exist only through an accepted packet.) -/
theorem replies_to_owner (cfg : Config) (hif : cfg.insertFirst = false) (acts : List Act) :
    ∀ r ∈ (run cfg State.init acts).replies,
      lastAddr ((run cfg State.init acts).recvd.take r.stamp) r.sid = some r.to ∧
      r.src = (if cfg.carriesSource then some r.fromSrc else none) ∧
      (cfg.byAddr = true → ∃ s, (run cfg State.init acts).sess r.sid = some s ∧ r.to = s.key) :=
  Relay.replies_ok cfg hif acts

theorem replies_to_owner_code (cap : Nat) (byAddr src : Bool) (acts : List Act) :
    ∀ r ∈ (run (codeConfig cap byAddr src) State.init acts).replies,
      lastAddr ((run (codeConfig cap byAddr src) State.init acts).recvd.take r.stamp) r.sid = some r.to ∧
      r.src = (if src then some r.fromSrc else none) ∧
      (byAddr = true → ∃ s, (run (codeConfig cap byAddr src) State.init acts).sess r.sid = some s ∧ r.to = s.key) :=
  replies_to_owner _ (by simp [codeConfig, code_facts.1]) acts

example : (run ⟨4, false, true, false, none, fun s => s⟩ State.init
    [.recv 9 1 (some ⟨.ip 5 53, 100⟩), .initOk 0, .recv 9 2 (some ⟨.ip 5 53, 101⟩), .down 0 (some ((5, 53), 300))]).replies
    = [⟨0, 2, some (5, 53), (5, 53), 300, 2⟩] := by decide

/-- **ss2022_follows_address.** In a session-keyed relay, a packet that unpacks for an existing session
arriving from a NEW client address creates no new session: the table is unchanged, the same incarnation
stays, and its published client address becomes the new one (so by `replies_to_owner` later replies go there). -/
theorem ss2022_follows_address (cfg : Config) (hif : cfg.insertFirst = false) (hb : cfg.byAddr = false)
    (acts : List Act) (key : Key) (sid : Nat) (src : Addr) (q : Pkt)
    (ht : (run cfg State.init acts).table key = some sid) :
    (step cfg (run cfg State.init acts) (.recv key src (some q))).table = (run cfg State.init acts).table ∧
    (step cfg (run cfg State.init acts) (.recv key src (some q))).next = (run cfg State.init acts).next ∧
    ∃ s, (step cfg (run cfg State.init acts) (.recv key src (some q))).sess sid = some s ∧ s.clientAddr = src ∧ s.key = key :=
  Relay.follows_address cfg hif hb acts key sid src q ht

example : (run ⟨4, false, true, false, none, fun s => s⟩ State.init [.recv 9 1 (some ⟨.ip 5 53, 100⟩)]).table 9 = some 0 := by decide

/-- **Delivery, one packet (kept from round 1; superseded by `accepted_packets_sent_or_documented_drop` below, which
quantifies over every interleaving and the whole queue).** The statement's "each datagram … leaves the relay towards T", as far as a safety model
can say it: the uplink is never stuck — the packet at the head of a started session's queue is put on the wire by
that session's own steps (plus one resolver answer if its domain is not cached), and by `no_cross_session_send`
towards the right destination. MISSING for the full statement: fairness of the Go scheduler and the kernel,
termination of the resolver, datagrams dropped BY DESIGN when the bounded send queue is full (`enqueue`), and
sessions closed before their queue drained (life-cycle: C12). These are sampled by the loopback engine only. -/
theorem enqueued_head_leaves_partial (cfg : Config) (st : State) (sid : Nat) (s : Sess) (q : Pkt) (rest : List Pkt)
    (hs : st.sess sid = some s) (hst : s.started = true) (hpc : s.pc = .idle) (hq : s.queue = q :: rest) (ip : IP) :
    ∃ acts : List Act, acts ⊆ [.take sid, .resolved sid (some ip), .storeIP sid, .readSend sid] ∧
      ∃ a p, (run cfg st acts).sent = st.sent ++ [⟨sid, q, a, p⟩] :=
  Relay.head_leaves cfg st sid s q rest hs hst hpc hq ip

example : ∃ (st : State) (s : Sess), st.sess 0 = some s ∧ s.started = true ∧ s.pc = .idle ∧ s.queue = [⟨.dom 7 53, 100⟩] :=
  ⟨run ⟨4, true, true, false, none, fun s => s⟩ State.init [.recv 1 1 (some ⟨.dom 7 53, 100⟩), .initOk 0], _, rfl, rfl, rfl, rfl⟩

/-- Gen side condition: the COMPLETE list of places where the uplink and receive loops of both relays (generic and
mmsg) give a packet buffer back, classified. Uplinks: only after a failed `PackInPlace` and after the write. -/
theorem code_drop_rules : codeDropRulesOK = true := by decide

/-- the uplink of a started session is never stuck while anything is pending: one of its own steps (or an answer /
failure of the resolver) is enabled -/
theorem uplink_never_stuck (st : State) (sid : Nat) (s : Sess) (hs : st.sess sid = some s) (hst : s.started = true)
    (hw : 0 < work s) : ∃ a, enabledUpB st sid a = true :=
  Relay.never_stuck st sid s hs hst hw

/-- **Progress under fairness.** Fairness is the explicit hypothesis `hfair`: in the rest of the run — ANY interleaving
with the receive loop, other sessions, downlinks, evictions — the uplink goroutine of `sid` is scheduled for at least
`work s` of its enabled steps (a `resolved` step = the resolver eventually answers or fails; by `uplink_never_stuck`
such a step is always available while something is pending). Then every packet that was pending in the session at
that point (the one inside `PackInPlace` and the whole send queue) has LEFT the uplink, in FIFO order: the session's
fate log continues exactly with these packets. Each fate is one of the documented ones (`Fate`: sent / resolver
failed / pack failed / session never started; `code_drop_rules` ties the list to the source), a `sent` fate is a
datagram of `sent` (`fate_sent_is_sent`, hence to the named destination by `no_cross_session_send`); a packet that
is NOT accepted into the queue is logged in `qdrop` (queue full) by `recv`. Nothing is lost for any other reason. -/
theorem accepted_packets_sent_or_documented_drop (cfg : Config) (pre acts : List Act) (sid : Nat) (s : Sess)
    (hs : (run cfg State.init pre).sess sid = some s)
    (hfair : work s ≤ upTurns cfg sid (run cfg State.init pre) acts) :
    ∃ Z, fateOf (run cfg (run cfg State.init pre) acts) sid = fateOf (run cfg State.init pre) sid ++ pend s ++ Z :=
  Relay.pending_get_fates pre acts sid s hs hfair

/-- conservation + FIFO in every reachable state: the packets accepted into a session's queue are, in order, exactly
those that already have a fate, then the one in flight, then the queue — nothing disappears, nothing is reordered -/
theorem queue_conservation_fifo (cfg : Config) (acts : List Act) (sid : Nat) (s : Sess)
    (hs : (run cfg State.init acts).sess sid = some s) :
    enqOf (run cfg State.init acts) sid = fateOf (run cfg State.init acts) sid ++ pend s :=
  (Relay.finv_run acts Relay.finv_init).fifo sid s hs

theorem fate_sent_is_sent (cfg : Config) (acts : List Act) :
    ∀ e ∈ (run cfg State.init acts).fate, ∀ ip port, e.2.2 = .sent ip port →
      (⟨e.1, e.2.1, ip, port⟩ : Sent) ∈ (run cfg State.init acts).sent :=
  (Relay.finv_run acts Relay.finv_init).sentLog

example : upTurns ⟨4, true, true, false, none, fun s => s⟩ 0
    (run ⟨4, true, true, false, none, fun s => s⟩ State.init [.recv 1 1 (some ⟨.dom 7 53, 100⟩), .initOk 0])
    [.take 0, .recv 2 2 (some ⟨.ip 9 53, 101⟩), .resolved 0 none] = 2 := by decide

/-- Gen side condition for the four recvmmsg/sendmmsg relay loops (NAT + session, uplink + downlink): every
send-side vector is filled at the kept-counter, the counter is declared per batch and incremented once after the
fills, the slice handed to `WriteMsgs` ends at the counter, message `i` points at slot `i`, a downlink reads message
`i` from buffer `i`. Fails to elaborate when an index expression changes (e.g. `siovec[i]` for `siovec[ns]`). -/
theorem code_batch_facts : codeBatchOK = true := by decide

/-- **batch_sends_exactly_kept.** For every batch (any length up to the vector size), every pattern of dropped
messages inside it and whatever EARLIER batches left in the send vector: the messages handed to sendmmsg are
exactly the kept ones, in order, each with its own header and payload (`α` = a re-packed datagram). Hence a batched
relay loop behaves as the per-datagram loop of the model (`down` / `take`…`readSend`) applied to the batch in order. -/
theorem batch_sends_exactly_kept {α : Type} (slots : List α) (rx : List (Option α)) (h : rx.length ≤ slots.length) :
    (batchSend .counter slots rx).2 = rx.filterMap id :=
  Relay.batch_sends_kept slots rx h

/-- … for the fill mode each of the four loops of the CURRENT source uses -/
theorem batch_sends_exactly_kept_code {α : Type} : ∀ p ∈ SSV.Gen.C11.batchProgs, ∀ fill, progFill p.2 = some fill →
    ∀ (slots : List α) (rx : List (Option α)), rx.length ≤ slots.length → (batchSend fill slots rx).2 = rx.filterMap id := by
  intro p hp fill hf slots rx h
  have hall := code_batch_facts
  simp only [codeBatchOK, Bool.and_eq_true, List.all_eq_true] at hall
  have hp' := (hall.2 p hp).1
  simp only [beq_iff_eq] at hp'
  rw [hp'] at hf
  cases hf
  exact batch_sends_exactly_kept slots rx h

example : (batchSend .counter [70, 71, 72] [none, some 5, none, some 6]).2 = [5, 6] := by decide

/-- the negation for a loop that fills at the receive index (`siovec[i]`): a dropped message in front of a good one
makes the relay send a stale entry of an earlier batch instead of the good reply -/
theorem recv_index_fill_sends_stale :
    (batchSend .recvIndex [70, 71] [none, some 5]).2 = [70] ∧ [none, some 5].filterMap id = [5] := by decide

/-- address-keyed relays: a datagram from another address never reaches this session (its key IS its address) -/
theorem nat_keyed_by_address (cfg : Config) (hb : cfg.byAddr = true) (st : State) (key : Key) (src : Addr)
    (r : Option Pkt) (h : key ≠ src) : step cfg st (.recv key src r) = st := by
  simp [step, recv, hb, h]

end SSV.C11

#print axioms SSV.C11.code_packer_per_session
#print axioms SSV.C11.code_facts
#print axioms SSV.C11.no_cross_session_send
#print axioms SSV.C11.no_cross_session_send_code
#print axioms SSV.C11.shared_packer_cross_send
#print axioms SSV.C11.garbage_is_noop
#print axioms SSV.C11.garbage_is_noop_code
#print axioms SSV.C11.replies_to_owner
#print axioms SSV.C11.replies_to_owner_code
#print axioms SSV.C11.ss2022_follows_address
#print axioms SSV.C11.enqueued_head_leaves_partial
#print axioms SSV.C11.code_drop_rules
#print axioms SSV.C11.uplink_never_stuck
#print axioms SSV.C11.accepted_packets_sent_or_documented_drop
#print axioms SSV.C11.queue_conservation_fifo
#print axioms SSV.C11.fate_sent_is_sent
#print axioms SSV.C11.code_batch_facts
#print axioms SSV.C11.batch_sends_exactly_kept
#print axioms SSV.C11.batch_sends_exactly_kept_code
#print axioms SSV.C11.recv_index_fill_sends_stale
#print axioms SSV.C11.nat_keyed_by_address
