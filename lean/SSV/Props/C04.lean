import SSV.Proofs.SWFRun
/-
C04 — Authenticated UDP packets are delivered at most once; fresh ones never refused.
Property theorems only (helper lemmas: SSV/Proofs/SWF*.lean, SSV/Proofs/UdpSession.lean).

Part 1: the sliding-window filter (ss2022/slidingwindow.go, model SSV/Model/SWF.lean) refines the
specification "list of delivered ids + newest" (SSV/Model/SWFSpec.lean) for EVERY window size
with `1 ≤ size` and `size + 63 < 2^63` and EVERY sequence of operations `Add(c)`,
`IsOk(c);MustAdd(c)`, `IsOk(c)`, `Reset()` with arbitrary ids (in particular all ids `< 2^64`).

Excluded sizes (stated as the decidable hypothesis `SizeOk`): for `size + 63 ≥ 2^63` the code's
`1 << bits.Len64(size+63)` is `2^63·2 = 0 (mod 2^64)` or `size+63` itself wraps; the model keeps
those wraps explicit (`SWF.new`), the theorems do not cover them (finding F15, decided under C18;
corr_c04 runs the real code at a few such sizes and reports the outcome in its notes).
-/
namespace SSV.C04
open SSV.SWF

/-- Gen side condition: the proofs are for the block width the source has now. -/
theorem gen_swfBlockBits : SSV.Gen.C04.swfBlockBits = 64 := by decide

/-- the window sizes the theorems quantify over -/
def SizeOk (size : Nat) : Prop := 1 ≤ size ∧ size + 63 < 2 ^ 63

instance (size : Nat) : Decidable (SizeOk size) := by unfold SizeOk; infer_instance

example : SizeOk 1 ∧ SizeOk 256 ∧ SizeOk (2 ^ 63 - 64) ∧ ¬ SizeOk 0 ∧ ¬ SizeOk (2 ^ 63 - 63) := by decide

/-- **swf_refines.** For every size in range and every operation sequence, the verdict sequence of the
ring-of-words filter equals the verdict sequence of the specification: an id is accepted iff it was
not delivered before and (nothing was delivered yet, or it is newer than the newest delivered id, or
it is fewer than `size` behind it). Covers `Add` and `IsOk;MustAdd` (and mixed use, probes, `Reset`). -/
theorem swf_refines (size : Nat) (h : SizeOk size) (ops : List Op) :
    verdicts (new size) ops = specVerdicts size [] ops ∧
    deliveredFrom (new size) [] ops = specDelivered size [] ops :=
  ⟨(run_new size h.1 h.2 ops).1, (run_new size h.1 h.2 ops).2.1⟩

example : ∃ ops, verdicts (new 2) ops = [true, true, false, false, true, true] :=
  ⟨[.add 5, .check 4, .add 3, .add 5, .probe 70, .add 70], by decide⟩

/-- **at_most_once.** No id is delivered twice (within one filter life, i.e. between `Reset`s):
the list of ids the filter accepted through `Add` / `IsOk;MustAdd` has no duplicates. -/
theorem at_most_once (size : Nat) (h : SizeOk size) (ops : List Op) :
    (deliveredFrom (new size) [] ops).Nodup := by
  rw [(swf_refines size h ops).2]
  exact specDelivered_nodup List.nodup_nil ops

/-- **fresh_never_refused.** After any history `pre`, whatever the arrival order was, an id that is not
yet delivered and is newer than, or fewer than `size` behind, the newest delivered id (or arrives
when nothing was delivered yet) is accepted — by `Add`, and by `IsOk` (so `MustAdd` follows). -/
theorem fresh_never_refused (size : Nat) (h : SizeOk size) (pre : List Op) (c : Nat)
    (hf : Fresh size (deliveredFrom (new size) [] pre) c) :
    (add (after (new size) pre) c).2 = true ∧ isOk (after (new size) pre) c = true := by
  obtain ⟨_, _, hinv, hsz⟩ := run_new size h.1 h.2 pre
  have hok : isOk (after (new size) pre) c = true := (isOk_iff hinv c).mpr (by rw [hsz]; exact hf)
  refine ⟨?_, hok⟩
  rw [add_eq, if_pos hok]

example : Fresh 2 (deliveredFrom (new 2) [] [.add 5]) 4 := by decide

/-- **refused_only_if_not_fresh.** Conversely an id that is not fresh is refused and the filter is left
exactly as it was. -/
theorem refused_only_if_not_fresh (size : Nat) (h : SizeOk size) (pre : List Op) (c : Nat)
    (hf : ¬ Fresh size (deliveredFrom (new size) [] pre) c) :
    add (after (new size) pre) c = (after (new size) pre, false) ∧ isOk (after (new size) pre) c = false := by
  obtain ⟨_, _, hinv, hsz⟩ := run_new size h.1 h.2 pre
  have hok : ¬ isOk (after (new size) pre) c = true :=
    fun hok => hf (by have := (isOk_iff hinv c).mp hok; rw [hsz] at this; exact this)
  have hok' : isOk (after (new size) pre) c = false := by
    cases hb : isOk (after (new size) pre) c
    · rfl
    · exact absurd hb hok
  refine ⟨?_, hok'⟩
  rw [add_eq, hok']; rfl

example : ¬ Fresh 2 (deliveredFrom (new 2) [] [.add 5]) 3 := by decide

/-- **no_index_out_of_range / words_fit.** Along every run every ring access of `IsOk`/`MustAdd`/`Add` is
inside the ring (the `getD` default of the model is never used, the code cannot panic there) and
every ring word stays below `2^64` (the `Nat` words of the model are the code's `uint` words). -/
theorem ring_access_in_range (size : Nat) (h : SizeOk size) (ops : List Op) (c : Nat) :
    blockIndex (after (new size) ops) c < (after (new size) ops).ring.length ∧
    (∀ i, (i + 1) &&& (after (new size) ops).mask < (after (new size) ops).ring.length) ∧
    (∀ i, word (after (new size) ops) i < 2 ^ 64) := by
  obtain ⟨_, _, hinv, _⟩ := run_new size h.1 h.2 ops
  refine ⟨hinv.wf.blockIndex_lt c, ?_, hinv.words⟩
  intro i
  obtain ⟨k, hk, hm⟩ := hinv.wf.pow
  rw [hm, hk]; exact clearLoop_index_lt k i

/-- A counter at least `size` behind the newest accepted one is refused and leaves the filter unchanged
(any filter, any size). -/
theorem add_behind_refused (f : Filter) (c : Nat) (h1 : ¬ c > f.last) (h2 : f.last - c ≥ f.size) :
    add f c = (f, false) := by
  simp [add, h1, h2]

example : ∃ (f : Filter) (c : Nat), ¬ c > f.last ∧ f.last - c ≥ f.size := ⟨(add (new 2) 9).1, 3, by decide⟩

end SSV.C04

#print axioms SSV.C04.gen_swfBlockBits
#print axioms SSV.C04.swf_refines
#print axioms SSV.C04.at_most_once
#print axioms SSV.C04.fresh_never_refused
#print axioms SSV.C04.refused_only_if_not_fresh
#print axioms SSV.C04.ring_access_in_range
#print axioms SSV.C04.add_behind_refused
