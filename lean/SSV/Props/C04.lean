import SSV.Model.SWF
/-
C04 — property theorems (statements only live here; helper lemmas in SSV/Proofs).
-/
namespace SSV.C04
open SSV.SWF

/-- A counter at least `size` behind the newest accepted one is refused and leaves the filter unchanged. -/
theorem add_behind_refused (f : Filter) (c : Nat) (h1 : ¬ c > f.last) (h2 : f.last - c ≥ f.size) :
    add f c = (f, false) := by
  simp [add, h1, h2]

end SSV.C04

#print axioms SSV.C04.add_behind_refused
