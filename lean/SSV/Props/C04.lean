import SSV.Proofs.SWFRun
import SSV.Proofs.UdpSession
import SSV.Proofs.UdpClient
import SSV.Proofs.UdpMulti
/-
C04 — Authenticated UDP packets are delivered at most once; fresh ones never refused.
Property theorems only (helper lemmas: SSV/Proofs/SWFBits.lean, SWF.lean, SWFRun.lean, UdpSession.lean, UdpClient.lean;
specification side: SSV/Model/SWFSpec.lean).

Part 1: the sliding-window filter (ss2022/slidingwindow.go, model SSV/Model/SWF.lean) refines the
specification "list of delivered ids + newest" (SSV/Model/SWFSpec.lean) for EVERY window size
with `1 ≤ size` and `size + 63 < 2^63` and EVERY sequence of operations `Add(c)`,
`IsOk(c);MustAdd(c)`, `IsOk(c)`, `Reset()` with arbitrary ids (in particular all ids `< 2^64`).

Excluded sizes (stated as the decidable hypothesis `SizeOk`): for `size + 63 ≥ 2^63` the code's
`1 << bits.Len64(size+63)` is `2^63·2 = 0 (mod 2^64)` or `size+63` itself wraps; the model keeps
those wraps explicit (`SWF.new`), the theorems do not cover them (finding F15, decided under C18;
corr_c04 runs the real code at a few such sizes and reports the outcome in its notes).
-/
namespace SSV.C04
open SSV.SWF

/-- Gen side condition: the proofs are for the block width the source has now. -/
theorem gen_swfBlockBits : SSV.Gen.C04.swfBlockBits = 64 := by decide

/-- Gen side condition: the bodies of the filter functions the model `SSV.SWF` mirrors statement by statement
(all arithmetic on the peer-controlled 64-bit packet id: `counter > f.last`, `f.last-counter >= f.size`,
`counter / swfBlockBits & mask`, `counter % swfBlockBits`, `min(int(blockIndex-lastBlockIndex), len(f.ring))`,
the clearing loop, `1 << bits.Len64(size+swfBlockBits-1)`), as the source has them now. -/
theorem gen_swf_sources :
    SSV.Gen.C04.srcSwfNew =
      "{ ringBits := uint64(1 << bits.Len64(size+swfBlockBits-1)) ringBlocks := ringBits / swfBlockBits return &SlidingWindowFilter{ size: size, ring: make([]uint, ringBlocks), ringBlockIndexMask: ringBlocks - 1, } }" ∧
    SSV.Gen.C04.srcSwfIsOk =
      "{ if counter > f.last { return true } if f.last-counter >= f.size { return false } return f.ring[f.blockIndex(counter)]&(1<<f.bitIndex(counter)) == 0 }" ∧
    SSV.Gen.C04.srcSwfMustAdd =
      "{ blockIndex := f.unmaskedBlockIndex(counter) if counter > f.last { lastBlockIndex := f.unmaskedBlockIndex(f.last) clearBlockCount := min(int(blockIndex-lastBlockIndex), len(f.ring)) for range clearBlockCount { lastBlockIndex = (lastBlockIndex + 1) & f.ringBlockIndexMask f.ring[lastBlockIndex] = 0 } f.last = counter } blockIndex &= f.ringBlockIndexMask f.ring[blockIndex] |= 1 << f.bitIndex(counter) }" ∧
    SSV.Gen.C04.srcSwfAdd =
      "{ unmaskedBlockIndex := f.unmaskedBlockIndex(counter) blockIndex := unmaskedBlockIndex & f.ringBlockIndexMask bitIndex := f.bitIndex(counter) switch { case counter > f.last: lastBlockIndex := f.unmaskedBlockIndex(f.last) clearBlockCount := min(int(unmaskedBlockIndex-lastBlockIndex), len(f.ring)) for range clearBlockCount { lastBlockIndex = (lastBlockIndex + 1) & f.ringBlockIndexMask f.ring[lastBlockIndex] = 0 } f.last = counter case f.last-counter >= f.size: return false case f.ring[blockIndex]&(1<<bitIndex) != 0: return false } f.ring[blockIndex] |= 1 << bitIndex return true }" ∧
    SSV.Gen.C04.srcSwfReset =
      "{ f.last = 0 f.ring[0] = 0 }" ∧
    SSV.Gen.C04.srcSwfBlockIndex =
      "{ return counter / swfBlockBits & f.ringBlockIndexMask }" ∧
    SSV.Gen.C04.srcSwfUnmaskedBlockIndex =
      "{ return counter / swfBlockBits }" ∧
    SSV.Gen.C04.srcSwfBitIndex =
      "{ return counter % swfBlockBits }" :=
  ⟨rfl, rfl, rfl, rfl, rfl, rfl, rfl, rfl⟩

/-- the window sizes the theorems quantify over -/
def SizeOk (size : Nat) : Prop := 1 ≤ size ∧ size + 63 < 2 ^ 63

instance (size : Nat) : Decidable (SizeOk size) := by unfold SizeOk; infer_instance

example : SizeOk 1 ∧ SizeOk 256 ∧ SizeOk (2 ^ 63 - 64) ∧ ¬ SizeOk 0 ∧ ¬ SizeOk (2 ^ 63 - 63) := by decide

/-- **swf_refines.** For every size in range and every operation sequence, the verdict sequence of the
ring-of-words filter equals the verdict sequence of the specification: an id is accepted iff it was
not delivered before and (nothing was delivered yet, or it is newer than the newest delivered id, or
it is fewer than `size` behind it). Covers `Add` and `IsOk;MustAdd` (and mixed use, probes, `Reset`). -/
theorem swf_refines (size : Nat) (h : SizeOk size) (ops : List Op) :
    verdicts (new size) ops = specVerdicts size [] ops ∧
    deliveredFrom (new size) [] ops = specDelivered size [] ops :=
  ⟨(run_new size h.1 h.2 ops).1, (run_new size h.1 h.2 ops).2.1⟩

example : ∃ ops, verdicts (new 2) ops = [true, true, false, false, true, true] :=
  ⟨[.add 5, .check 4, .add 3, .add 5, .probe 70, .add 70], by decide⟩

/-- **at_most_once.** No id is delivered twice (within one filter life, i.e. between `Reset`s):
the list of ids the filter accepted through `Add` / `IsOk;MustAdd` has no duplicates. -/
theorem at_most_once (size : Nat) (h : SizeOk size) (ops : List Op) :
    (deliveredFrom (new size) [] ops).Nodup := by
  rw [(swf_refines size h ops).2]
  exact specDelivered_nodup List.nodup_nil ops

/-- **fresh_never_refused.** After any history `pre`, whatever the arrival order was, an id that is not
yet delivered and is newer than, or fewer than `size` behind, the newest delivered id (or arrives
when nothing was delivered yet) is accepted — by `Add`, and by `IsOk` (so `MustAdd` follows). -/
theorem fresh_never_refused (size : Nat) (h : SizeOk size) (pre : List Op) (c : Nat)
    (hf : Fresh size (deliveredFrom (new size) [] pre) c) :
    (add (after (new size) pre) c).2 = true ∧ isOk (after (new size) pre) c = true := by
  obtain ⟨_, _, hinv, hsz⟩ := run_new size h.1 h.2 pre
  have hok : isOk (after (new size) pre) c = true := (isOk_iff hinv c).mpr (by rw [hsz]; exact hf)
  refine ⟨?_, hok⟩
  rw [add_eq, if_pos hok]

example : Fresh 2 (deliveredFrom (new 2) [] [.add 5]) 4 := by decide

/-- **refused_only_if_not_fresh.** Conversely an id that is not fresh is refused and the filter is left
exactly as it was. -/
theorem refused_only_if_not_fresh (size : Nat) (h : SizeOk size) (pre : List Op) (c : Nat)
    (hf : ¬ Fresh size (deliveredFrom (new size) [] pre) c) :
    add (after (new size) pre) c = (after (new size) pre, false) ∧ isOk (after (new size) pre) c = false := by
  obtain ⟨_, _, hinv, hsz⟩ := run_new size h.1 h.2 pre
  have hok : ¬ isOk (after (new size) pre) c = true :=
    fun hok => hf (by have := (isOk_iff hinv c).mp hok; rw [hsz] at this; exact this)
  have hok' : isOk (after (new size) pre) c = false := by
    cases hb : isOk (after (new size) pre) c
    · rfl
    · exact absurd hb hok
  refine ⟨?_, hok'⟩
  rw [add_eq, hok']; rfl

example : ¬ Fresh 2 (deliveredFrom (new 2) [] [.add 5]) 3 := by decide

/-- **no_index_out_of_range / words_fit.** Along every run every ring access of `IsOk`/`MustAdd`/`Add` is
inside the ring (the `getD` default of the model is never used, the code cannot panic there) and
every ring word stays below `2^64` (the `Nat` words of the model are the code's `uint` words). -/
theorem ring_access_in_range (size : Nat) (h : SizeOk size) (ops : List Op) (c : Nat) :
    blockIndex (after (new size) ops) c < (after (new size) ops).ring.length ∧
    (∀ i, (i + 1) &&& (after (new size) ops).mask < (after (new size) ops).ring.length) ∧
    (∀ i, word (after (new size) ops) i < 2 ^ 64) := by
  obtain ⟨_, _, hinv, _⟩ := run_new size h.1 h.2 ops
  refine ⟨hinv.wf.blockIndex_lt c, ?_, hinv.words⟩
  intro i
  obtain ⟨k, hk, hm⟩ := hinv.wf.pow
  rw [hm, hk]; exact clearLoop_index_lt k i

/-- A counter at least `size` behind the newest accepted one is refused and leaves the filter unchanged
(any filter, any size). -/
theorem add_behind_refused (f : Filter) (c : Nat) (h1 : ¬ c > f.last) (h2 : f.last - c ≥ f.size) :
    add f c = (f, false) := by
  simp [add, h1, h2]

example : ∃ (f : Filter) (c : Nat), ¬ c > f.last ∧ f.last - c ≥ f.size := ⟨(add (new 2) 9).1, 3, by decide⟩

/-! ## Part 2: the UDP unpackers (ss2022/packet.go, model SSV/Model/UdpSession.lean) -/

open SSV.UdpSession

/-- Gen side conditions: the order of the property-relevant statements in the two `UnpackInPlace`
functions as the source has it now: length guard, [session classification,] `IsOk` guard, AEAD open,
header parse/validation (each followed by `if err != nil { return }`), lazy filter creation, `MustAdd`,
and only then writes to the receiver's state. This is what justifies the shape of the model
(`serverVerdict`/`serverCommit`, `clientVerdict`/`clientCommit`): no state is written before the last
early return. -/
theorem gen_serverUnpackOrder : SSV.Gen.C04.serverUnpackOrder =
    ["guard", "isok-guard", "open", "ret-if-err", "parse", "ret-if-err", "create[p.filter == nil]", "mustadd", "return"] := by
  rfl

theorem gen_clientUnpackOrder : SSV.Gen.C04.clientUnpackOrder =
    ["guard",
     "switch[ssid == p.currentServerSessionID && p.currentServerSessionAEAD != nil; ssid == p.oldServerSessionID && p.oldServerSessionAEAD != nil; time.Since(p.oldServerSessionLastSeenTime) < time.Minute:may-return; default:may-return]",
     "isok-guard", "open", "ret-if-err", "parse", "ret-if-err", "create[sessionStatus == newServerSession]", "mustadd",
     "switch[oldServerSession:write:oldServerSessionLastSeenTime; newServerSession:write:oldServerSessionID+oldServerSessionAEAD+oldServerSessionFilter+oldServerSessionLastSeenTime+currentServerSessionID+currentServerSessionAEAD+currentServerSessionFilter]",
     "return"] := by
  rfl

/-- Gen side condition: the constants of the header checks and of the one-minute rule. -/
theorem gen_udp_constants :
    SSV.Gen.C04.HeaderTypeClientPacket = 0 ∧ SSV.Gen.C04.HeaderTypeServerPacket = 1 ∧
    SSV.Gen.C04.MaxEpochDiff = 30 ∧ SSV.Gen.C04.clientSessionChangeMinInterval = 60 * 1000000000 := by
  decide

/-- Gen side condition: the timestamp validation both UDP header parsers call, as the source has it now — the
body of `ValidateUnixEpochTimestamp` (wrapping `int64` subtraction of whole seconds, two signed comparisons
against `±MaxEpochDiff`; model: `SaltPool.tsValidWord` on 64-bit words) … -/
theorem gen_src_validateTimestamp : SSV.Gen.C04.srcValidateTimestamp =
    "{ tsEpoch := int64(binary.BigEndian.Uint64(b)) nowEpoch := now.Unix() diff := tsEpoch - nowEpoch if diff < -MaxEpochDiff || diff > MaxEpochDiff { return &HeaderError[int64]{ErrBadTimestamp, nowEpoch, tsEpoch} } return nil }" := rfl

/-- … and its call sites: the error-producing statements of the two UDP header parsers in order (length, type,
timestamp via `ValidateUnixEpochTimestamp(b[1:1+8], now)`, [client session id,] padding, address): the order
`parseClientHeader` / `parseServerHeader` mirror. -/
theorem gen_udpHeaderChecks :
    SSV.Gen.C04.udpClientHeaderChecks =
      ["if len(b) < UDPClientMessageHeaderFixedLength", "if b[0] != HeaderTypeClientPacket",
       "err<-ValidateUnixEpochTimestamp(b[1:1+8], now)", "ret-if-err", "if payloadStart > len(b)",
       "err<-domainCache.ConnAddrFromSlice(b[payloadStart:])", "ret-if-err"] ∧
    SSV.Gen.C04.udpServerHeaderChecks =
      ["if len(b) < UDPServerMessageHeaderFixedLength", "if b[0] != HeaderTypeServerPacket",
       "err<-ValidateUnixEpochTimestamp(b[1:1+8], now)", "ret-if-err", "if pcsid != csid", "if payloadStart > len(b)",
       "err<-socks5.AddrPortFromSlice(b[payloadStart:])", "ret-if-err"] := ⟨rfl, rfl⟩

/-- Gen side condition: the program of checks the model's `parseClientHeader` / `parseServerHeader` EXECUTE (they run
`SSV.Gen.C04.udpClientHeaderOrder` / `udpServerHeaderOrder`, extracted from the parser bodies, first failing check
decides): a reordering in the source changes the model's error class for multi-fault packets with it. -/
theorem gen_udpHeaderOrder :
    SSV.Gen.C04.udpClientHeaderOrder = [.len, .typ, .ts, .pad, .addr] ∧
    SSV.Gen.C04.udpServerHeaderOrder = [.len, .typ, .ts, .csid, .pad, .addr] := by decide

/-- **header_first_fault_decides.** The model's parsers report the error of the first failing check in source order —
e.g. a stale packet of the wrong type is a type error, a stale one with a foreign client session id is a
timestamp error — and accept iff no check fails. -/
theorem header_first_fault_decides (now csid : Nat) (p : Packet) :
    (parseServerHeader now csid p = none ↔
      (p.hdr = true ∧ p.typ = SSV.Gen.C04.HeaderTypeServerPacket ∧ tsValid p.ts now = true ∧ p.csid = csid ∧
        p.padOk = true ∧ p.addrOk = true)) ∧
    (p.hdr = true → p.typ ≠ SSV.Gen.C04.HeaderTypeServerPacket → parseServerHeader now csid p = some .badType) ∧
    (p.hdr = true → p.typ = SSV.Gen.C04.HeaderTypeServerPacket → tsValid p.ts now = false →
      parseServerHeader now csid p = some .badTimestamp) ∧
    (p.hdr = true → p.typ = SSV.Gen.C04.HeaderTypeServerPacket → tsValid p.ts now = true → p.csid ≠ csid →
      parseServerHeader now csid p = some .csidMismatch) := by
  refine ⟨⟨parseServerHeader_none, ?_⟩, ?_, ?_, ?_⟩
  · rintro ⟨a, b, c, d, e, f⟩
    simp [parseServerHeader, SSV.Gen.C04.udpServerHeaderOrder, runChecks, checkFails, a, b, c, d, e, f, headerTypeServerPacket]
  · intro a b
    simp [parseServerHeader, SSV.Gen.C04.udpServerHeaderOrder, runChecks, checkFails, a, b, headerTypeServerPacket]
  · intro a b c
    simp [parseServerHeader, SSV.Gen.C04.udpServerHeaderOrder, runChecks, checkFails, a, b, c, headerTypeServerPacket]
  · intro a b c d
    simp [parseServerHeader, SSV.Gen.C04.udpServerHeaderOrder, runChecks, checkFails, a, b, c, d, headerTypeServerPacket]

/-- **timestamp_check_meaning.** For EVERY 64-bit timestamp word (not only "clock moved by a bit more than 30 s"):
on a sane clock the check as written accepts the word iff, read as `int64`, it is within `MaxEpochDiff` = 30
seconds of the clock; hence a delivered packet — server or client unpacker, any state — carries such a
timestamp. -/
theorem timestamp_check_meaning (now : Nat) (hck : ClockOk now) :
    (∀ ts : BitVec 64, tsValid ts now = true ↔ tsNear ts now) ∧
    (∀ (st : ServerState) (p : Packet), (serverStep st now p).2 = .ok → tsNear p.ts now) ∧
    (∀ (st : ClientState) (p : Packet), (clientStep st now p).2 = .ok → tsNear p.ts now) := by
  refine ⟨fun ts => tsValid_iff_near ts hck, fun st p h => ?_, fun st p h => ?_⟩
  · exact (tsValid_iff_near p.ts hck).mp (parseClientHeader_none (serverStep_ok h).2.2).2.2.1
  · exact (tsValid_iff_near p.ts hck).mp (parseServerHeader_none (clientStep_ok h).2.2).2.2.1

example : ClockOk 100000000000 ∧ tsNear 130 100000000000 ∧ ¬ tsNear 131 100000000000 ∧
    ¬ tsNear (100 + 4611686018427387904) 100000000000 ∧ ¬ tsNear (100 + 36028797018963968) 100000000000 ∧
    ¬ tsNear 18446744073709551615 100000000000 := by
  simp [ClockOk, tsNear, SSV.SaltPool.unixSec, SSV.SaltPool.nsPerSec, tsParams, SSV.Gen.C04.MaxEpochDiff]

/-- **rejected_is_noop.** A packet that is not delivered — too short, replayed, forged (AEAD does not
open), wrong type, stale timestamp, another client's session id, malformed rest, or (client) a server
session change refused by the one-minute rule — leaves the unpacker state exactly as it was:
the filter(s), their existence, the session bookkeeping. So it cannot change which later packets are
accepted. Server and client unpacker. -/
theorem rejected_is_noop :
    (∀ (st : ServerState) (now : Nat) (p : Packet), (serverStep st now p).2 ≠ .ok → (serverStep st now p).1 = st) ∧
    (∀ (st : ClientState) (now : Nat) (p : Packet), (clientStep st now p).2 ≠ .ok → (clientStep st now p).1 = st) :=
  ⟨serverStep_noop, clientStep_noop⟩

example : ∃ (st : ServerState) (now : Nat) (p : Packet), (serverStep st now p).2 ≠ .ok :=
  ⟨serverInit 4, 0, { long := true, sid := 0, pid := 0, authentic := false, hdr := true, typ := 0, ts := 0, csid := 0, padOk := true, addrOk := true }, by decide⟩

/-- **junk_never_delivered.** Forged, wrong-type, stale packets — stale = the 64-bit timestamp word, read as `int64`,
is more than `MaxEpochDiff` s away from the clock, whatever its value — (and, on the client, packets that name
another client session) are never delivered, in any state, on a sane clock. -/
theorem junk_never_delivered :
    (∀ (st : ServerState) (now : Nat) (p : Packet), ClockOk now → serverJunk now p = true → (serverStep st now p).2 ≠ .ok) ∧
    (∀ (st : ClientState) (now : Nat) (p : Packet), ClockOk now → clientJunk st.csid now p = true → (clientStep st now p).2 ≠ .ok) :=
  ⟨fun _ _ _ hc h => serverJunk_rejected hc h, fun _ _ _ hc h => clientJunk_rejected hc h⟩

example : serverJunk 0 { long := true, sid := 0, pid := 0, authentic := true, hdr := true, typ := 0, ts := 31, csid := 0, padOk := true, addrOk := true } = true := by
  decide

/-- **junk_interleaving.** Interleaving any amount of such junk into a history changes no verdict on the
other packets: the verdicts of the non-junk packets of a history equal the verdicts of the history
with the junk removed (every state, every history; server and client). -/
theorem junk_interleaving :
    (∀ (st : ServerState) (evs : List Event), (∀ e ∈ evs, ClockOk e.1) →
      ((evs.zip (serverRun st evs)).filter (fun e => !serverJunk e.1.1 e.1.2)).map (·.2) =
        serverRun st (evs.filter (fun e => !serverJunk e.1 e.2))) ∧
    (∀ (st : ClientState) (evs : List Event), (∀ e ∈ evs, ClockOk e.1) →
      ((evs.zip (clientRun st evs)).filter (fun e => !clientJunk st.csid e.1.1 e.1.2)).map (·.2) =
        clientRun st (evs.filter (fun e => !clientJunk st.csid e.1 e.2))) :=
  ⟨server_junk_filter, client_junk_filter⟩

/-- **server_unpack_refines.** For every filter size in range, after every history `pre` (any mix of
genuine, replayed, reordered, forged, stale, malformed packets at any times) the server unpacker
delivers a packet iff it is long enough, authentic, its header validates now (complete, client type, timestamp
word within `MaxEpochDiff` s of the clock, well-formed rest), and its packet id is
fresh w.r.t. the ids delivered so far (not delivered; newer than, or fewer than `size` behind, the
newest delivered; or nothing delivered yet). -/
theorem server_unpack_refines (n : Nat) (h : SizeOk n) (pre : List Event) (now : Nat) (hck : ClockOk now) (p : Packet) :
    (serverStep (serverAfter (serverInit n) pre) now p).2 = .ok ↔
      (p.long = true ∧ p.authentic = true ∧
        (p.hdr = true ∧ p.typ = SSV.Gen.C04.HeaderTypeClientPacket ∧ tsNear p.ts now ∧ p.padOk = true ∧ p.addrOk = true) ∧
        Fresh n (serverDelivered (serverInit n) [] pre) p.pid) := by
  have h0 : SInv (serverInit n) [] := rfl
  obtain ⟨hinv, hsz⟩ := serverRun_inv (st := serverInit n) h.1 h.2 h0 pre
  have hsz' : (serverAfter (serverInit n) pre).filterSize = n := hsz
  have := (serverStep_spec (by rw [hsz']; exact h.1) (by rw [hsz']; exact h.2) hinv now p).1
  rw [hsz', parseClientHeader_none_iff, tsValid_iff_near p.ts hck] at this
  exact this

/-- **server_at_most_once.** The server unpacker never delivers the same packet id twice in a session. -/
theorem server_at_most_once (n : Nat) (h : SizeOk n) (evs : List Event) :
    (serverDelivered (serverInit n) [] evs).Nodup :=
  serverDelivered_nodup (st := serverInit n) h.1 h.2 rfl List.nodup_nil evs

example : serverRun (serverInit 4)
    [(0, { long := true, sid := 0, pid := 7, authentic := true, hdr := true, typ := 0, ts := 0, csid := 0, padOk := true, addrOk := true }),
     (0, { long := true, sid := 0, pid := 7, authentic := true, hdr := true, typ := 0, ts := 0, csid := 0, padOk := true, addrOk := true })]
    = [.ok, .replay] := by decide

/-! ### the client unpacker: current / old / dropped server sessions -/

/-- **client_at_most_once** (first half of `client_sessions`). For every filter size in range, on every
history with a clock that never goes back (any mix of genuine, replayed, reordered, forged, stale,
foreign packets; any number of server sessions coming, going and coming back), no packet is delivered
twice: the (server session id, packet id, timestamp) triples of the delivered packets are pairwise
distinct — whether the packet's session is still current, is the old one, or was dropped in the
meantime (then the one-minute rule plus the timestamp check reject the replay).
Timestamps are arbitrary 64-bit words; the only sanity hypothesis `EvOk` is a clock whose `Unix()+30` is an
`int64`. The proof goes through `timestamp_check_meaning` (accepted ⇒ within 30 s, for every word). An honest server uses each (session id, packet id) once, so a
replay is a packet with the same triple. -/
theorem client_at_most_once (n csid : Nat) (h : SizeOk n) (evs : List Event)
    (hm : MonoFrom 0 evs) (hr : ∀ e ∈ evs, EvOk e) :
    (clientOkKeys (clientInit n csid) evs).Nodup :=
  (client_run_nodup (st := clientInit n csid) h.1 h.2 (clientInit_inv n csid) evs hm hr).1

example : ∃ evs : List Event, MonoFrom 0 evs ∧ (∀ e ∈ evs, EvOk e) ∧ clientRun (clientInit 4 9) evs = [.ok, .replay, .ok, .tooManySessions] :=
  ⟨[(1000000000, { long := true, sid := 5, pid := 7, authentic := true, hdr := true, typ := 1, ts := 1, csid := 9, padOk := true, addrOk := true }),
    (2000000000, { long := true, sid := 5, pid := 7, authentic := true, hdr := true, typ := 1, ts := 1, csid := 9, padOk := true, addrOk := true }),
    (2000000000, { long := true, sid := 5, pid := 8, authentic := true, hdr := true, typ := 1, ts := 1, csid := 9, padOk := true, addrOk := true }),
    (3000000000, { long := true, sid := 6, pid := 0, authentic := true, hdr := true, typ := 1, ts := 3, csid := 9, padOk := true, addrOk := true })],
   by simp [MonoFrom],
   by simp [EvOk, ClockOk, SSV.SaltPool.unixSec, SSV.SaltPool.nsPerSec, tsParams, SSV.Gen.C04.MaxEpochDiff], by decide⟩

/-- **client_fresh_never_refused.** After every history `pre` on a monotone clock, a long-enough authentic
packet whose header validates now and whose server session is the current one (resp. the old one) is
delivered whenever its packet id is fresh w.r.t. the ids delivered in the present life of that session
(`ghostAfter` files every delivered packet under current / old / dropped exactly as the sessions move). -/
theorem client_fresh_never_refused (n csid : Nat) (h : SizeOk n) (pre : List Event)
    (hm : MonoFrom 0 pre) (hr : ∀ e ∈ pre, EvOk e) (t : Nat) (p : Packet)
    (hl : p.long = true) (ha : p.authentic = true) (hp : parseServerHeader t csid p = none) :
    let st := clientAfter (clientInit n csid) pre
    let g := ghostAfter (clientInit n csid) { cur := [], old := [], dropped := [] } pre
    (isCur st p.sid = true → Fresh n (g.cur.map (·.pid)) p.pid → (clientStep st t p).2 = .ok) ∧
    (isCur st p.sid = false → isOld st p.sid = true → Fresh n (g.old.map (·.pid)) p.pid → (clientStep st t p).2 = .ok) := by
  intro st g
  obtain ⟨⟨T', hinv⟩, hfs, hcs⟩ := client_run_inv (st := clientInit n csid) h.1 h.2 (clientInit_inv n csid) pre hm hr
  have hfs' : st.filterSize = n := hfs
  have hcs' : st.csid = csid := hcs
  have := client_fresh_accepted hinv t p hl ha (by rw [hcs']; exact hp)
  rw [hfs'] at this
  refine ⟨fun a b => ?_, fun a b c => ?_⟩
  · rw [clientStep_res]; exact this.1 a b
  · rw [clientStep_res]; exact this.2 a b c

example :
    let pre : List Event := [(1000000000, { long := true, sid := 5, pid := 7, authentic := true, hdr := true, typ := 1, ts := 1, csid := 9, padOk := true, addrOk := true })]
    isCur (clientAfter (clientInit 4 9) pre) 5 = true ∧
    Fresh 4 ((ghostAfter (clientInit 4 9) { cur := [], old := [], dropped := [] } pre).cur.map (·.pid)) 8 := by
  decide

/-- **client_change_rate** (second half of `client_sessions`). On a clock that never goes back, any two
deliveries that change the current server session (accept a packet of a session that is neither the
current nor the old one) are at least `clientSessionChangeMinInterval` = one minute apart; the first
session a client ever sees counts as a change. -/
theorem client_change_rate (st : ClientState) (T : Nat) (evs : List Event) (hm : MonoFrom T evs) :
    (clientChanges st evs).Pairwise (fun a b => a + SSV.Gen.C04.clientSessionChangeMinInterval ≤ b) :=
  client_changes_pairwise evs hm

example : clientChanges (clientInit 4 9)
    [(1000000000, { long := true, sid := 5, pid := 7, authentic := true, hdr := true, typ := 1, ts := 1, csid := 9, padOk := true, addrOk := true }),
     (61000000000, { long := true, sid := 6, pid := 0, authentic := true, hdr := true, typ := 1, ts := 61, csid := 9, padOk := true, addrOk := true })]
    = [1000000000, 61000000000] := by decide

/-! ### multi-user server: identity headers, per-user session keys (Model/UdpMulti.lean) -/

open SSV.UdpMulti

/-- **eih_rejected_is_noop.** Behind the session table of a multi-user server a datagram that is not delivered —
too short, identity header of no known user, sealed under another user's key, replayed, stale, … — changes
nothing: no session is created, no filter is touched, in this or any other session. -/
theorem eih_rejected_is_noop (n : Nat) (t : Table) (now : Nat) (e : EPacket)
    (h : (multiStep n t now e).2 ≠ .res .ok) : (multiStep n t now e).1 = t :=
  multiStep_noop n t now e h

example : (multiStep 4 emptyTable 0
    { sep := true, eih := true, eihUser := none, keyUser := some 1,
      pkt := { long := true, sid := 7, pid := 0, authentic := true, hdr := true, typ := 0, ts := 0, csid := 0, padOk := true, addrOk := true } }).2
    = .userNotFound := by decide

/-- **eih_unpack_refines** (at-most-once and fresh-never-refused per (user, session)). For every filter size in
range, after every history `pre` over any number of users and client sessions, a datagram is delivered iff:
it has a separate header; it is sealed under the key of the session's user (for the first packet of a session:
of the user its identity header names); it is long enough; its header validates now (client type, timestamp
word within `MaxEpochDiff` s of the clock, well-formed); and its packet id is fresh w.r.t. the ids delivered
*in its own client session*. -/
theorem eih_unpack_refines (n : Nat) (h : SizeOk n) (pre : List MEvent) (now : Nat) (hck : ClockOk now) (e : EPacket) :
    (multiStep n (multiAfter n emptyTable pre) now e).2 = .res .ok ↔
      (e.sep = true ∧
       (∃ u, sessionUser (multiAfter n emptyTable pre) e = some u ∧ e.keyUser = some u) ∧
       e.pkt.long = true ∧
       (e.pkt.hdr = true ∧ e.pkt.typ = SSV.Gen.C04.HeaderTypeClientPacket ∧ tsNear e.pkt.ts now ∧ e.pkt.padOk = true ∧ e.pkt.addrOk = true) ∧
       Fresh n (proj e.pkt.sid (multiDelivered n emptyTable [] pre)) e.pkt.pid) := by
  obtain ⟨hinv, _⟩ := multiRun_inv h.1 h.2 (emptyTable_inv n) List.nodup_nil pre
  have := (multiStep_spec h.1 h.2 hinv now e).1
  rw [parseClientHeader_none_iff, tsValid_iff_near e.pkt.ts hck] at this
  exact this

/-- **eih_at_most_once.** No (client session id, packet id) is delivered twice, whatever the users, keys and
identity headers of the datagrams of the history. -/
theorem eih_at_most_once (n : Nat) (h : SizeOk n) (evs : List MEvent) :
    (multiDelivered n emptyTable [] evs).Nodup :=
  (multiRun_inv h.1 h.2 (emptyTable_inv n) List.nodup_nil evs).2

/-- **eih_foreign_user_is_junk.** A datagram sealed under another user's key than the session's user (for a new
session: than the user its identity header names), or forged, is never delivered and changes nothing. -/
theorem eih_foreign_user_is_junk (n : Nat) (h : SizeOk n) (pre : List MEvent) (now : Nat) (e : EPacket)
    (hf : ∀ u, sessionUser (multiAfter n emptyTable pre) e = some u → e.keyUser ≠ some u) :
    (multiStep n (multiAfter n emptyTable pre) now e).2 ≠ .res .ok ∧
    (multiStep n (multiAfter n emptyTable pre) now e).1 = multiAfter n emptyTable pre := by
  obtain ⟨hinv, _⟩ := multiRun_inv h.1 h.2 (emptyTable_inv n) List.nodup_nil pre
  have hne : (multiStep n (multiAfter n emptyTable pre) now e).2 ≠ .res .ok := by
    intro hk
    obtain ⟨_, ⟨u, hu, hku⟩, _⟩ := (multiStep_spec h.1 h.2 hinv now e).1.mp hk
    exact hf u hu hku
  exact ⟨hne, multiStep_noop _ _ _ _ hne⟩

example : multiRun 4 emptyTable
    [(0, { sep := true, eih := true, eihUser := some 1, keyUser := some 1,
           pkt := { long := true, sid := 7, pid := 0, authentic := true, hdr := true, typ := 0, ts := 0, csid := 0, padOk := true, addrOk := true } }),
     (0, { sep := true, eih := true, eihUser := some 2, keyUser := some 2,
           pkt := { long := true, sid := 7, pid := 1, authentic := true, hdr := true, typ := 0, ts := 0, csid := 0, padOk := true, addrOk := true } }),
     (0, { sep := true, eih := true, eihUser := none, keyUser := some 1,
           pkt := { long := true, sid := 7, pid := 1, authentic := true, hdr := true, typ := 0, ts := 0, csid := 0, padOk := true, addrOk := true } }),
     (0, { sep := true, eih := true, eihUser := some 1, keyUser := some 1,
           pkt := { long := true, sid := 7, pid := 1, authentic := true, hdr := true, typ := 0, ts := 0, csid := 0, padOk := true, addrOk := true } })]
    = [.res .ok, .res .authFail, .res .ok, .res .replay] := by decide

end SSV.C04

#print axioms SSV.C04.gen_swfBlockBits
#print axioms SSV.C04.swf_refines
#print axioms SSV.C04.at_most_once
#print axioms SSV.C04.fresh_never_refused
#print axioms SSV.C04.refused_only_if_not_fresh
#print axioms SSV.C04.ring_access_in_range
#print axioms SSV.C04.add_behind_refused
#print axioms SSV.C04.gen_serverUnpackOrder
#print axioms SSV.C04.gen_clientUnpackOrder
#print axioms SSV.C04.gen_udp_constants
#print axioms SSV.C04.rejected_is_noop
#print axioms SSV.C04.junk_never_delivered
#print axioms SSV.C04.junk_interleaving
#print axioms SSV.C04.server_unpack_refines
#print axioms SSV.C04.server_at_most_once
#print axioms SSV.C04.client_at_most_once
#print axioms SSV.C04.client_change_rate
#print axioms SSV.C04.client_fresh_never_refused
#print axioms SSV.C04.gen_src_validateTimestamp
#print axioms SSV.C04.gen_udpHeaderChecks
#print axioms SSV.C04.timestamp_check_meaning
#print axioms SSV.C04.gen_swf_sources
#print axioms SSV.C04.eih_rejected_is_noop
#print axioms SSV.C04.eih_unpack_refines
#print axioms SSV.C04.eih_at_most_once
#print axioms SSV.C04.eih_foreign_user_is_junk
#print axioms SSV.C04.gen_udpHeaderOrder
#print axioms SSV.C04.header_first_fault_decides
