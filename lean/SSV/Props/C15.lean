import SSV.Model.Pipe
import SSV.Model.PipeShape
import SSV.Proofs.Pipe
import SSV.Proofs.PipeLive
import SSV.Proofs.PipeStable
import SSV.Proofs.PipeExamples
import SSV.Proofs.PipeRefine
import SSV.Proofs.PipeSuccs
import SSV.Proofs.PipeTimeout
import SSV.Proofs.PipeTerm
import SSV.Proofs.PipeTermDL
import SSV.Proofs.PipeFair
import SSV.Proofs.PipeFairEx
import SSV.Gen.C15
/-
C15 — the in-memory pipe (netio/pipe.go) is a faithful duplex stream with half-close and deadlines.

Decided PARTIALLY: the theorems hold for every reachable state of the goroutine-pc transition system
`SSV.Pipe` (any number of threads, any number of calls, every interleaving of the model's atomic steps);
the Go scheduler's actual choices and timer delivery are sampled by the correspondence engines.
All theorems are about ONE direction; a pipe is two directions that share no state (`directions_independent`).
-/
namespace SSV.C15
open SSV.Pipe

/-! ### the tie to the source: select shapes, `Store; close`, lock, wiring (regenerated on every run) -/

/-- The comm clauses of the three selects in the source are the alternatives the model's step relation uses. -/
theorem select_shapes :
    SSV.Gen.C15.readSelect = readSelect.map Shape.Alt.readSrc ∧
    SSV.Gen.C15.writeToSelect = writeToSelect.map Shape.Alt.readSrc ∧
    SSV.Gen.C15.writeSelect = writeSelect.map Shape.Alt.writeSrc := by decide

/-- Pre-checks, clause bodies (count-back sent on every path that received data), the lock around the write loop. -/
theorem call_shapes :
    SSV.Gen.C15.readPrecheck = Shape.readPrecheck ∧ SSV.Gen.C15.writeToPrecheck = Shape.readPrecheck ∧
    SSV.Gen.C15.writePrecheck = Shape.writePrecheck ∧
    SSV.Gen.C15.readPrecheckRet = Shape.readPrecheckRet ∧ SSV.Gen.C15.writeToPrecheckRet = Shape.writeToPrecheckRet ∧
    SSV.Gen.C15.writePrecheckRet = Shape.writePrecheckRet ∧
    SSV.Gen.C15.readSelectBodies = Shape.readSelectBodies ∧ SSV.Gen.C15.writeToSelectBodies = Shape.writeToSelectBodies ∧
    SSV.Gen.C15.writeSelectBodies = Shape.writeSelectBodies ∧
    SSV.Gen.C15.writePrologue = Shape.writePrologue ∧ SSV.Gen.C15.writeEpilogue = Shape.writeEpilogue ∧
    SSV.Gen.C15.writeLoop = Shape.writeLoop ∧ SSV.Gen.C15.writeToLoop = Shape.writeToLoop ∧
    SSV.Gen.C15.readWrapper = Shape.readWrapper ∧ SSV.Gen.C15.writeWrapper = Shape.writeWrapper ∧
    SSV.Gen.C15.writeToWrapper = Shape.writeToWrapper :=
  ⟨rfl, rfl, rfl, rfl, rfl, rfl, rfl, rfl, rfl, rfl, rfl, rfl, rfl, rfl, rfl, rfl⟩

/-- `Store` precedes `close` in both close functions; Set*Deadline test-then-set; error mappers; onceError. -/
theorem close_and_deadline_shapes :
    SSV.Gen.C15.closeReadSteps = Shape.closeReadSteps ∧ SSV.Gen.C15.closeWriteSteps = Shape.closeWriteSteps ∧
    SSV.Gen.C15.closeWithErrorSteps = Shape.closeWithErrorSteps ∧ SSV.Gen.C15.closeReadBody = Shape.closeReadBody ∧
    SSV.Gen.C15.closeWriteBody = Shape.closeWriteBody ∧ SSV.Gen.C15.closeBody = Shape.closeBody ∧
    SSV.Gen.C15.setReadDeadlineSteps = Shape.setReadDeadlineSteps ∧
    SSV.Gen.C15.setWriteDeadlineSteps = Shape.setWriteDeadlineSteps ∧
    SSV.Gen.C15.setDeadlineSteps = Shape.setDeadlineSteps ∧
    SSV.Gen.C15.writeCloseErrorBody = Shape.writeCloseErrorBody ∧
    SSV.Gen.C15.writeToReadCloseErrorBody = Shape.writeToReadCloseErrorBody ∧
    SSV.Gen.C15.onceStoreBody = Shape.onceStoreBody ∧ SSV.Gen.C15.onceLoadBody = Shape.onceLoadBody ∧
    SSV.Gen.C15.isClosedChanBody = Shape.isClosedChanBody ∧ SSV.Gen.C15.deadlineWaitBody = Shape.deadlineWaitBody ∧
    SSV.Gen.C15.deadlineSetBody = Shape.deadlineSetBody ∧ SSV.Gen.C15.makeDeadlineBody = Shape.makeDeadlineBody :=
  ⟨rfl, rfl, rfl, rfl, rfl, rfl, rfl, rfl, rfl, rfl, rfl, rfl, rfl, rfl, rfl, rfl, rfl⟩

/-- Only `done` and `cancel` channels are ever closed, every channel is unbuffered, and NewPipe wires two
directions that share nothing. -/
theorem wiring_shapes :
    SSV.Gen.C15.closeCalls = Shape.closeCalls ∧ SSV.Gen.C15.makeChans = Shape.makeChans ∧
    SSV.Gen.C15.pipeLeft = Shape.pipeLeft ∧ SSV.Gen.C15.pipeRight = Shape.pipeRight ∧
    SSV.Gen.C15.onceFuncs = Shape.onceFuncs :=
  ⟨rfl, rfl, rfl, rfl, rfl⟩

/-! ### safety -/

/-- No reachable state has panicked: `onceError.Load` never dereferences nil (the `Store` always precedes the
`close(done)` that lets a `Load` happen), `b[nw:]` is in range, a `cancel` channel is never closed twice.
(Data and count-back channels are never closed at all: there is no such step; see `wiring_shapes`.) -/
theorem no_panic {s : State} (r : Reachable s) : s.panicked = false :=
  (inv_reachable r).noPanic

/-- …because whenever `done` is closed the once-error is set. -/
theorem done_implies_error_stored {s : State} (r : Reachable s) (h : s.done = true) : ∃ e, s.err = some e :=
  err_of_done (inv_reachable r) h

/-- FIDELITY + ATOMIC WRITES: the bytes returned by the reads (and WriteTo chunks) at one end, in completion
order, are exactly the concatenation, in lock order, of the consumed prefixes `buf.take n` of the writes at
the other end — each write's bytes form one contiguous block; nothing is lost, duplicated or reordered. -/
theorem fidelity {s : State} (r : Reachable s) :
    s.rret = (s.wlog.map (fun w => w.1.take w.2)).flatten :=
  (inv_reachable r).fid

/-- WRITE COUNT: a write that returns `n` after taking the lock has log entry `(buf, n)` with `n ≤ len buf`,
i.e. (by `fidelity`) exactly `buf.take n` was consumed by readers; a write refused by the pre-checks returns 0. -/
theorem write_count {s : State} (r : Reachable s) (i n : Nat) (e : RErr) (ci : Option Nat)
    (h : s.thr i = .wRet n e ci) :
    match ci with
    | some c => ∃ buf, s.wlog[c]? = some (buf, n) ∧ n ≤ buf.length
    | none => n = 0 := by
  have := (inv_reachable r).wOk i
  rw [h] at this
  cases ci with
  | some c => exact this.1
  | none => exact this

/-- …and while a write is still in its loop its local `b`, `n` agree with the log: `b = buf.drop n`. -/
theorem write_in_progress {s : State} (r : Reachable s) (i : Nat) (b : Bytes) (n ci g : Nat)
    (h : s.thr i = .wSel b n ci g) :
    ci + 1 = s.wlog.length ∧ ∃ buf, s.wlog[ci]? = some (buf, n) ∧ b = buf.drop n ∧ n ≤ buf.length := by
  have := (inv_reachable r).wOk i
  rw [h] at this; exact this

/-- ATOMIC WRITES (mutual exclusion): at most one thread is between `Lock` and `Unlock`. -/
theorem atomic_writes {s : State} (r : Reachable s) (i j : Nat)
    (hi : (s.thr i).holds = true) (hj : (s.thr j).holds = true) : i = j := by
  have a := (inv_reachable r).muHold i hi
  have b := (inv_reachable r).muHold j hj
  rw [a] at b; exact Option.some.inj b

/-- The committed hand-shake pairs one reader with one writer, and the chunk the reader holds is the prefix
of the slice the writer offered. -/
theorem handshake_paired {s : State} (r : Reachable s) (i : Nat) (k : RKind) (acc nr : Nat) (fail : Bool)
    (chunk : Bytes) (h : s.thr i = .rAck k acc nr fail chunk) :
    ∃ j b n ci, s.thr j = .wAwait b n ci ∧ chunk = b.take nr ∧ nr ≤ b.length ∧
      ∀ i', (s.thr i').isAck = true → i' = i := by
  have inv := inv_reachable r
  obtain ⟨j, hj⟩ := inv.ackHs i (by simp [h, PC.isAck])
  obtain ⟨_, _, _, _, b, n, ci, h1, h2, h3⟩ := inv.hsOk i j hj
  rw [h] at h1; simp only [PC.rAck.injEq] at h1
  obtain ⟨_, _, e1, _, e2⟩ := h1
  subst e1
  refine ⟨j, b, n, ci, h2, e2, h3, ?_⟩
  intro i' hi'
  obtain ⟨j', hj'⟩ := inv.ackHs i' hi'
  rw [hj] at hj'; simp only [Option.some.injEq, Prod.mk.injEq] at hj'
  exact hj'.1.symm

/-! ### progress (stated as safety: what is enabled in every reachable state) -/

/-- NO STUCK STATE: in every reachable state every thread that is inside a call either can move right now,
or sits in a `select` that has a `done` and a `deadline` alternative — and then it can move as soon as `done`
is closed, as soon as the cancel channel it waits on is closed, or as soon as a partner sits in the matching
select — or waits for `wrMu`, whose holder is another thread inside the write loop (itself subject to
this theorem).  The committed hand-shake (`rAck` / `wAwait`) always has its partner at the matching point, so it
falls under "can move right now". -/
theorem no_stuck_state {s : State} (r : Reachable s) (i : Nat) :
    match s.thr i with
    | .idle | .rRet .. | .wRet .. | .uRet .. => True
    | .rSel k _ g =>
        (Alt.done ∈ k.sel ∧ Alt.deadline ∈ k.sel) ∧ (s.done = true → CanMove s i) ∧
        (s.rdl.chanClosed g = true → CanMove s i) ∧
        (∀ j b n ci gw, s.thr j = .wSel b n ci gw → CanMove s i)
    | .wSel _ _ _ g =>
        (Alt.done ∈ writeSelect ∧ Alt.deadline ∈ writeSelect) ∧ (s.done = true → CanMove s i) ∧
        (s.wdl.chanClosed g = true → CanMove s i) ∧
        (∀ j k acc gr, s.thr j = .rSel k acc gr → CanMove s i)
    | .wLock _ => CanMove s i ∨ ∃ j, j ≠ i ∧ s.mu = some j ∧ (s.thr j).holds = true
    | _ => CanMove s i := by
  have inv := inv_reachable r
  have loc := local_enabled inv i
  cases hp : s.thr i <;> simp only [hp] at loc ⊢ <;> (try trivial) <;> (try exact Or.inl loc)
  case rSel k acc g =>
    refine ⟨⟨(sel_has k).2.1, (sel_has k).2.2⟩, ?_, ?_, ?_⟩
    · intro hd
      obtain ⟨e, he⟩ := err_of_done inv hd
      exact Or.inl ⟨_, rSel_done_step hp hd he⟩
    · intro hc; exact Or.inl ⟨_, rSel_deadline_step hp hc⟩
    · intro j b n ci gw hj
      obtain ⟨s', h'⟩ := data_enabled hp hj
      exact Or.inr (Or.inl ⟨j, s', Or.inl h'⟩)
  case rAck k acc nr fail chunk =>
    obtain ⟨j, hj⟩ := inv.ackHs i (by simp [hp, PC.isAck])
    obtain ⟨_, _, _, _, b, n, ci, _, h2, _⟩ := inv.hsOk i j hj
    obtain ⟨s', h'⟩ := count_enabled hp h2
    exact Or.inr (Or.inr ⟨j, s', Or.inl h'⟩)
  case wLock b =>
    cases hm : s.mu with
    | none => exact Or.inl (Or.inl (wLock_enabled hp hm))
    | some j =>
      refine Or.inr ⟨j, ?_, rfl, inv.muLive j hm⟩
      intro e; subst e
      have := inv.muLive _ hm; simp [hp, PC.holds] at this
  case wSel b n ci g =>
    refine ⟨⟨wsel_has.2.1, wsel_has.2.2⟩, ?_, ?_, ?_⟩
    · intro hd
      obtain ⟨e, he⟩ := err_of_done inv hd
      exact Or.inl ⟨_, wSel_done_step hp hd he⟩
    · intro hc; exact Or.inl ⟨_, wSel_deadline_step hp hc⟩
    · intro j k acc gr hj
      obtain ⟨s', h'⟩ := data_enabled hj hp
      exact Or.inr (Or.inl ⟨j, s', Or.inr h'⟩)
  case wAwait b n ci =>
    obtain ⟨j, hj⟩ := inv.awaitHs i (by simp [hp, PC.isAwait])
    obtain ⟨k, acc, nr, fail, _, _, _, h1, _, _⟩ := inv.hsOk j i hj
    obtain ⟨s', h'⟩ := count_enabled h1 hp
    exact Or.inr (Or.inr ⟨j, s', Or.inr h'⟩)

/-- NO DEADLOCK ONCE CLOSED: in a reachable state whose `done` is closed, as long as some thread is inside a
call, some internal step is enabled (no combination of pending reads, writes, mutex waiters and hand-shakes
is stuck). -/
theorem no_deadlock_after_close {s : State} (r : Reachable s) (hd : s.done = true) (i : Nat)
    (hc : match s.thr i with | .idle | .rRet .. | .wRet .. | .uRet .. => False | _ => True) :
    ∃ j, CanMove s j := by
  have h := no_stuck_state r i
  cases hp : s.thr i <;> simp only [hp] at h hc <;> (try exact hc.elim) <;> (try exact ⟨i, h⟩)
  case rSel => exact ⟨i, h.2.1 hd⟩
  case wSel => exact ⟨i, h.2.1 hd⟩
  case wLock b =>
    rcases h with h | ⟨j, _, _, hj⟩
    · exact ⟨i, h⟩
    · have hj' := no_stuck_state r j
      cases hq : s.thr j <;> simp only [hq, PC.holds] at hj hj' <;>
        first
          | exact ⟨j, hj'⟩
          | exact ⟨j, hj'.2.1 hd⟩
          | simp at hj

/-- ALL CALLS RETURN AFTER CLOSE, under every schedule: from a reachable state whose `done` is closed, with
all threads `≥ N` idle, any run of `k` internal steps (thread-local, channel operations, timer, collecting a
result — everything except the start of a new call) satisfies `k + measure s' ≤ measure s`; so no such run is
longer than `measure N s`, whatever the scheduler does (no fairness assumption). -/
theorem runs_bounded_after_close {N k : Nat} {s s' : State} (r : Reachable s) (hd : s.done = true)
    (hb : Bounded N s) (run : IRun s k s') : k + measure N s' ≤ measure N s :=
  (run_bounded run (inv_reachable r) hd hb).1

/-- …and a run can only stop (no internal step enabled) when every call has returned and been collected:
together with `runs_bounded_after_close`, every maximal run after a close ends, after at most `measure N s`
steps, with all threads idle — no interleaving deadlocks. -/
theorem quiescent_after_close_all_returned {s : State} (r : Reachable s) (hd : s.done = true)
    (hq : ¬ ∃ s', IStep s s') (i : Nat) : s.thr i = .idle := by
  have canMove_istep : ∀ j, CanMove s j → ∃ s', IStep s s' := by
    intro j hj
    rcases hj with ⟨s', h⟩ | ⟨j', s', h | h⟩ | ⟨j', s', h | h⟩
    · exact ⟨s', .loc j h⟩
    · exact ⟨s', .data j j' h⟩
    · exact ⟨s', .data j' j h⟩
    · exact ⟨s', .count j j' h⟩
    · exact ⟨s', .count j' j h⟩
  cases hp : s.thr i
  case idle => rfl
  case rRet => exact absurd ⟨s.setT i .idle, .finish i (by simp [finish, hp])⟩ hq
  case wRet => exact absurd ⟨s.setT i .idle, .finish i (by simp [finish, hp])⟩ hq
  case uRet => exact absurd ⟨s.setT i .idle, .finish i (by simp [finish, hp])⟩ hq
  all_goals
    exfalso; apply hq
    obtain ⟨j, hj⟩ := no_deadlock_after_close r hd i (by simp [hp])
    exact canMove_istep j hj

/-- ALL CALLS RETURN AFTER THE DEADLINES EXPIRED (whether or not the direction is closed), under every
schedule: from a reachable state in which the current cancel channels of both the read and the write deadline are
closed and no Set*Deadline call is pending, any run of `k` internal steps (no new calls) satisfies
`k + measureE s' ≤ measureE s`.  No fairness assumption. -/
theorem runs_bounded_after_deadline {N k : Nat} {s s' : State} (r : Reachable s) (hx : Expired s)
    (hb : Bounded N s) (run : IRun s k s') : k + measureE N s' ≤ measureE N s :=
  (run_boundedE run (inv_reachable r) hx hb).1

/-- …and such a run can only stop when every call has returned and been collected. -/
theorem quiescent_after_deadline_all_returned {s : State} (r : Reachable s) (hx : Expired s)
    (hq : ¬ ∃ s', IStep s s') (i : Nat) : s.thr i = .idle := by
  have inv := inv_reachable r
  have canMove_istep : ∀ j, CanMove s j → ∃ s', IStep s s' := by
    intro j hj
    rcases hj with ⟨s', h⟩ | ⟨j', s', h | h⟩ | ⟨j', s', h | h⟩
    · exact ⟨s', .loc j h⟩
    · exact ⟨s', .data j j' h⟩
    · exact ⟨s', .data j' j h⟩
    · exact ⟨s', .count j j' h⟩
    · exact ⟨s', .count j' j h⟩
  -- every thread inside a call, other than a mutex waiter, can move
  have moves : ∀ j, (match s.thr j with
      | .idle | .rRet .. | .wRet .. | .uRet .. | .wLock _ => True
      | _ => CanMove s j) := by
    intro j
    have h := no_stuck_state r j
    have hg := inv.gens j
    cases hp : s.thr j <;> simp only [hp] at h hg ⊢ <;> first
      | trivial
      | exact h
      | exact h.2.2.1 (chanClosed_of_closed hg hx.rd)
      | exact h.2.2.1 (chanClosed_of_closed hg hx.wd)
  have h := no_stuck_state r i
  have hm := moves i
  cases hp : s.thr i
  case idle => rfl
  case rRet => exact absurd ⟨s.setT i .idle, .finish i (by simp [finish, hp])⟩ hq
  case wRet => exact absurd ⟨s.setT i .idle, .finish i (by simp [finish, hp])⟩ hq
  case uRet => exact absurd ⟨s.setT i .idle, .finish i (by simp [finish, hp])⟩ hq
  case wLock b =>
    exfalso; apply hq
    simp only [hp] at h
    rcases h with h | ⟨j, _, _, hj⟩
    · exact canMove_istep i h
    · have hj' := moves j
      cases hq' : s.thr j <;> simp only [hq', PC.holds] at hj hj' <;> first
        | exact canMove_istep j hj'
        | simp at hj
  all_goals
    exfalso; apply hq
    simp only [hp] at hm
    exact canMove_istep i hm

/-! ### progress before any close, under an explicit fairness assumption -/

/-- A WRITE FACING READERS THAT KEEP READING RETURNS (no close, no deadline needed).  `r` is an infinite run of the
model (`IsRun`: each position a model step or a stutter).  FAIRNESS ASSUMPTION, explicit: `WeakFair r j` — if from
some position on writer `j` could always take part in a step, it eventually does.  ENVIRONMENT: whenever `j` offers
in its select a reader sits in its select (`partner`), and the reader that is in the hand-shake with `j` took at
least one byte of a non-empty offer (`pos`, i.e. readers use non-empty buffers).  Then from the loop head
(`wEnter`, lock held) `j` returns: after finitely many rounds, each of which strictly shrinks what is left. -/
theorem write_returns_fair {r : Nat → State} {j ci : Nat} (hr : IsRun r) (hf : WeakFair r j)
    (partner : ∀ m b c g, (r m).thr j = .wSel b c ci g → ∃ i k acc gr, (r m).thr i = .rSel k acc gr)
    (pos : ∀ m i k acc nr fail chunk b c, (r m).thr i = .rAck k acc nr fail chunk →
      (r m).thr j = .wAwait b c ci → b ≠ [] → 1 ≤ nr)
    (n : Nat) (b : Bytes) (c : Nat) (hp : (r n).thr j = .wEnter b c ci) :
    ∃ m, n ≤ m ∧ ∃ c' e, (r m).thr j = .wRet c' e (some ci) :=
  write_returns hr hf partner pos b.length n b c (Nat.le_refl _) hp

/-- A READ FACING A WRITER RETURNS: run weakly fair towards reader `i`; whenever `i` sits in its select some writer
sits in the write select; then `i` returns (through the hand-shake, or earlier through close / deadline). -/
theorem read_returns_fair {r : Nat → State} {i : Nat} (hr : IsRun r) (hf : WeakFair r i)
    (partner : ∀ m k acc g, (r m).thr i = .rSel k acc g → ∃ j b c ci gw, (r m).thr j = .wSel b c ci gw)
    (n cap acc g : Nat) (hp : (r n).thr i = .rSel (.read cap) acc g) :
    ∃ m, n ≤ m ∧ ∃ c e, (r m).thr i = .rRet c e :=
  read_returns hr hf partner n cap acc g hp

/-! ### half-close, close-read, deadlines -/

/-- HALF CLOSE: after `CloseWrite` won the once-error (`done` closed, error = EOF): a `Read` that starts now
returns `(0, EOF)` — nothing but that; a `Read` blocked in its select can return `(0, EOF)`; a read already in
the committed hand-shake still completes with its chunk (`no_stuck_state`, `fidelity`); `WriteTo` returns
`(n, nil)`; and this state of the direction is permanent. The reverse direction is a separate transition
system (`directions_independent`). -/
theorem half_close {s : State} (_r : Reachable s) (h : closedAs s .eof) :
    (∀ i cap acc, s.thr i = .rChk1 (.read cap) acc → localSteps s i = [s.setT i (.rRet acc .eof)]) ∧
    (∀ i cap acc g, s.thr i = .rSel (.read cap) acc g → s.setT i (.rRet acc .eof) ∈ localSteps s i) ∧
    (∀ i plan ff acc, s.thr i = .rChk1 (.wt plan ff) acc → localSteps s i = [s.setT i (.rRet acc .nil)]) ∧
    (∀ s', Step s s' → closedAs s' .eof) := by
  refine ⟨?_, ?_, ?_, fun s' st => closedAs_stable st h⟩
  · intro i cap acc hp
    unfold localSteps; simp [hp, h.1, withErr, h.2, RKind.closeErr, Err.toR]
  · intro i cap acc g hp
    have := rSel_done_step hp h.1 h.2
    simpa [RKind.closeErr, Err.toR] using this
  · intro i plan ff acc hp
    unfold localSteps; simp [hp, h.1, withErr, h.2, RKind.closeErr, writeToCloseErr]

/-- CLOSE READ FAILS WRITES: once the direction is closed (by `CloseRead`: ErrClosedPipe, or by the writer's
own `CloseWrite`: EOF) a `Write` that starts returns `(0, ErrClosedPipe)`, a `Write` blocked in its select can
return `(n, ErrClosedPipe)` with the count consumed so far, and `Read` at the closing end returns
ErrClosedPipe after `CloseRead`. -/
theorem close_read_fails_writes {s : State} (_r : Reachable s) (e : Err) (he : e = .closedPipe ∨ e = .eof)
    (h : closedAs s e) :
    (∀ i b, s.thr i = .wChk1 b → localSteps s i = [s.setT i (.wRet 0 .closedPipe none)]) ∧
    (∀ i b n ci g, s.thr i = .wSel b n ci g →
      { s with mu := none }.setT i (.wRet n .closedPipe (some ci)) ∈ localSteps s i) ∧
    (e = .closedPipe → ∀ i cap acc, s.thr i = .rChk1 (.read cap) acc →
      localSteps s i = [s.setT i (.rRet acc .closedPipe)]) := by
  have hw : writeCloseErr e = .closedPipe := by rcases he with he | he <;> subst he <;> simp [writeCloseErr, Err.toR]
  refine ⟨?_, ?_, ?_⟩
  · intro i b hp
    unfold localSteps; simp [hp, h.1, withErr, h.2, hw]
  · intro i b n ci g hp
    have := wSel_done_step hp h.1 h.2
    rw [hw] at this; exact this
  · intro hc i cap acc hp
    subst hc
    unfold localSteps; simp [hp, h.1, withErr, h.2, RKind.closeErr, Err.toR]

/-- DEADLINE UNBLOCKS: whenever the current cancel channel of the read (write) deadline is closed — after
`Set*Deadline(past)` or after the timer fired — EVERY read/writeTo (write) that sits in its select, whichever
cancel channel it captured on entry, can return `os.ErrDeadlineExceeded` with the count so far; calls that
start are refused by the pre-check unless the direction is closed (close errors take precedence). -/
theorem deadline_unblocks {s : State} (r : Reachable s) :
    (s.rdl.closed = true →
      (∀ i k acc g, s.thr i = .rSel k acc g → s.setT i (.rRet acc .timeout) ∈ localSteps s i) ∧
      (∀ i k acc, s.thr i = .rChk2 k acc → localSteps s i = [s.setT i (.rRet acc .timeout)])) ∧
    (s.wdl.closed = true →
      (∀ i b n ci g, s.thr i = .wSel b n ci g →
        { s with mu := none }.setT i (.wRet n .timeout (some ci)) ∈ localSteps s i) ∧
      (∀ i b, s.thr i = .wChk2 b → localSteps s i = [s.setT i (.wRet 0 .timeout none)])) := by
  have inv := inv_reachable r
  refine ⟨fun hc => ⟨?_, ?_⟩, fun hc => ⟨?_, ?_⟩⟩
  · intro i k acc g hp
    have hg := inv.gens i; simp only [hp, PC.gensOk] at hg
    exact rSel_deadline_step hp (chanClosed_of_closed hg hc)
  · intro i k acc hp
    unfold localSteps; simp [hp, hc]
  · intro i b n ci g hp
    have hg := inv.gens i; simp only [hp, PC.gensOk] at hg
    exact wSel_deadline_step hp (chanClosed_of_closed hg hc)
  · intro i b hp
    unfold localSteps; simp [hp, hc]

/-- `pipeDeadline.set`: a past deadline closes the current channel; a zero or future deadline leaves an OPEN
current channel (re-made if the old one was closed), so later calls are not refused; only an armed timer
(future) can close it again. -/
theorem deadline_set_semantics (d : DL) :
    (d.set .past).closed = true ∧ (d.set .zero).closed = false ∧ (d.set .future).closed = false ∧
    (d.set .zero).armed = false ∧ (d.set .past).armed = false ∧ (d.set .future).armed = true := by
  cases hc : d.closed <;> simp [DL.set, hc]

/-- NO SPURIOUS TIMEOUT: a call returns `os.ErrDeadlineExceeded` only through the deadline alternative of its
select when the cancel channel it captured is closed, or through the deadline pre-check when the current one
is (the hand-shake steps `data` / `count` never produce a timeout: they return `nil` or the sink's error). -/
theorem timeout_only_if_expired {s s' : State} (i : Nat) (hs : s' ∈ localSteps s i)
    (ht : (s'.thr i).isTimeout = true) (hp : s'.panicked = false) :
    match s.thr i with
    | .rSel _ _ g => s.rdl.chanClosed g = true
    | .rChk2 .. => s.rdl.closed = true
    | .wSel _ _ _ g => s.wdl.chanClosed g = true
    | .wChk2 .. => s.wdl.closed = true
    | _ => False :=
  timeout_only_if_expired_aux i hs ht hp

/-! ### the two directions -/

/-- a pipe = two directions; a step of the pipe is a step of one of them -/
structure Pipe where
  ab : State
  ba : State

inductive PStep (p : Pipe) : Pipe → Prop where
  | ab {s'} : Step p.ab s' → PStep p { p with ab := s' }
  | ba {s'} : Step p.ba s' → PStep p { p with ba := s' }

inductive PReachable : Pipe → Prop where
  | init : PReachable ⟨init, init⟩
  | step {p p'} : PReachable p → PStep p p' → PReachable p'

/-- The directions share nothing (see `wiring_shapes`): whatever one direction does — including being closed —
the other one is a reachable state of its own transition system, so every theorem above holds for it. -/
theorem directions_independent {p : Pipe} (r : PReachable p) : Reachable p.ab ∧ Reachable p.ba := by
  induction r with
  | init => exact ⟨.init, .init⟩
  | step _ st ih =>
    cases st with
    | ab h => exact ⟨.step ih.1 h, ih.2⟩
    | ba h => exact ⟨ih.1, .step ih.2 h⟩

/-! ### refinement to the abstract duplex-stream direction -/

/-- REFINEMENT: along every run of the implementation model, each step either leaves the abstract direction
`abs s = (bytes delivered, writes with their delivered counts in admission order, closed : Option Err)`
unchanged or is one of its three atomic actions: a write is admitted (it took the lock), the LAST admitted
write delivers its next `k` bytes (a hand-shake completed), the direction is closed with the stored error. -/
theorem refines_spec {s s' : State} (r : Reachable s) (st : Step s s') :
    abs s' = abs s ∨ SpecStep (abs s) (abs s') :=
  step_refines (inv_reachable r) st

/-- The states the lock-step driver explores are exactly the internal successors of the proved step relation
(sound; complete when every thread at or above the bound is idle). -/
theorem driver_explores_steps {n : Nat} {s s' : State} :
    (s' ∈ succs n s → Step s s') ∧
    ((∀ i, n ≤ i → s.thr i = .idle) →
      ((∃ i, s' ∈ localSteps s i) ∨ (∃ i j, data s i j = some s') ∨ (∃ i j, count s i j = some s')) →
      s' ∈ succs n s) :=
  ⟨succs_sound, succs_complete⟩

/-! ### the property, assembled -/

/-- C15 for the whole pipe, PARTIAL.  In every reachable state of the two-direction model, for each direction:
no panic; the bytes returned by reads are exactly the concatenation, in lock order, of the consumed prefixes of
the writes (once, in order, writes not interleaved); every returned write reports its log entry's count; at most
one writer is inside the lock; and every thread inside a call can move, or waits in a select with `done` and
deadline alternatives, or waits for the mutex held by a thread that itself is subject to this statement.
Half-close, close-read and deadline behaviour are `half_close`, `close_read_fails_writes`, `deadline_unblocks`,
`timeout_only_if_expired`, `no_deadlock_after_close`, each valid for both directions by `directions_independent`.
MISSING for the full property (hence `_partial`): (1) the Go scheduler, timers and memory model are not
formalised — the theorem is about all interleavings of the MODEL's atomic steps, real schedules are sampled by
corr_c15; (2) "unblocks" / "no deadlock" are proved as enabledness in every reachable state, not as termination
under a fairness assumption; (3) atomicity granularity as listed in meta/C15.json. -/
theorem pipe_faithful_duplex_partial {p : Pipe} (r : PReachable p) :
    ∀ s, (s = p.ab ∨ s = p.ba) →
      s.panicked = false ∧
      s.rret = (s.wlog.map (fun w => w.1.take w.2)).flatten ∧
      (∀ i n e c, s.thr i = .wRet n e (some c) → ∃ buf, s.wlog[c]? = some (buf, n) ∧ n ≤ buf.length) ∧
      (∀ i j, (s.thr i).holds = true → (s.thr j).holds = true → i = j) ∧
      (∀ i, match s.thr i with
        | .idle | .rRet .. | .wRet .. | .uRet .. => True
        | .rSel k _ _ => Alt.done ∈ k.sel ∧ Alt.deadline ∈ k.sel
        | .wSel .. => Alt.done ∈ writeSelect ∧ Alt.deadline ∈ writeSelect
        | .wLock _ => CanMove s i ∨ ∃ j, j ≠ i ∧ s.mu = some j ∧ (s.thr j).holds = true
        | _ => CanMove s i) := by
  intro s hs
  have rs : Reachable s := by
    rcases hs with h | h <;> subst h
    · exact (directions_independent r).1
    · exact (directions_independent r).2
  refine ⟨no_panic rs, fidelity rs, ?_, atomic_writes rs, ?_⟩
  · intro i n e c h; exact write_count rs i n e (some c) h
  · intro i
    have h := no_stuck_state rs i
    cases hp : s.thr i <;> simp only [hp] at h ⊢ <;> first
      | trivial
      | exact h
      | exact h.1

/-! ### the hypotheses are satisfiable (concrete runs of the model, `SSV/Proofs/PipeExamples.lean`) -/

/-- a run that transfers data: Write([1,2,3]) ‖ Read(cap 2): the read got [1,2], the write has consumed 2 so far
and goes round its loop with [3] (hypotheses of `no_panic`, `fidelity`, `write_in_progress`, `atomic_writes`). -/
example : Reachable Ex.w6 ∧ Ex.w6.rret = [1, 2] ∧ Ex.w6.wlog = [([1, 2, 3], 2)] ∧ (Ex.w6.thr 0).holds = true :=
  ⟨Ex.w6_reachable, Ex.w6_facts.1, Ex.w6_facts.2.1, by decide⟩
/-- …both sides in their selects (`no_stuck_state`: select cases), then in the committed hand-shake (`handshake_paired`) -/
example : Ex.w4.thr 0 = .wSel [1, 2, 3] 0 0 0 ∧ Ex.w4.thr 1 = .rSel (.read 2) 0 0 := Ex.w4_in_selects
example : Ex.w5.thr 1 = .rAck (.read 2) 0 2 false [1, 2] := Ex.w5_in_handshake.1
/-- a returned write (`write_count`): run the example to the end with a second read -/
example : ∃ s, Reachable s ∧ ∃ i n e ci, s.thr i = .wRet n e ci :=
  ⟨Ex.step1 (Ex.startD Ex.c3 1 (.write [5])) 1,
   Ex.reach_step1 (Ex.reach_start Ex.c3_reachable 1 _ (by decide)) 1 (by decide), 1, 0, .closedPipe, none, by decide⟩
/-- closed by CloseWrite (`half_close`, `close_read_fails_writes`, `done_implies_error_stored`, `no_deadlock_after_close`) -/
example : Reachable Ex.c3 ∧ closedAs Ex.c3 .eof := ⟨Ex.c3_reachable, Ex.c3_closed⟩
/-- closed by CloseRead (`close_read_fails_writes`) -/
example : Reachable Ex.r3 ∧ closedAs Ex.r3 .closedPipe := ⟨Ex.r3_reachable, Ex.r3_closed⟩
/-- an expired read deadline with a reader blocked in its select, a writer in its select and another one queued on
the mutex (`deadline_unblocks`, `no_stuck_state`: mutex case) -/
example : Reachable Ex.d4 ∧ Ex.d4.rdl.closed = true ∧ Ex.d4.thr 1 = .rSel (.read 4) 0 0 ∧
    Ex.d4.thr 3 = .wLock [8] ∧ Ex.d4.mu = some 0 :=
  ⟨Ex.d4_reachable, Ex.d4_facts.1, Ex.d4_facts.2.1, Ex.d4_facts.2.2.2.1, Ex.d4_facts.2.2.2.2.1⟩
/-- a timeout step exists (`timeout_only_if_expired`): the blocked reader of `Ex.d4` takes its deadline alternative -/
example : ∃ s', s' ∈ localSteps Ex.d4 1 ∧ (s'.thr 1).isTimeout = true ∧ s'.panicked = false :=
  ⟨Ex.d4.setT 1 (.rRet 0 .timeout), rSel_deadline_step Ex.d4_facts.2.1 (by decide), by decide, by decide⟩
/-- a closed state with a pending call and a positive measure (`runs_bounded_after_close`) -/
example : Reachable Ex.c3 ∧ Ex.c3.done = true ∧ Bounded 1 Ex.c3 ∧ measure 1 Ex.c3 = 1 ∧ IRun Ex.c3 0 Ex.c3 :=
  ⟨Ex.c3_reachable, by decide, Ex.c3_bounded, by decide, .nil⟩
/-- both deadlines expired with a blocked reader, a blocked writer and a mutex waiter (`runs_bounded_after_deadline`) -/
example : Reachable Ex.d6 ∧ Expired Ex.d6 ∧ Bounded 4 Ex.d6 ∧ Ex.d6.thr 1 = .rSel (.read 4) 0 0 ∧ Ex.d6.done = false :=
  ⟨Ex.d6_reachable, Ex.d6_expired, Ex.d6_bounded, by decide, by decide⟩
/-- concrete fair runs satisfying every hypothesis of `write_returns_fair` / `read_returns_fair` -/
example : IsRun FairEx.run ∧ WeakFair FairEx.run 0 ∧ (FairEx.run 8).thr 0 = .wEnter [1, 2, 3] 0 0 :=
  ⟨FairEx.run_isRun, FairEx.run_fair0, FairEx.run_at8⟩
example : ∃ m, 8 ≤ m ∧ ∃ c' e, (FairEx.run m).thr 0 = .wRet c' e (some 0) :=
  write_returns_fair FairEx.run_isRun FairEx.run_fair0 FairEx.run_partner FairEx.run_pos 8 _ _ FairEx.run_at8
example : ∃ m, 9 ≤ m ∧ ∃ c e, (FairEx.run2 m).thr 1 = .rRet c e :=
  read_returns_fair FairEx.run2_isRun FairEx.run2_fair1 FairEx.run2_partner 9 4 0 0 FairEx.run2_at9
example : PReachable ⟨init, init⟩ := .init

end SSV.C15

#print axioms SSV.C15.select_shapes
#print axioms SSV.C15.call_shapes
#print axioms SSV.C15.close_and_deadline_shapes
#print axioms SSV.C15.wiring_shapes
#print axioms SSV.C15.no_panic
#print axioms SSV.C15.done_implies_error_stored
#print axioms SSV.C15.fidelity
#print axioms SSV.C15.write_count
#print axioms SSV.C15.write_in_progress
#print axioms SSV.C15.atomic_writes
#print axioms SSV.C15.handshake_paired
#print axioms SSV.C15.no_stuck_state
#print axioms SSV.C15.no_deadlock_after_close
#print axioms SSV.C15.half_close
#print axioms SSV.C15.close_read_fails_writes
#print axioms SSV.C15.deadline_unblocks
#print axioms SSV.C15.deadline_set_semantics
#print axioms SSV.C15.directions_independent
#print axioms SSV.C15.refines_spec
#print axioms SSV.C15.driver_explores_steps
#print axioms SSV.C15.timeout_only_if_expired
#print axioms SSV.C15.pipe_faithful_duplex_partial
#print axioms SSV.C15.runs_bounded_after_close
#print axioms SSV.C15.quiescent_after_close_all_returned
#print axioms SSV.C15.runs_bounded_after_deadline
#print axioms SSV.C15.quiescent_after_deadline_all_returned
#print axioms SSV.C15.write_returns_fair
#print axioms SSV.C15.read_returns_fair
