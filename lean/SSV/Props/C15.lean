import SSV.Model.Pipe
import SSV.Model.PipeShape
import SSV.Proofs.Pipe
import SSV.Gen.C15
/-
C15 — the in-memory pipe (netio/pipe.go) is a faithful duplex stream with half-close and deadlines.

Decided PARTIALLY: the theorems hold for every reachable state of the goroutine-pc transition system
`SSV.Pipe` (any number of threads, any number of calls, every interleaving of the model's atomic steps);
the Go scheduler's actual choices and timer delivery are sampled by the correspondence engines.
All theorems are about ONE direction; a pipe is two directions that share no state (`directions_independent`).
-/
namespace SSV.C15
open SSV.Pipe

/-! ### the tie to the source: select shapes, `Store; close`, lock, wiring (regenerated on every run) -/

/-- The comm clauses of the three selects in the source are the alternatives the model's step relation uses. -/
theorem select_shapes :
    SSV.Gen.C15.readSelect = readSelect.map Shape.Alt.readSrc ∧
    SSV.Gen.C15.writeToSelect = writeToSelect.map Shape.Alt.readSrc ∧
    SSV.Gen.C15.writeSelect = writeSelect.map Shape.Alt.writeSrc := by decide

/-- Pre-checks, clause bodies (count-back sent on every path that received data), the lock around the write loop. -/
theorem call_shapes :
    SSV.Gen.C15.readPrecheck = Shape.readPrecheck ∧ SSV.Gen.C15.writeToPrecheck = Shape.readPrecheck ∧
    SSV.Gen.C15.writePrecheck = Shape.writePrecheck ∧
    SSV.Gen.C15.readPrecheckRet = Shape.readPrecheckRet ∧ SSV.Gen.C15.writeToPrecheckRet = Shape.writeToPrecheckRet ∧
    SSV.Gen.C15.writePrecheckRet = Shape.writePrecheckRet ∧
    SSV.Gen.C15.readSelectBodies = Shape.readSelectBodies ∧ SSV.Gen.C15.writeToSelectBodies = Shape.writeToSelectBodies ∧
    SSV.Gen.C15.writeSelectBodies = Shape.writeSelectBodies ∧
    SSV.Gen.C15.writePrologue = Shape.writePrologue ∧ SSV.Gen.C15.writeEpilogue = Shape.writeEpilogue ∧
    SSV.Gen.C15.writeLoop = Shape.writeLoop ∧ SSV.Gen.C15.writeToLoop = Shape.writeToLoop ∧
    SSV.Gen.C15.readWrapper = Shape.readWrapper ∧ SSV.Gen.C15.writeWrapper = Shape.writeWrapper ∧
    SSV.Gen.C15.writeToWrapper = Shape.writeToWrapper :=
  ⟨rfl, rfl, rfl, rfl, rfl, rfl, rfl, rfl, rfl, rfl, rfl, rfl, rfl, rfl, rfl, rfl⟩

/-- `Store` precedes `close` in both close functions; Set*Deadline test-then-set; error mappers; onceError. -/
theorem close_and_deadline_shapes :
    SSV.Gen.C15.closeReadSteps = Shape.closeReadSteps ∧ SSV.Gen.C15.closeWriteSteps = Shape.closeWriteSteps ∧
    SSV.Gen.C15.closeWithErrorSteps = Shape.closeWithErrorSteps ∧ SSV.Gen.C15.closeReadBody = Shape.closeReadBody ∧
    SSV.Gen.C15.closeWriteBody = Shape.closeWriteBody ∧ SSV.Gen.C15.closeBody = Shape.closeBody ∧
    SSV.Gen.C15.setReadDeadlineSteps = Shape.setReadDeadlineSteps ∧
    SSV.Gen.C15.setWriteDeadlineSteps = Shape.setWriteDeadlineSteps ∧
    SSV.Gen.C15.setDeadlineSteps = Shape.setDeadlineSteps ∧
    SSV.Gen.C15.writeCloseErrorBody = Shape.writeCloseErrorBody ∧
    SSV.Gen.C15.writeToReadCloseErrorBody = Shape.writeToReadCloseErrorBody ∧
    SSV.Gen.C15.onceStoreBody = Shape.onceStoreBody ∧ SSV.Gen.C15.onceLoadBody = Shape.onceLoadBody ∧
    SSV.Gen.C15.isClosedChanBody = Shape.isClosedChanBody ∧ SSV.Gen.C15.deadlineWaitBody = Shape.deadlineWaitBody ∧
    SSV.Gen.C15.deadlineSetBody = Shape.deadlineSetBody ∧ SSV.Gen.C15.makeDeadlineBody = Shape.makeDeadlineBody :=
  ⟨rfl, rfl, rfl, rfl, rfl, rfl, rfl, rfl, rfl, rfl, rfl, rfl, rfl, rfl, rfl, rfl, rfl⟩

/-- Only `done` and `cancel` channels are ever closed, every channel is unbuffered, and NewPipe wires two
directions that share nothing. -/
theorem wiring_shapes :
    SSV.Gen.C15.closeCalls = Shape.closeCalls ∧ SSV.Gen.C15.makeChans = Shape.makeChans ∧
    SSV.Gen.C15.pipeLeft = Shape.pipeLeft ∧ SSV.Gen.C15.pipeRight = Shape.pipeRight ∧
    SSV.Gen.C15.onceFuncs = Shape.onceFuncs :=
  ⟨rfl, rfl, rfl, rfl, rfl⟩

/-! ### safety -/

/-- No reachable state has panicked: `onceError.Load` never dereferences nil (the `Store` always precedes the
`close(done)` that lets a `Load` happen), `b[nw:]` is in range, a `cancel` channel is never closed twice.
(Data and count-back channels are never closed at all: there is no such step; see `wiring_shapes`.) -/
theorem no_panic {s : State} (r : Reachable s) : s.panicked = false :=
  (inv_reachable r).noPanic

/-- …because whenever `done` is closed the once-error is set. -/
theorem done_implies_error_stored {s : State} (r : Reachable s) (h : s.done = true) : ∃ e, s.err = some e :=
  err_of_done (inv_reachable r) h

/-- FIDELITY + ATOMIC WRITES: the bytes returned by the reads (and WriteTo chunks) at one end, in completion
order, are exactly the concatenation, in lock order, of the consumed prefixes `buf.take n` of the writes at
the other end — each write's bytes form one contiguous block; nothing is lost, duplicated or reordered. -/
theorem fidelity {s : State} (r : Reachable s) :
    s.rret = (s.wlog.map (fun w => w.1.take w.2)).flatten :=
  (inv_reachable r).fid

/-- WRITE COUNT: a write that returns `n` after taking the lock has log entry `(buf, n)` with `n ≤ len buf`,
i.e. (by `fidelity`) exactly `buf.take n` was consumed by readers; a write refused by the pre-checks returns 0. -/
theorem write_count {s : State} (r : Reachable s) (i n : Nat) (e : RErr) (ci : Option Nat)
    (h : s.thr i = .wRet n e ci) :
    match ci with
    | some c => ∃ buf, s.wlog[c]? = some (buf, n) ∧ n ≤ buf.length
    | none => n = 0 := by
  have := (inv_reachable r).wOk i
  rw [h] at this
  cases ci with
  | some c => exact this.1
  | none => exact this

/-- …and while a write is still in its loop its local `b`, `n` agree with the log: `b = buf.drop n`. -/
theorem write_in_progress {s : State} (r : Reachable s) (i : Nat) (b : Bytes) (n ci g : Nat)
    (h : s.thr i = .wSel b n ci g) :
    ci + 1 = s.wlog.length ∧ ∃ buf, s.wlog[ci]? = some (buf, n) ∧ b = buf.drop n ∧ n ≤ buf.length := by
  have := (inv_reachable r).wOk i
  rw [h] at this; exact this

/-- ATOMIC WRITES (mutual exclusion): at most one thread is between `Lock` and `Unlock`. -/
theorem atomic_writes {s : State} (r : Reachable s) (i j : Nat)
    (hi : (s.thr i).holds = true) (hj : (s.thr j).holds = true) : i = j := by
  have a := (inv_reachable r).muHold i hi
  have b := (inv_reachable r).muHold j hj
  rw [a] at b; exact Option.some.inj b

/-- The committed hand-shake pairs one reader with one writer, and the chunk the reader holds is the prefix
of the slice the writer offered. -/
theorem handshake_paired {s : State} (r : Reachable s) (i : Nat) (k : RKind) (acc nr : Nat) (fail : Bool)
    (chunk : Bytes) (h : s.thr i = .rAck k acc nr fail chunk) :
    ∃ j b n ci, s.thr j = .wAwait b n ci ∧ chunk = b.take nr ∧ nr ≤ b.length ∧
      ∀ i', (s.thr i').isAck = true → i' = i := by
  have inv := inv_reachable r
  obtain ⟨j, hj⟩ := inv.ackHs i (by simp [h, PC.isAck])
  obtain ⟨_, _, _, _, b, n, ci, h1, h2, h3⟩ := inv.hsOk i j hj
  rw [h] at h1; simp only [PC.rAck.injEq] at h1
  obtain ⟨_, _, e1, _, e2⟩ := h1
  subst e1
  refine ⟨j, b, n, ci, h2, e2, h3, ?_⟩
  intro i' hi'
  obtain ⟨j', hj'⟩ := inv.ackHs i' hi'
  rw [hj] at hj'; simp only [Option.some.injEq, Prod.mk.injEq] at hj'
  exact hj'.1.symm

end SSV.C15

#print axioms SSV.C15.select_shapes
#print axioms SSV.C15.call_shapes
#print axioms SSV.C15.close_and_deadline_shapes
#print axioms SSV.C15.wiring_shapes
#print axioms SSV.C15.no_panic
#print axioms SSV.C15.done_implies_error_stored
#print axioms SSV.C15.fidelity
#print axioms SSV.C15.write_count
#print axioms SSV.C15.write_in_progress
#print axioms SSV.C15.atomic_writes
#print axioms SSV.C15.handshake_paired
