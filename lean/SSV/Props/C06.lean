import SSV.Proofs.Parsers
import SSV.Proofs.ParsersMore
import SSV.Proofs.ParsersRouter
import SSV.Proofs.ParsersSocks2
import SSV.Proofs.ParsersSocks3
import SSV.Proofs.ParsersHttp
import SSV.Proofs.Repack
import SSV.Proofs.StreamHS
import SSV.Proofs.DnsHttp
/-
C06 — No bytes from the network can crash the process.

Property theorems about the parser / handshake / routing models of `SSV.Model.Parsers`
(helper lemmas: `SSV/Proofs/Parsers*.lean`). Two kinds of obligations:

* `no_panic_<f>` — for ALL byte strings (and all router configurations, resolver answers, cipher
  behaviours) the model of entry point `f` does not reach a Go run-time panic; the only thing that
  protects the slice/index operations are the code's own guards, with the constants regenerated from
  the source (`SSV.Gen.C06.*_lenGuard<i>`).
* `shape_<F>` — Gen side conditions (finite, `rfl`): the panic-relevant fingerprint of Go function
  `F` (guards, index/slice expressions, array conversions, BigEndian calls, panics, contract-panicking
  method calls, in source order) extracted from the source NOW equals the one the model was written
  against. A changed offset / dropped guard re-opens the obligation.

This is a theorem about the model + differential fuzzing of model against code (corr_c06): the
"all byte strings" claim rests on these theorems and the tie is as good as the generator.
-/
namespace SSV.C06
open SSV SSV.Go SSV.Outcome SSV.Parsers SSV.Parsers.Proofs

/-! ### socks5 address parsers -/

theorem no_panic_addrPortFromSlice (b : Bytes) : addrPortFromSlice b ≠ .panic := np_addrPortFromSlice b
theorem no_panic_connAddrFromSlice (b : Bytes) : connAddrFromSlice b ≠ .panic := np_connAddrFromSlice b
theorem no_panic_domainCacheConnAddrFromSlice (b : Bytes) : connAddrFromSliceDC b ≠ .panic := np_connAddrFromSliceDC b

/-- what the parsers return on success is inside the input, and is never the zero `conn.Addr`
(on which `Domain()`, `IP()`, `Host()`, `ResolveIP()` panic) -/
theorem connAddrFromSlice_ok_bounds (b : Bytes) (a : Addr) (n : Nat) (h : connAddrFromSlice b = .ok (a, n)) :
    n ≤ b.length ∧ a.isValid = true := connAddrFromSlice_ok h
theorem addrPortFromSlice_ok_bounds (b : Bytes) (a : Addr) (n : Nat) (h : addrPortFromSlice b = .ok (a, n)) :
    n ≤ b.length ∧ a.isIP = true := addrPortFromSlice_ok h

example : connAddrFromSlice [3, 1, 0x61, 1, 0xbb] = .ok (.dom [0x61] 443, 5) := by decide
example : connAddrFromSlice [3, 0, 0, 80] = .err .domainLen := by decide
example : addrPortFromSlice [1, 1, 2, 3, 4, 0, 0] = .ok (.ip4 [1, 2, 3, 4] 0, 7) := by decide

/-! ### readers (`AppendFromReader`, `ConnAddrFromReader` = Shadowsocks-none server handshake) -/

theorem no_panic_appendFromReader (stream : Bytes) : appendFromReader stream ≠ .panic := np_appendFromReader stream
theorem no_panic_connAddrFromReader (stream : Bytes) : connAddrFromReader stream ≠ .panic := np_connAddrFromReader stream

example : connAddrFromReader [3, 0, 0, 80, 9] = .err .domainLen := by decide

/-! ### ss2022 header parsers -/

/-- callers pass exactly the 11 decrypted bytes (`DecryptTo` of 11+16) -/
theorem no_panic_parseTCPRequestFixedLengthHeader (now : Int) (b : Bytes)
    (h : b.length = Gen.C06.TCPRequestFixedLengthHeaderLength) : parseTCPRequestFixedLengthHeader now b ≠ .panic :=
  np_parseTCPRequestFixedLengthHeader now b h
example : ([0,0,0,0,0,0,0,0,0,0,0] : Bytes).length = Gen.C06.TCPRequestFixedLengthHeaderLength := by decide

theorem no_panic_parseTCPRequestVariableLengthHeader (b : Bytes) : parseTCPRequestVariableLengthHeader b ≠ .panic :=
  np_parseTCPRequestVariableLengthHeader b

/-- callers pass exactly `1 + 8 + saltLen + 2` decrypted bytes -/
theorem no_panic_parseTCPResponseHeader (now : Int) (salt b : Bytes) (h : b.length = 1 + 8 + salt.length + 2) :
    parseTCPResponseHeader now salt b ≠ .panic := np_parseTCPResponseHeader now salt b h
example : ([1,0,0,0,0,0,0,0,0,7,0,1] : Bytes).length = 1 + 8 + ([7] : Bytes).length + 2 := by decide

theorem no_panic_parseUDPClientMessageHeader (now : Int) (b : Bytes) : parseUDPClientMessageHeader now b ≠ .panic :=
  np_parseUDPClientMessageHeader now b
theorem no_panic_parseUDPServerMessageHeader (now : Int) (csid : Nat) (b : Bytes) :
    parseUDPServerMessageHeader now csid b ≠ .panic := np_parseUDPServerMessageHeader now csid b

/-! ### ss2022 UDP: `SessionInfo` / `NewUnpacker` / `UnpackInPlace` length checks (ciphers abstract) -/

theorem no_panic_udpSessionInfo (C : Ciphers) (hC : C.LenPreserving) (b : Bytes) : udpSessionInfo C b ≠ .panic :=
  np_udpSessionInfo C hC b
example : (⟨id, fun _ _ => none⟩ : Ciphers).LenPreserving := fun _ => rfl

theorem no_panic_udpNewUnpacker (idLen : Nat) (found : Bool) (b : Bytes)
    (hid : idLen = 0 ∨ idLen = Gen.C06.IdentityHeaderLength) : udpNewUnpacker idLen found b ≠ .panic :=
  np_udpNewUnpacker idLen found b hid

/-- hypothesis `ps + pl ≤ len b`: the relay passes the receive window of its packet buffer (C05 owns the headroom arithmetic) -/
theorem no_panic_udpServerUnpack (C : Ciphers) (now : Int) (hdr : Nat) (replayed : Bool) (b : Bytes) (ps pl : Nat)
    (hb : ps + pl ≤ b.length) (hh : Gen.C06.UDPSeparateHeaderLength ≤ hdr) : udpServerUnpack C now hdr replayed b ps pl ≠ .panic :=
  np_udpServerUnpack C now hdr replayed b ps pl hb hh
/-- FULL STATEMENT: the client unpacker for every datagram, every state of its two server-session slots (both start as
{id 0, no AEAD}), every separate-header session / packet id (0, equal to a slot, equal to the client session id, 2^64-1 …).
Depends on the regenerated fact `clientUnpackerGuardsNilAEAD` (every switch case that takes a slot's AEAD also requires it to
be non-nil); without it a header with server session id 0 selects a nil `cipher.AEAD` and `Open` panics before any
authentication (witness `udp_client_unpack_nil_aead_panics`). -/
theorem no_panic_udpClientUnpack (C : Ciphers) (hC : C.LenPreserving) (now : Int) (csid : Nat) (sess : CliSess) (tooSoon replayed : Bool)
    (b : Bytes) (ps pl : Nat) (hb : ps + pl ≤ b.length) :
    udpClientUnpack Gen.C06.clientUnpackerGuardsNilAEAD C now csid sess tooSoon replayed b ps pl ≠ .panic := by
  have hg : Gen.C06.clientUnpackerGuardsNilAEAD = true := by decide
  rw [hg]
  exact np_udpClientUnpack C hC now csid sess tooSoon replayed b ps pl hb
/-- witness: fresh session, 32 zero bytes (separate header = session id 0, packet id 0; junk body), unguarded switch -/
theorem udp_client_unpack_nil_aead_panics :
    udpClientUnpack false ⟨id, fun _ _ => none⟩ 0 7 ⟨0, false, 0, false⟩ false false (List.replicate 32 0) 0 32 = .panic := by decide
example : udpClientUnpack true ⟨id, fun _ _ => none⟩ 0 7 ⟨0, false, 0, false⟩ false false (List.replicate 32 0) 0 32 = .err .aead := by decide
example : (3 : Nat) + 40 ≤ (List.replicate 50 (0 : UInt8)).length := by decide

/-- the session relay's receive path for one datagram: `SessionInfo` → `NewUnpacker` → `UnpackInPlace` -/
theorem no_panic_udpServerReceive (C : Ciphers) (hC : C.LenPreserving) (now : Int) (idLen : Nat) (found replayed : Bool)
    (b : Bytes) (ps pl : Nat) (hb : ps + pl ≤ b.length) (hid : idLen = 0 ∨ idLen = Gen.C06.IdentityHeaderLength) :
    udpServerReceive C now idLen found replayed b ps pl ≠ .panic :=
  np_udpServerReceive C hC now idLen found replayed b ps pl hb hid

/-! ### the SOCKS5 server handshake on its scratch buffer, and the reply it constructs -/

/-- FOR EVERY client byte stream, authentication mode, user table, enabled command set and local
address kind: method selection, username/password sub-negotiation, request parsing on the
`3+MaxAddrLen` scratch buffer, the UDP ASSOCIATE / command-not-supported replies, and the later
`Proceed` / `Abort(code)` reply do not panic. -/
theorem no_panic_socks5_server (auth : Bool) (check : Bytes → Bytes → Bool) (tcp udp tcpLocal : Bool) (bound : Bytes)
    (finish : Option UInt8) (stream : Bytes) : s5Server auth check tcp udp tcpLocal bound finish stream ≠ .panic :=
  np_s5Server auth check tcp udp tcpLocal bound finish stream

/-- the SOCKS5 CLIENT (stream client, UDP-ASSOCIATE client): method selection reply, authentication status,
request reply with its bound address — for every byte stream a (hostile) server returns. `enc` is the
encoded target address the client writes into the scratch buffer first (at most `MaxAddrLen` bytes, which
`conn.AddrFromDomainPort`'s 255-byte limit guarantees). -/
theorem no_panic_socks5_client (auth : Bool) (authMsg : Bytes) (cmd : UInt8) (enc : Bytes)
    (henc : enc.length ≤ Gen.C06.MaxAddrLen) (stream : Bytes) : s5Client auth authMsg cmd enc stream ≠ .panic :=
  np_s5Client auth authMsg cmd enc henc stream
example : ([1, 0, 0, 0, 0, 0, 0] : Bytes).length ≤ Gen.C06.MaxAddrLen := by decide

/-! ### direct / none / SOCKS5 packet unpackers -/

theorem no_panic_noneServerUnpack (b : Bytes) (ps pl : Nat) (hb : ps + pl ≤ b.length) : noneServerUnpack b ps pl ≠ .panic :=
  np_noneServerUnpack b ps pl hb
theorem no_panic_noneClientUnpack (fs : Bool) (b : Bytes) (ps pl : Nat) (hb : ps + pl ≤ b.length) :
    noneClientUnpack fs b ps pl ≠ .panic := np_noneClientUnpack fs b ps pl hb
theorem no_panic_socks5ServerUnpack (b : Bytes) (ps pl : Nat) (hb : ps + pl ≤ b.length) : socks5ServerUnpack b ps pl ≠ .panic :=
  np_socks5ServerUnpack b ps pl hb
theorem no_panic_socks5ClientUnpack (fs : Bool) (b : Bytes) (ps pl : Nat) (hb : ps + pl ≤ b.length) :
    socks5ClientUnpack fs b ps pl ≠ .panic := np_socks5ClientUnpack fs b ps pl hb

/-! ### ss2022 stream chunks after the handshake; the HTTP proxy's own string logic -/

/-- `ShadowStreamConn.read`: for every stream, every AEAD behaviour and every advertised chunk length, given a
buffer of capacity `streamReadMinBufferSize` (all call sites: `Read`, `WriteTo`, `writeToShadowStreamConn`) -/
theorem no_panic_streamRead (cap : Nat) (hcap : Gen.C06.streamReadMinBufferSize ≤ cap) (sticky : Option Err)
    (openChunk : Bytes → Option Bytes) (stream : Bytes) : streamRead cap sticky openChunk stream ≠ .panic :=
  np_streamRead cap hcap sticky openChunk stream

/-- the call site with the tightest buffer: `writeBuf[2+tagSize : 2+tagSize]` of a `streamWriteBufferSize` buffer -/
theorem streamRead_callsite_cap : Gen.C06.streamReadMinBufferSize ≤ Gen.C06.streamWriteBufferSize - (2 + Gen.C06.tagSize) := by decide
/-- the largest chunk fits: `streamMaxPayloadSize + tagSize ≤ streamReadMinBufferSize`, and a u16 length cannot exceed it -/
theorem streamRead_u16_fits : 65535 ≤ Gen.C06.streamMaxPayloadSize ∧ Gen.C06.streamMaxPayloadSize + Gen.C06.tagSize ≤ Gen.C06.streamReadMinBufferSize := by decide

/-- `hostHeaderToAddr` for every Host value (`netip.ParseAddr`, `conn.ParseAddr` are total parameters) -/
theorem no_panic_hostHeaderToAddr (parseIP : Bytes → Option (Bool × Bytes)) (parseAddr : Bytes → Option Addr) (host : Bytes) :
    hostHeaderToAddr parseIP parseAddr host ≠ .panic := np_hostHeaderToAddr parseIP parseAddr host
example : hostHeaderToAddr (fun _ => none) (fun _ => none) [91, 58, 93] = .ok (.dom [58] 80) := by decide

/-- the `Proxy-Authorization: Basic ` prefix test for every header value -/
theorem no_panic_basicAuthToken (creds : Bytes) : basicAuthToken creds ≠ .panic := np_basicAuthToken creds

/-! ### everything computed afterwards: RELAYING — the re-pack step of the UDP relays, the ss2022 TCP client's padding split

Peer-controlled lengths and ports (payload length, target / source address kind and port → padding policy)
flow into `PackInPlace` of the outgoing side. `draw` is the value `mrand.IntN` returns (any), `shouldPad`
the padding policy's verdict (any), `bufLen`/`ps`/`pl` the relay buffer and the unpacked payload window. -/

/-- uplink into an ss2022 client: FULL STATEMENT for every payload size (exact fit included), address, MTU-derived
limit, policy verdict and draw; the code's own `maxPaddingLen < 0` check also covers a too-small front headroom.
Depends on the regenerated fact `clientPackerGuardsIntN` (is `mrand.IntN(maxPaddingLen)` under `maxPaddingLen > 0`?). -/
theorem no_panic_relay_repack_ss2022_client (maxPacketSize : Int) (nonAEAD : Nat) (hn : Gen.C06.UDPSeparateHeaderLength ≤ nonAEAD)
    (target : Addr) (ht : target.nameFits = true) (shouldPad : Bool) (draw bufLen ps pl : Nat) (hb : ps + pl ≤ bufLen) :
    ss2022ClientPack Gen.C06.clientPackerGuardsIntN maxPacketSize nonAEAD target shouldPad draw bufLen ps pl ≠ .panic := by
  have hg : Gen.C06.clientPackerGuardsIntN = true := by decide
  rw [hg]
  exact np_ss2022ClientPack maxPacketSize nonAEAD hn target ht shouldPad draw bufLen ps pl hb

/-- downlink out of an ss2022 server (depends on `serverPackerGuardsIntN`) -/
theorem no_panic_relay_repack_ss2022_server (maxPacketLen : Int) (src4 shouldPad : Bool) (draw bufLen ps pl : Nat)
    (hb : ps + pl ≤ bufLen) :
    ss2022ServerPack Gen.C06.serverPackerGuardsIntN maxPacketLen src4 shouldPad draw bufLen ps pl ≠ .panic := by
  have hg : Gen.C06.serverPackerGuardsIntN = true := by decide
  rw [hg]
  exact np_ss2022ServerPack maxPacketLen src4 shouldPad draw bufLen ps pl hb

/-- witness of the fault class (independent of the source): without the `> 0` conjunct an exact-fit DNS datagram panics
(MTU 1500 to an IPv6 server, no identity header, target `[::]:53`, payload 1390 = 1452-16-11-19-16) -/
theorem relay_repack_unguarded_exact_fit_panics :
    ss2022ClientPack false 1452 16 (.ip6 [0,0,0,0,0,0,0,0,0,0,0,0,0,0,0,0] 53) true 0 3000 1186 1390 = .panic := by decide
/-- one byte less is padded, the same size with the guard is sent unpadded, one byte more is refused -/
example : ss2022ClientPack true 1452 16 (.ip6 [0,0,0,0,0,0,0,0,0,0,0,0,0,0,0,0] 53) true 0 3000 1186 1390 = .ok (1140, 1452) := by decide
example : ss2022ClientPack true 1452 16 (.ip6 [0,0,0,0,0,0,0,0,0,0,0,0,0,0,0,0] 53) true 0 3000 1186 1391 = .err .tooBig := by decide

/-- none / SOCKS5 client packers (uplink) and server packers (downlink): under the relay's front headroom
(`MaxAddrLen (+3)` resp. `IPv6AddrLen (+3)` bytes before the payload — the pair-wise headroom arithmetic is C05's) -/
theorem no_panic_relay_repack_none_client (target : Addr) (ht : target.nameFits = true) (maxPacketSize : Int) (bufLen ps pl : Nat)
    (hh : Gen.C06.MaxAddrLen + 0 ≤ ps) (hb : ps + pl ≤ bufLen) : prefixClientPack 0 target maxPacketSize bufLen ps pl ≠ .panic :=
  np_prefixClientPack 0 target ht maxPacketSize bufLen ps pl hh hb
theorem no_panic_relay_repack_socks5_client (target : Addr) (ht : target.nameFits = true) (maxPacketSize : Int) (bufLen ps pl : Nat)
    (hh : Gen.C06.MaxAddrLen + 3 ≤ ps) (hb : ps + pl ≤ bufLen) : prefixClientPack 3 target maxPacketSize bufLen ps pl ≠ .panic :=
  np_prefixClientPack 3 target ht maxPacketSize bufLen ps pl hh hb
theorem no_panic_relay_repack_none_server (src4 : Bool) (maxPacketLen : Int) (bufLen ps pl : Nat)
    (hh : Gen.C06.IPv6AddrLen + 0 ≤ ps) (hb : ps + pl ≤ bufLen) : prefixServerPack 0 src4 maxPacketLen bufLen ps pl ≠ .panic :=
  np_prefixServerPack 0 src4 maxPacketLen bufLen ps pl hh hb
theorem no_panic_relay_repack_socks5_server (src4 : Bool) (maxPacketLen : Int) (bufLen ps pl : Nat)
    (hh : Gen.C06.IPv6AddrLen + 3 ≤ ps) (hb : ps + pl ≤ bufLen) : prefixServerPack 3 src4 maxPacketLen bufLen ps pl ≠ .panic :=
  np_prefixServerPack 3 src4 maxPacketLen bufLen ps pl hh hb
example : Gen.C06.MaxAddrLen + 3 ≤ 262 ∧ 262 + 1472 ≤ 1734 := by decide

/-- direct client packer: needs only a parsed (non-zero) target -/
theorem no_panic_relay_repack_direct_client (mtu : Int) (target : Addr) (hv : target.isValid = true) (resolve : Bytes → Option Bool)
    (ps pl : Nat) : directClientPack mtu target resolve ps pl ≠ .panic := np_directClientPack mtu target hv resolve ps pl

/-- what the parsers hand to the packers satisfies the packers' address precondition (name ≤ 255 bytes) -/
theorem parsed_address_fits_packers (b : Bytes) (a : Addr) (n : Nat) (h : connAddrFromSlice b = .ok (a, n)) : a.nameFits = true :=
  connAddrFromSlice_nameFits h
theorem parsed_address_fits_packers_dc (b : Bytes) (a : Addr) (n : Nat) (h : connAddrFromSliceDC b = .ok (a, n)) : a.nameFits = true :=
  connAddrFromSliceDC_nameFits h

/-- TCP relay into an ss2022 client: `DialStream`'s padding / payload split for EVERY initial-payload length
(0, 1 … 899 → `IntN(900-len+1)`, ≥ 900, more than fits) and target; both `intToUint16` conversions stay in range -/
theorem no_panic_relay_dialstream_split (target : Addr) (ht : target.nameFits = true) (payloadLen draw : Nat) :
    dialStreamSplit target payloadLen draw ≠ .panic := np_dialStreamSplit target ht payloadLen draw

/-! ### gap round: ss2022 `HandleStream` pre-authentication buffer arithmetic, the client's first read, dns `parseMsg`, HTTP `Location` -/

/-- `StreamServer.HandleStream` for EVERY configuration (any salt length, 0/1 identity header, any request-stream prefix length,
allowSegmentedFixedLengthHeader or not, fallback or not) and everything a peer controls: how many bytes arrive and in which
fragments (`chunk0`, `total`), their content (through the salt-pool / prefix / user-table / AEAD verdicts, all arbitrary) and the
rest of the stream. Hypotheses: the identity header length is 0 or `IdentityHeaderLength`; AEAD `Open` of the 27-byte sealed
fixed header yields 11 bytes when it succeeds. The fallback's `readBuf[:n]` is in range because a read never returns more than
the buffer holds (`firstRead_le`). -/
theorem no_panic_handleStream (cfg : HSCfg) (hid : cfg.idLen = 0 ∨ cfg.idLen = Gen.C06.IdentityHeaderLength) (now : Int)
    (chunk0 total : Nat) (replayed prefixOk userFound saltAdded : Bool) (openFixed : Option Bytes)
    (hopen : ∀ pt, openFixed = some pt → pt.length = Gen.C06.TCPRequestFixedLengthHeaderLength)
    (openVar : Bytes → Option Bytes) (rest : Bytes) :
    handleStream cfg now chunk0 total replayed prefixOk userFound saltAdded openFixed openVar rest ≠ .panic :=
  np_handleStream cfg hid now chunk0 total replayed prefixOk userFound saltAdded openFixed hopen openVar rest
example : ∀ pt : Bytes, (some (List.replicate 11 (0 : UInt8)) : Option Bytes) = some pt → pt.length = Gen.C06.TCPRequestFixedLengthHeaderLength := by
  intro pt h; cases h; rfl

/-- the ss2022 client's first `Read` (`initRead` buffer choice and slicing, response header, `requestSalt[:requestSaltLen]`, first
payload chunk into the caller's buffer or the 65551-byte read buffer) for every caller buffer size, prefix length, key size ≤ 32
and server byte stream. Hypothesis: AEAD `Open` of the sealed response header yields `1+8+saltLen+2` bytes when it succeeds. -/
theorem no_panic_clientFirstRead (urspLen saltLen : Nat) (hs : saltLen ≤ 32) (segmented : Bool) (now : Int) (reqSalt : Bytes)
    (hrs : reqSalt.length ≤ 32) (bLen chunk0 total : Nat) (prefixOk : Bool) (openHdr : Option Bytes)
    (hopen : ∀ pt, openHdr = some pt → pt.length = 1 + 8 + saltLen + 2) (openChunk : Bytes → Option Bytes) (rest : Bytes) :
    clientFirstRead urspLen saltLen segmented now reqSalt bLen chunk0 total prefixOk openHdr openChunk rest ≠ .panic :=
  np_clientFirstRead urspLen saltLen hs segmented now reqSalt hrs bLen chunk0 total prefixOk openHdr hopen openChunk rest
example : (16 : Nat) ≤ 32 ∧ (List.replicate 16 (0 : UInt8)).length ≤ 32 := by decide

/-- `dns.resultBuilder.parseMsg`'s own logic over ANY trace of `dnsmessage.Parser` results (every call may fail at any point):
it performs no index or slice operation of its own besides `r.a[:0]` / `r.aaaa[:0]` (fingerprint `shape_dnsParseMsg`) -/
theorem no_panic_dnsParseMsg (now failTTL : Int) (isUDP : Bool) (r : ResultBuilder) (t : DnsTrace) :
    dnsParseMsg now failTTL isUDP r t ≠ .panic := np_dnsParseMsg now failTTL isUDP r t

/-- the HTTP forwarder's only index expression on peer data: `location[0]` of a 301/302/307 response, for every header multiset -/
theorem no_panic_locationForcesClose (location : List Bytes) (urlHost : Bytes → Option Bytes) (reqHost : Bytes) :
    locationForcesClose location urlHost reqHost ≠ .panic := np_locationForcesClose location urlHost reqHost

/-! ### what a peer returns to a CLIENT of this program: the SOCKS5 UDP ASSOCIATE reply and the `conn.Addr` accessors -/

/-- `Socks5UDPClient.NewSession` / `Socks5AuthUDPClient.NewSession` for EVERY byte stream the upstream server returns
(every ATYP of BND.ADDR incl. a domain name, unspecified address, port 0, every reply code, truncated) and every resolver answer -/
theorem no_panic_socks5_udp_associate_session (auth : Bool) (authMsg : Bytes) (resolve : Bytes → Option (Bool × Bytes)) (stream : Bytes) :
    s5UDPNewSession auth authMsg resolve stream ≠ .panic := np_s5UDPNewSession auth authMsg resolve stream

/-- the accessors' contract: under the guard the code uses they do not panic … -/
theorem accessor_ip_under_guard (a : Addr) (h : a.isIP = true) : (a.ip : R (Bool × Bytes)) ≠ .panic := by
  cases a <;> simp [Addr.isIP, Addr.ip] at h ⊢
theorem accessor_domain_under_guard (a : Addr) (hv : a.isValid = true) (h : a.isIP = false) : (a.domain : R Bytes) ≠ .panic := by
  cases a <;> simp [Addr.isIP, Addr.isValid, Addr.domain] at h hv ⊢
theorem accessor_resolve_valid (resolve : Bytes → Option (Bool × Bytes)) (a : Addr) (hv : a.isValid = true) :
    a.resolveIPPort resolve ≠ .panic := np_resolveIPPort resolve a hv
/-- … and without it they do: `IP()` on the domain BND.ADDR of a well-formed success reply (the class of seeded change C06-3) -/
theorem accessor_ip_on_domain_panics :
    (connAddrFromSlice [3, 1, 0x78, 0, 53] >>= fun (an : Addr × Nat) => (an.1.ip : R (Bool × Bytes))) = .panic := by decide

/-- Gen side condition: every call of `conn.Addr.IP/IPPort/Domain` in direct, socks5, service, router, dns, netio, probe, ss2022,
ssnone, httpproxy, clientgroups is dominated by the `IsIP()` / `!IsIP()` / `IsDomain()` check its contract needs, EXCEPT the
audited sites below: `updateDomainIPCache` (called only from the `!IsIP()` branch of `DirectPacketClientPacker.PackInPlace` with a
parsed, hence valid, address) and the direct server's configured `targetAddr` (load-time check, finding F4). A new unguarded
accessor call re-opens this obligation. -/
theorem unguarded_accessor_sites_are_the_audited_ones : Gen.C06.unguardedAccessorSites =
    ["direct.(*DirectPacketClientPacker).updateDomainIPCache: targetAddr.Domain() guard=none", "direct.(*DirectPacketClientPacker).updateDomainIPCache: targetAddr.Domain() guard=none", "direct.(*DirectPacketServerPackUnpacker).PackInPlace: p.targetAddr.IPPort() guard=none"] := rfl
theorem accessor_sites_fingerprint : Gen.C06.accessorSites =
    ["direct.(*DirectPacketClientPacker).updateDomainIPCache: targetAddr.Domain() guard=none", "direct.(*DirectPacketClientPacker).updateDomainIPCache: targetAddr.Domain() guard=none", "direct.(*DirectPacketClientPacker).PackInPlace: targetAddr.IPPort() guard=IsIP", "direct.(*DirectPacketServerPackUnpacker).PackInPlace: p.targetAddr.IPPort() guard=none", "socks5.AppendAddrFromConnAddr: addr.IPPort() guard=IsIP", "socks5.AppendAddrFromConnAddr: addr.Domain() guard=notIsIP", "socks5.WriteAddrFromConnAddr: addr.IPPort() guard=IsIP", "socks5.WriteAddrFromConnAddr: addr.Domain() guard=notIsIP", "socks5.LengthOfAddrFromConnAddr: addr.IPPort() guard=IsIP", "socks5.LengthOfAddrFromConnAddr: addr.Domain() guard=notIsIP", "router.(DestDomainCriterion).Meet: requestInfo.TargetAddr.Domain() guard=notIsIP", "router.(*DestIPCriterion).Meet: requestInfo.TargetAddr.IP() guard=IsIP", "router.(DestResolvedIPCriterion).Meet: requestInfo.TargetAddr.IP() guard=IsIP", "router.(DestResolvedIPCriterion).Meet: requestInfo.TargetAddr.Domain() guard=notIsIP", "router.(DestGeoIPCountryCriterion).Meet: requestInfo.TargetAddr.IP() guard=IsIP", "router.(DestResolvedGeoIPCountryCriterion).Meet: requestInfo.TargetAddr.IP() guard=IsIP", "router.(DestResolvedGeoIPCountryCriterion).Meet: requestInfo.TargetAddr.Domain() guard=notIsIP", "netio.(*UDPClientSession).AppendPack: destAddr.IPPort() guard=IsIP", "netio.(*UDPClientSession).AppendPack: destAddr.Domain() guard=notIsIP", "probe.(UDPProbe).Probe: p.addr.IPPort() guard=IsIP"] := rfl

/-! ### everything computed afterwards: routing on the wire-derived address (finding F3) -/

/-- FULL STATEMENT: for every router configuration (every criterion kind, every port representation,
inverted or not, any resolver answers) and every request whose target came out of a parser
(hence is not the zero address), `Router.match` does not panic. It depends on the two regenerated
facts `sourcePortSetMeetGuardsZero` / `destPortSetMeetGuardsZero`: on a tree where the
`*PortSetCriterion.Meet` methods hand port 0 to `PortSet.Contains` this theorem does not check
(that is finding F3; its witness is `router_match_unguarded_panics` below). -/
theorem no_panic_router_match (q : Req) (hv : q.target.isValid = true) (routes : List (List Crit)) :
    routerMatch curGuards q routes ≠ .panic :=
  np_routerMatch curGuards (by decide) (by decide) q hv routes

example : (⟨true, 0, .ip4 [1, 2, 3, 4] 0⟩ : Req).target.isValid = true := rfl

/-- end to end: wire bytes → parsed address → `Router.match`, for all bytes and all configurations -/
theorem no_panic_wire_to_route (b : Bytes) (tcp : Bool) (srcPort : Nat) (routes : List (List Crit)) :
    (connAddrFromSlice b >>= fun (an : Addr × Nat) => routerMatch curGuards ⟨tcp, srcPort, an.1⟩ routes) ≠ .panic :=
  noPanic_bind (np_connAddrFromSlice b) (fun an h =>
    np_routerMatch curGuards (by decide) (by decide) _ (connAddrFromSlice_ok (a := an.1) (n := an.2) h).2 routes)

/-- F3 witness (independent of what the source says now): without the guard, a request to port 0
through a route with a bit-set port criterion panics — `1.2.3.4:0` as it comes off the wire. -/
theorem router_match_unguarded_panics :
    (connAddrFromSlice [1, 1, 2, 3, 4, 0, 0] >>= fun (an : Addr × Nat) =>
      routerMatch ⟨false, false⟩ ⟨true, 40000, an.1⟩ [[.dstPortSet (fun p => p == 53)]]) = .panic := by decide

/-! ### reply construction of the `direct` UDP server (finding F4) -/

/-- FULL STATEMENT: every `direct` server configuration that the service accepts at load packs
replies without panicking. Depends on the regenerated fact `directRejectsTargetOnlyDomain`
(does `ServerConfig.UDPRelay`/`Initialize` refuse `tunnelUDPTargetOnly` with a non-IP
`tunnelRemoteAddress`?); on a tree that accepts the combination this theorem does not check (F4). -/
theorem no_panic_direct_server_pack (target : Addr) (targetOnly srcIsTarget : Bool) (n m : Nat)
    (hacc : directConfigAccepted Gen.C06.directRejectsTargetOnlyDomain target targetOnly = true) :
    directServerPack target targetOnly srcIsTarget n m ≠ .panic :=
  np_directServerPack _ (by decide) target targetOnly srcIsTarget n m hacc

example : directConfigAccepted true (.ip4 [127, 0, 0, 1] 53) true = true := by decide

/-- F4 witness: accepted without the load-time check, panics on the first reply -/
theorem direct_targetonly_domain_panics :
    directConfigAccepted false (.dom [0x78] 53) true = true ∧
    directServerPack (.dom [0x78] 53) true false 1 1472 = .panic := by decide

/-! ### Gen side conditions: the source still has the shape the model mirrors -/

theorem shape_AddrPortFromSlice : Gen.C06.AddrPortFromSlice_shape =
    ["if len(b) < 1+4+2 => return", "b[0]", "conv (*[4]byte)", "b[1:]", "call Uint16", "b[1+4:]", "if len(b) < 1+16+2 => return", "b[0]", "conv (*[16]byte)", "b[1:]", "call Uint16", "b[1+16:]", "b[0]"] := rfl

theorem shape_ConnAddrFromSlice : Gen.C06.ConnAddrFromSlice_shape =
    ["if len(b) < 2 => return", "b[0]", "b[1]", "if len(b) < portEnd => return", "b[0]", "b[2:domainEnd]", "call Uint16", "b[domainEnd:]", "if len(b) < 1+4+2 => return", "b[0]", "conv (*[4]byte)", "b[1:]", "call Uint16", "b[1+4:]", "if len(b) < 1+16+2 => return", "b[0]", "conv (*[16]byte)", "b[1:]", "call Uint16", "b[1+16:]", "b[0]"] := rfl

theorem shape_DomainCacheConnAddrFromSlice : Gen.C06.DomainCacheConnAddrFromSlice_shape =
    ["if len(b) < 2 => return", "b[0]", "b[1]", "if len(b) < portEnd => return", "b[0]", "b[2:domainEnd]", "call Uint16", "b[domainEnd:]", "if len(b) < 1+4+2 => return", "b[0]", "conv (*[4]byte)", "b[1 : 1+4]", "call Uint16", "b[1+4:]", "if len(b) < 1+16+2 => return", "b[0]", "conv (*[16]byte)", "b[1 : 1+16]", "call Uint16", "b[1+16:]", "b[0]"] := rfl

theorem shape_AppendFromReader : Gen.C06.AppendFromReader_shape =
    ["slices.Grow(b, 2)[:bLen+2]", "b[bLen:]", "readBuf[0]", "readBuf[1]", "readBuf[0]", "slices.Grow(b, readBufSize)[:bLen+readBufSize]", "b[bLen:]"] := rfl

theorem shape_ConnAddrFromReader : Gen.C06.ConnAddrFromReader_shape =
    ["b[0]", "b[1]", "call unsafe.String", "call unsafe.SliceData", "b[1]", "call Uint16", "b1[b[1]:]", "b[1]", "b1[0]", "b[1]", "b1[1:]", "conv (*[4]byte)", "call Uint16", "b1[4:]", "b1[0]", "b[1]", "b1[1:]", "conv (*[16]byte)", "call Uint16", "b1[16:]", "b[0]"] := rfl

theorem shape_AddrFromDomainPort : Gen.C06.AddrFromDomainPort_shape =
    ["if len(domain) == 0 || len(domain) > 255 => return", "call unsafe.StringData"] := rfl

theorem shape_AddrIP : Gen.C06.AddrIP_shape =
    ["panic"] := rfl

theorem shape_AddrDomain : Gen.C06.AddrDomain_shape =
    ["panic"] := rfl

theorem shape_AddrIPPort : Gen.C06.AddrIPPort_shape =
    ["panic"] := rfl

theorem shape_ValidateUnixEpochTimestamp : Gen.C06.ValidateUnixEpochTimestamp_shape =
    ["call Uint64", "if diff < -MaxEpochDiff || diff > MaxEpochDiff => return"] := rfl

theorem shape_ParseTCPRequestFixedLengthHeader : Gen.C06.ParseTCPRequestFixedLengthHeader_shape =
    ["b[0]", "b[0]", "b[1:]", "call Uint16", "b[1+8:]"] := rfl

theorem shape_ParseTCPRequestVariableLengthHeader : Gen.C06.ParseTCPRequestVariableLengthHeader_shape =
    ["b[n:]", "if len(b) <= 2 => return", "call Uint16", "if 2+paddingLen > len(b) => return", "b[2+paddingLen:]"] := rfl

theorem shape_ParseTCPResponseHeader : Gen.C06.ParseTCPResponseHeader_shape =
    ["b[0]", "b[0]", "b[1 : 1+8]", "b[1+8 : 1+8+len(requestSalt)]", "call Uint16", "b[1+8+len(requestSalt):]"] := rfl

theorem shape_ParseUDPClientMessageHeader : Gen.C06.ParseUDPClientMessageHeader_shape =
    ["if len(b) < UDPClientMessageHeaderFixedLength => return", "b[0]", "b[0]", "b[1 : 1+8]", "call Uint16", "b[1+8:]", "if payloadStart > len(b) => return", "b[payloadStart:]"] := rfl

theorem shape_ParseUDPServerMessageHeader : Gen.C06.ParseUDPServerMessageHeader_shape =
    ["if len(b) < UDPServerMessageHeaderFixedLength => return", "b[0]", "b[0]", "b[1 : 1+8]", "call Uint64", "b[1+8:]", "call Uint16", "b[1+8+8:]", "if payloadStart > len(b) => return", "b[payloadStart:]"] := rfl

theorem shape_UDPServerSessionInfo : Gen.C06.UDPServerSessionInfo_shape =
    ["if len(b) < UDPSeparateHeaderLength => return", "call Uint64"] := rfl

theorem shape_UDPServerNewUnpacker : Gen.C06.UDPServerNewUnpacker_shape =
    ["if len(b) < nonAEADHeaderLen => return", "b[:UDPSeparateHeaderLength]", "b[UDPSeparateHeaderLength:nonAEADHeaderLen]", "conv (*[IdentityHeaderLength]byte)", "b[:8]"] := rfl

theorem shape_ShadowPacketServerUnpack : Gen.C06.ShadowPacketServerUnpack_shape =
    ["if packetLen < p.nonAEADHeaderLen+p.aead.Overhead() => return", "b[packetStart : packetStart+UDPSeparateHeaderLength]", "separateHeader[4:16]", "b[messageHeaderStart : packetStart+packetLen]", "call Uint64", "separateHeader[8:]", "ciphertext[:0]", "call .MustAdd"] := rfl

theorem shape_ShadowPacketClientUnpack : Gen.C06.ShadowPacketClientUnpack_shape =
    ["if packetLen < UDPSeparateHeaderLength+16 => return", "b[packetStart:messageHeaderStart]", "separateHeader[4:16]", "b[messageHeaderStart : packetStart+packetLen]", "call Uint64", "call Uint64", "separateHeader[8:]", "case ssid == p.currentServerSessionID && p.currentServerSessionAEAD != nil", "case ssid == p.oldServerSessionID && p.oldServerSessionAEAD != nil", "case time.Since(p.oldServerSessionLastSeenTime) < time.Minute", "separateHeader[:8]", "ciphertext[:0]", "call .MustAdd"] := rfl

theorem shape_DirectServerPack : Gen.C06.DirectServerPack_shape =
    ["call .IPPort"] := rfl

theorem shape_NoneClientUnpack : Gen.C06.NoneClientUnpack_shape =
    ["b[packetStart : packetStart+packetLen]"] := rfl

theorem shape_NoneServerUnpack : Gen.C06.NoneServerUnpack_shape =
    ["b[packetStart : packetStart+packetLen]"] := rfl

theorem shape_Socks5ClientUnpack : Gen.C06.Socks5ClientUnpack_shape =
    ["if packetLen < 3 => return", "b[packetStart : packetStart+packetLen]", "pkt[3:]"] := rfl

theorem shape_Socks5ServerUnpack : Gen.C06.Socks5ServerUnpack_shape =
    ["if packetLen < 3 => return", "b[packetStart : packetStart+packetLen]", "pkt[3:]"] := rfl

theorem shape_ValidatePacketHeader : Gen.C06.ValidatePacketHeader_shape =
    ["b[2]"] := rfl

theorem shape_PortSetContains : Gen.C06.PortSetContains_shape =
    ["s.blocks[s.blockIndex(p)]"] := rfl

theorem shape_panicOnZeroPort : Gen.C06.panicOnZeroPort_shape =
    ["panic"] := rfl

theorem shape_PortRangeSetContains : Gen.C06.PortRangeSetContains_shape =
    ["case port > s.ranges[h].To", "s.ranges[h]", "case port < s.ranges[h].From", "s.ranges[h]"] := rfl

theorem shape_SourcePortMeet : Gen.C06.SourcePortMeet_shape =
    [] := rfl

theorem shape_SourcePortRangeSetMeet : Gen.C06.SourcePortRangeSetMeet_shape =
    ["call .Contains"] := rfl

theorem shape_SourcePortSetMeet : Gen.C06.SourcePortSetMeet_shape =
    ["call .Contains"] := rfl

theorem shape_DestPortMeet : Gen.C06.DestPortMeet_shape =
    [] := rfl

theorem shape_DestPortRangeSetMeet : Gen.C06.DestPortRangeSetMeet_shape =
    ["call .Contains"] := rfl

theorem shape_DestPortSetMeet : Gen.C06.DestPortSetMeet_shape =
    ["call .Contains"] := rfl

theorem shape_DestDomainMeet : Gen.C06.DestDomainMeet_shape =
    ["call .Domain"] := rfl

theorem shape_DestIPMeet : Gen.C06.DestIPMeet_shape =
    ["call .Contains", "call .IP"] := rfl

theorem shape_DestResolvedIPMeet : Gen.C06.DestResolvedIPMeet_shape =
    ["call .Contains", "call .IP", "call .Domain"] := rfl

theorem shape_RouterMatch : Gen.C06.RouterMatch_shape =
    ["r.routes[i]", "r.routes[i]", "panic"] := rfl

theorem shape_RouteMatch : Gen.C06.RouteMatch_shape =
    [] := rfl

theorem shape_serverHandleMethodSelection : Gen.C06.serverHandleMethodSelection_shape =
    ["if len(b) < 1+1+255 => return", "panic", "b[:3]", "b[0]", "b[0]", "b[1]", "b[2]", "b[3 : 3+nmethods-1]", "b[2 : 2+nmethods]", "b[1]", "b[:2]", "b[1]", "b[:2]"] := rfl

theorem shape_serverHandleUsernamePassword : Gen.C06.serverHandleUsernamePassword_shape =
    ["if len(b) < 1+1+255+1 => return", "panic", "b[:4]", "b[0]", "b[0]", "b[1]", "if ulen > 1", "b[4 : 4+ulen-1]", "b[2:plenIndex]", "b[plenIndex]", "b[2 : 2+plen]", "b[1]", "b[:2]"] := rfl

theorem shape_serverHandleRequest : Gen.C06.serverHandleRequest_shape =
    ["if len(b) < 3+MaxAddrLen => return", "panic", "b[:5]", "b[0]", "b[0]", "b[3:3]", "b[3:5]", "b[1]", "b[1]", "b[:3]", "b[:1]"] := rfl

theorem shape_replyWithStatus : Gen.C06.replyWithStatus_shape =
    ["b[:replyLen]", "reply[0]", "reply[1]", "reply[2]", "conv (*[IPv4AddrLen]byte)", "reply[3:]"] := rfl

/-! ### Gen side conditions for functions that are fuzzed but NOT modelled: their panic-relevant fingerprint
is the one that was read and fuzzed (a change re-opens the obligation; no no-panic theorem is claimed for them) -/

theorem shape_hostHeaderToAddr : Gen.C06.hostHeaderToAddr_shape =
    ["case len(host) == 0", "case host[0] == '[' && host[len(host)-1] == ']'", "host[0]", "host[len(host)-1]", "host[1 : len(host)-1]"] := rfl

theorem shape_serverHandleBasicAuth : Gen.C06.serverHandleBasicAuth_shape =
    ["header[\"Proxy-Authorization\"]", "if len(creds) > len(prefix) && (creds[0] == 'B' || creds[0] == 'b') && (creds[1] == 'a' || creds[1] == 'A') && (creds[2] == 's' || creds[2] == 'S') && (creds[3] == 'i' || creds[3] == 'I') && (creds[4] == 'c' || creds[4] == 'C') && creds[5] == ' ' => return", "creds[0]", "creds[0]", "creds[1]", "creds[1]", "creds[2]", "creds[2]", "creds[3]", "creds[3]", "creds[4]", "creds[4]", "creds[5]", "creds[len(prefix):]"] := rfl

theorem shape_ShadowStreamConnRead : Gen.C06.ShadowStreamConnRead_shape =
    ["if cap(b) < streamReadMinBufferSize => return", "panic", "b[:2+tagSize]", "call Uint16", "b[:length+tagSize]"] := rfl

theorem shape_StreamServerHandleStream : Gen.C06.StreamServerHandleStream_shape =
    ["if bufferLen <= cap(writeBuf)", "writeBuf[:bufferLen]", "b[:reservedStart]", "if n > 0 && s.unsafeFallbackAddr.IsValid() => return", "readBuf[:n]", "b[:urspLen]", "b[urspLen:identityHeaderStart]", "b[fixedLengthHeaderStart:reservedStart]", "b[reservedStart:]", "b[identityHeaderStart:fixedLengthHeaderStart]", "conv [IdentityHeaderLength]byte", "if bufferLen <= cap(writeBuf)", "writeBuf[:bufferLen]"] := rfl

theorem shape_ShadowStreamClientInitRead : Gen.C06.ShadowStreamClientInitRead_shape =
    ["case bufferLen <= len(b)", "b[:bufferLen]", "case bufferLen <= streamReadMinBufferSize", "c.ShadowStreamConn.getReadBuf()[:bufferLen]", "hb[:urspLen]", "hb[urspLen:fixedLengthHeaderStart]", "hb[fixedLengthHeaderStart:]", "c.requestSalt[:c.requestSaltLen]"] := rfl

theorem shape_readOnceExpectFull : Gen.C06.readOnceExpectFull_shape =
    ["if err == io.EOF && 0 < n && n < len(b) => return", "if n < len(b) => return"] := rfl

theorem shape_clientNegotiateAuthMethod : Gen.C06.clientNegotiateAuthMethod_shape =
    ["if len(b) < 3 => return", "panic", "b[0]", "b[1]", "b[2]", "b[:3]", "b[:2]", "b[0]", "b[0]", "b[1]", "b[1]"] := rfl

theorem shape_clientDoUsernamePasswordAuth : Gen.C06.clientDoUsernamePasswordAuth_shape =
    ["if len(b) < 2 => return", "panic", "b[:2]", "b[0]", "b[0]", "b[1]"] := rfl

theorem shape_clientDoRequest : Gen.C06.clientDoRequest_shape =
    ["if len(b) < 3+MaxAddrLen => return", "panic", "b[0]", "b[1]", "b[2]", "b[3:]", "b[:3+n]", "b[:5]", "b[0]", "b[0]", "b[3:3]", "b[3:5]", "b[1]", "b[1]"] := rfl

theorem audited_shape_ParseSessionIDAndPacketID : Gen.C06.ParseSessionIDAndPacketID_shape =
    ["call Uint64", "call Uint64", "b[8:]"] := rfl

theorem shape_dnsParseMsg : Gen.C06.dnsParseMsg_shape =
    ["r.a[:0]", "r.aaaa[:0]"] := rfl

theorem audited_shape_dnsDoTCP : Gen.C06.dnsDoTCP_shape =
    ["call Uint16"] := rfl

theorem audited_shape_dnsSendQueries : Gen.C06.dnsSendQueries_shape =
    ["qBuf[2:2]", "qBuf[q6PktStart:q6PktStart]", "qBuf[:2]", "qBuf[q4PktEnd:q6PktStart]", "call PutUint16", "call PutUint16", "qBuf[:q6PktEnd]"] := rfl

theorem audited_shape_httpClientConnect : Gen.C06.httpClientConnect_shape =
    ["if resp.StatusCode < 200 || resp.StatusCode >= 300 => return", "if br.Buffered() > 0 => return"] := rfl

/-! ### Gen side conditions for the relay re-pack step (round 2) -/

theorem shape_ShadowPacketClientPack : Gen.C06.ShadowPacketClientPack_shape =
    ["case maxPaddingLen < 0", "case maxPaddingLen > 0 && p.shouldPad(targetAddr)", "call mrand.IntN(maxPaddingLen)", "b[messageHeaderStart:payloadStart]", "b[packetStart:identityHeadersStart]", "separateHeader[4:16]", "b[messageHeaderStart : payloadStart+payloadLen]", "b[start : start+IdentityHeaderLength]", "p.eihPSKHashes[i][:]", "p.eihPSKHashes[i]", "p.eihCiphers[i]", "plaintext[:0]"] := rfl

theorem shape_ShadowPacketServerPack : Gen.C06.ShadowPacketServerPack_shape =
    ["case maxPaddingLen < 0", "case maxPaddingLen > 0 && p.shouldPad(conn.AddrFromIPPort(sourceAddrPort))", "call mrand.IntN(maxPaddingLen)", "b[messageHeaderStart:payloadStart]", "b[packetStart:messageHeaderStart]", "separateHeader[4:16]", "b[messageHeaderStart : payloadStart+payloadLen]", "plaintext[:0]"] := rfl

theorem shape_PutUDPClientMessageHeader : Gen.C06.PutUDPClientMessageHeader_shape =
    ["b[0]", "call PutUint64", "b[1:]", "call PutUint16", "b[1+8:]", "b[1+8+2+paddingLen:]"] := rfl

theorem shape_PutUDPServerMessageHeader : Gen.C06.PutUDPServerMessageHeader_shape =
    ["b[0]", "call PutUint64", "b[1:]", "call PutUint64", "b[1+8:]", "call PutUint16", "b[1+8+8:]", "b[1+8+8+2+paddingLen:]"] := rfl

theorem shape_intToUint16 : Gen.C06.intToUint16_shape =
    ["panic"] := rfl

theorem shape_StreamClientDialStream : Gen.C06.StreamClientDialStream_shape =
    ["case payloadLen > roomForPayload", "payload[roomForPayload:]", "payload[:roomForPayload]", "case payloadLen >= MaxPaddingLength", "case payloadLen > 0", "call mrand.IntN(MaxPaddingLength - payloadLen + 1)", "call mrand.IntN(MaxPaddingLength)", "if bufferLen <= cap(writeBuf)", "writeBuf[:bufferLen]", "b[:urspLen]", "b[urspLen:identityHeadersStart]", "b[identityHeadersStart:fixedLengthHeaderStart]", "b[fixedLengthHeaderStart:fixedLengthHeaderEnd]", "b[variableLengthHeaderStart:variableLengthHeaderEnd]", "identityHeaders[i*IdentityHeaderLength : (i+1)*IdentityHeaderLength]", "eihCiphers[i]", "eihPSKHashes[i][:]", "eihPSKHashes[i]", "if len(excessPayload) > 0"] := rfl

theorem shape_PutTCPRequestVariableLengthHeader : Gen.C06.PutTCPRequestVariableLengthHeader_shape =
    ["call PutUint16", "b[n:]", "b[n:]"] := rfl

theorem shape_DirectClientPack : Gen.C06.DirectClientPack_shape =
    ["call .IPPort"] := rfl

theorem shape_NoneClientPack : Gen.C06.NoneClientPack_shape =
    ["b[packetStart:]"] := rfl

theorem shape_NoneServerPack : Gen.C06.NoneServerPack_shape =
    ["b[packetStart:]"] := rfl

theorem shape_Socks5ClientPack : Gen.C06.Socks5ClientPack_shape =
    ["b[packetStart:]", "b[packetStart+3:]"] := rfl

theorem shape_Socks5ServerPack : Gen.C06.Socks5ServerPack_shape =
    ["b[packetStart:]", "b[packetStart+3:]"] := rfl

theorem shape_WriteAddrFromConnAddr : Gen.C06.WriteAddrFromConnAddr_shape =
    ["call .IPPort", "call .Domain", "b[0]", "b[1]", "b[2:]", "call PutUint16", "b[1+1+len(domain):]"] := rfl

theorem shape_WriteAddrFromAddrPort : Gen.C06.WriteAddrFromAddrPort_shape =
    ["b[0]", "conv (*[4]byte)", "b[1:]", "b[0]", "conv (*[16]byte)", "b[1:]", "call PutUint16", "b[n-2:]"] := rfl

theorem shape_LengthOfAddrFromConnAddr : Gen.C06.LengthOfAddrFromConnAddr_shape =
    ["call .IPPort", "call .Domain", "if len(domain) > 255 => return", "panic"] := rfl

theorem shape_UDPRelayHeadroom : Gen.C06.UDPRelayHeadroom_shape =
    [] := rfl

theorem shape_MaxPacketSizeForAddr : Gen.C06.MaxPacketSizeForAddr_shape =
    ["if mtu > 65575 => return"] := rfl

theorem shape_Socks5UDPClientNewSession : Gen.C06.Socks5UDPClientNewSession_shape =
    [] := rfl

theorem shape_Socks5UDPClientNewSessionInner : Gen.C06.Socks5UDPClientNewSessionInner_shape =
    ["call .ResolveIPPort"] := rfl

theorem shape_Socks5AuthUDPClientNewSession : Gen.C06.Socks5AuthUDPClientNewSession_shape =
    [] := rfl

theorem shape_NoneUDPClientNewSession : Gen.C06.NoneUDPClientNewSession_shape =
    ["call .ResolveIPPort"] := rfl

theorem shape_SS2022UDPClientNewSession : Gen.C06.SS2022UDPClientNewSession_shape =
    ["call .ResolveIPPort", "call Uint64"] := rfl

theorem shape_serverForwardResponses : Gen.C06.serverForwardResponses_shape =
    ["resp.Header[\"Location\"]", "if len(location) != 1", "location[0]", "resp.Header[\"Connection\"]"] := rfl

theorem shape_serverForwardRequests : Gen.C06.serverForwardRequests_shape =
    ["req.Header[\"Connection\"]", "req.Header[\"User-Agent\"]", "req.Header[\"User-Agent\"]"] := rfl

theorem shape_removeConnectionSpecificFields : Gen.C06.removeConnectionSpecificFields_shape =
    ["header[\"Connection\"]"] := rfl

theorem shape_httpServerHandle : Gen.C06.httpServerHandle_shape =
    ["if failedAuthAttempts > 0 => return"] := rfl

theorem shape_ShadowStreamClientRead : Gen.C06.ShadowStreamClientRead_shape =
    ["if bufLen <= len(b) => return", "b[:bufLen]", "readBuf[:bufLen]", "readBuf[:payloadLen]"] := rfl

theorem shape_ShadowStreamClientReadFirstChunk : Gen.C06.ShadowStreamClientReadFirstChunk_shape =
    [] := rfl

theorem shape_lengthExtendSalt : Gen.C06.lengthExtendSalt_shape =
    ["out[:]"] := rfl

end SSV.C06

#print axioms SSV.C06.no_panic_addrPortFromSlice
#print axioms SSV.C06.no_panic_connAddrFromSlice
#print axioms SSV.C06.no_panic_domainCacheConnAddrFromSlice
#print axioms SSV.C06.connAddrFromSlice_ok_bounds
#print axioms SSV.C06.addrPortFromSlice_ok_bounds
#print axioms SSV.C06.no_panic_appendFromReader
#print axioms SSV.C06.no_panic_connAddrFromReader
#print axioms SSV.C06.no_panic_parseTCPRequestFixedLengthHeader
#print axioms SSV.C06.no_panic_parseTCPRequestVariableLengthHeader
#print axioms SSV.C06.no_panic_parseTCPResponseHeader
#print axioms SSV.C06.no_panic_parseUDPClientMessageHeader
#print axioms SSV.C06.no_panic_parseUDPServerMessageHeader
#print axioms SSV.C06.no_panic_udpSessionInfo
#print axioms SSV.C06.no_panic_udpNewUnpacker
#print axioms SSV.C06.no_panic_udpServerUnpack
#print axioms SSV.C06.no_panic_udpClientUnpack
#print axioms SSV.C06.udp_client_unpack_nil_aead_panics
#print axioms SSV.C06.no_panic_udpServerReceive
#print axioms SSV.C06.no_panic_socks5_server
#print axioms SSV.C06.no_panic_socks5_client
#print axioms SSV.C06.no_panic_noneServerUnpack
#print axioms SSV.C06.no_panic_noneClientUnpack
#print axioms SSV.C06.no_panic_socks5ServerUnpack
#print axioms SSV.C06.no_panic_socks5ClientUnpack
#print axioms SSV.C06.no_panic_streamRead
#print axioms SSV.C06.streamRead_callsite_cap
#print axioms SSV.C06.streamRead_u16_fits
#print axioms SSV.C06.no_panic_hostHeaderToAddr
#print axioms SSV.C06.no_panic_basicAuthToken
#print axioms SSV.C06.no_panic_relay_repack_ss2022_client
#print axioms SSV.C06.no_panic_relay_repack_ss2022_server
#print axioms SSV.C06.relay_repack_unguarded_exact_fit_panics
#print axioms SSV.C06.no_panic_relay_repack_none_client
#print axioms SSV.C06.no_panic_relay_repack_socks5_client
#print axioms SSV.C06.no_panic_relay_repack_none_server
#print axioms SSV.C06.no_panic_relay_repack_socks5_server
#print axioms SSV.C06.no_panic_relay_repack_direct_client
#print axioms SSV.C06.parsed_address_fits_packers
#print axioms SSV.C06.parsed_address_fits_packers_dc
#print axioms SSV.C06.no_panic_relay_dialstream_split
#print axioms SSV.C06.no_panic_handleStream
#print axioms SSV.C06.no_panic_clientFirstRead
#print axioms SSV.C06.no_panic_dnsParseMsg
#print axioms SSV.C06.no_panic_locationForcesClose
#print axioms SSV.C06.no_panic_socks5_udp_associate_session
#print axioms SSV.C06.accessor_ip_under_guard
#print axioms SSV.C06.accessor_domain_under_guard
#print axioms SSV.C06.accessor_resolve_valid
#print axioms SSV.C06.accessor_ip_on_domain_panics
#print axioms SSV.C06.unguarded_accessor_sites_are_the_audited_ones
#print axioms SSV.C06.accessor_sites_fingerprint
#print axioms SSV.C06.no_panic_router_match
#print axioms SSV.C06.no_panic_wire_to_route
#print axioms SSV.C06.router_match_unguarded_panics
#print axioms SSV.C06.no_panic_direct_server_pack
#print axioms SSV.C06.direct_targetonly_domain_panics
#print axioms SSV.C06.shape_AddrPortFromSlice
#print axioms SSV.C06.shape_ConnAddrFromSlice
#print axioms SSV.C06.shape_DomainCacheConnAddrFromSlice
#print axioms SSV.C06.shape_AppendFromReader
#print axioms SSV.C06.shape_ConnAddrFromReader
#print axioms SSV.C06.shape_AddrFromDomainPort
#print axioms SSV.C06.shape_AddrIP
#print axioms SSV.C06.shape_AddrDomain
#print axioms SSV.C06.shape_AddrIPPort
#print axioms SSV.C06.shape_ValidateUnixEpochTimestamp
#print axioms SSV.C06.shape_ParseTCPRequestFixedLengthHeader
#print axioms SSV.C06.shape_ParseTCPRequestVariableLengthHeader
#print axioms SSV.C06.shape_ParseTCPResponseHeader
#print axioms SSV.C06.shape_ParseUDPClientMessageHeader
#print axioms SSV.C06.shape_ParseUDPServerMessageHeader
#print axioms SSV.C06.shape_UDPServerSessionInfo
#print axioms SSV.C06.shape_UDPServerNewUnpacker
#print axioms SSV.C06.shape_ShadowPacketServerUnpack
#print axioms SSV.C06.shape_ShadowPacketClientUnpack
#print axioms SSV.C06.shape_DirectServerPack
#print axioms SSV.C06.shape_NoneClientUnpack
#print axioms SSV.C06.shape_NoneServerUnpack
#print axioms SSV.C06.shape_Socks5ClientUnpack
#print axioms SSV.C06.shape_Socks5ServerUnpack
#print axioms SSV.C06.shape_ValidatePacketHeader
#print axioms SSV.C06.shape_PortSetContains
#print axioms SSV.C06.shape_panicOnZeroPort
#print axioms SSV.C06.shape_PortRangeSetContains
#print axioms SSV.C06.shape_SourcePortMeet
#print axioms SSV.C06.shape_SourcePortRangeSetMeet
#print axioms SSV.C06.shape_SourcePortSetMeet
#print axioms SSV.C06.shape_DestPortMeet
#print axioms SSV.C06.shape_DestPortRangeSetMeet
#print axioms SSV.C06.shape_DestPortSetMeet
#print axioms SSV.C06.shape_DestDomainMeet
#print axioms SSV.C06.shape_DestIPMeet
#print axioms SSV.C06.shape_DestResolvedIPMeet
#print axioms SSV.C06.shape_RouterMatch
#print axioms SSV.C06.shape_RouteMatch
#print axioms SSV.C06.shape_serverHandleMethodSelection
#print axioms SSV.C06.shape_serverHandleUsernamePassword
#print axioms SSV.C06.shape_serverHandleRequest
#print axioms SSV.C06.shape_replyWithStatus
#print axioms SSV.C06.shape_hostHeaderToAddr
#print axioms SSV.C06.shape_serverHandleBasicAuth
#print axioms SSV.C06.shape_ShadowStreamConnRead
#print axioms SSV.C06.shape_StreamServerHandleStream
#print axioms SSV.C06.shape_ShadowStreamClientInitRead
#print axioms SSV.C06.shape_readOnceExpectFull
#print axioms SSV.C06.shape_clientNegotiateAuthMethod
#print axioms SSV.C06.shape_clientDoUsernamePasswordAuth
#print axioms SSV.C06.shape_clientDoRequest
#print axioms SSV.C06.audited_shape_ParseSessionIDAndPacketID
#print axioms SSV.C06.shape_dnsParseMsg
#print axioms SSV.C06.audited_shape_dnsDoTCP
#print axioms SSV.C06.audited_shape_dnsSendQueries
#print axioms SSV.C06.audited_shape_httpClientConnect
#print axioms SSV.C06.shape_ShadowPacketClientPack
#print axioms SSV.C06.shape_ShadowPacketServerPack
#print axioms SSV.C06.shape_PutUDPClientMessageHeader
#print axioms SSV.C06.shape_PutUDPServerMessageHeader
#print axioms SSV.C06.shape_intToUint16
#print axioms SSV.C06.shape_StreamClientDialStream
#print axioms SSV.C06.shape_PutTCPRequestVariableLengthHeader
#print axioms SSV.C06.shape_DirectClientPack
#print axioms SSV.C06.shape_NoneClientPack
#print axioms SSV.C06.shape_NoneServerPack
#print axioms SSV.C06.shape_Socks5ClientPack
#print axioms SSV.C06.shape_Socks5ServerPack
#print axioms SSV.C06.shape_WriteAddrFromConnAddr
#print axioms SSV.C06.shape_WriteAddrFromAddrPort
#print axioms SSV.C06.shape_LengthOfAddrFromConnAddr
#print axioms SSV.C06.shape_UDPRelayHeadroom
#print axioms SSV.C06.shape_MaxPacketSizeForAddr
#print axioms SSV.C06.shape_Socks5UDPClientNewSession
#print axioms SSV.C06.shape_Socks5UDPClientNewSessionInner
#print axioms SSV.C06.shape_Socks5AuthUDPClientNewSession
#print axioms SSV.C06.shape_NoneUDPClientNewSession
#print axioms SSV.C06.shape_SS2022UDPClientNewSession
#print axioms SSV.C06.shape_serverForwardResponses
#print axioms SSV.C06.shape_serverForwardRequests
#print axioms SSV.C06.shape_removeConnectionSpecificFields
#print axioms SSV.C06.shape_httpServerHandle
#print axioms SSV.C06.shape_ShadowStreamClientRead
#print axioms SSV.C06.shape_ShadowStreamClientReadFirstChunk
#print axioms SSV.C06.shape_lengthExtendSalt
