import SSV.Proofs.Packet
/-
C05 — property theorems (statements only; helper lemmas in SSV/Proofs/Packet*.lean).
-/
namespace SSV.C05
open SSV SSV.Packet SSV.Gen.C05

/-- The SOCKS address codec: what `WriteAddrFromConnAddr` writes, `ConnAddrFromSlice` reads back as the
same address — up to the documented normalisation (IPv4-mapped IPv6 → IPv4, zero value → 0.0.0.0:0) —
and consumes exactly `LengthOfAddrFromConnAddr` bytes, whatever follows. -/
theorem addr_codec_roundtrip (a : Addr) (rest : Bytes) (h : a.wf) :
    decodeAddr (encodeAddr a ++ rest) = .ok (a.norm, (addrLen a).toNat) :=
  decode_encodeAddr a rest h

example : (Addr.dom [0x61] 53).wf := by decide

end SSV.C05

#print axioms SSV.C05.addr_codec_roundtrip
