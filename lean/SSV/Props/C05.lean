import SSV.Proofs.PacketRelay
import SSV.Proofs.PacketSSDown
import SSV.Proofs.PacketLimit
import SSV.Proofs.PacketHistory
import SSV.Proofs.PacketHistoryDown
import SSV.Proofs.PacketUsers
import SSV.Proofs.PacketRefused
/-
C05 — UDP packets survive pack/unpack unchanged and never exceed the path MTU.
Property theorems only; helper lemmas are in SSV/Proofs/Packet*.lean. The model (SSV/Model/Packet.lean,
SSV/Model/PacketRelay.lean) takes every offset formula, headroom literal and layout expression from SSV/Gen/C05.lean,
which is regenerated from the source on every run.

`norm` (Addr.norm / AddrPort.norm) is the identity except: an IPv4-mapped IPv6 address comes out as the IPv4
address, and the zero `conn.Addr` comes out as 0.0.0.0:0 — the wire format the code chooses
(`socks5.WriteAddrFromAddrPort`, `WriteAddrFromConnAddr`).
-/
namespace SSV.C05
open SSV SSV.Packet SSV.Gen.C05

/-! ## the normalisation is the identity except for the two documented cases -/

theorem norm_id_ip (ap : AddrPort) (h : ap.ip.v4family = false) : (Addr.ip ap).norm = .ip ap := by
  simp [Addr.norm, AddrPort.norm, IP.norm, h]
theorem norm_id_v4 (a : Bytes) (p : Nat) : (Addr.ip ⟨.v4 a, p⟩).norm = .ip ⟨.v4 a, p⟩ := by
  simp [Addr.norm, AddrPort.norm, IP.norm, IP.v4family, IP.as4]
theorem norm_id_dom (n : Bytes) (p : Nat) : (Addr.dom n p).norm = .dom n p := rfl
theorem norm_mapped (a : Bytes) (p : Nat) (h : (IP.v6 a).v4family = true) :
    (Addr.ip ⟨.v6 a, p⟩).norm = .ip ⟨.v4 (a.drop 12), p⟩ := by
  simp [Addr.norm, AddrPort.norm, IP.norm, h, IP.as4]

/-! ## round trip -/

/-- The SOCKS address codec: what `WriteAddrFromConnAddr` writes, `ConnAddrFromSlice` reads back as the
normalised address, consuming exactly `LengthOfAddrFromConnAddr` bytes, whatever follows. -/
theorem addr_codec_roundtrip (a : Addr) (rest : Bytes) (h : a.wf) :
    decodeAddr (encodeAddr a ++ rest) = .ok (a.norm, (addrLen a).toNat) :=
  decode_encodeAddr a rest h

theorem addrport_codec_roundtrip (a : AddrPort) (rest : Bytes) (h : a.wf) :
    decodeAddrPort (encodeAddrPort a ++ rest) = .ok (a.norm, (addrPortLen a).toNat) :=
  decode_encodeAddrPort a rest h

/-- roundtrip_none / roundtrip_socks5, client → server (`hdr3 = false`: Shadowsocks none, `true`: SOCKS5):
whatever the buffer, offsets and limit, if the client packer succeeds then the server unpacker, run on the
packet it produced, returns the normalised address and the payload window, and the payload bytes are unchanged. -/
theorem roundtrip_plain_up (hdr3 : Bool) (limit : Int) (b : Bytes) (a : Addr) (ps pl : Nat) (r : Packed)
    (ha : a.wf) (hpay : ps + pl ≤ b.length) (h : plainClientPack hdr3 limit b a ps pl = .ok r) :
    plainServerUnpack hdr3 r.buf r.packetStart.toNat r.packetLen.toNat = .ok ⟨r.buf, a.norm, ps, pl⟩ ∧
    sub r.buf ps pl = sub b ps pl :=
  plain_roundtrip_up hdr3 limit b a ps pl r ha hpay h

/-- roundtrip_none / roundtrip_socks5, server → client. -/
theorem roundtrip_plain_down (hdr3 : Bool) (limit : Int) (server pktSrc : AddrPort) (hfrom : mappedEqual pktSrc server = true)
    (b : Bytes) (a : AddrPort) (ps pl : Nat) (r : Packed)
    (ha : a.wf) (hpay : ps + pl ≤ b.length) (h : plainServerPack hdr3 b a ps pl limit = .ok r) :
    plainClientUnpack hdr3 server pktSrc r.buf r.packetStart.toNat r.packetLen.toNat = .ok ⟨r.buf, a.norm, ps, pl⟩ ∧
    sub r.buf ps pl = sub b ps pl :=
  plain_roundtrip_down hdr3 limit server pktSrc hfrom b a ps pl r ha hpay h

/-- roundtrip_ss2022, client → server, any number of identity headers, any padding policy / random draw /
timestamp / ids, any AEAD and block cipher satisfying the laws: the server side (separate header decrypted with
the packer's block key, `nonAEADHeaderLen = 16 + 16·k`, same session key, clock within `MaxEpochDiff` of the
packet's timestamp) returns the normalised address and the payload in place, and touches nothing outside the packet. -/
theorem roundtrip_ss2022_up (c : Crypto) (L : c.Laws) (userBlock aeadKey : Bytes) (eih : List (Bytes × Bytes)) (mps : Int)
    (pol : Policy) (b : Bytes) (a : Addr) (ps pl rand : Nat) (ts sid pid : Bytes) (now : Int) (r : Packed)
    (ha : a.wf) (hts : ts.length = 8) (hsid : sid.length = 8) (hpid : pid.length = 8)
    (hh : ∀ kh ∈ eih, kh.2.length = 16) (hnow : tsOk ts now = true)
    (h : ssClientPack c userBlock aeadKey eih mps pol b a ps pl rand ts sid pid = .ok r) :
    ∃ u, ssServerUnpack c (ssBlock userBlock eih) aeadKey eih.length false [] now r.buf r.packetStart.toNat r.packetLen.toNat = .ok u ∧
      u.addr = a.norm ∧ u.payloadStart = ps ∧ u.payloadLen = pl ∧ sub u.buf ps pl = sub b ps pl ∧
      u.buf.length = b.length ∧ u.buf.take r.packetStart.toNat = r.buf.take r.packetStart.toNat ∧
      u.buf.drop (r.packetStart + r.packetLen).toNat = r.buf.drop (r.packetStart + r.packetLen).toNat :=
  ss_roundtrip_up c L userBlock aeadKey eih mps pol b a ps pl rand ts sid pid now r ha hts hsid hpid hh hnow h

/-- roundtrip_ss2022, client → MULTI-USER server (the real server path with one identity layer): the server knows only
the iPSK block key `ik` and the user map `users` = (PSK hash, user PSK). It decrypts the separate header and the
identity header with `ik`, XORs, looks the hash up, derives the session key of THAT user from the client session id
(`kdf psk sid`) and unpacks. Hypothesis on the user set, stated explicitly: the client's user `(hu, pu)` is in the
map and every entry with hash `hu` carries the PSK `pu` (hash-injectivity on the user set: two users with the same
truncated BLAKE3 hash are indistinguishable to the server). Any number and order of other users. -/
theorem roundtrip_ss2022_up_multiuser (c : Crypto) (L : c.Laws) (kdf : Bytes → Bytes → Bytes) (userBlock ik hu pu : Bytes)
    (users : List (Bytes × Bytes)) (mps : Int) (pol : Policy) (b : Bytes) (a : Addr) (ps pl rand : Nat)
    (ts sid pid : Bytes) (now : Int) (r : Packed)
    (ha : a.wf) (hts : ts.length = 8) (hsid : sid.length = 8) (hpid : pid.length = 8) (hhu : hu.length = 16)
    (hnow : tsOk ts now = true)
    (hmem : (hu, pu) ∈ users) (hinj : ∀ u ∈ users, u.1 = hu → u.2 = pu)
    (h : ssClientPack c userBlock (kdf pu sid) [(ik, hu)] mps pol b a ps pl rand ts sid pid = .ok r) :
    ∃ u, ssServerUnpackMU c kdf ik users now r.buf r.packetStart.toNat r.packetLen.toNat = .ok u ∧
      u.addr = a.norm ∧ u.payloadStart = ps ∧ u.payloadLen = pl ∧ sub u.buf ps pl = sub b ps pl ∧
      u.buf.length = b.length ∧ u.buf.take r.packetStart.toNat = r.buf.take r.packetStart.toNat ∧
      u.buf.drop (r.packetStart + r.packetLen).toNat = r.buf.drop (r.packetStart + r.packetLen).toNat :=
  ss_roundtrip_up_multiuser c L kdf userBlock ik hu pu users mps pol b a ps pl rand ts sid pid now r ha hts hsid hpid hhu hnow hmem hinj h

/-- roundtrip_ss2022, server → client: a fresh client unpacker (first packet of the server session), same block
and session key, its own session id in the header, clock within `MaxEpochDiff`. -/
theorem roundtrip_ss2022_down (c : Crypto) (L : c.Laws) (block aeadKey : Bytes) (pol : Policy) (b : Bytes) (a : AddrPort)
    (ps pl : Nat) (lim : Int) (rand : Nat) (ts ssid spid csid : Bytes) (now : Int) (r : Packed)
    (ha : a.wf) (hts : ts.length = 8) (hssid : ssid.length = 8) (hspid : spid.length = 8) (hcs : csid.length = 8)
    (hnow : tsOk ts now = true)
    (h : ssServerPack c block aeadKey pol b a ps pl lim rand ts ssid spid csid = .ok r) :
    ∃ u, ssClientUnpack c block aeadKey csid now r.buf r.packetStart.toNat r.packetLen.toNat = .ok u ∧
      u.addr = a.norm ∧ u.payloadStart = ps ∧ u.payloadLen = pl ∧ sub u.buf ps pl = sub b ps pl ∧
      u.buf.length = b.length ∧ u.buf.take r.packetStart.toNat = r.buf.take r.packetStart.toNat ∧
      u.buf.drop (r.packetStart + r.packetLen).toNat = r.buf.drop (r.packetStart + r.packetLen).toNat :=
  ss_roundtrip_down c L block aeadKey pol b a ps pl lim rand ts ssid spid csid now r ha hts hssid hspid hcs hnow h

/-- roundtrip_direct: the direct codecs leave buffer and window alone (the server names its tunnel address). -/
theorem roundtrip_direct (target : Addr) (src : AddrPort) (b : Bytes) (ps pl : Nat) :
    directServerUnpack target b ps pl = .ok ⟨b, target, ps, pl⟩ ∧
    directClientUnpack src b ps pl = .ok ⟨b, src, ps, pl⟩ := ⟨rfl, rfl⟩

/-! ## MTU bound and refusal -/

/-- `MaxPacketSizeForAddr` leaves room for the real IP and UDP headers (IPv4 20, IPv6 40 + 8 for the jumbo
payload option above 65575, UDP 8: literals of the RFCs, not of the source). -/
theorem max_packet_size_fits_mtu (mtu : Int) (v4 : Bool) :
    maxPacketSizeForAddr mtu v4 + (if v4 then 20 else if mtu > 65575 then 48 else 40) + 8 ≤ mtu := by
  unfold maxPacketSizeForAddr
  cases v4
  · by_cases h : mtu > 65575 <;> simp [h] <;> omega
  · simp only [if_true]; omega

/-- mtu_bound_none / mtu_bound_socks5 (client): success ⇒ `packetLen ≤ limit` and the packet is exactly
header ++ payload (no truncation); with enough front space the packer fails iff the packet cannot fit. -/
theorem mtu_bound_plain_client (hdr3 : Bool) (limit : Int) (b : Bytes) (a : Addr) (ps pl : Nat) (ha : a.wf) :
    (∀ r, plainClientPack hdr3 limit b a ps pl = .ok r →
      r.packetLen ≤ limit ∧ r.packetLen = (pl : Int) + (plainHead hdr3 (encodeAddr a)).length) ∧
    ((plainHead hdr3 (encodeAddr a)).length ≤ ps → ps ≤ b.length →
      (plainClientPack hdr3 limit b a ps pl = .err .tooBig ↔ (pl : Int) + (plainHead hdr3 (encodeAddr a)).length > limit)) :=
  ⟨fun _ h => by obtain ⟨_, _, _, h4, h5, _⟩ := plainClientPack_ok ha h; exact ⟨h5, h4⟩,
   fun h1 h2 => plainClientPack_tooBig_iff hdr3 limit b a ps pl ha h1 h2⟩

theorem mtu_bound_plain_server (hdr3 : Bool) (limit : Int) (b : Bytes) (a : AddrPort) (ps pl : Nat) (ha : a.wf) :
    (∀ r, plainServerPack hdr3 b a ps pl limit = .ok r →
      r.packetLen ≤ limit ∧ r.packetLen = (pl : Int) + (plainHead hdr3 (encodeAddrPort a)).length) ∧
    ((plainHead hdr3 (encodeAddrPort a)).length ≤ ps → ps ≤ b.length →
      (plainServerPack hdr3 b a ps pl limit = .err .tooBig ↔ (pl : Int) + (plainHead hdr3 (encodeAddrPort a)).length > limit)) :=
  ⟨fun _ h => by obtain ⟨_, _, _, h4, h5, _⟩ := plainServerPack_ok ha h; exact ⟨h5, h4⟩,
   fun h1 h2 => plainServerPack_tooBig_iff hdr3 limit b a ps pl ha h1 h2⟩

/-- mtu_bound_ss2022 (client): success ⇒ `packetLen ≤ maxPacketSize`, the packet is
separate header ++ identity headers ++ message header (with `pad ≤ 65535` bytes of padding) ++ payload ++ tag. -/
theorem mtu_bound_ss2022_client (c : Crypto) (userBlock aeadKey : Bytes) (eih : List (Bytes × Bytes)) (mps : Int) (pol : Policy)
    (b : Bytes) (a : Addr) (ps pl rand : Nat) (ts sid pid : Bytes) (r : Packed) (ha : a.wf)
    (h : ssClientPack c userBlock aeadKey eih mps pol b a ps pl rand ts sid pid = .ok r) :
    r.packetLen ≤ mps ∧ ∃ pad : Nat, pad ≤ 65535 ∧ r.packetLen = ((ssFront eih.length a pad + pl + 16 : Nat) : Int) := by
  obtain ⟨pad, h1, _, _, h4, _, h6, _⟩ := ssClientPack_ok ha h
  exact ⟨by omega, pad, h1, h6⟩

/-- mtu_bound_ss2022 (server): success ⇒ `packetLen ≤ maxPacketLen`, no truncation. -/
theorem mtu_bound_ss2022_server (c : Crypto) (block aeadKey : Bytes) (pol : Policy) (b : Bytes) (a : AddrPort)
    (ps pl : Nat) (lim : Int) (rand : Nat) (ts ssid spid csid : Bytes) (r : Packed)
    (h : ssServerPack c block aeadKey pol b a ps pl lim rand ts ssid spid csid = .ok r) :
    r.packetLen ≤ lim ∧ ∃ pad : Nat, pad ≤ 65535 ∧ r.packetLen = ((ssSFront a pad + pl + 16 : Nat) : Int) := by
  obtain ⟨pad, h1, _, _, h4, _, h6, _⟩ := ssServerPack_ok h
  exact ⟨by omega, pad, h1, h6⟩

/-- the ss2022 packers report too little front space as `ErrPayloadTooBig` and otherwise never panic nor lack
seal room once 16 bytes follow the payload (the rear half of the headroom) -/
theorem ss2022_pack_safe (c : Crypto) (userBlock aeadKey : Bytes) (eih : List (Bytes × Bytes)) (mps : Int) (pol : Policy)
    (b : Bytes) (a : Addr) (src : AddrPort) (ps pl rand : Nat) (ts sid pid csid : Bytes) (ha : a.wf)
    (hroom : ps + pl + 16 ≤ b.length) :
    (ssClientPack c userBlock aeadKey eih mps pol b a ps pl rand ts sid pid).safe ∧
    (ssServerPack c userBlock aeadKey pol b src ps pl mps rand ts sid pid csid).safe :=
  ⟨ssClientPack_safe c userBlock aeadKey eih mps pol b a ps pl rand ts sid pid ha hroom,
   ssServerPack_safe c userBlock aeadKey pol b src ps pl mps rand ts sid pid csid hroom⟩

/-- …and without those 16 bytes the outcome is `noRoom` (Go seals into a fresh allocation): the rear headroom is needed -/
theorem ss2022_pack_needs_rear : ssClientPack toyCrypto [1] [2] [] 1452 .noPadding (List.replicate 50 0) (.ip ⟨.v4 [1, 2, 3, 4], 53⟩)
    34 10 0 [0, 0, 0, 0, 0, 0, 0, 0] [0, 0, 0, 0, 0, 0, 0, 1] [0, 0, 0, 0, 0, 0, 0, 2] = .noRoom := by rfl

/-! ## frame -/

/-- frame_ss2022 (client and server packers) -/
theorem frame_ss2022_client (c : Crypto) (L : c.Laws) (userBlock aeadKey : Bytes) (eih : List (Bytes × Bytes)) (mps : Int)
    (pol : Policy) (b : Bytes) (a : Addr) (ps pl rand : Nat) (ts sid pid : Bytes) (r : Packed)
    (ha : a.wf) (hts : ts.length = 8) (hsid : sid.length = 8) (hpid : pid.length = 8)
    (hh : ∀ kh ∈ eih, kh.2.length = 16)
    (h : ssClientPack c userBlock aeadKey eih mps pol b a ps pl rand ts sid pid = .ok r) :
    r.buf.length = b.length ∧ r.buf.take r.packetStart.toNat = b.take r.packetStart.toNat ∧
    r.buf.drop (r.packetStart + r.packetLen).toNat = b.drop (r.packetStart + r.packetLen).toNat :=
  ssClientPack_frame c L userBlock aeadKey eih mps pol b a ps pl rand ts sid pid r ha hts hsid hpid hh h

theorem frame_ss2022_server (c : Crypto) (L : c.Laws) (block aeadKey : Bytes) (pol : Policy) (b : Bytes) (a : AddrPort)
    (ps pl : Nat) (lim : Int) (rand : Nat) (ts ssid spid csid : Bytes) (r : Packed)
    (ha : a.wf) (hts : ts.length = 8) (hssid : ssid.length = 8) (hspid : spid.length = 8) (hcs : csid.length = 8)
    (h : ssServerPack c block aeadKey pol b a ps pl lim rand ts ssid spid csid = .ok r) :
    r.buf.length = b.length ∧ r.buf.take r.packetStart.toNat = b.take r.packetStart.toNat ∧
    r.buf.drop (r.packetStart + r.packetLen).toNat = b.drop (r.packetStart + r.packetLen).toNat :=
  ssServerPack_frame c L block aeadKey pol b a ps pl lim rand ts ssid spid csid r ha hts hssid hspid hcs h


/-- frame_none / frame_socks5: nothing outside `[packetStart, packetStart+packetLen)` is written. -/
theorem frame_plain_client (hdr3 : Bool) (limit : Int) (b : Bytes) (a : Addr) (ps pl : Nat) (r : Packed)
    (ha : a.wf) (hpay : ps + pl ≤ b.length) (h : plainClientPack hdr3 limit b a ps pl = .ok r) :
    r.buf.length = b.length ∧ r.buf.take r.packetStart.toNat = b.take r.packetStart.toNat ∧
    r.buf.drop (r.packetStart + r.packetLen).toNat = b.drop (r.packetStart + r.packetLen).toNat :=
  plainClientPack_frame hdr3 limit b a ps pl r ha hpay h

theorem frame_plain_server (hdr3 : Bool) (limit : Int) (b : Bytes) (a : AddrPort) (ps pl : Nat) (r : Packed)
    (ha : a.wf) (hpay : ps + pl ≤ b.length) (h : plainServerPack hdr3 b a ps pl limit = .ok r) :
    r.buf.length = b.length ∧ r.buf.take r.packetStart.toNat = b.take r.packetStart.toNat ∧
    r.buf.drop (r.packetStart + r.packetLen).toNat = b.drop (r.packetStart + r.packetLen).toNat :=
  plainServerPack_frame hdr3 limit b a ps pl r ha hpay h

/-! ## frame on refusal -/

/-- frame_refused_none / _socks5 (client packer): a refused pack is `ErrPayloadTooBig`; the code has by then STILL
written the header (the write follows the size check), and the buffer it leaves (`plainClientPackRefusedBuf`, compared
with the real buffer by the correspondence run) differs from the input only inside `[payloadStart − |header|, payloadStart)`:
the payload and everything behind it, and everything in front of the header, are untouched. -/
theorem frame_refused_plain_client (hdr3 : Bool) (limit : Int) (b : Bytes) (a : Addr) (ps pl : Nat) (e : Err) (ha : a.wf)
    (h : plainClientPack hdr3 limit b a ps pl = .err e) :
    e = .tooBig ∧ (plainHead hdr3 (encodeAddr a)).length ≤ ps ∧ ps ≤ b.length ∧
    (plainClientPackRefusedBuf hdr3 b a ps).length = b.length ∧
    (plainClientPackRefusedBuf hdr3 b a ps).take (ps - (plainHead hdr3 (encodeAddr a)).length) = b.take (ps - (plainHead hdr3 (encodeAddr a)).length) ∧
    (plainClientPackRefusedBuf hdr3 b a ps).drop ps = b.drop ps :=
  plainClientPack_refused hdr3 limit b a ps pl e ha h

theorem frame_refused_plain_server (hdr3 : Bool) (limit : Int) (b : Bytes) (a : AddrPort) (ps pl : Nat) (e : Err) (ha : a.wf)
    (h : plainServerPack hdr3 b a ps pl limit = .err e) :
    e = .tooBig ∧ (plainHead hdr3 (encodeAddrPort a)).length ≤ ps ∧ ps ≤ b.length ∧
    (plainServerPackRefusedBuf hdr3 b a ps).length = b.length ∧
    (plainServerPackRefusedBuf hdr3 b a ps).take (ps - (plainHead hdr3 (encodeAddrPort a)).length) = b.take (ps - (plainHead hdr3 (encodeAddrPort a)).length) ∧
    (plainServerPackRefusedBuf hdr3 b a ps).drop ps = b.drop ps :=
  plainServerPack_refused hdr3 limit b a ps pl e ha h

/-- frame_refused_ss2022 (packers): the only refusal is `ErrPayloadTooBig` at the padding guard, which precedes every
write of `PackInPlace` (the model function performs no buffer operation before it): nothing is modified. -/
theorem frame_refused_ss2022_pack (c : Crypto) (userBlock aeadKey : Bytes) (eih : List (Bytes × Bytes)) (mps : Int) (pol : Policy)
    (b : Bytes) (a : Addr) (src : AddrPort) (ps pl rand : Nat) (ts sid pid csid : Bytes) (e : Err) :
    (ssClientPack c userBlock aeadKey eih mps pol b a ps pl rand ts sid pid = .err e → e = .tooBig) ∧
    (ssServerPack c userBlock aeadKey pol b src ps pl mps rand ts sid pid csid = .err e → e = .tooBig) :=
  ⟨ssClientPack_refused c userBlock aeadKey eih mps pol b a ps pl rand ts sid pid e,
   ssServerPack_refused c userBlock aeadKey pol b src ps pl mps rand ts sid pid csid e⟩

/-- frame_refused_unpack_partial. Proved: the none / SOCKS5 / direct unpackers never write (a successful unpack returns
the very buffer it was given; their code contains no store into `b`). MISSING: the ss2022 unpackers write inside the
packet window BEFORE they can fail (the separate header and the identity header are decrypted in place, a failed
`Open` clears the plaintext area, a header error leaves the opened plaintext); `Outcome.err` carries no buffer, so
"a refused ss2022 unpack modifies only `[packetStart, packetStart+packetLen)`" is checked by the oracle
(`canary` / `canary-on-error`) and not yet a theorem. -/
theorem frame_refused_unpack_partial (hdr3 : Bool) (b : Bytes) (q n : Nat) (target : Addr) (src : AddrPort) :
    (∀ u, plainServerUnpack hdr3 b q n = .ok u → u.buf = b) ∧
    (∀ server pktSrc u, plainClientUnpack hdr3 server pktSrc b q n = .ok u → u.buf = b) ∧
    (directServerUnpack target b q n = .ok ⟨b, target, q, n⟩) ∧ (directClientUnpack src b q n = .ok ⟨b, src, q, n⟩) :=
  ⟨fun _ h => (plainServerUnpack_ok h).1, fun _ _ _ h => (plainClientUnpack_ok h).1, rfl, rfl⟩

/-! ## relay safety -/

/-- relay_safe, uplink: every server protocol × client protocol (ss2022 with any number of identity headers on
either side), every padding policy / random draw, every `maxClientPackerHeadroom` dominating the client's, every
MTU, every packet of at most `packetBufRecvSize` bytes at `packetBufFrontHeadroom` of a buffer of `packetBufSize`
bytes: unpacking and re-packing in place neither index outside the buffer nor lack seal room. -/
theorem relay_safe_up (s : ServerU) (cp : ClientP) (hs : s.ok) (maxClient : Headroom) (mtu : Int) (b : Bytes) (n : Nat)
    (hmaxF : (clientPackerHeadroom cp.proto).front ≤ maxClient.front)
    (hmaxR : (clientPackerHeadroom cp.proto).rear ≤ maxClient.rear)
    (hb : (b.length : Int) = (uplinkLayout mtu maxClient s.proto).bufSize)
    (hn : (n : Int) ≤ (uplinkLayout mtu maxClient s.proto).recvSize) :
    (relayUplink s cp b (uplinkLayout mtu maxClient s.proto).front.toNat n).safe :=
  relay_up_safe s cp hs maxClient mtu b n hmaxF hmaxR hb hn

/-- relay_safe, downlink (`relayNatConnToServerConn*` of both services): every client protocol × server protocol,
every packet of at most `natConnRecvBufSize` bytes at `headroom.Front` of the buffer allocated there, every source
address, every `maxClientPacketSize`. The direct server packer is covered under `ServerP.ok`: with
`tunnelUDPTargetOnly` the tunnel address must be an IP address (finding F4 is the violation of this precondition). -/
theorem relay_safe_down (cu : ClientU) (sp : ServerP) (hc : cu.ok) (hsp : sp.ok) (session : Bool) (recvSize : Int)
    (src : AddrPort) (hsrc : src.wf) (b : Bytes) (n : Nat) (lim : Int)
    (hb : (b.length : Int) = (downlinkLayout session recvSize sp.proto cu.proto).bufSize)
    (hn : (n : Int) ≤ recvSize) :
    (relayDownlink cu sp src b (downlinkLayout session recvSize sp.proto cu.proto).front.toNat n lim).safe :=
  relay_down_safe cu sp hc hsp session recvSize src hsrc b n lim hb hn

/-- the precondition is needed: the direct server packer with `tunnelUDPTargetOnly` and a domain tunnel address
panics on the first reply (this is finding F4, owned by C06/C18; shown here only to justify `ServerP.ok`). -/
theorem direct_target_only_domain_panics (name : Bytes) (port : Nat) (b : Bytes) (src : AddrPort) (ps pl : Nat) (lim : Int) :
    directServerPack (.dom name port) true b src ps pl lim = .panic := rfl

/-- the abstract cryptography hypothesis `Crypto.Laws` is satisfiable (the driver's instance) -/
theorem crypto_laws_satisfiable : ∃ c : Crypto, c.Laws := ⟨toyCrypto, toyCrypto_laws⟩

/-! ## histories: one packer/unpacker pair, one reused buffer, state carried from packet to packet -/

/-- roundtrip_history_none / roundtrip_history_socks5: for every sequence of (address, payload, start offset)
through ONE client packer and ONE server unpacker (with its `DomainCache`, in any state) over ONE reused buffer
(in any initial state, each packet written over whatever the earlier ones left), every packet comes out as
(norm address, payload) or is refused — independently of all earlier packets (same-length domains, IP targets in
between, refused packets in between). `PlainDelivered` pairs the i-th output with the i-th input. -/
theorem roundtrip_history_plain (hdr3 : Bool) (limit : Int) (steps : List PlainStep) (c : DomainCache) (b : Bytes)
    (h : ∀ x ∈ steps, x.addr.wf ∧ x.ps + x.payload.length ≤ b.length) :
    PlainDelivered steps (plainHist hdr3 limit (c, b) steps) :=
  plainHist_spec hdr3 limit steps c b h

/-- roundtrip_history_ss2022 (any number of identity headers; per packet its own padding draw, timestamp, packet id) -/
theorem roundtrip_history_ss2022 (p : SSPair) (hp : p.good) (steps : List SSStep) (c : DomainCache) (b : Bytes)
    (h : ∀ x ∈ steps, x.good b.length) :
    SSDelivered steps (ssHist p (c, b) steps) :=
  ssHist_spec p hp steps c b h

/-- roundtrip_history_direct: for every sequence of targets through ONE direct client packer, with a resolver
that may answer or fail differently at every step (`res`), starting from the empty cache: every packet that is
packed leaves the payload window alone, respects the limit of its destination, and is addressed to its IP target,
or — for a domain target — to an address the resolver has given FOR THAT NAME at this or an earlier step
(never to another name's address, never to the zero address); `updateDomainIPCacheProg` is the source's. -/
theorem roundtrip_history_direct (mtu : Int) (steps : List DirectStep) (h : ∀ x ∈ steps, x.addr.wf) :
    DirectSound mtu [] steps (directHist updateDomainIPCacheProg mtu ⟨[], none⟩ steps) :=
  directHist_sound mtu steps [] ⟨[], none⟩ (Or.inl rfl) h

/-- roundtrip_history_none_down / _socks5_down: every sequence of replies through one server packer and one client
unpacker (which keeps no per-packet state: its server address is fixed) over one reused buffer -/
theorem roundtrip_history_plain_down (hdr3 : Bool) (limit : Int) (server pktSrc : AddrPort) (hfrom : mappedEqual pktSrc server = true)
    (steps : List PlainDownStep) (b : Bytes) (h : ∀ x ∈ steps, x.src.wf ∧ x.ps + x.payload.length ≤ b.length) :
    PlainDownDelivered steps (plainDownHist hdr3 limit server pktSrc b steps) :=
  plainDownHist_spec hdr3 limit server pktSrc hfrom steps b h

/-- roundtrip_history_ss2022_down: every sequence of replies of ONE server session (distinct packet ids, each with
its own padding draw and timestamp) through ONE `ShadowPacketClientUnpacker` with its per-session state (current /
old server session, the ids delivered in each, the one-minute rule), starting fresh or already following this
server session, over one reused buffer: every reply comes out as (norm source, payload) or is refused by the packer.
(`ssClientUnpackS` keeps the filters as sets of delivered ids; that the real filter refuses nothing newer than what
it has seen is C04's theorem.) -/
theorem roundtrip_history_ss2022_down (p : SSDownPair) (hp : p.good) (steps : List SSDownStep) (b : Bytes)
    (h : ∀ x ∈ steps, x.good b.length) (hnd : (steps.map (·.spid)).Nodup) :
    SSDownDelivered steps (ssDownHist p ({}, b) steps) :=
  ssDownHist_spec p hp steps [] {} b (Or.inl ⟨rfl, rfl, rfl⟩) h hnd (fun _ _ hm => by cases hm)

/-- the session rule the client unpacker applies: a second NEW server session less than a minute after the
previous change is refused (`ErrTooManyServerSessions`), not delivered -/
theorem client_unpacker_refuses_fast_session_change (c : Crypto) (block : Bytes) (keyOf : Bytes → Bytes) (csid : Bytes) (now t : Int)
    (st : CUState) (b : Bytes) (q n : Nat)
    (hsize : cUnpackTooSmall n = false) (h1 : sliceOk b q (cUnpackMessageHeaderStart q)) (h2 : sliceOk b (cUnpackMessageHeaderStart q) (q + n))
    (hcur : st.cur ≠ some ((c.dec block (sub b q 16)).take 8)) (hold : st.old ≠ some ((c.dec block (sub b q 16)).take 8))
    (hseen : st.oldLastSeen = some t) (hfast : now - t < 60) :
    ssClientUnpackS c block keyOf csid now st b q n = (st, .err .tooManySessions) := by
  unfold ssClientUnpackS
  simp [hsize, h1, h2, hcur, hold, hseen, hfast]

/-- why `cachedDomain` must be assigned only after a successful resolution: with the assignment moved before
`ResolveIP`, the history  a.test → 1.1.1.1 ; b.test → resolution fails ; b.test  packs the third packet without
error, addressed to a.test's address. -/
theorem resolver_cache_assigned_before_resolve_is_unsound :
    let prog : List ResOp := [.returnIfCached, .setDomain, .resolve, .returnOnErr, .setIP]
    let a : Bytes := [0x61]
    let b : Bytes := [0x62]
    (directHist prog 1500 ⟨[], none⟩
        [⟨.dom a 53, 0, 10, some (.v4 [1, 1, 1, 1])⟩, ⟨.dom b 53, 0, 10, none⟩, ⟨.dom b 53, 0, 10, none⟩]).map
      (fun o => match o with | .ok r => some r.dest | _ => none)
      = [some (some (.v4 [1, 1, 1, 1])), none, some (some (.v4 [1, 1, 1, 1]))] := by decide

/-- …whereas the source's order refuses the third packet as well -/
theorem resolver_cache_head_refuses :
    (directHist updateDomainIPCacheProg 1500 ⟨[], none⟩
        [⟨.dom [0x61] 53, 0, 10, some (.v4 [1, 1, 1, 1])⟩, ⟨.dom [0x62] 53, 0, 10, none⟩, ⟨.dom [0x62] 53, 0, 10, none⟩]).map
      (fun o => match o with | .ok r => some r.dest | _ => none)
      = [some (some (.v4 [1, 1, 1, 1])), none, none] := by decide

/-! ## the limit handed to the packer is the one of the current client address -/

/-- relay_limit_current: in both downlink loops of the session relay (`relayNatConnToServerConnGeneric`,
`…Sendmmsg`; their refresh blocks are `SSV.Gen.C05.sessionRefresh{Generic,Mmsg}`, translated from the source),
after the session was opened from any address and its client address info changed any number of times to any
addresses (IPv4, IPv4-mapped IPv6, IPv6, in any order), the address packets are sent to is the latest one and the
`maxClientPacketSize` passed to `PackInPlace` is `MaxPacketSizeForAddr(mtu, that address)`.
(The NAT relays key their entries by the client address and compute the limit once from it; the call-site
inventory in Gen pins that.) -/
theorem relay_limit_current (mtu : Int) (a0 : AddrPort) (events : List AddrPort) (prog : List LimStmt)
    (hprog : prog = sessionRefreshGeneric ∨ prog = sessionRefreshMmsg) :
    (limRun mtu prog a0 events).dest = (events.getLast?).getD a0 ∧
    (limRun mtu prog a0 events).limit = maxPacketSize mtu (limRun mtu prog a0 events).dest.ip := by
  have h : LimProgCurrent mtu prog := by
    rcases hprog with rfl | rfl
    · exact sessionRefreshGeneric_current mtu
    · exact sessionRefreshMmsg_current mtu
  rw [limRun_current mtu prog h a0 events]
  exact ⟨rfl, rfl⟩

/-- why the refresh must not be guarded by `Is4()`: with `if caip.addrPort.Addr().Is4() != clientAddrPort.Addr().Is4()`
around the recomputation, a client that moves from ::ffff:127.0.0.1 (dual-stack socket: `Is4()` false, IPv4 limit)
to ::1 keeps the IPv4 limit 1472 although 1452 is the limit of its address. -/
theorem relay_limit_is4_guard_is_stale :
    let prog : List LimStmt := [⟨true, .setLimitFromNew⟩, ⟨false, .setInfoPtr⟩, ⟨false, .setAddrFromNew⟩,
      ⟨false, .setPktinfoFromNew⟩, ⟨false, .setDestFromCur⟩]
    let st := limRun 1500 prog ⟨.v6 (v4in6Prefix ++ [127, 0, 0, 1]), 4000⟩ [⟨.v6 [0, 0, 0, 0, 0, 0, 0, 0, 0, 0, 0, 0, 0, 0, 0, 1], 4000⟩]
    st.limit = 1472 ∧ maxPacketSize 1500 st.dest.ip = 1452 := by decide

/-- the arithmetic core, front: needed front of the packer − actual header of the unpacker ≤ max(0, packerFront − unpackerFront) -/
theorem relay_front_arith (s c : Proto) (a : Addr) (ha : a.wf) (hdr : Int) (hhdr : clientNeed s a ≤ hdr) :
    clientNeed c a - hdr ≤ relayHeadroomFront (clientPackerHeadroom c).front (serverUnpackerHeadroom s).front :=
  relay_front_core s c a ha hdr hhdr (clientPackerHeadroom c) (Int.le_refl _)

/-! ## satisfiability of the hypotheses -/

example : (Addr.dom [0x61] 53).wf := by decide
example : (AddrPort.mk (.v6 (v4in6Prefix ++ [1, 2, 3, 4])) 53).wf := by decide
example : tsOk [0, 0, 0, 0, 0x66, 0xf0, 0xf0, 0xf0] 1727066352 = true := by decide
example : (SSPair.mk toyCrypto [1] [2] [] 1452 .padAll [0, 0, 0, 0, 0, 0, 0, 1]).good := ⟨toyCrypto_laws, rfl, by simp⟩
example : (SSStep.mk (.dom [0x61] 53) 40 [7, 7] 3 [0, 0, 0, 0, 0x66, 0xf0, 0xf0, 0xf0] [0, 0, 0, 0, 0, 0, 0, 2] 1727066352).good 100 :=
  ⟨by decide, by decide, rfl, rfl, by decide⟩
example : (SSDownPair.mk toyCrypto [1] (fun s => s) .padAll 1452 [0, 0, 0, 0, 0, 0, 0, 1] [0, 0, 0, 0, 0, 0, 0, 9]).good := ⟨toyCrypto_laws, rfl, rfl⟩
/-- the user-set hypothesis of the multi-user theorem is satisfiable with several users -/
example : let users : List (Bytes × Bytes) := [([1], [10]), ([2], [20]), ([3], [30])]
    ([2], [20]) ∈ users ∧ ∀ u ∈ users, u.1 = [2] → u.2 = [20] := by decide
example : (ServerU.direct (.dom [0x61] 53)).ok := ⟨by decide, by simp⟩
example : (ServerP.direct (.ip ⟨.v4 [1, 2, 3, 4], 53⟩) true).ok := fun _ => ⟨_, rfl⟩
example : (ClientU.ss toyCrypto [1] [2] [0, 0, 0, 0, 0, 0, 0, 0] 0).ok := toyCrypto_laws
/-- a successful pack exists (none, domain target, minimal front) -/
example : ∃ r, plainClientPack false 1472 (List.replicate 20 0) (.dom [0x61] 53) 5 10 = .ok r := ⟨_, rfl⟩

end SSV.C05

#print axioms SSV.C05.norm_id_ip
#print axioms SSV.C05.norm_id_v4
#print axioms SSV.C05.norm_id_dom
#print axioms SSV.C05.norm_mapped
#print axioms SSV.C05.addr_codec_roundtrip
#print axioms SSV.C05.addrport_codec_roundtrip
#print axioms SSV.C05.roundtrip_plain_up
#print axioms SSV.C05.roundtrip_plain_down
#print axioms SSV.C05.roundtrip_ss2022_up
#print axioms SSV.C05.roundtrip_ss2022_up_multiuser
#print axioms SSV.C05.roundtrip_ss2022_down
#print axioms SSV.C05.roundtrip_direct
#print axioms SSV.C05.max_packet_size_fits_mtu
#print axioms SSV.C05.mtu_bound_plain_client
#print axioms SSV.C05.mtu_bound_plain_server
#print axioms SSV.C05.mtu_bound_ss2022_client
#print axioms SSV.C05.mtu_bound_ss2022_server
#print axioms SSV.C05.ss2022_pack_safe
#print axioms SSV.C05.ss2022_pack_needs_rear
#print axioms SSV.C05.frame_ss2022_client
#print axioms SSV.C05.frame_ss2022_server
#print axioms SSV.C05.frame_plain_client
#print axioms SSV.C05.frame_plain_server
#print axioms SSV.C05.frame_refused_plain_client
#print axioms SSV.C05.frame_refused_plain_server
#print axioms SSV.C05.frame_refused_ss2022_pack
#print axioms SSV.C05.frame_refused_unpack_partial
#print axioms SSV.C05.relay_safe_up
#print axioms SSV.C05.relay_safe_down
#print axioms SSV.C05.direct_target_only_domain_panics
#print axioms SSV.C05.crypto_laws_satisfiable
#print axioms SSV.C05.roundtrip_history_plain
#print axioms SSV.C05.roundtrip_history_ss2022
#print axioms SSV.C05.roundtrip_history_direct
#print axioms SSV.C05.roundtrip_history_plain_down
#print axioms SSV.C05.roundtrip_history_ss2022_down
#print axioms SSV.C05.client_unpacker_refuses_fast_session_change
#print axioms SSV.C05.resolver_cache_assigned_before_resolve_is_unsound
#print axioms SSV.C05.resolver_cache_head_refuses
#print axioms SSV.C05.relay_limit_current
#print axioms SSV.C05.relay_limit_is4_guard_is_stale
#print axioms SSV.C05.relay_front_arith
