import SSV.Proofs.HttpProxyPairing
/-
C16 — Plain-HTTP proxying forwards messages intact minus hop-by-hop and proxy fields (PARTIAL: the filter, the 407
loop, and the two forwarding goroutines as a transition system are modelled and proved; net/http's parsing and
serialisation of messages are parameters of the model, tied by the correspondence check only).

Only the property theorems live here. Every `decide` below is a finite side condition on the facts regenerated from
httpproxy/server.go (SSV.Gen.C16): if the source changes so that one of them is false, this file no longer elaborates.
-/
namespace SSV.C16
open SSV.HttpProxy SSV.Gen.C16

/-- the fields the statement wants removed from every forwarded request: RFC 9110 §7.6.1 hop-by-hop fields,
    `Upgrade`, and the proxy credentials (canonical spelling) -/
def specForbidden : List Str :=
  [['C', 'o', 'n', 'n', 'e', 'c', 't', 'i', 'o', 'n'],
   ['P', 'r', 'o', 'x', 'y', '-', 'C', 'o', 'n', 'n', 'e', 'c', 't', 'i', 'o', 'n'],
   ['K', 'e', 'e', 'p', '-', 'A', 'l', 'i', 'v', 'e'],
   ['T', 'e'],
   ['T', 'r', 'a', 'n', 's', 'f', 'e', 'r', '-', 'E', 'n', 'c', 'o', 'd', 'i', 'n', 'g'],
   ['U', 'p', 'g', 'r', 'a', 'd', 'e'],
   ['P', 'r', 'o', 'x', 'y', '-', 'A', 'u', 't', 'h', 'o', 'r', 'i', 'z', 'a', 't', 'i', 'o', 'n'],
   ['P', 'r', 'o', 'x', 'y', '-', 'A', 'u', 't', 'h', 'e', 'n', 't', 'i', 'c', 'a', 't', 'e'],
   ['P', 'r', 'o', 'x', 'y', '-', 'A', 'u', 't', 'h', 'e', 'n', 't', 'i', 'c', 'a', 't', 'i', 'o', 'n', '-', 'I', 'n', 'f', 'o']]

def closeLit : Str := ['C', 'l', 'o', 's', 'e']

/-- names removed from the header of request `r`: nominated by its Connection values (except the kept options),
    listed in the filter, or deleted next to it -/
def reqForbidden (r : Req) (k : Str) : Bool :=
  forbidden (values r.header connLit) k || reqExtraDeleted.contains k

/-! ### facts of the current source (Gen) the theorems rest on -/

/-- the repairs of F16 (trailer filtered at end of body), F17 (no invented User-Agent) and of the close test
    applied to interim responses are present in the source -/
theorem gen_repairs_present :
    trailerFilteredAtEOF = true ∧ suppressDefaultUserAgent = true ∧ closeTestFirst = false := by decide

/-- every field named by the statement is deleted by the code -/
theorem gen_covers_spec :
    specForbidden.all (fun k => deletedFields.contains k || reqExtraDeleted.contains k) = true := by decide

/-- an option the loop keeps is `Close`, or a name that is deleted anyway -/
theorem gen_kept_harmless :
    keptOptions.all (fun o => o == closeLit || deletedFields.contains o || reqExtraDeleted.contains o) = true := by decide

/-- order of the steps: filter and deletions before the announcement, the announcement before the write, the host and
    CONNECT tests before the next round; authentication is tested before the loop is left; the response is filtered
    before it is written; the queue holds 16 requests -/
theorem gen_step_order :
    fwdSteps.idxOf "filter" < fwdSteps.idxOf "announce" ∧ fwdSteps.idxOf "delete" < fwdSteps.idxOf "announce" ∧
    fwdSteps.idxOf "announce" < fwdSteps.idxOf "write" ∧ fwdSteps.idxOf "write" < fwdSteps.idxOf "read" ∧
    fwdSteps.idxOf "read" < fwdSteps.idxOf "checkConnect" ∧ fwdSteps.idxOf "checkConnect" < fwdSteps.length ∧
    fwdSteps.idxOf "checkHost" < fwdSteps.length ∧
    handleSteps = ["read", "readErr", "noAuthBreak", "check", "okBreak", "count", "send407", "closeReturn"] ∧
    respSteps.idxOf "filter" < respSteps.idxOf "write" ∧ respSteps.idxOf "redirectRule" < respSteps.idxOf "write" ∧
    queueCap = 16 ∧ canned = [(200, false), (400, true), (407, false), (502, true)] := by decide

/-! ### filter_exact -/

/-- The forwarded request: its header is the original one minus exactly the removed names (values, order and all
    other fields untouched, nothing added), the same for the trailer (net/http forwards received trailer fields only
    if at least one was announced), method and host unchanged. -/
theorem filter_exact (r : Req) :
    (filterReq r).header = r.header.filter (fun f => !reqForbidden r f.1) ∧
    (filterReq r).trailer =
      (if r.announced.isEmpty then [] else r.trailer.filter (fun f => !forbidden (values r.header connLit) f.1)) ∧
    (filterReq r).method = r.method ∧ (filterReq r).host = r.host ∧ (filterReq r).close = r.close := by
  obtain ⟨hT, hU, _⟩ := gen_repairs_present
  refine ⟨?_, ?_, filterReq_method r, filterReq_host r, filterReq_close r⟩
  · simp only [filterReq, hU, Bool.not_true, Bool.false_and, Bool.false_eq_true, if_false]
    rw [foldl_del, removeHopByHop_filter, List.filter_filter]
    apply List.filter_congr
    intro f _
    simp [reqForbidden, Bool.and_comm]
  · simp only [filterReq, fwdTrailer, hT, if_true]
    split
    · rfl
    · rw [removeHopByHop_filter]

/-- Nothing the statement forbids reaches the origin: a forwarded field was sent by the client, is not one of the
    named hop-by-hop / Upgrade / credential fields, and is not nominated by a Connection option other than `close`. -/
theorem forbidden_never_forwarded (r : Req) (f : Field) (hf : f ∈ (filterReq r).header) :
    f ∈ r.header ∧ f.1 ∉ specForbidden ∧
    ∀ o ∈ options (values r.header connLit), o ≠ closeLit → f.1 ≠ o := by
  rw [(filter_exact r).1, List.mem_filter] at hf
  obtain ⟨hmem, hnf⟩ := hf
  have hnf' : reqForbidden r f.1 = false := by simpa using hnf
  simp only [reqForbidden, forbidden, Bool.or_eq_false_iff] at hnf'
  obtain ⟨⟨hnom, hdel⟩, hext⟩ := hnf'
  have hd : f.1 ∉ deletedFields := by simpa using hdel
  have he : f.1 ∉ reqExtraDeleted := by simpa using hext
  refine ⟨hmem, ?_, ?_⟩
  · intro hs
    have := (List.all_eq_true.mp gen_covers_spec) f.1 hs
    simp only [Bool.or_eq_true, List.contains_iff_mem] at this
    rcases this with h | h
    · exact hd h
    · exact he h
  · intro o ho hoc heq
    subst heq
    by_cases hk : keptOptions.contains f.1 = true
    · have := (List.all_eq_true.mp gen_kept_harmless) f.1 (by simpa using hk)
      simp only [Bool.or_eq_true, List.contains_iff_mem, beq_iff_eq] at this
      rcases this with (h | h) | h
      · exact hoc h
      · exact hd h
      · exact he h
    · have hk' : keptOptions.contains f.1 = false := by simpa using hk
      have : nominatedBy (options (values r.header connLit)) f.1 = true := by
        simp only [nominatedBy, List.any_eq_true]
        exact ⟨f.1, ho, by rw [hk']; simp⟩
      simp [this] at hnom

/-- The same for the trailer of a forwarded request (this is F16's repair: true only with the end-of-body filter). -/
theorem forbidden_trailer_never_forwarded (r : Req) (f : Field) (hf : f ∈ (filterReq r).trailer) :
    f ∈ r.trailer ∧ deletedFields.contains f.1 = false ∧
    ∀ o ∈ options (values r.header connLit), keptOptions.contains o = false → f.1 ≠ o := by
  rw [(filter_exact r).2.1] at hf
  split at hf
  · simp at hf
  · rw [List.mem_filter] at hf
    obtain ⟨hmem, hnf⟩ := hf
    have hnf' : forbidden (values r.header connLit) f.1 = false := by simpa using hnf
    simp only [forbidden, Bool.or_eq_false_iff] at hnf'
    refine ⟨hmem, hnf'.2, ?_⟩
    intro o ho hk heq
    subst heq
    have : nominatedBy (options (values r.header connLit)) f.1 = true := by
      simp only [nominatedBy, List.any_eq_true]
      exact ⟨f.1, ho, by rw [hk]; simp⟩
    simp [this] at hnf'

/-- Every other field arrives: an end-to-end field of the client is in the forwarded header. -/
theorem end_to_end_kept (r : Req) (f : Field) (hf : f ∈ r.header) (he : reqForbidden r f.1 = false) :
    f ∈ (filterReq r).header := by
  rw [(filter_exact r).1, List.mem_filter]
  exact ⟨hf, by simp [he]⟩

/-! ### nothing_before_auth -/

/-- With Basic authentication enabled, the request `ServerHandle` hands over for forwarding carries a valid token and
    is not CONNECT; every request before it failed the check, was answered with 407 (`k` of them) and kept the
    connection open. Any other outcome of `ServerHandle` creates no forwarding state at all (see `Handled`). -/
theorem nothing_before_auth (toks : List Str) (msgs : List ClientMsg) (k : Nat) (first : Req) (rest : List ClientMsg)
    (h : serverHandle (some toks) msgs 0 = .forward k first rest) :
    basicAuth toks first.header = true ∧ first.method ≠ connectLit ∧
    ∃ pre ok, msgs = pre ++ ClientMsg.req first ok :: rest ∧ k = pre.length ∧
      ∀ m ∈ pre, ∃ r ok', m = ClientMsg.req r ok' ∧ basicAuth toks r.header = false ∧ r.close = false := by
  obtain ⟨h1, h2, pre, ok, h3, h4, h5⟩ := serverHandle_forward_authed toks msgs 0 k first rest h
  exact ⟨h1, h2, pre, ok, h3, by omega, h5⟩

/-- The test that switches authentication off is `usernameByToken == nil` (not a test of the map's length): a server
    configured with Basic authentication and an EMPTY user list keeps the gate closed (`auth = some []` in the model). -/
theorem gen_auth_gate : authDisabledTest = "usernameByToken == nil" := by decide

/-- Authentication enabled with no user at all: whatever the client sends (no, malformed or well-formed credentials),
    `ServerHandle` never hands a request over for forwarding and never grants a tunnel. -/
theorem nothing_before_auth_no_users (msgs : List ClientMsg) (n : Nat) :
    (∀ k first rest, serverHandle (some []) msgs n ≠ .forward k first rest) ∧
    (∀ k r, serverHandle (some []) msgs n ≠ .connect k r) := by
  induction msgs generalizing n with
  | nil => simp [serverHandle]
  | cons m ms ih =>
    cases m with
    | garbage => simp [serverHandle]
    | req r ok =>
      simp only [serverHandle, authOk, basicAuth_nil, Bool.not_false, if_true]
      by_cases hc : r.close = true
      · simp [hc]
      · simp only [hc, Bool.false_eq_true, if_false]
        exact ih (n + 1)

/-! ### host_pinned -/

/-- In every reachable state of the forwarding system (any interleaving of the two goroutines, any behaviour of
    the origin), every request written to the origin has the first request's host and is not CONNECT. -/
theorem host_pinned (auth : Option (List Str)) (msgs : List ClientMsg) (k : Nat) (first : Req) (rest : List ClientMsg)
    (h : serverHandle auth msgs 0 = .forward k first rest) (s : St) (hr : Reachable first rest s) :
    ∀ r ∈ s.originIn, r.host = first.host ∧ r.method ≠ connectLit := by
  have hi := inv_reachable (serverHandle_forward_not_connect auth msgs 0 k first rest h) hr
  intro r hr'
  exact hi.sentOk r (hi.originSub r hr')

/-- A request for another host, a CONNECT, or a malformed request is never accepted ... -/
theorem violating_request_refused (fh : Str) (m : ClientMsg) :
    accepts fh m = none ↔
      (m = ClientMsg.garbage ∨ ∃ r ok, m = ClientMsg.req r ok ∧ (r.method = connectLit ∨ r.host ≠ fh)) := by
  cases m with
  | garbage => simp [accepts]
  | req q ok =>
    simp only [accepts]
    by_cases hc : q.method = connectLit
    · simp [hc]
    · by_cases hh : q.host = fh
      · simp [hc, hh]
      · simp [hc, hh]

/-- ... and ends the request forwarder instead: from a state that is about to read such a request, the only step of
    the request forwarder leads to `done`, writes nothing to the origin and closes the queue. -/
theorem violating_request_ends (s t : St) (m : ClientMsg) (rest : List ClientMsg) (hs : Step s t)
    (hp : s.fphase = .read) (hc : s.clientIn = m :: rest) (ha : accepts s.fixedHost m = none)
    (hf : t.fphase ≠ s.fphase) : t.fphase = .done ∧ t.originIn = s.originIn ∧ t.chClosed = true := by
  cases hs <;> simp_all

/-! ### close_rules, queue bound -/

/-- The connection ends after a response exactly when the response is final and the request carried `close`, the
    response carried `close`, its body is delimited by close, or the Location rule applies. An interim response
    never ends it. -/
theorem close_rules (p : Resp) (q : Req) :
    (filterResp p q).2 =
      (isFinal p.status && (q.close || p.connClose || p.bodyEOF || redirectClose (ingestResp p) q.host)) := by
  have hc := gen_repairs_present.2.2
  simp only [filterResp, hc, Bool.false_or]
  cases h : p.connClose <;> simp [ingestResp, respClose, h, Bool.and_comm, Bool.or_assoc]

/-- After such a response (or an error) the response forwarder is done, and once it is done no step writes to the
    client any more; the queue of announced requests never exceeds its capacity. -/
theorem closed_stays_closed (first : Req) (rest : List ClientMsg) (hm : first.method ≠ connectLit) (s t : St)
    (hr : Reachable first rest s) (hs : Step s t) :
    (s.respDone = true → s.rphase = .done) ∧ (s.rphase = .done → t.rphase = .done ∧ t.clientOut = s.clientOut) ∧
    s.queue.length ≤ queueCap := by
  have hi := inv_reachable hm hr
  exact ⟨hi.doneAbs, done_absorbing hs, hi.qcap⟩

/-! ### fifo_pairing -/

/-- FIFO pairing over the traces of the forwarding system. In every reachable state (any interleaving of the request
    forwarder, the response forwarder and the origin, any responses, solicited or not), for the i-th response
    written to the client, paired by the code with request `q` taken as the `idx`-th request from the queue:
    * `idx` is the number of FINAL responses written before it: the k-th final response is paired with request
      number k, and interim responses stay with the request of the final response that follows them;
    * request number `idx` of the client's forwardable sequence (the first request, then the following ones up to the
      first CONNECT / other host / malformed request, each after filtering) is `q`;
    * if a request was written to the origin at position `idx`, it is `q`. -/
theorem fifo_pairing (first : Req) (rest : List ClientMsg) (s : St) (hr : Reachable first rest s)
    (i : Nat) (h : i < s.clientOut.length) :
    (s.clientOut[i]).2.2 = countFinals (s.clientOut.take i) ∧
    (filterReq first :: forwardList first.host rest)[(s.clientOut[i]).2.2]? = some (s.clientOut[i]).2.1 ∧
    ∀ r, s.originIn[(s.clientOut[i]).2.2]? = some r → r = (s.clientOut[i]).2.1 := by
  have hp := pinv_reachable hr
  have hf := finv_reachable hr
  obtain ⟨h1, h2⟩ := hp.paired i h
  refine ⟨h1, prefix_getElem? hf.pre h2, ?_⟩
  intro r hr'
  have := prefix_getElem? hp.origSent.1 hr'
  rw [h2] at this
  exact (Option.some.inj this).symm

/-- The same pairing in the sequential reading used by the correspondence check (`respond`: the responses of the
    origin consumed against the announced requests): the final responses are paired, in order, with a prefix of the
    requests. -/
theorem fifo_pairing_sequential (qs : List Req) (ps : List Resp) : finalsOf (respond qs ps) <+: qs :=
  respond_fifo qs ps

/-! ### the hypotheses are satisfiable -/

def exReq : Req :=
  { method := "GET".toList, host := "example.com".toList, close := false,
    header := [("Connection".toList, "x-foo, close".toList), ("X-Foo".toList, "1".toList), ("Accept".toList, "*/*".toList),
               ("Proxy-Authorization".toList, "Basic aGVsbG86d29ybGQ=".toList), ("Te".toList, "trailers".toList)],
    announced := ["X-Foo".toList], trailer := [("X-Foo".toList, "s".toList), ("X-Sum".toList, "9".toList)] }

example : (filterReq exReq).header = [("Accept".toList, "*/*".toList)] := by decide
example : (filterReq exReq).trailer = [("X-Sum".toList, "9".toList)] := by decide
example : serverHandle (some ["aGVsbG86d29ybGQ=".toList])
    [.req { exReq with header := [] } true, .req exReq true] 0 = .forward 1 exReq [] := by decide
-- the empty token map: well-formed credentials of a user that does not exist are answered with 407
example : serverHandle (some []) [.req exReq true, .req { exReq with method := connectLit } true] 0 = .readErr 2 := by decide
example : serverHandle none [.req exReq true] 0 = .forward 0 exReq [] := by decide
example : ∃ s, Reachable exReq [] s ∧ s.originIn = [filterReq exReq] :=
  ⟨_, .step (.step .init (.fAnnounce _ [] (filterReq exReq) rfl rfl (by decide))) (.fWrite _ [] (filterReq exReq) rfl rfl), rfl⟩
example : ∃ s, Reachable exReq [] s ∧ s.clientOut.length = 1 :=
  ⟨_, .step (.step (.step (.step (.step .init (.fAnnounce _ [] (filterReq exReq) rfl rfl (by decide)))
      (.origin _ { status := 200, connClose := false, bodyEOF := false, header := [], announced := [], trailer := [], locHost := none }))
      (.rPeek _ rfl (by simp))) (.rTake _ (filterReq exReq) [] rfl rfl)) (.rRead _ _ [] (filterReq exReq) rfl rfl rfl), rfl⟩
example : accepts "example.com".toList (.req { exReq with host := "EXAMPLE.com".toList } true) = none := by decide

end SSV.C16

#print axioms SSV.C16.gen_repairs_present
#print axioms SSV.C16.gen_covers_spec
#print axioms SSV.C16.gen_kept_harmless
#print axioms SSV.C16.gen_step_order
#print axioms SSV.C16.filter_exact
#print axioms SSV.C16.forbidden_never_forwarded
#print axioms SSV.C16.forbidden_trailer_never_forwarded
#print axioms SSV.C16.end_to_end_kept
#print axioms SSV.C16.nothing_before_auth
#print axioms SSV.C16.gen_auth_gate
#print axioms SSV.C16.nothing_before_auth_no_users
#print axioms SSV.C16.host_pinned
#print axioms SSV.C16.violating_request_refused
#print axioms SSV.C16.violating_request_ends
#print axioms SSV.C16.close_rules
#print axioms SSV.C16.closed_stays_closed
#print axioms SSV.C16.fifo_pairing
#print axioms SSV.C16.fifo_pairing_sequential
