import SSV.Model.Handshake
/-
C07 — property theorems (statements only live here; helper lemmas in SSV/Proofs/Handshake*.lean).
-/
namespace SSV.C07
open SSV SSV.HS SSV.Gen

/-- RFC 1928 §6 reading of "the outcome of the onward connection is reported with the protocol's
corresponding reply", written against the *names* of the dial result codes. -/
def specReply (code : Nat) : Nat :=
  if code = C07.DialResultCodeSuccess then C07.ReplySucceeded
  else if code = C07.DialResultCodeEACCES then C07.ReplyConnectionNotAllowedByRuleset
  else if code = C07.DialResultCodeENETDOWN ∨ code = C07.DialResultCodeENETUNREACH ∨ code = C07.DialResultCodeENETRESET then C07.ReplyNetworkUnreachable
  else if code = C07.DialResultCodeEHOSTDOWN ∨ code = C07.DialResultCodeEHOSTUNREACH then C07.ReplyHostUnreachable
  else if code = C07.DialResultCodeECONNREFUSED then C07.ReplyConnectionRefused
  else C07.ReplyGeneralSocksServerFailure

set_option maxRecDepth 16384 in
/-- `reply_table`: for every dial result code the regenerated `ReplyFromDialResultCode` table gives the
RFC reply; in particular "succeeded" is reported iff the dial succeeded. -/
theorem reply_table : ∀ code, code < 256 →
    replyFromDialResultCode code = specReply code ∧
    (replyFromDialResultCode code = C07.ReplySucceeded ↔ code = C07.DialResultCodeSuccess) := by
  decide

example : replyFromDialResultCode C07.DialResultCodeECONNREFUSED = 5 := by decide

end SSV.C07

#print axioms SSV.C07.reply_table
