import SSV.Proofs.Handshake
import SSV.Proofs.HandshakeHttp
import SSV.Proofs.HandshakeText
/-
C07 — property theorems (statements only live here; helper lemmas in SSV/Proofs/Handshake*.lean).
-/
namespace SSV.C07
open SSV SSV.HS SSV.Gen

/-- RFC 1928 §6 reading of "the outcome of the onward connection is reported with the protocol's
corresponding reply", written against the *names* of the dial result codes. -/
def specReply (code : Nat) : Nat :=
  if code = C07.DialResultCodeSuccess then C07.ReplySucceeded
  else if code = C07.DialResultCodeEACCES then C07.ReplyConnectionNotAllowedByRuleset
  else if code = C07.DialResultCodeENETDOWN ∨ code = C07.DialResultCodeENETUNREACH ∨ code = C07.DialResultCodeENETRESET then C07.ReplyNetworkUnreachable
  else if code = C07.DialResultCodeEHOSTDOWN ∨ code = C07.DialResultCodeEHOSTUNREACH then C07.ReplyHostUnreachable
  else if code = C07.DialResultCodeECONNREFUSED then C07.ReplyConnectionRefused
  else C07.ReplyGeneralSocksServerFailure

set_option maxRecDepth 16384 in
/-- `reply_table`: for every dial result code the regenerated `ReplyFromDialResultCode` table gives the
RFC reply; in particular "succeeded" is reported iff the dial succeeded. -/
theorem reply_table : ∀ code, code < 256 →
    replyFromDialResultCode code = specReply code ∧
    (replyFromDialResultCode code = C07.ReplySucceeded ↔ code = C07.DialResultCodeSuccess) := by
  decide

example : replyFromDialResultCode C07.DialResultCodeECONNREFUSED = 5 := by decide

/-- What a SOCKS5 client puts on the wire (RFC 1928/1929): greeting with an arbitrary method list,
optional user/password message, request. -/
def s5ClientBytes (methods : Bytes) (cred : Option (Bytes × Bytes)) (cmd : UInt8) (a : Addr) : Bytes :=
  [cVersion, u8 methods.length] ++ methods ++
  (match cred with
   | some (u, p) => authMsg u p
   | none => []) ++
  [cVersion, cmd, 0] ++ encodeAddr a

/-- `socks5_faithful` (user/password mode): for every address, command, configured credential pair, method list
offering user/password, every early data and EVERY fragmentation `cs` of the client's bytes, the server
extracts exactly the client's (address up to the documented IPv4-mapped conversion, command, user), writes
exactly the negotiated answers, and leaves exactly the early data unread. -/
theorem socks5_faithful (users : List (Bytes × Bytes)) (tcp udp : Bool) (loc : Bool × Bytes × Nat)
    (methods user pass early : Bytes) (cmd : UInt8) (a : Addr)
    (hm1 : 1 ≤ methods.length) (hm2 : methods.length ≤ 255) (hoff : mUserPass ∈ methods)
    (hu1 : 1 ≤ user.length) (hu2 : user.length ≤ 255) (hp1 : 1 ≤ pass.length) (hp2 : pass.length ≤ 255)
    (ha : a.wf = true)
    (hcfg : lookupUser users user = some (user, pass))
    (cs : Chunks) (hcs : cs.flatten = s5ClientBytes methods (some (user, pass)) cmd a ++ early) :
    ∃ inp' b', inp'.flatten = early ∧ (cmd = cmdConnect ∧ tcp = true → b'.length = C07.scratchLen) ∧
      serverAcceptUserPass users tcp udp loc { inp := cs } =
        if cmd = cmdConnect ∧ tcp = true then
          (.ok (user, .pending a.norm, b'), (⟨inp', [cVersion, mUserPass, cAuthVersion, 0], []⟩ : St))
        else if cmd = cmdUDP ∧ udp = true then
          (.ok (user, .udpDone a.norm, b'), (⟨inp',
            [cVersion, mUserPass, cAuthVersion, 0] ++ ([cVersion, repSucceeded, 0] ++ encodeIPPort loc.1 loc.2.1 loc.2.2), []⟩ : St))
        else
          (.ok (user, .unsupported a.norm cmd, b'), (⟨inp',
            [cVersion, mUserPass, cAuthVersion, 0] ++ [cVersion, repCmdNotSupported, 0, atypV4, 0, 0, 0, 0, 0, 0], []⟩ : St)) := by
  obtain ⟨hnw, hnz⟩ := norm_wf a ha
  match methods, hm1 with
  | m0 :: ms, _ =>
  match user, hu1 with
  | u0 :: us, _ =>
  simp at hm2 hu2
  have hnb : (newBuf).length = C07.scratchLen := by simp [newBuf]
  -- stage 1
  obtain ⟨i1, hi1, h1⟩ := methodSelection_spec newBuf hnb mUserPass m0 ms
    (authMsg (u0 :: us) pass ++ [cVersion, cmd, 0] ++ encodeAddr a ++ early) (by omega) { inp := cs }
    (by simp [hcs, s5ClientBytes])
  have hc : (m0 :: ms).contains mUserPass = true := by simpa using hoff
  rw [if_pos hc] at h1
  obtain ⟨b1, h1, hb1⟩ := h1
  -- stage 2
  obtain ⟨i2, hi2, h2⟩ := userPass_spec users b1 (by rw [hb1, hnb]) u0 us pass
    ([cVersion, cmd, 0] ++ encodeAddr a ++ early) (by omega) hp1 hp2
    { inp := i1, out := [cVersion, mUserPass] } (by simp [hi1, authMsg])
  rw [hcfg] at h2
  simp only [if_true] at h2
  obtain ⟨b2, h2, hb2⟩ := h2
  -- stage 3
  obtain ⟨i3, hi3, h3⟩ := handleRequest_spec tcp udp loc b2 (by rw [hb2, hb1, hnb]) cmd 0 a.norm hnw hnz early
    { inp := i2, out := [cVersion, mUserPass] ++ [cAuthVersion, 0] } (by simp [hi2, encodeAddr_norm a ha])
  have hlen : ∀ b3 : Bytes, b3.length = b2.length → b3.length = C07.scratchLen := by
    intro b3 h; rw [h, hb2, hb1, hnb]
  simp only [List.nil_append] at h1
  have hrun : ∀ r, handleRequest tcp udp loc b2 { inp := i2, out := [cVersion, mUserPass] ++ [cAuthVersion, 0] } = r →
      serverAcceptUserPass users tcp udp loc { inp := cs } =
        (match r with
          | (.ok x, s') => (.ok (u0 :: us, x.1, x.2), s')
          | (.error e, s') => (.error e, s')) := by
    intro r hr
    unfold serverAcceptUserPass
    simp only [bind_def, h1, h2, hr]
    rcases r with ⟨_ | _, _⟩ <;> rfl
  by_cases c1 : cmd = cmdConnect ∧ tcp = true
  · rw [if_pos c1] at h3
    obtain ⟨b3, h3, hb3⟩ := h3
    refine ⟨i3, b3, hi3, fun _ => hlen b3 hb3, ?_⟩
    rw [hrun _ h3]; simp [c1]
  · rw [if_neg c1] at h3
    by_cases c2 : cmd = cmdUDP ∧ udp = true
    · rw [if_pos c2] at h3
      obtain ⟨b3, h3⟩ := h3
      refine ⟨i3, b3, hi3, fun h => absurd h c1, ?_⟩
      have hne : ¬ (cmdUDP = cmdConnect) := by decide
      rw [hrun _ h3]; simp [c2, hne]
    · rw [if_neg c2] at h3
      obtain ⟨b3, h3⟩ := h3
      refine ⟨i3, b3, hi3, fun h => absurd h c1, ?_⟩
      rw [hrun _ h3]; simp [c1, c2]


/-- `socks5_faithful`, no-authentication mode. -/
theorem socks5_faithful_noauth (tcp udp : Bool) (loc : Bool × Bytes × Nat)
    (methods early : Bytes) (cmd : UInt8) (a : Addr)
    (hm1 : 1 ≤ methods.length) (hm2 : methods.length ≤ 255) (hoff : mNoAuth ∈ methods)
    (ha : a.wf = true)
    (cs : Chunks) (hcs : cs.flatten = s5ClientBytes methods none cmd a ++ early) :
    ∃ inp' b', inp'.flatten = early ∧ (cmd = cmdConnect ∧ tcp = true → b'.length = C07.scratchLen) ∧
      serverAccept tcp udp loc { inp := cs } =
        if cmd = cmdConnect ∧ tcp = true then
          (.ok (.pending a.norm, b'), (⟨inp', [cVersion, mNoAuth], []⟩ : St))
        else if cmd = cmdUDP ∧ udp = true then
          (.ok (.udpDone a.norm, b'), (⟨inp',
            [cVersion, mNoAuth] ++ ([cVersion, repSucceeded, 0] ++ encodeIPPort loc.1 loc.2.1 loc.2.2), []⟩ : St))
        else
          (.ok (.unsupported a.norm cmd, b'), (⟨inp',
            [cVersion, mNoAuth] ++ [cVersion, repCmdNotSupported, 0, atypV4, 0, 0, 0, 0, 0, 0], []⟩ : St)) := by
  obtain ⟨hnw, hnz⟩ := norm_wf a ha
  match methods, hm1 with
  | m0 :: ms, _ =>
  simp at hm2
  have hnb : (newBuf).length = C07.scratchLen := by simp [newBuf]
  obtain ⟨i1, hi1, h1⟩ := methodSelection_spec newBuf hnb mNoAuth m0 ms
    ([cVersion, cmd, 0] ++ encodeAddr a ++ early) (by omega) { inp := cs }
    (by simp [hcs, s5ClientBytes])
  have hc : (m0 :: ms).contains mNoAuth = true := by simpa using hoff
  rw [if_pos hc] at h1
  obtain ⟨b1, h1, hb1⟩ := h1
  simp only [List.nil_append] at h1
  obtain ⟨i3, hi3, h3⟩ := handleRequest_spec tcp udp loc b1 (by rw [hb1, hnb]) cmd 0 a.norm hnw hnz early
    { inp := i1, out := [cVersion, mNoAuth] } (by simp [hi1, encodeAddr_norm a ha])
  have hrun : ∀ r, handleRequest tcp udp loc b1 { inp := i1, out := [cVersion, mNoAuth] } = r →
      serverAccept tcp udp loc { inp := cs } = r := by
    intro r hr
    unfold serverAccept
    simp only [bind_def, h1, hr]
  by_cases c1 : cmd = cmdConnect ∧ tcp = true
  · rw [if_pos c1] at h3
    obtain ⟨b3, h3, hb3⟩ := h3
    refine ⟨i3, b3, hi3, fun _ => by rw [hb3, hb1, hnb], ?_⟩
    rw [hrun _ h3]; simp [c1]
  · rw [if_neg c1] at h3
    by_cases c2 : cmd = cmdUDP ∧ udp = true
    · rw [if_pos c2] at h3
      obtain ⟨b3, h3⟩ := h3
      refine ⟨i3, b3, hi3, fun h => absurd h c1, ?_⟩
      have hne : ¬ (cmdUDP = cmdConnect) := by decide
      rw [hrun _ h3]; simp [c2, hne]
    · rw [if_neg c2] at h3
      obtain ⟨b3, h3⟩ := h3
      refine ⟨i3, b3, hi3, fun h => absurd h c1, ?_⟩
      rw [hrun _ h3]; simp [c1, c2]

/-- with authentication enabled nothing is honoured unless the presented pair is the configured one -/
theorem socks5_auth_gate (users : List (Bytes × Bytes)) (tcp udp : Bool) (loc : Bool × Bytes × Nat)
    (methods user pass tail : Bytes)
    (hm1 : 1 ≤ methods.length) (hm2 : methods.length ≤ 255) (hoff : mUserPass ∈ methods)
    (hu1 : 1 ≤ user.length) (hu2 : user.length ≤ 255) (hp1 : 1 ≤ pass.length) (hp2 : pass.length ≤ 255)
    (hbad : ∀ u pw, lookupUser users user = some (u, pw) → pass ≠ pw)
    (cs : Chunks) (hcs : cs.flatten = [cVersion, u8 methods.length] ++ methods ++ authMsg user pass ++ tail) :
    ∃ inp', serverAcceptUserPass users tcp udp loc { inp := cs } =
      (.error .badCreds, (⟨inp', [cVersion, mUserPass, cAuthVersion, 1], []⟩ : St)) := by
  match methods, hm1 with
  | m0 :: ms, _ =>
  match user, hu1 with
  | u0 :: us, _ =>
  simp at hm2 hu2
  have hnb : (newBuf).length = C07.scratchLen := by simp [newBuf]
  obtain ⟨i1, hi1, h1⟩ := methodSelection_spec newBuf hnb mUserPass m0 ms
    (authMsg (u0 :: us) pass ++ tail) (by omega) { inp := cs } (by simp [hcs])
  have hc : (m0 :: ms).contains mUserPass = true := by simpa using hoff
  rw [if_pos hc] at h1
  obtain ⟨b1, h1, hb1⟩ := h1
  simp only [List.nil_append] at h1
  obtain ⟨i2, hi2, h2⟩ := userPass_spec users b1 (by rw [hb1, hnb]) u0 us pass tail (by omega) hp1 hp2
    { inp := i1, out := [cVersion, mUserPass] } (by simp [hi1, authMsg])
  refine ⟨i2, ?_⟩
  unfold serverAcceptUserPass
  cases hl : lookupUser users (u0 :: us) with
  | none =>
    rw [hl] at h2
    simp only [bind_def, h1, h2]; simp
  | some up =>
    obtain ⟨u, pw⟩ := up
    rw [hl] at h2
    have := hbad u pw hl
    simp only [this, if_false] at h2
    simp only [bind_def, h1, h2]; simp

/-- Proceed() writes the success reply and nothing else; the transport is untouched. -/
theorem proceed_reply (b : Bytes) (hb : b.length = C07.scratchLen) (s : St) :
    proceed b s = (.ok (), { s with out := s.out ++ [cVersion, repSucceeded, 0, atypV4, 0, 0, 0, 0, 0, 0] }) := by
  have hb' : b.length = 262 := hb
  unfold proceed replyWithStatus
  simp only [bind_def]
  rw [need_of _ (by simp [hb', C07.IPv4AddrLen])]
  simp [C07.IPv4AddrLen, List.replicate]

/-- `abort_reports_dial_result`: for EVERY `conn.DialResult` — every code and whatever `Err` is (nil, a matching
or non-matching errno, wrapped or not, a resolver error, the router's rejection, an opaque error) —
Abort writes exactly the reply the regenerated table gives for `dr.code`, hence (by `reply_table`) the RFC reply
of the outcome. Tied to the source by the fingerprint `Gen.C07.abortUsesCode` (the argument of
ReplyFromDialResultCode in serverPendingConn.Abort is `dialResult.Code`). -/
theorem abort_reports_dial_result (b : Bytes) (hb : b.length = C07.scratchLen) (dr : DialResult) (s : St) :
    C07.abortUsesCode = true ∧
    abort b dr s = (.ok (), { s with out := s.out ++
      [cVersion, u8 (replyFromDialResultCode dr.code), 0, atypV4, 0, 0, 0, 0, 0, 0] }) ∧
    (dr.code < 256 → replyFromDialResultCode dr.code = specReply dr.code) := by
  refine ⟨by decide, ?_, fun h => (reply_table dr.code h).1⟩
  have hb' : b.length = 262 := hb
  unfold abort replyWithStatus
  simp only [bind_def]
  rw [need_of _ (by simp [hb', C07.IPv4AddrLen])]
  simp [C07.IPv4AddrLen, List.replicate]

/-- HTTP CONNECT: a failed dial is reported as 502 for every DialResult. -/
theorem abortH_reports_502 (dr : DialResult) (s : St) :
    abortH dr s = (.ok (), { s with out := s.out ++ C07.status502 }) := rfl

example : (DialResult.mk 13 .rejected).code < 256 := by decide

/-- Shadowsocks none: the server extracts the client's address and the tunnel starts with payload ++ later bytes. -/
theorem none_faithful (a : Addr) (ha : a.wf = true) (payload early : Bytes) (cs : Chunks)
    (hcs : cs.flatten = noneClient a payload ++ early) :
    ∃ inp', inp'.flatten = payload ++ early ∧
      noneServer { inp := cs } = (.ok a.norm, (⟨inp', [], []⟩ : St)) := by
  obtain ⟨hnw, hnz⟩ := norm_wf a ha
  obtain ⟨t, x, tail, hsh, hsel, hk⟩ := wire_shape a.norm hnw hnz
  have hdec : decodeAddr (t :: x :: tail) = .ok a.norm := by rw [← hsh]; exact decode_wire _ hnw hnz
  have hs : cs.flatten = t :: x :: (tail ++ (payload ++ early)) := by
    rw [hcs, noneClient, encodeAddr_norm a ha, hsh]; simp
  have hf : (dropC 2 cs).flatten = tail ++ (payload ++ early) := by rw [dropC_flatten, hs]; simp
  refine ⟨dropC tail.length (dropC 2 cs), by rw [dropC_flatten, hf]; simp, ?_⟩
  unfold noneServer
  simp only [bind_def]
  rw [readFullM_eq 2 _ (by simp [hs])]
  simp only [hs]
  simp only [List.take_succ_cons, List.take_zero]
  rcases kSel_cases t x _ hsel with ⟨h1, hk'⟩ | ⟨h1, h2, hk'⟩ | ⟨h1, h2, h3, hk'⟩
  · simp only [h1, if_true, bind_def]
    rw [← hk', readFullM_eq _ _ (by simp [hf])]
    simp [hf, ← h1, hdec]
  · subst h2
    simp only [atyp_ne1, ↓reduceIte, bind_def]
    rw [show (5 : Nat) = tail.length from hk'.symm, readFullM_eq _ _ (by simp [hf])]
    simp [hf, hdec]
  · subst h3
    simp only [atyp_ne2, atyp_ne3, ↓reduceIte, bind_def]
    rw [show (17 : Nat) = tail.length from hk'.symm, readFullM_eq _ _ (by simp [hf])]
    simp [hf, hdec]


/-- `transparent_after_handshake` (HTTP CONNECT server, any fragmentation, any number of 407 rounds):
when `ServerHandle` accepts a CONNECT, what the returned connection delivers (`s'.stream`: the bufio
read-ahead first, then the transport) is exactly what the client sent minus EXACTLY the request head(s):
`heads` are the raw lines of one head per request (`IsHead`: no line contains a line feed, every line but the
last is non-blank, the last is blank — i.e. each head is the shortest prefix ending in a blank line), every
request but the last was answered with 407 and nothing else was written. Nothing behind the head is lost,
duplicated or reordered.
The proof needs the regenerated fact `connectKeepsReadAhead = true`: it does not elaborate against a tree
whose CONNECT branch builds the pending connection on the raw connection (finding F5). -/
theorem transparent_after_handshake (tk : Option (List (Bytes × Bytes))) (s s' : St) (u : Bytes) (a : Addr)
    (h : serverHandleH C07.connectKeepsReadAhead tk s = (.ok (u, a), s')) :
    ∃ heads : List (List Bytes), heads ≠ [] ∧ (∀ hd ∈ heads, IsHead hd) ∧
      s.stream = (heads.map headBytes).flatten ++ s'.stream ∧
      s'.out = s.out ++ (List.replicate (heads.length - 1) C07.status407).flatten := by
  have hk : C07.connectKeepsReadAhead = true := by decide
  rw [hk] at h
  unfold serverHandleH at h
  simp only [bind_def, getFuel] at h
  cases hl : serverLoopH tk (s.inp.flatten.length + 1) s with
  | mk res s1 =>
    cases res with
    | error e => rw [hl] at h; simp at h
    | ok r =>
      obtain ⟨u1, hd⟩ := r
      rw [hl] at h
      simp only [] at h
      cases hp : parseAddr hd.target with
      | none => simp [hp] at h
      | some a1 =>
        simp [hp, keepReadAhead] at h
        obtain ⟨_, h2⟩ := h
        subst h2
        exact serverLoopH_heads tk _ s s1 (u1, hd) hl

/-- `transparent_after_handshake`, client side: when `ClientConnect` succeeds, the returned connection delivers
exactly what the proxy sent behind the response head (far side speaking first included), and the client
wrote exactly its CONNECT head. -/
theorem transparent_after_handshake_client (target : Addr) (hdr : Bytes) (s s' : St)
    (h : clientConnectH target hdr s = (.ok (), s')) :
    ∃ raw, IsHead raw ∧ s.stream = headBytes raw ++ s'.stream := by
  unfold clientConnectH at h
  simp only [C07.connectParts, bind_def, write_def] at h
  cases hr : readHeadM { inp := s.inp, out := s.out ++ _, buf := s.buf } with
  | mk res s1 =>
    rw [hr] at h
    cases res with
    | error e => simp at h
    | ok ls =>
      obtain ⟨_, raw, hraw, e1⟩ := readHeadM_head _ _ _ hr
      refine ⟨raw, hraw, ?_⟩
      have hs : s'.stream = s1.stream := by
        simp only [] at h
        cases ls with
        | nil => simp at h
        | cons sl hl =>
          simp only [liftE_def, bind_def] at h
          cases hps : parseStatusLine sl with
          | error e => simp [hps] at h
          | ok code =>
            simp only [hps] at h
            cases hph : parseHeaders hl with
            | error e => simp [hph] at h
            | ok hs =>
              simp only [hph] at h
              split at h
              · simp at h
              · simp at h; rw [← h]
      rw [hs]; exact e1

/-- Proceed() on an accepted CONNECT writes the 200 line and leaves the tunnel stream alone. -/
theorem proceedH_reply (s : St) :
    proceedH s = (.ok (), { s with out := s.out ++ C07.status200 }) ∧ (proceedH s).2.stream = s.stream :=
  ⟨rfl, rfl⟩

-- F5 witness (without the wrapper the bytes that arrived in the same segment as the CONNECT head are lost):
-- re-derived on every run by the engine's probes `f5-one-segment` / `f5-cut-inside-early` against the real code;
-- on such a tree `Gen.C07.connectKeepsReadAhead = false` and `transparent_after_handshake` does not elaborate.

/-- `connect_faithful`: conn.ParseAddr ∘ conn.Addr.String is the identity on every well-formed address an HTTP
CONNECT target can carry (`httpCarriable`, decidable: domain names without ':' '[' ']' / CTL / space and
characters outside the modelled URL set that do not spell an IP literal; every IPv4 address; IPv6 addresses
whose netip text parses back — evaluated by the engine on every generated address, never false so far).
The excluded names are run against the real client → server pair on every run (evidence notes). -/
theorem connect_faithful (a : Addr) (hw : a.wf = true) (hc : httpCarriable a = true) :
    parseAddr (addrString a) = some a :=
  parseAddr_addrString a hw hc

/-- the first Proxy-Authorization value that has the Basic scheme (what serverHandleBasicAuth looks at) -/
def firstBasic (hs : List (Bytes × Bytes)) : Option Bytes :=
  ((hs.filter (fun h => h.1 == str "proxy-authorization")).map (·.2)).find?
    (fun v => v.length > 6 && lower (v.take 6) == str "basic ")

/-- `basic_auth_gate`: for an injective token encoding (base64) and configured user names without ':'
(enforced by NewProxyServer), a request presenting user-pass `u:p` is honoured iff `(u, p)` is a configured
pair, and then attributed to `u`; a request without a Basic value is never honoured. -/
theorem basic_auth_gate (enc : Bytes → Bytes) (henc : ∀ a b, enc a = enc b → a = b)
    (users : List (Bytes × Bytes)) (hu : ∀ x ∈ users, COLON ∉ x.1) (hs : List (Bytes × Bytes)) :
    (firstBasic hs = none → basicAuth hs (tokenMap enc users) = none) ∧
    (∀ v u p, firstBasic hs = some v → v.drop 6 = enc (u ++ [COLON] ++ p) → COLON ∉ u →
      basicAuth hs (tokenMap enc users) = if (u, p) ∈ users then some u else none) := by
  constructor
  · intro h; unfold basicAuth; unfold firstBasic at h; rw [h]
  · intro v u p h ht hcu
    unfold basicAuth; unfold firstBasic at h; rw [h]
    simp only [ht]
    exact lookupToken_spec enc henc users hu u p hcu

-- hypotheses satisfiable: identity is an injective encoding; a carriable address
example : (∀ a b : Bytes, id a = id b → a = b) := fun _ _ h => h
example : httpCarriable (.dom [97, 46, 98] 443) = true ∧ (Addr.dom [97, 46, 98] 443).wf = true := by decide
example : httpCarriable (.v4 [1, 2, 3, 4] 80) = true := by decide

/-- Tie of the model's assumption "connections are independent" (each theorem above speaks about ONE connection):
the regenerated list of package-level variables and long-lived client/server object fields of socks5 /
httpproxy / ssnone that are not recognisably immutable is empty. A pool, a package-level buffer or a scratch
field shared across handshakes makes this side condition fail; the engine's `interleaved` family then looks
for the failing schedule. -/
theorem connections_share_no_state : C07.sharedState = [] := by decide

/-- a user found by the server's lookup is a listed user with that very name -/
theorem configured_user_is_listed (users : List (Bytes × Bytes)) (name u pw : Bytes)
    (h : lookupUser users name = some (u, pw)) : u = name ∧ (u, pw) ∈ users :=
  lookupUser_mem users name u pw h

-- the hypotheses are satisfiable: a configured user, a one-byte domain, early data, cut into single bytes
example : lookupUser [([117], [112])] [117] = some ([117], [112]) := by decide
example : ∃ cs : Chunks, cs.length = 18 ∧
    cs.flatten = s5ClientBytes [mUserPass] (some ([117], [112])) cmdConnect (.dom [97] 80) ++ [1, 2] :=
  ⟨(s5ClientBytes [mUserPass] (some ([117], [112])) cmdConnect (.dom [97] 80) ++ [1, 2]).map (fun b => [b]), by decide, by decide⟩
example : (Addr.dom [97] 80).wf = true := by decide
-- a wrong password for a configured user (hypothesis `hbad` of socks5_auth_gate)
example : lookupUser [([117], [112])] [117] = some ([117], [112]) ∧ ([113] : Bytes) ≠ [112] := by decide

end SSV.C07

#print axioms SSV.C07.reply_table
#print axioms SSV.C07.socks5_faithful
#print axioms SSV.C07.socks5_faithful_noauth
#print axioms SSV.C07.socks5_auth_gate
#print axioms SSV.C07.configured_user_is_listed
#print axioms SSV.C07.proceed_reply
#print axioms SSV.C07.abort_reports_dial_result
#print axioms SSV.C07.none_faithful
#print axioms SSV.C07.transparent_after_handshake
#print axioms SSV.C07.proceedH_reply
#print axioms SSV.C07.connections_share_no_state
#print axioms SSV.C07.transparent_after_handshake_client
#print axioms SSV.C07.connect_faithful
#print axioms SSV.C07.basic_auth_gate
#print axioms SSV.C07.abortH_reports_502
