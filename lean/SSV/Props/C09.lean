import SSV.Proofs.RouterTop
import SSV.Proofs.RouterExamples
import SSV.Proofs.RouterLoad
/-
C09 — Routing picks the first route whose documented conditions all hold.

Model: SSV/Model/Router.lean (router/route.go + router/router.go, with proposed_fixes/F3.diff applied).
Specification: SSV/Model/RouterSpec.lean (`specRoute`, `specMatch`, written from the RouteConfig field comments;
the readings adopted where the comments are silent are listed there as R1–R8).
Only the property theorems live here; lemmas are in SSV/Proofs/Router*.lean.

Hypotheses that exclude inputs (all decidable, all guaranteed by the callers in service/):
  * `env.servers.Nodup`   — service.Config rejects duplicate server names;
  * `q.WF env`            — the receiving server exists (ServerIndex < number of servers: the guard of
                            bitset.IsSet) and ports are uint16.
The request target is a valid conn.Addr (IP or domain) by the type `Target`.
-/
namespace SSV.C09
open SSV.Router SSV.Router.Spec SSV.Gen

/-! ### ties to the regenerated facts -/

/-- The order in which `RouteConfig.Route` runs its pre-checks and appends its criteria is the order `build` uses
(it decides which error surfaces first), and every criterion type is paired with the invert flag `build` pairs it with. -/
theorem criteria_order_tie :
    C09.precheckOrder = ["name", "geoip", "resolvers", "domainCriteria", "resolver"] ∧
    C09.criteriaOrder = ["network", "fromServers", "fromUsers", "fromPorts", "fromAddr", "toPorts", "toAddr"] ∧
    C09.addCriterionCalls = [
      ("route", "NetworkTCPCriterion", "false"),
      ("route", "NetworkUDPCriterion", "false"),
      ("route", "SourceServerCriterion", "rc.InvertFromServers"),
      ("route", "SourceUserCriterion", "rc.InvertFromUsers"),
      ("route", "SourcePortCriterion", "rc.InvertFromPorts"),
      ("route", "SourcePortRangeSetCriterion", "rc.InvertFromPorts"),
      ("route", "SourcePortSetCriterion", "rc.InvertFromPorts"),
      ("group", "SourceIPCriterion", "rc.InvertFromPrefixes"),
      ("group", "SourceGeoIPCountryCriterion", "rc.InvertFromGeoIPCountries"),
      ("route", "DestPortCriterion", "rc.InvertToPorts"),
      ("route", "DestPortRangeSetCriterion", "rc.InvertToPorts"),
      ("route", "DestPortSetCriterion", "rc.InvertToPorts"),
      ("expectedIPCriterionGroup", "DestResolvedIPCriterion", "rc.InvertToMatchedDomainExpectedPrefixes"),
      ("expectedIPCriterionGroup", "DestResolvedGeoIPCountryCriterion", "rc.InvertToMatchedDomainExpectedGeoIPCountries"),
      ("group", "DestDomainExpectedIPCriterion", "rc.InvertToDomains"),
      ("group", "DestDomainCriterion", "rc.InvertToDomains"),
      ("group", "DestIPCriterion", "rc.InvertToPrefixes"),
      ("group", "DestResolvedIPCriterion", "rc.InvertToPrefixes"),
      ("group", "DestGeoIPCountryCriterion", "rc.InvertToGeoIPCountries"),
      ("group", "DestResolvedGeoIPCountryCriterion", "rc.InvertToGeoIPCountries")] :=
  ⟨rfl, rfl, rfl⟩

/-- The control-flow functions that `meetAll`, `R.invert`, `meetOr`, `groupCriterion`, `groupAppend`, the
`dstDomainExpected` case of `meet`, `lookup`, `matchRoutes` and `Route.clientFor` mirror statement by statement
still have the source text the model was written from. -/
theorem control_flow_tie :
    C09.srcRouteMatch = "{ for _, criterion := range r.criteria { met, err := criterion.Meet(ctx, network, requestInfo) if !met { return false, err } } return true, nil }" ∧
    C09.srcInvertedMeet = "{ met, err := c.Inner.Meet(ctx, network, requestInfo) if err != nil { return false, err } return !met, nil }" ∧
    C09.srcGroupMeet = "{ for _, criterion := range g.Criteria { met, err := criterion.Meet(ctx, network, requestInfo) if err != nil { return false, err } if met { return true, nil } } return false, nil }" ∧
    C09.srcGroupCriterion = "{ switch len(g.Criteria) { case 0: return nil case 1: return g.Criteria[0] default: return g } }" ∧
    C09.srcGroupAppendTo = "{ switch len(g.Criteria) { case 0: return criteria case 1: return append(criteria, g.Criteria[0]) default: return append(criteria, g) } }" ∧
    C09.srcDomainExpectedMeet = "{ met, err := c.destDomainCriterion.Meet(ctx, network, requestInfo) if !met { return false, err } return c.expectedIPCriterion.Meet(ctx, network, requestInfo) }" ∧
    C09.srcLookup = "{ for _, resolver := range resolvers { ip, err = resolver.LookupIP(ctx, domain) if err == dns.ErrLookup { continue } return } return ip, errNoAvailableResolvers }" ∧
    C09.srcRouterMatch = "{ for i := range r.routes { matched, err := r.routes[i].Match(ctx, network, requestInfo) if err != nil { return nil, err } if matched { return &r.routes[i], nil } } panic(\"did not match default route\") }" ∧
    C09.srcRouteTCPClient = "{ if r.tcpClient == nil { return nil, ErrRejected } return r.tcpClient, nil }" ∧
    C09.srcRouteUDPClient = "{ if r.udpClient == nil { return nil, ErrRejected } return r.udpClient, nil }" :=
  ⟨rfl, rfl, rfl, rfl, rfl, rfl, rfl, rfl, rfl, rfl⟩

/-- service.Config.Manager still builds the `resolvers` slice and `resolverMap` in the one loop that
`serviceResolvers` (SSV/Model/RouterService.lean) mirrors: duplicate names refused, the same resolver object stored at
`resolvers[i]` and under its configured name. -/
theorem resolver_construction_tie :
    C09.srcServiceResolverLoop = "for i := range sc.DNS { resolverConfig := &sc.DNS[i] if _, ok := resolverMap[resolverConfig.Name]; ok { return nil, fmt.Errorf(\"duplicate DNS resolver name: %q\", resolverConfig.Name) } resolver, err := resolverConfig.NewSimpleResolver(tcpClientMap, udpClientMap, logger) if err != nil { return nil, fmt.Errorf(\"failed to create DNS resolver %q: %w\", resolverConfig.Name, err) } resolvers[i] = resolver resolverMap[resolverConfig.Name] = resolver }" :=
  rfl

/-- **resolvers_agree.** What service.Config.Manager passes to the router: the slice holds the configured resolvers in
configuration order, the map has exactly the same names, and no name occurs twice — so "the resolver called n"
(`RouteConfig.Resolver`) is one of the resolvers of the slice and is unambiguous. (The router theorems themselves hold
for any pair of slice and map.) -/
theorem resolvers_agree (env env' : Env) (dns : List String) (h : env.withServiceResolvers dns = some env') :
    env'.resolvers = dns ∧ env'.resolverMap = dns ∧ dns.Nodup ∧
      (∀ rc : RouteConfig, rc.resolver ≠ "" →
        (resolversFor env' rc = .ok [rc.resolver] ↔ rc.resolver ∈ env'.resolvers)) := by
  unfold Env.withServiceResolvers at h
  split at h
  · cases h
  · rename_i sl ks hs
    cases h
    obtain ⟨a, b, c⟩ := serviceResolvers_spec dns [] [] sl ks rfl (by simp) hs
    simp only [List.nil_append] at b
    subst b; subst a
    refine ⟨rfl, rfl, c, ?_⟩
    intro rc hne
    unfold resolversFor
    simp only [hne, if_false]
    constructor
    · intro h
      split at h
      · rename_i hc; exact List.contains_iff_mem.mp hc
      · cases h
    · intro h
      rw [if_pos (List.contains_iff_mem.mpr h)]

/-- The literals of `RouteConfig.Route` are the documented ones: a single port is stored as a port, up to 16
ranges as a range set, more as a bit set; all 65535 ports is refused; "reject", "tcp", "udp". -/
theorem literals_tie :
    C09.srcPortSingleCount = 1 ∧ C09.srcPortAllCount = 65535 ∧ C09.srcPortMaxRanges = 16 ∧
    C09.dstPortSingleCount = 1 ∧ C09.dstPortAllCount = 65535 ∧ C09.dstPortMaxRanges = 16 ∧
    C09.rejectName = "reject" ∧ C09.networkNames = ["", "tcp", "udp"] ∧ C09.badRouteNames = ["", "default"] :=
  ⟨rfl, rfl, rfl, rfl, rfl, rfl, rfl, rfl, rfl⟩

/-- Finding F3 (repaired by proposed_fixes/F3.diff): both `*PortSetCriterion.Meet` methods return (false, nil) for
port 0 before they call `PortSet.Contains`, which panics on 0 by contract. -/
theorem port_zero_guard_tie : C09.srcPortSetGuardsZero = true ∧ C09.dstPortSetGuardsZero = true := ⟨rfl, rfl⟩

/-- Without the guard the bit-set criterion panics on port 0 (what the pinned tree did: finding F3). -/
theorem unguarded_port_zero_panics (s : PortSet) : portSetMeet false s 0 = .panic := rfl

/-! ### the property -/

/-- **route_build_sound.** For every route configuration that loads, every request and every behaviour of the
resolvers, domain sets, prefix sets and GeoIP, `Route.Match` on the built criteria decides exactly the documented
condition — same verdict, same error, never a panic. -/
theorem route_build_sound (p : Params) (env : Env) (rc : RouteConfig) (route : Route) (q : Req)
    (hnd : env.servers.Nodup) (hq : q.WF env) (hb : build env rc = .ok route) :
    meetAll p q route.criteria = R.ofV (specRoute p env rc q) :=
  route_sound p env rc route q hnd hq hb

/-- **first_match.** For every router configuration that loads, `GetTCPClient` / `GetUDPClient` return what the
specification says: the client of the first route, in configuration order, whose conditions all hold; an error if
a condition of an earlier-or-equal route cannot be decided; otherwise the default client; reject ⇒ rejected.
And the route `Router.match` returns (whose name the router logs) is that very route: the first one in configuration
order whose documented conditions all hold, "default" if there is none, no route at all on an error. -/
theorem first_match (p : Params) (env : Env) (cfg : Config) (r : Router) (q : Req)
    (hnd : env.servers.Nodup) (hq : q.WF env) (hb : buildRouter env cfg = .ok r) :
    getClient p r q = specMatch p env cfg q ∧ matchedRoute p r q = specMatchedRoute p env cfg q :=
  router_spec p env cfg r q hnd hq hb

/-- `specMatchedRoute` spelled out: the name of a route whose conditions all hold and that is preceded only by
non-matching routes; "default" when every route is a non-match. -/
theorem matched_route_spelled_out (p : Params) (env : Env) (cfg : Config) (q : Req) :
    (∀ pre rc post, cfg.routes = pre ++ rc :: post → (∀ x ∈ pre, specRoute p env x q = .f) →
        specRoute p env rc q = .t → specMatchedRoute p env cfg q = some rc.name) ∧
    ((∀ x ∈ cfg.routes, specRoute p env x q = .f) → specMatchedRoute p env cfg q = some "default") ∧
    (∀ pre rc post x, cfg.routes = pre ++ rc :: post → (∀ y ∈ pre, specRoute p env y q = .f) →
        specRoute p env rc q = .e x → specMatchedRoute p env cfg q = none) := by
  have skip : ∀ pre rest, (∀ x ∈ pre, specRoute p env x q = .f) →
      specRouteNames p env q (pre ++ rest) = specRouteNames p env q rest := by
    intro pre rest h
    induction pre with
    | nil => rfl
    | cons a pre ih =>
      simp only [List.cons_append, specRouteNames, h a List.mem_cons_self]
      exact ih (fun x hx => h x (List.mem_cons_of_mem _ hx))
  refine ⟨?_, ?_, ?_⟩
  · intro pre rc post e hpre ht
    unfold specMatchedRoute
    rw [e, skip pre _ hpre]
    simp only [specRouteNames, ht]
  · intro h
    unfold specMatchedRoute
    have := skip cfg.routes [] h
    rw [List.append_nil] at this
    rw [this]; rfl
  · intro pre rc post x e hpre hx
    unfold specMatchedRoute
    rw [e, skip pre _ hpre]
    simp only [specRouteNames, hx]

/-- `specMatch` spelled out: (1) a route whose conditions all hold, preceded only by routes that do not match, wins;
(2) if no route matches the default client is used; (3) a route whose conditions cannot be decided, preceded only by
routes that do not match, makes the request fail with that error. -/
theorem first_match_spelled_out (p : Params) (env : Env) (cfg : Config) (q : Req) :
    (∀ pre rc post, cfg.routes = pre ++ rc :: post → (∀ x ∈ pre, specRoute p env x q = .f) →
        specRoute p env rc q = .t → specMatch p env cfg q = specClient rc.client) ∧
    ((∀ x ∈ cfg.routes, specRoute p env x q = .f) → specMatch p env cfg q = specDefault env cfg q.net) ∧
    (∀ pre rc post x, cfg.routes = pre ++ rc :: post → (∀ y ∈ pre, specRoute p env y q = .f) →
        specRoute p env rc q = .e x → specMatch p env cfg q = .error x) := by
  have skip : ∀ pre rest, (∀ x ∈ pre, specRoute p env x q = .f) →
      specRoutes p env cfg q (pre ++ rest) = specRoutes p env cfg q rest := by
    intro pre rest h
    induction pre with
    | nil => rfl
    | cons a pre ih =>
      simp only [List.cons_append, specRoutes, h a List.mem_cons_self]
      exact ih (fun x hx => h x (List.mem_cons_of_mem _ hx))
  refine ⟨?_, ?_, ?_⟩
  · intro pre rc post e hpre ht
    unfold specMatch
    rw [e, skip pre _ hpre]
    simp only [specRoutes, ht]
  · intro h
    unfold specMatch
    have := skip cfg.routes [] h
    rw [List.append_nil] at this
    rw [this]; rfl
  · intro pre rc post x e hpre hx
    unfold specMatch
    rw [e, skip pre _ hpre]
    simp only [specRoutes, hx]

/-- The order-free reading of `specRoute` (R1): a match means every documented condition holds; a non-match means
some condition is definitely false; an error means some condition could not be decided with that very error.
In particular a condition that cannot be decided never turns into a match. -/
theorem conds_all_hold (p : Params) (env : Env) (rc : RouteConfig) (q : Req) :
    (specRoute p env rc q = .t ↔ ∀ v ∈ conds p env rc q, v = .t) ∧
    (specRoute p env rc q = .f → ∃ v ∈ conds p env rc q, v = .f) ∧
    (∀ x, specRoute p env rc q = .e x → ∃ v ∈ conds p env rc q, v = .e x) :=
  ⟨allV_eq_t_iff _, allV_eq_f _, fun x => allV_eq_e _ x⟩

/-- **Resolver failures never become a silent match.** If the target is a domain whose resolution fails, a route
that restricts the destination by IP prefixes only (no domain kind, no GeoIP kind, name resolution not disabled)
does not match: the request fails with the resolver's error unless an earlier condition already excludes the route. -/
theorem resolver_failure_never_matches (p : Params) (env : Env) (rc : RouteConfig) (q : Req) (d : String) (x : Err)
    (hd : q.target = .domain d) (hfail : resolveSpec p env rc d = .error x)
    (hdom : (rc.toDomains.isEmpty && rc.toDomainSets.isEmpty) = true) (hgeo : rc.toGeoIPCountries.isEmpty = true)
    (hpfx : (rc.toPrefixes.isEmpty && rc.toPrefixSets.isEmpty) = false)
    (hres : rc.disableNameResolutionForIPRules = false) :
    cToAddr p env rc q = .e x ∧ specRoute p env rc q ≠ .t := by
  have h1 : cToAddr p env rc q = .e x := by
    simp [cToAddr, kToDomains, kToPrefixes, kToGeo, hdom, hgeo, hpfx, destIPCond, hd, hres, resolvedV, hfail,
      orKinds, anyV, V.or, V.inv]
  refine ⟨h1, ?_⟩
  intro ht
  have := ((conds_all_hold p env rc q).1.mp ht) (cToAddr p env rc q) (by simp [conds])
  rw [h1] at this; cases this

/-- **port_representations_agree.** Whatever representation `RouteConfig.Route` picks for a port condition — a
single port (`PortSet.First` of a one-element set), a range set searched by binary search (`PortSet.RangeSet`), or
the bit set itself — the criterion decides membership in the same set, for every port 0..65535 (port 0 is in no set). -/
theorem port_representations_agree (p : Params) (q : Req) (s : PortSet) (hs0 : s.mem 0 = false)
    (hsp : q.srcPort < portSpace) (hdp : q.dstPort < portSpace) :
    (s.count = 1 → meet p q (.srcPort s.first) = R.ofBool (s.mem q.srcPort)) ∧
    meet p q (.srcPortRanges s.rangeSet) = R.ofBool (s.mem q.srcPort) ∧
    meet p q (.srcPortSet s) = R.ofBool (s.mem q.srcPort) ∧
    (s.count = 1 → meet p q (.dstPort s.first) = R.ofBool (s.mem q.dstPort)) ∧
    meet p q (.dstPortRanges s.rangeSet) = R.ofBool (s.mem q.dstPort) ∧
    meet p q (.dstPortSet s) = R.ofBool (s.mem q.dstPort) := by
  refine ⟨?_, ?_, ?_, ?_, ?_, ?_⟩
  · intro h1; simp only [meet]; rw [first_of_count_one s h1 _ hsp]
  · simp only [meet]; rw [rangeSet_contains s _ hsp]
  · simp only [meet, srcGuard]; exact portSetMeet_guarded s hs0 _
  · intro h1; simp only [meet]; rw [first_of_count_one s h1 _ hdp]
  · simp only [meet]; rw [rangeSet_contains s _ hdp]
  · simp only [meet, dstGuard]; exact portSetMeet_guarded s hs0 _

/-- the table `RouteConfig.Route` builds from `ports` + `portRanges` holds exactly the denoted ports (so the
hypothesis `s.mem 0 = false` of `port_representations_agree` holds for every table the router builds) -/
theorem port_table_denotes (b1 b2 : BuildErr) (ports : List Nat) (str : List UInt8) (s1 s2 : PortSet)
    (h1 : addPorts b1 .empty ports = .ok s1) (h2 : addPieces b2 s1 (SSV.PortSet.items str) = .ok s2) :
    (∀ x, s2.mem x = portsDenote ports str x) ∧ s2.mem 0 = false :=
  portTable_spec .empty PortSet.wf_empty PortSet.mem_empty b1 b2 ports str s1 s2 h1 h2

/-- **malformed_port_ranges_rejected.** `fromPortRanges` / `toPortRanges` are modelled as the strings that are written in
the configuration. If any comma-separated piece is not a decimal port 1..65535 or `lo-hi` with 1 ≤ lo < hi ≤ 65535
(empty piece, stray characters, sign, port 0, value above 65535, reversed or one-port range, a second dash, ...) the route
does not load. (For routes that do load, `route_build_sound` says the port condition is membership in what the written
string denotes: `portsDenote`.) -/
theorem malformed_port_ranges_rejected (env : Env) (rc : RouteConfig)
    (h : (∃ pc ∈ SSV.PortSet.items rc.fromPortRanges, SSV.PortSet.parseItem pc = none) ∨
         (∃ pc ∈ SSV.PortSet.items rc.toPortRanges, SSV.PortSet.parseItem pc = none)) :
    ∀ route, build env rc ≠ .ok route := by
  intro route hb
  obtain ⟨h1, h2⟩ := build_pieces_ok env rc route hb
  rcases h with ⟨pc, hm, hn⟩ | ⟨pc, hm, hn⟩
  · exact h1 pc hm hn
  · exact h2 pc hm hn

/-- **unknown_user_never_matches_fromUsers.** A route with a (non-inverted) `fromUsers` list never matches a request
whose user name is not in the list — an unknown user, or the empty user name of an unauthenticated request unless ""
itself is listed: the users condition is false, so the specification says no match, and so does `Route.Match` on the
built route. With `invertFromUsers` the same request satisfies the users condition. -/
theorem unknown_user_never_matches_fromUsers (p : Params) (env : Env) (rc : RouteConfig) (q : Req)
    (hl : rc.fromUsers.isEmpty = false) (hu : q.user ∉ rc.fromUsers) :
    (rc.invertFromUsers = false →
      cUsers rc q = .f ∧ specRoute p env rc q ≠ .t ∧
      ∀ route, env.servers.Nodup → q.WF env → build env rc = .ok route → meetAll p q route.criteria ≠ .yes) ∧
    (rc.invertFromUsers = true → cUsers rc q = .t) := by
  have hc : rc.fromUsers.contains q.user = false := by
    rw [Bool.eq_false_iff]; intro h; exact hu (List.contains_iff_mem.mp h)
  constructor
  · intro hi
    have h1 : cUsers rc q = .f := by simp [cUsers, hl, hu, hi, V.ofBool, V.inv]
    have h2 : specRoute p env rc q ≠ .t := by
      intro ht
      have := ((conds_all_hold p env rc q).1.mp ht) (cUsers rc q) (by simp [conds])
      rw [h1] at this; cases this
    refine ⟨h1, h2, ?_⟩
    intro route hnd hq hb hy
    rw [route_build_sound p env rc route q hnd hq hb] at hy
    cases hv : specRoute p env rc q with
    | t => exact h2 hv
    | f => rw [hv] at hy; cases hy
    | e x => rw [hv] at hy; cases hy
  · intro hi
    simp [cUsers, hl, hu, hi, V.ofBool, V.inv]

/-- **no_panic.** No request makes a loaded router panic: not the bit-set port criterion on port 0 (F3, guarded),
not `bitset.IsSet` (server index below the capacity), not a nil criterion of an empty OR group, and the trailing
default route always matches ("did not match default route" is unreachable). -/
theorem no_panic (p : Params) (env : Env) (cfg : Config) (r : Router) (q : Req)
    (hnd : env.servers.Nodup) (hq : q.WF env) (hb : buildRouter env cfg = .ok r) :
    getClient p r q ≠ .panic := by
  rw [(first_match p env cfg r q hnd hq hb).1]
  exact specRoutes_ne_panic p env cfg q cfg.routes

/-- **load_no_panic.** Loading a configuration never reaches the `panic("unreachable")` of `RouteConfig.Route`
(`case 0` of `switch portCount`): port lists that passed validation denote at least one port. Every other way
in which `build` / `buildRouter` can fail is an ordinary load error. -/
theorem load_no_panic (env : Env) (cfg : Config) :
    buildRouter env cfg ≠ .error .unreachable ∧ ∀ rc, build env rc ≠ .error .unreachable :=
  ⟨buildRouter_ne_unreachable env cfg, fun rc => build_ne_unreachable env rc⟩

/-! ### the hypotheses are satisfiable -/

def exEnv : Env :=
  { resolvers := ["dns"], resolverMap := ["dns"], tcpClients := ["a", "b"], udpClients := ["a", "b"], servers := ["s0", "s1"], pfxSets := ["lan"] }
def exRoute : RouteConfig :=
  { name := "r1", client := "b", network := "tcp", fromServers := ["s1"], toDomains := ["x.test"],
    toMatchedDomainExpectedPrefixSets := ["lan"], toPrefixes := [⟨.v4 167772160, 8⟩], invertToPrefixes := true }
def exCfg : Config := { defaultTCPClientName := "a", defaultUDPClientName := "reject", routes := [exRoute] }
def exReq : Req :=
  { net := .tcp, server := 1, user := "u", srcIP := .v6 281470698520577, srcPort := 0, target := .domain "x.test", dstPort := 65535 }

example : exEnv.servers.Nodup := by decide
example : exReq.WF exEnv := ⟨by decide, by decide, by decide⟩
example : ∃ r, build exEnv exRoute = .ok r := ⟨_, rfl⟩
example : ∃ r, buildRouter exEnv exCfg = .ok r := ⟨_, rfl⟩
/-- hypotheses of `first_match_spelled_out` (1) and (3): a route list with a first element -/
example : exCfg.routes = [] ++ exRoute :: [] := rfl
/-- hypotheses of `resolver_failure_never_matches`: a resolver that fails, a prefix-only route, a domain target -/
example : ∃ (p : Params) (rc : RouteConfig) (q : Req) (d : String) (x : Err),
    q.target = .domain d ∧ resolveSpec p exEnv rc d = .error x ∧
    (rc.toDomains.isEmpty && rc.toDomainSets.isEmpty) = true ∧ rc.toGeoIPCountries.isEmpty = true ∧
    (rc.toPrefixes.isEmpty && rc.toPrefixSets.isEmpty) = false ∧ rc.disableNameResolutionForIPRules = false :=
  ⟨{ resolve := fun _ _ => .fail "servfail", domSet := fun _ _ => false, pfxSet := fun _ _ => false,
     pfx := Prefix.contains, country := fun _ => none },
   { name := "r", client := "a", toPrefixes := [⟨.v4 0, 0⟩] }, exReq, "x.test", .resolver "servfail",
   rfl, rfl, rfl, rfl, rfl, rfl⟩
/-- hypotheses of `port_representations_agree` / `port_table_denotes`: the empty table has bit 0 clear -/
example : Router.PortSet.empty.mem 0 = false := Router.PortSet.mem_empty 0
/-- the single-port conjuncts of `port_representations_agree` are not vacuous: a table with exactly one port -/
example : ∃ s : PortSet, s.count = 1 ∧ s.mem 0 = false := ⟨onePort, onePort_count, onePort_zero⟩
example : ∃ s1 s2, addPorts .badToPorts .empty [] = .ok s1 ∧ addPieces .badToPortRanges s1 (SSV.PortSet.items []) = .ok s2 :=
  ⟨_, _, rfl, rfl⟩
/-- hypothesis of `malformed_port_ranges_rejected`: "80,,443" has an empty piece; "5-5" is a one-port range; "0" is port 0 -/
example : ∃ pc ∈ SSV.PortSet.items [56, 48, 44, 44, 52, 52, 51], SSV.PortSet.parseItem pc = none := ⟨[], by decide, by decide⟩
example : SSV.PortSet.parseItem [53, 45, 53] = none := by decide
example : SSV.PortSet.parseItem [48] = none := by decide
/-- ... while "80,8000-8100" is well-formed and denotes 8050 but not 81 -/
example : rangesDenote [56, 48, 44, 56, 48, 48, 48, 45, 56, 49, 48, 48] 8050 = true ∧
    rangesDenote [56, 48, 44, 56, 48, 48, 48, 45, 56, 49, 48, 48] 81 = false := by decide
/-- hypotheses of `unknown_user_never_matches_fromUsers`: a list without the empty user name, an unauthenticated request -/
example : (["alice"] : List String).isEmpty = false ∧ "" ∉ (["alice"] : List String) := by decide
/-- hypothesis of `resolvers_agree`: two resolvers with different names -/
example : ∃ env', exEnv.withServiceResolvers ["dns1", "dns2"] = some env' := ⟨_, rfl⟩
/-- ... and a duplicate name is refused, as in service.Config.Manager -/
example : exEnv.withServiceResolvers ["dns1", "dns1"] = none := rfl

end SSV.C09

#print axioms SSV.C09.criteria_order_tie
#print axioms SSV.C09.control_flow_tie
#print axioms SSV.C09.literals_tie
#print axioms SSV.C09.port_zero_guard_tie
#print axioms SSV.C09.unguarded_port_zero_panics
#print axioms SSV.C09.route_build_sound
#print axioms SSV.C09.first_match
#print axioms SSV.C09.first_match_spelled_out
#print axioms SSV.C09.matched_route_spelled_out
#print axioms SSV.C09.resolver_construction_tie
#print axioms SSV.C09.resolvers_agree
#print axioms SSV.C09.malformed_port_ranges_rejected
#print axioms SSV.C09.unknown_user_never_matches_fromUsers
#print axioms SSV.C09.conds_all_hold
#print axioms SSV.C09.resolver_failure_never_matches
#print axioms SSV.C09.port_representations_agree
#print axioms SSV.C09.port_table_denotes
#print axioms SSV.C09.no_panic
#print axioms SSV.C09.load_no_panic
