import SSV.Model.Router
/-
C09 — property theorems (first pass: ties to the regenerated facts; the full-strength theorems follow).
-/
namespace SSV.C09
open SSV.Router SSV.Gen

/-- The order in which `RouteConfig.Route` appends criteria (and pairs them with invert flags) is the order
the model `build` was written from. -/
theorem criteria_order_tie :
    C09.criteriaOrder = ["network", "fromServers", "fromUsers", "fromPorts", "fromAddr", "toPorts", "toAddr"] ∧
    C09.precheckOrder = ["name", "geoip", "resolvers", "domainCriteria", "resolver"] := by
  decide

end SSV.C09

#print axioms SSV.C09.criteria_order_tie
